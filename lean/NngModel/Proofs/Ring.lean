/- index arithmetic shared by the two ring buffers (lmq: power-of-two mask, msgq: compare-and-reset) -/
namespace Nng.Ring

/-- the `i`-th slot of a window starting at `g` in a ring of `n` slots -/
def idx (n g i : Nat) : Nat := if g + i < n then g + i else g + i - n

/-- advancing an index by one with wrap at `n` -/
def next (n g : Nat) : Nat := if g + 1 < n then g + 1 else 0

theorem idx_zero {n g : Nat} (h : g < n) : idx n g 0 = g := by simp [idx, h]

theorem idx_lt {n g i : Nat} (hg : g < n) (hi : i ≤ n) : idx n g i < n := by
  unfold idx; split <;> omega

theorem idx_succ {n g i : Nat} (hg : g < n) (hi : i < n) : idx n g (i + 1) = next n (idx n g i) := by
  unfold idx next; split <;> split <;> split <;> omega

theorem idx_next {n g i : Nat} (hg : g < n) (hi : i < n) : idx n (next n g) i = idx n g (i + 1) := by
  unfold idx next; split <;> split <;> split <;> omega

theorem idx_ne {n g i j : Nat} (hg : g < n) (hij : i < j) (hj : j < n) : idx n g i ≠ idx n g j := by
  unfold idx; split <;> split <;> omega

theorem idx_full {n g : Nat} (_hg : g < n) : idx n g n = g := by
  unfold idx; split <;> omega

theorem next_lt {n g : Nat} (hn : 0 < n) : next n g < n := by
  unfold next; split <;> omega

/-- `x & (2^k - 1)` for `x ≤ 2^k` -/
theorem and_mask_le {k x : Nat} (h : x ≤ 2 ^ k) : x &&& (2 ^ k - 1) = if x < 2 ^ k then x else 0 := by
  rw [Nat.and_two_pow_sub_one_eq_mod]
  split
  · exact Nat.mod_eq_of_lt ‹_›
  · have : x = 2 ^ k := by omega
    subst this; exact Nat.mod_self _

theorem and_mask_next {k g : Nat} (h : g < 2 ^ k) : (g + 1) &&& (2 ^ k - 1) = next (2 ^ k) g := by
  rw [and_mask_le (by omega)]; rfl

end Nng.Ring
