/-
  Every step of the raw SURVEYOR / RESPONDENT models preserves the invariant.
-/
import NngModel.Proofs.RawSurvInv
namespace Nng.RawSurv
open Nng Nng.Proto Nng.RawMq

theorem pending_nil (q : Mq) (hi : q.items = []) (hp : q.putq = []) : pending q = [] := by simp [pending, hi, hp]

/-- a reader takes the oldest owed message `m` -/
theorem urqInv_take {k : Kind} {q q' : Mq} {delivered lost : List WMsg} {accepted : List Arr} (m : WMsg)
    (hu : UrqInv k q delivered lost accepted) (hp : pending q = m :: pending q') (hg : q'.getq = []) (hc : q'.cap = q.cap)
    (ho : q'.items.length ≤ q.items.length) : UrqInv k q' (delivered ++ [m]) lost accepted := by
  refine ⟨fun hne => absurd hg hne, by rw [hc]; exact Nat.le_trans ho hu.occ, by rw [hc]; exact hu.capk, ?_, ?_, hu.hdr⟩
  · have := hu.acct; rw [hp] at this; simpa using this
  · have := hu.order; rw [hp] at this; simpa using this

/-- a reader parks at a queue that owes nothing -/
theorem urqInv_park {k : Kind} {q q' : Mq} {delivered lost : List WMsg} {accepted : List Arr}
    (hu : UrqInv k q delivered lost accepted) (hp : pending q = []) (hi : q'.items = []) (hq : q'.putq = []) (hc : q'.cap = q.cap) :
    UrqInv k q' delivered lost accepted := by
  refine ⟨fun _ => ⟨hi, hq⟩, by rw [hi]; simp, by rw [hc]; exact hu.capk, ?_, ?_, hu.hdr⟩
  · have := hu.acct; rw [hp] at this; rw [pending_nil _ hi hq]; exact this
  · have := hu.order; rw [hp] at this; rw [pending_nil _ hi hq]; exact this

/-- an accepted arrival `a` joins the end of what the queue owes, or goes straight to a waiting reader -/
theorem urqInv_put_reader {k : Kind} {q q' : Mq} {delivered lost : List WMsg} {accepted : List Arr} (a : Arr)
    (hu : UrqInv k q delivered lost accepted) (hp : pending q = []) (hp' : pending q' = []) (hi : q'.items = []) (hq : q'.putq = [])
    (hc : q'.cap = q.cap) (ha : k.recvFn a.ttl a.pipe a.bytes = .deliver a.m.hdr a.m.body ∧ a.ttl ≤ Nng.Generated.maxMaxTtl) :
    UrqInv k q' (delivered ++ [a.m]) lost (accepted ++ [a]) := by
  refine ⟨fun _ => ⟨hi, hq⟩, by rw [hi]; simp, by rw [hc]; exact hu.capk, ?_, ?_, ?_⟩
  · have := hu.acct; rw [hp] at this; rw [hp']
    simp only [List.append_nil, List.map_append, List.map_cons, List.map_nil] at this ⊢
    rw [List.append_assoc]
    exact perm_ins a.m this
  · have := hu.order; rw [hp] at this; rw [hp']
    simp only [List.append_nil, List.map_append, List.map_cons, List.map_nil] at this ⊢
    exact List.Sublist.append this (List.Sublist.refl _)
  · intro x hx
    simp only [List.mem_append, List.mem_singleton] at hx
    rcases hx with hx | rfl
    · exact hu.hdr x hx
    · exact ha

theorem urqInv_put_queue {k : Kind} {q q' : Mq} {delivered lost : List WMsg} {accepted : List Arr} (a : Arr)
    (hu : UrqInv k q delivered lost accepted) (hp' : pending q' = pending q ++ [a.m]) (hg : q'.getq = [])
    (hc : q'.cap = q.cap) (ho : q'.items.length ≤ q.cap)
    (ha : k.recvFn a.ttl a.pipe a.bytes = .deliver a.m.hdr a.m.body ∧ a.ttl ≤ Nng.Generated.maxMaxTtl) :
    UrqInv k q' delivered lost (accepted ++ [a]) := by
  refine ⟨fun hne => absurd hg hne, by rw [hc]; exact ho, by rw [hc]; exact hu.capk, ?_, ?_, ?_⟩
  · have := hu.acct; rw [hp']
    simp only [List.map_append, List.map_cons, List.map_nil]
    have e : delivered ++ (pending q ++ [a.m]) ++ lost = (delivered ++ pending q) ++ a.m :: lost := by simp
    rw [e]
    exact perm_ins a.m this
  · have := hu.order; rw [hp']
    simp only [List.map_append, List.map_cons, List.map_nil]
    rw [← List.append_assoc]
    exact List.Sublist.append this (List.Sublist.refl _)
  · intro x hx
    simp only [List.mem_append, List.mem_singleton] at hx
    rcases hx with hx | rfl
    · exact hu.hdr x hx
    · exact ha

theorem inv_handed {k : Kind} {sel : Sel} (S : State) (w : Put) (g : Get) (h1 : UwqInv S.opened S.closed S.uwq)
    (h2 : UrqInv k S.urq (S.delivered ++ [w.msg]) S.lost S.accepted) (h3 : PipesInv sel k.sqCap S.pipes S.sent)
    (h4 : S.ttl ≤ Nng.Generated.maxMaxTtl) : Inv k sel (urqEvent S (.handed w g)).1 := by
  rw [urqEvent_handed]
  obtain ⟨ps, e1, hps⟩ := armPipe_eq sel k.sqCap S w.tag
  rw [e1]
  exact ⟨h1, ⟨h2, hps h3, h4⟩⟩

theorem inv_queued {k : Kind} {sel : Sel} (es : List MqEv) (S : State) (hq : ∀ e ∈ es, ∃ w, e = .queued w) (h : Inv k sel S) :
    Inv k sel (applyEvents S es).1 := by
  unfold applyEvents
  obtain ⟨ps, e1, hps⟩ := applyQueued sel k.sqCap es S [] hq
  rw [e1]
  exact ⟨h.uwq, ⟨h.core.urq, hps h.core.pipes, h.core.ttl⟩⟩

/-- recv_cb -/
theorem pipeRecv_inv {k : Kind} {sel : Sel} (s : State) (p : Nat) (pp : Pipe) (b : Bytes) (h : Inv k sel s)
    (hg : getPipe s p = some pp) : Inv k sel (pipeRecv k s p pp b).1 := by
  have hpo := h.core.pipes p pp hg
  have h1 : Inv k sel (setPipe s p { pp with armed := false }) :=
    ⟨h.uwq, ⟨h.core.urq, pipesInv_set h.core.pipes p _ (pipeOK_armed hpo false), h.core.ttl⟩⟩
  have h2 : Inv k sel (setPipe (setPipe s p { pp with armed := false }) p { pp with armed := true }) :=
    ⟨h.uwq, ⟨h.core.urq, pipesInv_set h1.core.pipes p _ (pipeOK_armed hpo true), h.core.ttl⟩⟩
  unfold pipeRecv
  simp only []
  have httl : (setPipe s p { pp with armed := false }).ttl = s.ttl := rfl
  cases hr : k.recvFn (setPipe s p { pp with armed := false }).ttl p b with
  | drop => exact h2
  | dropEinval => exact h2
  | closePipe => exact closePipe_inv _ p h1
  | panic => exact h1
  | deliver hd bd =>
    simp only []
    have ha : k.recvFn (⟨p, s.ttl, b, ⟨hd, bd⟩⟩ : Arr).ttl (⟨p, s.ttl, b, ⟨hd, bd⟩⟩ : Arr).pipe (⟨p, s.ttl, b, ⟨hd, bd⟩⟩ : Arr).bytes
        = .deliver (⟨p, s.ttl, b, ⟨hd, bd⟩⟩ : Arr).m.hdr (⟨p, s.ttl, b, ⟨hd, bd⟩⟩ : Arr).m.body ∧
        (⟨p, s.ttl, b, ⟨hd, bd⟩⟩ : Arr).ttl ≤ Nng.Generated.maxMaxTtl := ⟨hr, h.core.ttl⟩
    have hu := h.core.urq
    cases hgq : s.urq.getq with
    | cons r rs =>
      obtain ⟨hi, hq⟩ := hu.rd (by rw [hgq]; simp)
      have e : aioPut (setPipe s p { pp with armed := false }).urq ⟨p, ⟨hd, bd⟩, none⟩ =
          ({ s.urq with putq := [], getq := rs }, [.handed ⟨p, ⟨hd, bd⟩, none⟩ r]) := aioPut_reader s.urq _ r rs hgq hq
      rw [e]
      simp only [applyEvents_one]
      refine inv_handed _ _ _ h.uwq ?_ h1.core.pipes h.core.ttl
      exact urqInv_put_reader (q := s.urq) ⟨p, s.ttl, b, ⟨hd, bd⟩⟩ hu (pending_nil _ hi hq) (pending_nil _ hi rfl) hi rfl rfl ha
    | nil =>
      obtain ⟨a1, a2, a3, a4, a5, a6⟩ := aioPut_noreader s.urq ⟨p, ⟨hd, bd⟩, none⟩ hgq
      have e : (setPipe s p { pp with armed := false }).urq = s.urq := rfl
      rw [e]
      revert a1 a2 a3 a4 a5 a6
      generalize aioPut s.urq ⟨p, ⟨hd, bd⟩, none⟩ = r
      obtain ⟨q, es⟩ := r
      intro a1 a2 a3 a4 a5 a6
      simp only []
      refine inv_queued _ _ a6 ⟨h.uwq, ⟨?_, h1.core.pipes, h.core.ttl⟩⟩
      exact urqInv_put_queue (q := s.urq) ⟨p, s.ttl, b, ⟨hd, bd⟩⟩ hu a2 a1 a3 (a5 hu.occ) ha

/-- nni_sock_recv -/
theorem sockRecv_inv {k : Kind} {sel : Sel} (s : State) (a : Nat) (mode : Mode) (h : Inv k sel s) :
    Inv k sel (sockRecv s a mode).1 := by
  unfold sockRecv
  split
  · exact h
  · have hu := h.core.urq
    cases hgq : s.urq.getq with
    | cons r rs =>
      obtain ⟨hi, hq⟩ := hu.rd (by rw [hgq]; simp)
      rw [aioGet_behind _ _ hi hq]
      simp only [applyEvents_nil]
      exact ⟨h.uwq, ⟨urqInv_park (q := s.urq) hu (pending_nil _ hi hq) hi hq rfl, h.core.pipes, h.core.ttl⟩⟩
    | nil =>
      rw [aioGet_noreader _ _ hgq]
      cases hi : s.urq.items with
      | cons m ms =>
        simp only [applyEvents_one, urqEvent]
        refine ⟨h.uwq, ⟨?_, h.core.pipes, h.core.ttl⟩⟩
        refine urqInv_take (q := s.urq) m hu ?_ rfl rfl ?_
        · simp [pending, hi]
        · show ms.length ≤ s.urq.items.length
          rw [hi]; simp
      | nil =>
        cases hq : s.urq.putq with
        | cons w ws =>
          simp only [applyEvents_one]
          refine inv_handed _ _ _ h.uwq ?_ h.core.pipes h.core.ttl
          refine urqInv_take (q := s.urq) w.msg hu ?_ rfl rfl ?_
          · simp [pending, hi, hq]
          · simp
        | nil =>
          simp only [applyEvents_nil]
          exact ⟨h.uwq, ⟨urqInv_park (q := s.urq) hu (pending_nil _ hi hq) rfl rfl rfl, h.core.pipes, h.core.ttl⟩⟩

/-- nni_sock_send, sock_getq_cb -/
theorem sockSend_inv {k : Kind} {sel : Sel} (hk : KindOK k sel) (s : State) (a : Nat) (m : WMsg) (mode : Mode) (h : Inv k sel s)
    (ho : s.opened = true) (hc : s.closed = false) : Inv k sel (sockSend k s a m mode).1 := by
  unfold sockSend
  split
  · exact h
  · have hg := h.uwq.rdr ho hc
    rw [aioPut_reader s.uwq _ ⟨0, none⟩ [] hg h.uwq.putq]
    simp only []
    have e : aioGet ({ s.uwq with putq := [], getq := [] } : Mq) ⟨0, none⟩ =
        ({ s.uwq with putq := [], getq := [⟨0, none⟩] }, []) := by
      rw [aioGet_noreader _ _ rfl]
      simp only [h.uwq.items]
    rw [e]
    simp only [List.isEmpty_nil, if_true]
    refine ⟨⟨h.uwq.items, rfl, fun hn => (by rw [ho] at hn; cases hn), fun _ _ => rfl⟩, ⟨h.core.urq, ?_, h.core.ttl⟩⟩
    exact hk.route s.pipes m s.sent h.core.pipes

/-- nni_sock_close -/
theorem sockClose_inv {k : Kind} {sel : Sel} (s : State) (h : Inv k sel s) : Inv k sel (sockClose s).1 := by
  unfold sockClose
  simp only []
  have hu := h.core.urq
  have hc : Core k sel { s with lost := s.lost ++ s.urq.items ++ s.urq.putq.map (·.msg), urq := RawMq.close s.urq, uwq := RawMq.close s.uwq } := by
    refine ⟨⟨fun hne => absurd rfl hne, by simp [RawMq.close], hu.capk, ?_, ?_, hu.hdr⟩, h.core.pipes, h.core.ttl⟩
    · show (s.delivered ++ pending (RawMq.close s.urq) ++ (s.lost ++ s.urq.items ++ s.urq.putq.map (·.msg))).Perm _
      have hacct : (s.delivered ++ (s.urq.items ++ s.urq.putq.map (·.msg)) ++ s.lost).Perm (s.accepted.map (·.m)) := hu.acct
      rw [pending_nil _ rfl rfl]
      simp only [List.append_nil, List.append_assoc] at hacct ⊢
      exact (List.Perm.append_left _ List.perm_append_comm).trans (by simpa using hacct)
    · show (s.delivered ++ pending (RawMq.close s.urq)).Sublist _
      rw [pending_nil _ rfl rfl]
      simp only [List.append_nil]
      exact (List.sublist_append_left _ _).trans hu.order
  obtain ⟨a1, a2, a3, a4⟩ := closeAll_core (k := k) (sel := sel) s.pipes.length _ hc
  revert a1 a2 a3 a4
  generalize closeAll _ s.pipes.length = r
  obtain ⟨s', o⟩ := r
  intro a1 a2 a3 a4
  simp only [] at a1 a2 a3 a4 ⊢
  refine ⟨⟨?_, ?_, ?_, fun _ hn => by cases hn⟩, ⟨a1.urq, a1.pipes, a1.ttl⟩⟩
  · show s'.uwq.items = []
    rw [a2]; rfl
  · show s'.uwq.putq = []
    rw [a2]; rfl
  · intro _
    show s'.uwq.getq = []
    rw [a2]; rfl

theorem setNow_inv {k : Kind} {sel : Sel} (s : State) (n : Nat) (h : Inv k sel s) : Inv k sel { s with now := n } :=
  ⟨h.uwq, ⟨h.core.urq, h.core.pipes, h.core.ttl⟩⟩

theorem step_inv {k : Kind} {sel : Sel} (hk : KindOK k sel) (s : State) (ev : Ev) (h : Inv k sel s) : Inv k sel (step k s ev).1 := by
  unfold step
  by_cases ho : s.opened = true
  · rw [if_neg (by simp [ho])]
    by_cases hc : s.closed = true
    · rw [if_pos hc]
      cases ev <;> first | exact h | exact setNow_inv s _ h
    · rw [if_neg hc]
      have hc' : s.closed = false := by simpa using hc
      cases ev with
      | openSock _ _ => exact h
      | pipeAdd peer =>
        simp only []
        split
        · exact ⟨h.uwq, ⟨h.core.urq, pipesInv_append h.core.pipes _ (pipeOK_rejected sel k.sqCap s.sent _), h.core.ttl⟩⟩
        · exact ⟨h.uwq, ⟨h.core.urq, pipesInv_append h.core.pipes _ (pipeOK_new sel k.sqCap s.sent _ _), h.core.ttl⟩⟩
      | pipeDrop p =>
        simp only []
        split
        · exact closePipe_inv s p h
        · exact h
      | sendDone p rv =>
        simp only []
        cases hg : getPipe s p with
        | none => exact h
        | some pp =>
          simp only []
          split
          · exact h
          · rename_i hcb
            split
            · exact closePipe_inv s p h
            · have hpo := h.core.pipes p pp hg
              have hbusy : pp.busy = true := by
                cases hb : pp.busy with
                | true => rfl
                | false => simp [hb] at hcb
              have hgq : pp.sq.getq = [] := by
                cases hq : pp.sq.getq with
                | nil => rfl
                | cons r rs => have := (hpo.idle (by rw [hq]; simp)).2; rw [hbusy] at this; cases this
              cases hi : pp.sq.items with
              | cons m ms =>
                rw [pipeSent_some s p pp hgq m ms hi]
                exact ⟨h.uwq, ⟨h.core.urq, pipesInv_set h.core.pipes p _ (pipeOK_sent_some hpo m ms hi), h.core.ttl⟩⟩
              | nil =>
                rw [pipeSent_none s p pp hgq hi hpo.nput]
                exact ⟨h.uwq, ⟨h.core.urq, pipesInv_set h.core.pipes p _ (pipeOK_sent_none hpo _ hi), h.core.ttl⟩⟩
      | recvDone p r =>
        simp only []
        cases hg : getPipe s p with
        | none => exact h
        | some pp =>
          simp only []
          split
          · exact h
          · cases r with
            | error e => exact closePipe_inv s p h
            | ok b => exact pipeRecv_inv s p pp b h hg
      | send c a m mode =>
        simp only []
        split
        · exact h
        · cases c with
          | some _ => exact h
          | none => exact sockSend_inv hk s a m mode h ho hc'
      | recv c a mode =>
        simp only []
        split
        · exact h
        · cases c with
          | some _ => exact h
          | none => exact sockRecv_inv s a mode h
      | cancel a => exact failAio_inv s a _ h
      | abort a rv => exact failAio_inv s a rv h
      | advance ms => exact expire_inv _ (setNow_inv s _ h)
      | ctxOpen _ => exact h
      | ctxClose _ => exact h
      | setopt c name ty v =>
        simp only [setOpt]
        split
        · split
          · exact h
          · rename_i hr
            refine ⟨h.uwq, ⟨h.core.urq, h.core.pipes, ?_⟩⟩
            show v.toNat ≤ Nng.Generated.maxMaxTtl
            simp only [Bool.or_eq_true, decide_eq_true_eq, not_or, Int.not_lt] at hr
            have := hr.2
            simp only [Nng.Generated.maxMaxTtl] at this ⊢
            omega
        · exact h
      | getopt c name ty =>
        simp only [getOpt]
        split <;> exact h
      | poll => exact h
      | sub _ _ => exact h
      | unsub _ _ => exact h
      | close => exact sockClose_inv s h
  · have ho' : s.opened = false := by simpa using ho
    rw [if_pos (by simp [ho'])]
    cases ev with
    | openSock _ _ =>
      refine ⟨⟨?_, ?_, fun hn => (by cases hn), fun _ _ => ?_⟩, ⟨h.core.urq, h.core.pipes, hk.ttl⟩⟩
      · show (aioGet s.uwq ⟨0, none⟩).1.items = []
        rw [aioGet_noreader _ _ (h.uwq.pre ho')]; simp only [h.uwq.items, h.uwq.putq]
      · show (aioGet s.uwq ⟨0, none⟩).1.putq = []
        rw [aioGet_noreader _ _ (h.uwq.pre ho')]; simp only [h.uwq.items, h.uwq.putq]
      · show (aioGet s.uwq ⟨0, none⟩).1.getq = [⟨0, none⟩]
        rw [aioGet_noreader _ _ (h.uwq.pre ho')]; simp only [h.uwq.items, h.uwq.putq]
    | advance ms => exact setNow_inv s _ h
    | _ => exact h

theorem run_inv {k : Kind} {sel : Sel} (hk : KindOK k sel) : ∀ (evs : List Ev) (s : State), Inv k sel s → Inv k sel (run k s evs).1 := by
  intro evs
  induction evs with
  | nil => intro s h; exact h
  | cons e es ih =>
    intro s h
    simp only [run]
    exact ih _ (step_inv hk s e h)

end Nng.RawSurv
