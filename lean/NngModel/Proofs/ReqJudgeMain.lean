/-
  The C04 (requester half) and C12 judges accept every trace of the REQ model (Model/Req.lean), under the
  hypotheses below.  Simulation: `R` (Proofs/ReqJudgeRel.lean) between model state and judge state holds at
  every event boundary while the socket is open; before `open` both sides only count time; after `close`
  the judge is inert.
-/
import NngModel.Proofs.ReqJudgeEvN
import NngModel.Proofs.ReqSteps
import NngModel.Proofs.ReqPoll
namespace Nng.ReqJ
open Nng Nng.Proto Nng.Req Nng.ReqSpec

/-! ### hypotheses on event lists -/

/-- decidable form of `relFresh`: a reply that uses a relative name (`relBase`, `relOff` in Model/Req.lean: "the
    request allocated d ids after the k-th one seen on the wire") names a request that has no wire name of its own -/
def relFreshB (s : State) (b : Bytes) : Bool :=
  match resolveWire s (beDecode (b.take 4)) with
  | some iid => (beDecode (b.take 4) - idMin) / relBase == 0 || !s.alias.contains iid
  | none => true

theorem relFresh_of_B {s : State} {b : Bytes} (h : relFreshB s b = true) : relFresh s b := by
  intro iid hres hd hin
  unfold relFreshB at h
  rw [hres] at h
  simp only [Bool.or_eq_true, beq_iff_eq, Bool.not_eq_true', List.contains_eq_mem, decide_eq_false_iff_not] at h
  rcases h with h | h
  · exact hd h
  · exact h hin

def replyOK (s : State) : Ev → Bool
  | .recvDone _ (.ok b) => relFreshB s b
  | _ => true

/-- every reply in the run that uses a relative name uses it for a request without a wire name -/
def RepliesNamed (s : State) : List Ev → Prop
  | [] => True
  | e :: es => replyOK s e = true ∧ RepliesNamed (Req.step s e).1 es

instance decRepliesNamed : (s : State) → (evs : List Ev) → Decidable (RepliesNamed s evs)
  | _, [] => isTrue trivial
  | s, e :: es =>
    match decEq (replyOK s e) true, decRepliesNamed (Req.step s e).1 es with
    | isTrue a, isTrue b => isTrue ⟨a, b⟩
    | isFalse a, _ => isFalse (fun h => a h.1)
    | _, isFalse b => isFalse (fun h => b h.2)

/-- the trace (event, outputs) the model produces from state `s` -/
def traceOf (s : State) : List Ev → List (Ev × List Out)
  | [] => []
  | e :: es => (e, (Req.step s e).2) :: traceOf (Req.step s e).1 es

theorem zip_run (s : State) (evs : List Ev) : evs.zip (run s evs).2 = traceOf s evs := by
  induction evs generalizing s with
  | nil => rfl
  | cons e es ih =>
    unfold run traceOf
    dsimp only
    rw [List.zip_cons_cons, ih]

def runJ (j : J) (tr : List (Ev × List Out)) : J := tr.foldl (fun j x => ReqSpec.step j x.1 x.2) j

/-! ### the state right after `open` -/

def rDef : Int := (Nng.Generated.reqResendTimeDefault : Int)
def tDef : Int := (Nng.Generated.reqResendTickDefault : Int)

def openSt (n : Nat) : State :=
  { ({} : State) with now := n, opened := true, sockRetry := rDef, retryTick := tDef,
                      ctx := upd (fun _ => {}) 0 { ({} : Ctx) with live := true, retry := rDef } }

def openJ (n : Nat) : J :=
  { ({} : J) with now := n, opened := true, sockRetry := rDef, tick := tDef,
                  ctx := fun x => if x = 0 then { opened := true, retry := rDef } else {} }

theorem openSt_ctx (n k : Nat) : (openSt n).ctx k =
    if k = 0 then { ({} : Ctx) with live := true, retry := rDef } else {} := by
  simp only [openSt, upd]

theorem open_R (n : Nat) (rest : List Ev) (hlen : (sendBodies rest).length ≤ relBase) : R rest (openSt n) (openJ n) := by
  have hq : ∀ k, ((openSt n).ctx k).reqMsg = none ∧ ((openSt n).ctx k).repMsg = none ∧ ((openSt n).ctx k).sendAio = none ∧
      ((openSt n).ctx k).recvAio = none ∧ ((openSt n).ctx k).connReset = false ∧ ((openSt n).ctx k).requestId = 0 := by
    intro k; rw [openSt_ctx]; split <;> exact ⟨rfl, rfl, rfl, rfl, rfl, rfl⟩
  have hno : ∀ x, ¬ LiveH (openSt n) x := by
    rintro x (h | ⟨k, h⟩)
    · cases h
    · rw [(hq k).1] at h; cases h
  refine ⟨?_, ?_, fun k _ => ?_, fun k hk => by cases hk⟩
  · constructor
    · intro k hk
      rw [openSt_ctx, if_neg (by unfold nCtxSlots at hk; omega)]
    · intro k _; exact ⟨(hq k).2.2.1, (hq k).2.2.2.1, (hq k).1, (hq k).2.1, (hq k).2.2.2.2.1⟩
    · intro k b k' b' a h
      unfold aioOf at h
      cases b <;> simp [(hq k).2.2.1, (hq k).2.2.2.1] at h
    · intro k h; rw [(hq k).2.2.2.2.1] at h; cases h
    · intro k h; rw [(hq k).2.1] at h; cases h
    · intro k p h; cases h
    · intro k h hr; rw [(hq k).1] at hr; cases hr
    · intro k h hr; rw [(hq k).1] at hr; cases hr
    · intro k h; rw [(hq k).2.2.1] at h; cases h
    · intro k h; exact absurd (hq k).2.2.2.2.2 h
    · exact List.nodup_nil
    · intro h hh; cases hh
    · intro h hl; exact absurd hl (hno h)
    · intro h h' hl; exact absurd hl (hno h)
    · show 0 + _ ≤ _; omega
    · rfl
    · rfl
    · rfl
  · refine ⟨rfl, fun p => Iff.rfl, ?_, rfl, rfl, ?_, rfl, ?_, fun _ _ => rfl, fun _ => ⟨fun k => (hq k).1, rfl, rfl⟩, fun _ => rfl⟩
    · intro p
      show p ∈ [] ↔ _
      simp only [List.not_mem_nil, false_iff]
      rintro ⟨h, _, _⟩
      exact absurd h (Nat.not_lt_zero _)
    · intro id b
      show (id, b) ∈ [] ↔ _
      simp only [List.not_mem_nil, false_iff]
      rintro ⟨n', h, hh, _⟩
      simp [openSt] at hh
    · intro _ T h; cases h
  · constructor
    · show (if k = 0 then _ else _ : CJ).opened = _
      rw [openSt_ctx]; split <;> rfl
    · rw [openSt_ctx]
      show _ → (if k = 0 then _ else _ : CJ).retry = _
      split
      · intro _; rfl
      · intro h; cases h
    · show (if k = 0 then _ else _ : CJ).recvWait = _
      rw [(hq k).2.2.2.1]; split <;> rfl
    · show (if k = 0 then _ else _ : CJ).stash = _
      rw [(hq k).2.1]; split <;> rfl
    · show (if k = 0 then _ else _ : CJ).latched = _
      rw [(hq k).2.2.2.2.1]; split <;> rfl
    · intro _ _
      show (if k = 0 then _ else _ : CJ).req = none
      split <;> rfl
    · intro h; rw [(hq k).2.1] at h; cases h
    · intro h hh; rw [(hq k).1] at hh; cases hh

/-! ### the three phases of a run -/

/-- before `open`: both sides only count time -/
def Pre (s : State) (j : J) : Prop := ∃ n, s = { ({} : State) with now := n } ∧ j = { ({} : J) with now := n }

/-- while the socket is open -/
def Live (rest : List Ev) (s : State) (j : J) : Prop :=
  R rest s j ∧ Inv s ∧ Inv2 none none s ∧ Dr s ∧ PollInv s

/-- after `close` -/
def Gone (s : State) (j : J) : Prop := s.gone = true ∧ j.closed = true

def Phase (rest : List Ev) (s : State) (j : J) : Prop := Pre s j ∨ Live rest s j ∨ Gone s j

def abort0 : Ev → Bool
  | .abort _ rv => rv == 0
  | _ => false

/-- what one event keeps: the phase (for the rest of the run) and the verdicts -/
def Kept (rest : List Ev) (ev : Ev) (s' : State) (j j' : J) : Prop :=
  Phase rest s' j' ∧ j'.err04 = j.err04 ∧ (resetAbort ev = false → j'.err12 = j.err12)

theorem step_other (j : J) (ev : Ev) (msg : String) : ReqSpec.step j ev [.other msg] = j := by
  rw [step_eq]; simp [notExecuted]

theorem step_closedJ (j : J) (ev : Ev) (outs : List Out) (h : j.closed = true) : ReqSpec.step j ev outs = j := by
  rw [step_eq]
  split <;> rfl

theorem pre_step {rest : List Ev} {s : State} {j : J} (ev : Ev) (hP : Pre s j)
    (hlen : (sendBodies (ev :: rest)).length ≤ relBase) :
    Kept rest ev (Req.step s ev).1 j (ReqSpec.step j ev (Req.step s ev).2) := by
  obtain ⟨n, rfl, rfl⟩ := hP
  have hlen' : (sendBodies rest).length ≤ relBase := by
    unfold sendBodies at hlen ⊢
    rw [List.filterMap_cons] at hlen
    split at hlen
    · exact hlen
    · simp at hlen; omega
  unfold Req.step
  have ho : (!({ ({} : State) with now := n } : State).opened) = true := rfl
  rw [if_pos ho]
  cases ev with
  | openSock proto raw =>
    dsimp only
    split
    · rw [step_other]; exact ⟨Or.inl ⟨n, rfl, rfl⟩, rfl, fun _ => rfl⟩
    · -- the socket is opened
      show Kept rest _ (openSt n) _ (ReqSpec.step { ({} : J) with now := n } (.openSock proto raw) [.rv 0])
      have hR := open_R n rest hlen'
      have hj : ReqSpec.step { ({} : J) with now := n } (.openSock proto raw) [.rv 0] = openJ n := by
        rw [step_rv _ _ 0 rfl (fun _ => by simp) rfl]
        have : (phEv { ({} : J) with now := n } (.openSock proto raw) [.rv 0] (decide ((0 : Int) = 0))).1 = openJ n := by
          simp only [phEv, openJ, rDef, tDef, decide_true]
        rw [this]
        exact quiescent_R hR (Or.inl rfl)
      rw [hj]
      have hI0 : Inv { ({} : State) with now := n } := inv_init.same ⟨rfl, rfl, rfl, fun _ => ⟨rfl, rfl, rfl, rfl⟩⟩
      have hI20 : Inv2 none none { ({} : State) with now := n } := inv2_init
      have hP0 : PollInv { ({} : State) with now := n } := ⟨rfl, rfl⟩
      have hI := inv_step hI0 (.openSock "req" false)
      have hI2 := inv2_step hI0 hI20 (.openSock "req" false)
      have hP := poll_step hP0 (Or.inl rfl) (.openSock "req" false)
      exact ⟨Or.inr (Or.inl ⟨hR, hI, hI2, Or.inl rfl, hP⟩), rfl, fun _ => rfl⟩
  | advance ms =>
    show Kept rest _ { ({} : State) with now := n + ms } _ (ReqSpec.step { ({} : J) with now := n } (.advance ms) [])
    have hj : ReqSpec.step { ({} : J) with now := n } (.advance ms) [] = { ({} : J) with now := n + ms } := by
      rw [step_eq]
      simp only [notExecuted, List.any_nil, Bool.false_eq_true, if_false, phA_nil, evAioOf, phEv, phRest, phPipe, phClosed, phReset, psF,
        phDone, phPoll, phOver, phBlocked, List.foldl_nil, Bool.and_false, Bool.true_and, decide_false]
      apply quiescent_eq
      intro _ k _ r hr
      cases hr
    rw [hj]
    exact ⟨Or.inl ⟨n + ms, rfl, rfl⟩, rfl, fun _ => rfl⟩
  | _ => exact ⟨by rw [step_other]; exact Or.inl ⟨n, rfl, rfl⟩, by rw [step_other], fun _ => by rw [step_other]⟩

theorem gone_step {rest : List Ev} {s : State} {j : J} (ev : Ev) (hP : Gone s j) :
    Kept rest ev (Req.step s ev).1 j (ReqSpec.step j ev (Req.step s ev).2) := by
  obtain ⟨hg, hc⟩ := hP
  rw [step_closedJ j ev _ hc]
  refine ⟨Or.inr (Or.inr ⟨?_, hc⟩), rfl, fun _ => rfl⟩
  unfold Req.step
  split
  · cases ev with
    | openSock proto raw => dsimp only; split <;> exact hg
    | _ => exact hg
  · cases ev <;> exact hg

theorem close_gone (s : State) (ho : s.opened = true) (hg : s.gone = false) : (Req.step s .close).1.gone = true := by
  unfold Req.step
  rw [if_neg (by simp [ho]), if_neg (by simp [hg])]

theorem live_step {rest : List Ev} {s : State} {j : J} (ev : Ev) (hP : Live (ev :: rest) s j)
    (h0 : abort0 ev = false) (hr : replyOK s ev = true) (hnd : (sendBodies (ev :: rest)).Nodup) :
    Kept rest ev (Req.step s ev).1 j (ReqSpec.step j ev (Req.step s ev).2) := by
  obtain ⟨hM, hI, hI2, hD, hPl⟩ := hP
  have hI' := inv_step hI ev
  have hI2' := inv2_step hI hI2 ev
  have hD' := dr_step s ev hD
  have hP' := poll_step hPl hD ev
  have fin : Sim rest (Req.step s ev).1 j (ReqSpec.step j ev (Req.step s ev).2) ev →
      Kept rest ev (Req.step s ev).1 j (ReqSpec.step j ev (Req.step s ev).2) :=
    fun h => ⟨Or.inr (Or.inl ⟨h.1, hI', hI2', hD', hP'⟩), h.2.1, h.2.2⟩
  have ho := hM.mi.open_
  have hg := hM.mi.notgone
  cases ev with
  | openSock proto raw =>
    apply fin
    unfold Req.step
    rw [if_neg (by simp [ho]), if_neg (by simp [hg])]
    exact sim_refused _ _ hM
  | pipeAdd peer => exact fin (sim_pipeAdd peer hM hI2 hD)
  | pipeDrop p => exact fin (sim_pipeDrop p hM hI2 hD)
  | recvDone p r =>
    refine fin (sim_recvDone p r hM hI hI2 hD ?_)
    cases r with
    | error e => trivial
    | ok b => exact relFresh_of_B hr
  | sendDone p rv => exact fin (sim_sendDone p rv hM hI2 hD)
  | send c a m mode => exact fin (sim_send c a m mode hM hI2 hD hnd)
  | recv c a mode => exact fin (sim_recv c a mode hM hD)
  | cancel a =>
    apply fin
    unfold Req.step
    rw [if_neg (by simp [ho]), if_neg (by simp [hg])]
    exact sim_cancelWith (.cancel a) a Err.ecanceled hM hI2 hD (by decide) (by decide) rfl (fun _ _ _ => rfl) (fun _ => rfl)
  | abort a rv =>
    apply fin
    unfold Req.step
    rw [if_neg (by simp [ho]), if_neg (by simp [hg])]
    have hrv0 : rv ≠ 0 := by simpa [abort0] using h0
    by_cases h19 : rv = Err.econnreset
    · subst h19
      exact sim_abortReset a hM hI2 hD
    · exact sim_cancelWith (.abort a rv) a rv hM hI2 hD hrv0 h19 rfl (fun _ _ _ => rfl) (fun _ => rfl)
  | advance ms =>
    apply fin
    unfold Req.step
    rw [if_neg (by simp [ho]), if_neg (by simp [hg])]
    exact sim_advance ms hM hI2 hD
  | ctxOpen c => exact fin (sim_ctxOpen c hM hD)
  | ctxClose c => exact fin (sim_ctxClose c hM hI2 hD)
  | setopt c name ty v => exact fin (sim_setopt c name ty v hM hD)
  | getopt c name ty => exact fin (sim_getopt c name ty hM hD)
  | poll =>
    apply fin
    unfold Req.step
    rw [if_neg (by simp [ho]), if_neg (by simp [hg])]
    exact sim_poll hM hD hPl
  | sub c t =>
    apply fin
    unfold Req.step
    rw [if_neg (by simp [ho]), if_neg (by simp [hg])]
    exact sim_refused _ _ hM
  | unsub c t =>
    apply fin
    unfold Req.step
    rw [if_neg (by simp [ho]), if_neg (by simp [hg])]
    exact sim_refused _ _ hM
  | close =>
    obtain ⟨a, b, c⟩ := step_close_sameV j (Req.step s .close).2 hM.g.closed (close_isClose s ho hg)
    exact ⟨Or.inr (Or.inr ⟨close_gone s ho hg, c⟩), a, fun _ => b⟩

theorem phase_step {rest : List Ev} {s : State} {j : J} (ev : Ev) (hP : Phase (ev :: rest) s j)
    (h0 : abort0 ev = false) (hr : replyOK s ev = true) (hnd : (sendBodies (ev :: rest)).Nodup)
    (hlen : (sendBodies (ev :: rest)).length ≤ relBase) :
    Kept rest ev (Req.step s ev).1 j (ReqSpec.step j ev (Req.step s ev).2) := by
  rcases hP with hP | hP | hP
  · exact pre_step ev hP hlen
  · exact live_step ev hP h0 hr hnd
  · exact gone_step ev hP

theorem sendBodies_tail (ev : Ev) (rest : List Ev) :
    ((sendBodies (ev :: rest)).Nodup → (sendBodies rest).Nodup) ∧
    ((sendBodies (ev :: rest)).length ≤ relBase → (sendBodies rest).length ≤ relBase) := by
  unfold sendBodies
  rw [List.filterMap_cons]
  split
  · exact ⟨id, id⟩
  · exact ⟨fun h => (List.nodup_cons.1 h).2, fun h => by simp at h; omega⟩

/-- the verdicts of the judge stay what they were along every run of the model -/
theorem run_kept (evs : List Ev) : ∀ (s : State) (j : J), Phase evs s j → (∀ ev, ev ∈ evs → abort0 ev = false) →
    RepliesNamed s evs → (sendBodies evs).Nodup → (sendBodies evs).length ≤ relBase →
    (runJ j (traceOf s evs)).err04 = j.err04 ∧
    ((∀ ev, ev ∈ evs → resetAbort ev = false) → (runJ j (traceOf s evs)).err12 = j.err12) := by
  induction evs with
  | nil => intro s j _ _ _ _ _; exact ⟨rfl, fun _ => rfl⟩
  | cons ev es ih =>
    intro s j hP h0 hr hnd hlen
    obtain ⟨hP', e04, e12⟩ := phase_step ev hP (h0 ev (by simp)) hr.1 hnd hlen
    obtain ⟨a, b⟩ := ih _ _ hP' (fun e he => h0 e (by simp [he])) hr.2 ((sendBodies_tail ev es).1 hnd) ((sendBodies_tail ev es).2 hlen)
    show (runJ (ReqSpec.step j ev (Req.step s ev).2) (traceOf (Req.step s ev).1 es)).err04 = j.err04 ∧ _
    refine ⟨a.trans e04, fun hra => ?_⟩
    show (runJ (ReqSpec.step j ev (Req.step s ev).2) (traceOf (Req.step s ev).1 es)).err12 = j.err12
    exact (b (fun e he => hra e (by simp [he]))).trans (e12 (hra ev (by simp)))

/-- no `abort <aio> 0` -/
def NoAbort0 (evs : List Ev) : Prop := ∀ a, Ev.abort a 0 ∉ evs
/-- no `abort <aio> NNG_ECONNRESET` -/
def NoAbortReset (evs : List Ev) : Prop := ∀ a, Ev.abort a Err.econnreset ∉ evs

theorem abort0_of (evs : List Ev) (h : NoAbort0 evs) : ∀ ev, ev ∈ evs → abort0 ev = false := by
  intro ev hev
  cases ev with
  | abort a rv =>
    show (rv == 0) = false
    cases hrv : rv == 0 with
    | false => rfl
    | true =>
      have : rv = 0 := by simpa using hrv
      subst this
      exact absurd hev (h a)
  | _ => rfl

theorem resetAbort_of (evs : List Ev) (h : NoAbortReset evs) : ∀ ev, ev ∈ evs → resetAbort ev = false := by
  intro ev hev
  cases ev with
  | abort a rv =>
    show (rv == Err.econnreset) = false
    cases hrv : rv == Err.econnreset with
    | false => rfl
    | true =>
      have : rv = Err.econnreset := by simpa using hrv
      subst this
      exact absurd hev (h a)
  | _ => rfl

theorem judge04_accepts (evs : List Ev) (h0 : NoAbort0 evs) (hb : (sendBodies evs).Nodup)
    (hl : (sendBodies evs).length ≤ relBase) (hr : RepliesNamed {} evs) :
    ReqSpec.judge04 (evs.zip (run {} evs).2) = none := by
  rw [zip_run]
  exact (run_kept evs {} {} (Or.inl ⟨0, rfl, rfl⟩) (abort0_of evs h0) hr hb hl).1

theorem judge12_accepts (evs : List Ev) (h0 : NoAbort0 evs) (h19 : NoAbortReset evs) (hb : (sendBodies evs).Nodup)
    (hl : (sendBodies evs).length ≤ relBase) (hr : RepliesNamed {} evs) :
    ReqSpec.judge12 (evs.zip (run {} evs).2) = none := by
  rw [zip_run]
  exact (run_kept evs {} {} (Or.inl ⟨0, rfl, rfl⟩) (abort0_of evs h0) hr hb hl).2 (resetAbort_of evs h19)

end Nng.ReqJ
