/-
  Simulation (14): `close`, and the states before `open` / after `close`.
-/
import NngModel.Proofs.ReqJudgeEvM
namespace Nng.ReqJ
open Nng Nng.Proto Nng.Req Nng.ReqSpec

/-- what the model prints for `close`: completions without a message, transmissions, `pclosed` -/
def isClose : Out → Bool
  | .done _ _ none _ => true
  | .psend _ _ => true
  | .pclosed _ => true
  | _ => false

theorem isClose_of_isCl {x : Out} (h : isCl x = true) : isClose x = true := by
  rcases isCl_shape h with ⟨p, m, rfl⟩ | ⟨a, rfl⟩ | ⟨a, rfl⟩ <;> rfl

theorem isClose_of_isDn_done {x : Out} (h : isDn x = true) (hx : ∀ n, x ≠ .rv n) : isClose x = true := by
  rcases isDn_shape h with ⟨a, rv, mb, rfl, _⟩ | ⟨n, rfl⟩
  · rfl
  · exact absurd rfl (hx n)

theorem foldSteps_outs (P : Out → Prop) (ks : List Nat) (f : State → Nat → State × List Out)
    (hf : ∀ s k x, x ∈ (f s k).2 → P x) (s : State) : ∀ x, x ∈ (foldSteps ks f s).2 → P x := by
  unfold foldSteps
  suffices h : ∀ (acc : State × List Out), (∀ x, x ∈ acc.2 → P x) →
      ∀ x, x ∈ (ks.foldl (fun (acc : State × List Out) k => let (s', o) := f acc.1 k; (s', acc.2 ++ o)) acc).2 → P x from
    h (s, []) (fun x hx => by cases hx)
  induction ks with
  | nil => intro acc h; exact h
  | cons k t ih =>
    intro acc h
    rw [List.foldl_cons]
    apply ih
    intro x hx
    dsimp only at hx
    rcases List.mem_append.1 hx with a | a
    · exact h x a
    · exact hf _ _ x a

theorem finiChain_isClose (s : State) (k e : Nat) : ∀ x, x ∈ (finiChain s k e).2 → isClose x = true := by
  unfold finiChain
  dsimp only
  intro x hx
  rcases List.mem_append.1 hx with h | h
  · split at h
    · simp at h; subst h; rfl
    · cases h
  · split at h
    · simp at h; subst h; rfl
    · cases h

theorem pipeClose_isClose (s : State) (p : Nat) : ∀ x, x ∈ (pipeClose s p).2 → isClose x = true := by
  unfold pipeClose
  split
  · intro x hx; cases hx
  · intro x hx
    dsimp only at hx
    rcases List.mem_append.1 hx with h | h
    · exact isClose_of_isCl (closeLoop_cl _ _ _ x h)
    · simp at h; subst h; rfl

theorem close_isClose (s : State) (ho : s.opened = true) (hg : s.gone = false) :
    ∀ x, x ∈ (Req.step s .close).2 → isClose x = true := by
  unfold Req.step
  rw [if_neg (by simp [ho]), if_neg (by simp [hg])]
  dsimp only
  intro x hx
  rcases List.mem_append.1 hx with h | h
  · rcases List.mem_append.1 h with h | h
    · refine foldSteps_outs (fun x => isClose x = true) _ _ ?_ _ x h
      intro s' k x hx
      split at hx
      · rw [ctxFini_eq] at hx; exact finiChain_isClose _ _ _ x hx
      · cases hx
    · exact foldSteps_outs (fun x => isClose x = true) _ _ (fun s' k x hx => pipeClose_isClose s' k x hx) _ x h
  · rw [ctxFini_eq] at h; exact finiChain_isClose _ _ _ x h

/-! ### the judge's step for `close` -/

theorem isClose_shape {x : Out} (h : isClose x = true) :
    (∃ a rv mb, x = .done a rv none mb) ∨ (∃ p m, x = .psend p m) ∨ (∃ p, x = .pclosed p) := by
  cases x with
  | done a rv m mb =>
    cases m with
    | none => exact Or.inl ⟨a, rv, mb, rfl⟩
    | some _ => simp [isClose] at h
  | psend p m => exact Or.inr (Or.inl ⟨p, m, rfl⟩)
  | pclosed p => exact Or.inr (Or.inr ⟨p, rfl⟩)
  | _ => simp [isClose] at h

/-- the three facts the closing step keeps: the verdicts and `closed` -/
def SameV (j j' : J) : Prop := j'.err04 = j.err04 ∧ j'.err12 = j.err12 ∧ j'.closed = j.closed

theorem SameV.refl (j : J) : SameV j j := ⟨rfl, rfl, rfl⟩
theorem SameV.trans {a b c : J} (h1 : SameV a b) (h2 : SameV b c) : SameV a c :=
  ⟨h2.1.trans h1.1, h2.2.1.trans h1.2.1, h2.2.2.trans h1.2.2⟩

theorem oldDone_sameV (j : J) (a rv : Nat) : SameV j (oldDone j a rv) := by
  rw [oldDone_eq]; exact ⟨rfl, rfl, rfl⟩

theorem onPclosed_closing_sameV (all : List Out) (j : J) (p : Nat) : SameV j (onPclosed all true j p) := by
  rw [onPclosed_eq all true j p (fun k _ _ _ a _ => by simp)]
  exact ⟨rfl, rfl, rfl⟩

theorem foldl_sameV (f : J → Out → J) (l : List Out) (h : ∀ j x, x ∈ l → SameV j (f j x)) (j : J) : SameV j (l.foldl f j) := by
  induction l generalizing j with
  | nil => exact SameV.refl j
  | cons x t ih =>
    rw [List.foldl_cons]
    exact (h j x (by simp)).trans (ih (fun j' y hy => h j' y (by simp [hy])) _)

theorem step_close_sameV (j : J) (outs : List Out) (hc : j.closed = false) (ho : ∀ x, x ∈ outs → isClose x = true) :
    (ReqSpec.step j .close outs).err04 = j.err04 ∧ (ReqSpec.step j .close outs).err12 = j.err12 ∧
    (ReqSpec.step j .close outs).closed = true := by
  rw [step_eq]
  have hne : notExecuted outs = false := by
    unfold notExecuted
    rw [List.any_eq_false]
    intro x hx
    rcases isClose_shape (ho x hx) with ⟨a, rv, mb, rfl⟩ | ⟨p, m, rfl⟩ | ⟨p, rfl⟩ <;> simp
  rw [hne]
  simp only [hc, Bool.false_eq_true, if_false, evAioOf, phEv, phRest, if_true]
  have hA := phA_err none outs j
  have hAc : (phA none outs j).closed = false := by rw [phA_closed, hc]
  -- connections
  have g1 : ∀ jx, phPipe outs jx = jx := by
    intro jx
    rw [phPipe_eq]; unfold phPipeF
    apply foldl_id
    intro x hx a
    rcases isClose_shape (ho x hx) with ⟨a', rv, mb, rfl⟩ | ⟨p, m, rfl⟩ | ⟨p, rfl⟩ <;> rfl
  have g2 : ∀ jx, SameV jx (phClosed outs true outs jx) := by
    intro jx
    unfold phClosed
    apply foldl_sameV
    intro j' x _
    cases x with
    | pclosed p => exact onPclosed_closing_sameV outs j' p
    | _ => exact SameV.refl j'
  have g3 : ∀ jx, SameV jx (phReset none true outs jx) := by
    intro jx
    unfold phReset
    apply foldl_sameV
    intro j' x _
    cases x with
    | done a rv m mb =>
      cases m with
      | some _ => exact SameV.refl j'
      | none =>
        dsimp only
        split
        · simp only [Bool.not_true, Bool.and_false, Bool.false_eq_true, if_false]
          exact oldDone_sameV _ _ _
        · exact SameV.refl j'
    | _ => exact SameV.refl j'
  have g5 : ∀ ex jx, phDone .close none ex outs jx = jx := by
    intro ex jx
    unfold phDone
    apply foldl_id
    intro x hx a
    rcases isClose_shape (ho x hx) with ⟨a', rv, mb, rfl⟩ | ⟨p, m, rfl⟩ | ⟨p, rfl⟩
    · simp
    · rfl
    · rfl
  have g6 : ∀ jx, phPoll outs jx = jx := by
    intro jx
    unfold phPoll
    apply foldl_id
    intro x hx a
    rcases isClose_shape (ho x hx) with ⟨a', rv, mb, rfl⟩ | ⟨p, m, rfl⟩ | ⟨p, rfl⟩ <;> rfl
  have g7 : ∀ jx, phBlocked outs jx = jx := by
    intro jx
    apply phBlocked_of
    intro x hx ms e
    subst e
    have := ho _ hx
    simp [isClose] at this
  rw [g1, g5, g6, g7]
  have hV := (g2 { phA none outs j with closed := true }).trans (g3 _)
  have hq : ∀ jx : J, jx.closed = true → quiescent (phOver .close jx) = jx := by
    intro jx h
    show quiescent jx = jx
    unfold quiescent
    rw [if_pos h]
  have hcl : (phReset none true outs (phClosed outs true outs { phA none outs j with closed := true })).closed = true := hV.2.2
  rw [hq _ hcl]
  exact ⟨hV.1.trans hA.1, hV.2.1.trans hA.2, hcl⟩

end Nng.ReqJ
