/-
  "The lifecycle judge accepts every trace of the lifecycle model" (C14 / C10), part 6:
  simulation of `startPipe` (dialer_start_pipe / listener_start_pipe from ADD_PRE on): the judge
  registers the pipe (`pipe`), then sees ADD_PRE, then either the kill (closed in the callback /
  refused by the protocol) or `parm` and ADD_POST.
-/
import NngModel.Proofs.LifeJudgeFire
namespace Nng.LifeModel
open Nng.Life Nng.Generated
open Nng.LifeSpec (J JPipe JEp JSock upd put KU onOut opConnEp isRace tol)

def jReg (ei sk : Nat) (m : Nat) (c : Bool) : JPipe :=
  { ep := ei, sock := sk, preReg := m &&& 1 != 0, anyReg := m != 0, closedInPre := c && m &&& 1 != 0,
    preWait := m &&& 1 != 0 }

theorem onOut_pipe (op : LOp) (hnr : isRace op = false) (j : J) (p e : Nat) (x : JEp) (hc : opConnEp op = some e)
    (hx : j.eps.lookup e = some x)
    (h2 : x.dialer = true → ∀ kq ∈ j.pipes, (kq.2.ep == e && !kq.2.lost) = false) :
    onOut op j (.pipe p) = { j with pipes := put j.pipes p (jReg e x.sock (j.sock x.sock).mask (j.sock x.sock).cip) } := by
  simp only [onOut, hc, hx, tol_of_not_race op hnr, Bool.not_false, Bool.and_true]
  rw [if_neg]
  · rfl
  · intro hh
    simp only [Bool.and_eq_true, List.any_eq_true] at hh
    obtain ⟨hd, kq, hkq, hk⟩ := hh
    have := h2 hd kq hkq
    obtain ⟨k, q⟩ := kq
    simp only [hk.1, hk.2, Bool.and_self] at this
    cases this

/-- what `parm p` does to the judge's record of the pipe: started; ADD_POST is owed if registered now -/
def postDue (m : Nat) (q : JPipe) : Bool :=
  !q.started && !q.lost && !q.unsure && q.anyReg && m &&& 2 != 0 && !q.evs.contains .post

def jStart (due : Bool) (q : JPipe) : JPipe := { q with started := true, postWait := q.postWait || due }

theorem onOut_parm (op : LOp) (j : J) (p : Nat) (q : JPipe) (hq : j.pipes.lookup p = some q) (hc : q.closedInPre = false)
    (hw : q.preWait = false) :
    onOut op j (.parm p) = { j with pipes := upd j.pipes p (jStart (postDue (j.sock q.sock).mask q)) } := by
  simp only [onOut, hq, hc, hw, Bool.false_eq_true, if_false]
  rfl

end Nng.LifeModel

namespace Nng.LifeModel
open Nng.Life Nng.Generated
open Nng.LifeSpec (J JPipe JEp JSock upd put KU onOut opConnEp isRace tol)

/-- events about a pipe that is already registered -/
def isPipeEv : LOut → Bool
  | .pev _ _ => true
  | .parm _ => true
  | .pclosed _ => true
  | _ => false

theorem killPipe_evs (st : State) (i : Nat) : ∀ o ∈ (killPipe st i).2, isPipeEv o = true := by
  unfold killPipe
  split
  · intro o ho; cases ho
  · intro o ho
    simp only [reapOne, List.mem_append, List.mem_singleton] at ho
    rcases ho with rfl | ho
    · rfl
    · split at ho
      · simp only [List.mem_singleton] at ho; subst ho; rfl
      · cases ho

/-- the fresh pipe after nni_pipe_run_cb(ADD_PRE) -/
def preP (mask i ei sk : Nat) : Pipe :=
  { idx := i, ep := ei, sock := sk, last := if mask = 0 then 0 else 1, evs := if mask &&& 1 != 0 then [.pre] else [],
    preDue := mask &&& 1 != 0 }

theorem pre_shape (mask i ei sk : Nat) :
    (runCb mask .pre ({ idx := i, ep := ei, sock := sk } : Pipe)).2 = (mask &&& 1 != 0) ∧
    { (runCb mask .pre ({ idx := i, ep := ei, sock := sk } : Pipe)).1 with preDue := mask &&& 1 != 0 } = preP mask i ei sk := by
  by_cases h0 : mask = 0
  · subst h0; simp [runCb, preP]
  · by_cases h1 : mask &&& 1 = 0
    · simp [runCb, preP, h0, h1, evBit, PEv.rank, -Nat.and_one_is_mod]
    · simp [runCb, preP, h0, h1, evBit, PEv.rank, -Nat.and_one_is_mod]

theorem preP_inv (mask i ei sk : Nat) : PipeInv (preP mask i ei sk) ∧ PEv.post ∉ (preP mask i ei sk).evs ∧
    PEv.rem ∉ (preP mask i ei sk).evs ∧ (preP mask i ei sk).last ≤ 1 := by
  have h := pre_step mask { idx := i, ep := ei, sock := sk } ⟨rfl, rfl, rfl, rfl, rfl, rfl⟩
  simp only at h
  rw [(pre_shape mask i ei sk).2] at h
  refine ⟨h.1, ?_, ?_, ?_⟩
  · unfold preP; simp only; split <;> simp
  · unfold preP; simp only; split <;> simp
  · unfold preP; simp only; split <;> simp

end Nng.LifeModel

namespace Nng.LifeModel
open Nng.Life Nng.Generated
open Nng.LifeSpec (J JPipe JEp JSock upd put KU onOut opConnEp isRace tol)

theorem pre_run (mask i ei sk : Nat) :
    runCb mask .pre ({ idx := i, ep := ei, sock := sk } : Pipe) =
      ({ preP mask i ei sk with preDue := false }, mask &&& 1 != 0) := by
  by_cases h0 : mask = 0
  · subst h0; simp [runCb, preP]
  · by_cases h1 : mask &&& 1 = 0
    · simp [runCb, preP, h0, h1, evBit, PEv.rank, -Nat.and_one_is_mod]
    · simp [runCb, preP, h0, h1, evBit, PEv.rank, -Nat.and_one_is_mod]

theorem startPipe_eq (st : State) (i ei sk peer : Nat) :
    startPipe st { idx := i, ep := ei, sock := sk } peer =
      (if ((st.socks sk).mask &&& 1 != 0 && (st.socks sk).cip) = true then
        let kr := killPipe { st with pipes := st.pipes ++ [{ preP (st.socks sk).mask i ei sk with cip := true, closed := true }] } i
        (kr.1, [.pipe i] ++ [.pev i .pre] ++ kr.2)
      else if (!protoAccepts (st.socks sk) peer) = true then
        let kr := killPipe { st with pipes := st.pipes ++ [preP (st.socks sk).mask i ei sk] } i
        (kr.1, [.pipe i] ++ (if ((st.socks sk).mask &&& 1 != 0) = true then [.pev i .pre] else []) ++ kr.2)
      else
        let r2 := runCb (st.socks sk).mask .post { preP (st.socks sk).mask i ei sk with started := true }
        let st1 : State := { st with pipes := st.pipes ++ [r2.1] }
        (if (st.socks sk).proto == "pair0" then setSock st1 sk fun k => { k with pairPipe := some i } else st1,
         [.pipe i] ++ (if ((st.socks sk).mask &&& 1 != 0) = true then [.pev i .pre] else []) ++ [.parm i] ++
           (if r2.2 then [.pev i .post] else []))) := by
  unfold startPipe
  simp only [pre_run]
  rfl

end Nng.LifeModel

namespace Nng.LifeSpec
theorem upd_fresh {α : Type} (l : List (Nat × α)) (k : Nat) (f : α → α) (h : ∀ kx ∈ l, kx.1 ≠ k) : upd l k f = l := by
  unfold upd
  conv => rhs; rw [← List.map_id l]
  apply List.map_congr_left
  intro a ha
  obtain ⟨ka, va⟩ := a
  have : (ka == k) = false := by simpa using h _ ha
  simp [this]

theorem upd_append {α : Type} (l m : List (Nat × α)) (k : Nat) (f : α → α) : upd (l ++ m) k f = upd l k f ++ upd m k f := by
  unfold upd; exact List.map_append

theorem lookup_fresh {α : Type} (l : List (Nat × α)) (k : Nat) (h : ∀ kx ∈ l, kx.1 ≠ k) : l.lookup k = none := by
  cases hl : l.lookup k with
  | none => rfl
  | some x => exact absurd rfl (h _ (mem_of_lookup hl))
end Nng.LifeSpec

namespace Nng.LifeModel
open Nng.Life Nng.Generated
open Nng.LifeSpec (J JPipe JEp JSock upd put KU onOut opConnEp isRace tol)

def jRegE (ei sk m : Nat) (c : Bool) : JPipe :=
  { jReg ei sk m c with evs := if m &&& 1 != 0 then [.pre] else [], preWait := false }

theorem prefix_fold (op : LOp) (j : J) (i ei sk mask : Nat) (cip : Bool) (hcbf : (j.sock sk).closedBefore = false)
    (hfresh : ∀ kq ∈ j.pipes, kq.1 ≠ i) :
    (if (mask &&& 1 != 0) = true then [LOut.pev i .pre] else []).foldl (onOut op)
        { j with pipes := j.pipes ++ [(i, jReg ei sk mask cip)] } =
      { j with pipes := j.pipes ++ [(i, jRegE ei sk mask cip)] } := by
  by_cases hb : (mask &&& 1 != 0) = true
  · simp only [hb, if_true, List.foldl_cons, List.foldl_nil]
    have hl : ({ j with pipes := j.pipes ++ [(i, jReg ei sk mask cip)] } : J).pipes.lookup i = some (jReg ei sk mask cip) := by
      simp only [Nng.LifeSpec.lookup_append, Nng.LifeSpec.lookup_fresh j.pipes i hfresh]
      simp
    rw [onOut_pev op _ i .pre _ hl (by rfl) (by rfl) (by rfl) (by rfl) (by rfl) (by exact hcbf)]
    simp only [Nng.LifeSpec.upd_append, Nng.LifeSpec.upd_fresh j.pipes i _ hfresh]
    simp [upd, jRegE, jReg, jEv, hb, -Nat.and_one_is_mod]
  · simp only [hb, if_false, List.foldl_nil, Bool.false_eq_true]
    simp [jRegE, jReg, hb, -Nat.and_one_is_mod]

theorem jp_preP (mask i ei sk : Nat) (cip c cl s : Bool) (hc : c = (cip && mask &&& 1 != 0)) :
    jp { preP mask i ei sk with cip := c, closed := cl, started := s } = { jRegE ei sk mask cip with started := s } := by
  subst hc
  by_cases h0 : mask = 0
  · subst h0; simp [jp, preP, jRegE, jReg]
  · simp [jp, preP, jRegE, jReg, h0, -Nat.and_one_is_mod]

/-- nni_pipe_run_cb(ADD_POST) on the pipe that just got through ADD_PRE -/
theorem post_run (mask i ei sk : Nat) :
    runCb mask .post { preP mask i ei sk with started := true } =
      if mask = 0 then ({ preP mask i ei sk with started := true }, false)
      else if mask &&& 2 = 0 then ({ preP mask i ei sk with started := true, last := 2 }, false)
      else ({ preP mask i ei sk with started := true, last := 2, evs := (preP mask i ei sk).evs ++ [.post] }, true) := by
  by_cases h0 : mask = 0
  · subst h0; simp [runCb]
  · by_cases h2 : mask &&& 2 = 0
    · simp [runCb, preP, h0, h2, evBit, PEv.rank]
    · simp [runCb, preP, h0, h2, evBit, PEv.rank]

/-- the judge's record after `pipe`, ADD_PRE (if registered), `parm` and ADD_POST (if registered) -/
theorem jp_started (mask i ei sk : Nat) (cip : Bool) (hcf : (cip && mask &&& 1 != 0) = false) :
    jp (runCb mask .post { preP mask i ei sk with started := true }).1 =
      (if (runCb mask .post { preP mask i ei sk with started := true }).2 then jEv .post else id)
        (jStart (postDue mask (jRegE ei sk mask cip)) (jRegE ei sk mask cip)) := by
  rw [post_run]
  by_cases h0 : mask = 0
  · subst h0; simp [jp, preP, jRegE, jReg, jStart, postDue] at hcf ⊢
  · by_cases h2 : mask &&& 2 = 0
    · simp only [h0, h2, if_false, if_true, Bool.false_eq_true, id]
      by_cases h1 : mask &&& 1 = 0
      · simp [jp, preP, jRegE, jReg, jStart, postDue, h0, h1, h2, -Nat.and_one_is_mod]
      · have hc : cip = false := by simpa [h1, -Nat.and_one_is_mod] using hcf
        simp [jp, preP, jRegE, jReg, jStart, postDue, h0, h1, h2, hc, -Nat.and_one_is_mod]
    · simp only [h0, h2, if_false, if_true]
      by_cases h1 : mask &&& 1 = 0
      · simp [jp, preP, jRegE, jReg, jStart, postDue, jEv, h0, h1, h2, -Nat.and_one_is_mod]
      · have hc : cip = false := by simpa [h1, -Nat.and_one_is_mod] using hcf
        simp [jp, preP, jRegE, jReg, jStart, postDue, jEv, h0, h1, h2, hc, -Nat.and_one_is_mod]

end Nng.LifeModel

namespace Nng.LifeModel
open Nng.Life Nng.Generated
open Nng.LifeSpec (J JPipe JEp JSock upd put KU onOut opConnEp isRace tol)

theorem PipesRel_append {st : State} {j : J} (hr : PipesRel st j) (pA : Pipe) (q : JPipe) (hq : jp pA = q) :
    j.pipes ++ [(pA.idx, q)] = (st.pipes ++ [pA]).map fun p => (p.idx, jp p) := by
  rw [hr, List.map_append]; simp [hq]

theorem Mid_setSock {S : SelE} {st : State} {j : J} (h : Mid S st j) (s : Nat) (f : Sock → Sock)
    (hf : ∀ k, (f k).opened = k.opened ∧ (f k).closed = k.closed ∧ (f k).mask = k.mask ∧ (f k).cip = k.cip) :
    Mid S (setSock st s f) j := by
  have hk : ∀ s', ((setSock st s f).socks s').opened = (st.socks s').opened ∧ ((setSock st s f).socks s').closed = (st.socks s').closed ∧
      ((setSock st s f).socks s').mask = (st.socks s').mask ∧ ((setSock st s f).socks s').cip = (st.socks s').cip := by
    intro s'
    simp only [setSock]
    split
    · exact hf _
    · exact ⟨rfl, rfl, rfl, rfl⟩
  refine ⟨W_congr (st := st) rfl rfl rfl h.w, h.pinv, ?_, h.now, h.e14, h.e10, ?_, h.eps.congr rfl rfl, h.pipes⟩
  · intro p hp hl
    have := h.lso p hp hl
    unfold sockOpen
    rw [(hk p.sock).1, (hk p.sock).2.1]; exact this
  · intro s'
    exact SR_congr (h.socks s') (hk s').1 (hk s').2.1 (hk s').2.2.1 (hk s').2.2.2

theorem startPipe_sim (op : LOp) (hnr : isRace op = false) (st : State) (j : J) (ei sk peer : Nat) (x : JEp)
    (hW : ∀ q : Pipe, q.idx = st.pipes.length → q.ep = ei → q.sock = sk → q.reaped = false →
      W { st with pipes := st.pipes ++ [q] })
    (hpinv : PipesInv st) (hlso : LiveSockOpen st) (hso : sockOpen (st.socks sk))
    (hnow : j.now = st.now) (h14 : j.err14 = none) (h10 : j.err10 = none) (hsocks : SocksRel st j)
    (heps : EpsRel noSel st j) (hpipes : PipesRel st j) (hcb : CB j) (hidxP : Indexed (·.idx) st.pipes)
    (hconn : opConnEp op = some ei) (hx : j.eps.lookup ei = some x) (hxs : x.sock = sk)
    (hone : x.dialer = true → ∀ p ∈ st.pipes, p.ep = ei → p.reaped = true) :
    ∃ rest, (startPipe st { idx := st.pipes.length, ep := ei, sock := sk } peer).2 = .pipe st.pipes.length :: rest ∧
      (∀ o ∈ rest, isPipeEv o = true) ∧
      Mid noSel (startPipe st { idx := st.pipes.length, ep := ei, sock := sk } peer).1
        (rest.foldl (onOut op) (onOut op j (.pipe st.pipes.length))) ∧
      SameJ j (rest.foldl (onOut op) (onOut op j (.pipe st.pipes.length))) := by
  obtain ⟨hmask, hcip, hcbf⟩ := sock_open_view hsocks hcb hso
  have hfresh : ∀ kq ∈ j.pipes, kq.1 ≠ st.pipes.length := by
    intro kq hkq
    rw [hpipes] at hkq
    rcases List.mem_map.mp hkq with ⟨p, hp, rfl⟩
    exact Nat.ne_of_lt (hidxP.lt hp)
  have hp0 : onOut op j (.pipe st.pipes.length) =
      { j with pipes := j.pipes ++ [(st.pipes.length, jReg ei sk (st.socks sk).mask (st.socks sk).cip)] } := by
    rw [onOut_pipe op hnr j _ ei x hconn hx]
    · rw [hxs, hmask, hcip, Nng.LifeSpec.put_fresh _ _ _ hfresh]
    · intro hd kq hkq
      rw [hpipes] at hkq
      rcases List.mem_map.mp hkq with ⟨p, hp, rfl⟩
      show (p.ep == ei && !p.reaped) = false
      by_cases hpe : p.ep = ei
      · simp [hone hd p hp hpe]
      · simp [hpe]
  -- the judge after the registration and ADD_PRE
  have hpre := prefix_fold op j st.pipes.length ei sk (st.socks sk).mask (st.socks sk).cip hcbf hfresh
  rw [hp0, startPipe_eq]
  obtain ⟨hpi, hnopost, hnorem, hlast1⟩ := preP_inv (st.socks sk).mask st.pipes.length ei sk
  -- Mid for the state with the pipe appended
  have hmidG : ∀ (pA : Pipe) (q : JPipe), pA.idx = st.pipes.length → pA.ep = ei → pA.sock = sk → pA.reaped = false → PipeInv pA →
      jp pA = q → Mid noSel { st with pipes := st.pipes ++ [pA] } { j with pipes := j.pipes ++ [(st.pipes.length, q)] } := by
    intro pA q a1 a2 a3 a4 a5 a6
    refine ⟨hW pA a1 a2 a3 a4, ?_, ?_, hnow, h14, h10, hsocks, heps.congr rfl rfl, ?_⟩
    · intro q hq
      rcases List.mem_append.mp hq with hq | hq
      · exact hpinv q hq
      · rw [List.mem_singleton.mp hq]; exact a5
    · intro q hq hl
      rcases List.mem_append.mp hq with hq | hq
      · exact hlso q hq hl
      · rw [List.mem_singleton.mp hq, a3]; exact hso
    · show j.pipes ++ _ = _
      rw [← a1]; exact PipesRel_append hpipes pA _ a6
  have hmidA := fun pA => hmidG pA (jRegE ei sk (st.socks sk).mask (st.socks sk).cip)
  by_cases hb1 : ((st.socks sk).mask &&& 1 != 0 && (st.socks sk).cip) = true
  · -- closed inside ADD_PRE
    rw [if_pos hb1]
    have hb : ((st.socks sk).mask &&& 1 != 0) = true := by simp at hb1 ⊢; exact hb1.1
    have hc : (st.socks sk).cip = true := by simp at hb1; exact hb1.2
    refine ⟨[.pev st.pipes.length .pre] ++ (killPipe { st with pipes := st.pipes ++
      [{ preP (st.socks sk).mask st.pipes.length ei sk with cip := true, closed := true }] } st.pipes.length).2, rfl, ?_, ?_⟩
    · intro o ho
      rcases List.mem_append.mp ho with ho | ho
      · rw [List.mem_singleton.mp ho]; rfl
      · exact killPipe_evs _ _ o ho
    · rw [List.foldl_append]
      rw [if_pos hb] at hpre
      rw [hpre]
      have hm := hmidA { preP (st.socks sk).mask st.pipes.length ei sk with cip := true, closed := true } rfl rfl rfl rfl
        (by
          constructor
          · exact hpi.sorted
          · exact hpi.bounded
          · exact hpi.last_le
          · exact hpi.none_empty
          · exact hpi.pre_due
          · intro _; exact hpi.live_last rfl
          · intro _; rfl
          · intro _; exact ⟨rfl, rfl⟩
          · intro hp; exact absurd hp hnopost
          · intro hp; exact absurd hp hnorem
          · intro hr; cases hr)
        (jp_preP _ _ _ _ _ _ _ _ (by rw [hc, hb]; rfl))
      have hcb' : CB { j with pipes := j.pipes ++ [(st.pipes.length, jRegE ei sk (st.socks sk).mask (st.socks sk).cip)] } := hcb
      obtain ⟨h1, s1⟩ := killPipe_sim noSel op hnr _ _ st.pipes.length hm hcb'
      exact ⟨h1, SameJ.trans ⟨rfl, rfl, rfl, rfl, rfl⟩ s1⟩
  · rw [if_neg hb1]
    have hcf : ((st.socks sk).cip && (st.socks sk).mask &&& 1 != 0) = false := by
      rw [Bool.and_comm]; simpa using hb1
    by_cases hb2 : (!protoAccepts (st.socks sk) peer) = true
    · -- rejected by the protocol
      rw [if_pos hb2]
      refine ⟨(if ((st.socks sk).mask &&& 1 != 0) = true then [.pev st.pipes.length .pre] else []) ++
        (killPipe { st with pipes := st.pipes ++ [preP (st.socks sk).mask st.pipes.length ei sk] } st.pipes.length).2,
        by simp, ?_, ?_⟩
      · intro o ho
        rcases List.mem_append.mp ho with ho | ho
        · split at ho
          · rw [List.mem_singleton.mp ho]; rfl
          · cases ho
        · exact killPipe_evs _ _ o ho
      · rw [List.foldl_append, hpre]
        have hm := hmidA (preP (st.socks sk).mask st.pipes.length ei sk) rfl rfl rfl rfl hpi
          (jp_preP _ _ _ _ _ false false false (by rw [hcf]))
        have hcb' : CB { j with pipes := j.pipes ++ [(st.pipes.length, jRegE ei sk (st.socks sk).mask (st.socks sk).cip)] } := hcb
        obtain ⟨h1, s1⟩ := killPipe_sim noSel op hnr _ _ st.pipes.length hm hcb'
        exact ⟨h1, SameJ.trans ⟨rfl, rfl, rfl, rfl, rfl⟩ s1⟩
    · -- started
      rw [if_neg hb2]
      have hpost := post_step (st.socks sk).mask _ hpi hlast1 rfl rfl hnopost hnorem
      simp only at hpost
      have hfr2 := runCb_frame (st.socks sk).mask .post { preP (st.socks sk).mask st.pipes.length ei sk with started := true }
      refine ⟨(if ((st.socks sk).mask &&& 1 != 0) = true then [.pev st.pipes.length .pre] else []) ++ [.parm st.pipes.length] ++
        (if (runCb (st.socks sk).mask .post { preP (st.socks sk).mask st.pipes.length ei sk with started := true }).2
          then [.pev st.pipes.length .post] else []), by simp, ?_, ?_⟩
      · intro o ho
        simp only [List.mem_append, List.mem_singleton] at ho
        rcases ho with (ho | ho) | ho
        · split at ho
          · rw [List.mem_singleton.mp ho]; rfl
          · cases ho
        · rw [ho]; rfl
        · split at ho
          · rw [List.mem_singleton.mp ho]; rfl
          · cases ho
      · rw [List.foldl_append, List.foldl_append, hpre]
        -- parm
        have hlA : ({ j with pipes := j.pipes ++ [(st.pipes.length, jRegE ei sk (st.socks sk).mask (st.socks sk).cip)] } : J).pipes.lookup
            st.pipes.length = some (jRegE ei sk (st.socks sk).mask (st.socks sk).cip) := by
          simp only [Nng.LifeSpec.lookup_append, Nng.LifeSpec.lookup_fresh j.pipes _ hfresh]
          simp
        simp only [List.foldl_cons, List.foldl_nil]
        rw [onOut_parm op _ _ _ hlA (by exact hcf) (by rfl)]
        have hmk : (({ j with pipes := j.pipes ++ [(st.pipes.length, jRegE ei sk (st.socks sk).mask (st.socks sk).cip)] } : J).sock
            (jRegE ei sk (st.socks sk).mask (st.socks sk).cip).sock).mask = (st.socks sk).mask := hmask
        rw [hmk]
        simp only [Nng.LifeSpec.upd_append, Nng.LifeSpec.upd_fresh j.pipes _ _ hfresh]
        have hu1 : ∀ (f : JPipe → JPipe) (q : JPipe), upd [(st.pipes.length, q)] st.pipes.length f = [(st.pipes.length, f q)] := by
          intro f q; simp [upd]
        rw [hu1]
        -- the final judge state
        have hjs := jp_started (st.socks sk).mask st.pipes.length ei sk (st.socks sk).cip hcf
        have hfin : (if (runCb (st.socks sk).mask .post { preP (st.socks sk).mask st.pipes.length ei sk with started := true }).2
              then [LOut.pev st.pipes.length .post] else []).foldl (onOut op)
              { j with pipes := j.pipes ++ [(st.pipes.length,
                jStart (postDue (st.socks sk).mask (jRegE ei sk (st.socks sk).mask (st.socks sk).cip))
                  (jRegE ei sk (st.socks sk).mask (st.socks sk).cip))] } =
            { j with pipes := j.pipes ++ [(st.pipes.length,
              jp (runCb (st.socks sk).mask .post { preP (st.socks sk).mask st.pipes.length ei sk with started := true }).1)] } := by
          rw [hjs]
          cases hr2 : (runCb (st.socks sk).mask .post { preP (st.socks sk).mask st.pipes.length ei sk with started := true }).2 with
          | false => simp only [Bool.false_eq_true, if_false, List.foldl_nil, id]
          | true =>
            simp only [if_true, List.foldl_cons, List.foldl_nil]
            have hlB : ({ j with pipes := j.pipes ++ [(st.pipes.length,
                jStart (postDue (st.socks sk).mask (jRegE ei sk (st.socks sk).mask (st.socks sk).cip))
                  (jRegE ei sk (st.socks sk).mask (st.socks sk).cip))] } : J).pipes.lookup st.pipes.length =
                some (jStart (postDue (st.socks sk).mask (jRegE ei sk (st.socks sk).mask (st.socks sk).cip))
                  (jRegE ei sk (st.socks sk).mask (st.socks sk).cip)) := by
              simp only [Nng.LifeSpec.lookup_append, Nng.LifeSpec.lookup_fresh j.pipes _ hfresh]
              simp
            rw [onOut_pev op _ _ .post _ hlB]
            · simp only [Nng.LifeSpec.upd_append, Nng.LifeSpec.upd_fresh j.pipes _ _ hfresh, hu1]
            · show (jRegE ei sk (st.socks sk).mask (st.socks sk).cip).evs.contains PEv.post = false
              unfold jRegE; simp only; split <;> rfl
            · show (jRegE ei sk (st.socks sk).mask (st.socks sk).cip).evs.any (fun e => e.rank ≥ PEv.post.rank) = false
              unfold jRegE; simp only; split <;> rfl
            · show (PEv.post != PEv.pre && !(jRegE ei sk (st.socks sk).mask (st.socks sk).cip).evs.contains PEv.pre &&
                (((st.socks sk).mask &&& 1 != 0 || !((st.socks sk).mask != 0)) && !false)) = false
              have hm0 : (st.socks sk).mask ≠ 0 := by
                intro h0
                rw [post_run, if_pos h0] at hr2
                cases hr2
              unfold jRegE
              by_cases h1 : ((st.socks sk).mask &&& 1 != 0) = true
              · simp only [h1, if_true]; rfl
              · simp only [h1, Bool.false_eq_true, if_false]
                have h1' : ((st.socks sk).mask &&& 1 != 0) = false := by simpa using h1
                simp [h1', hm0, -Nat.and_one_is_mod]
            · exact hcf
            · rfl
            · exact hcbf
        rw [hfin]
        have hm := hmidG _ _ hfr2.1 hfr2.2.1 hfr2.2.2.1 hfr2.2.2.2 hpost.1 rfl
        split
        · exact ⟨Mid_setSock hm sk _ (fun _ => ⟨rfl, rfl, rfl, rfl⟩), rfl, rfl, rfl, rfl, rfl⟩
        · exact ⟨hm, rfl, rfl, rfl, rfl, rfl⟩

end Nng.LifeModel
