/-
  "The lifecycle judge accepts every trace of the lifecycle model" (C14 / C10), part 11:
  dialer_close / listener_close.  The judge marks the endpoint closed before the events (`preOp`),
  checks afterwards that no blocking dial is left pending on it (C10).
-/
import NngModel.Proofs.LifeJudgeOps3
namespace Nng.LifeModel
open Nng.Life Nng.Generated
open Nng.LifeSpec (J JPipe JEp JSock upd put KU onOut opConnEp preOp postOp quiescent flat isRace)

/-- judge: one record updated; model: nothing -/
theorem EpsRel.judge1 {S S' : SelE} {st : State} {j j' : J} (h : EpsRel S st j) (i : Nat) (u : JEp → JEp)
    (hj : j'.eps = upd j.eps i u)
    (hr : ∀ e ∈ st.eps, ∀ x, ER S e x → (e.idx = i → ER S' e (u x)) ∧ (e.idx ≠ i → ER S' e x)) :
    EpsRel S' st j' := by
  constructor
  · intro e he
    obtain ⟨x, hx, hx2⟩ := h.fwd e he
    by_cases hi : e.idx = i
    · exact ⟨u x, by rw [hj, Nng.LifeSpec.lookup_upd, hx]; simp [hi], (hr e he x hx2).1 hi⟩
    · exact ⟨x, by rw [hj, Nng.LifeSpec.lookup_upd, hx]; simp [hi], (hr e he x hx2).2 hi⟩
  · intro k x hx
    rw [hj] at hx ⊢
    obtain ⟨y, hy, rfl⟩ := Nng.LifeSpec.mem_upd hx
    obtain ⟨hl, hlt⟩ := h.bwd k y hy
    refine ⟨?_, hlt⟩
    rw [Nng.LifeSpec.lookup_upd, hl]
    by_cases hk : k = i <;> simp [hk]

def jPreClose (wd : Bool) (x : JEp) : JEp := if x.dialer == wd then { x with closed := true } else x
def jPostClose (wd : Bool) (x : JEp) : JEp :=
  if x.dialer == wd then { x with closed := true, redialSince := none, acceptBy := none } else x

def selEp (ei : Nat) (wd : Bool) : SelE := fun i _ d => i == ei && d == wd

theorem preOp_dialerClose (outs : List LOut) (j : J) (e : Nat) :
    preOp false outs j (.dialerClose e) = { j with eps := upd j.eps e (jPreClose true) } := by
  show ({ j with eps := upd j.eps e _ } : J) = _
  congr 2
  funext x
  unfold jPreClose
  cases x.dialer <;> rfl

theorem preOp_listenerClose (outs : List LOut) (j : J) (e : Nat) :
    preOp false outs j (.listenerClose e) = { j with eps := upd j.eps e (jPreClose false) } := by
  show ({ j with eps := upd j.eps e _ } : J) = _
  congr 2
  funext x
  unfold jPreClose
  cases x.dialer <;> rfl

theorem postOp_dialerClose (outs : List LOut) (j : J) (e : Nat)
    (h : ∀ ep, (upd j.eps e (jPostClose true)).lookup e = some ep → (ep.dialer == true && ep.syncPending) = false) :
    postOp outs j (.dialerClose e) = { j with eps := upd j.eps e (jPostClose true) } := by
  unfold postOp
  simp only
  split
  · rename_i ep heq
    have := h ep heq
    rw [if_neg (by rw [this]; simp)]
    rfl
  · rfl

theorem postOp_listenerClose (outs : List LOut) (j : J) (e : Nat)
    (h : ∀ ep, (upd j.eps e (jPostClose false)).lookup e = some ep → (ep.dialer == false && ep.syncPending) = false) :
    postOp outs j (.listenerClose e) = { j with eps := upd j.eps e (jPostClose false) } := by
  unfold postOp
  simp only
  split
  · rename_i ep heq
    have := h ep heq
    rw [if_neg (by rw [this]; simp)]
    rfl
  · rfl


theorem ER_preClose {e : Ep} {x : JEp} (ei : Nat) (wd : Bool) (h : ER noSel e x) :
    (e.idx = ei → ER (selEp ei wd) e (jPreClose wd x)) ∧ (e.idx ≠ ei → ER (selEp ei wd) e x) := by
  constructor
  · intro hi
    unfold jPreClose
    by_cases hd : (x.dialer == wd) = true
    · rw [if_pos hd]
      have hs : selEp ei wd e.idx e.sock e.dialer = true := by
        rw [← h.dialer]; simp [selEp, hi]; simpa using hd
      refine ⟨h.dialer, h.sock, ?_, h.cfg, h.sync, h.bg, h.bg2, ?_, ?_⟩
      · show true = _; rw [hs]; simp
      · intro hc; cases hc
      · intro hc; cases hc
    · rw [if_neg hd]
      have hs : selEp ei wd e.idx e.sock e.dialer = false := by
        rw [← h.dialer]; simp [selEp, hi]; simpa using hd
      refine ⟨h.dialer, h.sock, ?_, h.cfg, h.sync, h.bg, h.bg2, h.redial, h.accept⟩
      rw [h.closed, hs]; rfl
  · intro hi
    have hs : selEp ei wd e.idx e.sock e.dialer = false := by simp [selEp, hi]
    refine ⟨h.dialer, h.sock, ?_, h.cfg, h.sync, h.bg, h.bg2, h.redial, h.accept⟩
    rw [h.closed, hs]; rfl

theorem ER_postClose {e : Ep} {x : JEp} (wd : Bool) (h : ER noSel e x) (hc : e.dialer = wd → e.closed = true) :
    ER noSel e (jPostClose wd x) := by
  unfold jPostClose
  by_cases hd : (x.dialer == wd) = true
  · rw [if_pos hd]
    have hcl := hc (by rw [← h.dialer]; simpa using hd)
    refine ⟨h.dialer, h.sock, ?_, h.cfg, h.sync, h.bg, h.bg2, ?_, ?_⟩
    · show true = _; rw [hcl]; rfl
    · intro hh; cases hh
    · intro hh; cases hh
  · rw [if_neg hd]; exact h

theorem killPipes_NP (is : List Nat) (st : State) : NP (killPipes st is).2 := by
  induction is generalizing st with
  | nil => exact NP_nil
  | cons i rest ih =>
    rw [killPipes_cons]
    exact NP.append (NP_of_evs (killPipe_evs st i)) (ih _)

theorem closeEp_NP (st : State) (e : Ep) : NP (closeEp st e).2 := by
  unfold closeEp
  apply NP.append
  · intro o ho
    split at ho
    · rw [List.mem_singleton.mp ho]; rfl
    · cases ho
  · exact killPipes_NP _ _

theorem closeEps_NP (es : List Ep) (st : State) : NP (closeEps st es).2 := by
  induction es generalizing st with
  | nil => exact NP_nil
  | cons e rest ih =>
    rw [closeEps_cons]
    exact NP.append (closeEp_NP st e) (ih _)

/-- dialer_close / listener_close -/
theorem sim_closeEpOp (st : State) (j : J) (op : LOp) (ei : Nat) (wd : Bool) (orc : List Nat) (hr : Rel st j)
    (hu : st.unmodelled = false) (hrace : isRace op = false) (hadv : advJ j op = j)
    (hpre : ∀ outs j', preOp false outs j' op = { j' with eps := upd j'.eps ei (jPreClose wd) })
    (hpost : ∀ outs (j' : J), (∀ ep, (upd j'.eps ei (jPostClose wd)).lookup ei = some ep → (ep.dialer == wd && ep.syncPending) = false) →
      postOp outs j' op = { j' with eps := upd j'.eps ei (jPostClose wd) })
    (hrv : ∀ (x : Int) j', x = 0 ∨ x = 12 ∨ x = -1 → onOut op j' (.rv x) = j')
    (happ : apply st op = opCloseEp st ei wd) :
    Rel (step st op orc).1 (Nng.LifeSpec.step j op (step st op orc).2) := by
  have hG := apply_G st op hr.inv.g
  -- after preOp
  have hmpre : Mid (selEp ei wd) st { j with eps := upd j.eps ei (jPreClose wd) } :=
    ⟨hr.mid.w, hr.mid.pinv, hr.mid.lso, hr.mid.now, hr.mid.e14, hr.mid.e10, hr.mid.socks,
      hr.mid.eps.judge1 ei (jPreClose wd) rfl (fun e _ x hx => ER_preClose ei wd hx), hr.mid.pipes⟩
  have hcbpre : CB { j with eps := upd j.eps ei (jPreClose wd) } := hr.cb
  -- the bookkeeping after the events
  have hfinal : ∀ (sta : State) (outs : List LOut) (je ja : J), sta.ctxs = st.ctxs → sta.pend = st.pend →
      ja.ctxs = j.ctxs → ja.pend = j.pend →
      (∀ e ∈ (fireTimers orc sta).1.eps, e.idx = ei → e.dialer = wd → e.closed = true) →
      Mid noSel (fireTimers orc sta).1 je → SameJ ja je →
      Mid noSel (fireTimers orc sta).1 (postOp outs je op) ∧ CtxsRel sta (postOp outs je op) ∧ PendRel sta (postOp outs je op) := by
    intro sta outs je ja hc1 hc2 hc3 hc4 hcl hm hs
    have hER : ∀ e ∈ (fireTimers orc sta).1.eps, ∀ x, ER noSel e x →
        (e.idx = ei → ER noSel e (jPostClose wd x)) ∧ (e.idx ≠ ei → ER noSel e x) :=
      fun e he x hx => ⟨fun hi => ER_postClose wd hx (hcl e he hi), fun _ => hx⟩
    have hep := hm.eps.judge1 (j' := { je with eps := upd je.eps ei (jPostClose wd) }) ei (jPostClose wd) rfl hER
    rw [hpost]
    · exact ⟨⟨hm.w, hm.pinv, hm.lso, hm.now, hm.e14, hm.e10, hm.socks, hep, hm.pipes⟩,
        CtxsRel_of hr.ctxs hc1 (hs.2.2.1.trans hc3), PendRel_of hr.pend hc2 (hs.2.2.2.1.trans hc4)⟩
    · intro ep hl
      obtain ⟨e, he, hi, hx⟩ := hep.of_lookup hm.w hl
      cases hd : (ep.dialer == wd) with
      | false => rfl
      | true =>
        have hcl' := hcl e he hi (by rw [← hx.dialer]; simpa using hd)
        have := ((hm.w.epInv e he).1.closed_idle hcl').2.2.2
        rw [hx.sync, this]; rfl
  have hfire_closed : ∀ (sta : State), (∀ e ∈ sta.eps, e.idx = ei → e.dialer = wd → e.closed = true) →
      ∀ e ∈ (fireTimers orc sta).1.eps, e.idx = ei → e.dialer = wd → e.closed = true := by
    intro sta h e' he' hi hd
    rcases List.mem_map.mp (show e' ∈ sta.eps.map (fireOne sta.now orc) from he') with ⟨e, he, rfl⟩
    have hf := fireOne_frame sta.now orc e
    rw [hf.1] at hi; rw [hf.2.2.1] at hd; rw [hf.2.2.2.1]
    exact h e he hi hd
  -- the cases of the model
  have hsimple : ∀ x : Int, (x = 0 ∨ x = 12 ∨ x = -1) → apply st op = (st, [.rv x]) →
      (∀ e ∈ st.eps, e.idx = ei → e.dialer = wd → e.closed = true) →
      Rel (step st op orc).1 (Nng.LifeSpec.step j op (step st op orc).2) := by
    intro x hx h hcl
    refine finish_gen st j op orc hr hu hrace (by rw [h]; intro o ho; rw [List.mem_singleton.mp ho]; rfl) (selEp ei wd)
      { j with eps := upd j.eps ei (jPreClose wd) } ?_ ?_ ?_ ?_
    · rw [h, hpre, hadv]; simp only [List.foldl_cons, List.foldl_nil]; exact hrv _ _ hx
    · rw [h]; exact hmpre
    · rw [h]
      intro e he hs
      simp only [selEp, Bool.and_eq_true, beq_iff_eq] at hs
      exact hcl e he hs.1 hs.2
    · rw [h]
      intro je hm hs
      exact hfinal st _ je _ rfl rfl rfl rfl (hfire_closed st hcl) hm hs
  rw [happ] at hG
  have happ' := happ
  unfold opCloseEp at happ'
  cases hge : getEp st ei with
  | none =>
    rw [hge] at happ'
    refine hsimple (-1) (Or.inr (Or.inr rfl)) happ' ?_
    intro e he hi
    have := getEp_of_mem hr.mid.w he
    rw [hi, hge] at this; cases this
  | some e =>
    rw [hge] at happ'
    dsimp only at happ'
    obtain ⟨hem, hei⟩ := getEp_mem hge
    have huniq : ∀ e' ∈ st.eps, e'.idx = ei → e' = e := fun e' he' hi' => hr.mid.w.idxE.unique he' hem (hi'.trans hei.symm)
    by_cases hk : (e.dialer != wd) = true
    · rw [if_pos hk] at happ'
      refine hsimple (-1) (Or.inr (Or.inr rfl)) happ' ?_
      intro e' he' hi' hd'
      rw [huniq e' he' hi'] at hd'
      rw [hd'] at hk; simp at hk
    · rw [if_neg hk] at happ'
      have hkd : e.dialer = wd := by simpa using hk
      by_cases hcl : e.closed = true
      · rw [if_pos hcl] at happ'
        refine hsimple 12 (Or.inr (Or.inl rfl)) happ' ?_
        intro e' he' hi' _
        rw [huniq e' he' hi']; exact hcl
      · rw [if_neg hcl] at happ'
        obtain ⟨g1, m1, c1, s1, x1⟩ := closeEp_spec st e hr.inv.g
        have hcur : ∀ e' ∈ st.eps, e'.idx = e.idx → (e'.userAio = true → e.userAio = true) ∧
            (e'.closed = true ∨ selEp ei wd e'.idx e'.sock e'.dialer = true) := by
          intro e' he' hi'
          have : e' = e := huniq e' he' (hi'.trans hei)
          subst this
          exact ⟨id, Or.inr (by simp [selEp, hei, hkd])⟩
        obtain ⟨h1, sj1⟩ := closeEp_sim (selEp ei wd) op hrace st _ e hmpre hcbpre hcur
        have hsame := closeEp_same st e
        have hclosed : ∀ e' ∈ (closeEp st e).1.eps, e'.idx = ei → e'.dialer = wd → e'.closed = true :=
          fun e' he' hi' _ => c1 e' he' (hi'.trans hei.symm)
        refine finish_gen st j op orc hr hu hrace ?_ (selEp ei wd)
          ((closeEp st e).2.foldl (onOut op) { j with eps := upd j.eps ei (jPreClose wd) }) ?_ ?_ ?_ ?_
        · rw [happ']
          apply NP.append
          · intro o ho; rw [List.mem_singleton.mp ho]; rfl
          · exact closeEp_NP st e
        · rw [happ', hpre, hadv]
          simp only [List.foldl_append, List.foldl_cons, List.foldl_nil]
          rw [hrv _ _ (Or.inl rfl)]
        · rw [happ']; exact h1
        · rw [happ']
          intro e' he' hs
          simp only [selEp, Bool.and_eq_true, beq_iff_eq] at hs
          exact hclosed e' he' hs.1 hs.2
        · rw [happ']
          intro je hm hs
          exact hfinal (closeEp st e).1 _ je _ hsame.2.2.2 hsame.1 sj1.2.2.1 sj1.2.2.2.1 (hfire_closed _ hclosed) hm hs


theorem sim_dialerClose (st : State) (j : J) (ei : Nat) (orc : List Nat) (hr : Rel st j) (hu : st.unmodelled = false) :
    Rel (step st (.dialerClose ei) orc).1 (Nng.LifeSpec.step j (.dialerClose ei) (step st (.dialerClose ei) orc).2) := by
  refine sim_closeEpOp st j (.dialerClose ei) ei true orc hr hu rfl rfl (fun outs j' => preOp_dialerClose outs j' ei)
    (fun outs j' h => postOp_dialerClose outs j' ei h) ?_ rfl
  intro x j' hx
  rcases hx with rfl | rfl | rfl <;> rfl

theorem sim_listenerClose (st : State) (j : J) (ei : Nat) (orc : List Nat) (hr : Rel st j) (hu : st.unmodelled = false) :
    Rel (step st (.listenerClose ei) orc).1 (Nng.LifeSpec.step j (.listenerClose ei) (step st (.listenerClose ei) orc).2) := by
  refine sim_closeEpOp st j (.listenerClose ei) ei false orc hr hu rfl rfl (fun outs j' => preOp_listenerClose outs j' ei)
    (fun outs j' h => postOp_listenerClose outs j' ei h) ?_ rfl
  intro x j' hx
  rcases hx with rfl | rfl | rfl <;> rfl

end Nng.LifeModel
