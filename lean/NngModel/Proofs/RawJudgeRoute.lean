/-
  Raw models: sock_getq_cb pipe by pipe (`specRoute`: every pipe is offered what `sel` selects for
  it), the three cases of one offer, and which wire hand-overs a send produces.
-/
import NngModel.Proofs.RawSurvKinds
namespace Nng.RawSurv
open Nng Nng.Proto Nng.RawMq

/-- what sock_getq_cb does to pipe `i` for message `m` -/
def offerSel (sel : Sel) (m : WMsg) (i : Nat) (pp : Pipe) : Pipe × List Out :=
  match sel i m with
  | some m1 => offer i pp m1
  | none => (pp, [])

/-- sock_getq_cb as a pass over all pipes, in index order -/
def specRoute (sel : Sel) (m : WMsg) : Nat → List Pipe → List Pipe × List Out
  | _, [] => ([], [])
  | i, pp :: rest =>
    ((offerSel sel m i pp).1 :: (specRoute sel m (i + 1) rest).1, (offerSel sel m i pp).2 ++ (specRoute sel m (i + 1) rest).2)

/-- the kind's sock_getq_cb is that pass (discharged per kind) -/
def RouteSpec (k : Kind) (sel : Sel) : Prop := ∀ ps m, k.route ps m = specRoute sel m 0 ps

theorem specRoute_get (sel : Sel) (m : WMsg) : ∀ (ps : List Pipe) (i0 q : Nat),
    (specRoute sel m i0 ps).1[q]? = ps[q]?.map (fun pp => (offerSel sel m (i0 + q) pp).1) := by
  intro ps
  induction ps with
  | nil => intro i0 q; simp [specRoute]
  | cons pp rest ih =>
    intro i0 q
    cases q with
    | zero => simp [specRoute]
    | succ q =>
      simp only [specRoute, List.getElem?_cons_succ]
      rw [ih (i0 + 1) q]
      congr 2
      funext x
      rw [show i0 + 1 + q = i0 + (q + 1) by omega]

theorem specRoute_len (sel : Sel) (m : WMsg) : ∀ (ps : List Pipe) (i0 : Nat), (specRoute sel m i0 ps).1.length = ps.length := by
  intro ps
  induction ps with
  | nil => intro i0; rfl
  | cons pp rest ih => intro i0; simp [specRoute, ih]

/-- an offer puts the message on the wire at once: connected pipe, its reader waiting -/
def wiresNow (pp : Pipe) : Bool := !pp.closed && !pp.sq.closed && !pp.sq.getq.isEmpty

theorem offer_out_cases (i : Nat) (pp : Pipe) (m1 : WMsg) :
    (offer i pp m1).2 = if wiresNow pp then [Out.psend i m1] else [] := by
  unfold offer wiresNow
  cases hc : pp.closed with
  | true => simp
  | false =>
    simp only [Bool.false_eq_true, if_false]
    unfold tryput
    cases hsc : pp.sq.closed with
    | true => simp
    | false =>
      simp only [Bool.false_eq_true, if_false]
      cases hg : pp.sq.getq with
      | cons r rs => simp
      | nil =>
        simp only []
        by_cases hl : pp.sq.items.length < pp.sq.cap
        · rw [if_pos hl]; simp
        · rw [if_neg hl]; simp

/-- the wire hand-overs of the pass: one per pipe that wires at once, pipes strictly increasing -/
theorem specRoute_outs (sel : Sel) (m : WMsg) : ∀ (ps : List Pipe) (i0 : Nat),
    ∃ ws : List (Nat × WMsg), (specRoute sel m i0 ps).2 = ws.map (fun x => Out.psend x.1 x.2) ∧ (ws.map (·.1)).Nodup ∧
      (∀ x ∈ ws, i0 ≤ x.1) ∧
      (∀ q m1, (q, m1) ∈ ws ↔ (i0 ≤ q ∧ ∃ pp, ps[q - i0]? = some pp ∧ sel q m = some m1 ∧ wiresNow pp = true)) := by
  intro ps
  induction ps with
  | nil =>
    intro i0
    exact ⟨[], rfl, by simp, by simp, by simp⟩
  | cons pp rest ih =>
    intro i0
    obtain ⟨ws, e1, e2, e3, e4⟩ := ih (i0 + 1)
    have hrest : ∀ q m1, (q, m1) ∈ ws → (i0 ≤ q ∧ ∃ pp1, (pp :: rest)[q - i0]? = some pp1 ∧ sel q m = some m1 ∧ wiresNow pp1 = true) := by
      intro q m1 h
      obtain ⟨h1, pp1, h2, h3, h4⟩ := (e4 q m1).1 h
      refine ⟨by omega, pp1, ?_, h3, h4⟩
      rw [show q - i0 = (q - (i0 + 1)) + 1 by omega]
      simpa using h2
    have hback : ∀ q m1, i0 < q → (∃ pp1, (pp :: rest)[q - i0]? = some pp1 ∧ sel q m = some m1 ∧ wiresNow pp1 = true) → (q, m1) ∈ ws := by
      intro q m1 hq h
      obtain ⟨pp1, h2, h3, h4⟩ := h
      refine (e4 q m1).2 ⟨by omega, pp1, ?_, h3, h4⟩
      rw [show q - i0 = (q - (i0 + 1)) + 1 by omega] at h2
      simpa using h2
    simp only [specRoute]
    unfold offerSel
    cases hs : sel i0 m with
    | none =>
      refine ⟨ws, by simpa using e1, e2, fun x hx => by have := e3 x hx; omega, ?_⟩
      intro q m1
      constructor
      · exact hrest q m1
      · rintro ⟨h1, h⟩
        by_cases hq : q = i0
        · subst hq
          obtain ⟨pp1, _, h3, _⟩ := h
          rw [hs] at h3; cases h3
        · exact hback q m1 (by omega) h
    | some m0 =>
      simp only []
      rw [offer_out_cases]
      by_cases hw : wiresNow pp = true
      · rw [if_pos hw]
        refine ⟨(i0, m0) :: ws, by simp [e1], ?_, ?_, ?_⟩
        · simp only [List.map_cons, List.nodup_cons]
          refine ⟨?_, e2⟩
          intro hm
          obtain ⟨x, hx, e⟩ := List.mem_map.1 hm
          have := e3 x hx
          have e : x.1 = i0 := e
          omega
        · intro x hx
          simp only [List.mem_cons] at hx
          rcases hx with rfl | hx
          · exact Nat.le_refl _
          · have := e3 x hx; omega
        · intro q m1
          simp only [List.mem_cons, Prod.mk.injEq]
          constructor
          · rintro (⟨rfl, rfl⟩ | h)
            · exact ⟨Nat.le_refl _, pp, by rw [Nat.sub_self]; rfl, hs, hw⟩
            · exact hrest q m1 h
          · rintro ⟨h1, h⟩
            by_cases hq : q = i0
            · subst hq
              obtain ⟨pp1, _, h3, _⟩ := h
              rw [hs] at h3; cases h3
              exact Or.inl ⟨rfl, rfl⟩
            · exact Or.inr (hback q m1 (by omega) h)
      · rw [if_neg hw]
        refine ⟨ws, by simpa using e1, e2, fun x hx => by have := e3 x hx; omega, ?_⟩
        intro q m1
        constructor
        · exact hrest q m1
        · rintro ⟨h1, h⟩
          by_cases hq : q = i0
          · subst hq
            obtain ⟨pp1, h2, _, h4⟩ := h
            simp at h2; subst h2
            exact absurd h4 hw
          · exact hback q m1 (by omega) h

theorem offer_idle_eq (i : Nat) (pp : Pipe) (m1 : WMsg) (r : Get) (rs : List Get) (hc : pp.closed = false)
    (hsc : pp.sq.closed = false) (hg : pp.sq.getq = r :: rs) :
    offer i pp m1 = ({ pp with sq := { pp.sq with getq := rs }, busy := true, offered := pp.offered ++ [m1],
                               wired := pp.wired ++ [m1] }, [.psend i m1]) := by
  unfold offer tryput
  simp [hc, hsc, hg]

theorem offer_room_eq (i : Nat) (pp : Pipe) (m1 : WMsg) (hc : pp.closed = false)
    (hsc : pp.sq.closed = false) (hg : pp.sq.getq = []) (hl : pp.sq.items.length < pp.sq.cap) :
    offer i pp m1 = ({ pp with sq := { pp.sq with items := pp.sq.items ++ [m1] }, offered := pp.offered ++ [m1] }, []) := by
  unfold offer tryput
  simp [hc, hsc, hg, hl]

theorem offer_full_eq (i : Nat) (pp : Pipe) (m1 : WMsg) (hc : pp.closed = false)
    (hsc : pp.sq.closed = false) (hg : pp.sq.getq = []) (hl : ¬ pp.sq.items.length < pp.sq.cap) :
    offer i pp m1 = ({ pp with offered := pp.offered ++ [m1], dropped := pp.dropped ++ [m1] }, []) := by
  unfold offer tryput
  simp [hc, hsc, hg, hl]

/-- one offer to a connected pipe: idle → on the wire; room → queued last; full → discarded whole -/
theorem offer_cases {sel : Sel} {cap : Nat} {sent : List WMsg} {i : Nat} {pp : Pipe} (hpo : PipeOK sel cap sent i pp)
    (hc : pp.closed = false) (m1 : WMsg) :
    (offer i pp m1).1.closed = false ∧
    ((pp.sq.getq ≠ [] ∧ wiresNow pp = true ∧ (offer i pp m1).1.busy = true ∧ (offer i pp m1).1.sq.getq = [] ∧
        (offer i pp m1).1.sq.items = pp.sq.items ∧ (offer i pp m1).1.wired = pp.wired ++ [m1]) ∨
     (pp.sq.getq = [] ∧ wiresNow pp = false ∧ pp.sq.items.length < cap ∧ (offer i pp m1).1.busy = pp.busy ∧
        (offer i pp m1).1.sq.getq = [] ∧ (offer i pp m1).1.sq.items = pp.sq.items ++ [m1] ∧ (offer i pp m1).1.wired = pp.wired) ∨
     (pp.sq.getq = [] ∧ wiresNow pp = false ∧ ¬ pp.sq.items.length < cap ∧ (offer i pp m1).1.busy = pp.busy ∧
        (offer i pp m1).1.sq.getq = [] ∧ (offer i pp m1).1.sq.items = pp.sq.items ∧ (offer i pp m1).1.wired = pp.wired)) := by
  have hsc : pp.sq.closed = false := by rw [hpo.sqc]; exact hc
  cases hg : pp.sq.getq with
  | cons r rs =>
    have hrs : rs = [] := by
      have := hpo.one; rw [hg] at this; simp at this; exact this
    subst hrs
    rw [offer_idle_eq i pp m1 r [] hc hsc hg]
    refine ⟨hc, Or.inl ⟨by simp, ?_, rfl, rfl, rfl, rfl⟩⟩
    simp [wiresNow, hc, hsc, hg]
  | nil =>
    have hw : wiresNow pp = false := by simp [wiresNow, hg]
    by_cases hl : pp.sq.items.length < pp.sq.cap
    · rw [offer_room_eq i pp m1 hc hsc hg hl]
      exact ⟨hc, Or.inr (Or.inl ⟨rfl, hw, by rw [← hpo.capk]; exact hl, rfl, hg, rfl, rfl⟩)⟩
    · rw [offer_full_eq i pp m1 hc hsc hg hl]
      exact ⟨hc, Or.inr (Or.inr ⟨rfl, hw, by rw [← hpo.capk]; exact hl, rfl, hg, rfl, rfl⟩)⟩

/-- nni_sock_send on an open socket, in full -/
theorem sockSend_eq {k : Kind} {sel : Sel} (s : State) (a : Nat) (m : WMsg) (mode : Mode) (h : Inv k sel s)
    (ho : s.opened = true) (hc : s.closed = false) :
    sockSend k s a m mode =
      ({ s with pipes := (k.route s.pipes m).1, uwq := { s.uwq with putq := [], getq := [⟨0, none⟩] }, sent := s.sent ++ [m] },
       [Out.done a 0 none false] ++ (k.route s.pipes m).2) := by
  have hg := h.uwq.rdr ho hc
  unfold sockSend
  rw [if_neg (by simp [mustWaitPut, hg, h.uwq.putq])]
  rw [aioPut_reader s.uwq _ ⟨0, none⟩ [] hg h.uwq.putq]
  simp only []
  have e : aioGet ({ s.uwq with putq := [], getq := [] } : Mq) ⟨0, none⟩ =
      ({ s.uwq with putq := [], getq := [⟨0, none⟩] }, []) := by
    rw [aioGet_noreader _ _ rfl]
    simp only [h.uwq.items]
  rw [e]
  simp only [List.isEmpty_nil, if_true]

end Nng.RawSurv
