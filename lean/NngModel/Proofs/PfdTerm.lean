/- termination: a measure that every effective step of the poller-layer model strictly decreases
   (ANY scheduler, ANY readiness oracle, no contract needed), hence a bound on the number of effective
   steps of a run: (14 + K) per call of the client programs and callback scripts, K = number of clients -/
import NngModel.Proofs.PfdLive
namespace Nng.Pfd
open Nng.PfdSpec

/-- credit a successful arm gives the poller (harvest, dispatch, callback begin / end) -/
def CA : Nat := 6
/-- credit a write to the eventfd gives the poller (harvest, read, reap, one re-check per sleeper) -/
def CW (K : Nat) : Nat := 5 + K

/-- weight of a call not yet begun -/
def W (K : Nat) : Op → Nat
  | .arm _ => 3 + CA
  | .close => 4
  | .stop => 9 + CW K
  | .fini => 1
  | .free => 1
  | .kick => 1 + CW K

/-- weight of the rest of a call in progress -/
def fw (K : Nat) (f : Frame) (op : Op) : Nat :=
  match f with
  | .idle => W K op
  | .armCtl _ _ _ => 1 + CA
  | .closeShut => if op = .stop then 6 + CW K else 2
  | .closeDel => if op = .stop then 5 + CW K else 1
  | .stopClose => 7 + CW K
  | .stopLock => 4 + CW K
  | .stopWrite => 3 + CW K
  | .stopSleep => 1
  | .stopChk => 2

def progW (K : Nat) (f : Frame) : List Op → Nat
  | [] => 0
  | op :: rest => fw K f op + (rest.map (W K)).sum

def cw (K : Nat) (c : Client) : Nat := progW K c.frame c.prog

def itemW (K : Nat) : BEv → Nat
  | .wake => 3 + K
  | .pfd _ => 4

def pcW : PPc → Nat
  | .wait => 0
  | .disp => 1
  | .cbBegin => 3
  | .inCb => 2
  | .reapLock => 0

/-- the enabled registration and the unread eventfd are work the poller will still do -/
def gpot (K : Nat) (g : G) (p : Poller) : Nat :=
  (if g.reg && g.en then CA else 0) +
  (if 0 < g.evfd then (if p.pc ≠ .wait ∧ BEv.wake ∈ p.batch then 0 else CW K) else 0)

def reapW (K : Nat) (p : Poller) : Nat := if p.pc = .reapLock ∨ (p.reap = true ∧ p.pc ≠ .wait) then 1 + K else 0

def mu (s : State) : Nat :=
  let K := s.cs.length
  ((s.cs.map (cw K)).sum) + ((s.p.scripts.map fun sc => (sc.map (W K)).sum).sum) + pcW s.p.pc + progW K s.p.frame s.p.rem +
    ((s.p.batch.map (itemW K)).sum) + gpot K s.g s.p + reapW K s.p

theorem sum_map_set {α : Type} (f : α → Nat) (l : List α) (i : Nat) (a x : α) (h : l[i]? = some a) :
    ((l.set i x).map f).sum + f a = (l.map f).sum + f x := by
  induction l generalizing i with
  | nil => simp at h
  | cons b l ih =>
    cases i with
    | zero =>
      simp only [List.getElem?_cons_zero, Option.some.injEq] at h
      subst h
      simp only [List.set_cons_zero, List.map_cons, List.sum_cons]
      omega
    | succ j =>
      simp only [List.getElem?_cons_succ] at h
      have := ih j h
      simp only [List.set_cons_succ, List.map_cons, List.sum_cons]
      omega

theorem cw_wake_le (K : Nat) (c : Client) : cw K (wakeClient c) ≤ cw K c + 1 := by
  unfold wakeClient cw
  split
  · rename_i h
    cases hp : c.prog with
    | nil => simp [progW]
    | cons op rest => simp [progW, h, fw]; omega
  · omega

theorem sum_wake_le (K : Nat) (l : List Client) : ((l.map wakeClient).map (cw K)).sum ≤ (l.map (cw K)).sum + l.length := by
  induction l with
  | nil => simp
  | cons c l ih =>
    have := cw_wake_le K c
    simp only [List.map_cons, List.sum_cons, List.length_cons]
    omega

theorem gpot_le (K : Nat) (g g' : G) (p : Poller) (h1 : (g'.reg && g'.en) = true → (g.reg && g.en) = true)
    (h2 : g'.evfd = g.evfd) : gpot K g' p ≤ gpot K g p := by
  unfold gpot
  rw [h2]
  generalize (if 0 < g.evfd then (if p.pc ≠ .wait ∧ BEv.wake ∈ p.batch then 0 else CW K) else 0) = v
  by_cases hb : (g'.reg && g'.en) = true
  · rw [if_pos hb, if_pos (h1 hb)]; omega
  · rw [if_neg hb]
    split <;> omega

theorem gpot_arm (K : Nat) (g g' : G) (p : Poller) (h2 : g'.evfd = g.evfd) : gpot K g' p ≤ gpot K g p + CA := by
  unfold gpot
  rw [h2]
  generalize (if 0 < g.evfd then (if p.pc ≠ .wait ∧ BEv.wake ∈ p.batch then 0 else CW K) else 0) = v
  have : (if (g'.reg && g'.en) = true then CA else 0) ≤ CA := by split <;> omega
  omega

theorem gpot_write (K : Nat) (g g' : G) (p : Poller) (h1 : g'.reg = g.reg) (h3 : g'.en = g.en) (h2 : g'.evfd = g.evfd + 1) :
    gpot K g' p ≤ gpot K g p + CW K := by
  unfold gpot
  rw [h1, h3, h2]
  have : 0 < g.evfd + 1 := by omega
  simp only [this, if_true]
  split <;> split <;> split <;> omega

/-- what a step of the call machine adds to the poller's work -/
def credit (K : Nat) (f : Frame) (op : Op) : Nat :=
  match f, op with
  | .armCtl _ _ _, _ => CA
  | .stopWrite, _ => CW K
  | .idle, .kick => CW K
  | _, _ => 0

theorem call_weight (K : Nat) (g : G) (t : Tid) (f : Frame) (op : Op) (hb : f.blocked g = false) :
    (if (callStep g t f op).fin then 0 else fw K (callStep g t f op).frame op) + credit K f op < fw K f op := by
  cases f with
  | idle =>
    cases op with
    | arm m => simp [callStep, fw, W, credit, CA]
    | close => cases hc : g.closing <;> simp [callStep, touch, hc, fw, W, credit]
    | stop => cases hc : g.stopped <;> simp [callStep, touch, hc, fw, W, credit] <;> omega
    | fini => simp [callStep, fw, W, credit]
    | free => simp [callStep, fw, W, credit]
    | kick => simp [callStep, fw, W, credit]
  | armCtl e rq w => cases w <;> simp [callStep, fw, credit]
  | closeShut => by_cases ho : op = .stop <;> simp [callStep, fw, credit, ho]
  | closeDel => by_cases ho : op = .stop <;> simp [callStep, fw, credit, ho]
  | stopClose => cases hc : g.closing <;> simp [callStep, touch, hc, fw, credit] <;> (try split) <;> omega
  | stopLock =>
    simp only [Frame.blocked] at hb
    simp [callStep, hb, fw, credit]
  | stopWrite => cases hc : g.onReap <;> simp [callStep, touch, hc, fw, credit] <;> omega
  | stopSleep => simp [Frame.blocked] at hb
  | stopChk =>
    simp only [Frame.blocked] at hb
    cases hc : g.onReap <;> simp [callStep, touch, hb, hc, fw, credit]

theorem call_pot (K : Nat) (g : G) (t : Tid) (f : Frame) (op : Op) (p : Poller) :
    gpot K (callStep g t f op).g p ≤ gpot K g p + credit K f op := by
  cases f with
  | idle =>
    cases op with
    | arm m => exact Nat.le_trans (gpot_le K g _ p (by simp [callStep, touch]) (by simp [callStep, touch])) (Nat.le_add_right _ _)
    | close =>
      refine Nat.le_trans (gpot_le K g _ p ?_ ?_) (Nat.le_add_right _ _) <;> cases hc : g.closing <;> simp [callStep, touch, hc]
    | stop =>
      refine Nat.le_trans (gpot_le K g _ p ?_ ?_) (Nat.le_add_right _ _) <;> cases hc : g.stopped <;> simp [callStep, touch, hc]
    | fini => exact Nat.le_trans (gpot_le K g _ p (by simp [callStep, touch]) (by simp [callStep, touch])) (Nat.le_add_right _ _)
    | free => exact Nat.le_trans (gpot_le K g _ p (by simp [callStep, touch]) (by simp [callStep, touch])) (Nat.le_add_right _ _)
    | kick => exact gpot_write K g _ p (by simp [callStep]) (by simp [callStep]) (by simp [callStep])
  | armCtl e rq w => exact gpot_arm K g _ p (by cases w <;> simp [callStep, touch])
  | closeShut => exact Nat.le_trans (gpot_le K g _ p (by simp [callStep, touch]) (by simp [callStep, touch])) (Nat.le_add_right _ _)
  | closeDel =>
    refine Nat.le_trans (gpot_le K g _ p ?_ ?_) (Nat.le_add_right _ _) <;> by_cases ho : op = .stop <;> simp [callStep, touch, ho]
    all_goals simp_all
  | stopClose =>
    refine Nat.le_trans (gpot_le K g _ p ?_ ?_) (Nat.le_add_right _ _) <;> cases hc : g.closing <;> simp [callStep, touch, hc]
  | stopLock =>
    refine Nat.le_trans (gpot_le K g _ p ?_ ?_) (Nat.le_add_right _ _) <;> cases hc : g.mtx <;> simp [callStep, touch, hc]
  | stopWrite =>
    refine gpot_write K g _ p ?_ ?_ ?_ <;> cases hc : g.onReap <;> simp [callStep, touch, syncRet, hc]
  | stopSleep => exact Nat.le_trans (gpot_le K g _ p (by simp [callStep]) (by simp [callStep])) (Nat.le_add_right _ _)
  | stopChk =>
    refine Nat.le_trans (gpot_le K g _ p ?_ ?_) (Nat.le_add_right _ _) <;> cases hm : g.mtx <;> cases hc : g.onReap <;>
      simp [callStep, touch, syncRet, hc, hm]

/-- the heart: a step of the call machine that is not blocked strictly decreases the weight of the call
    plus the potential it feeds (`fin`: the call returned, its weight is gone) -/
theorem call_decreases (K : Nat) (g : G) (t : Tid) (f : Frame) (op : Op) (p : Poller) (hb : f.blocked g = false) :
    (if (callStep g t f op).fin then 0 else fw K (callStep g t f op).frame op) + gpot K (callStep g t f op).g p
      < fw K f op + gpot K g p := by
  have h1 := call_weight K g t f op hb
  have h2 := call_pot K g t f op p
  omega

end Nng.Pfd
