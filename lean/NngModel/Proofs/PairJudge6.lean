/-
  C08 judge simulation, part 6: pipe drop, transport send completion.
-/
import NngModel.Proofs.PairJudge5
namespace Nng.Pair0
open Nng Nng.Proto Nng.PairSpec

theorem closePipe_pair {s : State} {p : Nat} {pp : Pipe} (hg : getPipe s p = some pp) (hc : pp.closed = false) :
    closePipe s p = ((closePipe s p).1, [Out.pclosed p]) := by
  rw [closePipe_eq hg hc]

theorem ev_pipeDrop {V : Variant} {v1 : Bool} {sS sR : List Bytes} {s : State} {j : PairJ}
    (hA : All V s) (hR : R' V v1 sS sR s j) (p : Nat) (hA' : All V (stepLive V s (.pipeDrop p)).1) :
    R' V v1 sS sR (stepLive V s (.pipeDrop p)).1 (pairStepOld j (.pipeDrop p) (stepLive V s (.pipeDrop p)).2) := by
  simp only [stepLive] at hA' ⊢
  cases hg : getPipe s p with
  | none =>
    simp only [hg] at hA' ⊢
    exact step_plain hR hA' rfl (fun _ => rfl) rfl rfl (by simp [neutral])
  | some pp =>
    simp only [hg] at hA' ⊢
    by_cases hcl : pp.closed = true
    · simp only [hcl, if_true] at hA' ⊢
      exact step_plain hR hA' rfl (fun _ => rfl) rfl rfl (by simp [neutral])
    · have hcl' : pp.closed = false := by simpa using hcl
      simp only [hcl', Bool.false_eq_true, if_false] at hA' ⊢
      rw [closePipe_pair hg hcl'] at hA' ⊢
      simp only [List.cons_append, List.nil_append] at hA' ⊢
      exact step_lost hR rfl rfl rfl hR.1 hA.pinv hg hcl' hA'

theorem liveUpd_same {x j : PairJ} {p : Nat} {a0 : Bool}
    (h : x.live = j.live ∧ x.busy = j.busy ∧ x.armed = j.armed) (hl : j.live = some p) (hb : j.busy = false)
    (ha : j.armed = a0) : liveUpd x (some p) false a0 = x := by
  have := liveUpd_eta x
  rw [h.1, h.2.1, h.2.2, hl, hb, ha] at this
  exact this

theorem setBusy_false (j : PairJ) : (if j.busy = true then { j with busy := false } else j) = { j with busy := false } := by
  cases hb : j.busy
  · cases j; simp at hb; subst hb; rfl
  · rfl

/-- outputs on pipe `p` other than its loss -/
def onP (p : Nat) : Out → Bool
  | .psend q _ => q == p
  | .parm q => q == p
  | _ => false

theorem onP_of_sched {p : Nat} {ps : List Out} (h : ps = [] ∨ ∃ m, ps = [Out.psend p m]) :
    ∀ o ∈ ps, onP p o = true := by
  rcases h with rfl | ⟨m, rfl⟩ <;> simp [onP]

/-- the output list of a step that acts on the attached pipe and completes operations -/
theorem pairMid_sched {nb : Nb} {ev : Ev} {j : PairJ} {p : Nat} {ps dn : List Out}
    (hr : j.racing = false) (hev : isPipeAdd ev = false) (hl : j.live = some p)
    (hdn : ∀ o ∈ dn, isDone o = true ∧ tame o = true) (hps : ∀ o ∈ ps, onP p o = true) :
    pairMid false nb ev ([.rv 0] ++ (ps ++ dn)) j = ps.foldl (pairOut nb) (dn.foldl (pairOut nb) j) := by
  obtain ⟨f1, f2⟩ := filter_dn (fun o h => (hdn o h).1)
  have d1 : isDone (Out.rv 0) = false := rfl
  have g1 : ps.filter isDone = [] := by
    rw [List.filter_eq_nil_iff]; intro o ho; have := hps o ho; cases o <;> simp_all [onP, isDone]
  have g2 : ps.filter (fun o => !isDone o) = ps := by
    rw [List.filter_eq_self]; intro o ho; have := hps o ho; cases o <;> simp_all [onP, isDone]
  have g3 : ps.filter (onOld (some p)) = ps := by
    rw [List.filter_eq_self]; intro o ho; have := hps o ho; cases o <;> simp_all [onP, onOld]
  have g4 : ps.filter (oldGone (some p)) = [] := by
    rw [List.filter_eq_nil_iff]; intro o ho; have := hps o ho; cases o <;> simp_all [onP, oldGone]
  have g5 : ps.filter (fun o => !onOld (some p) o && !oldGone (some p) o) = [] := by
    rw [List.filter_eq_nil_iff]; intro o ho; have := hps o ho; cases o <;> simp_all [onP, onOld, oldGone]
  have hrest : ([Out.rv 0] ++ (ps ++ dn)).filter (fun o => !isDone o) = [Out.rv 0] ++ ps := by
    simp [List.filter_append, List.filter_cons, d1, g2, f2]
  rw [pairMid_shape (dn := dn) (ps := ps) (gn := []) hr hev hl]
  · rfl
  · simp [List.filter_append, List.filter_cons, d1, g1, f1]
  · rw [hrest]; simp [List.filter_append, List.filter_cons, onOld, g3]
  · rw [hrest]; simp [List.filter_append, List.filter_cons, oldGone, g4]
  · rw [hrest, List.filter_append, g5]; intro o ho
    simp [List.filter_cons, onOld, oldGone] at ho; subst ho; rfl

theorem sched_tame {p : Nat} {ps dn : List Out} (hdn : ∀ o ∈ dn, isDone o = true ∧ tame o = true)
    (hps : ∀ o ∈ ps, onP p o = true) : ∀ o ∈ [Out.rv 0] ++ (ps ++ dn), tame o = true := by
  intro o ho
  simp only [List.mem_append, List.mem_singleton] at ho
  rcases ho with rfl | ho | ho
  · rfl
  · have := hps o ho; cases o <;> simp_all [onP, tame]
  · exact (hdn o ho).2

theorem pairPre_sendDone_ok (j0 : PairJ) (p : Nat) (outs : List Out) (hok : outs.contains (.rv 0) = true)
    (hl : j0.live = some p) :
    pairPre false j0 (.sendDone p 0) outs = ({ j0 with busy := false }, .none) := by
  cases hb : j0.busy
  · have : ({ j0 with busy := false } : PairJ) = j0 := by cases j0; simp at hb; subst hb; rfl
    rw [this]; simp only [pairPre, hok, hl, hb, beq_self_eq_true, Bool.and_false, Bool.false_eq_true, if_false]
  · simp only [pairPre, hok, hl, hb, beq_self_eq_true, Bool.and_self, if_true]

theorem ev_sendDone {V : Variant} {v1 : Bool} {sS sR : List Bytes} {s : State} {j : PairJ}
    (hA : All V s) (hR : R' V v1 sS sR s j) (p rv : Nat) (hA' : All V (stepLive V s (.sendDone p rv)).1) :
    R' V v1 sS sR (stepLive V s (.sendDone p rv)).1
      (pairStepOld j (.sendDone p rv) (stepLive V s (.sendDone p rv)).2) := by
  simp only [stepLive] at hA' ⊢
  have hplain : ∀ j0 : PairJ, pairPre false j0 (.sendDone p rv) [.rv (-1)] = (j0, .none) := by
    intro j0; simp [pairPre]
  cases hg : getPipe s p with
  | none =>
    simp only [hg] at hA' ⊢
    exact step_plain hR hA' rfl hplain rfl rfl (by simp [neutral])
  | some pp =>
    simp only [hg] at hA' ⊢
    by_cases hcb : (pp.closed || pp.busy.isNone) = true
    · simp only [hcb, if_true] at hA' ⊢
      exact step_plain hR hA' rfl hplain rfl rfl (by simp [neutral])
    · simp only [hcb, Bool.false_eq_true, if_false] at hA' ⊢
      have hcl' : pp.closed = false := by
        cases h : pp.closed with
        | false => rfl
        | true => simp [h] at hcb
      obtain ⟨hm, hid⟩ := getPipe_some hg
      have hcur : s.cur = some p := hid ▸ hA.pinv.single pp hm hcl'
      by_cases hrv : (rv != 0) = true
      · simp only [hrv, if_true] at hA' ⊢
        rw [closePipe_pair hg hcl'] at hA' ⊢
        simp only [List.cons_append, List.nil_append] at hA' ⊢
        have hrv' : (rv == 0) = false := by simpa using hrv
        exact step_lost hR (by simp [pairPre, hrv']) rfl rfl hR.1 hA.pinv hg hcl' hA'
      · have hrv0 : rv = 0 := by simpa using hrv
        subst hrv0
        simp only [bne_self_eq_false, Bool.false_eq_true, if_false] at hA' ⊢
        have hR0 := hR.1
        have hlive : ({ j with lastPoll := none } : PairJ).live = some p := hR0.live.trans hcur
        have hRw : R V v1 sS sR { (modPipe s p fun q => { q with busy := none }) with wrReady := true }
            (liveUpd { ({ j with lastPoll := none } : PairJ) with busy := false } (some p) false j.armed) := by
          refine { hR0 with live := ?_, busy := ?_, armed := ?_ }
          · simp [liveUpd, modPipe, hcur]
          · simp [liveUpd, modPipe, hcur]
          · simp only [liveUpd, modPipe, any_armed_busy]; exact hR0.armed
        obtain ⟨ps, dn, h1, h2, h3, h4, h5⟩ := sendSched_R (V := V) .none j.armed
          (s := modPipe s p fun q => { q with busy := none }) (by simp [modPipe, hcur]) hRw
          (by simp only [modPipe]; exact hA.inv.wmqLe)
        have hpair : sendSched V (modPipe s p fun q => { q with busy := none }) p =
            ((sendSched V (modPipe s p fun q => { q with busy := none }) p).1, ps ++ dn) := by
          rw [← h1]
        rw [hpair] at hA' ⊢
        simp only [] at hA' ⊢
        have ht := tame_all (sched_tame h2 (onP_of_sched h3))
        have hpre : pairPre false { j with lastPoll := none } (.sendDone p 0) ([.rv 0] ++ (ps ++ dn)) =
            ({ ({ j with lastPoll := none } : PairJ) with busy := false }, .none) :=
          pairPre_sendDone_ok _ p _ (by simp) hlive
        rw [liveUpd_same h4 hlive rfl rfl] at h5
        exact step_general hR ht.1 hpre (pairMid_sched hR0.racing rfl hlive h2 (onP_of_sched h3))
          (pairPost_none rfl ht.2 h5.racing) hA' h5

end Nng.Pair0
