/- every op of the lifecycle model preserves the submission bookkeeping (C10) -/
import NngModel.Proofs.LifeAio
namespace Nng.LifeModel
open Nng.Life

/-- the pipe / endpoint machinery never touches the parked operations -/
def SameAio (st st' : State) : Prop :=
  st'.pend = st.pend ∧ st'.compl = st.compl ∧ st'.nsub = st.nsub ∧ st'.ctxs = st.ctxs

theorem SameAio.refl (st : State) : SameAio st st := ⟨rfl, rfl, rfl, rfl⟩
theorem SameAio.trans {a b c : State} (h1 : SameAio a b) (h2 : SameAio b c) : SameAio a c :=
  ⟨h2.1.trans h1.1, h2.2.1.trans h1.2.1, h2.2.2.1.trans h1.2.2.1, h2.2.2.2.trans h1.2.2.2⟩

theorem AioInv_same {st st' : State} (hs : SameAio st st') (h : AioInv st) : AioInv st' :=
  AioInv_congr hs.1 hs.2.1 hs.2.2.1 h

theorem AioInv_of {st st' : State} (h : AioInv st) (h1 : st'.pend = st.pend) (h2 : st'.compl = st.compl)
    (h3 : st'.nsub = st.nsub) : AioInv st' := AioInv_congr h1 h2 h3 h

theorem killPipe_same (st : State) (i : Nat) : SameAio st (killPipe st i).1 := by
  unfold killPipe
  split
  · exact SameAio.refl st
  · exact ⟨rfl, rfl, rfl, rfl⟩

theorem killPipes_same_aux (is : List Nat) (st : State) (outs : List LOut) :
    SameAio st (is.foldl (fun (acc : R) i => let r := killPipe acc.1 i; (r.1, acc.2 ++ r.2)) (st, outs)).1 := by
  induction is generalizing st outs with
  | nil => exact SameAio.refl st
  | cons i rest ih => exact (killPipe_same st i).trans (ih _ _)

theorem killPipes_same (st : State) (is : List Nat) : SameAio st (killPipes st is).1 := killPipes_same_aux is st []

theorem startPipe_same (st : State) (p : Pipe) (peer : Nat) : SameAio st (startPipe st p peer).1 := by
  unfold startPipe
  simp only
  split
  · exact SameAio.trans ⟨rfl, rfl, rfl, rfl⟩ (killPipe_same _ _)
  · split
    · exact SameAio.trans ⟨rfl, rfl, rfl, rfl⟩ (killPipe_same _ _)
    · split <;> exact ⟨rfl, rfl, rfl, rfl⟩

theorem closeEp_same (st : State) (e : Ep) : SameAio st (closeEp st e).1 := by
  unfold closeEp
  exact SameAio.trans ⟨rfl, rfl, rfl, rfl⟩ (killPipes_same _ _)

theorem closeEps_same_aux (es : List Ep) (st : State) (outs : List LOut) :
    SameAio st (es.foldl (fun (acc : R) e => let r := closeEp acc.1 e; (r.1, acc.2 ++ r.2)) (st, outs)).1 := by
  induction es generalizing st outs with
  | nil => exact SameAio.refl st
  | cons e rest ih => exact (closeEp_same st e).trans (ih _ _)

theorem closeEps_same (st : State) (es : List Ep) : SameAio st (closeEps st es).1 := closeEps_same_aux es st []

theorem connDialer_same (st : State) (e : Ep) (r : Except Nat Nat) : SameAio st (connDialer st e r).1 := by
  unfold connDialer
  cases r with
  | ok peer => exact SameAio.trans ⟨rfl, rfl, rfl, rfl⟩ (startPipe_same _ _ _)
  | error rv => simp only; (repeat' split) <;> exact ⟨rfl, rfl, rfl, rfl⟩

theorem connListener_same (st : State) (e : Ep) (r : Except Nat Nat) : SameAio st (connListener st e r).1 := by
  unfold connListener
  cases r with
  | ok peer =>
    dsimp only
    exact SameAio.trans (SameAio.trans (b := setEp st e.idx fun x => { x with armed := false }) ⟨rfl, rfl, rfl, rfl⟩
      (startPipe_same _ _ _)) ⟨rfl, rfl, rfl, rfl⟩
  | error rv => simp only; (repeat' split) <;> exact ⟨rfl, rfl, rfl, rfl⟩

macro "aio_same" h:ident : tactic =>
  `(tactic| ((repeat' split) <;> first | exact $h | exact AioInv_of $h rfl rfl rfl))

theorem opClose_aio (st : State) (s : Nat) (h : AioInv st) : AioInv (opClose st s).1 := by
  unfold opClose
  simp only
  split
  · exact h
  · apply completeWhere_inv
    have h1 := AioInv_same (closeEps_same st (st.eps.filter fun e => e.sock == s && !e.closed)) h
    have h2 := AioInv_same (killPipes_same _ (liveOf (closeEps st (st.eps.filter fun e => e.sock == s && !e.closed)).1 fun p => p.sock == s)) h1
    exact AioInv_of h2 rfl rfl rfl

theorem apply_aio (st : State) (op : LOp) (h : AioInv st) : AioInv (apply st op).1 := by
  cases op with
  | openSock s p => show AioInv (opOpen st s p).1; unfold opOpen; aio_same h
  | notify s m c => show AioInv (opNotify st s m c).1; unfold opNotify; simp only; aio_same h
  | setoptSock s n v => show AioInv (opSetoptSock st s n v).1; unfold opSetoptSock; simp only; aio_same h
  | setoptEp e n v => show AioInv (opSetoptEp st e n v).1; unfold opSetoptEp; aio_same h
  | dial s nb => show AioInv (opDial st s nb).1; unfold opDial; simp only; aio_same h
  | listen s => show AioInv (opListen st s).1; unfold opListen; simp only; aio_same h
  | connDone e r =>
    show AioInv (opConnDone st e r).1
    unfold opConnDone
    split
    · exact h
    · split
      · exact h
      · split
        · exact AioInv_same (connDialer_same _ _ _) h
        · exact AioInv_same (connListener_same _ _ _) h
  | pipeClose p =>
    show AioInv (opPipeClose st p).1
    unfold opPipeClose
    split
    · exact h
    · split
      · exact h
      · exact AioInv_same (killPipe_same _ _) h
  | pipeDrop p =>
    show AioInv (opPipeDrop st p).1
    unfold opPipeDrop
    split
    · exact h
    · split
      · exact h
      · exact AioInv_same (killPipe_same _ _) h
  | dialerClose e =>
    show AioInv (opCloseEp st e true).1
    unfold opCloseEp
    split
    · exact h
    · split
      · exact h
      · split
        · exact h
        · exact AioInv_same (closeEp_same _ _) h
  | listenerClose e =>
    show AioInv (opCloseEp st e false).1
    unfold opCloseEp
    split
    · exact h
    · split
      · exact h
      · split
        · exact h
        · exact AioInv_same (closeEp_same _ _) h
  | ctxOpen s c => show AioInv (opCtxOpen st s c).1; unfold opCtxOpen; simp only; aio_same h
  | ctxClose c =>
    show AioInv (opCtxClose st c).1
    unfold opCtxClose
    split
    · exact h
    · split
      · exact h
      · exact completeWhere_inv _ _ _ (AioInv_of h rfl rfl rfl)
  | send t a =>
    show AioInv (opSend st t a).1
    unfold opSend
    simp only
    (repeat' split) <;> first | exact h | exact finishNow_inv _ _ _ h | exact AioInv_of h rfl rfl rfl
  | recv t a =>
    show AioInv (opRecv st t a).1
    unfold opRecv
    simp only
    (repeat' split) <;> first | exact h | exact finishNow_inv _ _ _ h | exact park_inv _ _ _ h | exact AioInv_of h rfl rfl rfl
  | advance ms => exact AioInv_of h rfl rfl rfl
  | close s => exact opClose_aio _ _ h
  | close2 s => exact AioInv_of h rfl rfl rfl
  | race o l a b => exact AioInv_of h rfl rfl rfl
  | probe => exact h

theorem step_aio (st : State) (op : LOp) (orc : List Nat) (h : AioInv st) : AioInv (step st op orc).1 := by
  unfold step
  split
  · exact h
  · exact AioInv_of (apply_aio st op h) rfl rfl rfl

theorem init_aio : AioInv ({} : State) := by
  constructor <;> simp

theorem run_aio (tr : List (LOp × List Nat)) (st : State) (h : AioInv st) : AioInv (run st tr) := by
  induction tr generalizing st with
  | nil => exact h
  | cons x rest ih => exact ih _ (step_aio st x.1 x.2 h)

/-- what `close` leaves behind: nothing parked on the socket or on a context of it -/
theorem opClose_drains (st : State) (s : Nat) (ho : (st.socks s).opened = true) (hc : (st.socks s).closed = false) :
    ∀ a ∈ (opClose st s).1.pend, tgtSock (opClose st s).1 a.tgt ≠ some s := by
  intro a ha
  unfold opClose at ha ⊢
  simp only [ho, hc, Bool.not_true, Bool.or_false, Bool.false_eq_true, if_false] at ha ⊢
  unfold completeWhere at ha ⊢
  simp only at ha ⊢
  have := (List.mem_filter.mp ha).2
  simpa [tgtSock] using this

end Nng.LifeModel
