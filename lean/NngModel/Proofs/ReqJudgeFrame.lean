/-
  Frame facts for the relation of Proofs/ReqJudgeRel.lean: what a context's part of the relation reads
  from the rest of the state; small consequences of the relation used everywhere.
-/
import NngModel.Proofs.ReqJudgeRel
import NngModel.Proofs.BytesLemmas
namespace Nng.ReqJ
open Nng Nng.Proto Nng.Req Nng.ReqSpec

theorem RQ.frame {s s' : State} {j j' : J} {k h : Nat} {r : RJ}
    (hctx : s'.ctx k = s.ctx k)
    (hbody : (s'.msgs h).body = (s.msgs h).body)
    (halias : ∀ n, s.alias.idxOf? h = some n → s'.alias.idxOf? h = some n)
    (hnp : s.npipes ≤ s'.npipes)
    (hpipe : ∀ q, k ∈ (s'.pipe q).ctxs ↔ k ∈ (s.pipe q).ctxs)
    (hclosed : ∀ q, q < s.npipes → (s.pipe q).closed = true → (s'.pipe q).closed = true)
    (hsq : k ∈ s'.sendQueue ↔ k ∈ s.sendQueue)
    (hnow : s.now ≤ s'.now)
    (htick : s'.tickAt = s.tickAt ∨
      ((s.ctx k).reqMsg.isSome = true → (s.ctx k).retryAtSend = (s.ctx k).retry → 0 < (s.ctx k).retry → False))
    (hjs : j'.tickStable = j.tickStable) (hjt : j'.tick = j.tick) (hm : (s.ctx k).reqMsg = some h)
    (h0 : RQ s j k h r) : RQ s' j' k h r := by
  constructor
  · exact h0.ans
  · rw [hbody]; exact h0.body
  · rw [hctx]; exact h0.wired
  · rw [hctx]; exact h0.unsent
  · rw [hctx]; intro hw; obtain ⟨n, a, b⟩ := h0.id hw; exact ⟨n, halias n a, b⟩
  · rw [hctx]; intro hw
    obtain ⟨a, b⟩ := h0.lp hw
    refine ⟨Nat.lt_of_lt_of_le a hnp, ?_⟩
    rcases b with b | ⟨b, c⟩
    · exact Or.inl ((hpipe _).2 b)
    · exact Or.inr ⟨hclosed _ a b, fun q hq => c q ((hpipe q).1 hq)⟩
  · rw [hctx]; exact h0.cnt
  · rw [hctx]; exact h0.ever
  · rw [hctx]; exact h0.dl
  · rw [hctx]; exact h0.clean
  · intro hn; exact hsq.2 (h0.need hn)
  · rw [hctx]; intro a b c d e; exact Nat.le_trans (h0.early (hsq.1 a) b c d e) hnow
  · rw [hctx, hjs, hjt]; intro a b c d e dd f
    rcases htick with htick | htick
    · rw [htick]
      rcases h0.over a b c d e dd f with g | g | g
      · exact Or.inl g
      · exact Or.inr (Or.inl (hsq.2 g))
      · exact Or.inr (Or.inr g)
    · exact (htick (by rw [hm]; rfl) (h0.clean d) e).elim

theorem RCx.frame {s s' : State} {j j' : J} {k : Nat} {cj : CJ}
    (hctx : s'.ctx k = s.ctx k)
    (hbody : ∀ h, (s.ctx k).reqMsg = some h → (s'.msgs h).body = (s.msgs h).body)
    (halias : ∀ h n, (s.ctx k).reqMsg = some h → s.alias.idxOf? h = some n → s'.alias.idxOf? h = some n)
    (hnp : s.npipes ≤ s'.npipes)
    (hpipe : ∀ q, k ∈ (s'.pipe q).ctxs ↔ k ∈ (s.pipe q).ctxs)
    (hclosed : ∀ q, q < s.npipes → (s.pipe q).closed = true → (s'.pipe q).closed = true)
    (hsq : k ∈ s'.sendQueue ↔ k ∈ s.sendQueue)
    (hnow : s.now ≤ s'.now)
    (htick : s'.tickAt = s.tickAt ∨
      ((s.ctx k).reqMsg.isSome = true → (s.ctx k).retryAtSend = (s.ctx k).retry → 0 < (s.ctx k).retry → False))
    (hjs : j'.tickStable = j.tickStable) (hjt : j'.tick = j.tick)
    (h0 : RCx s j k cj) : RCx s' j' k cj := by
  constructor
  · rw [hctx]; exact h0.opened
  · rw [hctx]; exact h0.retry
  · rw [hctx]; exact h0.rw
  · rw [hctx]; exact h0.stash
  · rw [hctx]; exact h0.latched
  · rw [hctx]; exact h0.none
  · rw [hctx]; exact h0.ansd
  · rw [hctx]; intro h hm
    obtain ⟨r, a, b⟩ := h0.req h hm
    exact ⟨r, a, b.frame hctx (hbody h hm) (halias h · hm) hnp hpipe hclosed hsq hnow htick hjs hjt hm⟩

/-- an unanswered request on the judge's books is a request the model's context holds -/
theorem RCx.held {s : State} {j : J} {k : Nat} {cj : CJ} (h0 : RCx s j k cj) {r : RJ} (hr : cj.req = some r)
    (ha : r.answered = false) : ∃ h, (s.ctx k).reqMsg = some h ∧ RQ s j k h r := by
  cases hm : (s.ctx k).reqMsg with
  | some h =>
    obtain ⟨r', a, b⟩ := h0.req h hm
    rw [hr] at a; cases a
    exact ⟨h, rfl, b⟩
  | none =>
    cases hp : (s.ctx k).repMsg with
    | none => rw [h0.none hm hp] at hr; cases hr
    | some b =>
      obtain ⟨r', a, c, _⟩ := h0.ansd (by rw [hp]; rfl)
      rw [hr] at a; cases a
      rw [ha] at c; cases c

theorem lostC_req {now : Nat} {cj0 : CJ} {r : RJ} (h : (lostC now cj0).req = some r) :
    ∃ r0, cj0.req = some r0 ∧ r.body = r0.body ∧ r.answered = r0.answered := by
  unfold lostC at h
  cases hr : cj0.req with
  | none => simp [hr] at h
  | some r0 =>
    simp only [hr] at h
    split at h
    · split at h <;> simp at h
    · simp only [Option.some.injEq] at h
      subst h
      exact ⟨r0, rfl, rfl, rfl⟩

/-- same, also for the contexts of a pipe that is being closed -/
theorem M.held {pend : List Nat} {rest : List Ev} {s : State} {j : J} (hM : M pend rest s j) {k : Nat} {r : RJ}
    (hr : (j.ctx k).req = some r) (ha : r.answered = false) :
    ∃ h, (s.ctx k).reqMsg = some h ∧ r.body = (s.msgs h).body := by
  by_cases hk : k ∈ pend
  · obtain ⟨cj0, a, b, _⟩ := hM.rl k hk
    rw [b] at hr
    obtain ⟨r0, c, d, e⟩ := lostC_req hr
    obtain ⟨h, f, g⟩ := a.held c (by rw [← e]; exact ha)
    exact ⟨h, f, by rw [d]; exact g.body⟩
  · obtain ⟨h, f, g⟩ := (hM.rc k hk).held hr ha
    exact ⟨h, f, g.body⟩

theorem MI.key {rest : List Ev} {s : State} (hm : MI rest s) {k : Nat} (h : (s.ctx k).reqMsg.isSome = true) : k ∈ keys := by
  rw [keys_mem]
  apply Nat.lt_of_not_le
  intro hk
  have := (hm.dead k (hm.biglive k (by unfold nCtxSlots; omega))).2.2.1
  rw [this] at h; cases h

/-! ### wire names -/

theorem wireHdr_inj {a b : Nat} (ha : a ≤ relBase) (hb : b ≤ relBase) (h : wireHdr a = wireHdr b) : a = b := by
  have := congrArg beDecode h
  unfold wireHdr at this
  rw [Nng.Msg.beDecode_beEncode, Nng.Msg.beDecode_beEncode] at this
  unfold idMin relBase at *
  simp only [Nng.Generated.reqIdMin] at *
  omega

/-- four bytes decode / encode round trip -/
theorem beEncode_beDecode4 (l : Bytes) (h : l.length = 4) : beEncode 4 (beDecode l) = l := by
  match l, h with
  | [a, b, c, d], _ =>
    have ha := a.toNat_lt; have hb := b.toNat_lt; have hc := c.toNat_lt; have hd := d.toNat_lt
    simp only [beDecode, List.foldl, beEncode]
    have e1 : (((0 * 256 + a.toNat) * 256 + b.toNat) * 256 + c.toNat) * 256 + d.toNat
        = a.toNat * 16777216 + b.toNat * 65536 + c.toNat * 256 + d.toNat := by omega
    rw [e1]
    have f1 : (a.toNat * 16777216 + b.toNat * 65536 + c.toNat * 256 + d.toNat) / 256 ^ 3 % 256 = a.toNat := by omega
    have f2 : (a.toNat * 16777216 + b.toNat * 65536 + c.toNat * 256 + d.toNat) / 256 ^ 2 % 256 = b.toNat := by omega
    have f3 : (a.toNat * 16777216 + b.toNat * 65536 + c.toNat * 256 + d.toNat) / 256 ^ 1 % 256 = c.toNat := by omega
    have f4 : (a.toNat * 16777216 + b.toNat * 65536 + c.toNat * 256 + d.toNat) / 256 ^ 0 % 256 = d.toNat := by omega
    rw [f1, f2, f3, f4]
    simp

theorem nodup_bounded_length (n : Nat) (l : List Nat) (hn : l.Nodup) (hb : ∀ x, x ∈ l → x ≠ 0 ∧ x ≤ n) : l.length ≤ n := by
  induction n generalizing l with
  | zero =>
    cases l with
    | nil => simp
    | cons x t => have := hb x (by simp); omega
  | succ n ih =>
    have h1 := ih (l.erase (n + 1)) (hn.erase _) (fun x hx => by
      have := (hn.mem_erase_iff).1 hx
      have := hb x this.2
      omega)
    have := List.length_erase (a := n + 1) (l := l)
    split at this <;> omega

theorem MI.alias_len {rest : List Ev} {s : State} (hm : MI rest s) : s.alias.length ≤ relBase :=
  Nat.le_trans (nodup_bounded_length s.nalloc s.alias hm.al_nodup hm.al_le) (by have := hm.bound; omega)

theorem idxOf_getElem {l : List Nat} (hn : l.Nodup) {n h : Nat} (hg : l[n]? = some h) : l.idxOf? h = some n := by
  induction l generalizing n with
  | nil => simp at hg
  | cons x t ih =>
    cases n with
    | zero =>
      simp only [List.getElem?_cons_zero, Option.some.injEq] at hg
      subst hg
      simp [List.idxOf?, List.findIdx?_cons]
    | succ n =>
      simp only [List.getElem?_cons_succ] at hg
      have hx : x ≠ h := by
        intro e; subst e
        exact (List.nodup_cons.1 hn).1 (List.mem_of_getElem? hg)
      have := ih (List.nodup_cons.1 hn).2 hg
      simp only [List.idxOf?] at this ⊢
      rw [List.findIdx?_cons]
      simp [hx, this]

theorem getElem_idxOf {l : List Nat} {n h : Nat} (hi : l.idxOf? h = some n) : l[n]? = some h := by
  induction l generalizing n with
  | nil => simp [List.idxOf?] at hi
  | cons x t ih =>
    simp only [List.idxOf?, List.findIdx?_cons] at hi
    by_cases hx : x = h
    · subst hx
      simp at hi
      subst hi
      simp
    · simp only [beq_iff_eq, hx, if_false, Option.map_eq_some_iff] at hi
      obtain ⟨m, hm, e⟩ := hi
      subst e
      simp only [List.getElem?_cons_succ]
      exact ih hm

theorem idxOf_none {l : List Nat} {h : Nat} (hi : l.idxOf? h = none) : h ∉ l := by
  intro hm
  simp only [List.idxOf?, List.findIdx?_eq_none_iff] at hi
  have := hi h hm
  simp at this

end Nng.ReqJ
