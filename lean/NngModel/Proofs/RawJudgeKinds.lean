/-
  Raw judges vs raw models: the two kinds satisfy what the generic simulation asks (`JK`):
  raw SURVEYOR (`resp = false`, fan-out) and raw RESPONDENT (`resp = true`, routing by the first
  header word); header processing from `C13.D5_classification`.
-/
import NngModel.Proofs.RawJudgeStep
import NngModel.Props.C13
namespace Nng.RawSurv
open Nng Nng.Proto Nng.RawMq Nng.RawSurveySpec

/-! ### a pass that offers nothing, or to one pipe only -/

theorem specRoute_none (sel : Sel) (m : WMsg) : ∀ (ps : List Pipe) (i0 : Nat), (∀ i, i0 ≤ i → sel i m = none) →
    specRoute sel m i0 ps = (ps, []) := by
  intro ps
  induction ps with
  | nil => intro i0 _; rfl
  | cons pp rest ih =>
    intro i0 h
    simp only [specRoute, offerSel, h i0 (Nat.le_refl _)]
    rw [ih (i0 + 1) (fun i hi => h i (by omega))]
    rfl

theorem specRoute_one (sel : Sel) (m : WMsg) (t : Nat) (hs : ∀ i, i ≠ t → sel i m = none) : ∀ (ps : List Pipe) (i0 : Nat),
    i0 ≤ t →
    specRoute sel m i0 ps =
      match ps[t - i0]? with
      | some pp => (ps.set (t - i0) (offerSel sel m t pp).1, (offerSel sel m t pp).2)
      | none => (ps, []) := by
  intro ps
  induction ps with
  | nil => intro i0 _; rfl
  | cons pp rest ih =>
    intro i0 h
    by_cases e : i0 = t
    · subst e
      simp only [specRoute, Nat.sub_self, List.getElem?_cons_zero, List.set_cons_zero]
      rw [specRoute_none sel m rest (i0 + 1) (fun i hi => hs i (by omega))]
      simp
    · have hlt : i0 < t := by omega
      simp only [specRoute]
      have e0 : offerSel sel m i0 pp = (pp, []) := by
        unfold offerSel; rw [hs i0 e]
      rw [e0, ih (i0 + 1) (by omega)]
      rw [show t - i0 = (t - (i0 + 1)) + 1 by omega]
      simp only [List.getElem?_cons_succ, List.set_cons_succ, List.nil_append]
      cases rest[t - (i0 + 1)]? <;> rfl

end Nng.RawSurv

/-! ### raw SURVEYOR -/

namespace Nng.Xsurvey
open Nng Nng.Proto Nng.RawMq Nng.RawSurv Nng.RawSurveySpec

theorem fanout_spec (m : WMsg) : ∀ (ps : List Pipe) (i0 : Nat), fanout m i0 ps = specRoute sel m i0 ps := by
  intro ps
  induction ps with
  | nil => intro i0; rfl
  | cons pp rest ih =>
    intro i0
    simp only [fanout, specRoute, offerSel, sel]
    rw [ih (i0 + 1)]

theorem acceptSpec : AcceptSpec false sel := by
  intro j o hn
  rw [accept_surveyor]
  obtain ⟨acc1, e1, e2⟩ := fan_fold o j.live j hn
  refine ⟨acc1, e1, ?_⟩
  intro q
  rw [e2 q]
  simp only [sel]

theorem recvSpec : RecvSpec false kind := by
  intro ttl p b ht
  show Bt.xsurveyRecv b = _
  rw [(Nng.C13.D5_classification ttl p b ht).2.2.2.2.2]
  unfold verdictOf verdictOut
  simp only [Bool.false_eq_true, if_false]
  show Bt.ofVerdict [] (BtSpec.classifyNoTtl capWords b) = _
  cases BtSpec.classifyNoTtl capWords b <;> rfl

theorem jk : JK false kind sel :=
  ⟨kindOK, fun ps m => fanout_spec m ps 0, acceptSpec, fun _ _ _ h => by cases h; rfl, rfl, recvSpec, rfl⟩

end Nng.Xsurvey

/-! ### raw RESPONDENT -/

namespace Nng.Xrespond
open Nng Nng.Proto Nng.RawMq Nng.RawSurv Nng.RawSurveySpec

theorem sel_short {m : WMsg} (h : m.hdr.length < 4) (i : Nat) : sel i m = none := by
  simp [sel, Bt.xrespondSend, h]

theorem sel_long {m : WMsg} (h : ¬ m.hdr.length < 4) (i : Nat) :
    sel i m = if beDecode (m.hdr.take 4) = i + 1 then some ⟨m.hdr.drop 4, m.body⟩ else none := by
  unfold sel Bt.xrespondSend pipeId
  rw [if_neg h]

theorem routeSpec : RouteSpec kind sel := by
  intro ps m
  show route ps m = _
  unfold route
  by_cases hl : m.hdr.length < 4
  · have : Bt.xrespondSend m.hdr m.body = none := by simp [Bt.xrespondSend, hl]
    rw [this, specRoute_none sel m ps 0 (fun i _ => sel_short hl i)]
  · have : Bt.xrespondSend m.hdr m.body = some (beDecode (m.hdr.take 4), Bt.wire (m.hdr.drop 4) m.body) := by
      simp [Bt.xrespondSend, hl]
    rw [this]
    simp only []
    generalize hid : beDecode (m.hdr.take 4) = id
    by_cases h0 : (id == 0) = true
    · rw [if_pos h0]
      have h0 : id = 0 := by simpa using h0
      rw [specRoute_none sel m ps 0]
      intro i _
      rw [sel_long hl, hid, h0]; simp
    · rw [if_neg h0]
      have h0 : id ≠ 0 := by simpa using h0
      have hsel : ∀ i, i ≠ id - 1 → sel i m = none := by
        intro i hi
        rw [sel_long hl, hid, if_neg (by omega)]
      have hself : sel (id - 1) m = some ⟨m.hdr.drop 4, m.body⟩ := by
        rw [sel_long hl, hid, if_pos (by omega)]
      rw [specRoute_one sel m (id - 1) hsel ps 0 (Nat.zero_le _)]
      simp only [Nat.sub_zero]
      cases hg : ps[id - 1]? with
      | none => rfl
      | some pp =>
        simp only [offerSel, hself]
        by_cases hc : pp.closed = true
        · rw [if_pos hc, offer_closed _ _ _ hc]
          simp only []
          congr 1
          apply List.ext_getElem?
          intro i
          rw [List.getElem?_set]
          by_cases e : id - 1 = i
          · subst e
            obtain ⟨_, h⟩ := List.getElem?_eq_some_iff.1 hg
            simp [lt_of_get hg, h]
          · simp [e]
        · rw [if_neg hc]

theorem acceptSpec : AcceptSpec true sel := by
  intro j o _
  unfold accept
  rw [if_pos rfl]
  by_cases hl : o.hdr.length < 4
  · rw [if_pos hl]
    refine ⟨j.acc, rfl, ?_⟩
    intro q
    rw [sel_short (m := ⟨o.hdr, o.body⟩) hl q]
    simp
  · rw [if_neg hl]
    simp only []
    generalize hid : beDecode (o.hdr.take 4) = id
    have hsel : ∀ q, sel q ⟨o.hdr, o.body⟩ = if id = q + 1 then some ⟨o.hdr.drop 4, o.body⟩ else none := by
      intro q
      rw [sel_long (m := ⟨o.hdr, o.body⟩) hl q, hid]
    by_cases h0 : (id == 0 || !(j.live.contains (id - 1))) = true
    · rw [if_pos h0]
      refine ⟨j.acc, rfl, ?_⟩
      intro q
      rw [hsel q]
      simp only [Bool.or_eq_true, beq_iff_eq, Bool.not_eq_true', List.contains_eq_mem, decide_eq_false_iff_not] at h0
      by_cases e : id = q + 1
      · have : q ∉ j.live := by
          rcases h0 with h0 | h0
          · omega
          · rw [show q = id - 1 by omega]; exact h0
        rw [if_neg (fun h => this h.1)]; simp
      · rw [if_neg e]; simp
    · rw [if_neg h0]
      simp only [Bool.or_eq_true, beq_iff_eq, Bool.not_eq_true', List.contains_eq_mem, decide_eq_false_iff_not, not_or,
        Decidable.not_not] at h0
      by_cases ht : takes true j (id - 1) = true
      · rw [if_pos ht]
        refine ⟨_, rfl, ?_⟩
        intro q
        rw [hsel q]
        show (j.acc ++ [(⟨id - 1, o.hdr.drop 4, o.body, false⟩ : Held)]).filter (·.pipe == q) = _
        by_cases e : id = q + 1
        · have eq : q = id - 1 := by omega
          subst eq
          rw [if_pos ⟨h0.2, ht⟩, if_pos e]
          simp [List.filter_append]
        · have : ¬ id - 1 = q := by omega
          rw [if_neg e]
          simp [List.filter_append, this]
      · rw [if_neg ht]
        refine ⟨j.acc, rfl, ?_⟩
        intro q
        rw [hsel q]
        by_cases e : id = q + 1
        · have eq : q = id - 1 := by omega
          subst eq
          rw [if_neg (fun h => ht h.2)]; simp
        · rw [if_neg e]; simp

theorem recvSpec : RecvSpec true kind := by
  intro ttl p b ht
  show Bt.xrespondRecv ttl (pipeId p) b = _
  rw [(Nng.C13.D5_classification ttl (pipeId p) b ht).2.2.1]
  unfold verdictOf verdictOut
  simp only [if_true]
  cases BtSpec.classify ttl b <;> rfl

theorem selBody : SelBody sel := by
  intro i m m1 h
  unfold sel at h
  split at h
  · split at h
    · cases h; rfl
    · cases h
  · cases h

theorem jk : JK true kind sel := ⟨kindOK, routeSpec, acceptSpec, selBody, rfl, recvSpec, rfl⟩

end Nng.Xrespond
