/- C05 (raw SUB): invariants of the XSUB model over all event sequences -/
import NngModel.Model.Xsub
namespace Nng.Xsub
open Nng Nng.Proto

structure Inv (s : State) : Prop where
  wait : s.getq ≠ [] → s.q = []
  len : s.q.length ≤ s.cap + 1
  hist : (s.got ++ s.q).Sublist s.arrived
  gids : s.arrived.Pairwise (fun a b => a.gid < b.gid)
  bound : ∀ m ∈ s.arrived, m.gid < s.narrive
  acct : (s.got ++ s.q ++ s.dropped).Perm s.arrived

theorem inv_init : Inv ({} : State) :=
  ⟨fun _ => rfl, Nat.zero_le _, List.Sublist.refl _, List.Pairwise.nil, (by intro m hm; cases hm), List.Perm.refl _⟩

/-- states that differ only in fields the invariant does not mention -/
theorem Inv.of_eq {s s' : State} (h : Inv s) (h1 : s'.getq = s.getq) (h2 : s'.q = s.q) (h3 : s'.cap = s.cap)
    (h4 : s'.got = s.got) (h5 : s'.arrived = s.arrived) (h6 : s'.narrive = s.narrive) (h7 : s'.dropped = s.dropped) :
    Inv s' := by
  refine ⟨?_, ?_, ?_, ?_, ?_, ?_⟩
  · rw [h1, h2]; exact h.wait
  · rw [h2, h3]; exact h.len
  · rw [h4, h2, h5]; exact h.hist
  · rw [h5]; exact h.gids
  · rw [h5, h6]; exact h.bound
  · rw [h4, h2, h7, h5]; exact h.acct

/-! ### the receive path -/

/-- a message is queued and nobody waits: the receive takes the oldest message — in EVERY mode -/
theorem aioGet_deliver (s : State) (a : Nat) (mode : Mode) (m : GMsg) (ms : List GMsg)
    (hg : s.getq = []) (hq : s.q = m :: ms) :
    aioGet s a mode = ({ s with q := ms, got := s.got ++ [m] }, [deliver a m]) := by
  have hmw : mustWait s = false := by simp [mustWait, hg, hq]
  unfold aioGet
  simp [hmw, hg, runGetq, hq]

/-- nothing is queued: a non-blocking / zero-timeout receive fails at once, any other parks -/
theorem aioGet_wait (s : State) (a : Nat) (mode : Mode) (hq : s.q = []) :
    aioGet s a mode =
      match mode with
      | .nb => (s, [Out.done a Err.eagain none false])
      | .ms 0 => (s, [Out.done a Err.etimedout none false])
      | .ms n => ({ s with getq := s.getq ++ [⟨a, some (s.now + n)⟩] }, [])
      | _ => ({ s with getq := s.getq ++ [⟨a, none⟩] }, []) := by
  have hmw : mustWait s = true := by simp [mustWait, hq]
  have hrun : ∀ (pk : Parked), runGetq (s.getq ++ [pk]).length { s with getq := s.getq ++ [pk] } =
      ({ s with getq := s.getq ++ [pk] }, []) := by
    intro pk
    cases hgq : s.getq ++ [pk] with
    | nil => simp at hgq
    | cons r rs => simp [runGetq, hq]
  unfold aioGet
  simp only [hmw, if_true]
  cases mode with
  | nb => rfl
  | ms n =>
    cases n with
    | zero => rfl
    | succ n => exact hrun _
  | inf => exact hrun _
  | dflt => exact hrun _

theorem aioGet_inv {s : State} (a : Nat) (mode : Mode) (h : Inv s) : Inv (aioGet s a mode).1 := by
  cases hq : s.q with
  | nil =>
    rw [aioGet_wait s a mode hq]
    cases mode with
    | nb => exact h
    | ms n =>
      cases n with
      | zero => exact h
      | succ n => exact ⟨fun _ => hq, h.len, h.hist, h.gids, h.bound, h.acct⟩
    | inf => exact ⟨fun _ => hq, h.len, h.hist, h.gids, h.bound, h.acct⟩
    | dflt => exact ⟨fun _ => hq, h.len, h.hist, h.gids, h.bound, h.acct⟩
  | cons m ms =>
    have hg : s.getq = [] := by
      cases hgq : s.getq with
      | nil => rfl
      | cons r rs => have := h.wait (by simp [hgq]); rw [hq] at this; cases this
    rw [aioGet_deliver s a mode m ms hg hq]
    refine ⟨fun hne => absurd hg hne, ?_, ?_, h.gids, h.bound, ?_⟩
    · have := h.len; rw [hq] at this; simp at this ⊢; omega
    · have := h.hist; rw [hq] at this
      simpa [List.append_assoc] using this
    · have := h.acct; rw [hq] at this
      simpa [List.append_assoc] using this

/-! ### the arrival path -/

theorem tryput_inv {s : State} (b : Bytes) (p : Nat) (h : Inv s) :
    Inv (tryput { s with narrive := s.narrive + 1, arrived := s.arrived ++ [⟨s.narrive, p, b⟩] } ⟨s.narrive, p, b⟩).1 := by
  have hg' : (s.arrived ++ [(⟨s.narrive, p, b⟩ : GMsg)]).Pairwise (fun a b => a.gid < b.gid) := by
    rw [List.pairwise_append]
    refine ⟨h.gids, List.pairwise_singleton _ _, ?_⟩
    intro a ha x hx
    simp only [List.mem_singleton] at hx; subst hx
    exact h.bound a ha
  have hb' : ∀ m ∈ s.arrived ++ [(⟨s.narrive, p, b⟩ : GMsg)], m.gid < s.narrive + 1 := by
    intro m hm
    simp only [List.mem_append, List.mem_singleton] at hm
    rcases hm with hm | rfl
    · exact Nat.lt_succ_of_lt (h.bound m hm)
    · exact Nat.lt_succ_self _
  unfold tryput
  cases hgq : s.getq with
  | cons r rs =>
    have hq : s.q = [] := h.wait (by simp [hgq])
    simp only [hgq]
    refine ⟨fun _ => hq, h.len, ?_, hg', hb', ?_⟩
    · have := h.hist; rw [hq] at this ⊢
      simp only [List.append_nil] at this ⊢
      exact List.Sublist.append this (List.Sublist.refl _)
    · have := h.acct; rw [hq] at this ⊢
      simp only [List.append_nil] at this ⊢
      -- (got ++ [m]) ++ dropped ~ (got ++ dropped) ++ [m]
      have h1 : (s.got ++ [(⟨s.narrive, p, b⟩ : GMsg)] ++ s.dropped).Perm (s.got ++ s.dropped ++ [⟨s.narrive, p, b⟩]) := by
        rw [List.append_assoc, List.append_assoc]
        exact List.Perm.append_left _ List.perm_append_comm
      exact h1.trans (List.Perm.append_right _ this)
  | nil =>
    simp only [hgq]
    by_cases hroom : s.q.length < s.cap
    · rw [if_pos hroom]
      refine ⟨fun hne => absurd rfl hne, ?_, ?_, hg', hb', ?_⟩
      · simp; omega
      · show (s.got ++ (s.q ++ [_])).Sublist _
        rw [← List.append_assoc]
        exact List.Sublist.append h.hist (List.Sublist.refl _)
      · show (s.got ++ (s.q ++ [_]) ++ s.dropped).Perm _
        have h1 : (s.got ++ (s.q ++ [(⟨s.narrive, p, b⟩ : GMsg)]) ++ s.dropped).Perm
            (s.got ++ s.q ++ s.dropped ++ [⟨s.narrive, p, b⟩]) := by
          rw [← List.append_assoc, List.append_assoc (s.got ++ s.q), List.append_assoc (s.got ++ s.q)]
          exact List.Perm.append_left _ List.perm_append_comm
        exact h1.trans (List.Perm.append_right _ h.acct)
    · rw [if_neg hroom]
      refine ⟨fun hne => absurd rfl hne, h.len, ?_, hg', hb', ?_⟩
      · exact h.hist.trans (List.sublist_append_left _ _)
      · show (s.got ++ s.q ++ (s.dropped ++ [_])).Perm _
        rw [← List.append_assoc]
        exact List.Perm.append_right _ h.acct

/-! ### plumbing -/

theorem closePipe_same (s : State) (p : Nat) : ∃ ps, (closePipe s p).1 = { s with pipes := ps } := by
  unfold closePipe
  split
  · exact ⟨s.pipes, rfl⟩
  · split
    · exact ⟨s.pipes, rfl⟩
    · exact ⟨_, rfl⟩

theorem closePipe_inv {s : State} (p : Nat) (h : Inv s) : Inv (closePipe s p).1 := by
  obtain ⟨ps, hps⟩ := closePipe_same s p
  rw [hps]; exact h.of_eq rfl rfl rfl rfl rfl rfl rfl

theorem closePipes_same_aux : ∀ (l : List Pipe) (acc : State × List Out) (s0 : State),
    (∃ ps, acc.1 = { s0 with pipes := ps }) →
    ∃ ps, (l.foldl (fun (acc : State × List Out) pp =>
      let x := closePipe acc.1 pp.id
      (x.1, acc.2 ++ x.2)) acc).1 = { s0 with pipes := ps }
  | [], _, _, h => h
  | pp :: l, acc, s0, h => by
    simp only [List.foldl_cons]
    apply closePipes_same_aux l _ s0
    obtain ⟨ps, h⟩ := h
    obtain ⟨ps', h'⟩ := closePipe_same acc.1 pp.id
    exact ⟨ps', by rw [h', h]⟩

theorem closePipes_same (s : State) : ∃ ps, (closePipes s).1 = { s with pipes := ps } :=
  closePipes_same_aux s.pipes (s, []) s ⟨s.pipes, rfl⟩

theorem resize_inv {s : State} (cap : Nat) (h : Inv s) : Inv (resize s cap) := by
  unfold resize
  refine ⟨?_, ?_, ?_, h.gids, h.bound, ?_⟩
  · intro hne; simp [h.wait hne]
  · simp only [List.length_drop]; omega
  · exact (List.Sublist.append (List.Sublist.refl _) (List.drop_sublist _ _)).trans h.hist
  · show (s.got ++ s.q.drop _ ++ (s.dropped ++ s.q.take _)).Perm _
    refine List.Perm.trans ?_ h.acct
    have hq : (s.q.take (s.q.length - (cap + 1)) ++ s.q.drop (s.q.length - (cap + 1))) = s.q := List.take_append_drop _ _
    generalize s.q.take (s.q.length - (cap + 1)) = t at hq ⊢
    generalize s.q.drop (s.q.length - (cap + 1)) = d at hq ⊢
    rw [← hq, List.append_assoc, List.append_assoc s.got]
    refine List.Perm.append_left _ ?_
    -- d ++ (dropped ++ t) ~ (dropped ++ t) ++ d = dropped ++ (t ++ d) ~ (t ++ d) ++ dropped
    refine List.Perm.trans List.perm_append_comm ?_
    rw [List.append_assoc]
    exact List.perm_append_comm

theorem failAio_inv {s : State} (a rv : Nat) (h : Inv s) : Inv (failAio s a rv).1 := by
  unfold failAio
  split
  · refine ⟨fun hne => h.wait ?_, h.len, h.hist, h.gids, h.bound, h.acct⟩
    intro he; apply hne; simp [he]
  · exact h

theorem expire_inv {s : State} (h : Inv s) : Inv (expire s).1 := by
  unfold expire
  refine ⟨fun hne => h.wait ?_, h.len, h.hist, h.gids, h.bound, h.acct⟩
  intro he; apply hne; simp [he]

theorem closeAll_inv {s : State} (h : Inv s) : Inv (closeAll s).1 := by
  unfold closeAll
  obtain ⟨ps, hps⟩ := closePipes_same { s with getq := [], q := [], dropped := s.dropped ++ s.q }
  simp only []
  rw [hps]
  refine ⟨fun _ => rfl, Nat.zero_le _, ?_, h.gids, h.bound, ?_⟩
  · show (s.got ++ []).Sublist s.arrived
    exact (List.Sublist.append (List.Sublist.refl _) (List.nil_sublist _)).trans h.hist
  · show (s.got ++ [] ++ (s.dropped ++ s.q)).Perm s.arrived
    refine List.Perm.trans ?_ h.acct
    rw [List.append_nil, List.append_assoc s.got]
    exact List.Perm.append_left _ List.perm_append_comm

theorem stepOpen_inv {s : State} (ev : Ev) (h : Inv s) : Inv (stepOpen s ev).1 := by
  cases ev with
  | openSock _ _ => exact h
  | pipeAdd peer =>
    show Inv (opPipeAdd s peer).1
    unfold opPipeAdd
    split <;> exact h.of_eq rfl rfl rfl rfl rfl rfl rfl
  | pipeDrop p =>
    show Inv (opPipeDrop s p).1
    unfold opPipeDrop
    split
    · split
      · exact h
      · exact closePipe_inv p h
    · exact h
  | sendDone _ _ => exact h
  | recvDone p r =>
    show Inv (opRecvDone s p r).1
    unfold opRecvDone
    split
    · split
      · exact h
      · split
        · exact closePipe_inv p h
        · exact tryput_inv _ p h
    · exact h
  | send c a m mode =>
    show Inv (opSend s c a).1
    unfold opSend
    split
    · exact h
    · split <;> exact h
  | recv c a mode =>
    show Inv (opRecv s c a mode).1
    unfold opRecv
    split
    · exact h
    · split
      · exact h
      · exact aioGet_inv a mode h
  | cancel a => exact failAio_inv a _ h
  | abort a rv => exact failAio_inv a rv h
  | advance ms =>
    show Inv (expire { s with now := s.now + ms }).1
    exact expire_inv (h.of_eq rfl rfl rfl rfl rfl rfl rfl)
  | ctxOpen _ => exact h
  | ctxClose _ => exact h
  | setopt c name ty v =>
    show Inv (opSetopt s c name ty v).1
    unfold opSetopt
    split
    · split
      · exact h
      · exact resize_inv _ h
    · exact h
  | getopt c name ty => simp only [stepOpen]; split <;> exact h
  | poll => exact h
  | sub _ _ => exact h
  | unsub _ _ => exact h
  | close => exact closeAll_inv h

theorem step_inv {s : State} (ev : Ev) (h : Inv s) : Inv (step s ev).1 := by
  unfold step
  split
  · split
    · exact ⟨fun _ => rfl, Nat.zero_le _, List.Sublist.refl _, List.Pairwise.nil, (by intro m hm; cases hm), List.Perm.refl _⟩
    · exact h.of_eq rfl rfl rfl rfl rfl rfl rfl
    · exact h
  · split
    · split
      · exact h.of_eq rfl rfl rfl rfl rfl rfl rfl
      · exact h
    · exact stepOpen_inv ev h

/-- the state reached from the initial state by a sequence of events -/
def reach (evs : List Ev) : State := evs.foldl (fun s e => (step s e).1) {}

theorem foldl_inv : ∀ (evs : List Ev) (s : State), Inv s → Inv (evs.foldl (fun s e => (step s e).1) s)
  | [], _, h => h
  | e :: es, s, h => by simp only [List.foldl_cons]; exact foldl_inv es _ (step_inv e h)

theorem reach_inv (evs : List Ev) : Inv (reach evs) := foldl_inv evs {} inv_init

end Nng.Xsub
