/-
  C08 judge simulation, part 8: the application's receive (`pair*_sock_recv`).
-/
import NngModel.Proofs.PairJudge7
namespace Nng.Pair0
open Nng Nng.Proto Nng.PairSpec

/-- the judge's bookkeeping for a receive, and what it makes of the completion of this aio -/
theorem recv_pre {j0 : PairJ} {a : Nat} (hnone : j0.pendingS.find? (·.1 == a) = none) (hanot : a ∉ j0.waitingR)
    (c : Option Nat) (mode : Mode) :
    ∃ jp nb, (∀ outs, pairPre false j0 (.recv c a mode) outs = (jp, nb)) ∧
      ((mode = .nb ∧ nb = .recv a ∧ jp = j0) ∨
       (mode ≠ .nb ∧ nb = .none ∧ jp = { j0 with waitingR := j0.waitingR ++ [a] })) ∧
      jp.live = j0.live ∧ jp.racing = j0.racing ∧
      (∀ m i, j0.held.findIdx? (·.m == m) = some i → ((j0.held.take i).any (fun x => !x.excused)) = false →
        pairOut nb jp (.done a 0 (some m) false) =
          { j0 with held := j0.held.drop (i + 1), delivered := j0.delivered ++ [m] }) ∧
      (∀ rv, rv ≠ 0 → pairOut nb jp (.done a rv none false) = j0) := by
  have hf1 : j0.waitingR.filter (· != a) = j0.waitingR := by
    rw [List.filter_eq_self]
    intro x hx
    have : x ≠ a := fun e => hanot (e ▸ hx)
    simpa using this
  have hf2 : (j0.waitingR ++ [a]).filter (· != a) = j0.waitingR := by
    rw [List.filter_append, hf1]; simp
  by_cases hm : mode = .nb
  · subst hm
    refine ⟨j0, .recv a, fun _ => by simp [pairPre], Or.inl ⟨rfl, rfl, rfl⟩, rfl, rfl, ?_, ?_⟩
    · intro m i h3 h4
      rw [pairOut_done_recv (nb := .recv a) hnone (show nbNotSend (.recv a) a from trivial) (Or.inr rfl),
        recvCompletion_ok h3 h4, hf1]
    · intro rv hrv
      rw [pairOut_done_recv (nb := .recv a) hnone (show nbNotSend (.recv a) a from trivial) (Or.inr rfl),
        recvCompletion_fail hrv, hf1]
  · refine ⟨{ j0 with waitingR := j0.waitingR ++ [a] }, .none, fun _ => ?_, Or.inr ⟨hm, rfl, rfl⟩, rfl, rfl, ?_, ?_⟩
    · cases mode <;> first | (exact absurd rfl hm) | simp [pairPre]
    · intro m i h3 h4
      rw [pairOut_done_recv (nb := .none) (j := { j0 with waitingR := j0.waitingR ++ [a] }) (by exact hnone)
        (show nbNotSend .none a from trivial) (Or.inl (by simp)), recvCompletion_ok (j := { j0 with waitingR := j0.waitingR ++ [a] }) (by exact h3) (by exact h4)]
      show ({ j0 with waitingR := (j0.waitingR ++ [a]).filter (· != a), held := j0.held.drop (i + 1),
                      delivered := j0.delivered ++ [m] } : PairJ) = _
      rw [hf2]
    · intro rv hrv
      rw [pairOut_done_recv (nb := .none) (j := { j0 with waitingR := j0.waitingR ++ [a] }) (by exact hnone)
        (show nbNotSend .none a from trivial) (Or.inl (by simp)), recvCompletion_fail hrv]
      show ({ j0 with waitingR := (j0.waitingR ++ [a]).filter (· != a) } : PairJ) = _
      rw [hf2]

theorem recv_post {polled : Option (Bool × Bool)} {ev : Ev} {outs : List Out} {jm : PairJ} {a : Nat} {nb : Nb}
    (hnb : nb = .none ∨ (nb = .recv a ∧ ∃ rv, doneOf outs a = some rv ∧
      ∀ r w, polled = some (r, w) → ¬ (r = true ∧ rv = Err.eagain) ∧ ¬ (r = false ∧ rv = 0)))
    (hp : isPoll ev = false) (hb : noBlocked outs) (hr : jm.racing = false) :
    pairPost false polled nb ev outs jm = jm := by
  rcases hnb with rfl | ⟨rfl, rv, hd, hpoll⟩
  · exact pairPost_none hp hb hr
  · exact pairPost_recv hp hb hr hd hpoll

theorem pairMid_done_parm {nb : Nb} {ev : Ev} {j : PairJ} {p a rv : Nat} {msg : Option WMsg} {mb : Bool}
    (hr : j.racing = false) (hev : isPipeAdd ev = false) (hl : j.live = some p) :
    pairMid false nb ev [.done a rv msg mb, .parm p] j =
      pairOut nb (pairOut nb j (.done a rv msg mb)) (.parm p) := by
  rw [pairMid_shape (dn := [.done a rv msg mb]) (ps := [.parm p]) (gn := []) hr hev hl]
  · rfl
  · rfl
  · simp [List.filter, isDone, onOld]
  · simp [List.filter, isDone, oldGone]
  · simp [List.filter, isDone, onOld, oldGone]

theorem pairMid_done_one {nb : Nb} {ev : Ev} {j : PairJ} {a rv : Nat} {msg : Option WMsg} {mb : Bool}
    (hr : j.racing = false) (hev : isPipeAdd ev = false) :
    pairMid false nb ev [.done a rv msg mb] j = pairOut nb j (.done a rv msg mb) := by
  rw [pairMid_dones hr hev (by simp [isDone])]; rfl

theorem sockRecv_R {V : Variant} {v1 : Bool} {sS sR : List Bytes} {s : State} {j0 : PairJ}
    (hA : All V s) (hR0 : R V v1 sS sR s j0) (hcl : s.closed = false)
    (hcp : ∀ p, s.cur = some p → ∃ pp, getPipe s p = some pp)
    (c : Option Nat) (a : Nat) (mode : Mode) (hb : aioBusy s a = false)
    (polled : Option (Bool × Bool)) (hpoll : ∀ r w, polled = some (r, w) → r = s.readable) :
    ∃ jp nb jm, (∀ outs, pairPre false j0 (.recv c a mode) outs = (jp, nb)) ∧
      notExecuted (sockRecv s a mode).2 = false ∧
      pairMid false nb (.recv c a mode) (sockRecv s a mode).2 jp = jm ∧
      pairPost false polled nb (.recv c a mode) (sockRecv s a mode).2 jm = jm ∧
      R V v1 sS sR (sockRecv s a mode).1 jm := by
  have hI := hA.inv
  have hP := hA.pinv
  have hnw : ∀ pk ∈ s.waq, pk.aio ≠ a := by
    intro pk hpk e
    have : aioBusy s a = true := by
      unfold aioBusy
      simp only [Bool.or_eq_true, List.any_eq_true]
      exact Or.inl ⟨pk, hpk, by simp [e]⟩
    rw [hb] at this; cases this
  have hnr : ∀ r ∈ s.raq, r.aio ≠ a := by
    intro r hr e
    have : aioBusy s a = true := by
      unfold aioBusy
      simp only [Bool.or_eq_true, List.any_eq_true]
      exact Or.inr ⟨r, hr, by simp [e]⟩
    rw [hb] at this; cases this
  have hnone : j0.pendingS.find? (·.1 == a) = none := hR0.toP.find_none hnw
  have hanot : a ∉ j0.waitingR := by
    rw [hR0.waitR]; intro h
    obtain ⟨r, hr, e⟩ := List.mem_map.1 h
    exact hnr r hr e
  have hrdbl : s.readable = (!s.rmq.isEmpty || s.rdReady) := hI.readableEq hcl
  obtain ⟨jp, nb, hpre, hmode, hlv, hrc, hok, hfail⟩ := recv_pre hnone hanot c mode
  have hrac : jp.racing = false := hrc.trans hR0.racing
  have hnb0 : ∀ outs, doneOf outs a = some 0 → s.readable = true →
      (nb = Nb.none ∨ (nb = .recv a ∧ ∃ rv, doneOf outs a = some rv ∧
        ∀ r w, polled = some (r, w) → ¬ (r = true ∧ rv = Err.eagain) ∧ ¬ (r = false ∧ rv = 0))) := by
    intro outs hd hrdb
    rcases hmode with ⟨_, hn, _⟩ | ⟨_, hn, _⟩
    · refine Or.inr ⟨hn, 0, hd, fun r w hrw => ⟨by simp [Err.eagain], ?_⟩⟩
      rintro ⟨hr, _⟩
      have := hpoll r w hrw
      rw [hrdb, hr] at this; cases this
    · exact Or.inl hn
  have hnbE : ∀ outs, doneOf outs a = some Err.eagain → s.readable = false →
      (nb = Nb.none ∨ (nb = .recv a ∧ ∃ rv, doneOf outs a = some rv ∧
        ∀ r w, polled = some (r, w) → ¬ (r = true ∧ rv = Err.eagain) ∧ ¬ (r = false ∧ rv = 0))) := by
    intro outs hd hrdb
    rcases hmode with ⟨_, hn, _⟩ | ⟨_, hn, _⟩
    · refine Or.inr ⟨hn, Err.eagain, hd, fun r w hrw => ⟨?_, by simp [Err.eagain]⟩⟩
      rintro ⟨hr, _⟩
      have := hpoll r w hrw
      rw [hrdb, hr] at this; cases this
    · exact Or.inl hn
  unfold sockRecv
  cases hq : s.rmq with
  | cons mm rest =>
    have hrdb : s.readable = true := by rw [hrdbl, hq]; simp
    have hlen : rest.length < s.rmqCap := by
      have := hI.rmqLe; rw [hq] at this; simp at this; omega
    have hU : UR j0.held (mm.m :: (rest ++ s.held.toList).map (·.m)) := by
      have := hR0.held; rw [hq] at this; simpa using this
    obtain ⟨i, A, b, B, hu, h1, h2, h3, hB⟩ := hU.pop' (nodup_m_of_key hR0.nodupR)
    have e1 := hok mm.m i h1 h2
    rw [h3] at e1
    have hsub : B.Sublist j0.held := by rw [hu]; simp
    by_cases hrd : s.rdReady = true
    · obtain ⟨p, gm, ht, hcur, hheld⟩ := takeHeld_of { s with rmq := rest, delivered := s.delivered ++ [mm] }
        (hI.rdCur hrd) (by rw [← hI.heldRd]; exact hrd)
      have hcur : s.cur = some p := hcur
      have hheld : s.held = some gm := hheld
      obtain ⟨pp, hg⟩ := hcp p hcur
      have hlive0 : j0.live = some p := hR0.live.trans hcur
      have harm0 : j0.armed = false := by
        rw [hR0.armed, List.any_eq_false]
        intro q hq'; simp [hP.heldNotArmed hrd q hq']
      simp only [ht]
      simp only [hrd, if_true, List.singleton_append]
      have hmid : pairMid false nb (.recv c a mode) [.done a 0 (some mm.m) false, .parm p] jp =
          { j0 with held := B, delivered := j0.delivered ++ [mm.m], armed := true } := by
        rw [pairMid_done_parm hrac rfl (hlv.trans hlive0), e1, pairOut_parm (by exact hlive0) (by exact harm0)]
      refine ⟨jp, nb, _, hpre, by simp [notExecuted], hmid,
        recv_post (hnb0 _ (by simp [doneOf]) hrdb) rfl (by simp [noBlocked, isBlocked]) hR0.racing, ?_⟩
      refine { hR0 with armed := ?_, held := ?_, nodupR := hR0.nodupR.sublist (hsub.map _),
                        subR := fun e he => hR0.subR e (hsub.subset he) }
      · exact (any_armed_set
          (s := rmqPutUnchecked { s with rmq := rest, delivered := s.delivered ++ [mm], rdReady := false, held := none } gm)
          hg _ (fun _ => rfl)).symm
      · simp only [modPipe, rmqPutUnchecked, hlen, if_true]
        rw [hheld] at hB
        simpa using hB
    · have hrd' : s.rdReady = false := by simpa using hrd
      simp only [hrd', Bool.false_eq_true, if_false, List.append_nil]
      have hmid : pairMid false nb (.recv c a mode) [.done a 0 (some mm.m) false] jp =
          { j0 with held := B, delivered := j0.delivered ++ [mm.m] } := by
        rw [pairMid_done_one hrac rfl, e1]
      refine ⟨jp, nb, _, hpre, by simp [notExecuted], hmid,
        recv_post (hnb0 _ (by simp [doneOf]) hrdb) rfl (by simp [noBlocked, isBlocked]) hR0.racing, ?_⟩
      exact { hR0 with held := hB, nodupR := hR0.nodupR.sublist (hsub.map _),
                       subR := fun e he => hR0.subR e (hsub.subset he) }
  | nil =>
    have hheldR : UR j0.held ((([] : List GMsg) ++ s.held.toList).map (·.m)) := by
      have := hR0.held; rw [hq] at this; exact this
    by_cases hrd : s.rdReady = true
    · have hrdb : s.readable = true := by rw [hrdbl, hrd]; simp
      obtain ⟨p, gm, ht, hcur, hheld⟩ := takeHeld_of s (hI.rdCur hrd) (by rw [← hI.heldRd]; exact hrd)
      obtain ⟨pp, hg⟩ := hcp p hcur
      have hlive0 : j0.live = some p := hR0.live.trans hcur
      have harm0 : j0.armed = false := by
        rw [hR0.armed, List.any_eq_false]
        intro q hq'; simp [hP.heldNotArmed hrd q hq']
      have hU : UR j0.held (gm.m :: []) := by
        have := hheldR; rw [hheld] at this; simpa using this
      obtain ⟨i, A, b, B, hu, h1, h2, h3, hB⟩ := hU.pop' (nodup_m_of_key hR0.nodupR)
      have e1 := hok gm.m i h1 h2
      rw [h3] at e1
      have hsub : B.Sublist j0.held := by rw [hu]; simp
      simp only [ht]
      simp only [hrd, if_true]
      have hmid : pairMid false nb (.recv c a mode) [.done a 0 (some gm.m) false, .parm p] jp =
          { j0 with held := B, delivered := j0.delivered ++ [gm.m], armed := true } := by
        rw [pairMid_done_parm hrac rfl (hlv.trans hlive0), e1, pairOut_parm (by exact hlive0) (by exact harm0)]
      refine ⟨jp, nb, _, hpre, by simp [notExecuted], hmid,
        recv_post (hnb0 _ (by simp [doneOf]) hrdb) rfl (by simp [noBlocked, isBlocked]) hR0.racing, ?_⟩
      refine { hR0 with armed := ?_, held := ?_, nodupR := hR0.nodupR.sublist (hsub.map _),
                        subR := fun e he => hR0.subR e (hsub.subset he) }
      · exact (any_armed_set
          (s := { s with rmq := [], rdReady := false, held := none, delivered := s.delivered ++ [gm] })
          hg _ (fun _ => rfl)).symm
      · simp only [modPipe]
        simpa using hB
    · have hrd' : s.rdReady = false := by simpa using hrd
      have hrdb : s.readable = false := by rw [hrdbl, hq, hrd']; simp
      simp only [hrd', Bool.false_eq_true, if_false]
      have park : ∀ d : Option Nat,
          R V v1 sS sR { s with rmq := [], rdReady := false, raq := s.raq ++ [⟨a, d⟩] }
            { j0 with waitingR := j0.waitingR ++ [a] } := by
        intro d
        refine { hR0 with waitR := ?_, held := hheldR, disj := ?_, raqNd := ?_ }
        · simp [hR0.waitR]
        · intro pk hpk r hr
          rcases List.mem_append.1 hr with h | h
          · exact hR0.disj pk hpk r h
          · simp only [List.mem_singleton] at h; subst h; exact hnw pk hpk
        · simp only [List.map_append, List.map_cons, List.map_nil]
          rw [List.nodup_append]
          refine ⟨hR0.raqNd, by simp, ?_⟩
          intro x hx y hy
          simp only [List.mem_singleton] at hy; subst hy
          obtain ⟨r, hr, rfl⟩ := List.mem_map.1 hx
          exact hnr r hr
      have hparked : ∀ d : Option Nat, mode ≠ .nb →
          ∃ jp nb jm, (∀ outs, pairPre false j0 (.recv c a mode) outs = (jp, nb)) ∧
            notExecuted ([] : List Out) = false ∧
            pairMid false nb (.recv c a mode) [] jp = jm ∧
            pairPost false polled nb (.recv c a mode) [] jm = jm ∧
            R V v1 sS sR { s with rmq := [], rdReady := false, raq := s.raq ++ [⟨a, d⟩] } jm := by
        intro d hm
        rcases hmode with ⟨hm', _, _⟩ | ⟨_, hn, hj⟩
        · exact absurd hm' hm
        · subst hn; subst hj
          refine ⟨_, _, _, hpre, by simp [notExecuted], ?_, ?_, park d⟩
          · rw [pairMid_dones (by exact hR0.racing) rfl (by simp)]; rfl
          · exact pairPost_none rfl (by simp [noBlocked]) hR0.racing
      have hfailed : ∀ rv : Nat, rv ≠ 0 → (mode = .nb → rv = Err.eagain) →
          ∃ jp nb jm, (∀ outs, pairPre false j0 (.recv c a mode) outs = (jp, nb)) ∧
            notExecuted [Out.done a rv none false] = false ∧
            pairMid false nb (.recv c a mode) [Out.done a rv none false] jp = jm ∧
            pairPost false polled nb (.recv c a mode) [Out.done a rv none false] jm = jm ∧
            R V v1 sS sR s jm := by
        intro rv hrv hnbrv
        refine ⟨jp, nb, j0, hpre, by simp [notExecuted], ?_, ?_, hR0⟩
        · rw [pairMid_done_one hrac rfl, hfail rv hrv]
        · refine recv_post (a := a) ?_ rfl (by simp [noBlocked, isBlocked]) hR0.racing
          rcases hmode with ⟨hm', hn, _⟩ | ⟨_, hn, _⟩
          · have := hnbrv hm'; subst this
            have := hnbE [Out.done a Err.eagain none false] (by simp [doneOf]) hrdb
            rcases this with h | h
            · exact Or.inl h
            · exact Or.inr h
          · exact Or.inl hn
      cases mode with
      | nb => exact hfailed Err.eagain (by simp [Err.eagain]) (fun _ => rfl)
      | inf => exact hparked _ (by simp)
      | dflt => exact hparked _ (by simp)
      | ms n =>
        cases n with
        | zero => exact hfailed Err.etimedout (by simp [Err.etimedout]) (fun h => by cases h)
        | succ k => exact hparked _ (by simp)

theorem ev_recv {V : Variant} {v1 : Bool} {sS sR : List Bytes} {s : State} {j : PairJ} (hV : VJ V v1)
    (hA : All V s) (hR : R' V v1 sS sR s j) (hcl : s.closed = false)
    (hcp : ∀ p, s.cur = some p → ∃ pp, getPipe s p = some pp)
    (c : Option Nat) (a : Nat) (mode : Mode)
    (hA' : All V (stepLive V s (.recv c a mode)).1) :
    R' V v1 sS sR (stepLive V s (.recv c a mode)).1
      (pairStepOld j (.recv c a mode) (stepLive V s (.recv c a mode)).2) := by
  simp only [stepLive] at hA' ⊢
  by_cases hb : aioBusy s a = true
  · simp only [hb, if_true] at hA' ⊢
    rw [pairStep_refused (by simp [notExecuted])]; exact hR
  · have hb' : aioBusy s a = false := by simpa using hb
    simp only [hb', Bool.false_eq_true, if_false] at hA' ⊢
    obtain ⟨jp, nb, jm, hpre, hne, hmid, hpost, hRm⟩ :=
      sockRecv_R hA hR.1 hcl hcp c a mode hb' j.lastPoll (fun r w h => (hR.2 r w h).1)
    exact step_general hR hne (hpre _) hmid hpost hA' hRm

end Nng.Pair0
