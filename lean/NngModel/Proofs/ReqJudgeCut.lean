/-
  The REQ judge (Spec/Req.lean, `Nng.ReqSpec.step`) cut into named phases; `step_eq` shows that the
  judge's step is their composition (the Spec is unchanged).  Used by the simulation proof
  (Proofs/ReqJudge*.lean).
-/
import NngModel.Spec.Req
namespace Nng.ReqSpec
open Nng Nng.Proto

def evAioOf : Ev → Option Nat
  | .send _ a _ _ => some a
  | .recv _ a _ => some a
  | _ => none

/-- completions of operations that were pending before this step -/
def phA (evAio : Option Nat) (outs : List Out) (j : J) : J :=
  outs.foldl (fun j o => match o with
    | .done a rv none _ => if some a != evAio && rv != 0 && rv != Err.econnreset then oldDone j a rv else j
    | _ => j) j

def evSend (j : J) (c : Option Nat) (a : Nat) (m : WMsg) (outs : List Out) : J × List Nat :=
  let k := keyOf c
  let cj := j.ctx k
  let j := match cj.recvWait with
    | some ra => if (doneOf outs ra).isSome then j else j.fail04 s!"receive {ra} still waits for a request that was replaced"
    | none => j
  let dl : Option Nat := if cj.retry > 0 then some (j.now + cj.retry.toNat) else none
  let r : RJ := { body := m.body, sendAio := a, deadline := dl, everRetry := decide (cj.retry > 0) }
  let j := { j with anySend := true }
  (setC j k { cj with req := some r, stash := none, recvWait := none, latched := false }, [])

def evRecv (j : J) (c : Option Nat) (a : Nat) (mode : Mode) (outs : List Out) : J × List Nat :=
  let k := keyOf c
  let cj := j.ctx k
  let res := doneOf outs a
  if !cj.opened then (j, []) else
  if cj.recvWait.isSome then
    ((if res == some (Err.estate, none) then j else j.fail04 "a second concurrent receive did not fail with ESTATE"), [])
  else match cj.stash with
    | some b =>
      let j := if res == some (0, some ⟨[], b⟩) then j else j.fail04 s!"receive {a}: the reply already taken for this context was not delivered"
      (setC j k { cj with stash := none, req := none }, [a])
    | none =>
      match cj.req with
      | none =>
        if cj.latched then
          let j := if res == some (Err.econnreset, none) then j
            else j.fail12 "connection was lost with resending disabled: the next receive did not report ECONNRESET"
          (setC j k { cj with latched := false }, [])
        else
          let j := if res == some (Err.estate, none) then j
            else if res == some (Err.econnreset, none) then j.fail12 "ECONNRESET reported although no request lost its connection"
            else j
          ((if res == some (Err.estate, none) then j
            else j.fail04 "receive without an outstanding request did not fail with ESTATE"), [])
      | some _ =>
        match mode with
        | .nb => (j, [])
        | .ms 0 => (j, [])
        | _ => if res.isNone then (setC j k { cj with recvWait := some a }, []) else (j, [])

def evSetopt (j : J) (ok : Bool) (c : Option Nat) (name ty : String) (v : Int) : J × List Nat :=
  if ok && ty == "ms" then
    if name == "req:resend-time" then
      let cj := j.ctx (keyOf c)
      let j := setC j (keyOf c) { cj with retry := v, req := cj.req.map fun r => { r with clean := false, everRetry := r.everRetry || decide (v > 0) } }
      (if c.isNone then { j with sockRetry := v } else j, [])
    else if name == "req:resend-tick" && c.isNone then
      ({ j with tick := v, tickStable := !j.anySend }, [])
    else (j, [])
  else (j, [])

/-- 1. the event itself, judged against the state before it -/
def phEv (j : J) (ev : Ev) (outs : List Out) (ok : Bool) : J × List Nat :=
  match ev with
  | .openSock _ _ =>
    let r : Int := Nng.Generated.reqResendTimeDefault
    ({ j with opened := ok, sockRetry := r, tick := (Nng.Generated.reqResendTickDefault : Int),
              ctx := fun x => if x = 0 then { opened := true, retry := r } else j.ctx x }, [])
  | .advance ms => ({ j with now := j.now + ms }, [])
  | .ctxOpen c => if ok then (setC j (c + 1) { opened := true, retry := j.sockRetry }, []) else (j, [])
  | .ctxClose c => if ok then (setC j (c + 1) {}, []) else (j, [])
  | .setopt c name ty v => evSetopt j ok c name ty v
  | .sendDone p rv =>
    if ok && rv == 0 && j.busy.contains p then ({ j with busy := j.busy.filter (· != p), idle := j.idle ++ [p] }, []) else (j, [])
  | .recvDone _ (.ok b) => if ok then onReply j b outs else (j, [])
  | .send c a m _ => evSend j c a m outs
  | .recv c a mode => evRecv j c a mode outs
  | .close => ({ j with closed := true }, [])
  | _ => (j, [])

/-- 2. connections: new ones become idle -/
def phPipe (outs : List Out) (j : J) : J :=
  outs.foldl (fun j o => match o with
    | .pipe p => if p ≥ 0 && !(outs.contains (.pclosed p.toNat)) then { j with idle := j.idle ++ [p.toNat] } else j
    | _ => j) j

/-- lost ones drop their requests -/
def phClosed (all : List Out) (closing : Bool) (outs : List Out) (j : J) : J :=
  outs.foldl (fun j o => match o with | .pclosed p => onPclosed all closing j p | _ => j) j

/-- an ECONNRESET that no lost connection explains -/
def phReset (evAio : Option Nat) (closing : Bool) (outs : List Out) (j : J) : J :=
  outs.foldl (fun j o => match o with
    | .done a rv none _ =>
      if some a != evAio && rv == Err.econnreset then
        let j := if keys.any (fun k => (j.ctx k).recvWait == some a) && !closing then
            j.fail12 s!"receive {a} failed with ECONNRESET although its request did not lose its connection with resending disabled" else j
        oldDone j a rv
      else j
    | _ => j) j

/-- 3. transmissions -/
def psF (outs : List Out) (j : J) : J :=
  outs.foldl (fun j o => match o with | .psend p m => onPsend j p m | _ => j) j

/-- 4. completions in this step -/
def phDone (ev : Ev) (evAio : Option Nat) (expected : List Nat) (outs : List Out) (j : J) : J :=
  outs.foldl (fun j o => match o with
    | .done a 0 (some _) _ =>
      if expected.contains a then j else j.fail04 s!"receive {a} completed with a message that does not answer its outstanding request (or answers it twice)"
    | .done a rv none _ =>
      if some a == evAio && rv != 0 then
        match ev with
        | .send c _ _ _ => setC j (keyOf c) { j.ctx (keyOf c) with req := none }
        | _ => j
      else j
    | _ => j) j

def phPoll (outs : List Out) (j : J) : J :=
  outs.foldl (fun j o => match o with
    | .poll (some r) (some w) =>
      let j := if r == (j.ctx 0).stash.isSome then j else j.fail04 s!"poll: readable={r} disagrees with whether a reply is waiting on the socket"
      if w == !j.idle.isEmpty then j else j.fail04 s!"poll: writable={w} but idle connections: {j.idle.length}"
    | _ => j) j

/-- 5. overdue requests -/
def overdueAll (j : J) : J :=
  keys.foldl (fun j k =>
    let c := j.ctx k
    match c.req with
    | some r =>
      match r.deadline with
      | some d =>
        if r.wired && !r.answered && r.clean && !r.txSince && c.retry > 0 && j.now > d + j.tick.toNat then
          setC j k { c with req := some { r with needTx := true } }
        else j
      | none => j
    | none => j) j

def phOver (ev : Ev) (j : J) : J :=
  match ev with
  | .advance _ => if j.tickStable && j.tick > 0 then overdueAll j else j
  | _ => j

def phBlocked (outs : List Out) (j : J) : J :=
  if outs.any (fun o => match o with | .blocked _ => true | _ => false) then j.fail04 "a non-blocking call blocked" else j

/-- everything after the event phase -/
def phRest (ev : Ev) (outs : List Out) (r : J × List Nat) : J :=
  let closing := r.1.closed
  let j := phClosed outs closing outs (phPipe outs r.1)
  let j := phReset (evAioOf ev) closing outs j
  let j := if closing then j else psF outs j
  let j := phDone ev (evAioOf ev) r.2 outs j
  quiescent (phBlocked outs (phOver ev (phPoll outs j)))

theorem step_eq (j : J) (ev : Ev) (outs : List Out) :
    step j ev outs =
      if notExecuted outs then j else if j.closed then j else
        phRest ev outs (phEv (phA (evAioOf ev) outs j) ev outs (outs.contains (.rv 0))) := by
  unfold step
  split
  · rfl
  split
  · rfl
  cases ev <;> rfl

/-! ### `onPsend` in three pieces -/

def psA (j : J) (p : Nat) : J :=
  let j := if j.idle.contains p then j else j.fail12 s!"request handed to connection {p} which is not idle"
  { j with idle := j.idle.filter (· != p), busy := j.busy ++ [p] }

def psB (j : J) (m : WMsg) : J :=
  match j.seen.find? (·.2 == m.body) with
  | some (id, _) => if id == m.hdr then j else j.fail12 "a retransmission carries a different request id"
  | none =>
    if j.seen.any (·.1 == m.hdr) then j.fail12 "two different requests were sent with the same id"
    else { j with seen := j.seen ++ [(m.hdr, m.body)] }

def psendPred (j : J) (body : Bytes) (k : Nat) : Bool :=
  match (j.ctx k).req with | some r => r.body == body && !r.answered | none => false

def psC (j : J) (p : Nat) (m : WMsg) : J :=
  match keys.find? (psendPred j m.body) with
  | none => j.fail12 "a request was transmitted that is not outstanding (answered, cancelled or replaced)"
  | some k =>
    let c := j.ctx k
    match c.req with
    | none => j
    | some r =>
      let j := if r.txCount ≥ 1 && !r.everRetry then
          j.fail12 "resending disabled, yet the request was put on the wire a second time" else j
      let j := match r.deadline with
        | some d => if r.txCount ≥ 1 && r.clean && !r.needTx && j.now < d then
            j.fail12 "request retransmitted before its resend time elapsed although its connection is alive" else j
        | none => j
      let past := match r.deadline with | some d => decide (d ≤ j.now) | none => false
      setC j k { c with req := some { r with id := some m.hdr, wired := true, lastPipe := p, txCount := r.txCount + 1,
                                              needTx := false, txSince := r.txSince || past } }

theorem onPsend_cut (j : J) (p : Nat) (m : WMsg) : onPsend j p m = psC (psB (psA j p) m) p m := rfl

/-! ### `onReply` with its search predicate named -/

def replyPred (j : J) (id : Bytes) (k : Nat) : Bool :=
  match (j.ctx k).req with
  | some r => r.wired && !r.answered && r.id == some id
  | none => false

def onReply2 (j : J) (b : Bytes) (outs : List Out) : J × List Nat :=
  if b.length < 4 then (j, [])
  else
    match keys.find? (replyPred j (b.take 4)) with
    | none => (j, [])
    | some k =>
      let c := j.ctx k
      match c.recvWait with
      | some a =>
        let j := if hasDone outs a 0 (some ⟨[], b.drop 4⟩) then j
          else j.fail04 s!"the reply to the outstanding request was not delivered to the waiting receive {a}"
        (setC j k { c with req := none, recvWait := none }, [a])
      | none =>
        (setC j k { c with req := c.req.map fun r => { r with answered := true, needTx := false }, stash := some (b.drop 4) }, [])

theorem onReply_cut (j : J) (b : Bytes) (outs : List Out) : onReply j b outs = onReply2 j b outs := rfl

end Nng.ReqSpec
