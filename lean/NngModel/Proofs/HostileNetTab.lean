/-
  C11T — the peer table of udp.c (id map probed from nng_sockaddr_hash, Model/HostileNetQ.lean `pt*`):
  with an injective hash (IPv4: (addr << 16) + port) every pipe is stored under its own hash, nothing is ever
  displaced, and udp_find_pipe finds exactly the addresses that have a pipe — for the removal of the pinned tree
  and for the fixed one alike.  (Colliding hashes — IPv6 — are what breaks the pinned removal: Props/C11Net.lean.)
-/
import NngModel.Model.HostileNetQ
namespace Nng.Hostile
open Nng

/-- every pipe sits under the hash of its address; one pipe per address -/
structure AtHash (hash : Nat → Nat) (t : PTab) : Prop where
  key : ∀ e ∈ t, e.1 = hash e.2
  nodup : (ptMembers t).Nodup

theorem ptGet_cons (e : Nat × Nat) (t : PTab) (k : Nat) : ptGet (e :: t) k = if e.1 = k then some e.2 else ptGet t k := by
  unfold ptGet
  by_cases h : e.1 = k
  · simp [h]
  · simp [h]

theorem ptGet_mem (t : PTab) (k a : Nat) (h : ptGet t k = some a) : (k, a) ∈ t := by
  induction t with
  | nil => simp [ptGet] at h
  | cons e t ih =>
    rw [ptGet_cons] at h
    by_cases he : e.1 = k
    · simp [he] at h
      have : e = (k, a) := by rw [← he, ← h]
      simp [this]
    · simp [he] at h
      exact List.mem_cons_of_mem _ (ih h)

theorem ptGet_none (t : PTab) (k : Nat) (h : ∀ e ∈ t, e.1 ≠ k) : ptGet t k = none := by
  induction t with
  | nil => rfl
  | cons e t ih =>
    rw [ptGet_cons, if_neg (h e List.mem_cons_self)]
    exact ih fun x hx => h x (List.mem_cons_of_mem _ hx)

variable {hash : Nat → Nat}

theorem AtHash.get_hash (hinj : Function.Injective hash) {t : PTab} (h : AtHash hash t) (a : Nat) :
    ptGet t (hash a) = if a ∈ ptMembers t then some a else none := by
  by_cases ha : a ∈ ptMembers t
  · rw [if_pos ha]
    cases hg : ptGet t (hash a) with
    | none =>
      exfalso
      obtain ⟨e, he, hea⟩ := List.mem_map.1 ha
      have hk := h.key e he
      -- the entry of `a` has key hash a: ptGet cannot miss it
      clear h ha
      induction t with
      | nil => simp at he
      | cons x t ih =>
        rw [ptGet_cons] at hg
        by_cases hx : x.1 = hash a
        · simp [hx] at hg
        · simp [hx] at hg
          rcases List.mem_cons.1 he with he | he
          · apply hx; rw [← he, hk, hea]
          · exact ih hg he
    | some b =>
      have hm := ptGet_mem t _ _ hg
      have := h.key _ hm
      simp at this
      rw [hinj this]
  · rw [if_neg ha]
    apply ptGet_none
    intro e he hk
    apply ha
    have := h.key e he
    rw [hk] at this
    have := hinj this
    exact List.mem_map.2 ⟨e, he, this.symm⟩

/-- udp_find_pipe finds exactly the members -/
theorem AtHash.finds (hinj : Function.Injective hash) {t : PTab} (h : AtHash hash t) (a : Nat) :
    ptFinds hash t a = decide (a ∈ ptMembers t) := by
  unfold ptFinds ptFind
  rw [h.get_hash hinj a]
  by_cases ha : a ∈ ptMembers t
  · simp [ha]
  · simp [ha]

theorem AtHash.add (hinj : Function.Injective hash) {t : PTab} (h : AtHash hash t) (a : Nat) (ha : a ∉ ptMembers t) :
    AtHash hash (ptAdd hash t a) ∧ ptMembers (ptAdd hash t a) = ptMembers t ++ [a] := by
  have hfree : ptFree t (t.length + 1) (hash a) = hash a := by
    unfold ptFree
    rw [h.get_hash hinj a, if_neg ha]
    simp
  unfold ptAdd
  rw [hfree]
  refine ⟨⟨?_, ?_⟩, by simp [ptMembers]⟩
  · intro e he
    rcases List.mem_append.1 he with he | he
    · exact h.key e he
    · simp at he; rw [he]
  · simp only [ptMembers, List.map_append, List.map_cons, List.map_nil]
    rw [List.nodup_append]
    refine ⟨h.nodup, by simp, ?_⟩
    intro x hx y hy
    simp at hy
    rw [hy]
    exact fun e => ha (e ▸ hx)

theorem AtHash.filter_key {t : PTab} (h : AtHash hash t) (k : Nat) : AtHash hash (t.filter (·.1 != k)) := by
  refine ⟨fun e he => h.key e (List.mem_filter.1 he).1, ?_⟩
  unfold ptMembers
  exact (List.filter_sublist.map _).nodup h.nodup

/-- nothing behind a freed key moves: every pipe already sits at the first key of its probe sequence -/
theorem AtHash.closeGap {t : PTab} (h : AtHash hash t) : ∀ (fuel key : Nat), ptCloseGap hash t fuel key = t := by
  intro fuel
  induction fuel with
  | zero => intro key; rfl
  | succ n ih =>
    intro key
    unfold ptCloseGap
    simp only
    cases hg : ptGet t (ptNext key) with
    | none => rfl
    | some a =>
      have hk := h.key _ (ptGet_mem t _ _ hg)
      simp only at hk
      have hw : ptWant t (ptNext key) (t.length + 1) (hash a) = ptNext key := by
        unfold ptWant
        rw [← hk]
        simp
      simp only [hw, ne_eq, not_true_eq_false, if_false]
      exact ih _

theorem members_filter_key (hinj : Function.Injective hash) {t : PTab} (h : AtHash hash t) (a : Nat) :
    ptMembers (t.filter (·.1 != hash a)) = (ptMembers t).filter (· != a) := by
  unfold ptMembers
  have hk := h.key
  clear h
  induction t with
  | nil => rfl
  | cons e t ih =>
    have he := hk e List.mem_cons_self
    have ih' := ih fun x hx => hk x (List.mem_cons_of_mem _ hx)
    by_cases hea : e.2 = a
    · have : e.1 = hash a := by rw [he, hea]
      simp [this, hea, ih']
    · have : e.1 ≠ hash a := by rw [he]; exact fun x => hea (hinj x)
      simp [this, hea, ih']

theorem find_addr (t : PTab) (a : Nat) (e : Nat × Nat) (h : t.find? (·.2 == a) = some e) : e ∈ t ∧ e.2 = a := by
  have := List.find?_some h
  exact ⟨List.mem_of_find?_eq_some h, by simpa using this⟩

theorem find_addr_none (t : PTab) (a : Nat) (h : t.find? (·.2 == a) = none) : a ∉ ptMembers t := by
  intro ha
  obtain ⟨e, he, hea⟩ := List.mem_map.1 ha
  have := List.find?_eq_none.1 h e he
  simp [hea] at this

/-- the specification: who has a pipe -/
def setStep (l : List Nat) : PEv → List Nat
  | .add a => if a ∈ l then l else l ++ [a]
  | .del a => l.filter (· != a)

def setRun : List Nat → List PEv → List Nat
  | l, [] => l
  | l, e :: rest => setRun (setStep l e) rest

theorem ptStep_atHash (hinj : Function.Injective hash) (old : Bool) {t : PTab} (h : AtHash hash t) (e : PEv) :
    AtHash hash (ptStep hash old t e) ∧ ptMembers (ptStep hash old t e) = setStep (ptMembers t) e := by
  cases e with
  | add a =>
    have hf := h.finds hinj a
    unfold ptFinds at hf
    simp only [ptStep, setStep, hf]
    by_cases ha : a ∈ ptMembers t
    · simp [ha, h]
    · simp only [ha, decide_false, Bool.false_eq_true, if_false]
      exact h.add hinj a ha
  | del a =>
    simp only [ptStep, setStep]
    cases hfa : t.find? (·.2 == a) with
    | none =>
      have := find_addr_none t a hfa
      refine ⟨h, ?_⟩
      simp only
      symm
      apply List.filter_eq_self.2
      intro x hx
      simp
      exact fun hxa => this (hxa ▸ hx)
    | some e =>
      obtain ⟨hem, hea⟩ := find_addr t a e hfa
      have hk : e.1 = hash a := by rw [h.key e hem, hea]
      have hfilt := h.filter_key (hash a)
      simp only [hk]
      cases old with
      | true =>
        have hg : ptGet t (hash a) = some a := by
          have hmem : a ∈ ptMembers t := List.mem_map.2 ⟨e, hem, hea⟩
          rw [h.get_hash hinj a, if_pos hmem]
        simp only [if_true]
        unfold ptRemoveOld
        simp only [hg, if_true]
        exact ⟨hfilt, members_filter_key hinj h a⟩
      | false =>
        simp only [Bool.false_eq_true, if_false]
        unfold ptRemoveKey
        rw [hfilt.closeGap]
        exact ⟨hfilt, members_filter_key hinj h a⟩

theorem ptRun_atHash (hinj : Function.Injective hash) (old : Bool) (evs : List PEv) : ∀ {t : PTab}, AtHash hash t →
    AtHash hash (ptRun hash old t evs) ∧ ptMembers (ptRun hash old t evs) = setRun (ptMembers t) evs := by
  induction evs with
  | nil => intro t h; exact ⟨h, rfl⟩
  | cons e rest ih =>
    intro t h
    obtain ⟨h1, h2⟩ := ptStep_atHash hinj old h e
    have := ih h1
    simp only [ptRun, setRun]
    rw [← h2]
    exact this

end Nng.Hostile
