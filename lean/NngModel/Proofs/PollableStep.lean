/- every step preserves the invariant; the invariant holds along every schedule -/
import NngModel.Proofs.PollableInvG
namespace Nng.Pollable

theorem inv_g {fixed : Bool} {s : State} (h : Inv fixed s) {i : Nat} {g : GPc} (ok : Bool)
    (hi : s.gs[i]? = some g) :
    Inv fixed ⟨(gstep fixed s.sh g ok).1, s.m1, s.m2, s.gs.set i (gstep fixed s.sh g ok).2⟩ := by
  have hload : (g = .idle ∨ g = .top) →
      Inv fixed ⟨s.sh, s.m1, s.m2, s.gs.set i (match s.sh.fds with | some p => .done (some p) | none => .open_)⟩ := by
    intro hg
    apply inv_gset h hi
    · cases hf : s.sh.fds <;> simp [GWf, hf]
    · rcases hg with rfl | rfl <;> cases s.sh.fds <;> rfl
    · intro _; cases s.sh.fds <;> rfl
    · intro w hw; rcases hg with rfl | rfl <;> simp [GPc.phase] at hw
  cases g with
  | idle => exact hload (Or.inl rfl)
  | top => exact hload (Or.inr rfl)
  | open_ =>
    cases ok with
    | true => exact inv_open h hi
    | false =>
      apply inv_gset h hi
      · simp [gstep, GWf]
      · rfl
      · intro _; rfl
      · intro w hw; simp [GPc.phase] at hw
  | cas p =>
    cases hf : s.sh.fds with
    | none =>
      have e : gstep fixed s.sh (.cas p) ok = ({ s.sh with fds := some p }, .ld p) := by simp [gstep, hf]
      rw [e]; exact inv_cas h hi hf
    | some q =>
      have e : gstep fixed s.sh (.cas p) ok = (s.sh, .close p) := by simp [gstep, hf]
      rw [e]
      apply inv_gset h hi
      · exact h.gwf i (.cas p) hi
      · rfl
      · intro _; rfl
      · intro w hw; simp [GPc.phase] at hw
  | ld p =>
    have hf : s.sh.fds = some p := h.gwf i _ hi
    cases hr : s.sh.raised with
    | true =>
      have e : gstep fixed s.sh (.ld p) ok = (s.sh, .act p true) := by simp [gstep, hr]
      rw [e]
      apply inv_gset h hi
      · exact hf
      · rfl
      · intro hp; simp [GPc.phase] at hp
      · intro w hw ha
        simp [GPc.phase] at hw; subst hw
        rw [hr] at ha ⊢
        exact allowed_ld_true ha
    | false =>
      cases fixed with
      | true =>
        have e : gstep true s.sh (.ld p) ok = (s.sh, .act p false) := by simp [gstep, hr]
        rw [e]
        apply inv_gset h hi
        · exact hf
        · rfl
        · intro hp; simp [GPc.phase] at hp
        · intro w hw ha
          simp [GPc.phase] at hw; subst hw
          rw [hr] at ha ⊢
          exact allowed_ld_false_fixed ha
      | false =>
        have e : gstep false s.sh (.ld p) ok = (s.sh, .done (some p)) := by simp [gstep, hr]
        rw [e]
        apply inv_gset h hi
        · exact hf
        · rfl
        · intro hp; simp [GPc.phase] at hp
        · intro w hw ha
          simp [GPc.phase] at hw; subst hw
          rw [hr] at ha ⊢
          exact allowed_ld_false_cur ha
  | act p r => exact inv_act h hi
  | chk p r =>
    have hf : s.sh.fds = some p := h.gwf i _ hi
    by_cases hr : s.sh.raised = r
    · have e : gstep fixed s.sh (.chk p r) ok = (s.sh, .done (some p)) := by simp [gstep, hr]
      rw [e]
      apply inv_gset h hi
      · exact hf
      · rfl
      · intro hp; simp [GPc.phase] at hp
      · intro w hw ha
        simp [GPc.phase] at hw; subst hw
        rw [hr] at ha ⊢
        exact allowed_chk_same ha
    · have e : gstep fixed s.sh (.chk p r) ok = (s.sh, .ld p) := by simp [gstep, hr]
      rw [e]
      apply inv_gset h hi
      · exact hf
      · rfl
      · intro hp; simp [GPc.phase] at hp
      · intro w hw ha
        simp [GPc.phase] at hw; subst hw
        exact allowed_chk_diff ha hr
  | close p => exact inv_close h hi
  | done r =>
    apply inv_gset h hi
    · exact h.gwf i _ hi
    · rfl
    · intro hp; exact hp
    · intro w hw; simp [GPc.phase] at hw

theorem inv_step {fixed : Bool} {s : State} (h : Inv fixed s) (c : Choice) : Inv fixed (step fixed s c) := by
  unfold step
  cases hc : c.tid with
  | m1 => exact inv_m1 h
  | m2 =>
    have e : mstep s.sh s.m2 = (s.sh, s.m2) := by rw [h.m2]; rfl
    simp only [e]
    have : (⟨s.sh, s.m1, s.m2, s.gs⟩ : State) = s := State.eta s
    rw [this]; exact h
  | g i =>
    simp only []
    cases hi : s.gs[i]? with
    | none => exact h
    | some g => exact inv_g h c.openOk hi

theorem inv_run {fixed : Bool} {s : State} (h : Inv fixed s) (sched : List Choice) :
    Inv fixed (run fixed s sched) := by
  induction sched generalizing s with
  | nil => exact h
  | cons c cs ih => exact ih (inv_step h c)

end Nng.Pollable
