/-
  "The lifecycle judge accepts every trace of the lifecycle model" (C14 / C10), part 5:
  the end of a step: the timers that fire (`fireTimers`, events `earm`) and the judge's
  end-of-step clauses (`quiescent`: nothing overdue).
-/
import NngModel.Proofs.LifeJudgeCloseEp
namespace Nng.LifeModel
open Nng.Life Nng.Generated
open Nng.LifeSpec (J JPipe JEp JSock upd put KU onOut quiescent)

def jClr (x : JEp) : JEp := { x with redialSince := none, acceptBy := none }

theorem onOut_earm (op : LOp) (j : J) (e : Nat) (x : JEp) (hx : j.eps.lookup e = some x) (hc : x.closed = false) :
    onOut op j (.earm e) = { j with eps := upd j.eps e jClr } := by
  simp only [onOut, hx, hc, Bool.false_eq_true, if_false]
  rfl

def clrAll (L : List Nat) (l : List (Nat × JEp)) : List (Nat × JEp) := L.foldl (fun acc i => upd acc i jClr) l

theorem clrAll_eq (L : List Nat) (l : List (Nat × JEp)) :
    clrAll L l = l.map fun (kx : Nat × JEp) => (kx.1, if kx.1 ∈ L then jClr kx.2 else kx.2) := by
  induction L generalizing l with
  | nil => simp [clrAll]
  | cons a L ih =>
    unfold clrAll at ih ⊢
    simp only [List.foldl_cons]
    rw [ih, Nng.LifeSpec.upd, List.map_map]
    apply List.map_congr_left
    intro kx _
    obtain ⟨k, x⟩ := kx
    simp only [Function.comp]
    by_cases h : k = a
    · subst h
      simp only [beq_self_eq_true, if_true, List.mem_cons, true_or]
      split <;> rfl
    · have : (k == a) = false := by simpa using h
      simp [this, h]

theorem earms_fold (op : LOp) (L : List Nat) (j : J)
    (h : ∀ i ∈ L, ∃ x, j.eps.lookup i = some x ∧ x.closed = false) :
    (L.map LOut.earm).foldl (onOut op) j = { j with eps := clrAll L j.eps } := by
  induction L generalizing j with
  | nil => rfl
  | cons a L ih =>
    obtain ⟨x, hx, hc⟩ := h a List.mem_cons_self
    simp only [List.map_cons, List.foldl_cons]
    rw [onOut_earm op j a x hx hc, ih]
    · rfl
    · intro i hi
      obtain ⟨y, hy, hyc⟩ := h i (List.mem_cons_of_mem _ hi)
      simp only [Nng.LifeSpec.lookup_upd, hy]
      by_cases hia : i = a
      · exact ⟨jClr y, by simp [hia], hyc⟩
      · exact ⟨y, by simp [hia], hyc⟩

/-- dialer_timer_cb / listener_timer_cb, case by case -/
theorem fireOne_cases (now : Nat) (orc : List Nat) (e : Ep) (h : EpInv e) :
    (fireOne now orc e = e ∧ ((fireOne now orc e).armed && !e.armed) = false) ∨
    (((fireOne now orc e).armed && !e.armed) = true ∧ e.closed = false ∧ e.dialer = true ∧ e.timer.isSome = true ∧
      fireOne now orc e = { e with timer := none, armed := true }) ∨
    (((fireOne now orc e).armed && !e.armed) = true ∧ e.closed = false ∧ e.dialer = false ∧
      fireOne now orc e = { e with cool := none, armed := true }) := by
  unfold fireOne
  cases hd : e.dialer with
  | true =>
    simp only [if_true]
    by_cases hf : timerFires now (orc.contains e.idx) e = true
    · right; left
      have hts : e.timer.isSome = true := by
        unfold timerFires at hf
        cases ht : e.timer with
        | none => rw [ht] at hf; simp at hf
        | some t => rfl
      obtain ⟨t, ht⟩ := Option.isSome_iff_exists.mp hts
      simp only [hf, if_true, h.timer_unarmed ht, Bool.not_false, Bool.and_self, true_and]
      exact ⟨h.timer_open ht, hts, trivial⟩
    · left; simp only [hf, Bool.false_eq_true, if_false]; simp
  | false =>
    simp only [Bool.false_eq_true, if_false]
    cases hc : e.cool with
    | none => left; simp
    | some dl =>
      simp only
      by_cases hge : now ≥ dl
      · right; right
        have hua : e.armed = false := by
          cases ha : e.armed with
          | false => rfl
          | true => have := (h.armed_excl ha).2.2; rw [hc] at this; cases this
        have hcl : e.closed = false := by
          cases hcl : e.closed with
          | false => rfl
          | true => have := (h.closed_idle hcl).2.2.1; rw [hc] at this; cases this
        simp [hge, hua, hcl]
      · left; simp [hge]


theorem fireTimers_W (orc : List Nat) (st : State) (h : W st) : W (fireTimers orc st).1 := by
  have hf := fun e => fireOne_frame st.now orc e
  exact W_mapEps st (fireOne st.now orc) h (fun x => (hf x).1) (fun x => (hf x).2.1) (fun x => (hf x).2.2.1)
      (fun x => (hf x).2.2.2.2.1)
      (fun x hx => ⟨fireOne_inv _ _ _ (h.epInv x hx).1, fireOne_time _ _ _ (h.epInv x hx).2⟩)

/-- the timers firing at the end of a step: only the judge's endpoint records change -/
theorem fire_core (S : SelE) (op : LOp) (orc : List Nat) (st : State) (j : J) (hw : W st) (heps : EpsRel S st j)
    (hS : ∀ e ∈ st.eps, S e.idx e.sock e.dialer = true → e.closed = true) :
    ∃ E' : List (Nat × JEp), (fireTimers orc st).2.foldl (onOut op) j = { j with eps := E' } ∧
      EpsRel S (fireTimers orc st).1 { j with eps := E' } := by
  let L := (st.eps.filter fun e => (fireOne st.now orc e).armed && !e.armed).map (·.idx)
  have houts : (fireTimers orc st).2 = L.map LOut.earm := by
    unfold fireTimers; simp only [L, List.map_map]; rfl
  have hmemL : ∀ e ∈ st.eps, (e.idx ∈ L ↔ ((fireOne st.now orc e).armed && !e.armed) = true) := by
    intro e he
    constructor
    · intro hm
      rcases List.mem_map.mp hm with ⟨e2, he2, hi⟩
      have hm2 := List.mem_filter.mp he2
      have : e2 = e := hw.idxE.unique hm2.1 he hi
      subst this; exact hm2.2
    · intro hf
      exact List.mem_map.mpr ⟨e, List.mem_filter.mpr ⟨he, hf⟩, rfl⟩
  have hfold := earms_fold op L j (by
    intro i hi
    rcases List.mem_map.mp hi with ⟨e, he, rfl⟩
    have hm := List.mem_filter.mp he
    obtain ⟨x, hx, hr⟩ := heps.fwd e hm.1
    refine ⟨x, hx, ?_⟩
    have hopen : e.closed = false := by
      rcases fireOne_cases st.now orc e (hw.epInv e hm.1).1 with ⟨_, hn⟩ | ⟨_, hc, _⟩ | ⟨_, hc, _⟩
      · rw [hm.2] at hn; cases hn
      · exact hc
      · exact hc
    rw [hr.closed, hopen]
    cases hs : S e.idx e.sock e.dialer with
    | false => rfl
    | true => have := hS e hm.1 hs; rw [hopen] at this; cases this)
  refine ⟨clrAll L j.eps, by rw [houts, hfold], ?_⟩
  refine heps.mapAll (fireOne st.now orc) (fun i x => if i ∈ L then jClr x else x) rfl (clrAll_eq L j.eps)
    (fun x => (fireOne_frame _ _ x).1) ?_
  intro e he x hx
  have hfr := fireOne_frame st.now orc e
  rcases fireOne_cases st.now orc e (hw.epInv e he).1 with ⟨heq, hn⟩ | ⟨hf, hc, hd, hts, heq⟩ | ⟨hf, hc, hd, heq⟩
  · have : ¬ e.idx ∈ L := by rw [hmemL e he, hn]; simp
    simp only [this, if_false]; rw [heq]; exact hx
  · have : e.idx ∈ L := (hmemL e he).mpr hf
    simp only [this, if_true]; rw [heq]
    have hb := hx.bg2 hd (Or.inl hts)
    constructor
    · exact hx.dialer
    · exact hx.sock
    · exact hx.closed
    · exact hx.cfg
    · exact hx.sync
    · intro _ _; show x.background = !e.userAio; rw [hb.1, hb.2]; rfl
    · intro _ ht
      rcases ht with ht | ht
      · cases ht
      · exact hx.bg2 hd (Or.inr ht)
    · intro _ t ht; cases ht
    · intro _ t ht; cases ht
  · have : e.idx ∈ L := (hmemL e he).mpr hf
    simp only [this, if_true]; rw [heq]
    constructor
    · exact hx.dialer
    · exact hx.sock
    · exact hx.closed
    · exact hx.cfg
    · exact hx.sync
    · intro hd'; rw [hd] at hd'; cases hd'
    · intro hd'; rw [hd] at hd'; cases hd'
    · intro _ t ht; cases ht
    · intro _ t ht; cases ht

theorem fire_sim (S : SelE) (op : LOp) (orc : List Nat) (st : State) (j : J) (h : Mid S st j)
    (hS : ∀ e ∈ st.eps, S e.idx e.sock e.dialer = true → e.closed = true) :
    Mid S (fireTimers orc st).1 ((fireTimers orc st).2.foldl (onOut op) j) ∧
    SameJ j ((fireTimers orc st).2.foldl (onOut op) j) := by
  obtain ⟨E', hE, hrel⟩ := fire_core S op orc st j h.w h.eps hS
  rw [hE]
  exact ⟨⟨fireTimers_W orc st h.w, h.pinv, h.lso, h.now, h.e14, h.e10, h.socks, hrel, h.pipes⟩, rfl, rfl, rfl, rfl, rfl⟩

def qP (j : J) : J :=
  match j.pipes.find? (fun (_, q) => q.preWait) with
    | some (i, _) => j.fail14 s!"pipe {i} reached its socket while ADD_PRE was registered but ADD_PRE was not delivered"
    | none => j

def qQ (j : J) : J :=
  match j.pipes.find? (fun (_, q) => q.postWait) with
    | some (i, _) =>
      j.fail14 s!"pipe {i} was started by the protocol while ADD_POST was registered but ADD_POST was not delivered"
    | none => j

def qA (j : J) : J :=
  match j.eps.find? (fun (_, x) => x.dialer && !x.closed &&
        match x.redialSince with | some t0 => decide ((j.now : Int) ≥ t0 + max x.cfgMax 0) | none => false) with
    | some (e, x) =>
      let waited := j.now - x.redialSince.getD 0
      j.fail14 s!"dialer {e} has not dialled again {waited} ms after losing its connection (largest reconnect time {x.cfgMax})"
    | none => j

def qB (j : J) : J :=
  match j.eps.find? (fun (_, x) => !x.dialer && !x.closed &&
        match x.acceptBy with | some t => decide (j.now ≥ t) | none => false) with
    | some (e, _) => j.fail14 s!"listener {e} stopped accepting"
    | none => j

def jSettle (j : J) : J := { j with socks := j.socks.map fun (kx : Nat × JSock) => (kx.1, { kx.2 with closedBefore := kx.2.closed }) }

theorem quiescent_sim (st : State) (j : J) (h : Mid noSel st j) (hf : AllFresh st) :
    quiescent j = jSettle j ∧ Mid noSel st (jSettle j) ∧ CB (jSettle j) := by
  have h1 : ∀ i x, (i, x) ∈ j.eps → (x.dialer && !x.closed &&
        match x.redialSince with | some t0 => decide ((j.now : Int) ≥ t0 + max x.cfgMax 0) | none => false) = false := by
    intro i x hx
    obtain ⟨e, he, hi, hr⟩ := h.eps.of_mem h.w hx
    cases hd : x.dialer with
    | false => rfl
    | true =>
      cases hc : x.closed with
      | true => rfl
      | false =>
        cases hrs : x.redialSince with
        | none => rfl
        | some t0 =>
          obtain ⟨b, hb⟩ := hr.redial hc t0 hrs
          have hfr := (hf e he).1 t0 b hb
          have hcap := (h.w.epInv e he).1.timer_cap t0 b hb
          rw [hr.cfg, h.now]
          simp only [Bool.not_false, Bool.and_self, Bool.true_and, decide_eq_false_iff_not]
          omega
  have h2 : ∀ i x, (i, x) ∈ j.eps → (!x.dialer && !x.closed &&
        match x.acceptBy with | some t => decide (j.now ≥ t) | none => false) = false := by
    intro i x hx
    obtain ⟨e, he, hi, hr⟩ := h.eps.of_mem h.w hx
    cases hd : x.dialer with
    | true => rfl
    | false =>
      cases hc : x.closed with
      | true => rfl
      | false =>
        cases hrs : x.acceptBy with
        | none => rfl
        | some t =>
          have hb := hr.accept hc t hrs
          have hfr := (hf e he).2 t hb
          rw [h.now]
          simp only [Bool.not_false, Bool.and_self, Bool.true_and, decide_eq_false_iff_not]
          omega
  have hqa : qA j = j := by
    unfold qA
    split
    · rename_i e x heq
      have hm := List.mem_of_find?_eq_some heq
      have hp := List.find?_some heq
      simp only at hp
      rw [h1 e x hm] at hp; cases hp
    · rfl
  have hqb : qB j = j := by
    unfold qB
    split
    · rename_i e x heq
      have hm := List.mem_of_find?_eq_some heq
      have hp := List.find?_some heq
      simp only at hp
      rw [h2 e x hm] at hp; cases hp
    · rfl
  -- between the steps no notification is owed
  have hqp : qP j = j := by
    unfold qP
    split
    · rename_i i q heq
      have hm := List.mem_of_find?_eq_some heq
      have hp := List.find?_some heq
      rw [h.pipes] at hm
      rcases List.mem_map.mp hm with ⟨p, _, hpq⟩
      cases hpq
      cases hp
    · rfl
  have hqq : qQ j = j := by
    unfold qQ
    split
    · rename_i i q heq
      have hm := List.mem_of_find?_eq_some heq
      have hp := List.find?_some heq
      rw [h.pipes] at hm
      rcases List.mem_map.mp hm with ⟨p, _, hpq⟩
      cases hpq
      cases hp
    · rfl
  have hq : quiescent j = jSettle j := by
    have : quiescent j = jSettle (qB (qA (qQ (qP j)))) := rfl
    rw [this, hqp, hqq, hqa, hqb]
  have hl : ∀ s, (jSettle j).socks.lookup s = (j.socks.lookup s).map fun x => { x with closedBefore := x.closed } := by
    intro s
    exact Nng.LifeSpec.lookup_mapval j.socks (fun _ x => { x with closedBefore := x.closed }) s
  refine ⟨hq, ⟨h.w, h.pinv, h.lso, h.now, h.e14, h.e10, ?_, h.eps.congr rfl rfl, h.pipes⟩, ?_⟩
  · intro s
    have := h.socks s
    rw [hl s]
    constructor
    · intro hn
      apply this.unopened
      cases hlk : j.socks.lookup s with
      | none => rfl
      | some x => rw [hlk] at hn; cases hn
    · intro x hx
      cases hlk : j.socks.lookup s with
      | none => rw [hlk] at hx; cases hx
      | some y =>
        rw [hlk] at hx
        simp only [Option.map_some, Option.some.injEq] at hx
        subst hx
        exact this.opened y hlk
  · intro s x hx
    rw [hl s] at hx
    cases hlk : j.socks.lookup s with
    | none => rw [hlk] at hx; cases hx
    | some y =>
      rw [hlk] at hx
      simp only [Option.map_some, Option.some.injEq] at hx
      subst hx
      rfl


end Nng.LifeModel
