/- control invariants of Model/Reap.lean (reap.c): reap_empty, the sleepers and the global list -/
import NngModel.Model.Reap
namespace Nng.Reap

theorem findBatch_some {lists : List RList} {pos : List Nat} {l : Nat} {b : List Node} {rest : List Nat}
    (h : findBatch lists pos = some (l, b, rest)) :
    ∃ rl, lists[l]? = some rl ∧ rl.nodes = b ∧ b ≠ [] := by
  induction pos with
  | nil => simp [findBatch] at h
  | cons a pos ih =>
    unfold findBatch at h
    cases hl : lists[a]? with
    | none => rw [hl] at h; exact ih h
    | some rl =>
      rw [hl] at h; dsimp only at h
      by_cases he : rl.nodes.isEmpty = true
      · rw [if_pos he] at h; exact ih h
      · rw [if_neg he] at h
        simp only [Option.some.injEq, Prod.mk.injEq] at h
        obtain ⟨h1, h2, _⟩ := h
        subst h1; subst h2
        exact ⟨rl, hl, rfl, by intro hn; simp [hn] at he⟩

theorem findBatch_none {lists : List RList} {pos : List Nat} (h : findBatch lists pos = none) :
    ∀ l ∈ pos, ∀ rl, lists[l]? = some rl → rl.nodes = [] := by
  induction pos with
  | nil => intro l hl; simp at hl
  | cons a pos ih =>
    unfold findBatch at h
    intro l hl rl hrl
    cases hla : lists[a]? with
    | none =>
      rw [hla] at h
      rcases List.mem_cons.mp hl with rfl | hm
      · rw [hla] at hrl; cases hrl
      · exact ih h l hm rl hrl
    | some ra =>
      rw [hla] at h; dsimp only at h
      by_cases he : ra.nodes.isEmpty = true
      · rw [if_pos he] at h
        rcases List.mem_cons.mp hl with rfl | hm
        · rw [hla] at hrl; cases hrl; simpa using he
        · exact ih h l hm rl hrl
      · rw [if_neg he] at h; cases h

structure Inv (s : State) : Prop where
  /-- reap_empty ⇒ nothing queued and the worker holds no batch -/
  emptyIdle : s.empty = true → (∀ rl ∈ s.lists, rl.nodes = []) ∧ s.worker.idle = true
  /-- the worker sleeps (not yet woken) only with reap_empty set and reap_exit clear -/
  asleep : s.worker = .asleep false → s.empty = true ∧ s.exit = false
  /-- a drainer sleeps (not yet woken) only while reap_empty is clear -/
  drainS : ∀ p, Client.drainSleep false p ∈ s.clients → s.empty = false
  finExit : s.worker = .fin → s.exit = true
  joinExit : ∀ p, Client.joining p ∈ s.clients → s.exit = true
  /-- a list that holds nodes or was ever used is on the global list -/
  linked : ∀ l rl, s.lists[l]? = some rl → (rl.nodes ≠ [] ∨ rl.inited = true) → l ∈ s.order

theorem inv_init (nl : Nat) (progs : List (List Op)) : Inv (init nl progs) := by
  refine ⟨?_, ?_, ?_, ?_, ?_, ?_⟩ <;> simp [init]
  · intro l rl h
    simp [List.getElem?_replicate] at h
    obtain ⟨_, h2⟩ := h; subst h2; simp

theorem wakeWorker_idle (w : Worker) : (wakeWorker w).idle = w.idle := by cases w <;> rfl
theorem wakeWorker_ne_asleep (w : Worker) : wakeWorker w ≠ .asleep false := by cases w <;> simp [wakeWorker]
theorem wakeWorker_fin {w : Worker} (h : wakeWorker w = .fin) : w = .fin := by cases w <;> simp_all [wakeWorker]

theorem reapBody_inv {s : State} (hi : Inv s) (l : Nat) (n : Node) : Inv (reapBody s l n) := by
  unfold reapBody
  cases hl : s.lists[l]? with
  | none => exact hi
  | some rl =>
    refine ⟨?_, ?_, ?_, ?_, ?_, ?_⟩
    · intro h; simp at h
    · intro h; exact absurd h (wakeWorker_ne_asleep _)
    · intro p _; rfl
    · intro h; exact hi.finExit (wakeWorker_fin h)
    · intro p hp; exact hi.joinExit p hp
    · intro j rj hj hor
      simp only [List.getElem?_set] at hj
      by_cases hjl : l = j
      · subst hjl
        by_cases hin : rl.inited = true
        · simp only [hin, if_true]; exact hi.linked l rl hl (Or.inr hin)
        · simp [hin]
      · rw [if_neg hjl] at hj
        have := hi.linked j rj hj hor
        by_cases hin : rl.inited = true
        · simpa [hin] using this
        · simp only [hin]; exact List.mem_cons_of_mem _ this

/-- replacing the worker of a state whose worker is busy by another busy worker -/
theorem inv_setWorker {s : State} (hi : Inv s) (hb : s.worker.idle = false) (w : Worker) (hw : w.idle = false) :
    Inv { s with worker := w } := by
  have he : s.empty = false := by
    cases h : s.empty with
    | false => rfl
    | true => have := (hi.emptyIdle h).2; rw [hb] at this; cases this
  refine ⟨?_, ?_, ?_, ?_, ?_, ?_⟩
  · intro h; simp [he] at h
  · intro h; simp at h; subst h; cases hw
  · exact hi.drainS
  · intro h; simp at h; subst h; cases hw
  · exact hi.joinExit
  · exact hi.linked

theorem afterNode_busy (rest : List Node) (pos : List Nat) : (afterNode rest pos).idle = false := by
  unfold afterNode; split <;> rfl

theorem clearList_get (lists : List RList) (l j : Nat) (rj : RList) (h : (clearList lists l)[j]? = some rj) :
    ∃ r0, lists[j]? = some r0 ∧ r0.inited = rj.inited ∧ (rj.nodes ≠ [] → r0.nodes ≠ []) := by
  unfold clearList at h
  cases hl : lists[l]? with
  | none => rw [hl] at h; exact ⟨rj, h, rfl, id⟩
  | some rl =>
    rw [hl] at h
    simp only [List.getElem?_set] at h
    by_cases hjl : l = j
    · subst hjl
      rw [if_pos rfl] at h
      split at h
      · cases h; exact ⟨rl, hl, rfl, by intro hh; simp at hh⟩
      · cases h
    · rw [if_neg hjl] at h; exact ⟨rj, h, rfl, id⟩

theorem take_inv {s : State} (hi : Inv s) {pos : List Nat} {l : Nat} {b : List Node} {rest : List Nat}
    (h : findBatch s.lists pos = some (l, b, rest)) :
    Inv { s with lists := clearList s.lists l, worker := .run b rest } := by
  obtain ⟨rl, hrl, hb, hne⟩ := findBatch_some h
  have he : s.empty = false := by
    cases h : s.empty with
    | false => rfl
    | true =>
      have := (hi.emptyIdle h).1 rl (List.mem_of_getElem? hrl)
      rw [hb] at this; exact absurd this hne
  refine ⟨?_, ?_, ?_, ?_, ?_, ?_⟩
  · intro h; simp [he] at h
  · intro h; simp at h
  · exact hi.drainS
  · intro h; simp at h
  · exact hi.joinExit
  · intro j rj hj hor
    obtain ⟨r0, h0, hin, hn⟩ := clearList_get s.lists l j rj hj
    refine hi.linked j r0 h0 ?_
    rcases hor with h1 | h1
    · exact Or.inl (hn h1)
    · exact Or.inr (by rw [hin]; exact h1)

theorem wakeDrainer_ne (c : Client) (p : List Op) : wakeDrainer c ≠ .drainSleep false p := by
  cases c <;> simp [wakeDrainer]
theorem wakeDrainer_joining {c : Client} {p : List Op} (h : wakeDrainer c = .joining p) : c = .joining p := by
  cases c <;> simp_all [wakeDrainer]

theorem passEmpty_inv {s : State} (hi : Inv s) (h : findBatch s.lists s.order = none) : Inv (passEmpty s) := by
  have hall : ∀ rl ∈ s.lists, rl.nodes = [] := by
    intro rl hrl
    obtain ⟨l, hl⟩ := List.getElem?_of_mem hrl
    cases hn : rl.nodes with
    | nil => rfl
    | cons a t =>
      have hm := hi.linked l rl hl (Or.inl (by rw [hn]; simp))
      have := findBatch_none h l hm rl hl
      rw [hn] at this; cases this
  unfold passEmpty
  refine ⟨?_, ?_, ?_, ?_, ?_, ?_⟩
  · intro _; refine ⟨hall, ?_⟩
    show (if s.exit = true then Worker.fin else Worker.asleep false).idle = true
    split <;> rfl
  · intro hw
    refine ⟨rfl, ?_⟩
    have hw : (if s.exit = true then Worker.fin else Worker.asleep false) = .asleep false := hw
    cases he : s.exit with
    | false => rfl
    | true => rw [he] at hw; simp at hw
  · intro p hp
    have hp : Client.drainSleep false p ∈ s.clients.map wakeDrainer := hp
    obtain ⟨c, _, hc⟩ := List.mem_map.mp hp
    exact absurd hc (wakeDrainer_ne c p)
  · intro hw
    have hw : (if s.exit = true then Worker.fin else Worker.asleep false) = .fin := hw
    cases he : s.exit with
    | true => rfl
    | false => rw [he] at hw; simp at hw
  · intro p hp
    have hp : Client.joining p ∈ s.clients.map wakeDrainer := hp
    obtain ⟨c, hc, hcp⟩ := List.mem_map.mp hp
    rw [wakeDrainer_joining hcp] at hc
    exact hi.joinExit p hc
  · exact hi.linked

theorem scan_top_inv {s : State} (hi : Inv s) : Inv (scan s s.order false) := by
  unfold scan
  cases h : findBatch s.lists s.order with
  | some t => obtain ⟨l, b, rest⟩ := t; exact take_inv hi h
  | none => simp only [Bool.false_eq_true, if_false]; exact passEmpty_inv hi h

theorem scan_relock_inv {s : State} (hi : Inv s) (pos : List Nat) : Inv (scan s pos true) := by
  unfold scan
  cases h : findBatch s.lists pos with
  | some t => obtain ⟨l, b, rest⟩ := t; exact take_inv hi h
  | none =>
    simp only [if_true]
    cases h2 : findBatch s.lists s.order with
    | some t => obtain ⟨l, b, rest⟩ := t; exact take_inv hi h2
    | none => exact passEmpty_inv hi h2

/-- ghost fields do not matter to `Inv` -/
theorem inv_ghost {s : State} (hi : Inv s) (sb dn fn : List Nat) (r : List (List Bool)) :
    Inv { s with subm := sb, done := dn, fin := fn, res := r } :=
  ⟨hi.emptyIdle, hi.asleep, hi.drainS, hi.finExit, hi.joinExit, hi.linked⟩

theorem workerStep_inv {s : State} (hi : Inv s) : Inv (workerStep s) := by
  unfold workerStep
  split
  · exact scan_top_inv hi
  · exact scan_top_inv hi
  · exact hi
  · exact hi
  · exact scan_relock_inv hi _
  · next pos hw => exact inv_setWorker hi (by rw [hw]; rfl) _ rfl
  · next n rest pos hw =>
    split
    · exact inv_ghost (inv_setWorker hi (by rw [hw]; rfl) _ (afterNode_busy rest pos)) s.subm _ _ s.res
    · next l c _ => exact inv_ghost (inv_setWorker hi (by rw [hw]; rfl) (.nest n.id l c rest pos) rfl) s.subm _ s.fin s.res
  · next id l c rest pos hw =>
    have h1 := reapBody_inv (inv_setWorker hi (by rw [hw]; rfl) _ (afterNode_busy rest pos)) l { id := c }
    exact inv_ghost h1 _ _ _ _

/-- replacing one client by one that is neither asleep-unwoken in drain nor joining -/
theorem inv_setClient {s : State} (hi : Inv s) (i : Nat) (c : Client)
    (hd : ∀ p, c = .drainSleep false p → s.empty = false) (hj : ∀ p, c = .joining p → s.exit = true) :
    Inv { s with clients := s.clients.set i c } := by
  refine ⟨hi.emptyIdle, hi.asleep, ?_, hi.finExit, ?_, hi.linked⟩
  · intro p hp
    rcases List.mem_or_eq_of_mem_set hp with h | h
    · exact hi.drainS p h
    · exact hd p h.symm
  · intro p hp
    rcases List.mem_or_eq_of_mem_set hp with h | h
    · exact hi.joinExit p h
    · exact hj p h.symm

theorem clientStep_inv {s : State} (hi : Inv s) (i : Nat) : Inv (clientStep s i) := by
  unfold clientStep
  split
  · exact hi
  · exact hi
  · next l n p _ =>
    have h1 := reapBody_inv hi l n
    exact inv_setClient h1 i _ (by intro p h; cases h) (by intro p h; cases h)
  · next p _ =>
    split
    · exact inv_ghost (inv_setClient hi i _ (by intro p h; cases h) (by intro p h; cases h)) s.subm s.done s.fin _
    · next he => exact inv_setClient hi i _ (by intro _ _; simpa using he) (by intro p h; cases h)
  · next p _ =>
    have h0 : Inv { s with exit := true, worker := wakeWorker s.worker } := by
      refine ⟨?_, ?_, hi.drainS, ?_, ?_, hi.linked⟩
      · intro h; have := hi.emptyIdle h; exact ⟨this.1, by simp [wakeWorker_idle, this.2]⟩
      · intro h; exact absurd h (wakeWorker_ne_asleep _)
      · intro _; rfl
      · intro _ _; rfl
    exact inv_setClient h0 i _ (by intro p h; cases h) (by intro _ _; rfl)
  · exact hi
  · next p _ =>
    split
    · exact inv_ghost (inv_setClient hi i _ (by intro p h; cases h) (by intro p h; cases h)) s.subm s.done s.fin _
    · next he => exact inv_setClient hi i _ (by intro _ _; simpa using he) (by intro p h; cases h)
  · next p _ =>
    split
    · exact inv_setClient hi i _ (by intro p h; cases h) (by intro p h; cases h)
    · exact hi

theorem step_inv {s : State} (hi : Inv s) (t : Tid) : Inv (step s t) := by
  cases t with
  | w => exact workerStep_inv hi
  | c i => exact clientStep_inv hi i

theorem run_inv {s : State} (hi : Inv s) (sched : List Tid) : Inv (run s sched) := by
  induction sched generalizing s with
  | nil => exact hi
  | cons t r ih => exact ih (step_inv hi t)

end Nng.Reap
