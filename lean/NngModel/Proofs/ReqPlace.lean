/-
  Second inductive invariant of the REQ model: where a context with a request lives (send queue,
  pipe lists, retry list), no-duplicate / disjointness facts about those lists, the transmission
  counter with resending disabled, the ghost ownership state of the retained request, and the
  log of wire transmissions.  Preserved by every step (`inv2_step`).
-/
import NngModel.Model.Req
namespace Nng.Req
open Nng Nng.Proto

/-- number of pipes below `n` whose transport holds a reference to message `h` -/
def busyCnt (f : Nat → Pipe) : Nat → Nat → Nat
  | 0, _ => 0
  | n + 1, h => busyCnt f n h + (if (f n).busy = some h then 1 else 0)

/-- the fields of the state the invariant talks about -/
structure View where
  opened : Bool
  readyPipes : List Nat
  sendQueue : List Nat
  retryQueue : List Nat
  npipes : Nat
  nalloc : Nat
  pipe : Nat → Pipe
  ctx : Nat → Ctx
  msgs : Nat → MsgObj
  retryActive : Bool
  sClosed : Bool
  tickAt : Option Nat
  tickNever : Bool
  bad : Option String
  wire : List (Nat × Nat × Bytes)

def view (s : State) : View :=
  { opened := s.opened, readyPipes := s.readyPipes, sendQueue := s.sendQueue, retryQueue := s.retryQueue,
    npipes := s.npipes, nalloc := s.nalloc, pipe := s.pipe, ctx := s.ctx, msgs := s.msgs,
    retryActive := s.retryActive, sClosed := s.sClosed, tickAt := s.tickAt, tickNever := s.tickNever,
    bad := s.bad, wire := s.wire }

/-- `y`: the pipe whose context list is being drained by req0_pipe_close (it is already marked
    closed but may still list contexts); `x`: the context that is between two lists in the middle
    of a callback -/
structure InvV (y x : Option Nat) (s : View) : Prop where
  -- pipes
  ready_nodup : s.readyPipes.Nodup
  ready_ok : ∀ p, p ∈ s.readyPipes → p < s.npipes ∧ (s.pipe p).closed = false ∧ (s.pipe p).busy = none
  out_pipe : ∀ p, s.npipes ≤ p → (s.pipe p).busy = none ∧ (s.pipe p).ctxs = []
  closed_pipe : ∀ p, some p ≠ y → (s.pipe p).closed = true → (s.pipe p).ctxs = []
  closing : ∀ p, some p = y → (s.pipe p).closed = true
  -- lists
  sq_nodup : s.sendQueue.Nodup
  rq_nodup : s.retryQueue.Nodup
  pc_nodup : ∀ p, (s.pipe p).ctxs.Nodup
  pc_uniq : ∀ p q k, k ∈ (s.pipe p).ctxs → k ∈ (s.pipe q).ctxs → p = q
  -- where a request lives
  sq_req : ∀ k, k ∈ s.sendQueue → (s.ctx k).reqMsg.isSome = true
  place : ∀ k, some k ≠ x → (s.ctx k).reqMsg.isSome = true → k ∈ s.sendQueue ∨ ∃ p, k ∈ (s.pipe p).ctxs
  rq_place : ∀ k, some k ≠ x → (s.ctx k).reqMsg.isSome = true → 0 < (s.ctx k).retryAtSend → k ∈ s.retryQueue
  rq_active : ∀ k, (s.ctx k).reqMsg.isSome = true → 0 < (s.ctx k).retryAtSend → s.retryActive = true
  timer : s.sClosed = false → s.retryActive = true → s.tickAt.isSome = true ∨ s.tickNever = true
  -- resending disabled
  ever1 : ∀ k, (s.ctx k).reqMsg.isSome = true → 0 < (s.ctx k).retry → (s.ctx k).everRetry = true
  ever2 : ∀ k, k ∈ s.retryQueue → (s.ctx k).reqMsg.isSome = true → (s.ctx k).everRetry = true
  sq_cnt : ∀ k, k ∈ s.sendQueue → (s.ctx k).everRetry = true ∨ (s.ctx k).wireCount = 0
  cnt1 : ∀ k, (s.ctx k).everRetry = false → (s.ctx k).wireCount ≤ 1
  -- ownership of the retained request
  nobad : s.bad = none
  req_id : ∀ k h, (s.ctx k).reqMsg = some h → (s.ctx k).requestId = h ∧ h ≠ 0 ∧ h ≤ s.nalloc
  req_uniq : ∀ k k' h, (s.ctx k).reqMsg = some h → (s.ctx k').reqMsg = some h → k = k'
  held : ∀ k h, (s.ctx k).reqMsg = some h → (s.msgs h).ctxRef = true
  owner : ∀ h, (s.msgs h).ctxRef = true → ∃ k, (s.ctx k).reqMsg = some h
  tran : ∀ h, (s.msgs h).tranRefs = busyCnt s.pipe s.npipes h
  busy_le : ∀ p h, (s.pipe p).busy = some h → h ≤ s.nalloc
  once : ∀ h, (s.msgs h).ctxFrees + (s.msgs h).returned.toNat ≤ 1 ∧
    ((s.msgs h).ctxRef = true → (s.msgs h).ctxFrees = 0 ∧ (s.msgs h).returned = false)
  -- wire log
  wire_body : ∀ x, x ∈ s.wire → x.2.1 ≤ s.nalloc ∧ x.2.1 ≠ 0 ∧ (s.msgs x.2.1).body = x.2.2
  unopened : s.opened = false → ∀ k, (s.ctx k).reqMsg = none

abbrev Inv2 (y x : Option Nat) (s : State) : Prop := InvV y x (view s)

/-- close the goals of `constructor` that are literally clauses of `h` -/
macro "frame" h:ident : tactic => `(tactic| all_goals first
  | exact ($h).ready_nodup | exact ($h).ready_ok | exact ($h).out_pipe | exact ($h).closed_pipe | exact ($h).closing
  | exact ($h).sq_nodup | exact ($h).rq_nodup | exact ($h).pc_nodup | exact ($h).pc_uniq
  | exact ($h).sq_req | exact ($h).place | exact ($h).rq_place | exact ($h).rq_active | exact ($h).timer
  | exact ($h).ever1 | exact ($h).ever2 | exact ($h).sq_cnt | exact ($h).cnt1
  | exact ($h).nobad | exact ($h).req_id | exact ($h).req_uniq | exact ($h).held | exact ($h).owner
  | exact ($h).tran | exact ($h).busy_le | exact ($h).once | exact ($h).wire_body | exact ($h).unopened | skip)

/-! ### counting transport references -/

theorem busyCnt_congr (f g : Nat → Pipe) (n h : Nat) (e : ∀ p, p < n → (g p).busy = (f p).busy) :
    busyCnt g n h = busyCnt f n h := by
  induction n with
  | zero => rfl
  | succ n ih => simp only [busyCnt]; rw [ih (fun p hp => e p (by omega)), e n (by omega)]

theorem busyCnt_none (f : Nat → Pipe) (n h : Nat) (hf : ∀ p, p < n → (f p).busy ≠ some h) : busyCnt f n h = 0 := by
  induction n with
  | zero => rfl
  | succ n ih =>
    simp only [busyCnt]
    rw [ih (fun p hp => hf p (by omega)), if_neg (hf n (by omega))]

/-- changing one pipe below `n` -/
theorem busyCnt_upd (f g : Nat → Pipe) (n p h : Nat) (hp : p < n) (e : ∀ q, q ≠ p → (g q).busy = (f q).busy) :
    busyCnt g n h + (if (f p).busy = some h then 1 else 0) = busyCnt f n h + (if (g p).busy = some h then 1 else 0) := by
  induction n with
  | zero => omega
  | succ n ih =>
    simp only [busyCnt]
    by_cases hn : p = n
    · subst hn
      rw [busyCnt_congr f g p h (fun q hq => e q (by omega))]
      omega
    · have := ih (by omega)
      rw [e n (fun e' => hn e'.symm)]
      omega

theorem busyCnt_pos (f : Nat → Pipe) (n p h : Nat) (hp : p < n) (hb : (f p).busy = some h) : 0 < busyCnt f n h := by
  induction n with
  | zero => omega
  | succ n ih =>
    simp only [busyCnt]
    by_cases hn : p = n
    · subst hn; rw [if_pos hb]; omega
    · have := ih (by omega); omega

theorem inv2_init : Inv2 none none ({} : State) := by
  constructor <;> simp [view]
  intro h
  exact (busyCnt_none _ _ _ (by simp)).symm

theorem InvV.weaken {y : Option Nat} {v : View} (k : Nat) (h : InvV y none v) : InvV y (some k) v :=
  { h with place := fun k' _ => h.place k' (by simp), rq_place := fun k' _ => h.rq_place k' (by simp) }

theorem InvV.strengthen {y : Option Nat} {v : View} (k : Nat) (h : InvV y (some k) v)
    (hk : (v.ctx k).reqMsg.isSome = true → k ∈ v.sendQueue ∨ ∃ p, k ∈ (v.pipe p).ctxs)
    (hk2 : (v.ctx k).reqMsg.isSome = true → 0 < (v.ctx k).retryAtSend → k ∈ v.retryQueue) : InvV y none v :=
  { h with
    place := fun k' _ hr => (by
      by_cases e : k' = k
      · subst e; exact hk hr
      · exact h.place k' (by simpa using e) hr)
    rq_place := fun k' _ hr => (by
      by_cases e : k' = k
      · subst e; exact hk2 hr
      · exact h.rq_place k' (by simpa using e) hr) }

/-! ### abstract updates -/

/-- lists lose entries (only `k` may disappear) -/
theorem invV_shrink {y : Option Nat} {v : View} (k : Nat) (sq' rq' : List Nat) (pipe' : Nat → Pipe)
    (h : InvV y (some k) v)
    (sq_sub : List.Sublist sq' v.sendQueue) (sq_mem : ∀ k', k' ≠ k → k' ∈ v.sendQueue → k' ∈ sq')
    (rq_sub : List.Sublist rq' v.retryQueue) (rq_mem : ∀ k', k' ≠ k → k' ∈ v.retryQueue → k' ∈ rq')
    (pb : ∀ q, (pipe' q).busy = (v.pipe q).busy) (pcl : ∀ q, (pipe' q).closed = (v.pipe q).closed)
    (psub : ∀ q, List.Sublist (pipe' q).ctxs (v.pipe q).ctxs)
    (pmem : ∀ q k', k' ≠ k → k' ∈ (v.pipe q).ctxs → k' ∈ (pipe' q).ctxs) :
    InvV y (some k) { v with sendQueue := sq', retryQueue := rq', pipe := pipe' } := by
  constructor <;> dsimp only
  frame h
  case ready_ok => intro p hp; rw [pcl, pb]; exact h.ready_ok p hp
  case out_pipe =>
    intro p hp
    obtain ⟨a, b⟩ := h.out_pipe p hp
    have := psub p
    rw [b] at this
    exact ⟨by rw [pb]; exact a, List.eq_nil_of_sublist_nil this⟩
  case closed_pipe =>
    intro p hp hc
    rw [pcl] at hc
    have := psub p
    rw [h.closed_pipe p hp hc] at this
    exact List.eq_nil_of_sublist_nil this
  case closing => intro p hp; rw [pcl]; exact h.closing p hp
  case sq_nodup => exact h.sq_nodup.sublist sq_sub
  case rq_nodup => exact h.rq_nodup.sublist rq_sub
  case pc_nodup => intro p; exact (h.pc_nodup p).sublist (psub p)
  case pc_uniq => intro p q k' h1 h2; exact h.pc_uniq p q k' ((psub p).subset h1) ((psub q).subset h2)
  case sq_req => intro k' hk; exact h.sq_req k' (sq_sub.subset hk)
  case place =>
    intro k' hx hr
    have hne : k' ≠ k := fun e => hx (by rw [e])
    rcases h.place k' hx hr with h1 | ⟨p, h1⟩
    · exact Or.inl (sq_mem k' hne h1)
    · exact Or.inr ⟨p, pmem p k' hne h1⟩
  case rq_place =>
    intro k' hx hr ha
    have hne : k' ≠ k := fun e => hx (by rw [e])
    exact rq_mem k' hne (h.rq_place k' hx hr ha)
  case ever2 => intro k' hk; exact h.ever2 k' (rq_sub.subset hk)
  case sq_cnt => intro k' hk; exact h.sq_cnt k' (sq_sub.subset hk)
  case tran => intro hh; rw [h.tran hh]; exact (busyCnt_congr _ _ _ _ (fun p _ => pb p)).symm
  case busy_le => intro p hh hb; rw [pb] at hb; exact h.busy_le p hh hb

def releaseObj (m : MsgObj) (back : Bool) : MsgObj :=
  if back then { m with ctxRef := false, returned := true }
  else { m with ctxRef := false, ctxFrees := m.ctxFrees + 1 }

def releaseMsgs (v : View) (k : Nat) (back : Bool) : Nat → MsgObj :=
  match (v.ctx k).reqMsg with
  | some h => upd v.msgs h (releaseObj (v.msgs h) back)
  | none => v.msgs

/-- context `k` (on no send queue) gives up its request: the context's reference is released or
    handed back -/
theorem invV_dropReq {y : Option Nat} {v : View} (k : Nat) (back : Bool) (c' : Ctx)
    (h : InvV y (some k) v) (hq : k ∉ v.sendQueue) (hc : c'.reqMsg = none)
    (hcnt : c'.everRetry = false → c'.wireCount ≤ 1) :
    InvV y none { v with msgs := releaseMsgs v k back, ctx := upd v.ctx k c' } := by
  have hctx : ∀ k', k' ≠ k → upd v.ctx k c' k' = v.ctx k' := fun k' e => upd_other _ _ _ _ e
  have hsome : ∀ k', (upd v.ctx k c' k').reqMsg.isSome = true → k' ≠ k := by
    intro k' hr e; subst e; simp [hc] at hr
  have hsome' : ∀ k' hh, (upd v.ctx k c' k').reqMsg = some hh → k' ≠ k := by
    intro k' hh hr e; subst e; simp [hc] at hr
  -- messages: only the released one changes, and only in its context reference
  have mtr : ∀ hh, (releaseMsgs v k back hh).tranRefs = (v.msgs hh).tranRefs ∧ (releaseMsgs v k back hh).body = (v.msgs hh).body := by
    intro hh
    unfold releaseMsgs
    cases (v.ctx k).reqMsg with
    | none => exact ⟨rfl, rfl⟩
    | some h0 =>
      dsimp only
      by_cases e : hh = h0
      · subst e; simp only [upd_same, releaseObj]; split <;> exact ⟨rfl, rfl⟩
      · rw [upd_other _ _ _ _ e]; exact ⟨rfl, rfl⟩
  have mother : ∀ hh, (v.ctx k).reqMsg ≠ some hh → releaseMsgs v k back hh = v.msgs hh := by
    intro hh hne
    unfold releaseMsgs
    cases hm : (v.ctx k).reqMsg with
    | none => rfl
    | some h0 => dsimp only; rw [upd_other]; intro e; subst e; exact hne hm
  have mself : ∀ hh, (v.ctx k).reqMsg = some hh → releaseMsgs v k back hh = releaseObj (v.msgs hh) back := by
    intro hh hm
    unfold releaseMsgs
    rw [hm]; simp
  constructor <;> dsimp only
  frame h
  case sq_req =>
    intro k' hk
    have e : k' ≠ k := fun e => hq (e ▸ hk)
    rw [hctx k' e]; exact h.sq_req k' hk
  case place =>
    intro k' _ hr
    have e := hsome k' hr
    rw [hctx k' e] at hr
    exact h.place k' (by simpa using e) hr
  case rq_place => intro k' _ hr; have e := hsome k' hr; rw [hctx k' e] at hr ⊢; exact h.rq_place k' (by simpa using e) hr
  case rq_active => intro k' hr; have e := hsome k' hr; rw [hctx k' e] at hr ⊢; exact h.rq_active k' hr
  case ever1 => intro k' hr; have e := hsome k' hr; rw [hctx k' e] at hr ⊢; exact h.ever1 k' hr
  case ever2 => intro k' hk hr; have e := hsome k' hr; rw [hctx k' e] at hr ⊢; exact h.ever2 k' hk hr
  case sq_cnt =>
    intro k' hk
    have e : k' ≠ k := fun e => hq (e ▸ hk)
    rw [hctx k' e]; exact h.sq_cnt k' hk
  case cnt1 =>
    intro k'
    by_cases e : k' = k
    · subst e; rw [upd_same]; exact hcnt
    · rw [hctx k' e]; exact h.cnt1 k'
  case req_id => intro k' hh hr; have e := hsome' k' hh hr; rw [hctx k' e] at hr ⊢; exact h.req_id k' hh hr
  case req_uniq =>
    intro k1 k2 hh h1 h2
    have e1 := hsome' k1 hh h1; have e2 := hsome' k2 hh h2
    rw [hctx k1 e1] at h1; rw [hctx k2 e2] at h2
    exact h.req_uniq k1 k2 hh h1 h2
  case held =>
    intro k' hh hr
    have e := hsome' k' hh hr
    rw [hctx k' e] at hr
    rw [mother hh (fun hm => e (h.req_uniq k' k hh hr hm))]
    exact h.held k' hh hr
  case owner =>
    intro hh hr
    by_cases hm : (v.ctx k).reqMsg = some hh
    · rw [mself hh hm] at hr
      unfold releaseObj at hr; split at hr <;> simp at hr
    · rw [mother hh hm] at hr
      obtain ⟨k', hk'⟩ := h.owner hh hr
      have e : k' ≠ k := fun e => hm (e ▸ hk')
      exact ⟨k', by rw [hctx k' e]; exact hk'⟩
  case tran => intro hh; rw [(mtr hh).1]; exact h.tran hh
  case once =>
    intro hh
    by_cases hm : (v.ctx k).reqMsg = some hh
    · rw [mself hh hm]
      have hr := h.held k hh hm
      obtain ⟨_, h2⟩ := h.once hh
      obtain ⟨a, b⟩ := h2 hr
      unfold releaseObj; split <;> simp [a, b]
    · rw [mother hh hm]; exact h.once hh
  case wire_body =>
    intro x hx
    obtain ⟨a, b, c⟩ := h.wire_body x hx
    exact ⟨a, b, by rw [(mtr _).2]; exact c⟩
  case unopened =>
    intro ho k'
    by_cases e : k' = k
    · subst e; rw [upd_same]; exact hc
    · rw [hctx k' e]; exact h.unopened ho k'

/-- a context field update that leaves the request alone -/
theorem invV_tweak {y x : Option Nat} {v : View} (k : Nat) (c' : Ctx) (h : InvV y x v)
    (hm : c'.reqMsg = (v.ctx k).reqMsg)
    (hs : (v.ctx k).reqMsg.isSome = true → c'.requestId = (v.ctx k).requestId ∧ c'.retryAtSend = (v.ctx k).retryAtSend ∧
      c'.wireCount = (v.ctx k).wireCount ∧ ((v.ctx k).everRetry = true → c'.everRetry = true) ∧
      (0 < c'.retry → c'.everRetry = true))
    (hcnt : c'.everRetry = false → c'.wireCount ≤ 1) :
    InvV y x { v with ctx := upd v.ctx k c' } := by
  have hctx : ∀ k', k' ≠ k → upd v.ctx k c' k' = v.ctx k' := fun k' e => upd_other _ _ _ _ e
  constructor <;> dsimp only
  frame h
  case sq_req =>
    intro k' hk
    by_cases e : k' = k
    · subst e; rw [upd_same, hm]; exact h.sq_req k' hk
    · rw [hctx k' e]; exact h.sq_req k' hk
  case place =>
    intro k' hx hr
    by_cases e : k' = k
    · subst e; rw [upd_same, hm] at hr; exact h.place k' hx hr
    · rw [hctx k' e] at hr; exact h.place k' hx hr
  case rq_place =>
    intro k' hx hr
    by_cases e : k' = k
    · subst e; rw [upd_same] at hr ⊢; rw [hm] at hr; rw [(hs hr).2.1]; exact h.rq_place k' hx hr
    · rw [hctx k' e] at hr ⊢; exact h.rq_place k' hx hr
  case rq_active =>
    intro k' hr
    by_cases e : k' = k
    · subst e; rw [upd_same] at hr ⊢; rw [hm] at hr; rw [(hs hr).2.1]; exact h.rq_active k' hr
    · rw [hctx k' e] at hr ⊢; exact h.rq_active k' hr
  case ever1 =>
    intro k' hr
    by_cases e : k' = k
    · subst e; rw [upd_same] at hr ⊢; rw [hm] at hr; exact (hs hr).2.2.2.2
    · rw [hctx k' e] at hr ⊢; exact h.ever1 k' hr
  case ever2 =>
    intro k' hk hr
    by_cases e : k' = k
    · subst e; rw [upd_same] at hr ⊢; rw [hm] at hr; exact (hs hr).2.2.2.1 (h.ever2 k' hk hr)
    · rw [hctx k' e] at hr ⊢; exact h.ever2 k' hk hr
  case sq_cnt =>
    intro k' hk
    by_cases e : k' = k
    · subst e; rw [upd_same]
      have hr := h.sq_req k' hk
      rcases h.sq_cnt k' hk with h1 | h1
      · exact Or.inl ((hs hr).2.2.2.1 h1)
      · exact Or.inr (by rw [(hs hr).2.2.1]; exact h1)
    · rw [hctx k' e]; exact h.sq_cnt k' hk
  case cnt1 =>
    intro k'
    by_cases e : k' = k
    · subst e; rw [upd_same]; exact hcnt
    · rw [hctx k' e]; exact h.cnt1 k'
  case req_id =>
    intro k' hh hr
    by_cases e : k' = k
    · subst e; rw [upd_same] at hr ⊢; rw [hm] at hr
      rw [(hs (by rw [hr]; rfl)).1]; exact h.req_id k' hh hr
    · rw [hctx k' e] at hr ⊢; exact h.req_id k' hh hr
  case req_uniq =>
    intro k1 k2 hh h1 h2
    have f : ∀ k', (upd v.ctx k c' k').reqMsg = (v.ctx k').reqMsg := by
      intro k'; by_cases e : k' = k
      · subst e; rw [upd_same, hm]
      · rw [hctx k' e]
    rw [f] at h1 h2; exact h.req_uniq k1 k2 hh h1 h2
  case held =>
    intro k' hh hr
    by_cases e : k' = k
    · subst e; rw [upd_same, hm] at hr; exact h.held k' hh hr
    · rw [hctx k' e] at hr; exact h.held k' hh hr
  case owner =>
    intro hh hr
    obtain ⟨k', hk'⟩ := h.owner hh hr
    refine ⟨k', ?_⟩
    by_cases e : k' = k
    · subst e; rw [upd_same, hm]; exact hk'
    · rw [hctx k' e]; exact hk'
  case unopened =>
    intro ho k'
    by_cases e : k' = k
    · subst e; rw [upd_same, hm]; exact h.unopened ho k'
    · rw [hctx k' e]; exact h.unopened ho k'

/-- context `k`, which holds a request, joins the end of the send queue -/
theorem invV_enqueue {y : Option Nat} {v : View} (k : Nat) (h : InvV y (some k) v) (hq : k ∉ v.sendQueue)
    (hr : (v.ctx k).reqMsg.isSome = true) (hc : (v.ctx k).everRetry = true ∨ (v.ctx k).wireCount = 0)
    (hk2 : 0 < (v.ctx k).retryAtSend → k ∈ v.retryQueue) :
    InvV y none { v with sendQueue := v.sendQueue ++ [k] } := by
  constructor <;> dsimp only
  frame h
  case rq_place =>
    intro k' _ hr' ha
    by_cases e : k' = k
    · subst e; exact hk2 ha
    · exact h.rq_place k' (by simpa using e) hr' ha
  case sq_nodup =>
    refine List.nodup_append.mpr ⟨h.sq_nodup, by simp, ?_⟩
    intro a ha b hb; simp at hb; subst hb; intro e; subst e; exact hq ha
  case sq_req =>
    intro k' hk
    rcases List.mem_append.1 hk with h1 | h1
    · exact h.sq_req k' h1
    · simp at h1; subst h1; exact hr
  case place =>
    intro k' _ hr'
    by_cases e : k' = k
    · subst e; exact Or.inl (by simp)
    · rcases h.place k' (by simpa using e) hr' with h1 | h1
      · exact Or.inl (List.mem_append_left _ h1)
      · exact Or.inr h1
  case sq_cnt =>
    intro k' hk
    rcases List.mem_append.1 hk with h1 | h1
    · exact h.sq_cnt k' h1
    · simp at h1; subst h1; exact hc

def eraseCtxs (f : Nat → Pipe) (k : Nat) : Nat → Pipe := fun q => { f q with ctxs := (f q).ctxs.erase k }

/-- one iteration of req0_run_send_queue on the view -/
def vSend (v : View) (k p hh : Nat) : View :=
  { v with
    sendQueue := v.sendQueue.erase k
    retryQueue := if (v.ctx k).retry > 0 then v.retryQueue.erase k ++ [k] else v.retryQueue
    pipe := upd (eraseCtxs v.pipe k) p { v.pipe p with ctxs := (v.pipe p).ctxs.erase k ++ [k], busy := some hh }
    readyPipes := v.readyPipes.erase p
    msgs := upd v.msgs hh { v.msgs hh with tranRefs := (v.msgs hh).tranRefs + 1 }
    ctx := upd v.ctx k { v.ctx k with sendAio := none, wired := true, wireCount := (v.ctx k).wireCount + 1 }
    wire := v.wire ++ [(p, (v.ctx k).requestId, (v.msgs hh).body)] }

theorem nodup_erase_snoc {l : List Nat} (k : Nat) (d : l.Nodup) : (l.erase k ++ [k]).Nodup := by
  refine List.nodup_append.mpr ⟨d.erase k, by simp, ?_⟩
  intro a ha b hb; simp at hb; subst hb; intro e; subst e
  exact d.not_mem_erase ha

theorem mem_erase_snoc {l : List Nat} {k a : Nat} (d : l.Nodup) : a ∈ l.erase k ++ [k] ↔ a = k ∨ (a ≠ k ∧ a ∈ l) := by
  rw [List.mem_append, d.mem_erase_iff]
  simp
  constructor
  · rintro (h | h)
    · exact Or.inr h
    · exact Or.inl h
  · rintro (h | h)
    · exact Or.inr h
    · exact Or.inl h

theorem invV_send {y x : Option Nat} {v : View} (k p hh : Nat) (h : InvV y x v)
    (hk : k ∈ v.sendQueue) (hp : p ∈ v.readyPipes) (hm : (v.ctx k).reqMsg = some hh) :
    InvV y x (vSend v k p hh) := by
  unfold vSend
  obtain ⟨pn, pcl0, pb0⟩ := h.ready_ok p hp
  have hctx : ∀ k', k' ≠ k → upd v.ctx k { v.ctx k with sendAio := none, wired := true, wireCount := (v.ctx k).wireCount + 1 } k' = v.ctx k' :=
    fun k' e => upd_other _ _ _ _ e
  have hreq : ∀ k', (upd v.ctx k { v.ctx k with sendAio := none, wired := true, wireCount := (v.ctx k).wireCount + 1 } k').reqMsg = (v.ctx k').reqMsg ∧
      (upd v.ctx k { v.ctx k with sendAio := none, wired := true, wireCount := (v.ctx k).wireCount + 1 } k').requestId = (v.ctx k').requestId ∧
      (upd v.ctx k { v.ctx k with sendAio := none, wired := true, wireCount := (v.ctx k).wireCount + 1 } k').retry = (v.ctx k').retry ∧
      (upd v.ctx k { v.ctx k with sendAio := none, wired := true, wireCount := (v.ctx k).wireCount + 1 } k').everRetry = (v.ctx k').everRetry ∧
      (upd v.ctx k { v.ctx k with sendAio := none, wired := true, wireCount := (v.ctx k).wireCount + 1 } k').retryAtSend = (v.ctx k').retryAtSend := by
    intro k'
    by_cases e : k' = k
    · subst e; rw [upd_same]; exact ⟨rfl, rfl, rfl, rfl, rfl⟩
    · rw [hctx k' e]; exact ⟨rfl, rfl, rfl, rfl, rfl⟩
  have hwc : (upd v.ctx k { v.ctx k with sendAio := none, wired := true, wireCount := (v.ctx k).wireCount + 1 } k).wireCount = (v.ctx k).wireCount + 1 := by
    rw [upd_same]
  generalize upd v.ctx k { v.ctx k with sendAio := none, wired := true, wireCount := (v.ctx k).wireCount + 1 } = ctx' at hctx hreq hwc ⊢
  -- the new pipe table
  have ppcl : ∀ q, (upd (eraseCtxs v.pipe k) p { v.pipe p with ctxs := (v.pipe p).ctxs.erase k ++ [k], busy := some hh } q).closed = (v.pipe q).closed := by
    intro q; by_cases e : q = p
    · subst e; rw [upd_same]
    · rw [upd_other _ _ _ _ e]; rfl
  have ppb : ∀ q, q ≠ p → (upd (eraseCtxs v.pipe k) p { v.pipe p with ctxs := (v.pipe p).ctxs.erase k ++ [k], busy := some hh } q).busy = (v.pipe q).busy := by
    intro q e; rw [upd_other _ _ _ _ e]; rfl
  have ppbp : (upd (eraseCtxs v.pipe k) p { v.pipe p with ctxs := (v.pipe p).ctxs.erase k ++ [k], busy := some hh } p).busy = some hh := by
    rw [upd_same]
  have ppm : ∀ q k', k' ∈ (upd (eraseCtxs v.pipe k) p { v.pipe p with ctxs := (v.pipe p).ctxs.erase k ++ [k], busy := some hh } q).ctxs ↔
      (k' = k ∧ q = p) ∨ (k' ≠ k ∧ k' ∈ (v.pipe q).ctxs) := by
    intro q k'
    by_cases e : q = p
    · subst e; rw [upd_same]; dsimp only
      rw [mem_erase_snoc (h.pc_nodup q)]; simp
    · rw [upd_other _ _ _ _ e]
      show k' ∈ ((v.pipe q).ctxs.erase k) ↔ _
      rw [(h.pc_nodup q).mem_erase_iff]; simp [e]
  have ppn : ∀ q, (upd (eraseCtxs v.pipe k) p { v.pipe p with ctxs := (v.pipe p).ctxs.erase k ++ [k], busy := some hh } q).ctxs.Nodup := by
    intro q; by_cases e : q = p
    · subst e; rw [upd_same]; exact nodup_erase_snoc k (h.pc_nodup q)
    · rw [upd_other _ _ _ _ e]; exact (h.pc_nodup q).erase k
  generalize upd (eraseCtxs v.pipe k) p { v.pipe p with ctxs := (v.pipe p).ctxs.erase k ++ [k], busy := some hh } = pipe' at ppcl ppb ppbp ppm ppn ⊢
  -- the new retry list
  have rqm : ∀ k', k' ∈ (if (v.ctx k).retry > 0 then v.retryQueue.erase k ++ [k] else v.retryQueue) ↔
      k' ∈ v.retryQueue ∨ (k' = k ∧ 0 < (v.ctx k).retry) := by
    intro k'
    split
    · rename_i hr
      rw [mem_erase_snoc h.rq_nodup]
      constructor
      · rintro (e | ⟨_, e⟩)
        · exact Or.inr ⟨e, hr⟩
        · exact Or.inl e
      · rintro (e | ⟨e, _⟩)
        · by_cases e' : k' = k
          · exact Or.inl e'
          · exact Or.inr ⟨e', e⟩
        · exact Or.inl e
    · rename_i hr
      constructor
      · exact Or.inl
      · rintro (e | ⟨_, e⟩)
        · exact e
        · exact absurd e hr
  have rqn : (if (v.ctx k).retry > 0 then v.retryQueue.erase k ++ [k] else v.retryQueue).Nodup := by
    split
    · exact nodup_erase_snoc k h.rq_nodup
    · exact h.rq_nodup
  generalize (if (v.ctx k).retry > 0 then v.retryQueue.erase k ++ [k] else v.retryQueue) = rq' at rqm rqn ⊢
  -- messages
  have mm : ∀ h', (upd v.msgs hh { v.msgs hh with tranRefs := (v.msgs hh).tranRefs + 1 } h').ctxRef = (v.msgs h').ctxRef ∧
      (upd v.msgs hh { v.msgs hh with tranRefs := (v.msgs hh).tranRefs + 1 } h').ctxFrees = (v.msgs h').ctxFrees ∧
      (upd v.msgs hh { v.msgs hh with tranRefs := (v.msgs hh).tranRefs + 1 } h').returned = (v.msgs h').returned ∧
      (upd v.msgs hh { v.msgs hh with tranRefs := (v.msgs hh).tranRefs + 1 } h').body = (v.msgs h').body ∧
      (upd v.msgs hh { v.msgs hh with tranRefs := (v.msgs hh).tranRefs + 1 } h').tranRefs = (v.msgs h').tranRefs + (if h' = hh then 1 else 0) := by
    intro h'
    by_cases e : h' = hh
    · subst e; rw [upd_same]; simp
    · rw [upd_other _ _ _ _ e]; simp [e]
  generalize upd v.msgs hh { v.msgs hh with tranRefs := (v.msgs hh).tranRefs + 1 } = msgs' at mm ⊢
  constructor <;> dsimp only
  frame h
  case ready_nodup => exact h.ready_nodup.erase p
  case ready_ok =>
    intro q hq
    obtain ⟨e, hq'⟩ := (h.ready_nodup.mem_erase_iff).1 hq
    rw [ppcl, ppb q e]; exact h.ready_ok q hq'
  case out_pipe =>
    intro q hq
    have e : q ≠ p := by omega
    obtain ⟨a, b⟩ := h.out_pipe q hq
    refine ⟨by rw [ppb q e]; exact a, ?_⟩
    apply List.eq_nil_iff_forall_not_mem.2
    intro k' hk'
    rcases (ppm q k').1 hk' with ⟨_, e'⟩ | ⟨_, e'⟩
    · exact e e'
    · rw [b] at e'; simp at e'
  case closed_pipe =>
    intro q hq hc
    rw [ppcl] at hc
    have e : q ≠ p := by intro e; subst e; rw [pcl0] at hc; cases hc
    apply List.eq_nil_iff_forall_not_mem.2
    intro k' hk'
    rcases (ppm q k').1 hk' with ⟨_, e'⟩ | ⟨_, e'⟩
    · exact e e'
    · rw [h.closed_pipe q hq hc] at e'; simp at e'
  case closing => intro q hq; rw [ppcl]; exact h.closing q hq
  case sq_nodup => exact h.sq_nodup.erase k
  case rq_nodup => exact rqn
  case pc_nodup => exact ppn
  case pc_uniq =>
    intro q1 q2 k' h1 h2
    rcases (ppm q1 k').1 h1 with ⟨a1, b1⟩ | ⟨a1, b1⟩ <;> rcases (ppm q2 k').1 h2 with ⟨a2, b2⟩ | ⟨a2, b2⟩
    · rw [b1, b2]
    · exact absurd a1 a2
    · exact absurd a2 a1
    · exact h.pc_uniq q1 q2 k' b1 b2
  case sq_req =>
    intro k' hk'
    rw [(hreq k').1]; exact h.sq_req k' (List.mem_of_mem_erase hk')
  case place =>
    intro k' hx hr
    rw [(hreq k').1] at hr
    by_cases e : k' = k
    · exact Or.inr ⟨p, (ppm p k').2 (Or.inl ⟨e, rfl⟩)⟩
    · rcases h.place k' hx hr with h1 | ⟨q, h1⟩
      · exact Or.inl ((List.mem_erase_of_ne e).2 h1)
      · exact Or.inr ⟨q, (ppm q k').2 (Or.inr ⟨e, h1⟩)⟩
  case rq_place =>
    intro k' hx hr ha
    rw [(hreq k').1] at hr; rw [(hreq k').2.2.2.2] at ha
    exact (rqm k').2 (Or.inl (h.rq_place k' hx hr ha))
  case rq_active =>
    intro k' hr ha
    rw [(hreq k').1] at hr; rw [(hreq k').2.2.2.2] at ha
    exact h.rq_active k' hr ha
  case ever1 =>
    intro k' hr ha
    rw [(hreq k').1] at hr; rw [(hreq k').2.2.1] at ha; rw [(hreq k').2.2.2.1]
    exact h.ever1 k' hr ha
  case ever2 =>
    intro k' hk' hr
    rw [(hreq k').1] at hr; rw [(hreq k').2.2.2.1]
    rcases (rqm k').1 hk' with e | ⟨e, e'⟩
    · exact h.ever2 k' e hr
    · subst e; exact h.ever1 k' hr e'
  case sq_cnt =>
    intro k' hk'
    obtain ⟨e, hk''⟩ := (h.sq_nodup.mem_erase_iff).1 hk'
    rw [hctx k' e]; exact h.sq_cnt k' hk''
  case cnt1 =>
    intro k' he
    by_cases e : k' = k
    · subst e
      rw [(hreq k').2.2.2.1] at he
      rcases h.sq_cnt k' hk with h1 | h1
      · rw [h1] at he; cases he
      · rw [hwc, h1]; omega
    · rw [hctx k' e] at he ⊢; exact h.cnt1 k' he
  case req_id =>
    intro k' h' hr
    rw [(hreq k').1] at hr; rw [(hreq k').2.1]; exact h.req_id k' h' hr
  case req_uniq =>
    intro k1 k2 h' h1 h2
    rw [(hreq k1).1] at h1; rw [(hreq k2).1] at h2; exact h.req_uniq k1 k2 h' h1 h2
  case held =>
    intro k' h' hr
    rw [(hreq k').1] at hr; rw [(mm h').1]; exact h.held k' h' hr
  case owner =>
    intro h' hr
    rw [(mm h').1] at hr
    obtain ⟨k', hk'⟩ := h.owner h' hr
    exact ⟨k', by rw [(hreq k').1]; exact hk'⟩
  case tran =>
    intro h'
    rw [(mm h').2.2.2.2, h.tran h']
    have := busyCnt_upd v.pipe pipe' v.npipes p h' pn ppb
    rw [pb0, ppbp] at this
    by_cases e : h' = hh
    · subst e; simp at this ⊢; omega
    · have e2 : ¬ some hh = some h' := fun e' => e (Option.some.inj e').symm
      simp [e, e2] at this ⊢; omega
  case busy_le =>
    intro q h' hb
    by_cases e : q = p
    · subst e; rw [ppbp] at hb; cases hb; exact (h.req_id k hh hm).2.2
    · rw [ppb q e] at hb; exact h.busy_le q h' hb
  case once =>
    intro h'
    rw [(mm h').1, (mm h').2.1, (mm h').2.2.1]; exact h.once h'
  case wire_body =>
    intro x hx
    rcases List.mem_append.1 hx with h1 | h1
    · obtain ⟨a, b, c⟩ := h.wire_body x h1
      exact ⟨a, b, by rw [(mm _).2.2.2.1]; exact c⟩
    · simp at h1; subst h1
      obtain ⟨a, b, c⟩ := h.req_id k hh hm
      dsimp only
      rw [a]
      exact ⟨c, b, (mm hh).2.2.2.1⟩
  case unopened =>
    intro ho k'
    rw [(hreq k').1]; exact h.unopened ho k'

theorem invV_bump {y x : Option Nat} {v : View} (h : InvV y x v) : InvV y x { v with nalloc := v.nalloc + 1 } := by
  constructor <;> dsimp only
  frame h
  case req_id => intro k hh hr; obtain ⟨a, b, c⟩ := h.req_id k hh hr; exact ⟨a, b, by omega⟩
  case busy_le => intro p hh hb; have := h.busy_le p hh hb; omega
  case wire_body => intro z hz; obtain ⟨a, b, c⟩ := h.wire_body z hz; exact ⟨by omega, b, c⟩

def installCtx (c : Ctx) (id : Nat) (sa : Option UAio) (rt : Nat) : Ctx :=
  { c with requestId := id, reqMsg := some id, sendAio := sa, retryAtSend := c.retry,
           everRetry := decide (c.retry > 0), wired := false, wireCount := 0, retryTime := rt }

/-- a new request (fresh id `v.nalloc`) is installed in context `k` and `k` joins the send queue -/
def vInstall (v : View) (k : Nat) (body : Bytes) (sa : Option UAio) (rt : Nat) (act : Bool) (ta : Option Nat) (tn : Bool) : View :=
  { v with
    sendQueue := v.sendQueue ++ [k]
    retryQueue := if (v.ctx k).retry > 0 then v.retryQueue ++ [k] else v.retryQueue
    retryActive := act
    tickAt := ta
    tickNever := tn
    msgs := upd v.msgs v.nalloc { body := body, ctxRef := true }
    ctx := upd v.ctx k (installCtx (v.ctx k) v.nalloc sa rt) }

theorem invV_install {y : Option Nat} {v : View} (k : Nat) (body : Bytes) (sa : Option UAio) (rt : Nat)
    (act : Bool) (ta : Option Nat) (tn : Bool) (h : InvV y (some k) v)
    (ho : v.opened = true) (hc : (v.ctx k).reqMsg = none) (hrq : k ∉ v.retryQueue) (hn0 : v.nalloc ≠ 0)
    (hfresh : (∀ k' hh, (v.ctx k').reqMsg = some hh → hh < v.nalloc) ∧ (∀ p hh, (v.pipe p).busy = some hh → hh < v.nalloc) ∧
      (∀ z, z ∈ v.wire → z.2.1 < v.nalloc))
    (hact : (v.retryActive = true ∨ 0 < (v.ctx k).retry) → act = true)
    (ht : v.sClosed = false → act = true → ta.isSome = true ∨ tn = true) :
    InvV y none (vInstall v k body sa rt act ta tn) := by
  unfold vInstall
  have hq : k ∉ v.sendQueue := fun hk => by have := h.sq_req k hk; rw [hc] at this; cases this
  have hctx : ∀ k', k' ≠ k → upd v.ctx k (installCtx (v.ctx k) v.nalloc sa rt) k' = v.ctx k' := fun k' e => upd_other _ _ _ _ e
  have hself : upd v.ctx k (installCtx (v.ctx k) v.nalloc sa rt) k = (installCtx (v.ctx k) v.nalloc sa rt) := upd_same _ _ _
  generalize upd v.ctx k (installCtx (v.ctx k) v.nalloc sa rt) = ctx' at hctx hself ⊢
  have mo : ∀ hh, hh ≠ v.nalloc → upd v.msgs v.nalloc { body := body, ctxRef := true } hh = v.msgs hh :=
    fun hh e => upd_other _ _ _ _ e
  have ms : upd v.msgs v.nalloc { body := body, ctxRef := true } v.nalloc = { body := body, ctxRef := true } := upd_same _ _ _
  generalize upd v.msgs v.nalloc { body := body, ctxRef := true } = msgs' at mo ms ⊢
  have rqm : ∀ k', k' ∈ (if (v.ctx k).retry > 0 then v.retryQueue ++ [k] else v.retryQueue) ↔
      k' ∈ v.retryQueue ∨ (k' = k ∧ 0 < (v.ctx k).retry) := by
    intro k'
    split
    · rename_i hr; simp [hr]
    · rename_i hr; simp [hr]
  have rqn : (if (v.ctx k).retry > 0 then v.retryQueue ++ [k] else v.retryQueue).Nodup := by
    split
    · refine List.nodup_append.mpr ⟨h.rq_nodup, by simp, ?_⟩
      intro a ha b hb; simp at hb; subst hb; intro e; subst e; exact hrq ha
    · exact h.rq_nodup
  generalize (if (v.ctx k).retry > 0 then v.retryQueue ++ [k] else v.retryQueue) = rq' at rqm rqn ⊢
  have hne : ∀ k', (v.ctx k').reqMsg.isSome = true → k' ≠ k := by
    intro k' hr e; subst e; rw [hc] at hr; cases hr
  constructor <;> dsimp only
  frame h
  case sq_nodup =>
    refine List.nodup_append.mpr ⟨h.sq_nodup, by simp, ?_⟩
    intro a ha b hb; simp at hb; subst hb; intro e; subst e; exact hq ha
  case rq_nodup => exact rqn
  case sq_req =>
    intro k' hk
    rcases List.mem_append.1 hk with h1 | h1
    · have e : k' ≠ k := fun e => hq (e ▸ h1)
      rw [hctx k' e]; exact h.sq_req k' h1
    · simp at h1; subst h1; rw [hself]; rfl
  case place =>
    intro k' _ hr
    by_cases e : k' = k
    · subst e; exact Or.inl (by simp)
    · rw [hctx k' e] at hr
      rcases h.place k' (by simpa using e) hr with h1 | h1
      · exact Or.inl (List.mem_append_left _ h1)
      · exact Or.inr h1
  case rq_place =>
    intro k' _ hr ha
    by_cases e : k' = k
    · subst e; rw [hself] at ha; exact (rqm k').2 (Or.inr ⟨rfl, ha⟩)
    · rw [hctx k' e] at hr ha; exact (rqm k').2 (Or.inl (h.rq_place k' (by simpa using e) hr ha))
  case rq_active =>
    intro k' hr ha
    by_cases e : k' = k
    · subst e; rw [hself] at ha; exact hact (Or.inr ha)
    · rw [hctx k' e] at hr ha; exact hact (Or.inl (h.rq_active k' hr ha))
  case timer => exact ht
  case ever1 =>
    intro k' hr ha
    by_cases e : k' = k
    · subst e; rw [hself] at ha ⊢; exact decide_eq_true ha
    · rw [hctx k' e] at hr ha ⊢; exact h.ever1 k' hr ha
  case ever2 =>
    intro k' hk hr
    by_cases e : k' = k
    · subst e; rw [hself]
      rcases (rqm k').1 hk with h1 | ⟨_, h1⟩
      · exact absurd h1 hrq
      · exact decide_eq_true h1
    · rw [hctx k' e] at hr ⊢
      rcases (rqm k').1 hk with h1 | ⟨h1, _⟩
      · exact h.ever2 k' h1 hr
      · exact absurd h1 e
  case sq_cnt =>
    intro k' hk
    rcases List.mem_append.1 hk with h1 | h1
    · have e : k' ≠ k := fun e => hq (e ▸ h1)
      rw [hctx k' e]; exact h.sq_cnt k' h1
    · simp at h1; subst h1; rw [hself]; exact Or.inr rfl
  case cnt1 =>
    intro k' he
    by_cases e : k' = k
    · subst e; rw [hself]; exact Nat.zero_le _
    · rw [hctx k' e] at he ⊢; exact h.cnt1 k' he
  case req_id =>
    intro k' hh hr
    by_cases e : k' = k
    · subst e; rw [hself] at hr ⊢; cases hr; exact ⟨rfl, hn0, Nat.le_refl _⟩
    · rw [hctx k' e] at hr ⊢; exact h.req_id k' hh hr
  case req_uniq =>
    intro k1 k2 hh h1 h2
    by_cases e1 : k1 = k <;> by_cases e2 : k2 = k
    · rw [e1, e2]
    · subst e1; rw [hself] at h1; rw [hctx k2 e2] at h2; cases h1
      exact absurd (hfresh.1 k2 _ h2) (Nat.lt_irrefl _)
    · subst e2; rw [hself] at h2; rw [hctx k1 e1] at h1; cases h2
      exact absurd (hfresh.1 k1 _ h1) (Nat.lt_irrefl _)
    · rw [hctx k1 e1] at h1; rw [hctx k2 e2] at h2; exact h.req_uniq k1 k2 hh h1 h2
  case held =>
    intro k' hh hr
    by_cases e : k' = k
    · subst e; rw [hself] at hr; cases hr; rw [ms]
    · rw [hctx k' e] at hr
      have := hfresh.1 k' hh hr
      rw [mo hh (by omega)]; exact h.held k' hh hr
  case owner =>
    intro hh hr
    by_cases e : hh = v.nalloc
    · subst e; exact ⟨k, by rw [hself]; rfl⟩
    · rw [mo hh e] at hr
      obtain ⟨k', hk'⟩ := h.owner hh hr
      have e' : k' ≠ k := hne k' (by rw [hk']; rfl)
      exact ⟨k', by rw [hctx k' e']; exact hk'⟩
  case tran =>
    intro hh
    by_cases e : hh = v.nalloc
    · subst e; rw [ms]
      exact (busyCnt_none _ _ _ (fun p _ hb => Nat.lt_irrefl _ (hfresh.2.1 p _ hb))).symm
    · rw [mo hh e]; exact h.tran hh
  case once =>
    intro hh
    by_cases e : hh = v.nalloc
    · subst e; rw [ms]; simp
    · rw [mo hh e]; exact h.once hh
  case wire_body =>
    intro z hz
    obtain ⟨a, b, c⟩ := h.wire_body z hz
    have := hfresh.2.2 z hz
    exact ⟨a, b, by rw [mo _ (by omega)]; exact c⟩
  case unopened => intro ho'; rw [ho] at ho'; cases ho'

/-! ### pipes -/

theorem invV_pipe_congr {y x : Option Nat} {v : View} (pipe' : Nat → Pipe) (h : InvV y x v)
    (pcl : ∀ q, (pipe' q).closed = (v.pipe q).closed) (pb : ∀ q, (pipe' q).busy = (v.pipe q).busy)
    (pc : ∀ q, (pipe' q).ctxs = (v.pipe q).ctxs) : InvV y x { v with pipe := pipe' } := by
  constructor <;> dsimp only <;> (try simp only [pcl, pb, pc])
  frame h
  case tran => intro hh; rw [h.tran hh]; exact (busyCnt_congr _ _ _ _ (fun p _ => pb p)).symm

def tranRel (msgs : Nat → MsgObj) : Option Nat → Nat → MsgObj
  | some hh => upd msgs hh { msgs hh with tranRefs := (msgs hh).tranRefs - 1 }
  | none => msgs

/-- pipe `p` stops sending (send completed, failed, or the pipe is being closed): the transport's
    reference goes away, the pipe leaves the ready list -/
theorem invV_release {y y' x : Option Nat} {v : View} (p : Nat) (pp' : Pipe) (h : InvV y x v)
    (hb : pp'.busy = none) (hc : pp'.ctxs = (v.pipe p).ctxs)
    (hcp : ∀ q, some q ≠ y' → (upd v.pipe p pp' q).closed = true → (v.pipe q).ctxs = [])
    (hcl : ∀ q, some q = y' → (upd v.pipe p pp' q).closed = true) :
    InvV y' x { v with msgs := tranRel v.msgs (v.pipe p).busy, pipe := upd v.pipe p pp',
                       readyPipes := v.readyPipes.erase p } := by
  have po : ∀ q, q ≠ p → upd v.pipe p pp' q = v.pipe q := fun q e => upd_other _ _ _ _ e
  have pc : ∀ q, (upd v.pipe p pp' q).ctxs = (v.pipe q).ctxs := by
    intro q; by_cases e : q = p
    · subst e; rw [upd_same, hc]
    · rw [po q e]
  have mm : ∀ h', (tranRel v.msgs (v.pipe p).busy h').ctxRef = (v.msgs h').ctxRef ∧
      (tranRel v.msgs (v.pipe p).busy h').ctxFrees = (v.msgs h').ctxFrees ∧
      (tranRel v.msgs (v.pipe p).busy h').returned = (v.msgs h').returned ∧
      (tranRel v.msgs (v.pipe p).busy h').body = (v.msgs h').body ∧
      (tranRel v.msgs (v.pipe p).busy h').tranRefs = (v.msgs h').tranRefs - (if (v.pipe p).busy = some h' then 1 else 0) := by
    intro h'
    cases hbz : (v.pipe p).busy with
    | none => simp [tranRel]
    | some hh =>
      simp only [tranRel]
      by_cases e : h' = hh
      · subst e; rw [upd_same]; simp
      · rw [upd_other _ _ _ _ e]
        have : ¬ hh = h' := fun e' => e e'.symm
        simp [this]
  generalize tranRel v.msgs (v.pipe p).busy = msgs' at mm
  constructor <;> dsimp only
  frame h
  case ready_nodup => exact h.ready_nodup.erase p
  case ready_ok =>
    intro q hq
    obtain ⟨e, hq'⟩ := (h.ready_nodup.mem_erase_iff).1 hq
    rw [po q e]; exact h.ready_ok q hq'
  case out_pipe =>
    intro q hq
    rw [pc]
    refine ⟨?_, (h.out_pipe q hq).2⟩
    by_cases e : q = p
    · subst e; rw [upd_same]; exact hb
    · rw [po q e]; exact (h.out_pipe q hq).1
  case closed_pipe => intro q hq hc'; rw [pc]; exact hcp q hq hc'
  case closing => exact hcl
  case pc_nodup => intro q; rw [pc]; exact h.pc_nodup q
  case pc_uniq => intro q1 q2 k; rw [pc, pc]; exact h.pc_uniq q1 q2 k
  case place => intro k hx hr; simp only [pc]; exact h.place k hx hr
  case held => intro k hh hr; rw [(mm hh).1]; exact h.held k hh hr
  case owner => intro hh hr; rw [(mm hh).1] at hr; exact h.owner hh hr
  case tran =>
    intro hh
    rw [(mm hh).2.2.2.2, h.tran hh]
    by_cases hp : p < v.npipes
    · have := busyCnt_upd v.pipe (upd v.pipe p pp') v.npipes p hh hp (fun q e => by rw [po q e])
      rw [upd_same, hb] at this
      simp at this
      omega
    · have e1 : (v.pipe p).busy = none := (h.out_pipe p (by omega)).1
      rw [e1]
      simp
      exact (busyCnt_congr _ _ _ _ (fun q hq => by rw [po q (by omega)])).symm
  case busy_le =>
    intro q hh hbq
    by_cases e : q = p
    · subst e; rw [upd_same, hb] at hbq; cases hbq
    · rw [po q e] at hbq; exact h.busy_le q hh hbq
  case once => intro hh; rw [(mm hh).1, (mm hh).2.1, (mm hh).2.2.1]; exact h.once hh
  case wire_body =>
    intro z hz
    obtain ⟨a, b, c⟩ := h.wire_body z hz
    exact ⟨a, b, by rw [(mm _).2.2.2.1]; exact c⟩

/-- an idle live pipe joins the ready list -/
theorem invV_ready {y x : Option Nat} {v : View} (p : Nat) (h : InvV y x v)
    (hn : p ∉ v.readyPipes) (hp : p < v.npipes) (hc : (v.pipe p).closed = false) (hb : (v.pipe p).busy = none) :
    InvV y x { v with readyPipes := v.readyPipes ++ [p] } := by
  constructor <;> dsimp only
  frame h
  case ready_nodup =>
    refine List.nodup_append.mpr ⟨h.ready_nodup, by simp, ?_⟩
    intro a ha b hb'; simp at hb'; subst hb'; intro e; subst e; exact hn ha
  case ready_ok =>
    intro q hq
    rcases List.mem_append.1 hq with h1 | h1
    · exact h.ready_ok q h1
    · simp at h1; subst h1; exact ⟨hp, hc, hb⟩

/-- a new pipe -/
theorem invV_pipeAdd {x : Option Nat} {v : View} (pp : Pipe) (rdy : Bool) (h : InvV none x v)
    (hb : pp.busy = none) (hc : pp.ctxs = []) (hr : rdy = true → pp.closed = false) :
    InvV none x { v with npipes := v.npipes + 1, pipe := upd v.pipe v.npipes pp,
                         readyPipes := if rdy then v.readyPipes ++ [v.npipes] else v.readyPipes } := by
  have po : ∀ q, q ≠ v.npipes → upd v.pipe v.npipes pp q = v.pipe q := fun q e => upd_other _ _ _ _ e
  have pc : ∀ q, (upd v.pipe v.npipes pp q).ctxs = (v.pipe q).ctxs := by
    intro q; by_cases e : q = v.npipes
    · subst e; rw [upd_same, hc, (h.out_pipe _ (Nat.le_refl _)).2]
    · rw [po q e]
  have hn : v.npipes ∉ v.readyPipes := fun hm => Nat.lt_irrefl _ (h.ready_ok _ hm).1
  have rm : ∀ q, q ∈ (if rdy then v.readyPipes ++ [v.npipes] else v.readyPipes) → q ∈ v.readyPipes ∨ (q = v.npipes ∧ rdy = true) := by
    intro q hq
    split at hq
    · rename_i hr'
      rcases List.mem_append.1 hq with h1 | h1
      · exact Or.inl h1
      · simp at h1; exact Or.inr ⟨h1, hr'⟩
    · exact Or.inl hq
  have rn : (if rdy then v.readyPipes ++ [v.npipes] else v.readyPipes).Nodup := by
    split
    · refine List.nodup_append.mpr ⟨h.ready_nodup, by simp, ?_⟩
      intro a ha b hb'; simp at hb'; subst hb'; intro e; subst e; exact hn ha
    · exact h.ready_nodup
  generalize (if rdy then v.readyPipes ++ [v.npipes] else v.readyPipes) = ready' at rm rn
  constructor <;> dsimp only
  frame h
  case ready_nodup => exact rn
  case ready_ok =>
    intro q hq
    rcases rm q hq with h1 | ⟨h1, h2⟩
    · obtain ⟨a, b, c⟩ := h.ready_ok q h1
      rw [po q (by omega)]; exact ⟨by omega, b, c⟩
    · subst h1; rw [upd_same]; exact ⟨by omega, hr h2, hb⟩
  case out_pipe =>
    intro q hq
    rw [pc, po q (by omega)]; exact h.out_pipe q (by omega)
  case closed_pipe =>
    intro q hq hcq
    rw [pc]
    by_cases e : q = v.npipes
    · subst e; exact (h.out_pipe _ (Nat.le_refl _)).2
    · rw [po q e] at hcq; exact h.closed_pipe q hq hcq
  case closing => intro q hq; cases hq
  case pc_nodup => intro q; rw [pc]; exact h.pc_nodup q
  case pc_uniq => intro q1 q2 k; rw [pc, pc]; exact h.pc_uniq q1 q2 k
  case place => intro k hx hr'; simp only [pc]; exact h.place k hx hr'
  case tran =>
    intro hh
    simp only [busyCnt]
    rw [upd_same, hb, h.tran hh]
    simp
    exact (busyCnt_congr _ _ _ _ (fun q hq => by rw [po q (by omega)])).symm
  case busy_le =>
    intro q hh hbq
    by_cases e : q = v.npipes
    · subst e; rw [upd_same, hb] at hbq; cases hbq
    · rw [po q e] at hbq; exact h.busy_le q hh hbq

/-! ### the resend timer -/

theorem invV_retry {y : Option Nat} {v : View} (add : List Nat) (act : Bool) (ta : Option Nat) (tn : Bool)
    (h : InvV y none v) (hn : add.Nodup)
    (hadd : ∀ k, k ∈ add → k ∉ v.sendQueue ∧ k ∈ v.retryQueue ∧ (v.ctx k).reqMsg.isSome = true)
    (hact : v.retryActive = true → v.retryQueue ≠ [] → act = true)
    (ht : v.sClosed = false → act = true → ta.isSome = true ∨ tn = true) :
    InvV y none { v with sendQueue := v.sendQueue ++ add, retryActive := act, tickAt := ta, tickNever := tn } := by
  constructor <;> dsimp only
  frame h
  case sq_nodup =>
    refine List.nodup_append.mpr ⟨h.sq_nodup, hn, ?_⟩
    intro a ha b hb e; subst e; exact (hadd a hb).1 ha
  case sq_req =>
    intro k hk
    rcases List.mem_append.1 hk with h1 | h1
    · exact h.sq_req k h1
    · exact (hadd k h1).2.2
  case place =>
    intro k hx hr
    rcases h.place k hx hr with h1 | h1
    · exact Or.inl (List.mem_append_left _ h1)
    · exact Or.inr h1
  case rq_active =>
    intro k hr ha
    have := h.rq_place k (by simp) hr ha
    exact hact (h.rq_active k hr ha) (fun e => by rw [e] at this; cases this)
  case timer => exact ht
  case sq_cnt =>
    intro k hk
    rcases List.mem_append.1 hk with h1 | h1
    · exact h.sq_cnt k h1
    · exact Or.inl (h.ever2 k (hadd k h1).2.1 (hadd k h1).2.2)

/-- fields the invariant ignores, or the timer being stopped for good at close -/
theorem invV_closeSock {y x : Option Nat} {v : View} (ta : Option Nat) (h : InvV y x v) :
    InvV y x { v with sClosed := true, tickAt := ta } := by
  constructor <;> dsimp only
  frame h
  case timer => intro hc; cases hc

end Nng.Req
