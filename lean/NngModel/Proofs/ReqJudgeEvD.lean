/-
  Simulation, event by event (4): receive.
-/
import NngModel.Proofs.ReqJudgeEvC
namespace Nng.ReqJ
open Nng Nng.Proto Nng.Req Nng.ReqSpec

theorem fail04_closed (j : J) (m : String) : (j.fail04 m).closed = j.closed := by
  obtain ⟨e, h⟩ := fail04_eq j m; rw [h]
theorem fail12_closed (j : J) (m : String) : (j.fail12 m).closed = j.closed := by
  obtain ⟨e, h⟩ := fail12_eq j m; rw [h]

theorem evRecv_closed (j : J) (c : Option Nat) (a : Nat) (mode : Mode) (outs : List Out) :
    (evRecv j c a mode outs).1.closed = j.closed := by
  unfold evRecv
  dsimp only
  repeat' split
  all_goals first | rfl | simp only [setC_closed, fail04_closed, fail12_closed]

/-- the judge's step for `recv` when the model prints one completion for the aio, or nothing -/
theorem step_recv (j : J) (c : Option Nat) (a : Nat) (mode : Mode) (outs : List Out) (hc : j.closed = false)
    (ho : outs = [] ∨ ∃ rv m mb, outs = [.done a rv m mb]) :
    ReqSpec.step j (.recv c a mode) outs =
      quiescent (phDone (.recv c a mode) (some a) (evRecv j c a mode outs).2 outs (evRecv j c a mode outs).1) := by
  rw [step_eq]
  have hcl := evRecv_closed j c a mode outs
  rcases ho with rfl | ⟨rv, m, mb, rfl⟩
  · simp only [notExecuted, List.any_nil, Bool.false_eq_true, if_false, hc, phA_nil, evAioOf, phEv, phRest, hcl,
      phPipe, phClosed, phReset, psF, phPoll, phOver, phBlocked, List.foldl_nil]
  · have hA : phA (some a) [.done a rv m mb] j = j := by
      cases m <;> simp [phA]
    simp only [notExecuted, List.any_cons, List.any_nil, Bool.or_false, Bool.false_eq_true, if_false, hc, hA, evAioOf, phEv, phRest, hcl,
      phPipe, phClosed, psF, phPoll, phOver, phBlocked, List.foldl_cons, List.foldl_nil]
    congr 2
    cases m <;> simp [phReset]

theorem aioParked_none {rest : List Ev} {s : State} (hm : MI rest s) {a : Nat} (h : aioParked s a = none) (k : Nat) (b : Bool) :
    aioOf s k b ≠ some a := by
  intro hk
  have hkey := aioOf_key hm hk
  unfold aioParked at h
  rw [List.findSome?_eq_none_iff] at h
  have := h k (by rw [keys_mem] at hkey; simp [ctxKeys, nCtxSlots]; omega)
  unfold aioOf at hk
  cases b with
  | false =>
    simp only [Bool.false_eq_true, if_false] at hk
    simp [hk] at this
  | true =>
    simp only [if_true] at hk
    simp only [hk] at this
    split at this
    · cases this
    · simp at this

theorem doneOf_single (a rv : Nat) (m : Option WMsg) (mb : Bool) : doneOf [.done a rv m mb] a = some (rv, m) := by
  simp [doneOf]

/-- a receive on a context that is not open -/
theorem sim_recv_dead {rest : List Ev} {s : State} {j : J} (c : Option Nat) (a : Nat) (mode : Mode)
    (hM : R (.recv c a mode :: rest) s j) (hD : Dr s) (hl : (s.ctx (Req.keyOf c)).live = false) :
    Sim rest s j (ReqSpec.step j (.recv c a mode) [.done a Err.eclosed none false]) (.recv c a mode) := by
  have hM' := hM.weaken
  have ho : (j.ctx (ReqSpec.keyOf c)).opened = false := by rw [keyOf_eq, (hM.rc _ (by simp)).opened]; exact hl
  rw [step_recv j c a mode _ hM.g.closed (Or.inr ⟨_, _, _, rfl⟩)]
  have e1 : evRecv j c a mode [.done a Err.eclosed none false] = (j, []) := by
    unfold evRecv; simp [ho]
  rw [e1]
  have e2 : phDone (.recv c a mode) (some a) [] [.done a Err.eclosed none false] j = j := by
    simp [phDone, Err.eclosed]
  rw [e2, quiescent_R hM' hD]
  exact ⟨hM', rfl, fun _ => rfl⟩

/-- a receive is parked in context `k` -/
theorem MI.setRecv {rest : List Ev} {s : State} (hm : MI rest s) (k a : Nat) (dl : Option Nat)
    (hl : (s.ctx k).live = true) (hq : (s.ctx k).reqMsg.isSome = true) (hp : ∀ k' b, aioOf s k' b ≠ some a) :
    MI rest (setCtx s k { s.ctx k with recvAio := some ⟨a, dl⟩ }) := by
  have hc : ∀ x, x ≠ k → (setCtx s k { s.ctx k with recvAio := some ⟨a, dl⟩ }).ctx x = s.ctx x := fun x hx => by simp [setCtx, hx]
  have hk : (setCtx s k { s.ctx k with recvAio := some ⟨a, dl⟩ }).ctx k = { s.ctx k with recvAio := some ⟨a, dl⟩ } := by simp [setCtx]
  have hlv : ∀ x, LiveH (setCtx s k { s.ctx k with recvAio := some ⟨a, dl⟩ }) x → LiveH s x := by
    intro x hx
    rcases hx with hx | ⟨k', hx⟩
    · exact Or.inl hx
    · by_cases e : k' = k
      · subst e; rw [hk] at hx; exact Or.inr ⟨k', hx⟩
      · rw [hc _ e] at hx; exact Or.inr ⟨k', hx⟩
  have ha : ∀ x b a', aioOf (setCtx s k { s.ctx k with recvAio := some ⟨a, dl⟩ }) x b = some a' →
      aioOf s x b = some a' ∨ (x = k ∧ b = false ∧ a' = a) := by
    intro x b a' h
    unfold aioOf at h ⊢
    by_cases e : x = k
    · subst e; rw [hk] at h
      cases b with
      | true => left; exact h
      | false => right; simp at h; exact ⟨rfl, rfl, h.symm⟩
    · rw [hc _ e] at h; left; exact h
  constructor
  · intro x hx
    by_cases e : x = k
    · subst e; rw [hk]; exact hm.biglive x hx
    · rw [hc _ e]; exact hm.biglive x hx
  · intro x hx
    by_cases e : x = k
    · subst e; rw [hk] at hx; rw [hl] at hx; cases hx
    · rw [hc _ e] at hx ⊢; exact hm.dead x hx
  · intro k1 b1 k2 b2 a' h1 h2
    rcases ha _ _ _ h1 with g1 | ⟨g1, g2, g3⟩
    · rcases ha _ _ _ h2 with f1 | ⟨f1, f2, f3⟩
      · exact hm.park k1 b1 k2 b2 a' g1 f1
      · rw [f3] at g1; exact absurd g1 (hp _ _)
    · rcases ha _ _ _ h2 with f1 | ⟨f1, f2, f3⟩
      · rw [g3] at f1; exact absurd f1 (hp _ _)
      · exact ⟨by rw [g1, f1], by rw [g2, f2]⟩
  · intro x hx
    by_cases e : x = k
    · subst e; rw [hk] at hx
      have := (hm.creset x hx).1
      rw [this] at hq; cases hq
    · rw [hc _ e] at hx ⊢; exact hm.creset x hx
  · intro x hx
    by_cases e : x = k
    · subst e; rw [hk] at hx ⊢; exact hm.rep x hx
    · rw [hc _ e] at hx ⊢; exact hm.rep x hx
  · intro x q hx
    have hx' : x ∈ (s.pipe q).ctxs := hx
    by_cases e : x = k
    · subst e; rw [hk]; exact hm.onp x q hx'
    · rw [hc _ e]; exact hm.onp x q hx'
  · intro x h hr hw
    by_cases e : x = k
    · subst e; rw [hk] at hr hw ⊢; exact hm.wir x h hr hw
    · rw [hc _ e] at hr hw ⊢; exact hm.wir x h hr hw
  · intro x h hr hw
    by_cases e : x = k
    · subst e; rw [hk] at hr hw ⊢; exact hm.unw x h hr hw
    · rw [hc _ e] at hr hw ⊢; exact hm.unw x h hr hw
  · intro x hs
    by_cases e : x = k
    · subst e; rw [hk] at hs ⊢; exact hm.sa x hs
    · rw [hc _ e] at hs ⊢; exact hm.sa x hs
  · intro x hs
    by_cases e : x = k
    · subst e; rw [hk] at hs ⊢; exact hm.rid x hs
    · rw [hc _ e] at hs ⊢; exact hm.rid x hs
  · exact hm.al_nodup
  · exact hm.al_le
  · intro h hh; exact hm.fresh h (hlv h hh)
  · intro h1 h2 l1 l2; exact hm.inj h1 h2 (hlv h1 l1) (hlv h2 l2)
  · exact hm.bound
  · exact hm.open_
  · exact hm.notgone
  · exact hm.notclosed

/-- the relation of a context after an update that the request records do not read -/
theorem RCx.setCtx_self {s : State} {j j' : J} {k : Nat} {cj cj' : CJ} (c' : Ctx) (h0 : RCx s j k cj)
    (hjs : j'.tickStable = j.tickStable) (hjt : j'.tick = j.tick)
    (e : c'.live = (s.ctx k).live ∧ c'.retry = (s.ctx k).retry ∧ c'.repMsg = (s.ctx k).repMsg ∧
      c'.connReset = (s.ctx k).connReset ∧ c'.reqMsg = (s.ctx k).reqMsg ∧ c'.wired = (s.ctx k).wired ∧
      c'.sendAio = (s.ctx k).sendAio ∧ c'.wireCount = (s.ctx k).wireCount ∧ c'.everRetry = (s.ctx k).everRetry ∧
      c'.retryTime = (s.ctx k).retryTime ∧ c'.retryAtSend = (s.ctx k).retryAtSend)
    (ej : cj'.opened = cj.opened ∧ cj'.retry = cj.retry ∧ cj'.stash = cj.stash ∧ cj'.latched = cj.latched ∧ cj'.req = cj.req)
    (hw : cj'.recvWait = c'.recvAio.map (·.aio)) : RCx (setCtx s k c') j' k cj' := by
  obtain ⟨e1, e2, e3, e4, e5, e6, e7, e8, e9, e10, e11⟩ := e
  obtain ⟨f1, f2, f3, f4, f5⟩ := ej
  have hk : (setCtx s k c').ctx k = c' := by simp [setCtx]
  constructor
  · rw [hk, e1, f1]; exact h0.opened
  · rw [hk, e1, e2, f2]; exact h0.retry
  · rw [hk]; exact hw
  · rw [hk, e3, f3]; exact h0.stash
  · rw [hk, e4, f4]; exact h0.latched
  · rw [hk, e5, e3, f5]; exact h0.none
  · rw [hk, e3, f5]; exact h0.ansd
  · rw [hk, e5, f5]; intro h hm
    obtain ⟨r, a, b⟩ := h0.req h hm
    refine ⟨r, a, ?_⟩
    constructor
    · exact b.ans
    · exact b.body
    · rw [hk, e6]; exact b.wired
    · rw [hk, e6, e7]; exact b.unsent
    · rw [hk, e6]; exact b.id
    · rw [hk, e6]; exact b.lp
    · rw [hk, e8]; exact b.cnt
    · rw [hk, e9]; exact b.ever
    · rw [hk, e10]; exact b.dl
    · rw [hk, e11, e2]; exact b.clean
    · exact b.need
    · rw [hk, e6]; exact b.early
    · rw [hk, e6, e2, hjs, hjt]; exact b.over

/-- what the judge's record says about the model's context -/
theorem RCx_req_none {s : State} {j : J} {k : Nat} {cj : CJ} (h0 : RCx s j k cj) (h : cj.req = none) :
    (s.ctx k).reqMsg = none ∧ (s.ctx k).repMsg = none := by
  constructor
  · cases hq : (s.ctx k).reqMsg with
    | none => rfl
    | some h' => obtain ⟨r, a, _⟩ := h0.req h' hq; rw [h] at a; cases a
  · cases hp : (s.ctx k).repMsg with
    | none => rfl
    | some b => obtain ⟨r, a, _⟩ := h0.ansd (by rw [hp]; rfl); rw [h] at a; cases a

theorem sim_ctxRecv {rest : List Ev} {s : State} {j : J} (c : Option Nat) (a : Nat) (mode : Mode)
    (hM : R (.recv c a mode :: rest) s j) (hD : Dr s) (hl : (s.ctx (Req.keyOf c)).live = true)
    (hp : aioParked s a = none) :
    Sim rest (ctxRecv s (Req.keyOf c) a mode).1 j (ReqSpec.step j (.recv c a mode) (ctxRecv s (Req.keyOf c) a mode).2)
      (.recv c a mode) := by
  have hM' := hM.weaken
  have hkk0 := keyOf_eq c
  generalize hk : Req.keyOf c = k at *
  have hkk : ReqSpec.keyOf c = k := hkk0
  have h0 := hM'.rc k (by simp)
  have ho : (j.ctx k).opened = true := by rw [h0.opened]; exact hl
  have hrw := h0.rw
  have hst := h0.stash
  have hla := h0.latched
  have hrid0 : (s.ctx k).reqMsg = none → (s.ctx k).requestId = 0 := by
    intro hn
    cases hz : (s.ctx k).requestId with
    | zero => rfl
    | succ n => have := hM'.mi.rid k (by rw [hz]; simp); rw [hn] at this; cases this
  unfold ctxRecv
  dsimp only
  split
  · -- ESTATE or the latched ECONNRESET
    rename_i hcond
    split
    · -- latched
      rename_i hcr
      obtain ⟨c1, c2, c3, c4⟩ := hM'.mi.creset k hcr
      rw [step_recv j c a mode _ hM.g.closed (Or.inr ⟨_, _, _, rfl⟩)]
      have hreq : (j.ctx k).req = none := h0.none c1 c2
      have e1 : evRecv j c a mode [.done a Err.econnreset none false] = (setC j k { j.ctx k with latched := false }, []) := by
        unfold evRecv
        simp [hkk, ho, hrw, c3, hst, c2, hreq, hla, hcr, doneOf_single]
      rw [e1]
      have e2 : phDone (.recv c a mode) (some a) [] [.done a Err.econnreset none false] (setC j k { j.ctx k with latched := false }) =
          setC j k { j.ctx k with latched := false } := by simp [phDone, Err.econnreset]
      rw [e2]
      have hfin : R rest (setCtx s k { s.ctx k with connReset := false }) (setC j k { j.ctx k with latched := false }) :=
        idle_R k { s.ctx k with connReset := false } { j.ctx k with latched := false } hM' ⟨c4, c3, c1⟩
          ⟨c4, c3, c1, c2, rfl, hrid0 c1⟩ (fun _ => by
            have := hM'.mi.biglive k
            apply Nat.le_of_not_lt; intro hlt; rw [this hlt] at hl; cases hl)
          h0.opened h0.retry ⟨hreq, by rw [hst, c2], by rw [hrw, c3]; rfl, rfl⟩
      rw [quiescent_R hfin hD]
      exact ⟨hfin, rfl, fun _ => rfl⟩
    · -- ESTATE
      rename_i hcr
      have hcr' : (s.ctx k).connReset = false := by simpa using hcr
      rw [step_recv j c a mode _ hM.g.closed (Or.inr ⟨_, _, _, rfl⟩)]
      have e1 : evRecv j c a mode [.done a Err.estate none false] = (j, []) := by
        unfold evRecv
        cases hra : (s.ctx k).recvAio with
        | some ra => simp [hkk, ho, hrw, hra, doneOf_single]
        | none =>
          have hc2 : (s.ctx k).reqMsg = none ∧ (s.ctx k).repMsg = none := by
            simp only [hra, Option.isSome_none, Bool.false_or, Bool.and_eq_true, Option.isNone_iff_eq_none] at hcond
            exact hcond
          have hreq : (j.ctx k).req = none := h0.none hc2.1 hc2.2
          simp [hkk, ho, hrw, hra, hst, hc2.2, hreq, hla, hcr', doneOf_single]
      rw [e1]
      have e2 : phDone (.recv c a mode) (some a) [] [.done a Err.estate none false] j = j := by simp [phDone, Err.estate]
      rw [e2, quiescent_R hM' hD]
      exact ⟨hM', rfl, fun _ => rfl⟩
  · rename_i hcond
    have hra : (s.ctx k).recvAio = none := by
      cases h : (s.ctx k).recvAio with
      | none => rfl
      | some _ => simp [h] at hcond
    cases hrep : (s.ctx k).repMsg with
    | some body =>
      -- the stashed reply is delivered
      dsimp only
      obtain ⟨q1, q2⟩ := hM'.mi.rep k (by rw [hrep]; rfl)
      have hfin : R rest (setCtx s k { s.ctx k with repMsg := none }) (setC j k { j.ctx k with stash := none, req := none }) := by
        have hcr : (s.ctx k).connReset = false := by
          cases h : (s.ctx k).connReset with
          | false => rfl
          | true => have := (hM'.mi.creset k h).2.1; rw [hrep] at this; cases this
        exact idle_R k { s.ctx k with repMsg := none } { j.ctx k with stash := none, req := none } hM' ⟨q2, hra, q1⟩
          ⟨q2, hra, q1, rfl, hcr, hrid0 q1⟩ (fun _ => by
            have := hM'.mi.biglive k
            apply Nat.le_of_not_lt; intro hlt; rw [this hlt] at hl; cases hl)
          h0.opened h0.retry ⟨rfl, rfl, by rw [hrw, hra]; rfl, by rw [hla, hcr]⟩
      have hfin' : R rest (if (k == 0) = true then { setCtx s k { s.ctx k with repMsg := none } with readable := false }
          else setCtx s k { s.ctx k with repMsg := none }) (setC j k { j.ctx k with stash := none, req := none }) := by
        split
        · exact M.congr (s := setCtx s k { s.ctx k with repMsg := none }) rfl hfin
        · exact hfin
      have hD' : Dr (if (k == 0) = true then { setCtx s k { s.ctx k with repMsg := none } with readable := false }
          else setCtx s k { s.ctx k with repMsg := none }) := by split <;> exact hD
      rw [step_recv j c a mode _ hM.g.closed (Or.inr ⟨_, _, _, rfl⟩)]
      have e1 : evRecv j c a mode [.done a 0 (some ⟨[], body⟩) false] = (setC j k { j.ctx k with stash := none, req := none }, [a]) := by
        unfold evRecv
        simp [hkk, ho, hrw, hra, hst, hrep, doneOf_single]
      rw [e1]
      have e2 : phDone (.recv c a mode) (some a) [a] [.done a 0 (some ⟨[], body⟩) false] (setC j k { j.ctx k with stash := none, req := none }) =
          setC j k { j.ctx k with stash := none, req := none } := by simp [phDone]
      rw [e2, quiescent_R hfin' hD']
      exact ⟨hfin', rfl, fun _ => rfl⟩
    | none =>
      dsimp only
      have hq : (s.ctx k).reqMsg.isSome = true := by
        cases h : (s.ctx k).reqMsg with
        | some _ => rfl
        | none => simp [hra, h, hrep] at hcond
      obtain ⟨h', hq'⟩ := Option.isSome_iff_exists.1 hq
      obtain ⟨r, hr, hrq⟩ := h0.req h' hq'
      cases hsf : startFails mode with
      | some rv =>
        dsimp only
        have hrv : rv ≠ 0 := by
          unfold startFails at hsf
          split at hsf <;> simp at hsf <;> (subst hsf; decide)
        rw [step_recv j c a mode _ hM.g.closed (Or.inr ⟨_, _, _, rfl⟩)]
        have e1 : evRecv j c a mode [.done a rv none false] = (j, []) := by
          unfold evRecv
          unfold startFails at hsf
          cases mode with
          | nb => simp [hkk, ho, hrw, hra, hst, hrep, hr]
          | ms n =>
            cases n with
            | zero => simp [hkk, ho, hrw, hra, hst, hrep, hr]
            | succ n => simp at hsf
          | inf => simp at hsf
          | dflt => simp at hsf
        rw [e1]
        have e2 : phDone (.recv c a mode) (some a) [] [.done a rv none false] j = j := by simp [phDone, hrv]
        rw [e2, quiescent_R hM' hD]
        exact ⟨hM', rfl, fun _ => rfl⟩
      | none =>
        dsimp only
        rw [step_recv j c a mode _ hM.g.closed (Or.inl rfl)]
        have e1 : evRecv j c a mode [] = (setC j k { j.ctx k with recvWait := some a }, []) := by
          unfold evRecv
          unfold startFails at hsf
          cases mode with
          | nb => simp at hsf
          | ms n =>
            cases n with
            | zero => simp at hsf
            | succ n => simp [hkk, ho, hrw, hra, hst, hrep, hr, doneOf]
          | inf => simp [hkk, ho, hrw, hra, hst, hrep, hr, doneOf]
          | dflt => simp [hkk, ho, hrw, hra, hst, hrep, hr, doneOf]
        rw [e1]
        have e2 : phDone (.recv c a mode) (some a) [] [] (setC j k { j.ctx k with recvWait := some a }) =
            setC j k { j.ctx k with recvWait := some a } := rfl
        rw [e2]
        have hfin : R rest (setCtx s k { s.ctx k with recvAio := some ⟨a, deadlineOf s.now mode⟩ })
            (setC j k { j.ctx k with recvWait := some a }) := by
          have hG := hM'.g.setCtx k { s.ctx k with recvAio := some ⟨a, deadlineOf s.now mode⟩ } rfl
          refine ⟨hM'.mi.setRecv k a _ hl hq (aioParked_none hM'.mi hp), hG.setC k _, fun x _ => ?_,
            fun x hx => by cases hx⟩
          by_cases e : x = k
          · subst e
            rw [setC_ctx_same]
            exact h0.setCtx_self (cj' := { j.ctx x with recvWait := some a }) { s.ctx x with recvAio := some ⟨a, deadlineOf s.now mode⟩ } rfl rfl
              ⟨rfl, rfl, rfl, rfl, rfl, rfl, rfl, rfl, rfl, rfl, rfl⟩ ⟨rfl, rfl, rfl, rfl, rfl⟩ rfl
          · rw [setC_ctx_other _ _ _ _ e]
            exact setCtx_frame (j := j) k x _ e rfl rfl (hM'.rc x (by simp))
        simp only [hrep] at hfin
        rw [quiescent_R hfin hD]
        exact ⟨hfin, rfl, fun _ => rfl⟩

theorem sim_recv {rest : List Ev} {s : State} {j : J} (c : Option Nat) (a : Nat) (mode : Mode)
    (hM : R (.recv c a mode :: rest) s j) (hD : Dr s) :
    Sim rest (Req.step s (.recv c a mode)).1 j (ReqSpec.step j (.recv c a mode) (Req.step s (.recv c a mode)).2)
      (.recv c a mode) := by
  unfold Req.step
  rw [if_neg (by simp [hM.mi.open_]), if_neg (by simp [hM.mi.notgone])]
  dsimp only
  split
  · exact sim_refused _ _ hM
  split
  · exact sim_refused _ _ hM
  split
  · rename_i hl
    exact sim_recv_dead c a mode hM hD (by simpa using hl)
  · rename_i hp hl
    exact sim_ctxRecv c a mode hM hD (by simpa using hl) (by simpa using hp)

end Nng.ReqJ
