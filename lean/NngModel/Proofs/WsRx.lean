import NngModel.Model.Ws
import NngModel.Proofs.WsFrame
namespace Nng.Ws

/-! ### the transport: cut independence, exact reads -/

theorem rx_append (cfg : Cfg) (s : St) (a b : Bytes) :
    rx cfg s (a ++ b) = ((rx cfg (rx cfg s a).1 b).1, (rx cfg s a).2 ++ (rx cfg (rx cfg s a).1 b).2) := by
  induction a generalizing s with
  | nil => simp [rx]
  | cons x xs ih => simp only [List.cons_append, rx, ih, List.append_assoc]

theorem rxFold_aux (cfg : Cfg) (s : St) (ev : List Ev) (bs : Bytes) :
    bs.foldl (fun acc b => let r := rxByte cfg acc.1 b; (r.1, acc.2 ++ r.2)) (s, ev) = ((rx cfg s bs).1, ev ++ (rx cfg s bs).2) := by
  induction bs generalizing s ev with
  | nil => simp [rx]
  | cons x xs ih => simp only [List.foldl_cons, rx, ih, List.append_assoc]

theorem rxFold_eq_rx (cfg : Cfg) (s : St) (bs : Bytes) : rxFold cfg s bs = rx cfg s bs := by
  unfold rxFold; rw [rxFold_aux]; simp

theorem rx_idle (cfg : Cfg) (s : St) (h : s.want = 0) (bs : Bytes) : rx cfg s bs = (s, []) := by
  induction bs with
  | nil => rfl
  | cons x xs ih => simp [rx, rxByte, h, ih]

theorem rx_cons (cfg : Cfg) (s : St) (b : UInt8) (bs : Bytes) :
    rx cfg s (b :: bs) = ((rx cfg (rxByte cfg s b).1 bs).1, (rxByte cfg s b).2 ++ (rx cfg (rxByte cfg s b).1 bs).2) := rfl

theorem rxByte_acc (cfg : Cfg) (s : St) (b : UInt8) (h0 : s.want ≠ 0) (h : s.got + 1 < s.want) :
    rxByte cfg s b = ({ s with got := s.got + 1, accR := b :: s.accR }, []) := by
  simp [rxByte, h0, h]

theorem rxByte_fire (cfg : Cfg) (s : St) (b : UInt8) (h0 : s.want ≠ 0) (h : ¬ s.got + 1 < s.want) :
    rxByte cfg s b = readCb cfg s (b :: s.accR).reverse := by
  simp [rxByte, h0, h]

theorem rx_exact_aux (cfg : Cfg) (bytes : Bytes) : ∀ (s : St) (pre rest : Bytes), bytes ≠ [] →
    s.want = pre.length + bytes.length → s.got = pre.length → s.accR = pre.reverse →
    rx cfg s (bytes ++ rest) =
      ((rx cfg (readCb cfg s (pre ++ bytes)).1 rest).1, (readCb cfg s (pre ++ bytes)).2 ++ (rx cfg (readCb cfg s (pre ++ bytes)).1 rest).2) := by
  induction bytes with
  | nil => intro _ _ _ h; exact absurd rfl h
  | cons x xs ih =>
    intro s pre rest _ hw hg ha
    have hw0 : s.want ≠ 0 := by simp at hw; omega
    match xs, ih with
    | [], _ =>
      have h2 : ¬ (s.got + 1 < s.want) := by simp at hw; omega
      rw [List.cons_append, List.nil_append, rx_cons, rxByte_fire cfg s x hw0 h2, ha]
      simp
    | y :: ys, ih =>
      have h2 : s.got + 1 < s.want := by simp at hw; omega
      rw [List.cons_append, rx_cons, rxByte_acc cfg s x hw0 h2]
      have := ih { s with got := s.got + 1, accR := x :: s.accR } (pre ++ [x]) rest (by simp)
        (by simp at hw ⊢; omega) (by simp [hg]) (by simp [ha])
      simp only [List.nil_append]
      rw [this]
      have e : readCb cfg { s with got := s.got + 1, accR := x :: s.accR } (pre ++ [x] ++ y :: ys) = readCb cfg s (pre ++ x :: y :: ys) := by
        have : pre ++ [x] ++ y :: ys = pre ++ x :: y :: ys := by simp
        rw [this]; unfold readCb; rfl
      rw [e]

/-- a state with an outstanding request for exactly `bytes.length` bytes: one callback runs -/
theorem rx_exact (cfg : Cfg) (s : St) (bytes rest : Bytes) (hne : bytes ≠ [])
    (hw : s.want = bytes.length) (hg : s.got = 0) (ha : s.accR = []) :
    rx cfg s (bytes ++ rest) =
      ((rx cfg (readCb cfg s bytes).1 rest).1, (readCb cfg s bytes).2 ++ (rx cfg (readCb cfg s bytes).1 rest).2) := by
  have := rx_exact_aux cfg bytes s [] rest hne (by simpa using hw) (by simpa using hg) (by simpa using ha)
  simpa using this

/-- at a frame boundary: a read of two bytes is outstanding -/
structure Boundary (s : St) : Prop where
  phase : s.phase = .head
  want : s.want = 2
  got : s.got = 0
  acc : s.accR = []

theorem idleOf_idem (s : St) (p : Phase) (w : Nat) :
    idleOf { idleOf s with phase := p, want := w, got := 0, accR := [] } = idleOf s := by
  simp [idleOf]

/-- the frame record ws_read_cb has built when the header is complete -/
def mkF0 (b0 b1 : UInt8) (ek : Bytes) : RxFrame :=
  { b0 := b0, b1 := b1, hlen := 2 + ek.length, op := b0.toNat % 128, final := decide (b0.toNat ≥ 128),
    masked := decide (b1.toNat ≥ 128), ext := ek }

/-- the header of a frame (two bytes, then the extended length and key if any) leads to `checks` -/
theorem rx_header (cfg : Cfg) (s : St) (hb : Boundary s) (b0 b1 : UInt8) (ek more : Bytes)
    (hek : ek.length = (if b1.toNat ≥ 128 then 4 else 0) +
       (if b1.toNat % 128 = 127 then 8 else if b1.toNat % 128 = 126 then 2 else 0)) :
    let f0 : RxFrame := mkF0 b0 b1 ek
    rx cfg s (b0 :: b1 :: (ek ++ more)) =
      ((rx cfg (checks cfg (idleOf s) f0).1 more).1, (checks cfg (idleOf s) f0).2 ++ (rx cfg (checks cfg (idleOf s) f0).1 more).2) := by
  intro f0
  have h1 := rx_exact cfg s [b0, b1] (ek ++ more) (by simp) (by simp [hb.want]) hb.got hb.acc
  simp only [List.cons_append, List.nil_append] at h1
  rw [h1]
  have hcb : readCb cfg s [b0, b1] = headCb cfg (idleOf s) b0 b1 := by simp [readCb, hb.phase]
  rw [hcb]
  by_cases hz : ek.length = 0
  · have : ek = [] := List.eq_nil_of_length_eq_zero hz
    subst this
    have hh : (2 + (if decide (b1.toNat ≥ 128) = true then 4 else 0) + (if b1.toNat % 128 = 127 then 8 else if b1.toNat % 128 = 126 then 2 else 0)) = 2 := by
      simp at hek; simp; omega
    simp only [headCb, hh, ne_eq, not_true_eq_false, if_false, List.nil_append]
    rfl
  · have hh : (2 + (if decide (b1.toNat ≥ 128) = true then 4 else 0) + (if b1.toNat % 128 = 127 then 8 else if b1.toNat % 128 = 126 then 2 else 0)) = 2 + ek.length := by
      simp; simp at hek; omega
    have hne : 2 + ek.length ≠ 2 := by omega
    simp only [headCb, hh, ne_eq, hne, not_false_eq_true, if_true]
    let fx : RxFrame := { f0 with ext := [] }
    let sx : St := { idleOf s with phase := Phase.ext fx, want := 2 + ek.length - 2, got := 0, accR := [] }
    have h2 := rx_exact cfg sx ek more (by intro h; simp [h] at hz) (by simp [sx]) rfl rfl
    have e : readCb cfg sx ek = checks cfg (idleOf s) f0 := rfl
    show ((rx cfg sx (ek ++ more)).1, [] ++ (rx cfg sx (ek ++ more)).2) = _
    rw [h2, e]
    simp

end Nng.Ws
