/-
  RESPONDENT judge simulation, part B: the receive call (`recv`).
-/
import NngModel.Proofs.RespJudgeAux
namespace Nng.RespJudge
open Nng Nng.Proto Nng.Respond Nng.SurveySpec

theorem respPre_recv (j : RespJ) (k : Option Nat) (a : Nat) (mode : Mode) (outs : List Out) :
    respPre j (.recv k a mode) outs = { j with pendRecv := j.pendRecv ++ [(a, k, isZeroMode mode)] } := by
  cases mode with
  | nb => rfl
  | inf => rfl
  | dflt => rfl
  | ms n => cases n <;> rfl

theorem pollClause_recv {lp : Option (Option Bool × Option Bool)} {k : Option Nat} {a : Nat} {mode : Mode}
    {outs : List Out} {rv : Nat} {msg : Option WMsg} (hd : doneOf outs a = some (rv, msg))
    (h1 : ∀ w, lp = some (some true, w) → k = none → mode = .nb → rv ≠ Err.eagain)
    (h2 : ∀ w, lp = some (some false, w) → k = none → mode = .nb → rv ≠ 0) :
    pollClause lp (.recv k a mode) outs = none := by
  cases lp with
  | none => rfl
  | some rw =>
    obtain ⟨r, w⟩ := rw
    cases k with
    | some k => cases mode <;> rfl
    | none =>
      cases mode with
      | nb =>
        unfold pollClause
        simp only [hd]
        cases r with
        | none => rfl
        | some b =>
          cases b with
          | true =>
            have := h1 w rfl rfl rfl
            simp [this]
          | false =>
            have := h2 w rfl rfl rfl
            simp [this]
      | inf => rfl
      | dflt => rfl
      | ms n => rfl

/-- a receive that fails in the call leaves the judge's books as they were -/
theorem recv_fail_mid {j : RespJ} (k : Option Nat) (a : Nat) (mode : Mode) (rv : Nat) (mb : Bool)
    (hfr : ∀ x ∈ j.pendRecv, x.1 ≠ a) (h0 : rv ≠ 0) :
    ctxCloseStep (.recv k a mode) [.done a rv none mb]
      (respMid [.done a rv none mb] (respPre j (.recv k a mode) [.done a rv none mb])) = j := by
  rw [respPre_recv]
  show respOut [.done a rv none mb] { j with pendRecv := j.pendRecv ++ [(a, k, isZeroMode mode)] } (.done a rv none mb) = j
  have hf : ({ j with pendRecv := j.pendRecv ++ [(a, k, isZeroMode mode)] } : RespJ).pendRecv.find? (·.1 == a) =
      some (a, k, isZeroMode mode) :=
    find_append_fresh _ _ _ (fun x hx => by simpa using hfr x hx) (by simp)
  rw [respOut_done_recv_fail hf h0]
  have : (j.pendRecv ++ [(a, k, isZeroMode mode)]).filter (·.1 != a) = j.pendRecv :=
    filter_append_fresh _ _ _ (fun x hx => by simpa using hfr x hx) (by simp)
  show ({ j with pendRecv := (j.pendRecv ++ [(a, k, isZeroMode mode)]).filter (·.1 != a) } : RespJ) = j
  rw [this]

/-- a receive that fails in the call: the whole step -/
theorem recv_fail_ok {s : State} {j : RespJ} {used : List Bytes} (hR : Rel s j used) (hI : MInv s)
    (k : Option Nat) (a : Nat) (mode : Mode) (rv : Nat) (hb : aioBusy s a = false) (h0 : rv ≠ 0)
    (h8 : k = none → mode = .nb → rv = Err.eagain → s.recvpipes = []) :
    Rel s (respStep j (.recv k a mode) [.done a rv none false]) used := by
  have hfr := (aio_fresh hR.core hb).1
  refine step_finish _ _ hR.core.err rfl hI.n (recv_fail_mid k a mode rv false hfr h0) ?_ rfl ?_ (by intro r w h; cases h)
  · rw [unfreshJ_id hR.core.fresh]; exact hR.core
  · apply pollClause_recv (rv := rv) (msg := none) (by simp [doneOf])
    · intro w hlp hk hm e
      have hrd := (hR.poll _ _ hlp).1
      have : s.readable = true := by simpa using hrd.symm
      exact (hI.rd.1 this) (h8 hk hm e)
    · intro _ _ _ _; exact h0

/-- a context is replaced by one the judge cannot tell from it -/
theorem rel_setCtx_same {s : State} {j : RespJ} {used : List Bytes} (hc : RelCore s j used) (hk : (s.ctxs.map (·.key)).Nodup)
    {c : Ctx} (c' : Ctx) (hcm : c ∈ s.ctxs) (hkey : c'.key = c.key) (ha : absCtx c' = absCtx c)
    (hs : c'.saio = c.saio) (hr : c'.raio = c.raio) : RelCore (setCtx s c') j used := by
  refine ⟨hc.err, hc.closed, hc.ttl, hc.ttl0, ?_, hc.arr, ?_, ?_, hc.aios, hc.gone, hc.infl, hc.bodies, hc.used⟩
  · exact hc.ctxs.trans (abs_setCtx_same hk hcm hkey ha).symm
  · intro x; rw [prof_setCtx_same hk hcm hkey hr]; exact hc.pr x
  · intro e; rw [psof_setCtx_same hk hcm hkey hs]; exact hc.ps e

/-- a context parks a receive -/
theorem rel_park_recv {s : State} {j : RespJ} {used : List Bytes} (hc : RelCore s j used) (hk : (s.ctxs.map (·.key)).Nodup)
    {c : Ctx} (c' : Ctx) (r : PRecv) (hcm : c ∈ s.ctxs) (hkey : c'.key = c.key) (ha : absCtx c' = absCtx c)
    (hs : c'.saio = c.saio) (hr0 : c.raio = none) (hr : c'.raio = some r)
    (hf1 : ∀ y ∈ j.pendRecv, y.1 ≠ r.aio) (hf2 : ∀ e ∈ j.pendSend, e.aio ≠ r.aio) :
    RelCore (setCtx s c') { j with pendRecv := j.pendRecv ++ [(r.aio, c.key, false)] } used := by
  refine ⟨hc.err, hc.closed, hc.ttl, hc.ttl0, ?_, hc.arr, ?_, ?_, ?_, hc.gone, hc.infl, hc.bodies, hc.used⟩
  · exact hc.ctxs.trans (abs_setCtx_same hk hcm hkey ha).symm
  · intro x
    rw [prof_setCtx hcm hkey]
    simp only [List.mem_append, List.mem_singleton, hc.pr x, prof_split hk hcm x, hr0, hr, hkey]
    simp only [Option.some.injEq]
    constructor
    · rintro ((⟨r', hr', _⟩ | h) | h)
      · cases hr'
      · exact Or.inr h
      · exact Or.inl ⟨_, rfl, h⟩
    · rintro (⟨r', hr', h⟩ | h)
      · subst hr'; exact Or.inr h
      · exact Or.inl (Or.inr h)
  · intro e
    rw [psof_setCtx_same hk hcm hkey hs]; exact hc.ps e
  · exact aios_add_recv (x := (r.aio, c.key, false)) hc.aios hf1 hf2

theorem prof_ctxs {s s' : State} (h : s'.ctxs = s.ctxs) (x : Nat × Option Nat × Bool) : PRof s' x ↔ PRof s x := by
  unfold PRof; rw [h]

theorem psof_ctxs {s s' : State} (h : s'.ctxs = s.ctxs) (e : Expect) : PSof s' e ↔ PSof s e := by
  unfold PSof; rw [h]

theorem absCtx_take (c : Ctx) (p : Nat) (wm : WMsg) (h : wm.hdr ≠ []) :
    absCtx (takeSurvey c p wm) = { absCtx c with cur := some (p, wm.hdr) } := by
  unfold absCtx takeSurvey
  have : wm.hdr.isEmpty = false := by
    cases hh : wm.hdr with
    | nil => exact absurd hh h
    | cons a r => rfl
  simp [this]

/-- the head of the receivable pipes hands its survey to context `c` -/
theorem rel_take {s : State} {j : RespJ} {used : List Bytes} (hc : RelCore s j used) (hn : NInv s)
    {p : Nat} {rest : List Nat} {pp : Pipe} {wm : WMsg} {c : Ctx} (b : Bool)
    (hrp : s.recvpipes = p :: rest) (hgp : getPipe s p = some pp) (hheld : pp.held = some wm) (hh : wm.hdr ≠ [])
    (hcm : c ∈ s.ctxs) :
    ∃ jrest, j.arrivals = ⟨p, wm.hdr, wm.body⟩ :: jrest ∧
      RelCore (setCtx (setPipe { s with recvpipes := rest, readable := b } { pp with held := none, armed := true }) (takeSurvey c p wm))
        (RespJ.setCtx { j with arrivals := jrest } { absCtx c with cur := some (p, wm.hdr) }) used := by
  have hid := getPipe_id hgp
  have harr := hc.arr
  rw [hrp] at harr
  have hap : arrOf s p = some ⟨p, wm.hdr, wm.body⟩ := by
    unfold arrOf; rw [hgp]; simp [hheld]
  cases hja : j.arrivals with
  | nil => rw [hja] at harr; simp at harr
  | cons ar jrest =>
    rw [hja] at harr
    simp only [List.map_cons, List.cons.injEq] at harr
    obtain ⟨h1, h2⟩ := harr
    rw [hap] at h1
    injection h1 with h1
    subst h1
    refine ⟨jrest, rfl, ?_⟩
    have hnd : p ∉ rest ∧ rest.Nodup := by
      have := hn.rpnd; rw [hrp] at this; exact List.nodup_cons.1 this
    have hg1 : getPipe { s with recvpipes := rest, readable := b } pp.id = some pp := by rw [hid]; exact hgp
    have hcm1 : c ∈ (setPipe { s with recvpipes := rest, readable := b } { pp with held := none, armed := true }).ctxs := hcm
    have hj0 : ({ j with arrivals := jrest } : RespJ).ctxs =
        (setPipe { s with recvpipes := rest, readable := b } { pp with held := none, armed := true }).ctxs.map absCtx := hc.ctxs
    refine ⟨hc.err, hc.closed, hc.ttl, hc.ttl0, ?_, ?_, ?_, ?_, hc.aios, ?_, ?_, hc.bodies, hc.used⟩
    · rw [← absCtx_take c p wm hh]
      exact setCtxJ_eq hj0 _
    · show jrest.map some = rest.map (arrOf _)
      rw [h2]
      apply List.map_congr_left
      intro q hq
      have hqp : q ≠ p := fun e => hnd.1 (e ▸ hq)
      have e1 := arrOf_pipes (s := setPipe { s with recvpipes := rest, readable := b } { pp with held := none, armed := true })
        (s' := setCtx (setPipe { s with recvpipes := rest, readable := b } { pp with held := none, armed := true }) (takeSurvey c p wm)) rfl q
      have e2 := arrOf_setPipe_ne (s := { s with recvpipes := rest, readable := b }) (pp' := { pp with held := none, armed := true })
        (q := q) (by rw [hid]; exact hqp)
      have e3 := arrOf_pipes (s := s) (s' := { s with recvpipes := rest, readable := b }) rfl q
      exact (e1.trans (e2.trans e3)).symm
    · intro x
      rw [prof_setCtx_same (s := setPipe { s with recvpipes := rest, readable := b } { pp with held := none, armed := true })
        (c' := takeSurvey c p wm) hn.keys hcm1 rfl rfl]
      exact hc.pr x
    · intro e
      rw [psof_setCtx_same (s := setPipe { s with recvpipes := rest, readable := b } { pp with held := none, armed := true })
        (c' := takeSurvey c p wm) hn.keys hcm1 rfl rfl]
      exact hc.ps e
    · intro q
      show q ∈ j.gone ↔ (getPipe (setPipe { s with recvpipes := rest, readable := b } { pp with held := none, armed := true }) q).map (·.closed) = some true
      rw [hc.gone q, closed_setPipe (pp' := { pp with held := none, armed := true }) hg1 rfl rfl]
      rfl
    · intro q
      show q ∈ j.inflight ↔ (getPipe (setPipe { s with recvpipes := rest, readable := b } { pp with held := none, armed := true }) q).map (·.busy) = some true
      rw [hc.infl q, busy_setPipe (pp' := { pp with held := none, armed := true }) hg1 rfl rfl]
      rfl

theorem ctxRecv_ok {s : State} {j : RespJ} {used : List Bytes} (hR : Rel s j used) (hI : MInv s)
    (k : Option Nat) (c : Ctx) (a : Nat) (mode : Mode) (hg : getCtx s k = some c) (hb : aioBusy s a = false) :
    Rel (ctxRecv s c a mode).1 (respStep j (.recv k a mode) (ctxRecv s c a mode).2) used := by
  have hc := hR.core
  have hcm : c ∈ s.ctxs := getCtx_mem hg
  have hck : c.key = k := getCtx_key hg
  subst hck
  have hfr := aio_fresh hc hb
  have hn' : NInv (ctxRecv s c a mode).1 := ctxRecv_ninv a mode hI.n hcm
  unfold ctxRecv at hn' ⊢
  split
  · rename_i hrp
    split
    · rename_i rv hz
      obtain ⟨_, hrv, hnb⟩ := isZero_of_zeroRv_some hz
      refine recv_fail_ok hR hI c.key a mode rv hb ?_ (fun _ _ _ => hrp)
      rcases hrv with e | e <;> rw [e] <;> decide
    · rename_i hz
      split
      · refine recv_fail_ok hR hI c.key a mode Err.estate hb (by decide) ?_
        intro _ _ e; exact absurd e (by decide)
      · rename_i hra
        -- the receive is parked
        rw [hrp] at hn'
        simp only [hz] at hn'
        rw [if_neg hra] at hn'
        have hra' : c.raio = none := by
          cases hx : c.raio with
          | none => rfl
          | some _ => rw [hx] at hra; exact absurd rfl hra
        have hzm := isZero_of_zeroRv_none hz
        have hj2 : ctxCloseStep (.recv c.key a mode) [] (respMid [] (respPre j (.recv c.key a mode) [])) =
            { j with pendRecv := j.pendRecv ++ [(a, c.key, false)] } := by
          rw [respPre_recv, hzm]; rfl
        refine step_finish _ _ hc.err rfl hn' hj2 ?_ rfl (pollClause_skip _ _ _ ?_) (by intro r w h; cases h)
        · rw [unfreshJ_id (j := { j with pendRecv := j.pendRecv ++ [(a, c.key, false)] }) hc.fresh]
          have hcore := rel_park_recv hc hI.n.keys { c with raio := some ⟨a, deadlineOf s.now mode⟩ } ⟨a, deadlineOf s.now mode⟩
            hcm rfl rfl rfl hra' rfl hfr.1 hfr.2
          exact hcore.of_eq rfl rfl rfl rfl rfl rfl
        · cases mode <;> first | rfl | (cases hkk : c.key <;> first | rfl | cases hz)
  · rename_i p rest hrp
    split
    · exact refused_ok hR _ _
    · rename_i pp hgp
      split
      · exact refused_ok hR _ _
      · rename_i wm hheld
        have hh : wm.hdr ≠ [] := hI.w.held pp (getPipe_mem hgp) wm hheld
        rw [hrp] at hn'
        simp only [hgp, hheld] at hn'
        simp only
        have key : ∀ b : Bool,
            NInv (setWritableFor (setCtx (setPipe { s with recvpipes := rest, readable := b } { pp with held := none, armed := true })
                  (takeSurvey c p wm)) c.key pp.busy) →
            Rel (setWritableFor (setCtx (setPipe { s with recvpipes := rest, readable := b } { pp with held := none, armed := true })
                  (takeSurvey c p wm)) c.key pp.busy)
              (respStep j (.recv c.key a mode) [Out.parm p, Out.done a 0 (some ⟨[], wm.body⟩) false]) used := by
          intro b hn2
          obtain ⟨jrest, hja, hrel⟩ := rel_take hc hI.n b hrp hgp hheld hh hcm
          have hf : ({ j with pendRecv := j.pendRecv ++ [(a, c.key, isZeroMode mode)] } : RespJ).pendRecv.find? (·.1 == a) =
              some (a, c.key, isZeroMode mode) :=
            find_append_fresh _ _ _ (fun x hx => by simpa using hfr.1 x hx) (by simp)
          have hfl : (j.pendRecv ++ [(a, c.key, isZeroMode mode)]).filter (·.1 != a) = j.pendRecv :=
            filter_append_fresh _ _ _ (fun x hx => by simpa using hfr.1 x hx) (by simp)
          have hgc : RespJ.getCtx { j with pendRecv := j.pendRecv ++ [(a, c.key, isZeroMode mode)] } c.key = some (absCtx c) := by
            have := getCtxJ_eq hc.ctxs c.key
            rw [hg] at this
            exact this
          have hj2 : ctxCloseStep (.recv c.key a mode) [Out.parm p, Out.done a 0 (some ⟨[], wm.body⟩) false]
              (respMid [Out.parm p, Out.done a 0 (some ⟨[], wm.body⟩) false]
                (respPre j (.recv c.key a mode) [Out.parm p, Out.done a 0 (some ⟨[], wm.body⟩) false])) =
              RespJ.setCtx { j with arrivals := jrest } { absCtx c with cur := some (p, wm.hdr) } := by
            rw [respPre_recv]
            show respOut _ { j with pendRecv := j.pendRecv ++ [(a, c.key, isZeroMode mode)] } (.done a 0 (some ⟨[], wm.body⟩) false) = _
            rw [respOut_done_recv_ok (x := (a, c.key, isZeroMode mode)) (m := ⟨[], wm.body⟩) (ar := ⟨p, wm.hdr, wm.body⟩) (rest := jrest)
              (c := absCtx c) hf rfl hja rfl hgc]
            show RespJ.setCtx { j with pendRecv := (j.pendRecv ++ [(a, c.key, isZeroMode mode)]).filter (·.1 != a), arrivals := jrest } _ = _
            rw [hfl]
          refine step_finish _ _ hc.err rfl hn2 hj2 ?_ rfl ?_ (by intro r w h; cases h)
          · rw [unfreshJ_id]
            · exact hrel.of_eq (by simp) (by simp) (by simp) (by simp) (by simp) (by simp)
            · exact hc.fresh
          · apply pollClause_recv (rv := 0) (msg := some ⟨[], wm.body⟩) (by simp [doneOf])
            · intro _ _ _ _ e; exact absurd e (by decide)
            · intro w hlp _ _ _
              have hrd := (hR.poll _ _ hlp).1
              have : s.readable = false := by simpa using hrd.symm
              have h2 := hI.rd.2 (by rw [hrp]; simp)
              rw [this] at h2; cases h2
        cases hre : rest.isEmpty
        · simp only [hre, Bool.false_eq_true, ↓reduceIte] at hn' ⊢
          exact key s.readable hn'
        · simp only [hre, ↓reduceIte] at hn' ⊢
          exact key false hn'

end Nng.RespJudge
