/-
  C16 (HTTP layer): generic lemma "two line meanings that are related decode every stream alike", and the
  string functions of the model (strchr, the trimming loops, case-insensitive compare) against those of the
  specification (splitFirst, trim, sameName).
-/
import NngModel.Proofs.HttpConn
namespace Nng.HttpConn
open Nng

/-! ### two related line meanings give related decodings -/

/-- decoder states that agree on everything but the line-meaning state, which is related by `R` -/
inductive StRel {σ τ : Type} (R : σ → τ → Prop) : HttpSpec.St σ → HttpSpec.St τ → Prop where
  | run (a : σ) (b : τ) (racc : Bytes) (len n : Nat) : R a b → StRel R (.run a racc len n) (.run b racc len n)
  | done (a : σ) (b : τ) (n : Nat) : R a b → StRel R (.done a n) (.done b n)
  | fail (rv : Nat) : StRel R (.fail rv) (.fail rv)

/-- `R` is a simulation between the two line meanings -/
structure SemRel {σ τ : Type} (R : σ → τ → Prop) (s1 : HttpSpec.LineSem σ) (s2 : HttpSpec.LineSem τ) : Prop where
  onLine : ∀ a b line, R a b → (s1.onLine a line).2 = (s2.onLine b line).2 ∧ R (s1.onLine a line).1 (s2.onLine b line).1
  onLong : ∀ a b, R a b → (s1.onLong a = none ∧ s2.onLong b = none) ∨
      ∃ a' b', s1.onLong a = some a' ∧ s2.onLong b = some b' ∧ R a' b'
  finish : ∀ a b, R a b → (s1.finish a).2 = (s2.finish b).2 ∧ R (s1.finish a).1 (s2.finish b).1

theorem stepByte_rel {σ τ : Type} (R : σ → τ → Prop) (s1 : HttpSpec.LineSem σ) (s2 : HttpSpec.LineSem τ)
    (h : SemRel R s1 s2) (maxLine : Nat) (mark : Bytes) (x : HttpSpec.St σ) (y : HttpSpec.St τ) (c : UInt8)
    (hxy : StRel R x y) : StRel R (HttpSpec.stepByte s1 maxLine mark x c) (HttpSpec.stepByte s2 maxLine mark y c) := by
  cases hxy with
  | done a b n hr => exact StRel.done a b n hr
  | fail rv => exact StRel.fail rv
  | run a b racc len n hr =>
    simp only [HttpSpec.stepByte]
    by_cases hc : c = HttpSpec.LF
    · rw [if_pos hc, if_pos hc]
      by_cases he : (HttpSpec.lineOfAcc racc).isEmpty = true
      · rw [if_pos he, if_pos he]
        obtain ⟨h1, h2⟩ := h.finish a b hr
        by_cases h0 : (s1.finish a).2 ≠ 0
        · rw [if_pos h0, if_pos (h1 ▸ h0), h1]; exact StRel.fail _
        · rw [if_neg h0, if_neg (h1 ▸ h0)]; exact StRel.done _ _ _ h2
      · rw [if_neg he, if_neg he]
        obtain ⟨h1, h2⟩ := h.onLine a b (HttpSpec.lineOfAcc racc) hr
        by_cases h0 : (s1.onLine a (HttpSpec.lineOfAcc racc)).2 ≠ 0
        · rw [if_pos h0, if_pos (h1 ▸ h0), h1]; exact StRel.fail _
        · rw [if_neg h0, if_neg (h1 ▸ h0)]; exact StRel.run _ _ _ _ _ h2
    · rw [if_neg hc, if_neg hc]
      by_cases hb : (HttpSpec.isBadCtl c || HttpSpec.endsWithCR racc) = true
      · rw [if_pos hb, if_pos hb]; exact StRel.fail _
      · rw [if_neg hb, if_neg hb]
        by_cases hl : len + 1 = maxLine
        · rw [if_pos hl, if_pos hl]
          rcases h.onLong a b hr with ⟨e1, e2⟩ | ⟨a', b', e1, e2, hr'⟩
          · rw [e1, e2]; exact StRel.fail _
          · rw [e1, e2]; exact StRel.run _ _ _ _ _ hr'
        · rw [if_neg hl, if_neg hl]; exact StRel.run _ _ _ _ _ hr

theorem foldl_rel {σ τ : Type} (R : σ → τ → Prop) (s1 : HttpSpec.LineSem σ) (s2 : HttpSpec.LineSem τ)
    (h : SemRel R s1 s2) (maxLine : Nat) (mark : Bytes) (s : Bytes) :
    ∀ (x : HttpSpec.St σ) (y : HttpSpec.St τ), StRel R x y →
      StRel R (s.foldl (HttpSpec.stepByte s1 maxLine mark) x) (s.foldl (HttpSpec.stepByte s2 maxLine mark) y) := by
  induction s with
  | nil => intro x y hxy; exact hxy
  | cons c r ih =>
    intro x y hxy
    rw [List.foldl_cons, List.foldl_cons]
    exact ih _ _ (stepByte_rel R s1 s2 h maxLine mark x y c hxy)

/-- related line meanings, related initial states: related decodings of every stream -/
theorem decode_rel {σ τ : Type} (R : σ → τ → Prop) (s1 : HttpSpec.LineSem σ) (s2 : HttpSpec.LineSem τ)
    (h : SemRel R s1 s2) (maxLine : Nat) (mark : Bytes) (a : σ) (b : τ) (hab : R a b) (s : Bytes) :
    StRel R (HttpSpec.decode s1 maxLine mark a s) (HttpSpec.decode s2 maxLine mark b s) :=
  foldl_rel R s1 s2 h maxLine mark s _ _ (StRel.run a b [] 0 0 hab)

/-! ### the string functions -/

theorem lower_eq : HttpSpec.lower = lower := by
  funext c; rfl

theorem sameName_eq (a b : Bytes) : HttpSpec.sameName a b = ieq a b := by
  unfold HttpSpec.sameName ieq
  rw [lower_eq]

theorem isWs_eq : HttpSpec.isWs = isWs := by
  funext c; rfl

theorem ieq_comm (a b : Bytes) : ieq a b = ieq b a := by
  unfold ieq
  exact Bool.beq_comm

theorem splitFirst_eq (ch : UInt8) (s : Bytes) : HttpSpec.splitFirst ch s = strchr ch s := by
  induction s with
  | nil => rfl
  | cons c r ih =>
    unfold HttpSpec.splitFirst at ih ⊢
    unfold strchr
    by_cases hc : c = ch
    · subst hc
      simp
    · have h1 : (ch == c) = false := by
        simp only [beq_eq_false_iff_ne, ne_eq]
        exact fun e => hc e.symm
      have h2 : (c != ch) = true := by simpa using hc
      rw [if_neg hc, List.contains_cons, h1, Bool.false_or, ← ih]
      by_cases hr : r.contains ch = true
      · rw [if_pos hr, if_pos hr]
        simp only [List.takeWhile_cons, List.dropWhile_cons, h2, if_true]
      · rw [if_neg hr, if_neg hr]

theorem trimLead_eq (v : Bytes) : trimLead v = v.dropWhile isWs := by
  induction v with
  | nil => rfl
  | cons c r ih =>
    unfold trimLead
    rw [List.dropWhile_cons]
    by_cases h : isWs c = true
    · rw [if_pos h, if_pos h, ih]
    · rw [if_neg h, if_neg h]

theorem dropWhile_snoc_neg (p : UInt8 → Bool) (l : Bytes) (c : UInt8) (h : p c = false) :
    (l ++ [c]).dropWhile p = l.dropWhile p ++ [c] := by
  induction l with
  | nil => simp [h]
  | cons a r ih =>
    rw [List.cons_append, List.dropWhile_cons, List.dropWhile_cons]
    by_cases ha : p a = true
    · rw [if_pos ha, if_pos ha, ih]
    · rw [if_neg ha, if_neg ha]; rfl

theorem dropWhile_head_neg (p : UInt8 → Bool) (l : Bytes) : ∀ c r, l.dropWhile p = c :: r → p c = false := by
  induction l with
  | nil => intro c r h; cases h
  | cons a t ih =>
    intro c r h
    rw [List.dropWhile_cons] at h
    by_cases ha : p a = true
    · rw [if_pos ha] at h; exact ih c r h
    · rw [if_neg ha] at h
      cases h
      simpa using ha

/-- the specification's `trim` is the two C loops (the second one never removes the first character, which
    after the first loop is not white space) -/
theorem trim_eq (v : Bytes) : HttpSpec.trim v = trimTrail (trimLead v) := by
  unfold HttpSpec.trim
  rw [isWs_eq, trimLead_eq]
  cases h : v.dropWhile isWs with
  | nil => rfl
  | cons c r =>
    have hc := dropWhile_head_neg isWs v c r h
    unfold trimTrail
    rw [List.reverse_cons, dropWhile_snoc_neg isWs _ c hc, List.reverse_append]
    rfl

theorem headerLine_eq (line : Bytes) :
    HttpSpec.headerLine line = (strchr COLON line).map fun kv => (kv.1, trimTrail (trimLead kv.2)) := by
  unfold HttpSpec.headerLine
  have : HttpSpec.COLON = COLON := rfl
  rw [this, splitFirst_eq]
  cases strchr COLON line with
  | none => rfl
  | some kv => simp [trim_eq]

end Nng.HttpConn
