/- C05: per-context lemmas about the SUB model (one context at a time) -/
import NngModel.Proofs.SubMatch
namespace Nng.Sub
open Nng Nng.Proto

/-- what holds of every live context in every reachable state -/
structure CtxInv (arr : List GMsg) (c : Ctx) : Prop where
  len : c.q.length ≤ c.cap
  cap : 1 ≤ c.cap
  wait : c.rq ≠ [] → c.q = []
  hist : (c.got ++ c.q).Sublist arr
  nodup : c.topics.Nodup

theorem CtxInv.mono {arr : List GMsg} {c : Ctx} (x : List GMsg) (h : CtxInv arr c) : CtxInv (arr ++ x) c :=
  { h with hist := h.hist.trans (List.sublist_append_left arr x) }

/-! ### arrival -/

/-- T2 (room): a context with room and no waiting receiver queues the message iff it matches -/
theorem arriveCtx_room (gm : GMsg) (c : Ctx) (hroom : c.q.length < c.cap) (hrq : c.rq = []) :
    arriveCtx gm c =
      if subMatches c.topics gm.body then ({ c with q := c.q ++ [gm] }, [], true) else (c, [], false) := by
  have hnf : lmqFull c = false := by simp [lmqFull]; omega
  unfold arriveCtx
  simp only [hnf, Bool.false_and, Bool.false_eq_true, if_false]
  by_cases hm : subMatches c.topics gm.body = true
  · simp only [hm, Bool.not_true, Bool.false_eq_true, if_false, if_true, hrq]
    unfold lmqPut
    have : ¬ c.q.length ≥ c.cap := by omega
    simp [this, hrq]
  · simp only [Bool.not_eq_true] at hm
    simp [hm]

/-- T2 (waiter): a context with a waiting receiver (hence an empty queue) hands a matching
    message to the first waiter at once, bytes unchanged; a non-matching one is ignored -/
theorem arriveCtx_waiter (gm : GMsg) (c : Ctx) (a : Parked) (rest : List Parked)
    (hq : c.q = []) (hcap : 1 ≤ c.cap) (hrq : c.rq = a :: rest) :
    arriveCtx gm c =
      if subMatches c.topics gm.body then
        ({ c with rq := rest, got := c.got ++ [gm] }, [Out.done a.aio 0 (some ⟨[], gm.body⟩) false], false)
      else (c, [], false) := by
  have hnf : lmqFull c = false := by simp [lmqFull, hq]; omega
  unfold arriveCtx
  simp only [hnf, Bool.false_and, Bool.false_eq_true, if_false]
  by_cases hm : subMatches c.topics gm.body = true
  · simp [hm, hrq]
  · simp only [Bool.not_eq_true] at hm
    simp [hm]

/-- T3: a full context (no receiver can be waiting) drops exactly one message per matching
    arrival — the oldest queued one if prefer_new, otherwise the arriving one — and ignores
    a non-matching arrival -/
theorem arriveCtx_full (gm : GMsg) (c : Ctx) (old : GMsg) (t : List GMsg)
    (hq : c.q = old :: t) (hfull : c.q.length = c.cap) (hrq : c.rq = []) :
    arriveCtx gm c =
      if subMatches c.topics gm.body && c.preferNew then
        ({ c with q := t ++ [gm], dropped := c.dropped ++ [old] }, [], true)
      else (c, [], false) := by
  have hf : lmqFull c = true := by simp [lmqFull]; omega
  unfold arriveCtx
  by_cases hp : c.preferNew = true
  · by_cases hm : subMatches c.topics gm.body = true
    · simp only [hf, hp, hm, Bool.not_true, Bool.and_false, Bool.false_eq_true, if_false, hrq, if_true, hq, Bool.and_self]
      unfold lmqPut
      have : ¬ t.length ≥ c.cap := by rw [hq] at hfull; simp at hfull; omega
      simp [this]
    · simp only [Bool.not_eq_true] at hm
      simp [hf, hp, hm]
  · simp only [Bool.not_eq_true] at hp
    simp [hf, hp]

theorem arriveCtx_inv {arr : List GMsg} (gm : GMsg) {c : Ctx} (h : CtxInv arr c) :
    CtxInv (arr ++ [gm]) (arriveCtx gm c).1 := by
  cases hrq : c.rq with
  | cons a rest =>
    have hq : c.q = [] := h.wait (by simp [hrq])
    rw [arriveCtx_waiter gm c a rest hq h.cap hrq]
    by_cases hm : subMatches c.topics gm.body = true
    · simp only [hm, if_true]
      refine ⟨by simp [hq], h.cap, fun _ => hq, ?_, h.nodup⟩
      have := h.hist
      simp only [hq, List.append_nil] at this ⊢
      exact List.Sublist.append this (List.Sublist.refl _)
    · simp only [hm, Bool.false_eq_true, if_false]; exact h.mono _
  | nil =>
    by_cases hroom : c.q.length < c.cap
    · rw [arriveCtx_room gm c hroom hrq]
      by_cases hm : subMatches c.topics gm.body = true
      · simp only [hm, if_true]
        refine ⟨by simp; omega, h.cap, fun hne => absurd hrq hne, ?_, h.nodup⟩
        rw [← List.append_assoc]
        exact List.Sublist.append h.hist (List.Sublist.refl _)
      · simp only [hm, Bool.false_eq_true, if_false]; exact h.mono _
    · have hfull : c.q.length = c.cap := by have := h.len; omega
      cases hq : c.q with
      | nil => have := h.cap; rw [hq] at hfull; simp at hfull; omega
      | cons old t =>
        rw [arriveCtx_full gm c old t hq hfull hrq]
        by_cases hc : (subMatches c.topics gm.body && c.preferNew) = true
        · simp only [hc, if_true]
          refine ⟨?_, h.cap, fun hne => absurd hrq hne, ?_, h.nodup⟩
          · rw [hq] at hfull; simp at hfull ⊢; omega
          · have h1 : (c.got ++ t).Sublist (c.got ++ c.q) := by
              rw [hq]; exact List.Sublist.append (List.Sublist.refl _) (List.sublist_cons_self old t)
            show (c.got ++ (t ++ [gm])).Sublist (arr ++ [gm])
            rw [← List.append_assoc]
            exact List.Sublist.append (h1.trans h.hist) (List.Sublist.refl _)
        · simp only [hc, Bool.false_eq_true, if_false]; exact h.mono _

/-- every completion produced by an arrival carries the arriving bytes, unchanged -/
theorem arriveCtx_out (gm : GMsg) (c : Ctx) :
    ∀ o ∈ (arriveCtx gm c).2.1, ∃ a, o = Out.done a 0 (some ⟨[], gm.body⟩) false := by
  unfold arriveCtx
  intro o ho
  split at ho
  · simp at ho
  · split at ho
    · simp at ho
    · split at ho
      · simp at ho; exact ⟨_, ho⟩
      · split at ho <;> simp at ho

/-! ### receive -/

theorem recvCtx_inv {arr : List GMsg} {c : Ctx} (a : Nat) (mode : Mode) (now : Nat) (h : CtxInv arr c) :
    CtxInv arr (recvCtx c a mode now).1 := by
  unfold recvCtx
  split
  · next hq =>
    have base : ∀ pk, CtxInv arr { c with rq := c.rq ++ [pk] } := fun pk =>
      ⟨h.len, h.cap, fun _ => hq, h.hist, h.nodup⟩
    split
    · exact h
    · exact h
    · exact base _
    · exact base _
  · next m rest hq =>
    have hrq : c.rq = [] := by
      cases hr : c.rq with
      | nil => rfl
      | cons x xs => have := h.wait (by simp [hr]); rw [hq] at this; cases this
    refine ⟨?_, h.cap, fun hne => absurd hrq hne, ?_, h.nodup⟩
    · have := h.len; rw [hq] at this; simp at this ⊢; omega
    · have := h.hist; rw [hq] at this
      simpa [List.append_assoc] using this

/-- T8 (receive side): a receive on a context returns a message in its own step iff the
    queue is non-empty, and then it is the oldest queued message, unchanged -/
theorem recvCtx_nonempty (c : Ctx) (a : Nat) (mode : Mode) (now : Nat) (m : GMsg) (rest : List GMsg)
    (hq : c.q = m :: rest) :
    recvCtx c a mode now = ({ c with q := rest, got := c.got ++ [m] }, [Out.done a 0 (some ⟨[], m.body⟩) false]) := by
  unfold recvCtx; rw [hq]

theorem recvCtx_empty_nb (c : Ctx) (a : Nat) (now : Nat) (hq : c.q = []) :
    recvCtx c a .nb now = (c, [Out.done a Err.eagain none false]) := by
  unfold recvCtx; rw [hq]

/-! ### cancel / expiry / close -/

theorem filter_ne_nil_of {α} (p : α → Bool) (l : List α) (h : l.filter p ≠ []) : l ≠ [] := by
  intro hl; subst hl; simp at h

theorem failCtx_inv {arr : List GMsg} {c : Ctx} (a rv : Nat) (h : CtxInv arr c) : CtxInv arr (failCtx a rv c).1 := by
  unfold failCtx
  split
  · exact ⟨h.len, h.cap, fun hne => h.wait (filter_ne_nil_of _ _ hne), h.hist, h.nodup⟩
  · exact h

theorem expireCtx_inv {arr : List GMsg} {c : Ctx} (now : Nat) (h : CtxInv arr c) : CtxInv arr (expireCtx now c).1 :=
  ⟨h.len, h.cap, fun hne => h.wait (filter_ne_nil_of _ _ hne), h.hist, h.nodup⟩

theorem closeCtx_inv {arr : List GMsg} {c : Ctx} (h : CtxInv arr c) : CtxInv arr (closeCtx c).1 :=
  ⟨h.len, h.cap, fun hne => absurd rfl hne, h.hist, h.nodup⟩

/-! ### subscribe / unsubscribe -/

theorem any_topicEq_iff (ts : List Bytes) (t : Bytes) : ts.any (fun u => topicEq u t) = true ↔ t ∈ ts := by
  rw [List.any_eq_true]
  constructor
  · rintro ⟨u, hu, he⟩; rw [(topicEq_iff u t).1 he] at hu; exact hu
  · intro h; exact ⟨t, h, (topicEq_iff t t).2 rfl⟩

/-- T5: subscribing to a topic already present changes nothing -/
theorem subscribeCtx_present (c : Ctx) (t : Bytes) (h : t ∈ c.topics) : subscribeCtx c t = c := by
  unfold subscribeCtx; rw [if_pos ((any_topicEq_iff _ _).2 h)]

theorem subscribeCtx_absent (c : Ctx) (t : Bytes) (h : t ∉ c.topics) :
    subscribeCtx c t = { c with topics := c.topics ++ [t] } := by
  unfold subscribeCtx
  have : ¬ (c.topics.any (fun u => topicEq u t) = true) := fun h' => h ((any_topicEq_iff _ _).1 h')
  rw [if_neg this]

theorem subscribeCtx_mem (c : Ctx) (t : Bytes) : t ∈ (subscribeCtx c t).topics := by
  by_cases h : t ∈ c.topics
  · rw [subscribeCtx_present c t h]; exact h
  · rw [subscribeCtx_absent c t h]; simp

/-- T5: duplicate subscribe is idempotent -/
theorem subscribeCtx_idem (c : Ctx) (t : Bytes) : subscribeCtx (subscribeCtx c t) t = subscribeCtx c t :=
  subscribeCtx_present _ t (subscribeCtx_mem c t)

theorem subscribeCtx_inv {arr : List GMsg} {c : Ctx} (t : Bytes) (h : CtxInv arr c) : CtxInv arr (subscribeCtx c t) := by
  by_cases ht : t ∈ c.topics
  · rw [subscribeCtx_present c t ht]; exact h
  · rw [subscribeCtx_absent c t ht]
    refine ⟨h.len, h.cap, h.wait, h.hist, ?_⟩
    show (c.topics ++ [t]).Nodup
    rw [List.nodup_append]
    refine ⟨h.nodup, by simp, ?_⟩
    intro a ha b hb
    simp at hb; subst hb
    intro hab; subst hab; exact ht ha

theorem findTopic_none (t : Bytes) : ∀ ts : List Bytes, findTopic t ts = none ↔ t ∉ ts
  | [] => by simp [findTopic]
  | u :: us => by
    have ih := findTopic_none t us
    unfold findTopic
    by_cases he : topicEq u t = true
    · have := (topicEq_iff u t).1 he
      rw [if_pos he]; simp [this]
    · have hne : ¬ u = t := fun h => he ((topicEq_iff u t).2 h)
      have hne' : ¬ t = u := fun h => hne h.symm
      simp only [he, Bool.false_eq_true, if_false, Option.map_eq_none_iff, ih, List.mem_cons, hne', false_or]

theorem findTopic_some (t : Bytes) : ∀ (ts : List Bytes) (i : Nat), findTopic t ts = some i →
    ts.eraseIdx i = ts.erase t
  | [], i => by simp [findTopic]
  | u :: us, i => by
    unfold findTopic
    by_cases he : topicEq u t = true
    · have := (topicEq_iff u t).1 he
      subst this
      simp only [he, if_true, Option.some.injEq]
      intro hi; subst hi; simp
    · have hne : ¬ u = t := fun h => he ((topicEq_iff u t).2 h)
      simp only [he, Bool.false_eq_true, if_false, Option.map_eq_some_iff]
      rintro ⟨j, hj, rfl⟩
      have ih := findTopic_some t us j hj
      simp [List.eraseIdx_cons_succ, ih, hne]

/-- the requeue loop: `k` rotations of a queue `rest ++ pre` whose first `k` elements are
    still to be examined leave `pre` followed by the matching elements of `rest` -/
theorem purgeLoop_spec (topics : List Bytes) :
    ∀ (rest pre : List GMsg) (c : Ctx), c.q = rest ++ pre → rest.length + pre.length ≤ c.cap →
      (purgeLoop topics rest.length c).q = pre ++ rest.filter (fun m => subMatches topics m.body) ∧
      (purgeLoop topics rest.length c).dropped = c.dropped ++ rest.filter (fun m => !subMatches topics m.body) ∧
      (purgeLoop topics rest.length c).cap = c.cap ∧
      (purgeLoop topics rest.length c).rq = c.rq ∧
      (purgeLoop topics rest.length c).got = c.got ∧
      (purgeLoop topics rest.length c).topics = c.topics ∧
      (purgeLoop topics rest.length c).cid = c.cid ∧
      (purgeLoop topics rest.length c).handle = c.handle ∧
      (purgeLoop topics rest.length c).preferNew = c.preferNew
  | [], pre, c, hq, _ => by simp [purgeLoop, hq]
  | m :: rest, pre, c, hq, hlen => by
    simp only [List.length_cons, purgeLoop]
    rw [hq]
    simp only [List.cons_append]
    by_cases hm : subMatches topics m.body = true
    · simp only [hm, if_true]
      have hput : lmqPut { c with q := rest ++ pre } m = { c with q := rest ++ (pre ++ [m]) } := by
        unfold lmqPut
        have : ¬ (rest ++ pre).length ≥ c.cap := by simp at hlen ⊢; omega
        simp only [this, if_false, List.append_assoc]
      rw [hput]
      have ih := purgeLoop_spec topics rest (pre ++ [m]) { c with q := rest ++ (pre ++ [m]) } rfl
        (by simp at hlen ⊢; omega)
      simp only [List.filter_cons, hm, if_true, Bool.not_true, Bool.false_eq_true, if_false]
      simpa [List.append_assoc] using ih
    · simp only [Bool.not_eq_true] at hm
      simp only [hm, Bool.false_eq_true, if_false]
      have ih := purgeLoop_spec topics rest pre { c with q := rest ++ pre, dropped := c.dropped ++ [m] } rfl
        (by simp at hlen ⊢; omega)
      simp only [List.filter_cons, hm, Bool.false_eq_true, if_false, Bool.not_false, if_true]
      simpa [List.append_assoc] using ih

/-- T5: unsubscribing a topic that is not subscribed fails (NNG_ENOENT) -/
theorem unsubscribeCtx_absent (c : Ctx) (t : Bytes) (h : t ∉ c.topics) : unsubscribeCtx c t = none := by
  unfold unsubscribeCtx; rw [(findTopic_none t c.topics).2 h]

/-- T5: unsubscribing a subscribed topic removes it and leaves exactly the queued messages
    that still match a remaining topic, in their old order; nothing else changes -/
theorem unsubscribeCtx_present (c : Ctx) (t : Bytes) (h : t ∈ c.topics) (hlen : c.q.length ≤ c.cap) :
    ∃ c', unsubscribeCtx c t = some c' ∧ c'.topics = c.topics.erase t ∧
      c'.q = c.q.filter (fun m => subMatches (c.topics.erase t) m.body) ∧
      c'.dropped = c.dropped ++ c.q.filter (fun m => !subMatches (c.topics.erase t) m.body) ∧
      c'.cap = c.cap ∧ c'.rq = c.rq ∧ c'.got = c.got ∧ c'.cid = c.cid ∧ c'.handle = c.handle ∧
      c'.preferNew = c.preferNew := by
  unfold unsubscribeCtx
  cases hf : findTopic t c.topics with
  | none => exact absurd h ((findTopic_none t c.topics).1 hf)
  | some i =>
    have he := findTopic_some t c.topics i hf
    simp only []
    have sp := purgeLoop_spec (c.topics.eraseIdx i) c.q [] { c with topics := c.topics.eraseIdx i }
      (by simp) (by simpa using hlen)
    refine ⟨_, rfl, ?_⟩
    rw [he] at sp ⊢
    simp only [List.nil_append] at sp
    obtain ⟨h1, h2, h3, h4, h5, h6, h7, h8, h9⟩ := sp
    exact ⟨h6, h1, h2, h3, h4, h5, h7, h8, h9⟩

theorem unsubscribeCtx_inv {arr : List GMsg} {c c' : Ctx} (t : Bytes) (h : CtxInv arr c)
    (hu : unsubscribeCtx c t = some c') : CtxInv arr c' := by
  by_cases ht : t ∈ c.topics
  · obtain ⟨c'', h0, h1, h2, _, h4, h5, h6, _, _, _⟩ := unsubscribeCtx_present c t ht h.len
    rw [h0] at hu; cases hu
    refine ⟨?_, by rw [h4]; exact h.cap, ?_, ?_, ?_⟩
    · rw [h2, h4]; exact Nat.le_trans (List.length_filter_le _ _) h.len
    · intro hne; rw [h5] at hne; rw [h2, h.wait hne]; rfl
    · rw [h6, h2]
      exact (List.Sublist.append (List.Sublist.refl _) (List.filter_sublist)).trans h.hist
    · rw [h1]; exact h.nodup.erase t
  · rw [unsubscribeCtx_absent c t ht] at hu; cases hu

/-! ### resize -/

theorem resizeCtx_inv {arr : List GMsg} {c : Ctx} (cap : Nat) (hcap : 1 ≤ cap) (h : CtxInv arr c) :
    CtxInv arr (resizeCtx c cap) := by
  refine ⟨by simp [resizeCtx]; omega, hcap, ?_, ?_, h.nodup⟩
  · intro hne; show c.q.take cap = []; rw [h.wait hne]; simp
  · show (c.got ++ c.q.take cap).Sublist arr
    exact (List.Sublist.append (List.Sublist.refl _) (List.take_sublist cap c.q)).trans h.hist

theorem take_isEmpty {α} (l : List α) (n : Nat) (hn : 1 ≤ n) : (l.take n).isEmpty = l.isEmpty := by
  cases l with
  | nil => simp
  | cons a as =>
    cases n with
    | zero => omega
    | succ k => simp

end Nng.Sub
