/- "nothing is parked on a closed socket or a closed context" as a state invariant of the lifecycle
   model (C10), on top of the global invariant -/
import NngModel.Proofs.LifeGlobalStep
import NngModel.Proofs.LifeAioStep
namespace Nng.LifeModel
open Nng.Life Nng.Generated

/-- every parked operation waits on an open socket or on an open context -/
def PendOpen (st : State) : Prop :=
  ∀ a ∈ st.pend, match a.tgt with
    | .sock s => sockOpen (st.socks s)
    | .ctx c => ∃ x ∈ st.ctxs, x.id = c ∧ x.closed = false

/-- context numbers identify contexts -/
def CtxUnique (st : State) : Prop := ∀ a ∈ st.ctxs, ∀ b ∈ st.ctxs, a.id = b.id → a = b

structure PInv (st : State) : Prop where
  pend : PendOpen st
  uniq : CtxUnique st

def SockMono (st st' : State) : Prop := ∀ s, sockOpen (st.socks s) → sockOpen (st'.socks s)

theorem Frame.sockMono {st st' : State} (f : Frame st st') : SockMono st st' := by
  intro s hs
  unfold sockOpen
  rw [(f.2.2.2.1 s).1, (f.2.2.2.1 s).2]; exact hs

theorem PInv_of {st st' : State} (h : PInv st) (hp : st'.pend = st.pend) (hc : st'.ctxs = st.ctxs) (hs : SockMono st st') :
    PInv st' := by
  refine ⟨?_, by unfold CtxUnique; rw [hc]; exact h.uniq⟩
  unfold PendOpen
  rw [hp, hc]
  intro a ha
  have := h.pend a ha
  cases ht : a.tgt with
  | sock s => rw [ht] at this; exact hs s this
  | ctx c => rw [ht] at this; exact this

theorem PInv_same {st st' : State} (h : PInv st) (hs : SameAio st st') (hm : SockMono st st') : PInv st' :=
  PInv_of h hs.1 hs.2.2.2 hm

theorem startPipe_sockMono (st : State) (p : Pipe) (peer : Nat) (hr : p.reaped = false) :
    SockMono st (startPipe st p peer).1 := by
  obtain ⟨q, _, _, _, _, hfr, _⟩ := startPipe_shape st p peer hr
  exact hfr.sockMono

theorem connDialer_sockMono (st : State) (e : Ep) (r : Except Nat Nat) : SockMono st (connDialer st e r).1 := by
  cases r with
  | ok peer =>
    exact startPipe_sockMono (setEp st e.idx (dialOk st.pipes.length)) { idx := st.pipes.length, ep := e.idx, sock := e.sock } peer rfl
  | error rv =>
    unfold connDialer
    simp only
    (repeat' split) <;> exact fun _ hs => hs

theorem connListener_sockMono (st : State) (e : Ep) (r : Except Nat Nat) : SockMono st (connListener st e r).1 := by
  cases r with
  | ok peer =>
    exact startPipe_sockMono (setEp st e.idx fun x => { x with armed := false })
      { idx := st.pipes.length, ep := e.idx, sock := e.sock } peer rfl
  | error rv =>
    unfold connListener
    simp only
    (repeat' split) <;> exact fun _ hs => hs

theorem find_ctx {st : State} (h : CtxUnique st) {x : Ctx} (hx : x ∈ st.ctxs) :
    st.ctxs.find? (fun y => y.id == x.id) = some x := by
  cases hf : st.ctxs.find? (fun y => y.id == x.id) with
  | none =>
    have := List.find?_eq_none.mp hf x hx
    simp at this
  | some y =>
    have hy := List.mem_of_find?_eq_some hf
    have := List.find?_some hf
    simp only [beq_iff_eq] at this
    rw [h y hy x hx this]

theorem opClose_P (st : State) (s : Nat) (hg : G st) (h : PInv st) : PInv (opClose st s).1 := by
  by_cases hopen : (st.socks s).opened = true ∧ (st.socks s).closed = false
  · obtain ⟨g, hcl, hso, hctx⟩ := closeMid_spec st s hg
    have hmid : SameAio st (closeMid st s) :=
      (closeEps_same st _).trans (killPipes_same _ _)
    have hpm : PInv (closeMid st s) := PInv_same h hmid hso
    have hf := opClose_fields st s hopen.1 hopen.2
    -- the parked operations that remain
    have hpend : (opClose st s).1.pend = (closeMid st s).pend.filter (fun a =>
        !(tgtSock ({ (closeMid st s) with
            ctxs := (closeMid st s).ctxs.map fun c => if c.sock == s then { c with closed := true } else c }) a.tgt == some s)) := by
      unfold opClose closeMid
      simp only [hopen.1, hopen.2, Bool.not_true, Bool.or_false, Bool.false_eq_true, if_false]
      rfl
    have huq : CtxUnique (opClose st s).1 := by
      unfold CtxUnique
      rw [hf.2.2.2.1]
      intro a' ha' b' hb' hab
      rcases List.mem_map.mp ha' with ⟨a, ha, rfl⟩
      rcases List.mem_map.mp hb' with ⟨b, hb, rfl⟩
      have hid : ∀ c : Ctx, (if c.sock == s then { c with closed := true } else c).id = c.id := by
        intro c; split <;> rfl
      rw [hid, hid] at hab
      rw [hpm.uniq a ha b hb hab]
    refine ⟨?_, huq⟩
    intro a ha
    rw [hpend] at ha
    have ham := (List.mem_filter.mp ha).1
    have hne := (List.mem_filter.mp ha).2
    have hold := hpm.pend a ham
    cases ht : a.tgt with
    | sock k =>
      rw [ht] at hold hne
      simp only [tgtSock, Bool.not_eq_true', beq_eq_false_iff_ne, ne_eq, Option.some.injEq] at hne
      show sockOpen ((opClose st s).1.socks k)
      rw [hf.2.2.2.2 k, if_neg hne]
      exact hold
    | ctx c =>
      rw [ht] at hold hne
      obtain ⟨x, hx, hxi, hxc⟩ := hold
      show ∃ x ∈ (opClose st s).1.ctxs, x.id = c ∧ x.closed = false
      rw [hf.2.2.2.1]
      -- the context is not one of socket s: otherwise the operation was completed
      have hxs : x.sock ≠ s := by
        intro hxs
        have hx' : { x with closed := true } ∈
            (closeMid st s).ctxs.map (fun c => if c.sock == s then { c with closed := true } else c) := by
          apply List.mem_map.mpr
          exact ⟨x, hx, by simp [hxs]⟩
        have huq' : CtxUnique { (closeMid st s) with
            ctxs := (closeMid st s).ctxs.map fun c => if c.sock == s then { c with closed := true } else c } := by
          intro a' ha' b' hb' hab
          rcases List.mem_map.mp ha' with ⟨a, ha, rfl⟩
          rcases List.mem_map.mp hb' with ⟨b, hb, rfl⟩
          have hid : ∀ c : Ctx, (if c.sock == s then { c with closed := true } else c).id = c.id := by
            intro c; split <;> rfl
          rw [hid, hid] at hab
          rw [hpm.uniq a ha b hb hab]
        have := find_ctx huq' hx'
        simp only [tgtSock] at hne
        rw [← hxi] at hne
        rw [show ({ x with closed := true } : Ctx).id = x.id from rfl] at this
        rw [this] at hne
        simp [hxs] at hne
      refine ⟨x, ?_, hxi, hxc⟩
      apply List.mem_map.mpr
      refine ⟨x, hx, ?_⟩
      have : (x.sock == s) = false := by simpa using hxs
      simp [this]
  · have : (opClose st s).1 = st := by
      unfold opClose
      have hb : (!(st.socks s).opened || (st.socks s).closed) = true := by
        cases h1 : (st.socks s).opened <;> cases h2 : (st.socks s).closed <;> simp_all
      simp only [hb, if_true]
    rw [this]; exact h

end Nng.LifeModel

namespace Nng.LifeModel
open Nng.Life Nng.Generated

theorem park_P (st : State) (a : Nat) (t : Tgt) (h : PInv st)
    (ht : match t with
      | .sock s => sockOpen (st.socks s)
      | .ctx c => ∃ x ∈ st.ctxs, x.id = c ∧ x.closed = false) : PInv (park st a t).1 := by
  refine ⟨?_, h.uniq⟩
  intro b hb
  rcases List.mem_append.mp (show b ∈ st.pend ++ [{ tok := st.nsub, aio := a, tgt := t }] from hb) with hb | hb
  · exact h.pend b hb
  · rw [List.mem_singleton.mp hb]; exact ht

theorem finishNow_P (st : State) (a rv : Nat) (h : PInv st) : PInv (finishNow st a rv).1 :=
  PInv_of h rfl rfl (fun _ hs => hs)

theorem opRecv_P (st : State) (t : Tgt) (a : Nat) (h : PInv st) : PInv (opRecv st t a).1 := by
  unfold opRecv
  split
  · exact h
  · cases t with
    | sock s =>
      simp only
      by_cases hk : ((st.socks s).opened && !(st.socks s).closed) = true
      · have hso : sockOpen (st.socks s) := by
          simp only [Bool.and_eq_true, Bool.not_eq_true'] at hk; exact hk
        simp only [hk, if_true]
        (repeat' split) <;> first
          | exact finishNow_P _ _ _ h
          | exact park_P _ _ _ h hso
          | exact PInv_of h rfl rfl (fun _ hs => hs)
      · simp only [hk]
        exact finishNow_P _ _ _ h
    | ctx c =>
      simp only
      cases hf : st.ctxs.find? (·.id == c) with
      | none => exact finishNow_P _ _ _ h
      | some x =>
        have hx := List.mem_of_find?_eq_some hf
        have hxi : x.id = c := by have := List.find?_some hf; simpa using this
        cases hxc : x.closed with
        | true => simp only [hxc, if_true]; exact finishNow_P _ _ _ h
        | false =>
          simp only [hxc, Bool.false_eq_true, if_false]
          (repeat' split) <;> first
            | exact finishNow_P _ _ _ h
            | exact park_P _ _ _ h ⟨x, hx, hxi, hxc⟩
            | exact PInv_of h rfl rfl (fun _ hs => hs)

theorem opSend_P (st : State) (t : Tgt) (a : Nat) (h : PInv st) : PInv (opSend st t a).1 := by
  unfold opSend
  simp only
  (repeat' split) <;> first | exact h | exact PInv_of h rfl rfl (fun _ hs => hs)

theorem opCtxOpen_P (st : State) (s c : Nat) (h : PInv st) : PInv (opCtxOpen st s c).1 := by
  unfold opCtxOpen
  simp only
  split
  · exact h
  · split
    · exact h
    · split
      · exact PInv_of h rfl rfl (fun _ hs => hs)
      · rename_i hany
        have hfresh : ∀ x ∈ st.ctxs, x.id ≠ c := by
          intro x hx hxi
          apply hany
          exact List.any_eq_true.mpr ⟨x, hx, by simp [hxi]⟩
        have hkeep : ∀ x ∈ st.ctxs, x ∈ st.ctxs.filter (·.id != c) ++ [{ id := c, sock := s }] := by
          intro x hx
          exact List.mem_append.mpr (Or.inl (List.mem_filter.mpr ⟨hx, by simpa using hfresh x hx⟩))
        refine ⟨?_, ?_⟩
        · intro a ha
          have := h.pend a ha
          cases ht : a.tgt with
          | sock k => rw [ht] at this; exact this
          | ctx c' =>
            rw [ht] at this
            obtain ⟨x, hx, hh⟩ := this
            exact ⟨x, hkeep x hx, hh⟩
        · intro a ha b hb hab
          rcases List.mem_append.mp (show a ∈ st.ctxs.filter (·.id != c) ++ [{ id := c, sock := s }] from ha) with ha | ha
          · rcases List.mem_append.mp (show b ∈ st.ctxs.filter (·.id != c) ++ [{ id := c, sock := s }] from hb) with hb | hb
            · exact h.uniq a (List.mem_filter.mp ha).1 b (List.mem_filter.mp hb).1 hab
            · rw [List.mem_singleton.mp hb] at hab
              exact absurd hab (hfresh a (List.mem_filter.mp ha).1)
          · rcases List.mem_append.mp (show b ∈ st.ctxs.filter (·.id != c) ++ [{ id := c, sock := s }] from hb) with hb | hb
            · rw [List.mem_singleton.mp ha] at hab
              exact absurd hab.symm (hfresh b (List.mem_filter.mp hb).1)
            · rw [List.mem_singleton.mp ha, List.mem_singleton.mp hb]

theorem opCtxClose_P (st : State) (c : Nat) (h : PInv st) : PInv (opCtxClose st c).1 := by
  unfold opCtxClose
  split
  · exact h
  · split
    · exact h
    · have hid : ∀ y : Ctx, (if y.id == c then { y with closed := true } else y).id = y.id := by
        intro y; split <;> rfl
      refine ⟨?_, ?_⟩
      · intro a ha
        have ham : a ∈ st.pend ∧ (!(a.tgt == Tgt.ctx c)) = true := List.mem_filter.mp ha
        have := h.pend a ham.1
        cases ht : a.tgt with
        | sock k => rw [ht] at this; exact this
        | ctx c' =>
          rw [ht] at this
          have hne : c' ≠ c := by
            intro heq; have := ham.2; rw [ht, heq] at this; simp at this
          obtain ⟨x, hx, hxi, hxc⟩ := this
          refine ⟨x, ?_, hxi, hxc⟩
          apply List.mem_map.mpr
          refine ⟨x, hx, ?_⟩
          have : (x.id == c) = false := by rw [hxi]; simpa using hne
          simp [this]
      · intro a' ha' b' hb' hab
        rcases List.mem_map.mp (show a' ∈ st.ctxs.map (fun y => if y.id == c then { y with closed := true } else y) from ha')
          with ⟨a, ha, rfl⟩
        rcases List.mem_map.mp (show b' ∈ st.ctxs.map (fun y => if y.id == c then { y with closed := true } else y) from hb')
          with ⟨b, hb, rfl⟩
        rw [hid, hid] at hab
        rw [h.uniq a ha b hb hab]

theorem apply_P (st : State) (op : LOp) (hg : G st) (h : PInv st) : PInv (apply st op).1 := by
  cases op with
  | openSock s p =>
    show PInv (opOpen st s p).1
    unfold opOpen
    split
    · exact PInv_of h rfl rfl (setSock_open st s (fun _ => { proto := p, opened := true }) (fun _ _ => ⟨rfl, rfl⟩))
    · exact PInv_of h rfl rfl (fun _ hs => hs)
  | notify s m c =>
    show PInv (opNotify st s m c).1
    unfold opNotify
    simp only
    split
    · exact h
    · exact PInv_of h rfl rfl (setSock_open st s (fun k => { k with mask := m, cip := c }) (fun _ hk => hk))
  | setoptSock s n v =>
    show PInv (opSetoptSock st s n v).1
    unfold opSetoptSock
    simp only
    split
    · exact h
    · split
      · exact h
      · split
        · exact PInv_of h rfl rfl (setSock_open st s (fun k => { k with reconnmax := v }) (fun _ hk => hk))
        · split
          · exact PInv_of h rfl rfl (setSock_open st s (fun k => { k with reconn := v }) (fun _ hk => hk))
          · exact PInv_of h rfl rfl (fun _ hs => hs)
  | setoptEp e n v =>
    show PInv (opSetoptEp st e n v).1
    unfold opSetoptEp
    (repeat' split) <;> first | exact h | exact PInv_of h rfl rfl (fun _ hs => hs)
  | dial s nb =>
    show PInv (opDial st s nb).1
    unfold opDial
    simp only
    split
    · exact h
    · exact PInv_of h rfl rfl (fun _ hs => hs)
  | listen s =>
    show PInv (opListen st s).1
    unfold opListen
    simp only
    split
    · exact h
    · exact PInv_of h rfl rfl (fun _ hs => hs)
  | connDone e r =>
    show PInv (opConnDone st e r).1
    unfold opConnDone
    split
    · exact h
    · split
      · exact h
      · split
        · exact PInv_same h (connDialer_same _ _ _) (connDialer_sockMono _ _ _)
        · exact PInv_same h (connListener_same _ _ _) (connListener_sockMono _ _ _)
  | pipeClose p =>
    show PInv (opPipeClose st p).1
    unfold opPipeClose
    split
    · exact h
    · split
      · exact h
      · exact PInv_same h (killPipe_same _ _) (killPipe_frame _ _).sockMono
  | pipeDrop p =>
    show PInv (opPipeDrop st p).1
    unfold opPipeDrop
    split
    · exact h
    · split
      · exact h
      · exact PInv_same h (killPipe_same _ _) (killPipe_frame _ _).sockMono
  | dialerClose e =>
    show PInv (opCloseEp st e true).1
    unfold opCloseEp
    split
    · exact h
    · split
      · exact h
      · split
        · exact h
        · exact PInv_same h (closeEp_same _ _) (closeEp_spec _ _ hg).2.2.2.1
  | listenerClose e =>
    show PInv (opCloseEp st e false).1
    unfold opCloseEp
    split
    · exact h
    · split
      · exact h
      · split
        · exact h
        · exact PInv_same h (closeEp_same _ _) (closeEp_spec _ _ hg).2.2.2.1
  | ctxOpen s c => exact opCtxOpen_P _ _ _ h
  | ctxClose c => exact opCtxClose_P _ _ h
  | send t a => exact opSend_P _ _ _ h
  | recv t a => exact opRecv_P _ _ _ h
  | advance ms => exact PInv_of h rfl rfl (fun _ hs => hs)
  | close s => exact opClose_P _ _ hg h
  | close2 s => exact PInv_of h rfl rfl (fun _ hs => hs)
  | race o l a b => exact PInv_of h rfl rfl (fun _ hs => hs)
  | probe => exact h

theorem step_P (st : State) (op : LOp) (orc : List Nat) (hg : G st) (h : PInv st) : PInv (step st op orc).1 := by
  unfold step
  split
  · exact h
  · exact PInv_of (apply_P st op hg h) rfl rfl (fun _ hs => hs)

theorem run_P (tr : List (LOp × List Nat)) (st : State) (hi : Inv st) (h : PInv st) : PInv (run st tr) := by
  induction tr generalizing st with
  | nil => exact h
  | cons x rest ih => exact ih _ (step_Inv st x.1 x.2 hi) (step_P st x.1 x.2 hi.g h)

theorem init_P : PInv ({} : State) :=
  ⟨fun a ha => (by cases ha), fun a ha => (by cases ha)⟩

theorem run_append (st : State) (tr : List (LOp × List Nat)) (x : LOp × List Nat) :
    run st (tr ++ [x]) = (step (run st tr) x.1 x.2).1 := by
  induction tr generalizing st with
  | nil => rfl
  | cons y rest ih => exact ih _

end Nng.LifeModel
