/-
  C16 (HTTP layer): what http_snprintf writes for a request (`emitReq`) is decoded by the serial decoder to the
  fields it was written from — under the well-formedness conditions `EmitOk` that the writer does NOT check
  (nni_http_set_header / set_method / set_uri accept any C string; see Props/C16Http.lean for the
  counterexamples when one of them is dropped).
-/
import NngModel.Proofs.HttpSpecLines
namespace Nng.HttpConn
open Nng

/-- no control character (in particular no CR, LF, HT, NUL) -/
def Clean (s : Bytes) : Prop := ∀ c ∈ s, 0x20 ≤ c

theorem clean_byte (c : UInt8) (h : 0x20 ≤ c) : c ≠ HttpSpec.LF ∧ c ≠ HttpSpec.CR ∧ HttpSpec.isBadCtl c = false := by
  have h' : (32 : Nat) ≤ c.toNat := by
    have := UInt8.le_iff_toNat_le.mp h
    simpa using this
  refine ⟨?_, ?_, ?_⟩
  · intro e; rw [e] at h'; revert h'; decide
  · intro e; rw [e] at h'; revert h'; decide
  · unfold HttpSpec.isBadCtl
    have : ¬ c < 0x20 := by
      intro hlt
      have := UInt8.lt_iff_toNat_lt.mp hlt
      simp at this
      omega
    simp [this]

theorem clean_append (a b : Bytes) (ha : Clean a) (hb : Clean b) : Clean (a ++ b) := by
  intro c hc
  rcases List.mem_append.mp hc with h | h
  · exact ha c h
  · exact hb c h

theorem clean_of_gt (s : Bytes) (h : ∀ c ∈ s, 0x20 < c) : Clean s := by
  intro c hc
  exact UInt8.le_of_lt (h c hc)

/-! ### the serial decoder over a clean line followed by CR LF -/

theorem foldl_clean {σ : Type} (sem : HttpSpec.LineSem σ) (maxLine : Nat) (mark : Bytes) (L : Bytes) :
    ∀ (s : σ) (racc : Bytes) (len k : Nat), Clean L → HttpSpec.endsWithCR racc = false → len + L.length < maxLine →
      L.foldl (HttpSpec.stepByte sem maxLine mark) (.run s racc len k) = .run s (L.reverse ++ racc) (len + L.length) (k + L.length) := by
  induction L with
  | nil => intro s racc len k _ _ _; rfl
  | cons c r ih =>
    intro s racc len k hL hcr hlen
    obtain ⟨h1, h2, h3⟩ := clean_byte c (hL c (by simp))
    have hr : Clean r := fun x hx => hL x (by simp [hx])
    simp only [List.length_cons] at hlen
    have hstep : HttpSpec.stepByte sem maxLine mark (.run s racc len k) c = .run s (c :: racc) (len + 1) (k + 1) := by
      have hne : ¬ (len + 1 = maxLine) := by omega
      simp only [HttpSpec.stepByte, if_neg h1, h3, hcr, Bool.or_self, Bool.false_eq_true, if_false, if_neg hne]
    rw [List.foldl_cons, hstep]
    have hcr' : HttpSpec.endsWithCR (c :: racc) = false := by
      simp [HttpSpec.endsWithCR, h2]
    rw [ih s (c :: racc) (len + 1) (k + 1) hr hcr' (by omega)]
    simp only [List.reverse_cons, List.append_assoc, List.singleton_append, List.length_cons]
    congr 1 <;> omega

/-- the state after the LF that ends the line `L` -/
def afterLine {σ : Type} (sem : HttpSpec.LineSem σ) (s : σ) (L : Bytes) (n : Nat) : HttpSpec.St σ :=
  if L.isEmpty then (if (sem.finish s).2 ≠ 0 then .fail (sem.finish s).2 else .done (sem.finish s).1 n)
  else (if (sem.onLine s L).2 ≠ 0 then .fail (sem.onLine s L).2 else .run (sem.onLine s L).1 [] 0 n)

theorem foldl_line {σ : Type} (sem : HttpSpec.LineSem σ) (maxLine : Nat) (mark : Bytes) (L rest : Bytes) (s : σ) (k : Nat)
    (hL : Clean L) (hlen : L.length + 1 < maxLine) :
    (L ++ HttpSpec.CR :: HttpSpec.LF :: rest).foldl (HttpSpec.stepByte sem maxLine mark) (.run s [] 0 k) =
      rest.foldl (HttpSpec.stepByte sem maxLine mark) (afterLine sem s L (k + L.length + 2)) := by
  rw [List.foldl_append, foldl_clean sem maxLine mark L s [] 0 k hL rfl (by omega), List.foldl_cons, List.foldl_cons]
  congr 1
  simp only [List.append_nil, Nat.zero_add]
  have hcr : HttpSpec.endsWithCR L.reverse = false := by
    unfold HttpSpec.endsWithCR
    cases hq : L.reverse with
    | nil => rfl
    | cons a t =>
      have : a ∈ L := by
        have : a ∈ L.reverse := by rw [hq]; simp
        simpa using this
      have := (clean_byte a (hL a this)).2.1
      simp [this]
  have hne : ¬ (HttpSpec.CR = HttpSpec.LF) := by decide
  have hb : HttpSpec.isBadCtl HttpSpec.CR = false := by decide
  have hn2 : ¬ (L.length + 1 = maxLine) := by omega
  have h1 : HttpSpec.stepByte sem maxLine mark (.run s L.reverse L.length (k + L.length)) HttpSpec.CR =
      .run s (HttpSpec.CR :: L.reverse) (L.length + 1) (k + L.length + 1) := by
    simp only [HttpSpec.stepByte, if_neg hne, hb, hcr, Bool.or_self, Bool.false_eq_true, if_false, if_neg hn2]
  rw [h1]
  have hline : HttpSpec.lineOfAcc (HttpSpec.CR :: L.reverse) = L := by
    simp [HttpSpec.lineOfAcc, HttpSpec.endsWithCR]
  simp only [HttpSpec.stepByte, if_true, hline, afterLine]

/-! ### the request head -/

theorem strchr_first (ch : UInt8) (a b : Bytes) (h : ch ∉ a) : strchr ch (a ++ ch :: b) = some (a, b) := by
  induction a with
  | nil => simp [strchr]
  | cons c r ih =>
    have h1 : c ≠ ch := fun e => h (by simp [e])
    have h2 : ch ∉ r := fun e => h (by simp [e])
    simp [strchr, h1, ih h2]

theorem versions_clean : ∀ v ∈ versions, ∀ c ∈ v, (0x20 : UInt8) < c := by decide
theorem canon_slash : Url.canonify sSlash = some sSlash := by decide
theorem slash_clean : ∀ c ∈ sSlash, (0x20 : UInt8) < c := by decide

/-- what the writer needs of one header for its line to be read back as that header -/
structure HdrOk (h : Hdr) : Prop where
  colon : COLON ∉ h.name
  name : Clean h.name
  value : Clean h.value
  trimmed : trimTrail (trimLead h.value) = h.value

/-- well-formedness of the fields a request head is written from.  The writer checks NONE of this
    (only `vers` is guaranteed by nni_http_set_version, and the method length by the size of conn->meth). -/
structure EmitOk (m : Msg) : Prop where
  vers : versions.contains m.vers = true
  methLen : m.meth.length < methSize
  meth : ∀ c ∈ m.meth, 0x20 < c
  uri : ∀ u, m.uri = some u → Url.canonify u = some u ∧ ∀ c ∈ u, 0x20 < c
  hdrs : ∀ h ∈ m.reqHdrs, HdrOk h

theorem getUri_ok (m : Msg) (h : EmitOk m) : Url.canonify (getUri m) = some (getUri m) ∧ ∀ c ∈ getUri m, 0x20 < c := by
  unfold getUri
  cases hu : m.uri with
  | none => exact ⟨canon_slash, slash_clean⟩
  | some u =>
    simp only
    by_cases he : u.isEmpty = true
    · rw [if_pos he]; exact ⟨canon_slash, slash_clean⟩
    · rw [if_neg he]; exact h.uri u hu

theorem not_mem_of_gt (s : Bytes) (h : ∀ c ∈ s, 0x20 < c) : SP ∉ s := by
  intro hm
  have := h SP hm
  revert this
  decide

/-- the request line as written -/
def emitLine0 (m : Msg) : Bytes := m.meth ++ SP :: (getUri m ++ SP :: m.vers)

/-- the header line as written -/
def emitHLine (h : Hdr) : Bytes := h.name ++ COLON :: SP :: h.value

theorem emitReq_eq (m : Msg) :
    emitReq m = emitLine0 m ++ HttpSpec.CR :: HttpSpec.LF :: (emitHeaders m.reqHdrs ++ ([] ++ HttpSpec.CR :: HttpSpec.LF :: [])) := by
  simp [emitReq, emitLine0, sCRLF, CR, LF, HttpSpec.CR, HttpSpec.LF]

theorem emitHeaders_cons (h : Hdr) (r : List Hdr) :
    emitHeaders (h :: r) = emitHLine h ++ HttpSpec.CR :: HttpSpec.LF :: emitHeaders r := by
  simp [emitHeaders, emitHLine, sCRLF, sColonSp, ofNats, CR, LF, HttpSpec.CR, HttpSpec.LF, COLON, SP]

/-- the message after the request line was parsed into a fresh connection -/
def reqLineMsg (m : Msg) : Msg :=
  { ({ connReset {} with parsedReq := true } : Msg) with vers := m.vers, meth := m.meth, uri := some (getUri m) }

/-- nni_http_add_header replayed over a header list -/
def replay (m0 : Msg) (hs : List Hdr) : Msg := hs.foldl (fun a h => addHeader a true h.name h.value) m0

/-- what the written head is decoded to -/
def parsedBack (m : Msg) : Msg := { replay (reqLineMsg m) m.reqHdrs with parsedReq := false }

theorem emitLine0_clean (m : Msg) (h : EmitOk m) : Clean (emitLine0 m) := by
  unfold emitLine0
  have hsp : Clean [SP] := by intro c hc; simp at hc; rw [hc]; decide
  have h1 := clean_of_gt _ h.meth
  have h2 := clean_of_gt _ (getUri_ok m h).2
  have h3 : Clean m.vers := clean_of_gt _ (versions_clean m.vers (by simpa using h.vers))
  have := clean_append _ _ h1 (clean_append _ _ hsp (clean_append _ _ h2 (clean_append _ _ hsp h3)))
  simpa using this

theorem onLine_reqline (m : Msg) (h : EmitOk m) :
    (msem true).onLine (connReset {}) (emitLine0 m) = (reqLineMsg m, 0) := by
  have hst : ¬ getStatus ({ connReset {} with parsedReq := true } : Msg) ≥ stBadRequest := by decide
  have hp : (connReset {}).parsedReq = false := by decide
  obtain ⟨hc, hu⟩ := getUri_ok m h
  simp only [msem, lineStep, if_true, reqLineStep, hp, Bool.false_eq_true, if_false, emitLine0]
  unfold reqParseLine
  rw [if_neg hst, strchr_first SP m.meth _ (not_mem_of_gt _ h.meth)]
  simp only
  rw [strchr_first SP (getUri m) _ (not_mem_of_gt _ hu)]
  simp only [hc, setVersion, h.vers, if_true, setUri, setMethod]
  rw [List.take_of_length_le (by have := h.methLen; omega)]
  rfl

theorem hline_clean (h : Hdr) (hk : HdrOk h) : Clean (emitHLine h) := by
  unfold emitHLine
  have h2 : Clean [COLON, SP] := by
    intro c hc
    simp at hc
    rcases hc with e | e <;> rw [e] <;> decide
  have := clean_append _ _ hk.name (clean_append _ _ h2 hk.value)
  simpa using this

theorem onLine_header (hflag : reqIgnoresHeaderError = true) (a : Msg) (ha : a.parsedReq = true) (h : Hdr) (hk : HdrOk h) :
    (msem true).onLine a (emitHLine h) = (addHeader a true h.name h.value, 0) := by
  simp only [msem, lineStep, if_true, reqLineStep, ha, hflag, emitHLine]
  unfold parseHeader
  rw [strchr_first COLON h.name _ hk.colon]
  have : trimLead (SP :: h.value) = trimLead h.value := by
    have hw : isWs SP = true := by decide
    conv => lhs; unfold trimLead
    rw [if_pos hw]
  simp only [this, hk.trimmed]
  rfl

theorem hline_nonempty (h : Hdr) : (emitHLine h).isEmpty = false := by
  unfold emitHLine
  cases h.name <;> rfl

theorem foldl_headers (hflag : reqIgnoresHeaderError = true) (hs : List Hdr) :
    ∀ (a : Msg) (k : Nat) (rest : Bytes), a.parsedReq = true → (∀ h ∈ hs, HdrOk h) → (emitHeaders hs).length < bufsz →
      (emitHeaders hs ++ rest).foldl (HttpSpec.stepByte (msem true) bufsz marker) (.run a [] 0 k) =
        rest.foldl (HttpSpec.stepByte (msem true) bufsz marker) (.run (replay a hs) [] 0 (k + (emitHeaders hs).length)) := by
  induction hs with
  | nil => intro a k rest _ _ _; rfl
  | cons h r ih =>
    intro a k rest ha hok hlen
    have hk := hok h (by simp)
    rw [emitHeaders_cons] at hlen ⊢
    simp only [List.length_append, List.length_cons] at hlen
    rw [List.append_assoc, List.cons_append, List.cons_append,
      foldl_line (msem true) bufsz marker (emitHLine h) _ a k (hline_clean h hk) (by omega)]
    unfold afterLine
    rw [hline_nonempty, onLine_header hflag a ha h hk]
    simp only [Bool.false_eq_true, if_false, ne_eq, not_true_eq_false]
    have ha' : (addHeader a true h.name h.value).parsedReq = true := (addHeader_fields a true h.name h.value).1.trans ha
    rw [ih _ _ rest ha' (fun x hx => hok x (by simp [hx])) (by omega)]
    simp only [replay, List.foldl_cons, List.length_append, List.length_cons]
    congr 2
    omega

/-- MAIN: the head written for a well-formed request that fits the buffer is decoded completely, to the
    message obtained by parsing the request line and replaying nni_http_add_header over the headers -/
theorem decode_emitReq (hflag : reqIgnoresHeaderError = true) (m : Msg) (h : EmitOk m) (hlen : (emitReq m).length < bufsz) :
    HttpSpec.decode (msem true) bufsz marker (connReset {}) (emitReq m) = .done (parsedBack m) (emitReq m).length := by
  unfold HttpSpec.decode
  rw [emitReq_eq] at hlen ⊢
  simp only [List.length_append, List.length_cons, List.length_nil] at hlen
  rw [foldl_line (msem true) bufsz marker (emitLine0 m) _ _ 0 (emitLine0_clean m h) (by omega)]
  have hne : (emitLine0 m).isEmpty = false := by
    unfold emitLine0
    cases m.meth <;> rfl
  unfold afterLine
  rw [hne, onLine_reqline m h]
  simp only [Bool.false_eq_true, if_false, ne_eq, not_true_eq_false]
  rw [foldl_headers hflag m.reqHdrs (reqLineMsg m) _ _ rfl h.hdrs (by omega)]
  rw [foldl_line (msem true) bufsz marker [] [] _ _ (by intro c hc; cases hc) (by have := bufsz_pos; simp; decide)]
  unfold afterLine
  have hfin : (msem true).finish (replay (reqLineMsg m) m.reqHdrs) = (parsedBack m, 0) := by
    simp [msem, emptyRv, parseEnd, parsedBack, rv_zero.1, rv_zero.2]
  simp only [List.isEmpty_nil, if_true, hfin, ne_eq, not_true_eq_false, if_false, List.foldl_nil]
  congr 1
  simp only [List.length_append, List.length_cons, List.length_nil]
  omega

/-! ### what is read back -/

theorem replay_fields (hs : List Hdr) : ∀ (a : Msg), (replay a hs).code = a.code ∧ (replay a hs).rsn = a.rsn ∧
    (replay a hs).meth = a.meth ∧ (replay a hs).uri = a.uri ∧ (replay a hs).vers = a.vers := by
  induction hs with
  | nil => intro a; exact ⟨rfl, rfl, rfl, rfl, rfl⟩
  | cons h r ih =>
    intro a
    obtain ⟨_, _, f3, f4, f5, f6, f7⟩ := addHeader_fields a true h.name h.value
    obtain ⟨g3, g4, g5, g6, g7⟩ := ih (addHeader a true h.name h.value)
    exact ⟨g3.trans f3, g4.trans f4, g5.trans f5, g6.trans f6, g7.trans f7⟩

/-! ### headers with distinct ordinary names are read back one for one -/

/-- not one of the names nni_http_add_header treats specially -/
def Plain (k : Bytes) : Prop := ieq k sContentType = false ∧ ieq k sContentLength = false ∧ ieq k sHost = false

theorem addHeader_plain (a : Msg) (k v : Bytes) (hp : Plain k) : (addHeader a true k v).reqHdrs = addPlain a.reqHdrs k v := by
  obtain ⟨h1, h2, h3⟩ := hp
  simp [addHeader, setKnown, h1, h2, h3, withHdrs, hdrsOf]

theorem addPlain_fresh (hs : List Hdr) (k v : Bytes) (h : ∀ x ∈ hs, ieq k x.name = false) :
    addPlain hs k v = hs ++ [{ name := k, value := v, tag := 0 }] := by
  induction hs with
  | nil => rfl
  | cons a r ih =>
    unfold addPlain
    have ha : ¬ (ieq k a.name = true) := by rw [h a (by simp)]; decide
    rw [if_neg ha, ih (fun x hx => h x (by simp [hx]))]
    rfl

theorem replay_plain (hs : List Hdr) : ∀ (a : Msg), (∀ h ∈ hs, Plain h.name) →
    hs.Pairwise (fun x y => ieq y.name x.name = false) → (∀ h ∈ hs, ∀ x ∈ a.reqHdrs, ieq h.name x.name = false) →
    (replay a hs).reqHdrs = a.reqHdrs ++ hs.map (fun h => { h with tag := 0 }) := by
  induction hs with
  | nil => intro a _ _ _; simp [replay]
  | cons h r ih =>
    intro a hp hpw hfr
    obtain ⟨hh, hr⟩ := List.pairwise_cons.mp hpw
    have e : (addHeader a true h.name h.value).reqHdrs = a.reqHdrs ++ [{ name := h.name, value := h.value, tag := 0 }] := by
      rw [addHeader_plain a _ _ (hp h (by simp)), addPlain_fresh _ _ _ (hfr h (by simp))]
    have := ih (addHeader a true h.name h.value) (fun x hx => hp x (by simp [hx])) hr (by
      intro y hy x hx
      rw [e] at hx
      rcases List.mem_append.mp hx with hx | hx
      · exact hfr y (by simp [hy]) x hx
      · simp at hx
        rw [hx]
        exact hh y hy)
    show (replay (addHeader a true h.name h.value) r).reqHdrs = _
    rw [this, e]
    simp

theorem parsedBack_hdrs (m : Msg) (hp : ∀ h ∈ m.reqHdrs, Plain h.name)
    (hpw : m.reqHdrs.Pairwise (fun x y => ieq y.name x.name = false)) :
    (parsedBack m).reqHdrs.map nv = m.reqHdrs.map nv := by
  have h0 : (reqLineMsg m).reqHdrs = [] := by
    show (connReset {}).reqHdrs = []
    decide
  have := replay_plain m.reqHdrs (reqLineMsg m) hp hpw (by intro h _ x hx; rw [h0] at hx; cases hx)
  show (replay (reqLineMsg m) m.reqHdrs).reqHdrs.map nv = _
  rw [this, h0, List.nil_append, List.map_map]
  rfl

end Nng.HttpConn
