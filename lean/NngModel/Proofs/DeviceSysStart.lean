/- the closed system right after device_start, for the shapes device_init produces -/
import NngModel.Proofs.DeviceSysStep
import NngModel.Proofs.DeviceInit
namespace Nng.Device
open Nng
set_option linter.unusedSimpArgs false

theorem sysStart_one (a b n : Nat) (ha : a < n) :
    sysStart [⟨a, b⟩] n =
      { dev := started [⟨a, b⟩], socks := (List.replicate n ({} : Sock)).set a { rwait := [0] }, ready := [none],
        trace := [Act.sockRecv a 0] } := by
  simp [sysStart, absorb, postRecv, started, ha]

theorem sysStart_two (a b n : Nat) (ha : a < n) (hb : b < n) (hab : a ≠ b) :
    sysStart [⟨a, b⟩, ⟨b, a⟩] n =
      { dev := started [⟨a, b⟩, ⟨b, a⟩],
        socks := ((List.replicate n ({} : Sock)).set a { rwait := [0] }).set b { rwait := [1] }, ready := [none, none],
        trace := [Act.sockRecv a 0, Act.sockRecv b 1] } := by
  simp [sysStart, absorb, postRecv, started, ha, hb, List.getElem?_replicate, hab]

theorem sinv_start_one (a b n : Nat) (ha : a < n) : SInv [⟨a, b⟩] (sysStart [⟨a, b⟩] n) := by
  rw [sysStart_one a b n ha]
  refine ⟨started_inv _ (by simp), rfl, ?_, ?_, ?_⟩
  · intro s k hk x hx
    simp only [List.getElem?_set, List.getElem?_replicate, List.length_replicate] at hk
    by_cases hs : a = s
    · subst hs
      simp [ha] at hk
      subst hk
      simp at hx
      subst hx
      exact ⟨by simp [started], by simp [started]⟩
    · simp [hs] at hk
      rcases hk with ⟨_, hk⟩
      subst hk
      cases hx
  · intro j hj
    simp [started] at hj
    subst hj
    simp [started, ha]
  · intro j hj k hk
    simp [started] at hj
    subst hj
    simp [started, ha] at hk
    subst hk
    refine ⟨?_, ?_, ?_⟩
    · simp [started, pendOf]
    · intro _; left; simp
    · intro h; simp [started] at h

theorem sinv_start_two (a b n : Nat) (ha : a < n) (hb : b < n) (hab : a ≠ b) :
    SInv [⟨a, b⟩, ⟨b, a⟩] (sysStart [⟨a, b⟩, ⟨b, a⟩] n) := by
  rw [sysStart_two a b n ha hb hab]
  have hba : b ≠ a := fun h => hab h.symm
  refine ⟨started_inv _ (by simp), rfl, ?_, ?_, ?_⟩
  · intro s k hk x hx
    simp only [List.getElem?_set, List.getElem?_replicate, List.length_replicate, List.length_set] at hk
    by_cases hs : b = s
    · subst hs
      simp [hb] at hk
      subst hk
      simp at hx
      subst hx
      exact ⟨by simp [started], by simp [started]⟩
    · by_cases hs2 : a = s
      · subst hs2
        simp [hs, ha] at hk
        subst hk
        simp at hx
        subst hx
        exact ⟨by simp [started], by simp [started]⟩
      · simp [hs, hs2] at hk
        rcases hk with ⟨_, hk⟩
        subst hk
        cases hx
  · intro j hj
    simp [started] at hj
    have : j = 0 ∨ j = 1 := by omega
    rcases this with h | h <;> subst h <;> simp [started, ha, hb]
  · intro j hj k hk
    simp [started] at hj
    have : j = 0 ∨ j = 1 := by omega
    rcases this with h | h <;> subst h
    · simp [started, ha, hb, hab, hba, List.getElem?_set] at hk
      subst hk
      refine ⟨?_, ?_, ?_⟩
      · simp [started, pendOf]
      · intro _; left; simp
      · intro h; simp [started] at h
    · simp [started, ha, hb, hab, hba, List.getElem?_set] at hk
      subst hk
      refine ⟨?_, ?_, ?_⟩
      · simp [started, pendOf]
      · intro _; left; simp
      · intro h; simp [started] at h

/-- for every device device_init can make: the closed system starts inside the invariant, and no two of its
    forwarders read the same socket -/
theorem sinv_start_init (info : Nat → SockInfo) (s1 s2 : Option Nat) (dirs : List Dir) (n : Nat)
    (h : deviceInit info s1 s2 true = .ok dirs) (hn : ∀ x ∈ dirs, x.src < n) :
    DistinctSrc dirs ∧ SInv dirs (sysStart dirs n) := by
  have key : ∀ a b, initAB info a b true = .ok dirs → DistinctSrc dirs ∧ SInv dirs (sysStart dirs n) := by
    intro a b hab
    rcases (initAB_ok info a b true dirs hab).2.2.2.2.2 with ⟨_, hd⟩ | ⟨hne, _, _, hd⟩ | ⟨_, _, _, hd⟩ | ⟨_, _, hd⟩
    · subst hd
      exact ⟨by simp [DistinctSrc], sinv_start_one a a n (hn ⟨a, a⟩ (by simp))⟩
    · subst hd
      exact ⟨by simp [DistinctSrc, hne], sinv_start_two a b n (hn ⟨a, b⟩ (by simp)) (hn ⟨b, a⟩ (by simp)) hne⟩
    · subst hd
      exact ⟨by simp [DistinctSrc], sinv_start_one a b n (hn ⟨a, b⟩ (by simp))⟩
    · subst hd
      exact ⟨by simp [DistinctSrc], sinv_start_one b a n (hn ⟨b, a⟩ (by simp))⟩
  rw [deviceInit_eq] at h
  cases s1 <;> cases s2 <;> simp only at h
  · cases h
  all_goals exact key _ _ h

end Nng.Device
