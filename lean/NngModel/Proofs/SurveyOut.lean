/-
  Tie between the SURVEYOR model's outputs and its ghost `delivered` list: every completion
  that carries a message is recorded (so S1, stated on `delivered`, speaks about every message
  the application gets).
-/
import NngModel.Proofs.SurveyStep
namespace Nng.Survey
open Nng Nng.Proto

/-- `outs` hands no message to the application and the state's record is unchanged -/
def Quiet (s s' : State) (outs : List Out) : Prop :=
  s'.delivered = s.delivered ∧ ∀ a rv m b, Out.done a rv (some m) b ∉ outs

/-- either quiet, or exactly one message, recorded -/
def Recorded (s s' : State) (outs : List Out) : Prop :=
  ∀ a rv m b, Out.done a rv (some m) b ∈ outs →
    ∃ d, s'.delivered = s.delivered ++ [d] ∧ d.aio = a ∧ rv = 0

theorem Quiet.recorded {s s' : State} {outs : List Out} (h : Quiet s s' outs) : Recorded s s' outs := by
  intro a rv m b hm; exact absurd hm (h.2 a rv m b)

theorem closePipe_quiet (s : State) (p : Nat) : Quiet s (closePipe s p).1 (closePipe s p).2 := by
  refine ⟨(closePipe_fields s p).2.1, ?_⟩
  intro a rv m b
  unfold closePipe
  split
  · simp
  · split <;> simp

theorem abortCtx_nomsg (c : Ctx) (err : Nat) : ∀ a rv m b, Out.done a rv (some m) b ∉ (abortCtx c err).2 := by
  intro a rv m b; simp [abortCtx]

theorem ctxRecv_recorded (s : State) (c : Ctx) (a : Nat) (mode : Mode) :
    Recorded s (ctxRecv s c a mode).1 (ctxRecv s c a mode).2 := by
  unfold ctxRecv Recorded
  split
  · intro a' rv m b hm; simp at hm
  · simp only
    split
    · split
      · intro a' rv m b hm; simp at hm
      · intro a' rv m b hm; simp at hm
    · rename_i gm rest hq
      intro a' rv m b hm
      simp only [List.mem_singleton, Out.done.injEq] at hm
      obtain ⟨ha, hrv, _, _⟩ := hm
      cases hre : rest.isEmpty
      · simp only [Bool.false_eq_true, if_false]; exact ⟨_, rfl, ha.symm, hrv⟩
      · simp only [if_true]; unfold clearReadableIf; split <;> exact ⟨_, rfl, ha.symm, hrv⟩

theorem pipeRecv_recorded (s : State) (p : Nat) (b : Bytes) :
    Recorded s (pipeRecv s p b).1 (pipeRecv s p b).2 := by
  unfold pipeRecv Recorded
  split
  · intro a' rv m bb hm
    have := (closePipe_quiet s p).2 a' rv m bb
    simp only [List.cons_append, List.nil_append, List.mem_cons] at hm
    rcases hm with hm | hm
    · simp at hm
    · exact absurd hm this
  · simp only
    split
    · intro a' rv m bb hm; simp at hm
    · split
      · intro a' rv m bb hm; simp at hm
      · split
        · intro a' rv m bb hm
          simp only [List.mem_cons, Out.done.injEq, List.not_mem_nil, or_false] at hm
          rcases hm with hm | hm | hm
          · simp at hm
          · obtain ⟨ha, hrv, _, _⟩ := hm
            exact ⟨_, rfl, ha.symm, hrv⟩
          · simp at hm
        · intro a' rv m bb hm
          split at hm <;> simp at hm

theorem sendToPipe_nomsg (wm : WMsg) (pp : Pipe) : ∀ a rv m b, Out.done a rv (some m) b ∉ (sendToPipe wm pp).2 := by
  intro a rv m b
  unfold sendToPipe
  split
  · simp
  · split
    · simp
    · split <;> simp

theorem ctxSend_quiet (s : State) (c : Ctx) (a : Nat) (m : WMsg) :
    Quiet s (ctxSend s c a m).1 (ctxSend s c a m).2 := by
  unfold ctxSend Quiet
  simp only
  have hd : (clearReadableIf (setCtx s (abortCtx c Err.ecanceled).1) c.key).delivered = s.delivered := by
    unfold clearReadableIf; split <;> rfl
  split
  · refine ⟨hd, ?_⟩
    intro a' rv m' b hm
    simp only [List.mem_append, List.mem_singleton] at hm
    rcases hm with hm | hm
    · exact abortCtx_nomsg _ _ _ _ _ _ hm
    · simp at hm
  · refine ⟨hd, ?_⟩
    intro a' rv m' b hm
    simp only [List.mem_append, List.mem_singleton, List.mem_flatMap] at hm
    rcases hm with (hm | ⟨pp, _, hm⟩) | hm
    · exact abortCtx_nomsg _ _ _ _ _ _ hm
    · exact sendToPipe_nomsg _ _ _ _ _ _ hm
    · simp at hm

theorem cancelAio_quiet (s : State) (a rv : Nat) : Quiet s (cancelAio s a rv).1 (cancelAio s a rv).2 := by
  unfold cancelAio Quiet
  split
  · refine ⟨rfl, ?_⟩
    intro a' rv' m b
    simp only [cancelIn]
    split <;> simp
  · exact ⟨rfl, by simp⟩

theorem expire_quiet (s : State) : Quiet s (expire s).1 (expire s).2 := by
  unfold expire Quiet
  refine ⟨rfl, ?_⟩
  intro a rv m b hm
  simp only [List.mem_flatMap] at hm
  obtain ⟨c, _, hm⟩ := hm
  unfold expireCtx at hm
  simp only at hm
  split at hm <;> simp at hm

theorem foldl_closePipe_nomsg (ps : List Pipe) (acc : State × List Out)
    (h : ∀ a rv m b, Out.done a rv (some m) b ∉ acc.2) :
    ∀ a rv m b, Out.done a rv (some m) b ∉ (ps.foldl (fun (acc : State × List Out) pp =>
      ((closePipe acc.1 pp.id).1, acc.2 ++ (closePipe acc.1 pp.id).2)) acc).2 := by
  induction ps generalizing acc with
  | nil => exact h
  | cons pp rest ih =>
    simp only [List.foldl_cons]
    apply ih
    intro a rv m b hm
    simp only [List.mem_append] at hm
    rcases hm with hm | hm
    · exact h _ _ _ _ hm
    · exact (closePipe_quiet acc.1 pp.id).2 _ _ _ _ hm

theorem closeAll_quiet (s : State) : Quiet s (closeAll s).1 (closeAll s).2 := by
  unfold closeAll Quiet
  simp only
  have hf := foldl_closePipe_fields s.pipes
    ({ s with ctxs := s.ctxs.map fun c => (abortCtx c Err.eclosed).1, readable := false }, [])
  refine ⟨hf.2.1, ?_⟩
  intro a rv m b hm
  simp only [List.mem_append, List.mem_flatMap] at hm
  rcases hm with ⟨c, _, hm⟩ | hm
  · exact abortCtx_nomsg _ _ _ _ _ _ hm
  · exact foldl_closePipe_nomsg s.pipes _ (by simp) _ _ _ _ hm

/-- every completion that hands a message to the application is recorded in `delivered`,
    and it is a success -/
theorem step_recorded (s : State) (ev : Ev) : Recorded s (step s ev).1 (step s ev).2 := by
  have q : ∀ (s' : State) (outs : List Out), s'.delivered = s.delivered →
      (∀ a rv m b, Out.done a rv (some m) b ∉ outs) → Recorded s s' outs :=
    fun s' outs h1 h2 => Quiet.recorded ⟨h1, h2⟩
  unfold step
  split
  · cases ev <;> exact q _ _ rfl (by simp)
  · split
    · cases ev <;> exact q _ _ rfl (by simp)
    · cases ev with
      | openSock _ _ => exact q _ _ rfl (by simp)
      | pipeAdd peer => simp only; split <;> exact q _ _ rfl (by simp)
      | pipeDrop p =>
        simp only
        split
        · split
          · exact q _ _ rfl (by simp)
          · refine q _ _ (closePipe_quiet s p).1 ?_
            intro a rv m b hm
            simp only [List.cons_append, List.nil_append, List.mem_cons] at hm
            rcases hm with hm | hm
            · simp at hm
            · exact (closePipe_quiet s p).2 _ _ _ _ hm
        · exact q _ _ rfl (by simp)
      | sendDone p rv =>
        simp only
        split
        · split
          · exact q _ _ rfl (by simp)
          · split
            · refine q _ _ (closePipe_quiet s p).1 ?_
              intro a rv m b hm
              simp only [List.cons_append, List.nil_append, List.mem_cons] at hm
              rcases hm with hm | hm
              · simp at hm
              · exact (closePipe_quiet s p).2 _ _ _ _ hm
            · split <;> exact q _ _ rfl (by simp)
        · exact q _ _ rfl (by simp)
      | recvDone p r =>
        simp only
        split
        · split
          · exact q _ _ rfl (by simp)
          · split
            · refine q _ _ (closePipe_quiet s p).1 ?_
              intro a rv m b hm
              simp only [List.cons_append, List.nil_append, List.mem_cons] at hm
              rcases hm with hm | hm
              · simp at hm
              · exact (closePipe_quiet s p).2 _ _ _ _ hm
            · exact pipeRecv_recorded s p _
        · exact q _ _ rfl (by simp)
      | send k a m mode =>
        simp only
        split
        · exact q _ _ rfl (by simp)
        · split
          · exact q _ _ rfl (by simp)
          · exact (ctxSend_quiet s _ a m).recorded
      | recv k a mode =>
        simp only
        split
        · exact q _ _ rfl (by simp)
        · split
          · exact q _ _ rfl (by simp)
          · exact ctxRecv_recorded s _ a mode
      | cancel a => exact (cancelAio_quiet s a _).recorded
      | abort a rv => exact (cancelAio_quiet s a rv).recorded
      | advance ms => exact q _ _ (expire_quiet { s with now := s.now + ms }).1 (expire_quiet { s with now := s.now + ms }).2
      | ctxOpen k =>
        simp only
        split
        · exact q _ _ rfl (by simp)
        · split
          · exact q _ _ rfl (by simp)
          · split <;> exact q _ _ rfl (by simp)
      | ctxClose k =>
        simp only
        split
        · exact q _ _ rfl (by simp)
        · refine q _ _ rfl ?_
          intro a rv m b hm
          simp only [List.cons_append, List.nil_append, List.mem_cons] at hm
          rcases hm with hm | hm
          · simp at hm
          · exact abortCtx_nomsg _ _ _ _ _ _ hm
      | setopt k name ty v =>
        simp only
        split
        · split
          · exact q _ _ rfl (by simp)
          · split <;> exact q _ _ rfl (by simp)
        · split
          · split <;> exact q _ _ rfl (by simp)
          · exact q _ _ rfl (by simp)
      | getopt k name ty =>
        simp only
        split
        · split <;> exact q _ _ rfl (by simp)
        · split <;> exact q _ _ rfl (by simp)
      | poll => exact q _ _ rfl (by simp)
      | sub _ _ => exact q _ _ rfl (by simp)
      | unsub _ _ => exact q _ _ rfl (by simp)
      | close => exact (closeAll_quiet s).recorded

end Nng.Survey
