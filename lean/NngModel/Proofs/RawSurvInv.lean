/-
  The invariant of the raw SURVEYOR / RESPONDENT models over all event sequences.
-/
import NngModel.Proofs.RawSurvPipe
namespace Nng.RawSurv
open Nng Nng.Proto Nng.RawMq

/-- the upper write queue holds nothing: the socket's own aio_getq is its only reader and is
    always posted while the socket is open -/
structure UwqInv (opened closed : Bool) (q : Mq) : Prop where
  items : q.items = []
  putq : q.putq = []
  pre : opened = false → q.getq = []
  rdr : opened = true → closed = false → q.getq = [⟨0, none⟩]

/-- the upper read queue: readers wait only when nothing is owed; every accepted arrival is
    delivered, owed (stored or with a parked writer) or lost, exactly once, in arrival order -/
structure UrqInv (k : Kind) (q : Mq) (delivered lost : List WMsg) (accepted : List Arr) : Prop where
  rd : q.getq ≠ [] → q.items = [] ∧ q.putq = []
  occ : q.items.length ≤ q.cap
  capk : q.cap = Nng.Generated.xsvSockRecvq
  acct : (delivered ++ pending q ++ lost).Perm (accepted.map (·.m))
  order : (delivered ++ pending q).Sublist (accepted.map (·.m))
  hdr : ∀ a ∈ accepted, k.recvFn a.ttl a.pipe a.bytes = .deliver a.m.hdr a.m.body ∧ a.ttl ≤ Nng.Generated.maxMaxTtl

/-- everything but the upper write queue -/
structure Core (k : Kind) (sel : Sel) (s : State) : Prop where
  urq : UrqInv k s.urq s.delivered s.lost s.accepted
  pipes : PipesInv sel k.sqCap s.pipes s.sent
  ttl : s.ttl ≤ Nng.Generated.maxMaxTtl

structure Inv (k : Kind) (sel : Sel) (s : State) : Prop where
  uwq : UwqInv s.opened s.closed s.uwq
  core : Core k sel s

/-- what the proofs need to know about the two kind-specific functions -/
structure KindOK (k : Kind) (sel : Sel) : Prop where
  ttl : k.ttlInit ≤ Nng.Generated.maxMaxTtl
  route : ∀ ps m sent, PipesInv sel k.sqCap ps sent → PipesInv sel k.sqCap (k.route ps m).1 (sent ++ [m])

theorem inv_init (k : Kind) (sel : Sel) : Inv k sel ({} : State) := by
  refine ⟨⟨rfl, rfl, fun _ => rfl, fun h => by cases h⟩, ⟨⟨?_, by decide, rfl, by simp [pending], by simp [pending], ?_⟩, ?_, by decide⟩⟩
  · intro h; exact absurd rfl h
  · intro a ha; cases ha
  · intro i pp h; simp at h

/-! ### frame: pipes only -/

def armPipe (s : State) (p : Nat) : State :=
  match getPipe s p with
  | some pp => setPipe s p { pp with armed := true }
  | none => s

theorem armPipe_eq (sel : Sel) (cap : Nat) (s : State) (p : Nat) :
    ∃ ps, armPipe s p = { s with pipes := ps } ∧ (PipesInv sel cap s.pipes s.sent → PipesInv sel cap ps s.sent) := by
  unfold armPipe
  cases h : getPipe s p with
  | none => exact ⟨s.pipes, rfl, id⟩
  | some pp =>
    refine ⟨s.pipes.set p { pp with armed := true }, rfl, ?_⟩
    intro hi
    exact pipesInv_set hi p _ (pipeOK_armed (hi p pp h) true)

theorem urqEvent_queued (s : State) (w : Put) : urqEvent s (.queued w) = (armPipe s w.tag, [.parm w.tag]) := rfl
theorem urqEvent_handed (s : State) (w : Put) (g : Get) :
    urqEvent s (.handed w g) = ({ armPipe s w.tag with delivered := (armPipe s w.tag).delivered ++ [w.msg] },
      [.done g.tag 0 (some w.msg) false, .parm w.tag]) := rfl

theorem applyEvents_nil (s : State) : applyEvents s [] = (s, []) := rfl
theorem applyEvents_one (s : State) (e : MqEv) : applyEvents s [e] = ((urqEvent s e).1, (urqEvent s e).2) := by
  simp [applyEvents]

/-- a batch of `queued` completions only re-arms receives -/
theorem applyQueued (sel : Sel) (cap : Nat) : ∀ (es : List MqEv) (s : State) (acc : List Out), (∀ e ∈ es, ∃ w, e = .queued w) →
    ∃ ps, (es.foldl (fun (acc : State × List Out) e =>
      let (s', o) := urqEvent acc.1 e
      (s', acc.2 ++ o)) (s, acc)).1 = { s with pipes := ps } ∧ (PipesInv sel cap s.pipes s.sent → PipesInv sel cap ps s.sent) := by
  intro es
  induction es with
  | nil => intro s acc _; exact ⟨s.pipes, rfl, id⟩
  | cons e es ih =>
    intro s acc h
    obtain ⟨w, rfl⟩ := h e (by simp)
    simp only [List.foldl_cons, urqEvent_queued]
    obtain ⟨ps1, e1, h1⟩ := armPipe_eq sel cap s w.tag
    obtain ⟨ps2, e2, h2⟩ := ih (armPipe s w.tag) (acc ++ [.parm w.tag]) (fun e he => h e (by simp [he]))
    refine ⟨ps2, ?_, ?_⟩
    · rw [e2, e1]
    · intro hi
      have := h1 hi
      rw [e1] at h2
      exact h2 this

/-! ### closing a pipe -/

theorem perm_split {α : Type} (d it l A B X : List α) (h : (A ++ B).Perm X) :
    (d ++ (it ++ A) ++ (l ++ B)).Perm (d ++ (it ++ X) ++ l) := by
  have e : d ++ (it ++ A) ++ (B ++ l) = d ++ (it ++ (A ++ B)) ++ l := by simp
  exact ((List.Perm.append_left _ List.perm_append_comm).trans (e ▸ List.Perm.refl _)).trans
    (((h.append_left it).append_left d).append_right l)

theorem closePipe_core {k : Kind} {sel : Sel} (s : State) (p : Nat) (h : Core k sel s) :
    Core k sel (closePipe s p).1 ∧ (closePipe s p).1.uwq = s.uwq ∧ (closePipe s p).1.opened = s.opened ∧
    (closePipe s p).1.closed = s.closed := by
  unfold closePipe
  cases hg : getPipe s p with
  | none => exact ⟨h, rfl, rfl, rfl⟩
  | some pp =>
    by_cases hc : pp.closed = true
    · simp only []; rw [if_pos hc]; exact ⟨h, rfl, rfl, rfl⟩
    · simp only []; rw [if_neg hc]
      refine ⟨⟨?_, ?_, h.ttl⟩, rfl, rfl, rfl⟩
      · have hu := h.urq
        refine ⟨?_, hu.occ, hu.capk, ?_, ?_, hu.hdr⟩
        · intro hne
          have := hu.rd hne
          exact ⟨this.1, by show (s.urq.putq.filter _) = []; rw [this.2]; rfl⟩
        · show (s.delivered ++ (s.urq.items ++ (s.urq.putq.filter (·.tag != p)).map (·.msg)) ++
            (s.lost ++ (s.urq.putq.filter (·.tag == p)).map (·.msg))).Perm _
          have hacct : (s.delivered ++ (s.urq.items ++ s.urq.putq.map (·.msg)) ++ s.lost).Perm (s.accepted.map (·.m)) := hu.acct
          refine (perm_split s.delivered s.urq.items s.lost _ _ (s.urq.putq.map (·.msg)) ?_).trans hacct
          rw [← List.map_append]
          apply List.Perm.map
          exact List.perm_append_comm.trans (List.filter_append_perm (·.tag == p) s.urq.putq)
        · show (s.delivered ++ (s.urq.items ++ (s.urq.putq.filter (·.tag != p)).map (·.msg))).Sublist _
          have hord : (s.delivered ++ (s.urq.items ++ s.urq.putq.map (·.msg))).Sublist (s.accepted.map (·.m)) := hu.order
          refine List.Sublist.trans ?_ hord
          exact List.Sublist.append (List.Sublist.refl _) (List.Sublist.append (List.Sublist.refl _) (List.filter_sublist.map _))
      · exact pipesInv_set h.pipes p _ (pipeOK_close (h.pipes p pp hg))

theorem closeAll_core {k : Kind} {sel : Sel} : ∀ (n : Nat) (s : State), Core k sel s →
    Core k sel (closeAll s n).1 ∧ (closeAll s n).1.uwq = s.uwq ∧ (closeAll s n).1.opened = s.opened ∧
    (closeAll s n).1.closed = s.closed := by
  intro n
  induction n with
  | zero => intro s h; exact ⟨h, rfl, rfl, rfl⟩
  | succ n ih =>
    intro s h
    obtain ⟨a, b, c, d⟩ := ih s h
    obtain ⟨a', b', c', d'⟩ := closePipe_core (closeAll s n).1 n a
    simp only [closeAll]
    exact ⟨a', b'.trans b, c'.trans c, d'.trans d⟩

theorem closePipe_inv {k : Kind} {sel : Sel} (s : State) (p : Nat) (h : Inv k sel s) : Inv k sel (closePipe s p).1 := by
  obtain ⟨a, b, c, d⟩ := closePipe_core s p h.core
  exact ⟨by rw [b, c, d]; exact h.uwq, a⟩

/-! ### cancel / abort / expiry -/

theorem failAio_inv {k : Kind} {sel : Sel} (s : State) (a rv : Nat) (h : Inv k sel s) : Inv k sel (failAio s a rv).1 := by
  unfold failAio
  split
  · refine ⟨h.uwq, ⟨?_, h.core.pipes, h.core.ttl⟩⟩
    have hu := h.core.urq
    refine ⟨?_, hu.occ, hu.capk, hu.acct, hu.order, hu.hdr⟩
    intro hne
    apply hu.rd
    intro he
    apply hne
    show s.urq.getq.filter _ = []
    rw [he]; rfl
  · split
    · refine ⟨⟨h.uwq.items, ?_, h.uwq.pre, h.uwq.rdr⟩, ⟨h.core.urq, h.core.pipes, h.core.ttl⟩⟩
      show s.uwq.putq.filter _ = []
      rw [h.uwq.putq]; rfl
    · exact h

theorem expire_inv {k : Kind} {sel : Sel} (s : State) (h : Inv k sel s) : Inv k sel (expire s).1 := by
  unfold expire
  simp only []
  generalize (List.map (·.tag) (List.filter _ s.urq.getq) ++ List.map (·.tag) (List.filter _ s.uwq.putq)) = as
  generalize ([] : List Out) = acc
  induction as generalizing s acc with
  | nil => exact h
  | cons a as ih =>
    simp only [List.foldl_cons]
    have h1 := failAio_inv s a Err.etimedout h
    revert h1
    generalize failAio s a Err.etimedout = r
    intro h1
    obtain ⟨s', o⟩ := r
    exact ih s' h1 _

end Nng.RawSurv
