/-
  Raw judges: a batch of wire hand-overs (`psend`) on pairwise distinct pipes, seen pipe by pipe;
  and the raw SURVEYOR judge's fan-out (`accept false`) seen pipe by pipe.
-/
import NngModel.Proofs.RawJudgeCut
namespace Nng.RawSurveySpec
open Nng Nng.Proto

theorem filter_erase_other (l : List Held) (a : Held) (q : Nat) (h : a.pipe ≠ q) :
    (l.erase a).filter (·.pipe == q) = l.filter (·.pipe == q) := by
  rw [← List.erase_filter]
  apply List.erase_of_not_mem
  intro hm
  have := (List.mem_filter.1 hm).2
  simp at this
  exact h this

theorem filter_erase_head (l : List Held) (a : Held) (h : (l.filter (·.pipe == a.pipe)).head? = some a) :
    (l.erase a).filter (·.pipe == a.pipe) = (l.filter (·.pipe == a.pipe)).tail := by
  rw [← List.erase_filter]
  cases hf : l.filter (·.pipe == a.pipe) with
  | nil => rw [hf] at h; cases h
  | cons x xs =>
    rw [hf] at h
    simp only [List.head?_cons, Option.some.injEq] at h
    subst h
    simp

/-- the judge after one accepted wire hand-over -/
def afterPsend (j : XJ) (a : Held) (p : Nat) (b : Bytes) : XJ :=
  { j with acc := j.acc.erase a, wired := j.wired ++ [(p, b)], busy := j.busy ++ [p] }

/-- wire hand-overs on pairwise distinct pipes, each the head of what the judge expects there -/
theorem xOut_psends (resp : Bool) : ∀ (ws : List (Nat × WMsg)) (j : XJ), (ws.map (·.1)).Nodup →
    (∀ x ∈ ws, x.1 ∈ j.live ∧ x.1 ∉ j.busy ∧ (x.1, x.2.body) ∉ j.wired ∧
      (j.acc.filter (·.pipe == x.1)).head? = some ⟨x.1, x.2.hdr, x.2.body, false⟩) →
    ∃ acc1, (ws.map (fun x => Out.psend x.1 x.2)).foldl (xOut resp) j =
        { j with acc := acc1, wired := j.wired ++ ws.map (fun x => (x.1, x.2.body)), busy := j.busy ++ ws.map (·.1) } ∧
      (∀ q, acc1.filter (·.pipe == q) =
        if q ∈ ws.map (·.1) then (j.acc.filter (·.pipe == q)).tail else j.acc.filter (·.pipe == q)) ∧
      (∀ a ∈ acc1, a ∈ j.acc) := by
  intro ws
  induction ws with
  | nil =>
    intro j _ _
    exact ⟨j.acc, by simp, by simp, fun a h => h⟩
  | cons x ws ih =>
    intro j hn h
    simp only [List.map_cons, List.nodup_cons] at hn
    obtain ⟨h1, h2, h3, h4⟩ := h x (by simp)
    have hfind : j.acc.find? (·.pipe == x.1) = some ⟨x.1, x.2.hdr, x.2.body, false⟩ := by
      rw [← List.head?_filter]; exact h4
    have e := xOut_psend resp j x.1 x.2 ⟨x.1, x.2.hdr, x.2.body, false⟩ h3 h1 h2 hfind rfl rfl
    have hne : ∀ y ∈ ws, y.1 ≠ x.1 := by
      intro y hy e
      exact hn.1 (List.mem_map.2 ⟨y, hy, e⟩)
    have e : xOut resp j (.psend x.1 x.2) = afterPsend j ⟨x.1, x.2.hdr, x.2.body, false⟩ x.1 x.2.body := e
    obtain ⟨acc1, e1, e2, e3⟩ := ih (afterPsend j ⟨x.1, x.2.hdr, x.2.body, false⟩ x.1 x.2.body) hn.2 (by
      intro y hy
      obtain ⟨g1, g2, g3, g4⟩ := h y (by simp [hy])
      have hy1 := hne y hy
      refine ⟨g1, ?_, ?_, ?_⟩
      · show y.1 ∉ j.busy ++ [x.1]
        simp [g2, hy1]
      · show (y.1, y.2.body) ∉ j.wired ++ [(x.1, x.2.body)]
        simp [g3, hy1]
      · show ((j.acc.erase ⟨x.1, x.2.hdr, x.2.body, false⟩).filter (·.pipe == y.1)).head? = _
        rw [filter_erase_other _ _ _ (fun e => hy1 e.symm)]
        exact g4)
    refine ⟨acc1, ?_, ?_, ?_⟩
    · simp only [List.map_cons, List.foldl_cons]
      rw [e, e1]
      simp [afterPsend]
    · intro q
      rw [e2 q]
      show (if q ∈ ws.map (·.1) then ((j.acc.erase ⟨x.1, x.2.hdr, x.2.body, false⟩).filter (·.pipe == q)).tail
          else (j.acc.erase ⟨x.1, x.2.hdr, x.2.body, false⟩).filter (·.pipe == q)) = _
      by_cases hq : q = x.1
      · subst hq
        rw [if_neg hn.1]
        simp only [List.map_cons, List.mem_cons, true_or, if_true]
        exact filter_erase_head j.acc ⟨x.1, x.2.hdr, x.2.body, false⟩ h4
      · rw [filter_erase_other _ _ _ (fun e => hq e.symm)]
        simp only [List.map_cons, List.mem_cons, hq, false_or]
    · intro a ha
      exact List.mem_of_mem_erase (e3 a ha)

/-! ### the raw SURVEYOR judge's fan-out -/

def fanStep (o : Offer) (j : XJ) (p : Nat) : XJ :=
  if takes false j p then { j with acc := j.acc ++ [⟨p, o.hdr, o.body, false⟩] } else j

theorem accept_surveyor (j : XJ) (o : Offer) : accept false j o = j.live.foldl (fanStep o) j := rfl

theorem takes_congr (resp : Bool) (j j1 : XJ) (p : Nat) (hb : j1.busy = j.busy)
    (ha : j1.acc.filter (·.pipe == p) = j.acc.filter (·.pipe == p)) : takes resp j1 p = takes resp j p := by
  unfold takes; rw [hb, ha]

theorem fan_fold (o : Offer) : ∀ (L : List Nat) (j : XJ), L.Nodup →
    ∃ acc1, L.foldl (fanStep o) j = { j with acc := acc1 } ∧
      ∀ q, acc1.filter (·.pipe == q) = j.acc.filter (·.pipe == q) ++
        (if q ∈ L ∧ takes false j q = true then [⟨q, o.hdr, o.body, false⟩] else []) := by
  intro L
  induction L with
  | nil => intro j _; exact ⟨j.acc, rfl, by simp⟩
  | cons p L ih =>
    intro j hn
    simp only [List.nodup_cons] at hn
    simp only [List.foldl_cons]
    by_cases ht : takes false j p = true
    · have e : fanStep o j p = { j with acc := j.acc ++ [⟨p, o.hdr, o.body, false⟩] } := by
        unfold fanStep; rw [if_pos ht]
      rw [e]
      obtain ⟨acc1, e1, e2⟩ := ih { j with acc := j.acc ++ [⟨p, o.hdr, o.body, false⟩] } hn.2
      refine ⟨acc1, by rw [e1], ?_⟩
      intro q
      rw [e2 q]
      show (j.acc ++ [(⟨p, o.hdr, o.body, false⟩ : Held)]).filter (·.pipe == q) ++ _ = _
      by_cases hq : q = p
      · subst hq
        have : ¬ (q ∈ L ∧ takes false { j with acc := j.acc ++ [⟨q, o.hdr, o.body, false⟩] } q = true) := fun h => hn.1 h.1
        rw [if_neg this]
        simp [ht]
      · have hpq : ¬ p = q := fun e => hq e.symm
        have ht2 : takes false { j with acc := j.acc ++ [⟨p, o.hdr, o.body, false⟩] } q = takes false j q := by
          refine takes_congr false j _ q ?_ ?_
          · rfl
          show (j.acc ++ [(⟨p, o.hdr, o.body, false⟩ : Held)]).filter (·.pipe == q) = _
          simp [List.filter_append, hpq]
        rw [ht2]
        simp [List.filter_append, hq, hpq]
    · have e : fanStep o j p = j := by
        unfold fanStep; rw [if_neg ht]
      rw [e]
      obtain ⟨acc1, e1, e2⟩ := ih j hn.2
      refine ⟨acc1, e1, ?_⟩
      intro q
      rw [e2 q]
      by_cases hq : q = p
      · subst hq
        simp [ht, hn.1]
      · simp [hq]

end Nng.RawSurveySpec
