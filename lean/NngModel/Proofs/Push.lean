/-
  Invariants of the PUSH model (Model/Push.lean) over all event sequences.
-/
import NngModel.Model.Push
import NngModel.Generated.C06
namespace Nng.Push
open Nng Nng.Proto

/-- state reached from the initial state by an event list -/
def reachFrom (s : State) (evs : List Ev) : State := evs.foldl (fun s e => (step s e).1) s
def reach (evs : List Ev) : State := reachFrom {} evs

structure Inv (s : State) : Prop where
  cons : ∀ x, s.accepted.count x = (s.wire.map (·.2)).count x + s.wq.count x + s.dropped.count x
  off : ∀ x, s.offered.count x = s.accepted.count x + s.returned.count x + (s.aq.map (·.msg)).count x
  offGid : s.offered.map (·.gid) = List.range s.nsend
  order : (s.wire.map (·.2) ++ s.wq).Sublist s.accepted
  aqNodup : (s.aq.map (·.aio)).Nodup
  plEmpty : s.pl ≠ [] → s.wq = [] ∧ s.aq = []
  bound : s.wq.length ≤ s.wqCap
  wr : s.closed = false → (s.writable = true ↔ (s.wq.length < s.wqCap ∨ s.pl ≠ []))
  park : s.closed = false → s.slack = false → s.aq ≠ [] → s.wqCap ≤ s.wq.length
  capInit : s.opened = false → s.wqCap = Nng.Generated.pushSendBufInit

theorem sub_snoc {α} {a b c : List α} {x : α} (h : (a ++ b).Sublist c) :
    (a ++ (b ++ [x])).Sublist (c ++ [x]) := by
  rw [← List.append_assoc]; exact h.append (List.Sublist.refl _)

/-- closing tactic for the routine invariant goals -/
macro "fin" : tactic => `(tactic| first
  | assumption
  | omega
  | (intro x; have := ‹∀ x : GMsg, List.count x _ = List.count x (List.map _ _) + _ + _› x;
     have := ‹∀ x : GMsg, List.count x _ = List.count x _ + List.count x _ + List.count x (List.map _ _)› x; omega)
  | (simp [*, List.range_succ]; done)
  | grind)

theorem inv_init : Inv ({} : State) := by
  constructor <;> simp [Nng.Generated.pushSendBufInit]

theorem evSend_inv {s : State} (h : Inv s) (a : Nat) (m : WMsg) (mode : Mode) :
    Inv (evSend s a m mode).1 := by
  unfold evSend
  by_cases hbusy : (s.aq.any (·.aio == a)) = true
  · rw [if_pos hbusy]; exact h
  rw [if_neg hbusy]
  have hbusy' : ∀ x ∈ s.aq, ¬ x.aio = a := by simpa using hbusy
  obtain ⟨hc, ho, hg, hor, hn, hpe, hb, hw, hpk, hci⟩ := h
  split
  · rename_i p rest hpl
    have hp := hpe (by simp [hpl])
    simp [hp.1, hp.2, hpl] at hc ho hg hor hn hpe hb hw hpk hci
    constructor <;> simp [wqFull, full, hp.1, hp.2] <;> fin
  · rename_i hpl
    simp [hpl] at hc ho hg hor hn hpe hb hw hpk hci
    split
    · constructor <;> simp [full, hpl] <;> first | fin | skip
    · split
      · constructor <;> simp [hpl] <;> fin
      · constructor <;> simp [hpl] <;> first | fin | skip


theorem filter_aio_eq {l : List Parked} {a : Nat} (h : ∀ x ∈ l, x.aio ≠ a) :
    l.filter (·.aio != a) = l := by
  rw [List.filter_eq_self]; intro x hx; simpa using h x hx

theorem find_filter_count {l : List Parked} {a : Nat} {pk : Parked}
    (hn : (l.map (·.aio)).Nodup) (hf : l.find? (·.aio == a) = some pk) (x : GMsg) :
    (l.map (·.msg)).count x = ((l.filter (·.aio != a)).map (·.msg)).count x + [pk.msg].count x := by
  induction l with
  | nil => simp at hf
  | cons q l ih =>
    simp only [List.map_cons, List.nodup_cons, List.mem_map, not_exists, not_and] at hn
    by_cases hq : q.aio = a
    · have hq1 : (q.aio == a) = true := by simpa using hq
      have hq2 : (q.aio != a) = false := by simp [hq]
      have : pk = q := by rw [List.find?_cons, hq1] at hf; simpa using hf.symm
      subst this
      have hl : ∀ x ∈ l, x.aio ≠ a := by intro x hx hxa; exact hn.1 x hx (by omega)
      rw [List.filter_cons, hq2]
      simp [filter_aio_eq hl, List.count_cons]
    · have hq1 : (q.aio == a) = false := by simpa using hq
      have hq2 : (q.aio != a) = true := by simp [hq]
      have hf' : l.find? (·.aio == a) = some pk := by rw [List.find?_cons, hq1] at hf; exact hf
      have := ih hn.2 hf'
      rw [List.filter_cons, hq2]
      simp [List.count_cons] at this ⊢; omega

theorem failParked_inv {s : State} (h : Inv s) (a rv : Nat) : Inv (failParked s a rv).1 := by
  unfold failParked
  split
  · rename_i pk hf
    obtain ⟨hc, ho, hg, hor, hn, hpe, hb, hw, hpk, hci⟩ := h
    have hcount := find_filter_count hn hf
    constructor <;> simp <;> first | fin | skip
  · exact h


theorem failEach_inv (rv : Nat) (l : List Nat) : ∀ {s : State}, Inv s → Inv (failEach s rv l).1 := by
  induction l with
  | nil => intro s h; exact h
  | cons a l ih => intro s h; exact ih (failParked_inv h a rv)

theorem now_inv {s : State} (h : Inv s) (n : Nat) : Inv { s with now := n } := by
  obtain ⟨hc, ho, hg, hor, hn, hpe, hb, hw, hpk, hci⟩ := h
  constructor <;> assumption

theorem expire_inv {s : State} (h : Inv s) : Inv (expire s).1 := failEach_inv _ _ h

theorem evSetBuf_inv {s : State} (h : Inv s) (hop : s.opened = true) (v : Int) : Inv (evSetBuf s v).1 := by
  unfold evSetBuf
  split
  · exact h
  · obtain ⟨hc, ho, hg, hor, hn, hpe, hb, hw, hpk, hci⟩ := h
    constructor <;> simp [full] <;> first | fin | skip
    · intro x
      have := congrArg (List.count x) (List.take_append_drop v.toNat s.wq)
      have := hc x
      simp only [List.count_append] at *; omega
    · exact ((List.Sublist.refl _).append (List.take_sublist _ _)).trans hor

theorem closePipe_inv {s : State} (h : Inv s) (p : Nat) : Inv (closePipe s p).1 := by
  unfold closePipe
  split
  · exact h
  · split
    · exact h
    · obtain ⟨hc, ho, hg, hor, hn, hpe, hb, hw, hpk, hci⟩ := h
      have hne : s.pl ≠ [] ↔ ∃ x, x ∈ s.pl := by cases s.pl <;> simp
      constructor <;> simp [wqFull, full] <;> first | fin | skip


theorem closeAll_inv (l : List Nat) : ∀ {s : State}, Inv s → Inv (closeAll s l).1 := by
  induction l with
  | nil => intro s h; exact h
  | cons a l ih => intro s h; exact ih (closePipe_inv h a)

theorem pipes_inv {s : State} (h : Inv s) (ps : List Pipe) : Inv { s with pipes := ps } := by
  obtain ⟨hc, ho, hg, hor, hn, hpe, hb, hw, hpk, hci⟩ := h
  constructor <;> assumption

theorem pipeReady_inv {s : State} (h : Inv s) (p : Nat) : Inv (pipeReady s p).1 := by
  obtain ⟨hc, ho, hg, hor, hn, hpe, hb, hw, hpk, hci⟩ := h
  unfold pipeReady pipeReadyCore
  split
  · rename_i m rest hwq
    split
    · rename_i a arest haq
      simp [hwq, haq] at hc ho hg hor hn hpe hb hw hpk hci
      constructor <;> simp [wqFull, full, hwq, haq] <;> first | fin | skip
    · rename_i haq
      simp [hwq, haq] at hc ho hg hor hn hpe hb hw hpk hci
      constructor <;> simp [wqFull, full, hwq, haq] <;> first | fin | skip
  · rename_i hwq
    split
    · rename_i a arest haq
      simp [hwq, haq] at hc ho hg hor hn hpe hb hw hpk hci
      constructor <;> simp [wqFull, full, hwq, haq] <;> first | fin | skip
    · rename_i haq
      simp [hwq, haq] at hc ho hg hor hn hpe hb hw hpk hci
      constructor <;> simp [wqFull, full, hwq, haq] <;> first | fin | skip


theorem evPipeAdd_inv {s : State} (h : Inv s) (peer : Nat) : Inv (evPipeAdd s peer).1 := by
  unfold evPipeAdd
  split
  · exact pipes_inv h _
  · exact pipeReady_inv (pipes_inv h _) _

theorem evPipeDrop_inv {s : State} (h : Inv s) (p : Nat) : Inv (evPipeDrop s p).1 := by
  unfold evPipeDrop
  split
  · split
    · exact h
    · exact closePipe_inv h p
  · exact h

theorem evSendDone_inv {s : State} (h : Inv s) (p rv : Nat) : Inv (evSendDone s p rv).1 := by
  unfold evSendDone
  split
  · split
    · split
      · exact h
      · split
        · exact closePipe_inv h p
        · exact pipeReady_inv (pipes_inv h _) _
    · exact h
  · exact h

theorem evRecvDone_inv {s : State} (h : Inv s) (p : Nat) (r : Except Nat Bytes) :
    Inv (evRecvDone s p r).1 := by
  unfold evRecvDone
  split
  · split
    · exact h
    · split
      · exact h
      · exact closePipe_inv h p
  · exact h

theorem evRecv_inv {s : State} (h : Inv s) (a : Nat) : Inv (evRecv s a).1 := by
  unfold evRecv; split <;> exact h

theorem evClose_inv {s : State} (h : Inv s) : Inv (evClose s).1 := by
  unfold evClose
  have h1 : Inv { s with returned := s.returned ++ s.aq.map Parked.msg, aq := [] } := by
    obtain ⟨hc, ho, hg, hor, hn, hpe, hb, hw, hpk, hci⟩ := h
    constructor <;> simp <;> first | fin | skip
  have h2 := closeAll_inv (s.pipes.map (·.id)) h1
  generalize closeAll _ _ = r at h2
  obtain ⟨hc, ho, hg, hor, hn, hpe, hb, hw, hpk, hci⟩ := h2
  constructor <;> simp <;> first | fin | skip
  · exact (List.sublist_append_left _ _).trans hor


theorem stepLive_inv {s : State} (h : Inv s) (hop : s.opened = true) (ev : Ev) : Inv (stepLive s ev).1 := by
  cases ev <;> simp only [stepLive]
  case pipeAdd peer => exact evPipeAdd_inv h peer
  case pipeDrop p => exact evPipeDrop_inv h p
  case sendDone p rv => exact evSendDone_inv h p rv
  case recvDone p r => exact evRecvDone_inv h p r
  case send c a m mode => exact evSend_inv h a m mode
  case recv c a mode => exact evRecv_inv h a
  case cancel a => exact failParked_inv h a _
  case abort a rv => exact failParked_inv h a rv
  case advance ms => exact expire_inv (now_inv h _)
  case setopt c n t v => split; exact evSetBuf_inv h hop v; exact h
  case getopt c n t => split <;> exact h
  case close => exact evClose_inv h
  all_goals exact h

theorem stepIdle_inv {s : State} (h : Inv s) (ev : Ev) : Inv (stepIdle s ev).1 := by
  cases ev <;> simp only [stepIdle]
  case advance ms => exact now_inv h _
  all_goals exact h

theorem step_inv {s : State} (h : Inv s) (ev : Ev) : Inv (step s ev).1 := by
  unfold step
  split
  · rename_i hop
    have hop' : s.opened = false := by simpa using hop
    split
    · obtain ⟨hc, ho, hg, hor, hn, hpe, hb, hw, hpk, hci⟩ := h
      have := hci hop'
      constructor <;> simp [← this] <;> first | fin | skip
    · exact stepIdle_inv h _
  · rename_i hop
    split
    · exact stepIdle_inv h _
    · exact stepLive_inv h (by simpa using hop) _

theorem reachFrom_inv (evs : List Ev) : ∀ {s : State}, Inv s → Inv (reachFrom s evs) := by
  induction evs with
  | nil => intro s h; exact h
  | cons e es ih => intro s h; exact ih (step_inv h e)

theorem reach_inv (evs : List Ev) : Inv (reach evs) := reachFrom_inv evs inv_init


/-! ### outputs: a send completion gives the message back iff it failed -/

/-- an output that is not a completion, or a completion whose `msgback` flag is set
    exactly when it reports an error -/
def GoodOut : Out → Prop
  | .done _ rv _ mb => (mb = true ↔ rv ≠ 0)
  | _ => True

theorem failParked_out {s : State} {a rv : Nat} (hrv : rv ≠ 0) :
    ∀ o ∈ (failParked s a rv).2, GoodOut o := by
  unfold failParked; split <;> simp [GoodOut, hrv]

theorem failEach_out {rv : Nat} (hrv : rv ≠ 0) (l : List Nat) :
    ∀ {s : State}, ∀ o ∈ (failEach s rv l).2, GoodOut o := by
  induction l with
  | nil => intro s o ho; simp [failEach] at ho
  | cons a l ih =>
    intro s o ho
    simp only [failEach, List.mem_append] at ho
    rcases ho with ho | ho
    · exact failParked_out hrv o ho
    · exact ih o ho

theorem closePipe_out {s : State} {p : Nat} : ∀ o ∈ (closePipe s p).2, GoodOut o := by
  unfold closePipe; split
  · simp
  · split <;> simp [GoodOut]

theorem closeAll_out (l : List Nat) : ∀ {s : State}, ∀ o ∈ (closeAll s l).2, GoodOut o := by
  induction l with
  | nil => intro s o ho; simp [closeAll] at ho
  | cons a l ih =>
    intro s o ho
    simp only [closeAll, List.mem_append] at ho
    rcases ho with ho | ho
    · exact closePipe_out o ho
    · exact ih o ho

theorem pipeReady_out {s : State} {p : Nat} : ∀ o ∈ (pipeReady s p).2, GoodOut o := by
  unfold pipeReady pipeReadyCore
  split <;> split <;> simp [GoodOut]

theorem failNow_ne_zero {mode : Mode} {rv : Nat} (h : failNow mode = some rv) : rv ≠ 0 := by
  unfold failNow at h
  split at h <;> simp [Err.eagain, Err.etimedout] at h <;> omega

def isRecv : Ev → Bool | .recv .. => true | _ => false
def isAbort0 : Ev → Bool | .abort _ 0 => true | _ => false

theorem good_append {a b : List Out} (ha : ∀ o ∈ a, GoodOut o) (hb : ∀ o ∈ b, GoodOut o) :
    ∀ o ∈ a ++ b, GoodOut o := by
  intro o ho; rcases List.mem_append.1 ho with h | h
  · exact ha o h
  · exact hb o h

theorem good_rv {n : Int} : ∀ o ∈ [Out.rv n], GoodOut o := by simp [GoodOut]

theorem stepLive_out {s : State} {ev : Ev} (h1 : isRecv ev = false) (h2 : isAbort0 ev = false) :
    ∀ o ∈ (stepLive s ev).2, GoodOut o := by
  cases ev <;> simp only [stepLive]
  case pipeAdd peer =>
    unfold evPipeAdd; split
    · simp [GoodOut]
    · exact good_append (by simp [GoodOut]) pipeReady_out
  case pipeDrop p =>
    unfold evPipeDrop; split
    · split
      · exact good_rv
      · exact good_append good_rv closePipe_out
    · exact good_rv
  case sendDone p rv =>
    unfold evSendDone; split
    · split
      · split
        · exact good_rv
        · split
          · exact good_append good_rv closePipe_out
          · exact good_append good_rv pipeReady_out
      · exact good_rv
    · exact good_rv
  case recvDone p r =>
    unfold evRecvDone; split
    · split
      · exact good_rv
      · split
        · simp [GoodOut]
        · exact good_append good_rv closePipe_out
    · exact good_rv
  case send c a m mode =>
    unfold evSend; split
    · simp [GoodOut]
    · split
      · simp [GoodOut]
      · split
        · simp [GoodOut]
        · split
          · rename_i rv hrv; simp [GoodOut, failNow_ne_zero hrv]
          · simp
  case recv => simp [isRecv] at h1
  case cancel a => exact failParked_out (by simp [Err.ecanceled])
  case abort a rv =>
    have : rv ≠ 0 := by intro h; subst h; simp [isAbort0] at h2
    exact failParked_out this
  case advance ms => exact failEach_out (by simp [Err.etimedout]) _
  case setopt c n t v => split; unfold evSetBuf; split <;> simp [GoodOut]; simp [GoodOut]
  case getopt c n t => split <;> simp [GoodOut]
  case close =>
    unfold evClose
    refine good_append ?_ (closeAll_out _)
    simp [GoodOut, Err.eclosed]
  all_goals simp [GoodOut]

theorem stepIdle_out {s : State} {ev : Ev} : ∀ o ∈ (stepIdle s ev).2, GoodOut o := by
  cases ev <;> simp [stepIdle, GoodOut]

theorem step_out {s : State} {ev : Ev} (h1 : isRecv ev = false) (h2 : isAbort0 ev = false) :
    ∀ o ∈ (step s ev).2, GoodOut o := by
  unfold step
  split
  · split
    · simp [GoodOut]
    · exact stepIdle_out
  · split
    · exact stepIdle_out
    · exact stepLive_out h1 h2


/-! ### non-blocking sends never park; back-pressure -/

/-- the harness refused the line (no socket, aio still pending): nothing was executed -/
def Refused (outs : List Out) : Prop := ∃ t, Out.other t ∈ outs

theorem evSend_nb (s : State) (a : Nat) (m : WMsg) :
    Refused (evSend s a m .nb).2 ∨
      ((∀ pk ∈ (evSend s a m .nb).1.aq, pk.aio ≠ a) ∧ ∃ rv mb, Out.done a rv none mb ∈ (evSend s a m .nb).2) := by
  unfold evSend
  by_cases hbusy : (s.aq.any (·.aio == a)) = true
  · left; rw [if_pos hbusy]; exact ⟨"aio-busy", by simp⟩
  · right; rw [if_neg hbusy]
    have hbusy' : ∀ x ∈ s.aq, ¬ x.aio = a := by simpa using hbusy
    split
    · exact ⟨hbusy', 0, false, by simp⟩
    · split
      · exact ⟨by simpa using hbusy', 0, false, by simp⟩
      · simp only [failNow]; exact ⟨hbusy', Err.eagain, true, by simp⟩

theorem step_send_nb (s : State) (c : Option Nat) (a : Nat) (m : WMsg) :
    Refused (step s (.send c a m .nb)).2 ∨
      ((∀ pk ∈ (step s (.send c a m .nb)).1.aq, pk.aio ≠ a) ∧
        ∃ rv mb, Out.done a rv none mb ∈ (step s (.send c a m .nb)).2) := by
  unfold step
  split
  · left; exact ⟨"nosock", by simp [stepIdle]⟩
  · split
    · left; exact ⟨"nosock", by simp [stepIdle]⟩
    · exact evSend_nb s a m

end Nng.Push
