/- the contract invariant is kept by the poller thread's own transitions; `respects` schedules keep it -/
import NngModel.Proofs.PfdContractC
namespace Nng.Pfd
open Nng.PfdSpec

set_option hygiene false in
local macro "kpoll_case" : tactic => `(tactic| (
  refine ⟨?_, ?_, ?_, ?_, ?_, ?_, ?_, ?_, ?_, ?_, ?_, ?_, ?_, ?_, ?_, ?_, ?_, ?_⟩
  all_goals (try simp only [frameOf_eq, opOf_eq, pfdCount, pfdBusy, touch] at *)
  all_goals (try grind [frameOfAux, opOfAux, Evs.none_isEmpty, Evs.diff_subset, Frame.isArm, Frame.inSection])))

set_option maxHeartbeats 3200000 in
theorem kinv_poll {s s' : State} {ready : Evs} {wf : Bool} (hs : SInv s) (h : KInv s) (r : PollRel s ready wf s') : KInv s' := by
  have hidle : opOf s .p = none → s.p.frame = .idle := hs.pIdle
  obtain ⟨s1, s2, s3, s5, s6, s7, s8, s9, s10, s11, s12, s13, s14, s15, s16, s17, s18, s19, s20⟩ := hs
  obtain ⟨k1, k2, k3, k4, k5, k6, k7, k8, k9, k10, k11, k12, k13, k14, k15, k16, k17, k18⟩ := h
  cases r with
  | harvest hpc hne =>
    have hl := pfdCount_harvest_le s.g ready wf
    have ha := harvest_any s.g ready wf
    have hn := harvest_noreg s.g ready wf
    have hb := s1 hpc
    kpoll_case
  | dispNil hpc hb =>
    rcases afterEntry_cases s.p with ⟨e, _⟩ | ⟨e, _, _⟩ | ⟨e, _, _⟩ <;> rw [e] <;> kpoll_case
  | dispWake rest hpc hb =>
    rcases afterEntry_cases { s.p with batch := rest, reap := true } with ⟨e, hx⟩ | ⟨e, hx, _⟩ | ⟨e, _, hx⟩ <;> rw [e] <;>
      simp only at hx <;> (have fw := filter_wake rest) <;> kpoll_case
  | dispPfd m rest hpc hb =>
    have fw := filter_pfd m rest
    kpoll_case
  | cbBegin hpc =>
    have hpf : s.p.frame = .idle := hidle (s3 (by rw [hpc]; decide))
    kpoll_case
    · intro t
      cases t with
      | p => simp [frameOfAux]
      | c i => simpa [frameOfAux, opOfAux] using k8 (.c i)
    · intro t
      cases t with
      | p => simp [frameOfAux]
      | c i => simpa [frameOfAux, opOfAux] using k9 (.c i)
  | cbEnd hpc hr =>
    have hpf : s.p.frame = .idle := hidle (by simp [opOf, hr])
    rcases afterEntry_cases s.p with ⟨e, hx⟩ | ⟨e, hx, _⟩ | ⟨e, hx, _⟩ <;> rw [e] <;> kpoll_case
  | reap hpc hm =>
    have hpf : s.p.frame = .idle := hidle (s3 (by rw [hpc]; decide))
    have hb := s2 hpc
    have hw := frameOfAux_wake s.cs
    have ow := opOfAux_wake s.cs s.p.rem
    kpoll_case

theorem allowed_call {s s' : State} {ch : Choice} {op : Op} (r : CallRel s s' ch.tid .idle op) (hal : allowed s ch = true) :
    opAllowed s ch.tid op = true := by
  have hfr := r.hf
  have hop := r.hop
  rcases ch with ⟨tid, rdy, wf⟩
  cases tid with
  | p =>
    have hpc := r.tp rfl
    simp only [frameOf] at hfr
    simp only [opOf] at hop
    cases hr : s.p.rem with
    | nil => rw [hr] at hop; cases hop
    | cons o rest =>
      rw [hr] at hop
      simp only [List.head?_cons, Option.some.injEq] at hop
      subst hop
      simpa [allowed, hpc, hfr, hr] using hal
  | c i =>
    simp only [frameOf] at hfr
    simp only [opOf] at hop
    cases hc : s.cs[i]? with
    | none => rw [hc] at hop; cases hop
    | some c =>
      rw [hc] at hfr hop
      simp only at hfr hop
      cases hp : c.prog with
      | nil => rw [hp] at hop; cases hop
      | cons o rest =>
        rw [hp] at hop
        simp only [List.head?_cons, Option.some.injEq] at hop
        subst hop
        simpa [allowed, hc, hfr, hp] using hal

theorem kinv_step {s : State} (hs : SInv s) (h : KInv s) (ch : Choice) (hal : allowed s ch = true) : KInv (step s ch) := by
  rcases step_cases s ch with e | ⟨f, op, r⟩ | r
  · rw [e]; exact h
  · refine kinv_call hs h r ?_
    intro hf
    subst hf
    exact allowed_call r hal
  · exact kinv_poll hs h r

theorem kinv_run {s : State} (hs : SInv s) (h : KInv s) (sched : List Choice) (hr : respects s sched = true) :
    KInv (run s sched) := by
  induction sched generalizing s with
  | nil => exact h
  | cons ch rest ih =>
    simp only [respects, Bool.and_eq_true] at hr
    exact ih (sinv_step hs ch) (kinv_step hs h ch hr.1) hr.2

theorem kinv_reach (progs scripts : List (List Op)) (sched : List Choice) (hr : respects (init progs scripts) sched = true) :
    KInv (reach progs scripts sched) :=
  kinv_run (sinv_init progs scripts) (kinv_init progs scripts) sched hr

end Nng.Pfd
