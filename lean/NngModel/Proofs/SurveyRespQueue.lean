/-
  RESPONDENT (S6, full): a response that had to wait behind a busy pipe is later handed to
  the pipe it was queued for, with the backtrace saved when the send was submitted.

  Invariant `QInv`: the per-pipe wait lists (`Pipe.sendq`) and the contexts' parked sends
  (`Ctx.saio`) agree — every key waiting on pipe `p` names an existing context whose parked
  send was submitted for a survey that came from `p` (ghost `exp = some (p, header)`), no key
  waits twice on a pipe — and every wire record is sound.  Preserved by send, receive, pipe
  receive, pipe send completion, cancel/abort/expiry, pipe close, context close, socket close.
-/
import NngModel.Proofs.SurveyRespInd
namespace Nng.Respond
open Nng Nng.Proto

/-- the wait lists and the parked sends agree -/
def Link (ctxs : List Ctx) (pipes : List Pipe) : Prop :=
  ∀ pp ∈ pipes, ∀ k ∈ pp.sendq,
    (∃ c ∈ ctxs, c.key = k) ∧
    ∀ c ∈ ctxs, c.key = k → ∃ ps, c.saio = some ps ∧ ps.exp = some (pp.id, ps.m.hdr)

structure QInv (s : State) : Prop where
  link : Link s.ctxs s.pipes
  nodup : ∀ pp ∈ s.pipes, pp.sendq.Nodup
  wire : ∀ w ∈ s.wire, w.expected = some (w.pipe, w.m.hdr)
  unopened : s.opened = false → s.pipes = []

/-! ### generic transfer lemmas -/

theorem QInv.of_eq {s s' : State} (h : QInv s) (h1 : s'.ctxs = s.ctxs) (h2 : s'.pipes = s.pipes)
    (h3 : s'.wire = s.wire) (h4 : s'.opened = s.opened) : QInv s' :=
  ⟨by rw [h1, h2]; exact h.link, by rw [h2]; exact h.nodup, by rw [h3]; exact h.wire,
   by rw [h4, h2]; exact h.unopened⟩

theorem link_ctxs_of {ctxs ctxs' : List Ctx} {pipes : List Pipe} (h : Link ctxs pipes)
    (h1 : ∀ k, (∃ c ∈ ctxs, c.key = k) → ∃ c ∈ ctxs', c.key = k)
    (h2 : ∀ c' ∈ ctxs', ∃ c ∈ ctxs, c.key = c'.key ∧ c.saio = c'.saio) : Link ctxs' pipes := by
  intro pp hpp k hk
  obtain ⟨he, ha⟩ := h pp hpp k hk
  refine ⟨h1 k he, ?_⟩
  intro c' hc' hk'
  obtain ⟨c, hc, e1, e2⟩ := h2 c' hc'
  rw [← e2]
  exact ha c hc (e1.trans hk')

theorem link_pipes_of {ctxs : List Ctx} {pipes pipes' : List Pipe} (h : Link ctxs pipes)
    (h1 : ∀ q' ∈ pipes', ∃ q ∈ pipes, q.id = q'.id ∧ ∀ k ∈ q'.sendq, k ∈ q.sendq) : Link ctxs pipes' := by
  intro q' hq' k hk
  obtain ⟨q, hq, e1, e2⟩ := h1 q' hq'
  rw [← e1]
  exact h q hq k (e2 k hk)

theorem setCtx_exists_key {s : State} (c' : Ctx) {k : Option Nat} (h : ∃ c ∈ s.ctxs, c.key = k) :
    ∃ c ∈ (setCtx s c').ctxs, c.key = k := by
  obtain ⟨c, hc, rfl⟩ := h
  by_cases hk : (c.key == c'.key) = true
  · refine ⟨c', ?_, (by simpa using hk : c.key = c'.key).symm⟩
    simp only [setCtx, List.mem_map]
    exact ⟨c, hc, by simp [hk]⟩
  · refine ⟨c, ?_, rfl⟩
    simp only [setCtx, List.mem_map]
    exact ⟨c, hc, by simp [hk]⟩

/-- replacing a context by one with the same key and the same parked send -/
theorem link_setCtx_saio {s : State} {c c' : Ctx} {pipes : List Pipe} (h : Link s.ctxs pipes)
    (hc : c ∈ s.ctxs) (hk : c'.key = c.key) (hs : c'.saio = c.saio) : Link (setCtx s c').ctxs pipes := by
  apply link_ctxs_of h
  · intro k he; exact setCtx_exists_key c' he
  · intro q hq
    rcases mem_setCtx' hq with rfl | ⟨hq, _⟩
    · exact ⟨c, hc, hk.symm, hs.symm⟩
    · exact ⟨q, hq, rfl, rfl⟩

theorem qinv_setCtx_saio {s : State} {c c' : Ctx} (h : QInv s)
    (hc : c ∈ s.ctxs) (hk : c'.key = c.key) (hs : c'.saio = c.saio) : QInv (setCtx s c') :=
  ⟨link_setCtx_saio h.link hc hk hs, h.nodup, h.wire, h.unopened⟩

/-- replacing a pipe by one with the same id and the same wait list -/
theorem qinv_setPipe_sendq {s : State} {pp pp' : Pipe} (h : QInv s)
    (hp : pp ∈ s.pipes) (hi : pp'.id = pp.id) (hs : pp'.sendq = pp.sendq) : QInv (setPipe s pp') := by
  refine ⟨?_, ?_, h.wire, ?_⟩
  · apply link_pipes_of h.link
    intro q hq
    rcases mem_setPipe' hq with rfl | ⟨hq, _⟩
    · exact ⟨pp, hp, hi.symm, by rw [hs]; exact fun k hk => hk⟩
    · exact ⟨q, hq, rfl, fun k hk => hk⟩
  · intro q hq
    rcases mem_setPipe' hq with rfl | ⟨hq, _⟩
    · rw [hs]; exact h.nodup pp hp
    · exact h.nodup q hq
  · intro ho
    exact setPipe_pipes_nil _ (h.unopened ho)

/-- cancel / abort / expiry / context close: the key leaves every wait list, the context gets
    whatever new contents -/
theorem link_cancel {ctxs : List Ctx} {pipes : List Pipe} (c' : Ctx) (h : Link ctxs pipes) :
    Link (ctxs.map fun q => if q.key == c'.key then c' else q)
      (pipes.map fun (pp : Pipe) => { pp with sendq := pp.sendq.filter (· != c'.key) }) := by
  intro q' hq' k hk
  simp only [List.mem_map] at hq'
  obtain ⟨q, hq, rfl⟩ := hq'
  simp only [List.mem_filter, bne_iff_ne, ne_eq] at hk
  obtain ⟨hk, hne⟩ := hk
  obtain ⟨he, ha⟩ := h q hq k hk
  constructor
  · exact setCtx_exists_key (s := { ctxs := ctxs }) c' he
  · intro x hx hxk
    have hx' : x ∈ (setCtx { ctxs := ctxs } c').ctxs := hx
    rcases mem_setCtx' hx' with rfl | ⟨hx, _⟩
    · exact absurd hxk (fun e => hne e.symm)
    · exact ha x hx hxk

theorem nodup_cancel {pipes : List Pipe} (k : Option Nat) (h : ∀ pp ∈ pipes, pp.sendq.Nodup) :
    ∀ pp ∈ (pipes.map fun (pp : Pipe) => { pp with sendq := pp.sendq.filter (· != k) }), pp.sendq.Nodup := by
  intro q' hq'
  simp only [List.mem_map] at hq'
  obtain ⟨q, hq, rfl⟩ := hq'
  exact List.Pairwise.filter _ (h q hq)

/-! ### the callbacks -/

theorem closePipe_qinv {s : State} (p : Nat) (h : QInv s) : QInv (closePipe s p).1 := by
  unfold closePipe
  split
  · exact h
  · rename_i pp hg
    split
    · exact h
    · simp only
      have hpp : pp ∈ (dropRecvPipe s p).pipes := by simpa using getPipe_mem hg
      have h1 : QInv (dropRecvPipe s p) := h.of_eq (by simp) (by simp) (by simp) (by simp)
      generalize dropRecvPipe s p = s1 at h1 hpp ⊢
      refine ⟨?_, ?_, ?_, ?_⟩
      · intro q hq k hk
        rcases mem_setPipe' hq with rfl | ⟨hq, hne⟩
        · simp at hk
        · have hq' : q ∈ s1.pipes := by simpa using hq
          obtain ⟨he, ha⟩ := h1.link q hq' k hk
          simp only [setPipe_ctxs, raiseWritableIf_ctxs]
          constructor
          · obtain ⟨c, hc, hck⟩ := he
            refine ⟨_, List.mem_map_of_mem hc, ?_⟩
            split <;> exact hck
          · intro x hx hxk
            simp only [List.mem_map] at hx
            obtain ⟨y, hy, rfl⟩ := hx
            have hyk : y.key = k := by
              split at hxk <;> exact hxk
            obtain ⟨ps, hps, hexp⟩ := ha y hy hyk
            by_cases hcont : pp.sendq.contains y.key = true
            · have hk2 : k ∈ pp.sendq := by
                rw [← hyk]; exact List.contains_iff_mem.mp hcont
              obtain ⟨ps2, hps2, hexp2⟩ := (h1.link pp hpp k hk2).2 y hy hyk
              rw [hps] at hps2
              cases hps2
              rw [hexp] at hexp2
              simp only [Option.some.injEq, Prod.mk.injEq, and_true] at hexp2
              exact absurd hexp2 hne
            · simp only [hcont]
              exact ⟨ps, hps, hexp⟩
      · intro q hq
        rcases mem_setPipe' hq with rfl | ⟨hq, _⟩
        · simp
        · exact h1.nodup q (by simpa using hq)
      · simpa using h1.wire
      · intro ho
        apply setPipe_pipes_nil
        simpa using h1.unopened (by simpa using ho)

theorem pipeSent_qinv {s : State} {p : Nat} {pp : Pipe} (h : QInv s) (hg : getPipe s p = some pp) :
    QInv (pipeSent s pp).1 := by
  have hpp := getPipe_mem hg
  unfold pipeSent
  split
  · simp only
    exact (qinv_setPipe_sendq (pp' := { pp with busy := false }) h hpp rfl rfl).of_eq
      (by simp) (by simp) (by simp) (by simp)
  · rename_i k rest hsq
    split
    · exact h
    · rename_i c hgc
      split
      · exact h
      · rename_i ps hps
        have hc := getCtx_mem hgc
        have hck := getCtx_key hgc
        have hkm : k ∈ pp.sendq := by rw [hsq]; simp
        have hnd : (k :: rest).Nodup := by rw [← hsq]; exact h.nodup pp hpp
        have hkr : k ∉ rest := (List.nodup_cons.mp hnd).1
        simp only
        refine ⟨?_, ?_, ?_, ?_⟩
        · intro q hq k' hk'
          have hq2 : q ∈ (setPipe s { pp with sendq := rest, busy := true }).pipes := hq
          constructor
          · apply setCtx_exists_key
            rcases mem_setPipe' hq2 with rfl | ⟨hq2, _⟩
            · exact (h.link pp hpp k' (by rw [hsq]; exact List.mem_cons_of_mem _ hk')).1
            · exact (h.link q hq2 k' hk').1
          · intro x hx hxk
            have hx2 : x ∈ (setCtx (setPipe s { pp with sendq := rest, busy := true }) { c with saio := none }).ctxs := hx
            rcases mem_setCtx' hx2 with rfl | ⟨hx2, hxne⟩
            · -- the context just served: its key is `k`
              have hkk : k' = k := by rw [← hxk]; exact hck
              subst hkk
              rcases mem_setPipe' hq2 with rfl | ⟨hq2, hne⟩
              · exact absurd hk' hkr
              · obtain ⟨ps1, hps1, hexp1⟩ := (h.link q hq2 k' hk').2 c hc hck
                obtain ⟨ps2, hps2, hexp2⟩ := (h.link pp hpp k' hkm).2 c hc hck
                rw [hps1] at hps2
                cases hps2
                rw [hexp1] at hexp2
                simp only [Option.some.injEq, Prod.mk.injEq, and_true] at hexp2
                exact absurd hexp2 hne
            · have hx3 : x ∈ s.ctxs := hx2
              rcases mem_setPipe' hq2 with rfl | ⟨hq2, _⟩
              · exact (h.link pp hpp k' (by rw [hsq]; exact List.mem_cons_of_mem _ hk')).2 x hx3 hxk
              · exact (h.link q hq2 k' hk').2 x hx3 hxk
        · intro q hq
          have hq2 : q ∈ (setPipe s { pp with sendq := rest, busy := true }).pipes := hq
          rcases mem_setPipe' hq2 with rfl | ⟨hq2, _⟩
          · exact (List.nodup_cons.mp hnd).2
          · exact h.nodup q hq2
        · intro w hw
          simp only [setCtx, setPipe, List.mem_append, List.mem_singleton] at hw
          rcases hw with hw | rfl
          · exact h.wire w hw
          · obtain ⟨ps1, hps1, hexp1⟩ := (h.link pp hpp k hkm).2 c hc hck
            rw [hps] at hps1
            cases hps1
            exact hexp1
        · intro ho
          exact setPipe_pipes_nil _ (h.unopened ho)

theorem pipeRecv_qinv {s : State} {p : Nat} {pp : Pipe} (wm : WMsg) (h : QInv s) (hg : getPipe s p = some pp) :
    QInv (pipeRecv s pp wm).1 := by
  have hpp := getPipe_mem hg
  unfold pipeRecv
  split
  · simp only
    exact (qinv_setPipe_sendq (pp' := { pp with armed := false, held := some wm }) h hpp rfl rfl).of_eq
      rfl rfl rfl rfl
  · rename_i k rest hq
    split
    · exact h
    · rename_i c hgc
      split
      · exact h
      · simp only
        have h0 : QInv { s with recvq := rest } := h.of_eq rfl rfl rfl rfl
        exact (qinv_setCtx_saio (c := c) (c' := takeSurvey { c with raio := none } pp.id wm) h0
          (getCtx_mem hgc) rfl rfl).of_eq (by simp) (by simp) (by simp) (by simp)

theorem ctxRecv_qinv {s : State} {c : Ctx} (a : Nat) (mode : Mode) (h : QInv s) (hc : c ∈ s.ctxs) :
    QInv (ctxRecv s c a mode).1 := by
  unfold ctxRecv
  split
  · split
    · exact h
    · split
      · exact h
      · simp only
        exact (qinv_setCtx_saio (c := c) (c' := { c with raio := some ⟨a, deadlineOf s.now mode⟩ }) h hc rfl rfl).of_eq
          rfl rfl rfl rfl
  · rename_i p rest hrp
    split
    · exact h
    · rename_i pp hg
      split
      · exact h
      · rename_i wm hw
        simp only
        have hpp := getPipe_mem hg
        have h2 : QInv (if rest.isEmpty = true then { s with recvpipes := rest, readable := false }
            else { s with recvpipes := rest }) := by
          split <;> exact h.of_eq rfl rfl rfl rfl
        have hpp2 : pp ∈ (if rest.isEmpty = true then { s with recvpipes := rest, readable := false }
            else { s with recvpipes := rest }).pipes := by
          split <;> exact hpp
        have hc2 : c ∈ (if rest.isEmpty = true then { s with recvpipes := rest, readable := false }
            else { s with recvpipes := rest }).ctxs := by
          split <;> exact hc
        generalize (if rest.isEmpty = true then { s with recvpipes := rest, readable := false }
            else { s with recvpipes := rest }) = s2 at h2 hpp2 hc2 ⊢
        have h3 := qinv_setPipe_sendq (pp' := { pp with held := none, armed := true }) h2 hpp2 rfl rfl
        exact (qinv_setCtx_saio (c := c) (c' := takeSurvey c p wm) h3 hc2 rfl rfl).of_eq
          (by simp) (by simp) (by simp) (by simp)

theorem handOver_qinv {s : State} {pp : Pipe} {w : Wire} (h : QInv s) (hp : pp ∈ s.pipes)
    (hw : w.expected = some (w.pipe, w.m.hdr)) : QInv (handOver s pp w) := by
  have h2 := qinv_setPipe_sendq (pp' := { pp with busy := true }) h hp rfl rfl
  unfold handOver
  simp only
  split
  · refine ⟨h2.link, h2.nodup, ?_, h2.unopened⟩
    intro w' hw'
    simp only [List.mem_append, List.mem_singleton] at hw'
    rcases hw' with hw' | rfl
    · exact h2.wire w' hw'
    · exact hw
  · refine ⟨h2.link, h2.nodup, ?_, h2.unopened⟩
    intro w' hw'
    simp only [List.mem_append, List.mem_singleton] at hw'
    rcases hw' with hw' | rfl
    · exact h2.wire w' hw'
    · exact hw

/-- a send parks behind the busy pipe `pp` -/
theorem park_qinv {s : State} {c c2 : Ctx} {pp : Pipe} {ps : PSend} (h : QInv s) (hc : c ∈ s.ctxs)
    (hsa : c.saio = none) (hp : pp ∈ s.pipes) (hk2 : c2.key = c.key) (hs2 : c2.saio = some ps)
    (hexp : ps.exp = some (pp.id, ps.m.hdr)) :
    QInv (setPipe (setCtx s c2) { pp with sendq := pp.sendq ++ [c.key] }) := by
  have hnk : ∀ q ∈ s.pipes, c.key ∉ q.sendq := by
    intro q hq hk
    obtain ⟨ps', hps', _⟩ := (h.link q hq _ hk).2 c hc rfl
    rw [hsa] at hps'
    cases hps'
  refine ⟨?_, ?_, h.wire, ?_⟩
  · intro q hq k hk
    have hq1 : q ∈ (setPipe s { pp with sendq := pp.sendq ++ [c.key] }).pipes := hq
    simp only [setPipe_ctxs]
    rcases mem_setPipe' hq1 with rfl | ⟨hq1, _⟩
    · simp only [List.mem_append, List.mem_singleton] at hk
      rcases hk with hk | rfl
      · obtain ⟨he, ha⟩ := h.link pp hp k hk
        refine ⟨setCtx_exists_key c2 he, ?_⟩
        intro x hx hxk
        rcases mem_setCtx' hx with rfl | ⟨hx, _⟩
        · rw [hk2] at hxk
          rw [← hxk] at hk
          exact absurd hk (hnk pp hp)
        · exact ha x hx hxk
      · refine ⟨setCtx_exists_key c2 ⟨c, hc, rfl⟩, ?_⟩
        intro x hx hxk
        rcases mem_setCtx' hx with rfl | ⟨_, hne⟩
        · exact ⟨ps, hs2, hexp⟩
        · rw [hk2] at hne
          exact absurd hxk hne
    · obtain ⟨he, ha⟩ := h.link q hq1 k hk
      refine ⟨setCtx_exists_key c2 he, ?_⟩
      intro x hx hxk
      rcases mem_setCtx' hx with rfl | ⟨hx, _⟩
      · rw [hk2] at hxk
        rw [← hxk] at hk
        exact absurd hk (hnk q hq1)
      · exact ha x hx hxk
  · intro q hq
    have hq1 : q ∈ (setPipe s { pp with sendq := pp.sendq ++ [c.key] }).pipes := hq
    rcases mem_setPipe' hq1 with rfl | ⟨hq1, _⟩
    · simp only
      rw [List.nodup_append]
      refine ⟨h.nodup pp hp, by simp, ?_⟩
      intro x hx y hy
      simp only [List.mem_singleton] at hy
      subst hy
      intro e
      subst e
      exact hnk pp hp hx
    · exact h.nodup q hq1
  · intro ho
    exact setPipe_pipes_nil _ (h.unopened ho)

theorem mem_setCtx_self {s : State} {c c' : Ctx} (hc : c ∈ s.ctxs) (hk : c'.key = c.key) :
    c' ∈ (setCtx s c').ctxs := by
  simp only [setCtx, List.mem_map]
  exact ⟨c, hc, by simp [hk]⟩

theorem ctxSend_qinv {s : State} {c : Ctx} (a : Nat) (m : WMsg) (mode : Mode) (hr : RInv s) (h : QInv s)
    (hc : c ∈ s.ctxs) : QInv (ctxSend s c a m mode).1 := by
  have hok := hr.ctxsOK c hc
  unfold ctxSend
  simp only
  have h0 : QInv (if c.key == none then { s with writable := false } else s) := by
    split
    · exact h.of_eq rfl rfl rfl rfl
    · exact h
  have hc0 : c ∈ (if c.key == none then { s with writable := false } else s).ctxs := by
    split <;> exact hc
  generalize (if c.key == none then { s with writable := false } else s) = s0 at h0 hc0 ⊢
  split
  · exact h0
  · split
    · exact h0
    · rename_i hsa
      split
      · exact h0
      · rename_i hbt
        have hsa' : c.saio = none := by
          cases hx : c.saio
          · rfl
          · simp [hx] at hsa
        have h1 : QInv (setCtx s0 { c with btrace := [], pipeId := none }) :=
          qinv_setCtx_saio h0 hc0 rfl rfl
        have hc1 : { c with btrace := [], pipeId := none } ∈ (setCtx s0 { c with btrace := [], pipeId := none }).ctxs :=
          mem_setCtx_self hc0 rfl
        split
        · exact h1
        · rename_i pp hl
          have hne : c.btrace ≠ [] := by
            intro he; simp [he] at hbt
          obtain ⟨p, hp, hlast⟩ := hok.bt hne
          obtain ⟨e1, e2, _⟩ := livePipe_some hl
          have hpp : pp ∈ (setCtx s0 { c with btrace := [], pipeId := none }).pipes := getPipe_mem e2
          have hpid : p = pp.id := by
            rw [hp] at e1
            simpa using e1
          subst hpid
          split
          · exact handOver_qinv h1 hpp hlast
          · exact park_qinv (c := { c with btrace := [], pipeId := none }) h1 hc1 hsa' hpp rfl rfl hlast

theorem cancelAio_qinv {s : State} (a rv : Nat) (h : QInv s) : QInv (cancelAio s a rv).1 := by
  unfold cancelAio
  split
  · rename_i c hf
    simp only
    refine ⟨link_cancel { c with saio := none } h.link, nodup_cancel c.key h.nodup, h.wire, ?_⟩
    intro ho
    have := h.unopened ho
    simp [setCtx, this]
  · split
    · rename_i c hf
      have hc : c ∈ s.ctxs := List.mem_of_find?_eq_some hf
      simp only
      have h0 : QInv { s with recvq := s.recvq.filter (· != c.key) } := h.of_eq rfl rfl rfl rfl
      exact qinv_setCtx_saio (c := c) (c' := { c with raio := none }) h0 hc rfl rfl
    · exact h

theorem closeCtx_ctxs (s : State) (c : Ctx) :
    (closeCtx s c).1.ctxs = (setCtx s { c with saio := none, raio := none }).ctxs := by
  unfold closeCtx
  cases c.saio <;> cases c.raio <;> rfl

theorem closeCtx_qinv {s : State} {c : Ctx} (h : QInv s) (hc : c ∈ s.ctxs) : QInv (closeCtx s c).1 := by
  unfold closeCtx
  cases hs : c.saio with
  | none =>
    have hq : ∀ s0 : State, QInv s0 → c ∈ s0.ctxs → QInv (setCtx s0 { c with saio := none, raio := none }) :=
      fun s0 h0 hc0 => qinv_setCtx_saio (c := c) h0 hc0 rfl hs.symm
    cases hr : c.raio with
    | none => exact hq s h hc
    | some pr => exact hq { s with recvq := s.recvq.filter (· != c.key) } (h.of_eq rfl rfl rfl rfl) hc
  | some ps =>
    have hq : ∀ s0 : State, QInv s0 → QInv (setCtx { s0 with pipes := s0.pipes.map fun (pp : Pipe) => { pp with sendq := pp.sendq.filter (· != c.key) } } { c with saio := none, raio := none }) := by
      intro s0 h0
      refine ⟨link_cancel { c with saio := none, raio := none } h0.link, nodup_cancel c.key h0.nodup, h0.wire, ?_⟩
      intro ho
      have := h0.unopened ho
      simp [setCtx, this]
    cases hr : c.raio with
    | none => exact hq s h
    | some pr => exact (hq { s with recvq := s.recvq.filter (· != c.key) } (h.of_eq rfl rfl rfl rfl))

theorem link_filter_key {ctxs : List Ctx} {pipes : List Pipe} {x0 : Ctx} (h : Link ctxs pipes)
    (h0 : x0 ∈ ctxs) (hs : x0.saio = none) : Link (ctxs.filter (·.key != x0.key)) pipes := by
  intro q hq k hk
  obtain ⟨he, ha⟩ := h q hq k hk
  have hne : k ≠ x0.key := by
    intro e
    obtain ⟨ps, hps, _⟩ := ha x0 h0 e.symm
    rw [hs] at hps
    cases hps
  constructor
  · obtain ⟨c, hc, hck⟩ := he
    refine ⟨c, ?_, hck⟩
    simp only [List.mem_filter, bne_iff_ne, ne_eq]
    exact ⟨hc, by rw [hck]; exact hne⟩
  · intro x hx hxk
    exact ha x (List.mem_filter.mp hx).1 hxk

/-! ### the invariant along runs -/

theorem qinv_stepOK : StepOK RInv QInv where
  hOpen := by
    intro s h ho
    have hp := h.unopened ho
    refine ⟨?_, ?_, h.wire, ?_⟩
    · intro q hq; simp only [hp] at hq; cases hq
    · intro q hq; simp only [hp] at hq; cases hq
    · intro ho'; cases ho'
  setNow := fun s n h => h.of_eq rfl rfl rfl rfl
  setTtl := fun s n h => h.of_eq rfl rfl rfl rfl
  setClosed := fun s h => h.of_eq rfl rfl rfl rfl
  hPipeAdd := by
    intro s pp h ho hsq _ _
    refine ⟨?_, ?_, h.wire, ?_⟩
    · intro q hq k hk
      simp only [List.mem_append, List.mem_singleton] at hq
      rcases hq with hq | rfl
      · exact h.link q hq k hk
      · rw [hsq] at hk; cases hk
    · intro q hq
      simp only [List.mem_append, List.mem_singleton] at hq
      rcases hq with hq | rfl
      · exact h.nodup q hq
      · rw [hsq]; exact List.nodup_nil
    · intro ho'
      rw [show ({ s with pipes := s.pipes ++ [pp] } : State).opened = s.opened from rfl, ho] at ho'
      cases ho'
  hClosePipe := fun s p h => closePipe_qinv p h
  hPipeSent := fun s p pp h hg _ _ => pipeSent_qinv h hg
  hPipeRecv := fun s p pp wm h hg _ _ => pipeRecv_qinv wm h hg
  hCtxSend := fun s k c a m mode hr h hg => ctxSend_qinv a m mode hr h (getCtx_mem hg)
  hCtxRecv := fun s k c a mode h hg => ctxRecv_qinv a mode h (getCtx_mem hg)
  hCancel := fun s a rv h => cancelAio_qinv a rv h
  hCloseCtx := fun s k c h hg => closeCtx_qinv h (getCtx_mem hg)
  hCtxOpen := by
    intro s k h hg
    refine ⟨?_, h.nodup, h.wire, h.unopened⟩
    intro q hq k' hk'
    obtain ⟨he, ha⟩ := h.link q hq k' hk'
    constructor
    · obtain ⟨c, hc, hck⟩ := he
      exact ⟨c, List.mem_append_left _ hc, hck⟩
    · intro x hx hxk
      simp only [List.mem_append, List.mem_singleton] at hx
      rcases hx with hx | rfl
      · exact ha x hx hxk
      · exfalso
        obtain ⟨c, hc, hck⟩ := he
        have := List.find?_eq_none.mp hg c hc
        simp only at hxk
        rw [← hxk] at hck
        simp [hck] at this
  hCtxClose := by
    intro s k c h hg
    have hc := getCtx_mem hg
    have hck := getCtx_key hg
    have h1 := closeCtx_qinv h hc
    have hmem : { c with saio := none, raio := none } ∈ (closeCtx s c).1.ctxs := by
      rw [closeCtx_ctxs]
      exact mem_setCtx_self hc rfl
    have hl := link_filter_key h1.link hmem rfl
    simp only [hck] at hl
    exact ⟨hl, h1.nodup, h1.wire, h1.unopened⟩

theorem qinv_init : QInv ({} : State) :=
  ⟨(by intro q hq; cases hq), (by intro q hq; cases hq), (by intro w hw; cases hw), fun _ => rfl⟩

theorem run_qinv (evs : List Ev) : QInv (run {} evs).1 :=
  run_inv qinv_stepOK step_rinv {} evs rinv_init qinv_init

/-- S6 (full): every response handed to a pipe — by the send call itself or later, after
    waiting in a busy pipe's queue — goes to the pipe of, and carries the backtrace of, the
    survey its context had received last when the send was submitted -/
theorem wire_full (evs : List Ev) :
    ∀ w ∈ (Respond.run {} evs).1.wire, w.expected = some (w.pipe, w.m.hdr) :=
  (run_qinv evs).wire

/-- non-vacuity: a run in which a response waits behind a busy pipe and is handed over by the
    pipe's send completion (second wire record, `direct = false`) -/
example :
    let sv : Bytes := [0x80, 0, 0, 2, 9]
    let evs : List Ev := [.openSock "respondent" false, .pipeAdd 98, .ctxOpen 1,
      .recvDone 0 (.ok sv), .recv (some 1) 0 .inf, .send (some 1) 1 ⟨[], [5]⟩ .inf,
      .recvDone 0 (.ok sv), .recv none 2 .inf, .send none 3 ⟨[], [6]⟩ .inf, .sendDone 0 0]
    ((Respond.run {} evs).1.wire.map fun w => (w.pipe, w.ctx, w.direct)) = [(0, some 1, true), (0, none, false)] := by
  decide

end Nng.Respond
