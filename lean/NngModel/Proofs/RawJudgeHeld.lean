/-
  Raw judges vs raw models: how the judge's list of held arrivals (`XJ.held`) relates to what
  the model's upper read queue owes.  The judge keeps an arrival until it is delivered; the
  model loses arrivals whose pipe closes while they are parked as writers on the queue.  So
  `held` is the model's owed sequence interleaved with "ghosts": entries marked `maybe`, of
  closed pipes, never followed by a real entry of the same pipe.
-/
import NngModel.Proofs.RawJudgeCut
import NngModel.Proofs.RawSurvMq
namespace Nng.RawSurv
open Nng Nng.Proto Nng.RawMq Nng.RawSurveySpec

/-- `HR D held owed`: `owed` (pipe, message) is the subsequence of real entries of `held`; the
    other entries are ghosts: marked `maybe`, pipe satisfies `D` (dead), no real entry of the same
    pipe follows -/
inductive HR (D : Nat → Prop) : List Held → List (Nat × WMsg) → Prop
  | nil : HR D [] []
  | real (p : Nat) (m : WMsg) (mb : Bool) {hs : List Held} {ms : List (Nat × WMsg)} :
      HR D hs ms → HR D (⟨p, m.hdr, m.body, mb⟩ :: hs) ((p, m) :: ms)
  | ghost (p : Nat) (h b : Bytes) {hs : List Held} {ms : List (Nat × WMsg)} :
      D p → (∀ x ∈ ms, x.1 ≠ p) → HR D hs ms → HR D (⟨p, h, b, true⟩ :: hs) ms

/-- the judge's marking of the held arrivals of a pipe that closed -/
def mark (p : Nat) (h : Held) : Held := if h.pipe == p then { h with maybe := true } else h

theorem HR.mono {D D1 : Nat → Prop} (hd : ∀ p, D p → D1 p) : ∀ {hs : List Held} {ms : List (Nat × WMsg)},
    HR D hs ms → HR D1 hs ms := by
  intro hs
  induction hs with
  | nil => intro ms h; cases h; exact .nil
  | cons g hs ih =>
    intro ms h
    cases h with
    | real p m mb h1 => exact .real p m mb (ih h1)
    | ghost p hh b hD hx h1 => exact .ghost p hh b (hd p hD) hx (ih h1)

/-- nothing owed: every held entry is a ghost -/
theorem HR.nil_maybe {D : Nat → Prop} : ∀ {hs : List Held}, HR D hs [] → hs.any (fun h => !h.maybe) = false := by
  intro hs
  induction hs with
  | nil => intro _; rfl
  | cons g hs ih =>
    intro h
    cases h with
    | ghost p hh b hD hx h1 => simp [ih h1]

theorem HR.ne_nil {D : Nat → Prop} {hs : List Held} {x : Nat × WMsg} {ms : List (Nat × WMsg)} (h : HR D hs (x :: ms)) :
    hs ≠ [] := by
  intro e; subst e; cases h

/-- a definite (not `maybe`) entry is owed -/
theorem HR.definite {D : Nat → Prop} {hs : List Held} {ms : List (Nat × WMsg)} (h : HR D hs ms)
    (hd : hs.any (fun h => !h.maybe) = true) : ms ≠ [] := by
  intro e; subst e
  rw [h.nil_maybe] at hd; cases hd

/-- an arrival on a pipe that is not dead joins both ends -/
theorem HR.snoc {D : Nat → Prop} (p : Nat) (m : WMsg) (mb : Bool) (hp : ¬ D p) : ∀ {hs : List Held} {ms : List (Nat × WMsg)},
    HR D hs ms → HR D (hs ++ [⟨p, m.hdr, m.body, mb⟩]) (ms ++ [(p, m)]) := by
  intro hs
  induction hs with
  | nil => intro ms h; cases h; exact .real p m mb .nil
  | cons g hs ih =>
    intro ms h
    cases h with
    | real p1 m1 mb1 h1 => exact .real p1 m1 mb1 (ih h1)
    | ghost p1 hh b hD hx h1 =>
      refine .ghost p1 hh b hD ?_ (ih h1)
      intro x hxm
      rcases List.mem_append.1 hxm with hxm | hxm
      · exact hx x hxm
      · simp only [List.mem_singleton] at hxm
        subst hxm
        intro e
        simp only at e
        subst e
        exact hp hD

/-- the oldest owed message is found by the judge: by its body, as the first entry of its pipe -/
theorem HR.head {D : Nat → Prop} (p : Nat) (m : WMsg) : ∀ {hs : List Held} {ms : List (Nat × WMsg)},
    HR D hs ((p, m) :: ms) → (hs.map (·.body)).Nodup →
    ∃ mb, hs.find? (·.body == m.body) = some ⟨p, m.hdr, m.body, mb⟩ ∧
          hs.find? (·.pipe == p) = some ⟨p, m.hdr, m.body, mb⟩ ∧ HR D (hs.erase ⟨p, m.hdr, m.body, mb⟩) ms := by
  intro hs
  induction hs with
  | nil => intro ms h; cases h
  | cons g hs ih =>
    intro ms h hn
    cases h with
    | real p1 m1 mb h1 =>
      refine ⟨mb, by simp, by simp, ?_⟩
      rw [List.erase_cons_head]; exact h1
    | ghost p1 hh b hD hx h1 =>
      simp only [List.map_cons, List.nodup_cons] at hn
      obtain ⟨mb, f1, f2, f3⟩ := ih h1 hn.2
      have hmem : (⟨p, m.hdr, m.body, mb⟩ : Held) ∈ hs := List.mem_of_find?_eq_some f1
      have hb : b ≠ m.body := by
        intro e
        apply hn.1
        rw [e]
        exact List.mem_map.2 ⟨_, hmem, rfl⟩
      have hpp : p1 ≠ p := fun e => hx (p, m) (by simp) e.symm
      refine ⟨mb, ?_, ?_, ?_⟩
      · rw [List.find?_cons_of_neg (by simpa using hb)]; exact f1
      · rw [List.find?_cons_of_neg (by simpa using hpp)]; exact f2
      · have hne : ((⟨p1, hh, b, true⟩ : Held) == ⟨p, m.hdr, m.body, mb⟩) = false := by
          simp only [beq_eq_false_iff_ne, ne_eq, Held.mk.injEq, not_and]
          intro e; exact absurd e hpp
        rw [List.erase_cons_tail (by simp [hne])]
        exact .ghost p1 hh b hD (fun x hxm => hx x (by simp [hxm])) f3

/-- pipe `p` closes: the judge marks its held arrivals, the model cancels its parked writers
    (`B`, the part of the owed sequence that is still with writers) -/
theorem HR.close {D D1 : Nat → Prop} (p : Nat) (hp : D1 p) (hd : ∀ q, D q → D1 q) :
    ∀ {hs : List Held} {A B : List (Nat × WMsg)}, HR D hs (A ++ B) →
      HR D1 (hs.map (mark p)) (A ++ B.filter (fun x => x.1 != p)) := by
  intro hs
  induction hs with
  | nil =>
    intro A B h
    cases A with
    | nil =>
      cases B with
      | nil => exact .nil
      | cons b B => cases h
    | cons a A => cases h
  | cons g hs ih =>
    intro A B h
    cases A with
    | cons a A =>
      cases h with
      | real p1 m1 mb h1 =>
        have := ih (A := A) (B := B) h1
        simp only [List.map_cons, List.cons_append, mark]
        split
        · exact .real p1 m1 true this
        · exact .real p1 m1 mb this
      | ghost p1 hh b hD hx h1 =>
        have := ih (A := a :: A) (B := B) h1
        simp only [List.map_cons, mark]
        have e : (if p1 == p then ({ pipe := p1, hdr := hh, body := b, maybe := true } : Held) else ⟨p1, hh, b, true⟩) = ⟨p1, hh, b, true⟩ := by
          split <;> rfl
        simp only [e]
        refine .ghost p1 hh b (hd p1 hD) ?_ this
        intro x hxm
        apply hx x
        rcases List.mem_append.1 hxm with hxm | hxm
        · exact List.mem_append_left _ hxm
        · exact List.mem_append_right _ (List.mem_filter.1 hxm).1
    | nil =>
      simp only [List.nil_append] at h ⊢
      cases h with
      | real p1 m1 mb h1 =>
        have := ih (A := []) (B := _) h1
        simp only [List.nil_append] at this
        simp only [List.map_cons, mark]
        by_cases e : p1 = p
        · subst e
          simp only [beq_self_eq_true, if_true, List.filter_cons, bne_self_eq_false, Bool.false_eq_true, if_false]
          refine .ghost p1 m1.hdr m1.body hp ?_ this
          intro x hxm
          have := (List.mem_filter.1 hxm).2
          simpa using this
        · have e1 : (p1 == p) = false := by simpa using e
          have e2 : (p1 != p) = true := by simpa using e
          simp only [e1, Bool.false_eq_true, if_false, List.filter_cons, e2, if_true]
          exact .real p1 m1 mb this
      | ghost p1 hh b hD hx h1 =>
        have := ih (A := []) (B := B) h1
        simp only [List.nil_append] at this
        simp only [List.map_cons, mark]
        have e : (if p1 == p then ({ pipe := p1, hdr := hh, body := b, maybe := true } : Held) else ⟨p1, hh, b, true⟩) = ⟨p1, hh, b, true⟩ := by
          split <;> rfl
        simp only [e]
        refine .ghost p1 hh b (hd p1 hD) ?_ this
        intro x hxm
        exact hx x (List.mem_filter.1 hxm).1

/-! ### the owed sequence with pipes -/

/-- what the queue owes, with the pipe of each message: `ips` are the pipes of the stored ones -/
def pendP (ips : List Nat) (q : Mq) : List (Nat × WMsg) := ips.zip q.items ++ q.putq.map (fun w => (w.tag, w.msg))

theorem pendP_nil (ips : List Nat) (q : Mq) (hi : q.items = []) (hp : q.putq = []) : pendP ips q = [] := by
  simp [pendP, hi, hp]

theorem pendP_eq_nil {ips : List Nat} {q : Mq} (hl : ips.length = q.items.length) (h : pendP ips q = []) :
    q.items = [] ∧ q.putq = [] := by
  unfold pendP at h
  simp only [List.append_eq_nil_iff, List.map_eq_nil_iff] at h
  refine ⟨?_, h.2⟩
  cases hi : q.items with
  | nil => rfl
  | cons m ms =>
    rw [hi] at hl h
    cases ips with
    | nil => simp at hl
    | cons i is => simp at h

/-- with no reader waiting, running the writers leaves the owed sequence (with pipes) as it is -/
theorem runPutq_noreaderP : ∀ (n : Nat) (q : Mq) (ips : List Nat), q.getq = [] → ips.length = q.items.length →
    ∃ ips1, ips1.length = (runPutq n q).1.items.length ∧ pendP ips1 (runPutq n q).1 = pendP ips q := by
  intro n
  induction n with
  | zero => intro q ips _ hl; exact ⟨ips, hl, rfl⟩
  | succ n ih =>
    intro q ips hg hl
    cases hp : q.putq with
    | nil => rw [runPutq_nil _ _ hp]; exact ⟨ips, hl, rfl⟩
    | cons w ws =>
      by_cases h : q.items.length < q.cap
      · rw [runPutq_room n q w ws hp hg h]
        obtain ⟨ips1, l1, e1⟩ := ih { q with putq := ws, items := q.items ++ [w.msg] } (ips ++ [w.tag]) hg (by simp [hl])
        refine ⟨ips1, l1, ?_⟩
        rw [e1]
        simp only [pendP, hp, List.map_cons]
        rw [List.zip_append hl]
        simp
      · rw [runPutq_full _ _ hg h]; exact ⟨ips, hl, rfl⟩

theorem aioPut_noreaderP (q : Mq) (w : Put) (ips : List Nat) (hg : q.getq = []) (hl : ips.length = q.items.length) :
    ∃ ips1, ips1.length = (aioPut q w).1.items.length ∧ pendP ips1 (aioPut q w).1 = pendP ips q ++ [(w.tag, w.msg)] := by
  unfold aioPut
  obtain ⟨ips1, l1, e1⟩ := runPutq_noreaderP ({ q with putq := q.putq ++ [w] } : Mq).putq.length { q with putq := q.putq ++ [w] } ips hg hl
  refine ⟨ips1, l1, ?_⟩
  rw [e1]; simp [pendP]

end Nng.RawSurv
