/-
  Executable model of src/core/lmq.c (nni_lmq_*), function by function.

  Representation: the C struct with `lmq_msgs` replaced by the list of slots it points to
  (`lmq_buf[2]` after init, the heap array of `lmq_alloc` pointers after a resize).  A slot is
  `some tag` when it holds a message the queue owns, `none` when it is uninitialised
  (nni_alloc does not zero) or when its message has been handed out (ghost: the C code leaves
  the stale pointer; reading it again would be a use of a dead pointer).
  Every array access goes through `rd`/`wr`; the `safe` flag of a result is the conjunction of
  "index < array length, and a read slot holds a live message" over all accesses, and of
  "the loop finished within its fuel".  size_t overflow (cap ≥ 2^63) is outside the model.
-/
import NngModel.Base.Bytes
import NngModel.Spec.Queues
import NngModel.Generated.C18

namespace Nng.Lmq
open Nng.QSpec (Msg)

/-- dimension of `lmq_buf` = initial capacity = first candidate allocation (extracted) -/
def inline : Nat := Nng.Generated.c18LmqInline

structure Lmq where
  cap : Nat
  alloc : Nat
  mask : Nat
  len : Nat
  get : Nat
  put : Nat
  msgs : List (Option Msg)
deriving Repr, DecidableEq, Inhabited

structure Res where
  q : Lmq
  rv : Nat
  out : Option Msg := none
  freed : List Msg := []
  safe : Bool := true
deriving Repr, DecidableEq

/-- checked read of a slot that must hold a live message -/
def rd (a : List (Option Msg)) (i : Nat) : Msg × Bool :=
  match a[i]? with
  | some (some m) => (m, true)
  | _ => (0, false)

/-- checked write -/
def wr (a : List (Option Msg)) (i : Nat) (m : Msg) : List (Option Msg) × Bool :=
  if i < a.length then (a.set i (some m), true) else (a, false)

/-- nni_lmq_put -/
def put (q : Lmq) (m : Msg) : Res :=
  if q.len ≥ q.cap then { q, rv := Err.eagain }
  else
    let w := wr q.msgs q.put m
    { q := { q with msgs := w.1, put := (q.put + 1) &&& q.mask, len := q.len + 1 }, rv := 0, safe := w.2 }

/-- nni_lmq_get -/
def get (q : Lmq) : Res :=
  if q.len = 0 then { q, rv := Err.eagain }
  else
    let r := rd q.msgs q.get
    { q := { q with msgs := q.msgs.set q.get none, get := (q.get + 1) &&& q.mask, len := q.len - 1 },
      rv := 0, out := some r.1, safe := r.2 }

/-- the loop of nni_lmq_flush / nni_lmq_fini: `while (len > 0) free(msgs[get++]); get &= mask` -/
def flushLoop : Nat → Lmq → List Msg → Bool → Lmq × List Msg × Bool
  | 0, q, fr, s => (q, fr, s && decide (q.len = 0))
  | f + 1, q, fr, s =>
    if q.len > 0 then
      let r := rd q.msgs q.get
      flushLoop f { q with msgs := q.msgs.set q.get none, get := (q.get + 1) &&& q.mask, len := q.len - 1 }
        (fr ++ [r.1]) (s && r.2)
    else (q, fr, s)

/-- nni_lmq_flush -/
def flush (q : Lmq) : Res :=
  let r := flushLoop q.len q [] true
  { q := r.1, rv := 0, freed := r.2.1, safe := r.2.2 }

/-- `alloc = 2; while (alloc < cap) alloc *= 2;` -/
def roundLoop (cap : Nat) : Nat → Nat → Nat × Bool
  | 0, a => (a, decide (¬ a < cap))
  | f + 1, a => if a < cap then roundLoop cap f (a * 2) else (a, true)

def roundAlloc (cap : Nat) : Nat × Bool := roundLoop cap cap inline

/-- `while ((len < cap) && (nni_lmq_get(lmq, &msg) == 0)) new_q[len++] = msg;` -/
def moveLoop (cap : Nat) : Nat → Lmq → List (Option Msg) → Nat → Bool → Lmq × List (Option Msg) × Nat × Bool
  | 0, q, nq, len, s => (q, nq, len, s && !(decide (len < cap) && decide (q.len ≠ 0)))
  | f + 1, q, nq, len, s =>
    if len < cap then
      let r := get q
      if r.rv = 0 then
        let w := wr nq len (r.out.getD 0)
        moveLoop cap f r.q w.1 (len + 1) (s && r.safe && w.2)
      else (q, nq, len, s)
    else (q, nq, len, s)

/-- nni_lmq_resize; `allocOk = false` is a failing nni_alloc -/
def resize (q : Lmq) (cap : Nat) (allocOk : Bool) : Res :=
  let ra := roundAlloc cap
  let alloc := ra.1
  if !allocOk then { q, rv := Err.enomem, safe := ra.2 }
  else
    let newq : List (Option Msg) := List.replicate alloc none
    let mv := moveLoop cap (q.len + 1) q newq 0 true
    let fl := flush mv.1
    -- (fixed code) lmq_put = len & lmq_mask
    { q := { cap := cap, alloc := alloc, mask := alloc - 1, len := mv.2.2.1,
             put := mv.2.2.1 &&& (alloc - 1), get := 0, msgs := mv.2.1 },
      rv := 0, freed := fl.freed, safe := ra.2 && mv.2.2.2 && fl.safe }

/-- nni_lmq_init -/
def init (cap : Nat) (allocOk : Bool) : Lmq × Bool :=
  let q : Lmq := { len := 0, get := 0, put := 0, alloc := 0, mask := inline - 1,
                   msgs := List.replicate inline none, cap := inline }
  if cap > inline then
    let r := resize q cap allocOk
    (r.q, r.safe)
  else ({ q with cap := cap }, true)

/-- nni_lmq_len, nni_lmq_cap, nni_lmq_full, nni_lmq_empty -/
def full (q : Lmq) : Bool := decide (q.len ≥ q.cap)
def empty (q : Lmq) : Bool := decide (q.len = 0)

def step (q : Lmq) (op : Nng.QSpec.FOp) (allocOk : Bool) : Res :=
  match op with
  | .put m => put q m
  | .get => get q
  | .flush => flush q
  | .resize c => resize q c allocOk

end Nng.Lmq
