/-
  What the raw sockets of each protocol do to a message's header on the way in and on the way out, as
  pure functions — the socket-level view a device lives in.  Receive: (TTL option, id of the arrival
  pipe, bytes from the transport) → deliver (hdr, body) | drop | close the pipe.  Send: (hdr, body) →
  which pipes, which bytes.  REQ/REP, SURVEYOR/RESPONDENT and PAIR1 are the functions of
  Model/Backtrace.lean (proved equal to the specification in Props/C13.lean); BUS mirrors
  bus0_pipe_recv_cb / bus0_sock_send (raw); PAIR0, PUSH, PULL carry no header.
  Core Lean only.
-/
import NngModel.Model.Backtrace
namespace Nng.RawHdr
open Nng

/-- which pipes of the destination socket get the message -/
inductive Sel
  | all                      -- every pipe
  | allExcept (id : Nat)     -- every pipe but the one with this id (raw BUS)
  | pipeId (id : Nat)        -- the pipe with this id, if any (raw REP / RESPONDENT)
  | anyOne                   -- one pipe, whichever takes it (raw REQ, PUSH)
deriving Repr, DecidableEq, Inhabited

/-- protocols by the name the harness opens them with (always raw here) -/
def rawRecv (proto : String) (ttl pipeId : Nat) (wire : Bytes) : Bt.Outcome :=
  if proto == "pair1" then Bt.pair1Recv ttl wire
  else if proto == "bus" then .deliver (Bt.w32 pipeId) wire
  else if proto == "rep" then Bt.xrepRecv ttl pipeId wire
  else if proto == "req" then Bt.xreqRecv wire
  else if proto == "respondent" then Bt.xrespondRecv ttl pipeId wire
  else if proto == "surveyor" then Bt.xsurveyRecv wire
  else .deliver [] wire           -- pair0, pull, sub: the bytes are the body

/-- `none`: the socket refuses the send with an error (raw PAIR1 with a malformed header:
    NNG_EPROTO); `some (sel, none)`: accepted and silently discarded (raw REP / RESPONDENT with a
    header shorter than one word) -/
def rawSend (proto : String) (hdr body : Bytes) : Option (Sel × Option Bytes) :=
  if proto == "pair1" then (Bt.pair1RawSend hdr body).map fun w => (.all, some w)
  else if proto == "bus" then
    if hdr.length ≥ 4 then some (.allExcept (beDecode (hdr.take 4)), some (Bt.wire (hdr.drop 4) body))
    else some (.all, some (Bt.wire hdr body))
  else if proto == "rep" then
    match Bt.xrepSend hdr body with
    | some (id, w) => some (.pipeId id, some w)
    | none => some (.all, none)
  else if proto == "respondent" then
    match Bt.xrespondSend hdr body with
    | some (id, w) => some (.pipeId id, some w)
    | none => some (.all, none)
  else if proto == "req" then some (.anyOne, some (Bt.xreqSend hdr body))
  else if proto == "surveyor" then some (.all, some (Bt.xsurveySend hdr body))
  else if proto == "push" then some (.anyOne, some (Bt.wire hdr body))
  else some (.all, some (Bt.wire hdr body))   -- pair0, pub

end Nng.RawHdr
