/-
  Executable model of src/sp/protocol/bus0/bus.c (cooked and raw) as seen through the
  socket core: one step per harness event; inside a step the sub-actions follow the C
  callbacks (each runs under the protocol mutex `s->mtx`) in their order.

  * per-pipe send queue (`nni_lmq send_queue`) and the socket receive queue
    (`nni_lmq recv_msgs`) are modelled by their abstract bounded FIFO (C18 proves the
    ring refines it): `put` refuses when `len ≥ cap`, `resize` keeps the oldest `cap`.
  * a pipe is identified by its position in `pipes` (the harness' pipe index); its
    library id (`nni_pipe_id`, the value found in raw headers) is `pid i` — the check
    canonicalises the real, randomly based ids to these.
  * `bus0_sock_send` is modelled as FIXED (finding F7): no `nni_aio_start`, the send
    completes with 0 in every mode.
  * ghost fields (never reach the outputs): message numbers, per-pipe histories.
  Not modelled: allocation failure (`nni_lmq_resize` ENOMEM, `nni_msg_unique` NULL).
-/
import NngModel.Proto.Base
import NngModel.Generated.C09
namespace Nng.Bus
open Nng Nng.Proto

/-- a message offered to `send`, after the header processing of `bus0_sock_send` -/
structure SMsg where
  gid : Nat          -- ghost: number of the send operation
  excl : Nat         -- `sender`: pipe id taken from a raw header, 0 if none
  m : WMsg           -- what goes to the transport (raw: header minus the id; cooked: no header)
deriving Repr, DecidableEq, Inhabited

/-- a message that arrived from a peer, as stored by `bus0_pipe_recv_cb` -/
structure RMsg where
  gid : Nat          -- ghost: arrival number
  pipe : Nat         -- ghost: arrival pipe
  m : WMsg           -- raw: header = id of the arrival pipe; cooked: empty header
deriving Repr, DecidableEq, Inhabited

structure Parked where
  aio : Nat
  deadline : Option Nat
deriving Repr, DecidableEq, Inhabited

structure Pipe where
  closed : Bool := false          -- not (or no longer) on `s->pipes`
  armed : Bool := false           -- receive posted on the transport
  busy : Option SMsg := none      -- `p->busy` and the message in `aio_send`
  sq : List SMsg := []            -- `send_queue`
  sqCap : Nat := 0
  -- ghost history of this pipe
  offered : List SMsg := []       -- every message the send loop considered for this pipe
  wire : List SMsg := []          -- handed to the transport, in order
  dropped : List SMsg := []       -- released without reaching the transport
deriving Repr, DecidableEq, Inhabited

structure State where
  opened : Bool := false
  closed : Bool := false
  raw : Bool := false
  sendBuf : Nat := 0              -- `s->send_buf`
  recvCap : Nat := 0              -- capacity of `recv_msgs`
  rq : List RMsg := []            -- `recv_msgs`
  rwait : List Parked := []       -- `recv_wait`
  pipes : List Pipe := []
  now : Nat := 0
  readable : Bool := false        -- `can_recv`
  writable : Bool := false        -- `can_send` (raised only by `bus0_sock_get_send_fd`)
  nsend : Nat := 0
  narrive : Nat := 0
  -- ghost history
  arrived : List RMsg := []       -- accepted from the transport (after header stamping)
  delivered : List RMsg := []     -- handed to the application, in order
  rdropped : List RMsg := []      -- dropped whole: receive queue full, or shrunk
deriving Repr, Inhabited

def protoBus : Nat := Nng.Generated.protoBus
def bufMin : Nat := Nng.Generated.busBufMin
def bufMax : Nat := Nng.Generated.busBufMax
def maxPipes : Nat := Nng.Generated.simMaxPipes
def pidBase : Nat := Nng.Generated.busCanonPidBase

/-- canonical library id of pipe number `i` -/
def pid (i : Nat) : Nat := pidBase + i

/-- `nni_msg_header_trim_u32` when the header has at least 4 bytes -/
def parseSender (raw : Bool) (h : Bytes) : Nat × Bytes :=
  if raw then
    if h.length ≥ 4 then (beDecode (h.take 4), h.drop 4) else (0, h)
  else (0, [])                                   -- cooked: nni_msg_header_clear

/-- header of a received message: raw mode appends the arrival pipe id -/
def stampHdr (raw : Bool) (i : Nat) : Bytes :=
  if raw then beEncode 4 (pid i) else []

/-- one iteration of the NNI_LIST_FOREACH body of `bus0_sock_send` for pipe `i` -/
def offer (raw : Bool) (gm : SMsg) (i : Nat) (pp : Pipe) : Pipe × List Out :=
  if pp.closed then (pp, [])                                   -- not on the list
  else if raw && pid i == gm.excl then (pp, [])                -- `continue`
  else
    let pp := { pp with offered := pp.offered ++ [gm] }
    if pp.busy.isNone then
      ({ pp with busy := some gm, wire := pp.wire ++ [gm] }, [Out.psend i gm.m])
    else if pp.sq.length < pp.sqCap then                       -- !nni_lmq_full
      ({ pp with sq := pp.sq ++ [gm] }, [])
    else
      ({ pp with dropped := pp.dropped ++ [gm] }, [])          -- the NEW message is not queued

/-- `bus0_pipe_send_cb`, success branch -/
def sendCb (i : Nat) (pp : Pipe) : Pipe × List Out :=
  match pp.sq with
  | m :: rest => ({ pp with sq := rest, busy := some m, wire := pp.wire ++ [m] }, [Out.psend i m.m])
  | [] => ({ pp with busy := none }, [])

/-- `nni_pipe_close` as seen by this protocol: the transport fails the posted aios (an
    in-flight message is freed by `bus0_pipe_send_cb`'s error branch), `bus0_pipe_close`
    flushes the queue and unlinks the pipe -/
def closeP (pp : Pipe) : Pipe :=
  { pp with closed := true, armed := false, busy := none, sq := [], dropped := pp.dropped ++ pp.sq }

/-- `nni_lmq_resize` of one attached pipe's queue -/
def resizeP (cap : Nat) (pp : Pipe) : Pipe :=
  if pp.closed then pp
  else { pp with sqCap := cap, sq := pp.sq.take cap, dropped := pp.dropped ++ pp.sq.drop cap }

def closePipe (s : State) (p : Nat) : State × List Out :=
  match s.pipes[p]? with
  | none => (s, [])
  | some pp =>
    if pp.closed then (s, [])
    else ({ s with pipes := s.pipes.set p (closeP pp) }, [Out.pclosed p])

def deadlineOf (now : Nat) : Mode → Option Nat
  | .ms n => some (now + n)
  | _ => none

/-- `bus0_recv_cancel` (cancel / abort / timeout) -/
def failParked (s : State) (a : Nat) (rv : Nat) : State × List Out :=
  if s.rwait.any (·.aio == a) then
    ({ s with rwait := s.rwait.filter (·.aio != a) }, [Out.done a rv none false])
  else (s, [])

def expire (s : State) : State × List Out :=
  let due := s.rwait.filter fun pk => match pk.deadline with | some d => d < s.now | none => false
  due.foldl (fun (acc : State × List Out) pk =>
    let (s', o) := failParked acc.1 pk.aio Err.etimedout
    (s', acc.2 ++ o)) (s, [])

/-- `bus0_pipe_start` (+ `bus0_pipe_init`) -/
def onPipeAdd (s : State) (peer : Nat) : State × List Out :=
  if s.pipes.length ≥ maxPipes then (s, [.pipe (-1)])          -- the mock transport is out of slots
  else
    let id := s.pipes.length
    if peer != protoBus then
      ({ s with pipes := s.pipes ++ [{ closed := true, sqCap := s.sendBuf }] }, [.pipe id, .pclosed id])
    else
      ({ s with pipes := s.pipes ++ [{ armed := true, sqCap := s.sendBuf }] }, [.pipe id, .parm id])

def onPipeDrop (s : State) (p : Nat) : State × List Out :=
  match s.pipes[p]? with
  | some pp =>
    if pp.closed then (s, [.rv (-1)])
    else let (s, o) := closePipe s p; (s, [.rv 0] ++ o)
  | none => (s, [.rv (-1)])

/-- `bus0_pipe_send_cb` -/
def onSendDone (s : State) (p : Nat) (rv : Nat) : State × List Out :=
  match s.pipes[p]? with
  | some pp =>
    if pp.closed || pp.busy.isNone then (s, [.rv (-1)])
    else if rv != 0 then
      let (s, o) := closePipe s p
      (s, [.rv 0] ++ o)
    else
      let (pp', o) := sendCb p pp
      ({ s with pipes := s.pipes.set p pp' }, [.rv 0] ++ o)
  | none => (s, [.rv (-1)])

/-- `bus0_pipe_recv_cb` -/
def onRecvDone (s : State) (p : Nat) (r : Except Nat Bytes) : State × List Out :=
  match s.pipes[p]? with
  | some pp =>
    if pp.closed || !pp.armed then (s, [.rv (-1)])
    else
      match r with
      | .error _ => let (s, o) := closePipe s p; (s, [.rv 0] ++ o)
      | .ok b =>
        let gm : RMsg := ⟨s.narrive, p, ⟨stampHdr s.raw p, b⟩⟩
        let s := { s with narrive := s.narrive + 1, arrived := s.arrived ++ [gm] }
        match s.rwait with
        | a :: rest =>
          ({ s with rwait := rest, delivered := s.delivered ++ [gm] },
            [.rv 0, .done a.aio 0 (some gm.m) false, .parm p])
        | [] =>
          if s.rq.length < s.recvCap then                      -- nni_lmq_put == 0
            ({ s with rq := s.rq ++ [gm], readable := true }, [.rv 0, .parm p])
          else
            ({ s with rdropped := s.rdropped ++ [gm] }, [.rv 0, .parm p])
  | none => (s, [.rv (-1)])

/-- `bus0_sock_send` (fixed: no `nni_aio_start`) -/
def onSend (s : State) (a : Nat) (m : WMsg) : State × List Out :=
  let (sender, h) := parseSender s.raw m.hdr
  let gm : SMsg := ⟨s.nsend, sender, ⟨h, m.body⟩⟩
  ({ s with nsend := s.nsend + 1, pipes := s.pipes.mapIdx (fun i pp => (offer s.raw gm i pp).1) },
    (s.pipes.mapIdx (fun i pp => (offer s.raw gm i pp).2)).flatten ++ [.done a 0 none false])

/-- `bus0_sock_recv` -/
def onRecv (s : State) (a : Nat) (mode : Mode) : State × List Out :=
  match s.rq with
  | [] =>
    match mode with
    | .nb => (s, [.done a Err.eagain none false])
    | .ms 0 => (s, [.done a Err.etimedout none false])
    | _ => ({ s with rwait := s.rwait ++ [⟨a, deadlineOf s.now mode⟩] }, [])
  | gm :: rest =>
    -- nni_lmq_get; `can_recv` is cleared when that emptied the queue
    ({ s with rq := rest, delivered := s.delivered ++ [gm],
              readable := if rest.isEmpty then false else s.readable }, [.done a 0 (some gm.m) false])

/-- `bus0_sock_set_send_buf_len` -/
def onSetSendBuf (s : State) (v : Int) : State × List Out :=
  if v < bufMin || v > bufMax then (s, [.rv Err.einval])
  else
    let cap := v.toNat
    ({ s with sendBuf := cap, pipes := s.pipes.map (resizeP cap) }, [.rv 0])

/-- `bus0_sock_set_recv_buf_len` -/
def onSetRecvBuf (s : State) (v : Int) : State × List Out :=
  if v < bufMin || v > bufMax then (s, [.rv Err.einval])
  else
    let cap := v.toNat
    ({ s with recvCap := cap, rq := s.rq.take cap, rdropped := s.rdropped ++ s.rq.drop cap }, [.rv 0])

/-- `bus0_sock_close`, then the core closes every pipe -/
def onClose (s : State) : State × List Out :=
  let outs1 := s.rwait.map fun pk => Out.done pk.aio Err.eclosed none false
  let outs2 := (s.pipes.mapIdx fun i pp => if pp.closed then [] else [Out.pclosed i]).flatten
  ({ s with rwait := [], closed := true,
            pipes := s.pipes.map fun pp => if pp.closed then pp else closeP pp }, outs1 ++ outs2)

def stepOpen (s : State) (ev : Ev) : State × List Out :=
  match ev with
  | .openSock _ _ => (s, [.other "bad-op"])
  | .pipeAdd peer => onPipeAdd s peer
  | .pipeDrop p => onPipeDrop s p
  | .sendDone p rv => onSendDone s p rv
  | .recvDone p r => onRecvDone s p r
  | .send _ a m _ =>
    if s.rwait.any (·.aio == a) then (s, [.other "aio-busy"]) else onSend s a m
  | .recv _ a mode =>
    if s.rwait.any (·.aio == a) then (s, [.other "aio-busy"]) else onRecv s a mode
  | .cancel a => failParked s a Err.ecanceled
  | .abort a rv => failParked s a rv
  | .advance ms => expire { s with now := s.now + ms }
  | .ctxOpen _ => (s, [.rv Err.enotsup])
  | .ctxClose _ => (s, [.rv (-1)])
  | .setopt none "send-buffer" "int" v => onSetSendBuf s v
  | .setopt none "recv-buffer" "int" v => onSetRecvBuf s v
  | .setopt _ _ _ _ => (s, [.other "unmodelled-option"])
  | .getopt none "send-buffer" "int" => (s, [.rv2 0 s.sendBuf])
  | .getopt none "recv-buffer" "int" => (s, [.rv2 0 s.recvCap])
  | .getopt _ _ _ => (s, [.other "unmodelled-option"])
  | .poll => ({ s with writable := true }, [.poll (some s.readable) (some true)])
  | .sub _ _ => (s, [.other "bad-op"])
  | .unsub _ _ => (s, [.other "bad-op"])
  | .close => onClose s

def step (s : State) (ev : Ev) : State × List Out :=
  if !s.opened then
    match ev with
    | .openSock _ raw =>
      -- bus0_sock_init: everything empty (only the virtual clock is older than the socket)
      ({ opened := true, raw := raw, sendBuf := Nng.Generated.busSendBufInit,
         recvCap := Nng.Generated.busRecvBufInit, now := s.now }, [.rv 0])
    | .advance ms => ({ s with now := s.now + ms }, [])
    | _ => (s, [.other "nosock"])
  else if s.closed then
    match ev with
    | .advance ms => ({ s with now := s.now + ms }, [])
    | _ => (s, [.other "nosock"])
  else stepOpen s ev

/-- the harness' `pipe_id <p>`: the library id of a pipe that still exists, else 0 -/
def pipeIdOf (s : State) (p : Nat) : Nat :=
  match s.pipes[p]? with
  | some pp => if pp.closed || s.closed || !s.opened then 0 else pid p
  | none => 0

def run (s : State) : List Ev → State × List (List Out)
  | [] => (s, [])
  | e :: es =>
    let (s', o) := step s e
    let (s'', os) := run s' es
    (s'', o :: os)

end Nng.Bus
