/-
  Executable model of the SP stream framing used by the tcp, ipc and socket-fd
  transports, of the scatter/gather bookkeeping they share (core/aio.c), and of
  the inproc header merge (core/message.c nni_msg_pull_up).

  What mirrors what
  * `encodeTcp` / `encodeIpc`  — the three iov entries built by
      tcptran_pipe_send_start / sfd_tran_pipe_send_start ( [len8, header, body] )
      and ipc_pipe_send_start ( [0x01 len8, header, body] ).
  * `Aio`, `iovCount`, `iovAdvance`, `setIov` — nni_aio_iov_count,
      nni_aio_iov_advance (including the shifting of the iov array and the
      NULL/0 "indicator" entry it leaves behind), nni_aio_set_iov.  An iov entry
      (pointer, length) is represented by the bytes it designates; `buf += n`
      is `drop n`.  `safe = false` records an access outside a_iov[0..MAX).
  * `txStart`, `txRun` — *_pipe_send_start and the *_pipe_send_cb loop: after
      each completion of `n` bytes advance, and resubmit while the count is > 0.
  * `Rx`, `rxRead`, `rxFeed` — *_pipe_recv_start / *_pipe_recv_cb: gather the
      8 (ipc: 9) header bytes with a single-entry iov, check message type (ipc),
      nni_msg_size_valid, rcvmax, allocate, gather the body, deliver, re-arm.
      `rxFeed` is the platform read loop seen from the byte stream: a read asks
      for at most `want` bytes, so an available chunk larger than that is
      consumed by several reads.
  * `pullUp` — nni_msg_pull_up on the C17 message model (`Nng.Msg`).

  Core Lean only (imported by the driver).
-/
import NngModel.Base.Bytes
import NngModel.Generated.C01
import NngModel.Model.Msg

namespace Nng.Sp
open Nng

/-- a message as the transport sees it: protocol header and body -/
structure SpMsg where
  hdr : Bytes
  body : Bytes
deriving Repr, DecidableEq, Inhabited

def SpMsg.size (m : SpMsg) : Nat := m.hdr.length + m.body.length

/-- what the receiving transport hands to the protocol: all payload bytes in the
    body (the protocol re-parses its header out of it) -/
def SpMsg.flat (m : SpMsg) : Bytes := m.hdr ++ m.body

/-- framing flavour: tcp and socket-fd use an 8-byte length, ipc puts a message
    type byte in front -/
inductive Kind where
  | tcp
  | ipc
deriving Repr, DecidableEq, Inhabited

def Kind.headLen : Kind → Nat
  | .tcp => Generated.c01TcpHeadLen
  | .ipc => Generated.c01IpcHeadLen

/-- NNI_PUT64 -/
def be64 (v : Nat) : Bytes := beEncode 8 v

/-- the bytes of txlen / tx_head for a payload of `n` bytes -/
def headBytes (k : Kind) (n : Nat) : Bytes :=
  match k with
  | .tcp => be64 n
  | .ipc => UInt8.ofNat Generated.c01IpcMsgType :: be64 n

def encodeTcp (m : SpMsg) : Bytes := be64 (m.hdr.length + m.body.length) ++ m.hdr ++ m.body
def encodeIpc (m : SpMsg) : Bytes := UInt8.ofNat Generated.c01IpcMsgType :: encodeTcp m

def encode : Kind → SpMsg → Bytes
  | .tcp, m => encodeTcp m
  | .ipc, m => encodeIpc m

/-- the byte stream of a connection direction carrying `ms` in order -/
def stream (k : Kind) (ms : List SpMsg) : Bytes := (ms.map (encode k)).flatten

/-- the 8 negotiation bytes each side sends first: 00 'S' 'P' 00 proto16 00 00 -/
def handshake (proto : Nat) : Bytes :=
  Generated.c01HandshakePrefix.map UInt8.ofNat ++ beEncode 2 proto ++ [0, 0]

/-- the check in *_pipe_nego_cb; `some peer` when accepted -/
def handshakeCheck (b : Bytes) : Option Nat :=
  if b.length = Generated.c01HandshakeLen ∧ b.take 4 = Generated.c01HandshakePrefix.map UInt8.ofNat ∧
      b.drop 6 = [0, 0] then some (beDecode ((b.drop 4).take 2)) else none

/-! ### scatter/gather bookkeeping (core/aio.c) -/

structure Aio where
  iov : List Bytes          -- a_iov[0 .. NNI_AIO_MAX_IOV)
  nio : Nat                 -- a_nio
  safe : Bool := true       -- no a_iov access outside the array so far
deriving Repr, DecidableEq, Inhabited

def maxIov : Nat := Generated.c01AioMaxIov

/-- a zeroed aio -/
def Aio.fresh : Aio := { iov := List.replicate maxIov [], nio := 0 }

/-- nni_aio_iov_count -/
def iovCount (a : Aio) : Nat := ((a.iov.take a.nio).map List.length).sum

/-- the bytes the aio still designates, in transfer order -/
def pending (a : Aio) : Bytes := (a.iov.take a.nio).flatten

/-- the body of the `a_nio--; for (i < a_nio) a_iov[i] = a_iov[i+1]; a_iov[a_nio] = {NULL,0}`
    block; `nio` is the already decremented count -/
def shiftIov (iov : List Bytes) (nio : Nat) : List Bytes :=
  (iov.drop 1).take nio ++ [] :: iov.drop (nio + 1)

/-- the `while (n)` loop of nni_aio_iov_advance; returns the aio and the return value -/
def iovAdvanceGo (a : Aio) (n residual : Nat) : Aio × Nat :=
  if n = 0 then (a, residual)
  else
    let e0 := a.iov.headD []
    if e0.length > n then
      ({ a with iov := a.iov.set 0 (e0.drop n) }, 0)         -- "we used all of n"
    else if h : a.nio = 0 then
      -- C: a_nio-- wraps around (unsigned) and the shift loop runs off the array
      ({ a with safe := false }, residual - e0.length)
    else
      iovAdvanceGo
        { iov := shiftIov a.iov (a.nio - 1), nio := a.nio - 1,
          safe := a.safe && decide (a.nio ≤ a.iov.length) }
        (n - e0.length) (residual - e0.length)
termination_by a.nio
decreasing_by simp_wf; omega

/-- nni_aio_iov_advance -/
def iovAdvance (a : Aio) (n : Nat) : Aio × Nat := iovAdvanceGo a n n

/-- nni_aio_set_iov (the entries are copied over the front of the array, the rest
    keeps its old contents); EINVAL leaves the aio alone -/
def setIov (a : Aio) (es : List Bytes) : Aio × Nat :=
  if es.length > a.iov.length then (a, Err.einval)
  else ({ a with iov := es ++ a.iov.drop es.length, nio := es.length }, 0)

/-- the iov entries built by *_pipe_send_start: header and body entries only when
    they are not empty -/
def txEntries (k : Kind) (m : SpMsg) : List Bytes :=
  [headBytes k (m.hdr.length + m.body.length)] ++
    (if m.hdr.length > 0 then [m.hdr] else []) ++
    (if m.body.length > 0 then [m.body] else [])

/-- *_pipe_send_start on the pipe's txaio (whatever it held before) -/
def txStart (k : Kind) (prev : Aio) (m : SpMsg) : Aio := (setIov prev (txEntries k m)).1

/-- the *_pipe_send_cb loop.  `ns` are the byte counts reported by successive
    completions of the stream send; each completion put `n` bytes of the pending
    data on the wire.  Returns the aio and the bytes written.  When the count
    reaches 0 the message is done and no further send is issued. -/
def txRun (a : Aio) : List Nat → Aio × Bytes
  | [] => (a, [])
  | n :: ns =>
    let wire := (pending a).take n
    let a1 := (iovAdvance a n).1
    if iovCount a1 > 0 then
      let r := txRun a1 ns
      (r.1, wire ++ r.2)
    else (a1, wire)

/-- `ns` is a possible sequence of completion counts for `c` pending bytes: a send
    never reports more than it was given (0 is accepted by the code: it resubmits) -/
def Admissible : Nat → List Nat → Prop
  | _, [] => True
  | c, n :: ns => n ≤ c ∧ (n < c → Admissible (c - n) ns)

/-- send a sequence of messages on one pipe, each with its own completion counts -/
def txSeq (k : Kind) (a : Aio) : List (SpMsg × List Nat) → Aio × Bytes
  | [] => (a, [])
  | (m, ns) :: rest =>
    let r := txRun (txStart k a m) ns
    let r2 := txSeq k r.1 rest
    (r2.1, r.2 ++ r2.2)

/-! ### receive side -/

structure Cfg where
  kind : Kind
  rcvmax : Nat            -- 0 = unlimited
deriving Repr

structure Rx where
  head : Bytes := []          -- rxlen[0 .. got) / rx_head[0 .. got)
  want : Nat                  -- nni_aio_iov_count (rxaio): what the pending read still asks for
  msg : Option Bytes := none  -- rxmsg: the body bytes filled so far; none = NULL
  err : Nat := 0              -- ≠ 0: the receive failed with this code; no read is pending
  out : List Bytes := []      -- ghost: bodies of the messages handed to the protocol, oldest first
deriving Repr, DecidableEq, Inhabited

/-- *_pipe_recv_start with a receive queued: read the length header -/
def rxInit (k : Kind) : Rx := { want := k.headLen }

/-- nni_msg_size_valid (the second conjunct, size ≤ SIZE_MAX, is implied on LP64) -/
def sizeValid (len : Nat) : Bool := decide (len ≤ Generated.c01MaxStreamMsgSz)

def rxFail (s : Rx) (rv : Nat) : Rx := { s with msg := none, err := rv, want := 0 }

/-- deliver `b` and re-arm (recv_start: single iov over the header buffer) -/
def rxDeliver (c : Cfg) (s : Rx) (b : Bytes) : Rx :=
  { head := [], want := c.kind.headLen, msg := none, err := 0, out := s.out ++ [b] }

/-- the part of *_pipe_recv_cb that runs when the header is complete -/
def rxHeader (c : Cfg) (s : Rx) : Rx :=
  if c.kind = .ipc ∧ s.head.headD 0 ≠ UInt8.ofNat Generated.c01IpcMsgType then rxFail s Err.eproto
  else
    let len := beDecode (s.head.drop (c.kind.headLen - 8))
    if !sizeValid len then rxFail s Err.emsgsize
    else if len > c.rcvmax ∧ c.rcvmax > 0 then rxFail s Err.emsgsize
    else if len ≠ 0 then { s with msg := some [], want := len }
    else rxDeliver c s []

/-- one completion of the stream read with `data` (precondition: `data.length ≤ s.want`,
    a read never returns more than it asked for): *_pipe_recv_cb -/
def rxRead (c : Cfg) (s : Rx) (data : Bytes) : Rx :=
  -- nni_aio_iov_advance on the single entry: the data lands behind what is already there
  let s1 : Rx :=
    match s.msg with
    | none => { s with head := s.head ++ data, want := s.want - data.length }
    | some b => { s with msg := some (b ++ data), want := s.want - data.length }
  if s1.want > 0 then s1                     -- partial: resubmit for the rest
  else
    match s1.msg with
    | none => rxHeader c s1
    | some b => rxDeliver c s1 b

/-- the byte stream seen by the receive path: `d` becomes available; reads of at most
    `want` bytes consume it.  After a failure nothing is read any more. -/
def rxFeed (c : Cfg) (s : Rx) (d : Bytes) : Rx :=
  if s.err ≠ 0 then s
  else if hd : d = [] then s
  else if hw : s.want = 0 then s
  else rxFeed c (rxRead c s (d.take (min d.length s.want))) (d.drop (min d.length s.want))
termination_by d.length
decreasing_by
  have : d.length ≠ 0 := by intro h; exact hd (List.eq_nil_of_length_eq_zero h)
  simp only [List.length_drop]; omega

/-- data arriving in arbitrary chunks -/
def rxRun (c : Cfg) (s : Rx) (chunks : List Bytes) : Rx := chunks.foldl (rxFeed c) s

/-! ### inproc: nni_msg_pull_up -/

open Nng.Msg in
/-- nni_msg_pull_up.  `refcnt` is m_refcnt; `fail` the index of the allocation that fails
    (none: all succeed).  `none` is the C NULL (the caller frees the original). -/
def pullUp (m : Msg.Msg) (refcnt : Nat) (fail : Option Nat) : Option Msg.Msg × Bool :=
  if m.body.cap - m.body.len < m.hlen ∨ refcnt ≠ 1 then
    -- duplicate: allocate header+body and copy both in
    let r := alloc (m.body.len + m.hlen) fail
    match r.c with
    | none => (none, r.safe)
    | some m2 =>
      let p1 := msgPoke m2 0 (readAt m.hbuf 0 m.hlen)
      let p2 := msgPoke p1.c m.hlen (readAt m.body.buf m.body.off m.body.len)
      (some p2.c, r.safe && inRange hdrCap 0 m.hlen && inRange m.body.cap m.body.off m.body.len &&
        decide (m.hlen + m.body.len ≤ m2.body.len))
  else
    -- in place; the insert may have to regrow the chunk (allocation 0 of this call)
    let r := msgInsert m (readAt m.hbuf 0 m.hlen) (fail != some 0)
    if r.rv != 0 then (none, r.safe)
    else (some { r.c with hlen := 0 }, r.safe && inRange hdrCap 0 m.hlen)

/-- the same function as the pinned tree had it: the result of the insert is ignored
    (finding F11).  Kept only to document the defect; nothing is proved about it. -/
def pullUpUnfixed (m : Msg.Msg) (refcnt : Nat) (fail : Option Nat) : Option Msg.Msg :=
  if m.body.cap - m.body.len < m.hlen ∨ refcnt ≠ 1 then (pullUp m refcnt fail).1
  else some { (Msg.msgInsert m (Msg.readAt m.hbuf 0 m.hlen) (fail != some 0)).c with hlen := 0 }

end Nng.Sp
