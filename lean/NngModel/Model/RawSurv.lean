/-
  What src/sp/protocol/survey0/xsurvey.c (raw SURVEYOR) and xrespond.c (raw RESPONDENT) have in
  common, as seen through the socket core: both files have the same text for

      sock_open / sock_close / sock_send / sock_recv      (socket-level queues `s_uwq`, `s_urq`)
      pipe_init / pipe_start / pipe_close                 (per-pipe send queue `p->sendq`)
      getq_cb / send_cb / putq_cb                         (pipe: send queue → transport, read queue ← transport)

  and differ in (a) the header processing of recv_cb and (b) what sock_getq_cb does with a
  message taken from the upper write queue (fan-out to every pipe / routing by the first
  header word).  Those two are the parameters of `Kind`; `Model/Xsurvey.lean` and
  `Model/Xrespond.lean` instantiate them, taking the header functions from
  `Model/Backtrace.lean` (C13).

  Queues are `RawMq` bounded FIFOs with parked readers / writers (ring indices abstracted, C18).
  `nni_msgq_aio_get/put` as repaired by c50b100: the aio is started only if it has to wait
  (`mustWaitGet` / `mustWaitPut`), so a zero-timeout operation fails only then.

  Pipe ids: the core's `nni_pipe_id` is random; the models use the canonical id `index + 1`
  (the check renames the real ids, see vlib/props/c07.py).

  Ghost fields (never read by the model): per pipe `offered wired dropped`, per socket
  `sent accepted delivered lost`.
-/
import NngModel.Model.RawMq
import NngModel.Model.Backtrace
import NngModel.Generated.Base
import NngModel.Generated.C07X
namespace Nng.RawSurv
open Nng Nng.Proto Nng.RawMq

structure Pipe where
  closed : Bool := false
  armed : Bool := false            -- aio_recv with the transport
  busy : Bool := false             -- aio_send with the transport
  sq : Mq := {}                    -- p->sendq; its only reader is the pipe's aio_getq (tag = pipe index)
  -- ghost
  offered : List WMsg := []        -- every message sock_getq_cb tried to put on this pipe's queue
  wired : List WMsg := []          -- handed to the transport
  dropped : List WMsg := []        -- freed: queue full at the offer, or still queued when the pipe closed
deriving Repr, DecidableEq, Inhabited

/-- an arrival that passed the header processing -/
structure Arr where
  pipe : Nat
  ttl : Nat
  bytes : Bytes
  m : WMsg
deriving Repr, DecidableEq, Inhabited

structure State where
  opened : Bool := false
  closed : Bool := false
  ttl : Nat := 8
  uwq : Mq := { cap := Nng.Generated.xsvSockSendq }
  urq : Mq := { cap := Nng.Generated.xsvSockRecvq }
  pipes : List Pipe := []
  now : Nat := 0
  -- ghost
  sent : List WMsg := []           -- messages sock_getq_cb took from the upper write queue
  accepted : List Arr := []        -- arrivals put on (or parked at) the upper read queue
  delivered : List WMsg := []      -- handed to the application
  lost : List WMsg := []           -- accepted arrivals freed before delivery (pipe / socket closed)
deriving Repr, Inhabited

/-- the two places where the two C files differ -/
structure Kind where
  name : String
  peer : Nat
  sqCap : Nat
  ttlInit : Nat
  ttlMin : Nat
  /-- recv_cb: ttl, pipe index, received bytes -/
  recvFn : Nat → Nat → Bytes → Bt.Outcome
  /-- sock_getq_cb: what happens to a message taken from the upper write queue -/
  route : List Pipe → WMsg → List Pipe × List Out

def getPipe (s : State) (p : Nat) : Option Pipe := s.pipes[p]?
def setPipe (s : State) (p : Nat) (pp : Pipe) : State := { s with pipes := s.pipes.set p pp }
def livePipe (s : State) (p : Nat) : Bool := match getPipe s p with | some pp => !pp.closed | none => false

def deadlineOf (now : Nat) : Mode → Option Nat
  | .ms n => some (now + n)
  | _ => none

/-- result of nni_aio_start for a zero timeout: NNG_FLAG_NONBLOCK calls report NNG_EAGAIN, an aio
    with timeout 0 NNG_ETIMEDOUT -/
def zeroRv : Mode → Option Nat
  | .nb => some Err.eagain
  | .ms 0 => some Err.etimedout
  | _ => none

/-- nni_msgq_aio_get: `!nni_list_empty(&mq->mq_aio_getq) || (mq->mq_len == 0 && nni_list_empty(&mq->mq_aio_putq))` -/
def mustWaitGet (q : Mq) : Bool := !q.getq.isEmpty || (q.items.length == 0 && q.putq.isEmpty)
/-- nni_msgq_aio_put: `!nni_list_empty(&mq->mq_aio_putq) || (mq->mq_len >= mq->mq_cap && nni_list_empty(&mq->mq_aio_getq))` -/
def mustWaitPut (q : Mq) : Bool := !q.putq.isEmpty || (decide (q.items.length ≥ q.cap) && q.getq.isEmpty)

def aioBusy (s : State) (a : Nat) : Bool := s.urq.getq.any (·.tag == a) || s.uwq.putq.any (·.tag == a)

/-- `nni_msgq_tryput(p->sendq, msg)` by sock_getq_cb on one pipe of the socket's pipe list / id map
    (a closed pipe is in neither), followed — when the pipe's aio_getq was waiting — by getq_cb:
    `nni_pipe_send`.  Refused (queue full) ⇒ the message (clone) is freed, whole. -/
def offer (i : Nat) (pp : Pipe) (m : WMsg) : Pipe × List Out :=
  if pp.closed then (pp, [])
  else
    match tryput pp.sq m with
    | none => ({ pp with offered := pp.offered ++ [m], dropped := pp.dropped ++ [m] }, [])
    | some (sq, some _) =>
      ({ pp with sq := sq, busy := true, offered := pp.offered ++ [m], wired := pp.wired ++ [m] }, [.psend i m])
    | some (sq, none) => ({ pp with sq := sq, offered := pp.offered ++ [m] }, [])

/-- nni_pipe_close: pipe_close (the four aios closed — a put parked on the upper read queue is
    cancelled and its message freed —, send queue closed and emptied, pipe unlisted), transport close -/
def closePipe (s : State) (p : Nat) : State × List Out :=
  match getPipe s p with
  | none => (s, [])
  | some pp =>
    if pp.closed then (s, []) else
    let s := setPipe s p { pp with closed := true, armed := false, sq := RawMq.close pp.sq,
                                   dropped := pp.dropped ++ pp.sq.items }
    let gone := (s.urq.putq.filter (·.tag == p)).map (·.msg)
    ({ s with urq := (cancelPut s.urq p).1, lost := s.lost ++ gone }, [.pclosed p])

/-- completion of an upper-read-queue transfer: pipes are the writers (tag = pipe index, putq_cb
    re-arms the receive), user aios the readers -/
def urqEvent (s : State) (e : MqEv) : State × List Out :=
  match e with
  | .handed w g =>
    let s := match getPipe s w.tag with
      | some pp => setPipe s w.tag { pp with armed := true }
      | none => s
    ({ s with delivered := s.delivered ++ [w.msg] }, [.done g.tag 0 (some w.msg) false, .parm w.tag])
  | .queued w =>
    let s := match getPipe s w.tag with
      | some pp => setPipe s w.tag { pp with armed := true }
      | none => s
    (s, [.parm w.tag])
  | .got g m => ({ s with delivered := s.delivered ++ [m] }, [.done g.tag 0 (some m) false])

def applyEvents (s : State) (es : List MqEv) : State × List Out :=
  es.foldl (fun (acc : State × List Out) e =>
    let (s', o) := urqEvent acc.1 e
    (s', acc.2 ++ o)) (s, [])

/-- recv_cb with a message -/
def pipeRecv (k : Kind) (s : State) (p : Nat) (pp : Pipe) (bytes : Bytes) : State × List Out :=
  let s := setPipe s p { pp with armed := false }
  match k.recvFn s.ttl p bytes with
  | .deliver hdr body =>
    let (q, es) := aioPut s.urq ⟨p, ⟨hdr, body⟩, none⟩
    applyEvents { s with urq := q, accepted := s.accepted ++ [⟨p, s.ttl, bytes, ⟨hdr, body⟩⟩] } es
  | .drop => (setPipe s p { pp with armed := true }, [.parm p])
  | .dropEinval => (setPipe s p { pp with armed := true }, [.parm p])
  | .closePipe => closePipe s p
  | .panic => (s, [.other "panic"])

/-- send_cb (success): ask the pipe's send queue for the next message; getq_cb sends it -/
def pipeSent (s : State) (p : Nat) (pp : Pipe) : State × List Out :=
  let (sq, es) := aioGet pp.sq ⟨p, none⟩
  match es with
  | [.got _ m] => (setPipe s p { pp with busy := true, sq := sq, wired := pp.wired ++ [m] }, [.psend p m])
  | _ => (setPipe s p { pp with busy := false, sq := sq }, [])

/-- nni_sock_send → nni_msgq_aio_put(s->uwq, aio); the socket's aio_getq is the only reader of the
    upper write queue: sock_getq_cb routes the message and asks for the next one -/
def sockSend (k : Kind) (s : State) (a : Nat) (m : WMsg) (mode : Mode) : State × List Out :=
  if mustWaitPut s.uwq && (zeroRv mode).isSome then
    (s, [.done a ((zeroRv mode).getD 0) none true])
  else
    let (q, es) := aioPut s.uwq ⟨a, m, deadlineOf s.now mode⟩
    let s := { s with uwq := q }
    match es with
    | [.handed w _] =>
      let (ps, o) := k.route s.pipes w.msg
      let (q', es') := aioGet s.uwq ⟨0, none⟩
      if es'.isEmpty then ({ s with pipes := ps, uwq := q', sent := s.sent ++ [w.msg] }, [.done w.tag 0 none false] ++ o)
      else (s, [.other "model-invariant-broken"])
    | [] => (s, [])
    | _ => (s, [.other "model-invariant-broken"])

/-- nni_sock_recv → nni_msgq_aio_get(s->urq, aio) -/
def sockRecv (s : State) (a : Nat) (mode : Mode) : State × List Out :=
  if mustWaitGet s.urq && (zeroRv mode).isSome then
    (s, [.done a ((zeroRv mode).getD 0) none false])
  else
    let (q, es) := aioGet s.urq ⟨a, deadlineOf s.now mode⟩
    applyEvents { s with urq := q } es

/-- nni_msgq_cancel (cancel, abort, expiry) -/
def failAio (s : State) (a : Nat) (rv : Nat) : State × List Out :=
  match (cancelGet s.urq a).2 with
  | some _ => ({ s with urq := (cancelGet s.urq a).1 }, [.done a rv none false])
  | none =>
    match (cancelPut s.uwq a).2 with
    | some _ => ({ s with uwq := (cancelPut s.uwq a).1 }, [.done a rv none true])
    | none => (s, [])

def expire (s : State) : State × List Out :=
  let due (d : Option Nat) : Bool := match d with | some d => d < s.now | none => false
  let as := (s.urq.getq.filter (fun g => due g.deadline)).map (·.tag) ++ (s.uwq.putq.filter (fun w => due w.deadline)).map (·.tag)
  as.foldl (fun (acc : State × List Out) a =>
    let (s', o) := failAio acc.1 a Err.etimedout
    (s', acc.2 ++ o)) (s, [])

def closeAll (s : State) : Nat → State × List Out
  | 0 => (s, [])
  | n + 1 =>
    let (s1, o1) := closeAll s n
    let (s2, o2) := closePipe s1 n
    (s2, o1 ++ o2)

/-- nni_sock_close: both upper queues closed (parked user aios fail with NNG_ECLOSED, queued
    messages freed), every pipe closed -/
def sockClose (s : State) : State × List Out :=
  let o1 := s.urq.getq.map fun g => Out.done g.tag Err.eclosed none false
  let o2 := s.uwq.putq.map fun w => Out.done w.tag Err.eclosed none true
  let s := { s with lost := s.lost ++ s.urq.items ++ s.urq.putq.map (·.msg), urq := RawMq.close s.urq, uwq := RawMq.close s.uwq }
  let (s, o3) := closeAll s s.pipes.length
  ({ s with closed := true }, o1 ++ o2 ++ o3)

/-- NNG_OPT_MAXTTL (the only protocol option of the raw sockets) -/
def setOpt (k : Kind) (s : State) (c : Option Nat) (name ty : String) (v : Int) : State × List Out :=
  if c == none && name == "ttl-max" && ty == "int" then
    if v < (k.ttlMin : Int) || v > (Nng.Generated.maxMaxTtl : Int) then (s, [.rv Err.einval])
    else ({ s with ttl := v.toNat }, [.rv 0])
  else (s, [.other "unmodelled-option"])

def getOpt (s : State) (c : Option Nat) (name ty : String) : State × List Out :=
  if c == none && name == "ttl-max" && ty == "int" then (s, [.rv2 0 s.ttl])
  else (s, [.other "unmodelled-option"])

def step (k : Kind) (s : State) (ev : Ev) : State × List Out :=
  if !s.opened then
    match ev with
    | .openSock _ _ =>
      -- sock_init + sock_open: start reading the upper write queue
      ({ s with opened := true, ttl := k.ttlInit, uwq := (aioGet s.uwq ⟨0, none⟩).1 }, [.rv 0])
    | .advance ms => ({ s with now := s.now + ms }, [])
    | _ => (s, [.other "nosock"])
  else if s.closed then
    match ev with
    | .advance ms => ({ s with now := s.now + ms }, [])
    | _ => (s, [.other "nosock"])
  else
  match ev with
  | .openSock _ _ => (s, [.other "bad-op"])
  | .pipeAdd peer =>
    let id := s.pipes.length
    if peer != k.peer then
      ({ s with pipes := s.pipes ++ [{ closed := true, sq := RawMq.close { cap := k.sqCap } }] }, [.pipe id, .pclosed id])
    else
      -- pipe_init: send queue; pipe_start: wait on it, post a receive
      let pp : Pipe := { armed := true, sq := (aioGet { cap := k.sqCap } ⟨id, none⟩).1 }
      ({ s with pipes := s.pipes ++ [pp] }, [.pipe id, .parm id])
  | .pipeDrop p =>
    if livePipe s p then let (s, o) := closePipe s p; (s, [.rv 0] ++ o) else (s, [.rv (-1)])
  | .sendDone p rv =>
    match getPipe s p with
    | none => (s, [.rv (-1)])
    | some pp =>
      if pp.closed || !pp.busy then (s, [.rv (-1)])
      else if rv != 0 then
        let (s, o) := closePipe s p
        (s, [.rv 0] ++ o)
      else
        let (s, o) := pipeSent s p pp
        (s, [.rv 0] ++ o)
  | .recvDone p r =>
    match getPipe s p with
    | none => (s, [.rv (-1)])
    | some pp =>
      if pp.closed || !pp.armed then (s, [.rv (-1)])
      else
        match r with
        | .error _ => let (s, o) := closePipe s p; (s, [.rv 0] ++ o)
        | .ok b => let (s, o) := pipeRecv k s p pp b; (s, [.rv 0] ++ o)
  | .send c a m mode =>
    if aioBusy s a then (s, [.other "aio-busy"]) else
    match c with
    | some _ => (s, [.done a Err.eclosed none true])      -- raw sockets have no contexts
    | none => sockSend k s a m mode
  | .recv c a mode =>
    if aioBusy s a then (s, [.other "aio-busy"]) else
    match c with
    | some _ => (s, [.done a Err.eclosed none false])
    | none => sockRecv s a mode
  | .cancel a => failAio s a Err.ecanceled
  | .abort a rv => failAio s a rv
  | .advance ms => expire { s with now := s.now + ms }
  | .ctxOpen _ => (s, [.rv Err.enotsup])
  | .ctxClose _ => (s, [.rv (-1)])
  | .setopt c name ty v => setOpt k s c name ty v
  | .getopt c name ty => getOpt s c name ty
  | .poll => (s, [.poll (some (recvable s.urq)) (some (sendable s.uwq))])
  | .sub _ _ => (s, [.other "bad-op"])
  | .unsub _ _ => (s, [.other "bad-op"])
  | .close => sockClose s

def run (k : Kind) (s : State) : List Ev → State × List (List Out)
  | [] => (s, [])
  | e :: es =>
    let (s', o) := step k s e
    let (s'', os) := run k s' es
    (s'', o :: os)

end Nng.RawSurv
