/- src/core/reap.c as an interleaving system (C10: close hands every object to the reaper; C03: each object is
   finalised exactly once).  One reaper thread (reap_worker), any number of client threads calling nni_reap,
   nni_reap_sys_drain and nni_reap_sys_fini; a reap function may itself call nni_reap (pipe -> endpoint), which is
   the `child` of a node.

   A step is one critical section of reap_mtx exactly as reap.c delimits it (the harness parks a thread before every
   nni_mtx_lock, inside nni_cv_wait and at the entry of the reap function, harness/u_reap.c):
   * nni_reap: link the list on first use (rl_inited), reap_empty = false, push the node, nni_cv_wake1(work);
   * worker: the scan `for (list = ...)` up to the first list with nodes (take the whole batch, unlock) or, when the
     pass ends: a pass that reaped nothing sets reap_empty, wakes the drainers and exits / sleeps; a pass that reaped
     something starts over from the head WITHOUT releasing the mutex;
   * the reap function runs outside the mutex, one node per step, `node = node->rn_next` read BEFORE the call;
   * nni_reap_sys_drain: `while (!reap_empty) { result = true; nni_cv_wait(empty) }` - first test, sleep, re-test;
   * nni_reap_sys_fini: reap_exit = true, wake1(work); then nni_thr_fini = join the worker.
   No spurious wake-ups (the loops re-test, more wake-ups only add stutter rounds). -/
namespace Nng.Reap

/-- what is linked into a reap list: the object's id and, if its reap function hands another object to the reaper,
    that object's list and id (a leaf) -/
structure Node where
  id : Nat
  child : Option (Nat × Nat) := none
  deriving Repr, DecidableEq, Inhabited

inductive Op where
  | reap (l : Nat) (n : Node)
  | drain
  | fini
  deriving Repr, DecidableEq, Inhabited

/-- a client thread: `ready p` is parked at the nni_mtx_lock of the head of `p` (finished when `p = []`) -/
inductive Client where
  | ready (p : List Op)
  | drainSleep (woken : Bool) (p : List Op)   -- inside nni_cv_wait(&reap_empty_cv), result = true
  | joining (p : List Op)                     -- inside nni_thr_fini(&reap_thr)
  deriving Repr, DecidableEq, Inhabited

/-- the reaper thread; `pos` is the value of `list->rl_next` (a suffix of the global list) -/
inductive Worker where
  | top                                                       -- at nni_mtx_lock before the first pass
  | run (batch : List Node) (pos : List Nat)                  -- about to call the reap function on the head
  | nest (id : Nat) (l : Nat) (c : Nat) (rest : List Node) (pos : List Nat)  -- inside func(id), at nni_reap(child)
  | relock (pos : List Nat)                                   -- batch finished, at nni_mtx_lock (reaped = true)
  | asleep (woken : Bool)                                     -- nni_cv_wait(&reap_work_cv)
  | fin                                                       -- returned (reap_exit seen)
  deriving Repr, DecidableEq, Inhabited

structure RList where
  nodes : List Node := []       -- rl_nodes, most recently pushed first
  inited : Bool := false
  deriving Repr, DecidableEq, Inhabited

structure State where
  lists : List RList            -- all nni_reap_list objects of the program, by index
  order : List Nat := []        -- the global reap_list (indices, head first)
  empty : Bool := false         -- reap_empty (static, zero-initialised)
  exit : Bool := false          -- reap_exit
  worker : Worker := .top
  clients : List Client
  res : List (List Bool) := []  -- per client: results of its nni_reap_sys_drain calls
  -- ghost
  subm : List Nat := []         -- ids whose nni_reap section has run
  done : List Nat := []         -- ids whose reap function has been entered
  fin : List Nat := []          -- ids whose reap function has returned
  deriving Repr, DecidableEq, Inhabited

def init (nl : Nat) (progs : List (List Op)) : State :=
  { lists := List.replicate nl {}, clients := progs.map .ready, res := progs.map fun _ => [] }

inductive Tid where
  | w
  | c (i : Nat)
  deriving Repr, DecidableEq, Inhabited

/-! ### the critical sections -/

def wakeWorker : Worker → Worker
  | .asleep _ => .asleep true
  | w => w

def wakeDrainer : Client → Client
  | .drainSleep _ p => .drainSleep true p
  | c => c

/-- body of nni_reap under the mutex -/
def reapBody (s : State) (l : Nat) (n : Node) : State :=
  match s.lists[l]? with
  | none => s                                     -- no such list: the call does not exist (programs are well-formed)
  | some rl =>
    { s with
      lists := s.lists.set l { nodes := n :: rl.nodes, inited := true }
      order := if rl.inited then s.order else l :: s.order
      empty := false
      subm := s.subm ++ [n.id]
      worker := wakeWorker s.worker }

/-- the scan of one pass from `pos`: the first list with nodes -/
def findBatch (lists : List RList) : List Nat → Option (Nat × List Node × List Nat)
  | [] => none
  | l :: pos =>
    match lists[l]? with
    | some rl => if rl.nodes.isEmpty then findBatch lists pos else some (l, rl.nodes, pos)
    | none => findBatch lists pos

def clearList (lists : List RList) (l : Nat) : List RList :=
  match lists[l]? with
  | some rl => lists.set l { rl with nodes := [] }
  | none => lists

/-- end of a pass that reaped nothing -/
def passEmpty (s : State) : State :=
  { s with empty := true, clients := s.clients.map wakeDrainer,
           worker := if s.exit then .fin else .asleep false }

/-- the worker's critical section starting at `pos` with the given `reaped` flag -/
def scan (s : State) (pos : List Nat) (reaped : Bool) : State :=
  match findBatch s.lists pos with
  | some (l, b, rest) => { s with lists := clearList s.lists l, worker := .run b rest }
  | none =>
    if reaped then
      match findBatch s.lists s.order with
      | some (l, b, rest) => { s with lists := clearList s.lists l, worker := .run b rest }
      | none => passEmpty s
    else passEmpty s

def afterNode (rest : List Node) (pos : List Nat) : Worker :=
  if rest.isEmpty then .relock pos else .run rest pos

def workerStep (s : State) : State :=
  match s.worker with
  | .top => scan s s.order false
  | .asleep true => scan s s.order false
  | .asleep false => s
  | .fin => s
  | .relock pos => scan s pos true
  | .run [] pos => { s with worker := .relock pos }             -- not reachable (batches are non-empty)
  | .run (n :: rest) pos =>
    match n.child with
    | none => { s with done := s.done ++ [n.id], fin := s.fin ++ [n.id], worker := afterNode rest pos }
    | some (l, c) => { s with done := s.done ++ [n.id], worker := .nest n.id l c rest pos }
  | .nest id l c rest pos =>
    let s1 := reapBody { s with worker := afterNode rest pos } l { id := c }
    { s1 with fin := s1.fin ++ [id] }

def pushRes (res : List (List Bool)) (i : Nat) (b : Bool) : List (List Bool) :=
  res.modify i (· ++ [b])

def clientStep (s : State) (i : Nat) : State :=
  match s.clients[i]? with
  | none => s
  | some (.ready []) => s
  | some (.ready (.reap l n :: p)) =>
    let s1 := reapBody s l n
    { s1 with clients := s1.clients.set i (.ready p) }
  | some (.ready (.drain :: p)) =>
    if s.empty then { s with clients := s.clients.set i (.ready p), res := pushRes s.res i false }
    else { s with clients := s.clients.set i (.drainSleep false p) }
  | some (.ready (.fini :: p)) =>
    { s with exit := true, worker := wakeWorker s.worker, clients := s.clients.set i (.joining p) }
  | some (.drainSleep false _) => s
  | some (.drainSleep true p) =>
    if s.empty then { s with clients := s.clients.set i (.ready p), res := pushRes s.res i true }
    else { s with clients := s.clients.set i (.drainSleep false p) }
  | some (.joining p) =>
    if s.worker = .fin then { s with clients := s.clients.set i (.ready p) } else s

def step (s : State) : Tid → State
  | .w => workerStep s
  | .c i => clientStep s i

def run (s : State) (sched : List Tid) : State := sched.foldl step s

/-! ### enabledness and the caller contract -/

def workerEnabled : Worker → Bool
  | .asleep false => false
  | .fin => false
  | _ => true

def clientEnabled (w : Worker) : Client → Bool
  | .ready [] => false
  | .ready _ => true
  | .drainSleep wk _ => wk
  | .joining _ => w = .fin

def enabled (s : State) : Tid → Bool
  | .w => workerEnabled s.worker
  | .c i => match s.clients[i]? with | some c => clientEnabled s.worker c | none => false

def Client.finished : Client → Bool
  | .ready [] => true
  | _ => false

/-- K2 (nni_reap_sys_fini is the last thing that happens, core/init.c): a client starts nni_reap_sys_fini only as
    its last call and only when every other client has returned from all of its calls -/
def allowed (s : State) : Tid → Bool
  | .w => true
  | .c i =>
    match s.clients[i]? with
    | some (.ready (.fini :: p)) =>
      p.isEmpty && (List.range s.clients.length).all fun j => j == i || (s.clients[j]?.map Client.finished).getD true
    | _ => true

def respects : State → List Tid → Bool
  | _, [] => true
  | s, t :: r => allowed s t && respects (step s t) r

/-! ### ghost views -/

def nodeIds (ns : List Node) : List Nat := ns.map (·.id)

def queuedIds (s : State) : List Nat := s.lists.flatMap fun rl => nodeIds rl.nodes

def Worker.batchIds : Worker → List Nat
  | .run b _ => nodeIds b
  | .nest _ _ _ rest _ => nodeIds rest
  | _ => []

/-- submitted, reap function not yet entered -/
def pendingIds (s : State) : List Nat := queuedIds s ++ s.worker.batchIds

def Worker.inFunc : Worker → List Nat
  | .nest id _ _ _ _ => [id]
  | _ => []

def Worker.idle : Worker → Bool
  | .top => true
  | .asleep _ => true
  | .fin => true
  | _ => false

def Worker.next : Worker → String
  | .top => "lock"
  | .run _ _ => "cb"
  | .nest _ _ _ _ _ => "lock"
  | .relock _ => "lock"
  | .asleep false => "wait:work"
  | .asleep true => "lock"
  | .fin => "exit"

def Client.next : Client → String
  | .ready [] => "end"
  | .ready _ => "lock"
  | .drainSleep false _ => "wait:empty"
  | .drainSleep true _ => "lock"
  | .joining _ => "join"

end Nng.Reap
