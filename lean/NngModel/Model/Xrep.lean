/-
  Executable model of src/sp/protocol/reqrep0/xrep.c (raw REP) as seen through the socket
  core, with the socket-level queues (`s_uwq`, `s_urq`) and the per-pipe send queue as
  `RawMq` bounded FIFOs.

  Pipe ids: the core's `nni_pipe_id` is random; the model uses the canonical id
  `index + 1` (the check renames the real ids in headers to canonical ones, see
  vlib/props/c04rep.py).

  Non-blocking operations mirror the CURRENT code: nni_msgq_aio_get/put call
  nni_aio_start first, so with a zero timeout they fail at once whatever the queue holds
  (finding F13, property C15).
-/
import NngModel.Model.Rep
import NngModel.Model.RawMq
import NngModel.Generated.C04REP
namespace Nng.Xrep
open Nng Nng.Proto Nng.RawMq

/-- big-endian pipe id word, `nni_msg_header_append_u32(msg, nni_pipe_id(p->pipe))` -/
def idWord (p : Nat) : Bytes := beEncode 4 (p + 1)

/-- header processing of xrep0_pipe_recv_cb: pipe id first, then the hop loop shared with REP -/
def recvHeader (ttl : Nat) (p : Nat) (bytes : Bytes) : Rep.BtResult :=
  match Rep.parseBacktrace ttl bytes with
  | .ok hdr body => .ok (idWord p ++ hdr) body
  | .drop => .drop
  | .malformed => .malformed

/-- header processing of xrep0_sock_getq_cb: `none` = too short (message freed), else the
    outgoing pipe id and the header that goes on the wire -/
def sendHeader (hdr : Bytes) : Option (Nat × Bytes) :=
  if hdr.length < 4 then none else some (beDecode (hdr.take 4), hdr.drop 4)

structure Pipe where
  closed : Bool := false
  armed : Bool := false
  busy : Bool := false            -- aio_send with the transport
  sq : Mq := { cap := Nng.Generated.xrepPipeSendq }
deriving Repr, DecidableEq, Inhabited

structure State where
  opened : Bool := false
  closed : Bool := false
  ttl : Nat := Nng.Generated.xrepDefaultTtl
  uwq : Mq := { cap := Nng.Generated.sockSendqInit }
  urq : Mq := { cap := Nng.Generated.sockRecvqInit }
  pipes : List Pipe := []
  now : Nat := 0
  -- ghost
  delivered : List (Nat × WMsg) := []     -- (pipe, message handed to the application)
  wire : List (Nat × WMsg) := []
  dropped : List WMsg := []               -- replies freed by the router (short header, unknown pipe, full queue)
deriving Repr, Inhabited

def getPipe (s : State) (p : Nat) : Option Pipe := s.pipes[p]?
def setPipe (s : State) (p : Nat) (pp : Pipe) : State := { s with pipes := s.pipes.set p pp }
def livePipe (s : State) (p : Nat) : Bool := match getPipe s p with | some pp => !pp.closed | none => false

def deadlineOf (now : Nat) : Mode → Option Nat
  | .ms n => some (now + n)
  | _ => none

def aioBusy (s : State) (a : Nat) : Bool := s.urq.getq.any (·.tag == a) || s.uwq.putq.any (·.tag == a)

/-- xrep0_pipe_getq_cb: the pipe got message `m` from its send queue -/
def pipeSend (s : State) (p : Nat) (m : WMsg) : State × List Out :=
  match getPipe s p with
  | some pp => ({ setPipe s p { pp with busy := true } with wire := s.wire ++ [(p, m)] }, [.psend p m])
  | none => (s, [.other "model-invariant-broken"])

/-- xrep0_sock_getq_cb: route one message taken from the upper write queue -/
def route (s : State) (m : WMsg) : State × List Out :=
  match sendHeader m.hdr with
  | none => ({ s with dropped := s.dropped ++ [m] }, [])
  | some (id, rest) =>
    let p := id - 1
    if id == 0 || !livePipe s p then ({ s with dropped := s.dropped ++ [m] }, [])
    else
      match getPipe s p with
      | none => (s, [])
      | some pp =>
        let m' : WMsg := ⟨rest, m.body⟩
        match tryput pp.sq m' with
        | none => ({ s with dropped := s.dropped ++ [m] }, [])
        | some (sq, some _) => pipeSend (setPipe s p { pp with sq := sq }) p m'
        | some (sq, none) => (setPipe s p { pp with sq := sq }, [])

/-- nni_pipe_close: xrep0_pipe_close (aios closed, send queue closed, id removed) and transport close -/
def closePipe (s : State) (p : Nat) : State × List Out :=
  match getPipe s p with
  | none => (s, [])
  | some pp =>
    if pp.closed then (s, []) else
    let s := setPipe s p { pp with closed := true, armed := false, sq := RawMq.close pp.sq }
    -- aio_putq may be parked on the upper read queue
    let s := { s with urq := (cancelPut s.urq p).1 }
    (s, [.pclosed p])

/-- completion of an upper-read-queue transfer -/
def urqEvent (s : State) (e : MqEv) : State × List Out :=
  match e with
  | .handed w g =>
    -- pipe w.tag's putq aio done: re-arm; reader g.tag gets the message
    let s := match getPipe s w.tag with
      | some pp => setPipe s w.tag { pp with armed := true }
      | none => s
    ({ s with delivered := s.delivered ++ [(w.tag, w.msg)] }, [.done g.tag 0 (some w.msg) false, .parm w.tag])
  | .queued w =>
    let s := match getPipe s w.tag with
      | some pp => setPipe s w.tag { pp with armed := true }
      | none => s
    (s, [.parm w.tag])
  | .got g m => ({ s with delivered := s.delivered ++ [(beDecode (m.hdr.take 4) - 1, m)] }, [.done g.tag 0 (some m) false])

def applyEvents (s : State) (es : List MqEv) (f : State → MqEv → State × List Out) : State × List Out :=
  es.foldl (fun (acc : State × List Out) e =>
    let (s', o) := f acc.1 e
    (s', acc.2 ++ o)) (s, [])

/-- xrep0_pipe_recv_cb with a message -/
def pipeRecv (s : State) (p : Nat) (bytes : Bytes) : State × List Out :=
  match getPipe s p with
  | none => (s, [])
  | some pp =>
    let s := setPipe s p { pp with armed := false }
    match recvHeader s.ttl p bytes with
    | .drop => (setPipe s p { pp with armed := true }, [.parm p])
    | .malformed => closePipe s p
    | .ok hdr body =>
      let (q, es) := aioPut s.urq ⟨p, ⟨hdr, body⟩, none⟩
      applyEvents { s with urq := q } es urqEvent

def failAio (s : State) (a : Nat) (rv : Nat) : State × List Out :=
  match (cancelGet s.urq a).2 with
  | some _ => ({ s with urq := (cancelGet s.urq a).1 }, [.done a rv none false])
  | none =>
    match (cancelPut s.uwq a).2 with
    | some _ => ({ s with uwq := (cancelPut s.uwq a).1 }, [.done a rv none true])
    | none => (s, [])

def expire (s : State) : State × List Out :=
  let due := s.urq.getq.filter fun g => match g.deadline with | some d => d < s.now | none => false
  due.foldl (fun (acc : State × List Out) g =>
    let (s', o) := failAio acc.1 g.tag Err.etimedout
    (s', acc.2 ++ o)) (s, [])

def step (s : State) (ev : Ev) : State × List Out :=
  if !s.opened then
    match ev with
    | .openSock _ _ =>
      -- xrep0_sock_open: start reading the upper write queue
      ({ s with opened := true, uwq := (aioGet s.uwq ⟨0, none⟩).1 }, [.rv 0])
    | .advance ms => ({ s with now := s.now + ms }, [])
    | _ => (s, [.other "nosock"])
  else if s.closed then
    match ev with
    | .advance ms => ({ s with now := s.now + ms }, [])
    | _ => (s, [.other "nosock"])
  else
  match ev with
  | .openSock _ _ => (s, [.other "bad-op"])
  | .pipeAdd peer =>
    let id := s.pipes.length
    if peer != Rep.peerReq then
      ({ s with pipes := s.pipes ++ [{ closed := true }] }, [.pipe id, .pclosed id])
    else
      -- xrep0_pipe_start: wait on the pipe's send queue, post a receive
      let pp : Pipe := { armed := true }
      ({ s with pipes := s.pipes ++ [{ pp with sq := (aioGet pp.sq ⟨id, none⟩).1 }] }, [.pipe id, .parm id])
  | .pipeDrop p =>
    if livePipe s p then let (s, o) := closePipe s p; (s, [.rv 0] ++ o) else (s, [.rv (-1)])
  | .sendDone p rv =>
    match getPipe s p with
    | none => (s, [.rv (-1)])
    | some pp =>
      if pp.closed || !pp.busy then (s, [.rv (-1)])
      else if rv != 0 then
        let (s, o) := closePipe s p
        (s, [.rv 0] ++ o)
      else
        -- xrep0_pipe_send_cb: look for the next message on the pipe's send queue
        let (sq, es) := aioGet pp.sq ⟨p, none⟩
        let s := setPipe s p { pp with busy := false, sq := sq }
        match es with
        | [.got _ m] => let (s, o) := pipeSend s p m; (s, [.rv 0] ++ o)
        | _ => (s, [.rv 0])
  | .recvDone p r =>
    match getPipe s p with
    | none => (s, [.rv (-1)])
    | some pp =>
      if pp.closed || !pp.armed then (s, [.rv (-1)])
      else
        match r with
        | .error _ => let (s, o) := closePipe s p; (s, [.rv 0] ++ o)
        | .ok b => let (s, o) := pipeRecv s p b; (s, [.rv 0] ++ o)
  | .send c a m mode =>
    if aioBusy s a then (s, [.other "aio-busy"]) else
    match c with
    | some _ => (s, [.done a Err.eclosed none true])      -- raw sockets have no contexts
    | none =>
      -- nni_msgq_aio_put (fixed): complete from the queue first; only an operation that has to wait is
      -- started, and with a zero timeout nni_aio_start fails then (EAGAIN via nng_sendmsg / ETIMEDOUT)
      let (q0, _) := aioPut s.uwq ⟨a, m, deadlineOf s.now mode⟩
      if (mode == .nb || mode == .ms 0) && q0.putq.any (·.tag == a) then
        (s, [.done a (if mode == .nb then Err.eagain else Err.etimedout) none true])
      else
        let (q, es) := aioPut s.uwq ⟨a, m, deadlineOf s.now mode⟩
        let s := { s with uwq := q }
        match es with
        | [.handed w _] =>
          -- the socket's getq aio got it: route, then wait for the next one
          let (s, o) := route s w.msg
          ({ s with uwq := (aioGet s.uwq ⟨0, none⟩).1 }, [.done a 0 none false] ++ o)
        | [] => (s, [])
        | _ => (s, [.other "model-invariant-broken"])
  | .recv c a mode =>
    if aioBusy s a then (s, [.other "aio-busy"]) else
    match c with
    | some _ => (s, [.done a Err.eclosed none false])
    | none =>
      let (q0, _) := aioGet s.urq ⟨a, deadlineOf s.now mode⟩
      if (mode == .nb || mode == .ms 0) && q0.getq.any (·.tag == a) then
        (s, [.done a (if mode == .nb then Err.eagain else Err.etimedout) none false])
      else
        let (q, es) := aioGet s.urq ⟨a, deadlineOf s.now mode⟩
        applyEvents { s with urq := q } es urqEvent
  | .cancel a => failAio s a Err.ecanceled
  | .abort a rv => failAio s a rv
  | .advance ms => expire { s with now := s.now + ms }
  | .ctxOpen _ => (s, [.rv Err.enotsup])
  | .ctxClose _ => (s, [.rv (-1)])
  | .setopt none "ttl-max" "int" v =>
    if v < (Nng.Generated.repTtlMin : Int) || v > (Rep.ttlMax : Int) then (s, [.rv Err.einval])
    else ({ s with ttl := v.toNat }, [.rv 0])
  | .setopt _ _ _ _ => (s, [.other "unmodelled-option"])
  | .getopt none "ttl-max" "int" => (s, [.rv2 0 s.ttl])
  | .getopt _ _ _ => (s, [.other "unmodelled-option"])
  | .poll => (s, [.poll (some (recvable s.urq)) (some (sendable s.uwq))])
  | .sub _ _ => (s, [.other "bad-op"])
  | .unsub _ _ => (s, [.other "bad-op"])
  | .close =>
    -- nni_msgq_close on both upper queues fails the parked user aios; every pipe closes
    let o1 := s.urq.getq.map fun g => Out.done g.tag Err.eclosed none false
    let o2 := (s.uwq.putq.map fun w => Out.done w.tag Err.eclosed none true)
    let s := { s with urq := RawMq.close s.urq, uwq := RawMq.close s.uwq }
    let (s, o3) := (List.range s.pipes.length).foldl (fun (acc : State × List Out) p =>
      let (s', o) := closePipe acc.1 p
      (s', acc.2 ++ o)) (s, [])
    ({ s with closed := true }, o1 ++ o2 ++ o3)

def run (s : State) : List Ev → State × List (List Out)
  | [] => (s, [])
  | e :: es =>
    let (s', o) := step s e
    let (s'', os) := run s' es
    (s'', o :: os)

end Nng.Xrep
