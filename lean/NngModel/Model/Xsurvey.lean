/-
  Executable model of src/sp/protocol/survey0/xsurvey.c (raw SURVEYOR): `Model/RawSurv.lean`
  with the two functions that are xsurvey's own:

    xsurv0_recv_cb        header words up to the one with the high bit are moved from the body to
                          the header (`Bt.xsurveyRecv`, C13: no hop limit; fewer than four bytes
                          left, or a full header buffer, closes the pipe)
    xsurv0_sock_getq_cb   a clone of the message, header untouched (`Bt.xsurveySend`), is offered
                          to the send queue (depth `xsvPipeSendq`) of every pipe on `s->pipes`, in
                          list order; a full queue frees that pipe's clone
-/
import NngModel.Model.RawSurv
namespace Nng.Xsurvey
open Nng Nng.Proto Nng.RawMq Nng.RawSurv

/-- xsurv0_recv_cb -/
def recvFn (_ttl _pipe : Nat) (bytes : Bytes) : Bt.Outcome := Bt.xsurveyRecv bytes

/-- NNI_LIST_FOREACH (&s->pipes, p) { nni_msg_clone(msg); if (nni_msgq_tryput(p->sendq, msg) != 0) nni_msg_free(msg); } -/
def fanout (m : WMsg) : Nat → List Pipe → List Pipe × List Out
  | _, [] => ([], [])
  | i, pp :: rest =>
    let (pp', o) := offer i pp m
    let (r, os) := fanout m (i + 1) rest
    (pp' :: r, o ++ os)

def route (pipes : List Pipe) (m : WMsg) : List Pipe × List Out := fanout m 0 pipes

def kind : Kind :=
  { name := "surveyor", peer := Nng.Generated.xsvProtoPeer, sqCap := Nng.Generated.xsvPipeSendq,
    ttlInit := Nng.Generated.xsvTtlInit, ttlMin := Nng.Generated.xsvTtlMin, recvFn := recvFn, route := route }

abbrev State := RawSurv.State
def step : State → Ev → State × List Out := RawSurv.step kind
def run : State → List Ev → State × List (List Out) := RawSurv.run kind

end Nng.Xsurvey
