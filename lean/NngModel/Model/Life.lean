/-
  Model of the endpoint / pipe / socket lifecycle of nng's core (socket.c, pipe.c, dialer.c,
  listener.c) as seen through the ops of harness/s_life.c at quiescent points.

  One `step` per harness op.  The only thing the model does not predict is the value of the
  randomised redial delay (`nni_random() % back_off`): whether a dialer's armed timer fires in a
  step is an INPUT (`orc`, the endpoints seen arming in the implementation's trace), which the
  model constrains: a timer armed at `t0` with back-off `b` may fire at any quiescent point and
  must have fired once `now + 1 ≥ t0 + max b 1` (delay ≤ b - 1).  All theorems quantify over all
  oracles.

  Mirrors, function by function:
    nni_pipe_run_cb        → `runCb`        (p_last_event guards, s_want_evs)
    pipe_reap + nni_pipe_remove → `reapOne`, `pipeRemoved`, `killPipe`
    dialer_timer_start_locked → `timerStart` (back-off doubling, cap, max = 0 ⇒ no growth)
    dialer_start_pipe / listener_start_pipe → `startPipe`
    dialer_connect_cb / listener_accept_cb → `connDialer`, `connListener`
    nni_dialer_close / nni_listener_close / sock_shutdown+sock_close → `closeEp`, `closeSock`
    nni_ctx_open / nni_ctx_close → `ctxOpen`, `ctxClose`
  Ghost fields (never read by the model's control flow) record histories for the theorems.
-/
import NngModel.Proto.LifeBase
import NngModel.Generated.C14
namespace Nng.LifeModel
open Nng.Life Nng.Generated

structure Pipe where
  idx : Nat
  ep : Nat
  sock : Nat
  last : Nat := 0            -- p_last_event: 0 NONE, 1 ADD_PRE, 2 ADD_POST, 3 REM_POST
  closed : Bool := false     -- p_closed
  started : Bool := false    -- the protocol's pipe_start succeeded (it armed a receive)
  reaped : Bool := false     -- pipe_reap ran: id dropped, off the socket / endpoint lists
  evs : List PEv := []       -- ghost: notifications delivered to the application, in order
  preDue : Bool := false     -- ghost: an ADD_PRE callback was registered when ADD_PRE ran
  cip : Bool := false        -- ghost: the application closed it inside ADD_PRE
  remReg : Bool := false     -- ghost: a REM_POST callback was registered when it was reaped
deriving Repr, Inhabited

structure Ep where
  idx : Nat
  dialer : Bool
  sock : Nat
  closed : Bool := false
  inir : Int := 0            -- d_inirtime
  maxr : Int := 0            -- d_maxrtime
  curr : Int := 0            -- d_currtime
  dPipe : Option Nat := none -- d_pipe
  armed : Bool := false      -- the connect / accept aio is parked in the transport
  userAio : Bool := false    -- a blocking nng_dialer_start waits for the first result
  timer : Option (Nat × Int) := none   -- redial timer: armed at, back-off
  cool : Option Nat := none  -- listener cool-down: accept again at
  cap : Int := 0             -- ghost: largest reconnect time ever configured
  background : Bool := false -- ghost: redials by itself (non-blocking start, or connected once)
  stopped : Bool := false    -- ghost: got a close-type connect / accept result
deriving Repr, Inhabited

structure Sock where
  proto : String := ""
  opened : Bool := false
  closed : Bool := false
  mask : Nat := 0            -- which s_pipe_cbs are set: 1 ADD_PRE, 2 ADD_POST, 4 REM_POST
  cip : Bool := false        -- the harness's ADD_PRE callback closes the pipe
  reconn : Int := lifeReconnMinDefault
  reconnmax : Int := lifeReconnMaxDefault
  pairPipe : Option Nat := none   -- pair0's s->p
deriving Repr, Inhabited

structure Ctx where
  id : Nat
  sock : Nat
  closed : Bool := false
deriving Repr, Inhabited

structure PAio where
  tok : Nat                  -- ghost: submission number
  aio : Nat
  tgt : Tgt
deriving Repr, Inhabited

structure State where
  now : Nat := 0
  socks : Nat → Sock := fun _ => {}
  eps : List Ep := []
  pipes : List Pipe := []
  ctxs : List Ctx := []
  pend : List PAio := []     -- operations parked in the protocol
  nsub : Nat := 0            -- ghost: submissions so far
  compl : List (Nat × Nat × Nat) := []   -- ghost: completions (token, aio, result)
  unmodelled : Bool := false
deriving Inhabited

abbrev R := State × List LOut

def evBit : PEv → Nat
  | .pre => 1 | .post => 2 | .rem => 4

/-- nni_pipe_run_cb: returns the pipe and whether the application's callback ran -/
def runCb (mask : Nat) (ev : PEv) (p : Pipe) : Pipe × Bool :=
  if mask == 0 then (p, false)                              -- !s_want_evs
  else if p.last == 0 && ev != .pre then (p, false)         -- never got an event: don't start now
  else if p.last ≥ ev.rank then (p, false)                  -- don't go backwards
  else
    let p := { p with last := ev.rank }
    if mask &&& evBit ev != 0 then ({ p with evs := p.evs ++ [ev] }, true) else (p, false)

/-- dialer_timer_start_locked (with the overflow-free doubling) -/
def timerStart (now : Nat) (e : Ep) : Ep :=
  let backoff := e.curr
  let curr' := if e.maxr > 0 then (if e.curr > e.maxr / 2 then e.maxr else e.curr * 2) else e.curr
  -- nni_sleep_aio on the stopped aio of a closed dialer does nothing
  { e with curr := curr', timer := if e.closed then none else some (now, backoff) }

/-- nni_pipe_remove, endpoint side: the dialer whose pipe this was dials again -/
def pipeRemoved (now : Nat) (i : Nat) (e : Ep) : Ep :=
  if e.dialer && e.dPipe == some i then timerStart now { e with dPipe := none } else e

/-- pipe_reap, pipe side -/
def reapOne (mask : Nat) (p : Pipe) : Pipe × List LOut :=
  let r := runCb mask .rem { p with closed := true }
  ({ r.1 with reaped := true, remReg := mask &&& 4 != 0 },
   [.pclosed p.idx] ++ (if r.2 then [.pev p.idx .rem] else []))

def setSock (st : State) (s : Nat) (f : Sock → Sock) : State :=
  { st with socks := fun i => if i = s then f (st.socks i) else st.socks i }

/-- nni_pipe_close of pipe `i`, followed (the library runs to quiescence) by its reaping -/
def killPipe (st : State) (i : Nat) : R :=
  match st.pipes.find? (fun p => p.idx == i && !p.reaped) with
  | none => (st, [])
  | some p =>
    let r := reapOne (st.socks p.sock).mask p
    let st := { st with pipes := st.pipes.map fun q => if q.idx == i then r.1 else q,
                        eps := st.eps.map fun e => if e.idx == p.ep then pipeRemoved st.now i e else e }
    let st := setSock st p.sock fun k => if k.pairPipe == some i then { k with pairPipe := none } else k
    (st, r.2)

def killPipes (st : State) (is : List Nat) : R :=
  is.foldl (fun (acc : R) i => let r := killPipe acc.1 i; (r.1, acc.2 ++ r.2)) (st, [])

/-- would the protocol's pipe_start accept a pipe from this peer? -/
def protoAccepts (k : Sock) (peer : Nat) : Bool :=
  if k.proto == "pair0" then peer == lifeProtoPair0 && k.pairPipe.isNone
  else if k.proto == "pull" then peer == lifeProtoPush0
  else if k.proto == "rep" then peer == lifeProtoReq0
  else false

/-- dialer_start_pipe / listener_start_pipe from the ADD_PRE callback on -/
def startPipe (st : State) (p : Pipe) (peer : Nat) : R :=
  let k := st.socks p.sock
  let r := runCb k.mask .pre p
  let p1 := { r.1 with preDue := k.mask &&& 1 != 0 }
  if r.2 && k.cip then
    -- the callback called nng_pipe_close: rejected, never started
    let st := { st with pipes := st.pipes ++ [{ p1 with cip := true, closed := true }] }
    let kr := killPipe st p.idx
    (kr.1, [.pipe p.idx] ++ [.pev p.idx .pre] ++ kr.2)
  else if !protoAccepts k peer then
    let st := { st with pipes := st.pipes ++ [p1] }
    let kr := killPipe st p.idx
    (kr.1, [.pipe p.idx] ++ (if r.2 then [.pev p.idx .pre] else []) ++ kr.2)
  else
    let r2 := runCb k.mask .post { p1 with started := true }
    let st := { st with pipes := st.pipes ++ [r2.1] }
    let st := if k.proto == "pair0" then setSock st p.sock fun k => { k with pairPipe := some p.idx } else st
    (st, [.pipe p.idx] ++ (if r.2 then [.pev p.idx .pre] else []) ++ [.parm p.idx] ++
         (if r2.2 then [.pev p.idx .post] else []))

def setEp (st : State) (e : Nat) (f : Ep → Ep) : State :=
  { st with eps := st.eps.map fun x => if x.idx == e then f x else x }

def getEp (st : State) (e : Nat) : Option Ep := st.eps.find? (·.idx == e)

/-- dialer_connect_cb -/
def connDialer (st : State) (e : Ep) (r : Except Nat Nat) : R :=
  match r with
  | .ok peer =>
    let i := st.pipes.length
    -- dialer_start_pipe: d_pipe = p; d_currtime = d_inirtime
    let st := setEp st e.idx fun x => { x with armed := false, dPipe := some i, curr := x.inir, userAio := false,
                                               background := true }
    let r := startPipe st { idx := i, ep := e.idx, sock := e.sock } peer
    (r.1, r.2 ++ (if e.userAio then [.dialrv e.idx 0] else []))
  | .error rv =>
    let st := setEp st e.idx fun x => { x with armed := false, userAio := false }
    let st :=
      if lifeDialStopErrs.contains rv then setEp st e.idx fun x => { x with stopped := true }
      else if !e.userAio then setEp st e.idx (timerStart st.now)
      else st                                   -- d_started reset: the dialer is idle again
    (st, [.rv (-2)] ++ (if e.userAio then [.dialrv e.idx rv] else []))

/-- listener_accept_cb -/
def connListener (st : State) (e : Ep) (r : Except Nat Nat) : R :=
  match r with
  | .ok peer =>
    let i := st.pipes.length
    let st := setEp st e.idx fun x => { x with armed := false }
    let r := startPipe st { idx := i, ep := e.idx, sock := e.sock } peer
    (setEp r.1 e.idx fun x => { x with armed := true }, r.2 ++ [.earm e.idx])
  | .error rv =>
    if lifeAcceptRearmErrs.contains rv then (st, [.rv (-2), .earm e.idx])
    else if lifeAcceptStopErrs.contains rv then
      (setEp st e.idx fun x => { x with armed := false, stopped := true }, [.rv (-2)])
    else
      (setEp st e.idx fun x => { x with armed := false, cool := some (st.now + lifeAcceptCooldownMs) }, [.rv (-2)])

def opConnDone (st : State) (ei : Nat) (r : Except Nat Nat) : R :=
  match getEp st ei with
  | none => (st, [.rv (-1)])
  | some e =>
    if !e.armed then (st, [.rv (-1)])
    else if e.dialer then connDialer st e r else connListener st e r

def liveOf (st : State) (f : Pipe → Bool) : List Nat :=
  (st.pipes.filter fun p => f p && !p.reaped).map (·.idx)

/-- completes every parked operation selected by `f` with `rv` -/
def completeWhere (st : State) (f : PAio → Bool) (rv : Nat) : R :=
  let hit := st.pend.filter f
  ({ st with pend := st.pend.filter (fun a => !f a), compl := st.compl ++ hit.map fun a => (a.tok, a.aio, rv) },
   hit.map fun a => .done a.aio rv)

/-- nni_dialer_close / nni_listener_close (the endpoint part; also used by socket close) -/
def closeEp (st : State) (e : Ep) : R :=
  let st := setEp st e.idx fun x => { x with closed := true, armed := false, userAio := false, timer := none, cool := none }
  let r := killPipes st (liveOf st fun p => p.ep == e.idx)
  (r.1, (if e.userAio then [.dialrv e.idx lifeEclosed] else []) ++ r.2)

def opCloseEp (st : State) (ei : Nat) (wantDialer : Bool) : R :=
  match getEp st ei with
  | none => (st, [.rv (-1)])
  | some e =>
    if e.dialer != wantDialer then (st, [.rv (-1)])
    else if e.closed then (st, [.rv lifeEnoent])
    else let r := closeEp st e; (r.1, [.rv 0] ++ r.2)

def closeEps (st : State) (es : List Ep) : R :=
  es.foldl (fun (acc : R) e => let r := closeEp acc.1 e; (r.1, acc.2 ++ r.2)) (st, [])

def tgtSock (st : State) : Tgt → Option Nat
  | .sock s => some s
  | .ctx c => (st.ctxs.find? (·.id == c)).map (·.sock)

def probeSock (imm : Bool) (s : Nat) : LOut := .probe imm .sock s [lifeEclosed, lifeEclosed, lifeEclosed, lifeEclosed]
def probeCtx (imm : Bool) (c : Nat) : LOut := .probe imm .ctx c [lifeEclosed, lifeEclosed]
def probeEp (imm : Bool) (e : Nat) : LOut := .probe imm .ep e [lifeEnoent, lifeEnoent, lifeEnoent]
def probePipe (imm : Bool) (p : Nat) : LOut := .probe imm .pipe p [lifeEnoent, lifeEnoent]

/-- the probes of socket `s` and of everything derived from it -/
def probesOf (st : State) (s : Nat) : List LOut :=
  [probeSock true s] ++ ((st.ctxs.filter fun c => c.sock == s && c.closed).map fun c => probeCtx true c.id) ++
  ((st.eps.filter fun e => e.sock == s && e.closed).map fun e => probeEp true e.idx) ++
  ((st.pipes.filter fun p => p.sock == s).map fun p => probePipe true p.idx)

/-- sock_shutdown + sock_close -/
def opClose (st : State) (s : Nat) : R :=
  let k := st.socks s
  if !k.opened || k.closed then
    (st, [.rv lifeEclosed] ++ (if k.opened then probesOf st s else []))
  else
    let r1 := closeEps st (st.eps.filter fun e => e.sock == s && !e.closed)
    let r2 := killPipes r1.1 (liveOf r1.1 fun p => p.sock == s)
    let st := { r2.1 with ctxs := r2.1.ctxs.map fun c => if c.sock == s then { c with closed := true } else c }
    let st := setSock st s fun k => { k with closed := true }
    let r3 := completeWhere st (fun a => tgtSock st a.tgt == some s) lifeEclosed
    (r3.1, r1.2 ++ r2.2 ++ r3.2 ++ [.rv 0] ++ probesOf r3.1 s)

def hasCtx (proto : String) : Bool := proto == "rep"

def opCtxOpen (st : State) (s c : Nat) : R :=
  let k := st.socks s
  if !k.opened || k.closed then (st, [.rv lifeEclosed])
  else if !hasCtx k.proto then (st, [.rv lifeEnotsup])
  else if st.ctxs.any (·.id == c) then ({ st with unmodelled := true }, [.unmodelled])   -- the harness slot is reused
  else ({ st with ctxs := (st.ctxs.filter (·.id != c)) ++ [{ id := c, sock := s }] }, [.rv 0])

def opCtxClose (st : State) (c : Nat) : R :=
  match st.ctxs.find? (·.id == c) with
  | none => (st, [.rv (-1)])
  | some x =>
    if x.closed then (st, [.rv lifeEclosed])
    else
      let st := { st with ctxs := st.ctxs.map fun y => if y.id == c then { y with closed := true } else y }
      let r := completeWhere st (fun a => a.tgt == .ctx c) lifeEclosed
      (r.1, r.2 ++ [.rv 0])

/-- immediate completion of a submission -/
def finishNow (st : State) (a rv : Nat) : R :=
  ({ st with nsub := st.nsub + 1, compl := st.compl ++ [(st.nsub, a, rv)] }, [.done a rv])

def park (st : State) (a : Nat) (t : Tgt) : R :=
  ({ st with nsub := st.nsub + 1, pend := st.pend ++ [{ tok := st.nsub, aio := a, tgt := t }] }, [])

def opRecv (st : State) (t : Tgt) (a : Nat) : R :=
  if st.pend.any (·.aio == a) then (st, [.other "aio-busy"])
  else
    let live : Option Sock := match t with
      | .sock s => let k := st.socks s; if k.opened && !k.closed then some k else none
      | .ctx c => match st.ctxs.find? (·.id == c) with
        | some x => if x.closed then none else some (st.socks x.sock)
        | none => none
    match live with
    | none => finishNow st a lifeEclosed
    | some k =>
      if k.proto == "rep" then
        -- one receive per context (the socket's own receive uses its default context)
        if st.pend.any (·.tgt == t) then finishNow st a lifeEstate else park st a t
      else if k.proto == "pair0" || k.proto == "pull" then park st a t
      else ({ st with unmodelled := true }, [.unmodelled])

def opSend (st : State) (t : Tgt) (a : Nat) : R :=
  if st.pend.any (·.aio == a) then (st, [.other "aio-busy"])
  else
    let live : Option Sock := match t with
      | .sock s => let k := st.socks s; if k.opened && !k.closed then some k else none
      | .ctx c => match st.ctxs.find? (·.id == c) with
        | some x => if x.closed then none else some (st.socks x.sock)
        | none => none
    match live with
    | none => finishNow st a lifeEclosed
    | some k =>
      if k.proto == "rep" then finishNow st a lifeEstate        -- no request to reply to
      else if k.proto == "pull" then finishNow st a lifeEnotsup
      else ({ st with unmodelled := true }, [.unmodelled])

def newEpIdx (st : State) : Nat := st.eps.length

def opDial (st : State) (s : Nat) (nb : Bool) : R :=
  let k := st.socks s
  if !k.opened || k.closed then (st, [.ep (-1) lifeEclosed (some (-2)) (some (-2))])
  else
    let e : Ep := { idx := newEpIdx st, dialer := true, sock := s, inir := k.reconn, maxr := k.reconnmax, curr := k.reconn,
                    armed := true, userAio := !nb, cap := max k.reconn k.reconnmax, background := nb }
    ({ st with eps := st.eps ++ [e] }, [.ep e.idx 0 (some e.inir) (some e.maxr), .earm e.idx])

def opListen (st : State) (s : Nat) : R :=
  let k := st.socks s
  if !k.opened || k.closed then (st, [.ep (-1) lifeEclosed none none])
  else
    let e : Ep := { idx := newEpIdx st, dialer := false, sock := s, armed := true }
    ({ st with eps := st.eps ++ [e] }, [.ep e.idx 0 none none, .earm e.idx])

def opSetoptEp (st : State) (ei : Nat) (name : String) (v : Int) : R :=
  match getEp st ei with
  | none => (st, [.rv (-1)])
  | some e =>
    if e.closed then (st, [.rv lifeEnoent])
    else if !e.dialer then (st, [.rv lifeEnotsup])
    else if v < -1 then (st, [.rv lifeEinval])
    else if name == "reconnect-time-max" then
      (setEp st ei fun x => { x with maxr := v, cap := max x.cap v }, [.rv 0])
    else if name == "reconnect-time-min" then
      (setEp st ei fun x => { x with inir := v, curr := v, cap := max x.cap v }, [.rv 0])
    else ({ st with unmodelled := true }, [.unmodelled])

def opSetoptSock (st : State) (s : Nat) (name : String) (v : Int) : R :=
  let k := st.socks s
  if !k.opened || k.closed then (st, [.rv lifeEclosed])
  else if v < -1 then (st, [.rv lifeEinval])
  else if name == "reconnect-time-max" then (setSock st s fun k => { k with reconnmax := v }, [.rv 0])
  else if name == "reconnect-time-min" then (setSock st s fun k => { k with reconn := v }, [.rv 0])
  else ({ st with unmodelled := true }, [.unmodelled])

def opPipeClose (st : State) (p : Nat) : R :=
  match st.pipes.find? (·.idx == p) with
  | none => (st, [.rv (-1)])
  | some q =>
    if q.reaped then (st, [.rv lifeEnoent])
    else let r := killPipe st p; (r.1, [.rv 0] ++ r.2)

def opPipeDrop (st : State) (p : Nat) : R :=
  match st.pipes.find? (·.idx == p) with
  | none => (st, [.rv (-1)])
  | some q =>
    if q.reaped then (st, [.rv (-1)])
    else let r := killPipe st p; (r.1, [.rv 0] ++ r.2)

def opProbe (st : State) : R :=
  (st,
   ((List.range 2).filter fun s => (st.socks s).opened && (st.socks s).closed).map (probeSock false) ++
   ((st.ctxs.filter (·.closed)).map fun c => probeCtx false c.id) ++
   ((st.eps.filter (·.closed)).map fun e => probeEp false e.idx) ++
   ((st.pipes.filter (·.reaped)).map fun p => probePipe false p.idx))

/-- must the dialer's redial timer fire now?  (`seen`: the trace shows it firing) -/
def timerFires (now : Nat) (seen : Bool) (e : Ep) : Bool :=
  match e.timer with
  | some (t0, b) => seen || decide ((now : Int) + 1 ≥ t0 + max b 1)
  | none => false

/-- end of every step: due timers fire (dialer_timer_cb / listener_timer_cb re-arm) -/
def fireOne (now : Nat) (orc : List Nat) (e : Ep) : Ep :=
  if e.dialer then
    if timerFires now (orc.contains e.idx) e then { e with timer := none, armed := true } else e
  else
    match e.cool with
    | some dl => if now ≥ dl then { e with cool := none, armed := true } else e
    | none => e

def fireTimers (orc : List Nat) (st : State) : R :=
  let eps' := st.eps.map (fireOne st.now orc)
  ({ st with eps := eps' },
   (st.eps.filter fun e => (fireOne st.now orc e).armed && !e.armed).map fun e => .earm e.idx)

def opOpen (st : State) (s : Nat) (proto : String) : R :=
  if proto == "pair0" || proto == "pull" || proto == "rep" then
    (setSock st s fun _ => { proto := proto, opened := true }, [.rv 0])
  else ({ st with unmodelled := true }, [.unmodelled])

def opNotify (st : State) (s m : Nat) (c : Bool) : R :=
  let k := st.socks s
  if !k.opened || k.closed then (st, [.rv lifeEclosed])
  else (setSock st s fun k => { k with mask := m, cip := c }, [.rv 0])

def apply (st : State) (op : LOp) : R :=
  match op with
  | .openSock s p => opOpen st s p
  | .notify s m c => opNotify st s m c
  | .setoptSock s n v => opSetoptSock st s n v
  | .setoptEp e n v => opSetoptEp st e n v
  | .dial s nb => opDial st s nb
  | .listen s => opListen st s
  | .connDone e r => opConnDone st e r
  | .pipeClose p => opPipeClose st p
  | .pipeDrop p => opPipeDrop st p
  | .dialerClose e => opCloseEp st e true
  | .listenerClose e => opCloseEp st e false
  | .ctxOpen s c => opCtxOpen st s c
  | .ctxClose c => opCtxClose st c
  | .send t a => opSend st t a
  | .recv t a => opRecv st t a
  | .advance ms => ({ st with now := st.now + ms }, [])
  | .close s => opClose st s
  | .probe => opProbe st
  | .close2 _ | .race .. => ({ st with unmodelled := true }, [.unmodelled])   -- judged, not modelled

/-- one harness op, then the library runs to quiescence -/
def step (st : State) (op : LOp) (orc : List Nat) : R :=
  if st.unmodelled then (st, [.unmodelled])
  else
    let r := apply st op
    let f := fireTimers orc r.1
    (f.1, r.2 ++ f.2)

def run (st : State) : List (LOp × List Nat) → State
  | [] => st
  | (op, orc) :: rest => run (step st op orc).1 rest

end Nng.LifeModel
