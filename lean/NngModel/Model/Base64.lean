/-
  Model of src/supplemental/websocket/base64.c: nni_base64_encode / nni_base64_decode with the
  bit accumulator (uint32_t v, rem), the output-length tests before every store, padding,
  and the decode table extracted from the source (`Generated.b64DecodeTable`).
  Result: (bytes stored into `out`, return value; `none` = (size_t)-1).  Core Lean only.
-/
import NngModel.Base.Bytes
import NngModel.Generated.C16
namespace Nng.Base64

def encTab (i : Nat) : UInt8 := UInt8.ofNat (Generated.b64EncodeTable.getD i 0)
def decTab (c : UInt8) : Nat := Generated.b64DecodeTable.getD c.toNat 255

structure Acc where
  v : Nat := 0        -- uint32_t
  rem : Nat := 0
  out : Bytes := []   -- stored bytes, newest first
  io : Nat := 0
  deriving Repr

/-- `while (rem >= 6) { rem -= 6; if (io >= out_len) return -1; out[io++] = encode[(v >> rem) & 63]; }` -/
def encDrain (outLen : Nat) : Nat → Acc → Option Acc
  | 0, a => some a
  | fuel + 1, a =>
    if a.rem ≥ 6 then
      let rem := a.rem - 6
      if a.io ≥ outLen then none
      else encDrain outLen fuel { a with rem := rem, out := encTab (a.v / 2 ^ rem % 64) :: a.out, io := a.io + 1 }
    else some a

def encLoop (outLen : Nat) : Bytes → Acc → Option Acc
  | [], a => some a
  | ch :: r, a =>
    match encDrain outLen 2 { a with v := (a.v * 256 + ch.toNat) % 2 ^ 32, rem := a.rem + 8 } with
    | none => none
    | some a' => encLoop outLen r a'

/-- `while (io & 3) { if (io >= out_len) return -1; out[io++] = '='; }` -/
def encPad (outLen : Nat) : Nat → Acc → Option Acc
  | 0, a => some a
  | fuel + 1, a =>
    if a.io % 4 ≠ 0 then
      if a.io ≥ outLen then none else encPad outLen fuel { a with out := 61 :: a.out, io := a.io + 1 }
    else some a

/-- nni_base64_encode: characters stored (without the NUL) and the return value -/
def encode (inp : Bytes) (outLen : Nat) : Option Bytes :=
  match encLoop outLen inp {} with
  | none => none
  | some a =>
    let a? :=
      if a.rem ≠ 0 then
        if a.io ≥ outLen then none
        else some { a with v := (a.v * 2 ^ (6 - a.rem)) % 2 ^ 32,
                           out := encTab ((a.v * 2 ^ (6 - a.rem)) % 2 ^ 32 % 64) :: a.out, io := a.io + 1 }
      else some a
    match a? with
    | none => none
    | some a =>
      match encPad outLen 3 a with
      | none => none
      | some a => if a.io ≥ outLen then none else some a.out.reverse

def isSpace (c : UInt8) : Bool := c.toNat = 32 || (9 ≤ c.toNat && c.toNat ≤ 13)

/-- the for loop of nni_base64_decode; `none` = return -1 -/
def decLoop (outLen : Nat) : Bytes → Acc → Option Acc
  | [], a => some a
  | c :: r, a =>
    if isSpace c then decLoop outLen r a
    else if c = 61 then some a
    else if decTab c = 255 then some a
    else
      let v := (a.v * 64 + decTab c) % 2 ^ 32
      let rem := a.rem + 6
      if rem ≥ 8 then
        if a.io ≥ outLen then none
        else decLoop outLen r { v := v, rem := rem - 8, out := UInt8.ofNat (v / 2 ^ (rem - 8) % 256) :: a.out, io := a.io + 1 }
      else decLoop outLen r { a with v := v, rem := rem }

/-- nni_base64_decode (the trailing `if (rem >= 8)` can never fire: rem < 8 after the loop) -/
def decode (inp : Bytes) (outLen : Nat) : Option Bytes :=
  match decLoop outLen inp {} with
  | none => none
  | some a =>
    if a.rem ≥ 8 then
      if a.io ≥ outLen then none else some ((UInt8.ofNat (a.v / 2 ^ (a.rem - 8) % 256) :: a.out).reverse)
    else some a.out.reverse

end Nng.Base64
