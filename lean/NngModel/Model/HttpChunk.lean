/-
  Model of src/supplemental/http/http_chunk.c: the chunked-transfer decoder
  nni_http_chunks_parse with chunk_ingest_char / _len / _ext / _newline / _trailer /
  _trailercr / _data, state by state, including the size_t overflow test, the maximum-size
  test and the deferred CRLF test after the chunk data.
  `parse` is the per-block function (as the C: data state consumes a block slice, all other
  states go byte by byte); `step` is the per-byte machine.  Core Lean only.
-/
import NngModel.Base.Bytes
namespace Nng.Chunk

inductive CS where
  | init | len | ext | cr | data | trlr | trlrcr | done
  deriving Repr, DecidableEq

structure Chunk where
  size : Nat
  alloc : Nat
  resid : Nat
  dataR : Bytes := []    -- bytes stored so far (alloc - resid of them), newest first
  deriving Repr

structure St where
  maxsz : Nat
  allocLimit : Nat := 2 ^ 40
  total : Nat := 0
  size : Nat := 0
  line : Nat := 0
  state : CS := .init
  chunksR : List Chunk := []   -- cl_chunks, last first
  deriving Repr

def sizeMax : Nat := 2 ^ 64 - 1
def rvOk : Nat := 0
def rvNoMem : Nat := 2
def rvAgain : Nat := 8
def rvProto : Nat := 13
def rvMsgSize : Nat := 17

/- <ctype.h> in the "C" locale -/
def isDigit (c : UInt8) : Bool := 48 ≤ c.toNat && c.toNat ≤ 57
def isUpperHex (c : UInt8) : Bool := 65 ≤ c.toNat && c.toNat ≤ 70
def isLowerHex (c : UInt8) : Bool := 97 ≤ c.toNat && c.toNat ≤ 102
def isAlnum (c : UInt8) : Bool :=
  isDigit c || (65 ≤ c.toNat && c.toNat ≤ 90) || (97 ≤ c.toNat && c.toNat ≤ 122)
def isPrint (c : UInt8) : Bool := 32 ≤ c.toNat && c.toNat ≤ 126

def CR : UInt8 := 13
def LF : UInt8 := 10

def addDigit (s : St) (digit : Nat) : St × Nat :=
  if s.size > (sizeMax - digit) / 16 then (s, rvMsgSize)
  else ({ s with size := s.size * 16 + digit }, rvOk)

def ingestLen (s : St) (c : UInt8) : St × Nat :=
  if isDigit c then addDigit s (c.toNat - 48)
  else if isUpperHex c then addDigit s (c.toNat - 65 + 10)
  else if isLowerHex c then addDigit s (c.toNat - 97 + 10)
  else if c = 59 then ({ s with state := .ext }, rvOk)
  else if c = CR then ({ s with state := .cr }, rvOk)
  else (s, rvProto)

def ingestExt (s : St) (c : UInt8) : St × Nat :=
  if c = CR then ({ s with state := .cr }, rvOk)
  else if !isPrint c then (s, rvProto)
  else (s, rvOk)

def ingestNewline (s : St) (c : UInt8) : St × Nat :=
  if c ≠ LF then (s, rvProto)
  else if s.size = 0 then ({ s with line := 0, state := .trlr }, rvOk)
  else if s.size > sizeMax - 2 ∨ s.size > sizeMax - s.total ∨
      (s.maxsz > 0 ∧ (s.total > s.maxsz ∨ s.size > s.maxsz - s.total)) then (s, rvMsgSize)
  else if s.size + 2 > s.allocLimit then (s, rvNoMem)
  else
    ({ s with state := .data, total := s.total + s.size,
              chunksR := { size := s.size, alloc := s.size + 2, resid := s.size + 2 } :: s.chunksR }, rvOk)

def ingestTrailer (s : St) (c : UInt8) : St × Nat :=
  if c = CR then ({ s with state := .trlrcr }, rvOk)
  else if !isPrint c then (s, rvProto)
  else ({ s with line := s.line + 1 }, rvOk)

def ingestTrailerCr (s : St) (c : UInt8) : St × Nat :=
  if c ≠ LF then (s, rvProto)
  else if s.line = 0 then ({ s with state := .done }, rvOk)
  else ({ s with line := 0, state := .trlr }, rvOk)

def ingestChar (s : St) (c : UInt8) : St × Nat :=
  match s.state with
  | .init => if !isAlnum c then (s, rvProto) else ingestLen { s with state := .len } c
  | .len => ingestLen s c
  | .ext => ingestExt s c
  | .cr => ingestNewline s c
  | .trlr => ingestTrailer s c
  | .trlrcr => ingestTrailerCr s c
  | _ => (s, rvProto)

/-- the test made once the chunk's c_alloc bytes are all there: data[size] = CR, data[size+1] = LF -/
def crlfOk (c : Chunk) (dataR : Bytes) : Bool :=
  let d := dataR.reverse
  d.getD c.size 0 = CR && d.getD (c.size + 1) 0 = LF

/-- chunk_ingest_data on a block: (state, bytes consumed, rv) -/
def ingestData (s : St) (blk : Bytes) : St × Nat × Nat :=
  match s.chunksR with
  | [] => (s, 0, rvProto) -- unreachable: state data implies a chunk
  | c :: rest =>
    if blk.length ≥ c.resid then
      let dataR := (blk.take c.resid).reverse ++ c.dataR
      if !crlfOk c dataR then (s, c.resid, rvProto)
      else ({ s with state := .init, size := 0, line := 0, chunksR := { c with resid := 0, dataR := dataR } :: rest }, c.resid, rvOk)
    else
      ({ s with chunksR := { c with resid := c.resid - blk.length, dataR := blk.reverse ++ c.dataR } :: rest }, blk.length, rvOk)

/-- the while loop of nni_http_chunks_parse: (state, *lenp, rv) -/
def parseLoop : Nat → St → Bytes → Nat → St × Nat × Nat
  | 0, s, _, i => (s, i, if s.state = .done then rvOk else rvAgain)
  | fuel + 1, s, blk, i =>
    if s.state = .done then (s, i, rvOk)
    else
      match blk with
      | [] => (s, i, rvAgain)
      | c :: tl =>
        if s.state = .data then
          let r := ingestData s blk
          if r.2.2 ≠ rvOk then (r.1, i + r.2.1, r.2.2)
          else parseLoop fuel r.1 (blk.drop r.2.1) (i + r.2.1)
        else
          let r := ingestChar s c
          if r.2 ≠ rvOk then (r.1, i, r.2)
          else parseLoop fuel r.1 tl (i + 1)

def parse (s : St) (blk : Bytes) : St × Nat × Nat := parseLoop (blk.length + 1) s blk 0

/-- per-byte machine: what one more byte does. (state, consumed 0/1, rv) -/
def step (s : St) (b : UInt8) : St × Nat × Nat := parse s [b]

/-- feed bytes one at a time while the decoder asks for more -/
def steps : St → Bytes → Nat → St × Nat × Nat
  | s, [], i => (s, i, if s.state = .done then rvOk else rvAgain)
  | s, b :: bs, i =>
    if s.state = .done then (s, i, rvOk)
    else
      let r := step s b
      if r.2.2 = rvAgain then steps r.1 bs (i + r.2.1)
      else (r.1, i + r.2.1, r.2.2)

/-- the entity body: the first c_size bytes of every chunk, in order -/
def body (s : St) : Bytes :=
  (s.chunksR.reverse.map fun c => c.dataR.reverse.take c.size).flatten

end Nng.Chunk
