/-
  Executable model of src/sp/protocol/reqrep0/req.c (cooked REQ: socket-level "master"
  context plus user contexts) as seen through the socket core, one step per harness event.
  Inside a step the sub-actions follow the C callbacks; each of them runs under the
  protocol mutex `s->mtx`, so it is one atomic function here (`ctxSend`, `ctxRecv`,
  `cancelRecv`, `cancelSend`, `runSendQueue`, `pipeClose`, `sendCb`, `recvCb`, `retryCb`,
  `ctxReset`, `ctxFini`).

  Keys: context 0 is `s->master`; the harness' context slot c is key c+1.
  Request ids: `nni_id_alloc` hands out consecutive ids from a random start inside
  [reqIdMin, reqIdMax].  The model allocates internal ids 1, 2, 3, … (`nalloc`) and gives a
  request its *wire name* when it is first handed to a pipe: the k-th distinct request seen on
  the wire carries reqIdMin + k (`alias`).  The check renames the implementation's ids the same
  way (first occurrence), so no absolute id is ever predicted; ids that never reached the wire
  can be named relative to one that did (`resolveWire`).

  Retained request: handle = internal id.  `MsgObj` is ghost ownership state: the reference
  held by the context (`ctxRef`), references held by transports with a send in flight
  (`tranRefs`), and how the context's reference ended (`ctxFrees`, `returned`).  Every access
  through a dead handle and every second release sets `bad`.

  The model mirrors the tree WITH the delivered fixes (integration/fixes/req-*.patch):
  the request is cloned for every transmission and released unconditionally (F5), the early
  failure path of req0_ctx_send clears `request_id` (F12), a matched reply takes the context
  off its pipe's list and off the retry list, and discarding a stashed reply of the socket
  context lowers the receive pollable.
-/
import NngModel.Proto.Base
import NngModel.Generated.C04REQ
namespace Nng.Req
open Nng Nng.Proto

def upd {α : Type} (f : Nat → α) (k : Nat) (v : α) : Nat → α := fun x => if x = k then v else f x

@[simp] theorem upd_same {α : Type} (f : Nat → α) (k : Nat) (v : α) : upd f k v k = v := by simp [upd]
@[simp] theorem upd_other {α : Type} (f : Nat → α) (k x : Nat) (v : α) (h : x ≠ k) : upd f k v x = f x := by simp [upd, h]

/-- a parked user aio -/
structure UAio where
  aio : Nat
  deadline : Option Nat
deriving Repr, DecidableEq, Inhabited

structure Ctx where
  live : Bool := false
  requestId : Nat := 0             -- internal id, 0 = none
  sendAio : Option UAio := none
  recvAio : Option UAio := none
  reqMsg : Option Nat := none      -- handle of the retained request
  repMsg : Option Bytes := none    -- stashed reply (id already trimmed)
  retry : Int := 0
  retryTime : Nat := 0
  connReset : Bool := false
  -- ghost
  wired : Bool := false            -- the current request was handed to a pipe since the last send
  wireCount : Nat := 0             -- transmissions of the current request
  retryAtSend : Int := 0           -- resend time in force when the current request was accepted
  everRetry : Bool := false        -- resend time was > 0 at some moment since the request was accepted
deriving Repr, Inhabited

structure Pipe where
  closed : Bool := true
  busy : Option Nat := none        -- handle of the message the transport is sending
  armed : Bool := false            -- receive posted on the transport
  ctxs : List Nat := []            -- p->contexts
deriving Repr, Inhabited

structure MsgObj where
  body : Bytes := []
  ctxRef : Bool := false
  tranRefs : Nat := 0
  returned : Bool := false
  ctxFrees : Nat := 0
deriving Repr, Inhabited

structure State where
  opened : Bool := false
  gone : Bool := false             -- nng_socket_close done
  sClosed : Bool := false          -- s->closed
  ctx : Nat → Ctx := fun _ => {}
  pipe : Nat → Pipe := fun _ => {}
  npipes : Nat := 0
  readyPipes : List Nat := []
  busyPipes : List Nat := []
  sendQueue : List Nat := []
  retryQueue : List Nat := []
  idmap : Nat → Option Nat := fun _ => none    -- internal id → context key
  alias : List Nat := []                       -- wire index → internal id
  nalloc : Nat := 0
  msgs : Nat → MsgObj := fun _ => {}
  sockRetry : Int := 0
  retryTick : Int := 0
  retryActive : Bool := false
  tickAt : Option Nat := none
  tickNever : Bool := false        -- ghost: the timer was last armed with an infinite tick
  readable : Bool := false
  writable : Bool := false
  now : Nat := 0
  -- ghost
  bad : Option String := none
  accepted : List Nat := []                    -- internal ids whose reply was taken
  wire : List (Nat × Nat × Bytes) := []        -- (pipe, internal id, body) handed to a transport
deriving Inhabited

def nCtxSlots : Nat := 8
def ctxKeys : List Nat := List.range (nCtxSlots + 1)
def peerRep : Nat := Nng.Generated.reqProtoPeer
def idMin : Nat := Nng.Generated.reqIdMin

def setCtx (s : State) (k : Nat) (c : Ctx) : State := { s with ctx := upd s.ctx k c }
def setPipe (s : State) (p : Nat) (pp : Pipe) : State := { s with pipe := upd s.pipe p pp }
def setMsg (s : State) (h : Nat) (m : MsgObj) : State := { s with msgs := upd s.msgs h m }
def flag (s : State) (msg : String) : State :=
  match s.bad with | some _ => s | none => { s with bad := some msg }

/-! ### ghost ownership operations on the retained request -/

def MsgObj.alive (m : MsgObj) : Bool := m.ctxRef || m.tranRefs > 0

/-- nni_msg_free by the protocol of the reference the context holds -/
def ctxRelease (s : State) (h : Nat) : State :=
  let m := s.msgs h
  if m.ctxRef then setMsg s h { m with ctxRef := false, ctxFrees := m.ctxFrees + 1 }
  else flag s "request message released twice"

/-- the message goes back to the caller with a failed send -/
def giveBack (s : State) (h : Nat) : State :=
  let m := s.msgs h
  if m.ctxRef then setMsg s h { m with ctxRef := false, returned := true }
  else flag s "request message returned after release"

/-- nni_msg_clone + hand-off to the transport -/
def tranClone (s : State) (h : Nat) : State :=
  let m := s.msgs h
  if m.alive then setMsg s h { m with tranRefs := m.tranRefs + 1 }
  else flag s "request message used after it was freed"

/-- the transport (send completed) or req0_send_cb (send failed) frees its reference -/
def tranRelease (s : State) (h : Nat) : State :=
  let m := s.msgs h
  if m.tranRefs > 0 then setMsg s h { m with tranRefs := m.tranRefs - 1 }
  else flag s "transport reference released twice"

/-! ### wire names -/

def wireIndex (s : State) (iid : Nat) : State × Nat :=
  match s.alias.idxOf? iid with
  | some k => (s, k)
  | none => ({ s with alias := s.alias ++ [iid] }, s.alias.length)

def wireHdr (k : Nat) : Bytes := beEncode 4 (idMin + k)

/-- wire names of requests that never reached the wire.  nni_id_alloc hands out consecutive ids,
    and so does the model (`nalloc`), so an id that was allocated but never transmitted is named
    relative to one that was: `idMin + k + relBase * (relOff + d)` stands for
    (internal id of the k-th request seen on the wire) + d, for -relOff < d < relOff, d ≠ 0.
    (The check writes such replies with the real id at that distance from the one it observed.) -/
def relBase : Nat := 65536
def relOff : Nat := 128

/-- nni_id_get on the id carried by a reply -/
def resolveWire (s : State) (v : Nat) : Option Nat :=
  if v < idMin then none
  else
    match s.alias[(v - idMin) % relBase]? with
    | none => none
    | some iid =>
      let d := (v - idMin) / relBase
      if d = 0 then some iid
      else if iid + d ≥ relOff + 1 then some (iid + d - relOff) else none

def unlist (s : State) (k : Nat) : Nat → Pipe :=
  fun q => { s.pipe q with ctxs := (s.pipe q).ctxs.erase k }

/-! ### req0_run_send_queue -/

/-- list bookkeeping of one iteration: the context leaves the send queue, moves to the end of
    the retry list (if it has a resend time), onto the pipe's list; the pipe becomes busy -/
def sendPrep (s : State) (k p : Nat) (retry : Int) : State :=
  let s := { s with sendQueue := s.sendQueue.erase k }
  let s := if retry > 0 then { s with retryQueue := s.retryQueue.erase k ++ [k] } else s
  let s := { s with pipe := unlist s k }
  let s := setPipe s p { s.pipe p with ctxs := (s.pipe p).ctxs ++ [k] }
  let s := { s with readyPipes := s.readyPipes.erase p, busyPipes := s.busyPipes ++ [p] }
  if s.readyPipes.isEmpty then { s with writable := false } else s

/-- one iteration: context `k` (head of the send queue) goes to pipe `p` (head of the ready list) -/
def sendOne (s : State) (k p : Nat) : State × List Out :=
  let c := s.ctx k
  let s1 := sendPrep s k p c.retry
  let o1 := match c.sendAio with
    | some ua => [Out.done ua.aio 0 none false]
    | none => []
  match c.reqMsg with
  | none => (flag s1 "send queue holds a context without a request", o1)
  | some h =>
    let s2 := setPipe (tranClone s1 h) p { (tranClone s1 h).pipe p with busy := some h }
    let sw := wireIndex s2 c.requestId
    let body := (sw.1.msgs h).body
    let s4 := setCtx sw.1 k { c with sendAio := none, wired := true, wireCount := c.wireCount + 1 }
    ({ s4 with wire := s4.wire ++ [(p, c.requestId, body)] }, o1 ++ [Out.psend p ⟨wireHdr sw.2, body⟩])

def runQ : Nat → State → State × List Out
  | 0, s => (s, [])
  | fuel + 1, s =>
    match s.sendQueue, s.readyPipes with
    | k :: _, p :: _ =>
      let (s, o) := sendOne s k p
      let (s, o') := runQ fuel s
      (s, o ++ o')
    | _, _ => (s, [])

def runSendQueue (s : State) : State × List Out := runQ s.sendQueue.length s

/-! ### req0_ctx_reset -/

def ctxReset (s : State) (k : Nat) : State :=
  let c := s.ctx k
  let s := { s with retryQueue := s.retryQueue.erase k, pipe := unlist s k, sendQueue := s.sendQueue.erase k }
  let s := if c.requestId != 0 then { s with idmap := upd s.idmap c.requestId none } else s
  let s := match c.reqMsg with
    | some h => ctxRelease s h
    | none => s
  let s := if c.repMsg.isSome && k == 0 then { s with readable := false } else s
  setCtx s k { c with requestId := 0, reqMsg := none, repMsg := none, connReset := false,
                      wired := false, wireCount := 0, everRetry := false }

/-! ### timers -/

def armTick (s : State) : State :=
  if s.retryTick < 0 then { s with tickAt := none, tickNever := true }
  else { s with tickAt := some (s.now + s.retryTick.toNat), tickNever := false }

/-! ### req0_pipe_close (then the transport's close) -/

def closeOne (s : State) (p k : Nat) : State × List Out :=
  let s := setPipe s p { s.pipe p with ctxs := (s.pipe p).ctxs.erase k }
  let c := s.ctx k
  if c.retry ≤ 0 then
    match c.recvAio with
    | some ua =>
      let s := setCtx s k { c with recvAio := none }
      (ctxReset s k, [Out.done ua.aio Err.econnreset none false])
    | none =>
      let s := ctxReset s k
      (setCtx s k { s.ctx k with connReset := true }, [])
  else if c.reqMsg.isSome then
    let s := setCtx s k { c with retryTime := s.now + c.retry.toNat }
    if s.sendQueue.contains k then (s, [])
    else runSendQueue { s with sendQueue := s.sendQueue ++ [k] }
  else (s, [])

def closeLoop : Nat → State → Nat → State × List Out
  | 0, s, _ => (s, [])
  | fuel + 1, s, p =>
    match (s.pipe p).ctxs with
    | [] => (s, [])
    | k :: _ =>
      let (s, o) := closeOne s p k
      let (s, o') := closeLoop fuel s p
      (s, o ++ o')

/-- before the loop over the pipe's contexts: nni_aio_close(&p->aio_send) makes a send in flight
    fail (req0_send_cb frees the message); the pipe leaves the ready/busy list -/
def pipeClosePrep (s : State) (p : Nat) : State :=
  let pp := s.pipe p
  let s := match pp.busy with
    | some h => tranRelease s h
    | none => s
  let s := setPipe s p { pp with closed := true, busy := none, armed := false }
  let s := { s with readyPipes := s.readyPipes.erase p, busyPipes := s.busyPipes.erase p }
  if s.readyPipes.isEmpty then { s with writable := false } else s

def pipeClose (s : State) (p : Nat) : State × List Out :=
  if (s.pipe p).closed then (s, [])
  else
    let s1 := pipeClosePrep s p
    let r := closeLoop (s1.pipe p).ctxs.length s1 p
    (r.1, r.2 ++ [Out.pclosed p])

/-! ### req0_send_cb, req0_recv_cb, req0_retry_cb -/

def sendCb (s : State) (p : Nat) : State × List Out :=
  if (s.pipe p).closed || s.sClosed then (s, [])
  else
    let s := { s with busyPipes := s.busyPipes.erase p, readyPipes := s.readyPipes ++ [p] }
    let s := if s.sendQueue.isEmpty then { s with writable := true } else s
    runSendQueue s

/-- a matched reply ends the exchange: the context leaves the send queue, the retry list and its
    pipe's list; the retained request is released -/
def acceptPrep (s : State) (k : Nat) : State :=
  let c := s.ctx k
  let s := { s with sendQueue := s.sendQueue.erase k, retryQueue := s.retryQueue.erase k, pipe := unlist s k }
  match c.reqMsg with
  | some h => ctxRelease s h
  | none => s

/-- the part of req0_recv_cb under the mutex, for a reply naming internal id `iid?` -/
def recvCb (s : State) (iid? : Option Nat) (body : Bytes) : State × List Out :=
  match iid? with
  | none => (s, [])
  | some iid =>
    match s.idmap iid with
    | none => (s, [])
    | some k =>
      let c := s.ctx k
      if c.sendAio.isSome || c.repMsg.isSome then (s, [])
      else
        let s1 := acceptPrep s k
        let s2 := { s1 with idmap := upd s1.idmap iid none, accepted := s1.accepted ++ [iid] }
        match c.recvAio with
        | some ua =>
          (setCtx s2 k { c with requestId := 0, reqMsg := none, recvAio := none },
            [Out.done ua.aio 0 (some ⟨[], body⟩) false])
        | none =>
          let s3 := setCtx s2 k { c with requestId := 0, reqMsg := none, repMsg := some body }
          (if k == 0 then { s3 with readable := true } else s3, [])

def retryDue (s : State) (k : Nat) : Bool :=
  let c := s.ctx k
  !(c.retryTime > s.now) && c.reqMsg.isSome

/-- the scan of the retry list: due contexts join the send queue; the timer is re-armed while
    the retry list is not empty -/
def retryPrep (s : State) : State :=
  let due := s.retryQueue.filter (retryDue s)
  let s := { s with sendQueue := s.sendQueue ++ due.filter fun k => !s.sendQueue.contains k }
  if !s.retryQueue.isEmpty then armTick s else { s with retryActive := false }

def retryCb (s : State) : State × List Out :=
  if s.sClosed then (s, [])
  else if !(s.retryQueue.filter (retryDue s)).isEmpty then runSendQueue (retryPrep s) else (retryPrep s, [])

/-! ### user operations -/

def deadlineOf (now : Nat) : Mode → Option Nat
  | .ms n => some (now + n)
  | _ => none

/-- nni_aio_start on a user aio: fails at once for a zero timeout -/
def startFails : Mode → Option Nat
  | .nb => some Err.eagain          -- ETIMEDOUT, turned into EAGAIN by nng_sendmsg/nng_recvmsg
  | .ms 0 => some Err.etimedout
  | _ => none

/-- the request goes back to the sender of a send that was still parked:
    ctx->send_aio = NULL, ctx->req_msg = NULL, off the send queue -/
def dropSend (s : State) (k : Nat) : State :=
  let c := s.ctx k
  let s := match c.reqMsg with
    | some h => giveBack s h
    | none => s
  let s := setCtx s k { c with sendAio := none, reqMsg := none }
  { s with sendQueue := s.sendQueue.erase k }

/-- first half of req0_ctx_send: a new request cancels the old one, including a waiting receive -/
def ctxSendPrep (s : State) (k : Nat) : State × List Out :=
  let r1 : State × List Out := match (s.ctx k).recvAio with
    | some ua => (setCtx s k { s.ctx k with recvAio := none }, [Out.done ua.aio Err.ecanceled none false])
    | none => (s, [])
  let r2 : State × List Out := match (r1.1.ctx k).sendAio with
    | some ua => (dropSend r1.1 k, [Out.done ua.aio Err.ecanceled none true])
    | none => (r1.1, [])
  (ctxReset r2.1 k, r1.2 ++ r2.2)

/-- bookkeeping for a new request: the message object, the retry list and the resend timer -/
def installPrep (s : State) (k id : Nat) (body : Bytes) (retryPos : Bool) : State :=
  let s := setMsg s id { body := body, ctxRef := true }
  if retryPos then
    let s := { s with retryQueue := s.retryQueue ++ [k] }
    if !s.retryActive then armTick { s with retryActive := true } else s
  else s

/-- the request becomes the context's outstanding request (id `id` enters the map) -/
def installReq (s : State) (k a : Nat) (m : WMsg) (mode : Mode) (id : Nat) : State :=
  let c := s.ctx k
  let s1 := installPrep s k id m.body (decide (c.retry > 0))
  setCtx { s1 with idmap := upd s1.idmap id (some k) } k
    { c with requestId := id, reqMsg := some id, sendAio := some ⟨a, deadlineOf s.now mode⟩,
             retryAtSend := c.retry, everRetry := decide (c.retry > 0), wired := false, wireCount := 0,
             retryTime := if c.retry > 0 then s.now + c.retry.toNat else c.retryTime }

def ctxSend (s : State) (k a : Nat) (m : WMsg) (mode : Mode) : State × List Out :=
  if s.sClosed then (s, [Out.done a Err.eclosed none true])
  else
    let r := ctxSendPrep s k
    let id := r.1.nalloc + 1
    let s := { r.1 with nalloc := id }
    match (if s.readyPipes.isEmpty then startFails mode else none) with
    | some rv =>
      -- id allocated, then removed again; the caller keeps the message
      (s, r.2 ++ [Out.done a rv none true])
    | none =>
      let s := installReq s k a m mode id
      let q := runSendQueue { s with sendQueue := s.sendQueue ++ [k] }
      (q.1, r.2 ++ q.2)

def ctxRecv (s : State) (k a : Nat) (mode : Mode) : State × List Out :=
  let c := s.ctx k
  if c.recvAio.isSome || (c.reqMsg.isNone && c.repMsg.isNone) then
    if c.connReset then (setCtx s k { c with connReset := false }, [Out.done a Err.econnreset none false])
    else (s, [Out.done a Err.estate none false])
  else
    match c.repMsg with
    | none =>
      match startFails mode with
      | some rv => (s, [Out.done a rv none false])
      | none => (setCtx s k { c with recvAio := some ⟨a, deadlineOf s.now mode⟩ }, [])
    | some body =>
      let s := setCtx s k { c with repMsg := none }
      let s := if k == 0 then { s with readable := false } else s
      (s, [Out.done a 0 (some ⟨[], body⟩) false])

/-- req0_ctx_cancel_recv for the parked receive of context `k` (the cancel function is only
    ever called for the aio that is parked, so `ctx->recv_aio == aio` holds) -/
def cancelRecv (s : State) (k : Nat) (rv : Nat) : State × List Out :=
  match (s.ctx k).recvAio with
  | none => (s, [])
  | some ra =>
    let r1 : State × List Out := match (s.ctx k).sendAio with
      | some ua => (dropSend s k, [Out.done ua.aio Err.ecanceled none true])
      | none => (s, [])
    (ctxReset (setCtx r1.1 k { r1.1.ctx k with recvAio := none }) k, r1.2 ++ [Out.done ra.aio rv none false])

/-- req0_ctx_cancel_send for the parked send of context `k` -/
def cancelSend (s : State) (k : Nat) (rv : Nat) : State × List Out :=
  match (s.ctx k).sendAio with
  | some ua => (ctxReset (dropSend s k) k, [Out.done ua.aio rv none true])
  | none => (s, [])

/-- req0_ctx_fini -/
def ctxFini (s : State) (k : Nat) : State × List Out :=
  let r1 : State × List Out := match (s.ctx k).recvAio with
    | some ua => (setCtx s k { s.ctx k with recvAio := none }, [Out.done ua.aio Err.eclosed none false])
    | none => (s, [])
  let r2 : State × List Out := match (r1.1.ctx k).sendAio with
    | some ua => (dropSend r1.1 k, [Out.done ua.aio Err.eclosed none true])
    | none => (r1.1, [])
  let s := ctxReset r2.1 k
  (setCtx s k { s.ctx k with live := false }, r1.2 ++ r2.2)

/-! ### harness events -/

def aioParked (s : State) (a : Nat) : Option (Nat × Bool) :=   -- (context, is-send)
  ctxKeys.findSome? fun k =>
    let c := s.ctx k
    if (c.recvAio.map (·.aio)) == some a then some (k, false)
    else if (c.sendAio.map (·.aio)) == some a then some (k, true)
    else none

def keyOf : Option Nat → Nat
  | none => 0
  | some c => c + 1

def foldSteps (ks : List Nat) (f : State → Nat → State × List Out) (s : State) : State × List Out :=
  ks.foldl (fun (acc : State × List Out) k => let (s', o) := f acc.1 k; (s', acc.2 ++ o)) (s, [])

def dueAio (now : Nat) : Option UAio → Bool
  | some ⟨_, some d⟩ => decide (d < now)
  | _ => false

def expireOne (s : State) (k : Nat) : State × List Out :=
  let r1 : State × List Out := if dueAio s.now (s.ctx k).recvAio then cancelRecv s k Err.etimedout else (s, [])
  let r2 : State × List Out :=
    if dueAio r1.1.now (r1.1.ctx k).sendAio then cancelSend r1.1 k Err.etimedout else (r1.1, [])
  (r2.1, r1.2 ++ r2.2)

def advance (s : State) (ms : Nat) : State × List Out :=
  let s := { s with now := s.now + ms }
  let (s, o1) := foldSteps ctxKeys expireOne s
  match s.tickAt with
  | some d =>
    if d < s.now then
      let (s, o2) := retryCb { s with tickAt := none }
      (s, o1 ++ o2)
    else (s, o1)
  | none => (s, o1)

def optResendTime : String := "req:resend-time"
def optResendTick : String := "req:resend-tick"

def step (s : State) (ev : Ev) : State × List Out :=
  if !s.opened then
    match ev with
    | .openSock proto raw =>
      if proto != "req" || raw then (s, [.other "unmodelled-socket"]) else
      let r : Int := Nng.Generated.reqResendTimeDefault
      ({ s with opened := true, sockRetry := r, retryTick := (Nng.Generated.reqResendTickDefault : Int),
                ctx := upd s.ctx 0 { s.ctx 0 with live := true, retry := r } }, [.rv 0])
    | .advance ms => ({ s with now := s.now + ms }, [])
    | _ => (s, [.other "nosock"])
  else if s.gone then
    match ev with
    | .advance ms => ({ s with now := s.now + ms }, [])
    | _ => (s, [.other "nosock"])
  else
  match ev with
  | .openSock _ _ => (s, [.other "bad-op"])
  | .pipeAdd peer =>
    let id := s.npipes
    let s := { s with npipes := id + 1 }
    if peer != peerRep then
      (setPipe s id { closed := true }, [.pipe id, .pclosed id])
    else
      let s := setPipe s id { closed := false, armed := true }
      let s := { s with readyPipes := s.readyPipes ++ [id], writable := true }
      let (s, o) := runSendQueue s
      (s, [.pipe id, .parm id] ++ o)
  | .pipeDrop p =>
    if p < s.npipes && !(s.pipe p).closed then
      let (s, o) := pipeClose s p
      (s, [.rv 0] ++ o)
    else (s, [.rv (-1)])
  | .sendDone p rv =>
    if p < s.npipes && !(s.pipe p).closed then
      match (s.pipe p).busy with
      | some h =>
        let s := tranRelease s h
        let s := setPipe s p { s.pipe p with busy := none }
        if rv != 0 then
          let (s, o) := pipeClose s p
          (s, [.rv 0] ++ o)
        else
          let (s, o) := sendCb s p
          (s, [.rv 0] ++ o)
      | none => (s, [.rv (-1)])
    else (s, [.rv (-1)])
  | .recvDone p r =>
    if p < s.npipes && !(s.pipe p).closed && (s.pipe p).armed then
      let s := setPipe s p { s.pipe p with armed := false }
      match r with
      | .error _ => let (s, o) := pipeClose s p; (s, [.rv 0] ++ o)
      | .ok b =>
        if b.length < Nng.Generated.reqIdLen then
          let (s, o) := pipeClose s p
          (s, [.rv 0] ++ o)
        else
          let s := setPipe s p { s.pipe p with armed := true }
          let (s, o) := recvCb s (resolveWire s (beDecode (b.take 4))) (b.drop 4)
          (s, [.rv 0, .parm p] ++ o)
    else (s, [.rv (-1)])
  | .send c a m mode =>
    if a ≥ 16 || keyOf c > nCtxSlots then (s, [.other "bad-index"]) else
    if (aioParked s a).isSome then (s, [.other "aio-busy"]) else
    if !(s.ctx (keyOf c)).live then (s, [.done a Err.eclosed none true])
    else ctxSend s (keyOf c) a m mode
  | .recv c a mode =>
    if a ≥ 16 || keyOf c > nCtxSlots then (s, [.other "bad-index"]) else
    if (aioParked s a).isSome then (s, [.other "aio-busy"]) else
    if !(s.ctx (keyOf c)).live then (s, [.done a Err.eclosed none false])
    else ctxRecv s (keyOf c) a mode
  | .cancel a =>
    match aioParked s a with
    | some (k, false) => cancelRecv s k Err.ecanceled
    | some (k, true) => cancelSend s k Err.ecanceled
    | none => (s, [])
  | .abort a rv =>
    match aioParked s a with
    | some (k, false) => cancelRecv s k rv
    | some (k, true) => cancelSend s k rv
    | none => (s, [])
  | .advance ms => advance s ms
  | .ctxOpen c =>
    if c ≥ nCtxSlots then (s, [.other "bad-index"])
    else if (s.ctx (c + 1)).live then (s, [.other "ctx-slot-in-use"])
    else (setCtx s (c + 1) { live := true, retry := s.sockRetry }, [.rv 0])
  | .ctxClose c =>
    if c ≥ nCtxSlots then (s, [.other "bad-index"])
    else if (s.ctx (c + 1)).live then
      let (s, o) := ctxFini s (c + 1)
      (s, [.rv 0] ++ o)
    else (s, [.rv (-1)])
  | .setopt c name ty v =>
    if keyOf c > nCtxSlots then (s, [.other "bad-index"]) else
    if name == optResendTime then
      if !(s.ctx (keyOf c)).live then (s, [.rv Err.eclosed])
      else if ty != "ms" then (s, [.rv Err.ebadtype])
      else if v < -(Nng.Generated.durationMinNeg : Int) then (s, [.rv Err.einval])
      else
        let cx := s.ctx (keyOf c)
        let s := if c.isNone then { s with sockRetry := v } else s
        (setCtx s (keyOf c) { cx with retry := v, everRetry := cx.everRetry || decide (v > 0) }, [.rv 0])
    else if name == optResendTick then
      match c with
      | some _ => if !(s.ctx (keyOf c)).live then (s, [.rv Err.eclosed]) else (s, [.rv Err.enotsup])
      | none =>
        if ty != "ms" then (s, [.rv Err.ebadtype])
        else if v < -(Nng.Generated.durationMinNeg : Int) then (s, [.rv Err.einval])
        else ({ s with retryTick := v }, [.rv 0])
    else (s, [.other "unmodelled-option"])
  | .getopt c name ty =>
    if keyOf c > nCtxSlots then (s, [.other "bad-index"]) else
    if name == optResendTime then
      if !(s.ctx (keyOf c)).live then (s, [.rv2 Err.eclosed 0])
      else if ty != "ms" then (s, [.rv2 Err.ebadtype 0])
      else (s, [.rv2 0 (s.ctx (keyOf c)).retry])
    else if name == optResendTick then
      match c with
      | some _ => if !(s.ctx (keyOf c)).live then (s, [.rv2 Err.eclosed 0]) else (s, [.rv2 Err.enotsup 0])
      | none => if ty != "ms" then (s, [.rv2 Err.ebadtype 0]) else (s, [.rv2 0 s.retryTick])
    else (s, [.other "unmodelled-option"])
  | .poll => (s, [.poll (some s.readable) (some s.writable)])
  | .sub _ _ => (s, [.other "bad-op"])
  | .unsub _ _ => (s, [.other "bad-op"])
  | .close =>
    -- the harness closes its contexts, then the socket: pipes go first (s->closed is still
    -- false, so a request may move to a pipe that is still open), then req0_sock_close,
    -- then req0_sock_fini finishes the socket's own context
    let (s, o1) := foldSteps ((List.range nCtxSlots).map (· + 1))
      (fun s k => if (s.ctx k).live then ctxFini s k else (s, [])) s
    let (s, o2) := foldSteps (List.range s.npipes) pipeClose s
    let s := { s with sClosed := true, tickAt := none }
    let (s, o3) := ctxFini s 0
    ({ s with gone := true }, o1 ++ o2 ++ o3)

def run (s : State) : List Ev → State × List (List Out)
  | [] => (s, [])
  | e :: es =>
    let (s', o) := step s e
    let (s'', os) := run s' es
    (s'', o :: os)

end Nng.Req
