/-
  Executable model of src/sp/protocol/pubsub0/xsub.c (raw SUB socket) together with the
  part of the socket core it rests on: the socket's upper read queue `s_urq`, an
  `nni_msgq` (src/core/msgqueue.c), here the FIFO channel abstraction proved in C18
  (list of queued messages + list of parked receive aios; capacity = NNG_OPT_RECVBUF).

  * no filtering and no contexts: `xsub0_recv_cb` hands every arrival to
    `nni_msgq_tryput`: a parked receiver gets it at once, else it is queued while
    `len < cap`, else (queue full — "flow control") the NEW message is discarded;
  * `nng_recv` → `xsub0_sock_recv` → `nni_msgq_aio_get`.  The model mirrors the FIXED
    code (integration/fixes/F13-msgq-nonblocking.patch): the aio is started (and a
    non-blocking / zero-timeout one fails) only when it has to wait, i.e. when earlier
    readers are waiting or nothing is queued; otherwise it takes the oldest message;
  * NNG_OPT_RECVBUF → `nni_msgq_resize`: keeps the NEWEST `cap + 1` messages;
  * the receive pollable is the msgq's `mq_recvable`, recomputed by `nni_msgq_run_notify`
    in every operation and in the descriptor query: readable ⇔ `len != 0` (no writer ever
    parks on this queue: the protocol only uses `tryput`);
  * messages carry a ghost id (arrival number) for the theorems.
-/
import NngModel.Proto.Base
import NngModel.Generated.C05
namespace Nng.Xsub
open Nng Nng.Proto

structure GMsg where
  gid : Nat          -- ghost: arrival number
  pipe : Nat
  body : Bytes
deriving Repr, DecidableEq, Inhabited

structure Parked where
  aio : Nat
  deadline : Option Nat
deriving Repr, DecidableEq, Inhabited

structure Pipe where
  id : Nat
  closed : Bool := false
  armed : Bool := false
deriving Repr, DecidableEq, Inhabited

structure State where
  opened : Bool := false
  closed : Bool := false
  cap : Nat := 0                  -- mq_cap of the upper read queue
  q : List GMsg := []             -- queued messages, oldest first (mq_len = q.length)
  getq : List Parked := []        -- mq_aio_getq
  pipes : List Pipe := []
  now : Nat := 0
  narrive : Nat := 0
  -- ghost history
  arrived : List GMsg := []       -- everything the transport delivered on an open pipe
  got : List GMsg := []           -- handed to the application, in order
  dropped : List GMsg := []       -- discarded (queue full, shrink, close)
deriving Repr, Inhabited

def peerPub : Nat := Nng.Generated.c05ProtoPub
def recvBufMin : Nat := Nng.Generated.c05SockRecvBufMin
def recvBufMax : Nat := Nng.Generated.c05SockRecvBufMax
def optRecvBuf : String := Nng.Generated.c05OptRecvBuf

def deliver (a : Nat) (m : GMsg) : Out := Out.done a 0 (some ⟨[], m.body⟩) false

/-- nni_msgq_run_notify: mq_recvable (the put queue of this msgq is always empty) -/
def readable (s : State) : Bool := s.q.length != 0

/-- nni_msgq_tryput on an open queue: reader waiting → hand over; room → queue; else refuse
    (xsub0_recv_cb then frees the message) -/
def tryput (s : State) (m : GMsg) : State × List Out :=
  match s.getq with
  | r :: rs => ({ s with getq := rs, got := s.got ++ [m] }, [deliver r.aio m])
  | [] =>
    if s.q.length < s.cap then ({ s with q := s.q ++ [m] }, [])
    else ({ s with dropped := s.dropped ++ [m] }, [])

/-- nni_msgq_run_getq: serve waiting readers from the queue, oldest first (fuel = readers) -/
def runGetq : Nat → State → State × List Out
  | 0, s => (s, [])
  | n + 1, s =>
    match s.getq with
    | [] => (s, [])
    | r :: rs =>
      match s.q with
      | m :: ms =>
        let x := runGetq n { s with getq := rs, q := ms, got := s.got ++ [m] }
        (x.1, deliver r.aio m :: x.2)
      | [] => (s, [])       -- no queued data, no writer ever waits: stop

/-- nni_msgq_aio_get (fixed): does the aio have to wait? -/
def mustWait (s : State) : Bool := !s.getq.isEmpty || s.q.length == 0

def aioGet (s : State) (a : Nat) (mode : Mode) : State × List Out :=
  if mustWait s then
    -- nni_aio_start: an instantaneous operation fails, otherwise the aio is armed
    match mode with
    | .nb => (s, [Out.done a Err.eagain none false])
    | .ms 0 => (s, [Out.done a Err.etimedout none false])
    | .ms n =>
      let s := { s with getq := s.getq ++ [⟨a, some (s.now + n)⟩] }
      runGetq s.getq.length s
    | _ =>
      let s := { s with getq := s.getq ++ [⟨a, none⟩] }
      runGetq s.getq.length s
  else
    -- appended un-started and served by nni_msgq_run_getq before the lock is dropped
    let s := { s with getq := s.getq ++ [⟨a, none⟩] }
    runGetq s.getq.length s

/-- nni_msgq_cancel (cancel, abort, expiry) -/
def failAio (s : State) (a rv : Nat) : State × List Out :=
  if s.getq.any (·.aio == a) then
    ({ s with getq := s.getq.filter (·.aio != a) }, [Out.done a rv none false])
  else (s, [])

def isDue (now : Nat) (pk : Parked) : Bool :=
  match pk.deadline with | some d => d < now | none => false

def expire (s : State) : State × List Out :=
  ({ s with getq := s.getq.filter (fun pk => !isDue s.now pk) },
   (s.getq.filter (isDue s.now)).map fun pk => Out.done pk.aio Err.etimedout none false)

/-- nni_msgq_resize: the newest `cap + 1` messages survive -/
def resize (s : State) (cap : Nat) : State :=
  let excess := s.q.length - (cap + 1)
  { s with cap := cap, q := s.q.drop excess, dropped := s.dropped ++ s.q.take excess }

def getPipe (s : State) (p : Nat) : Option Pipe := s.pipes.find? (·.id == p)
def setPipe (s : State) (pp : Pipe) : State :=
  { s with pipes := s.pipes.map fun q => if q.id == pp.id then pp else q }

def closePipe (s : State) (p : Nat) : State × List Out :=
  match getPipe s p with
  | none => (s, [])
  | some pp =>
    if pp.closed then (s, [])
    else (setPipe s { pp with closed := true, armed := false }, [Out.pclosed p])

def closePipes (s : State) : State × List Out :=
  s.pipes.foldl (fun (acc : State × List Out) pp =>
      let x := closePipe acc.1 pp.id
      (x.1, acc.2 ++ x.2)) (s, [])

def opPipeAdd (s : State) (peer : Nat) : State × List Out :=
  let id := s.pipes.length
  if peer != peerPub then
    ({ s with pipes := s.pipes ++ [{ id := id, closed := true }] }, [.pipe id, .pclosed id])
  else
    ({ s with pipes := s.pipes ++ [{ id := id, armed := true }] }, [.pipe id, .parm id])

def opPipeDrop (s : State) (p : Nat) : State × List Out :=
  match getPipe s p with
  | some pp =>
    if pp.closed then (s, [.rv (-1)])
    else let x := closePipe s p; (x.1, [.rv 0] ++ x.2)
  | none => (s, [.rv (-1)])

/-- xsub0_recv_cb -/
def opRecvDone (s : State) (p : Nat) (r : Except Nat Bytes) : State × List Out :=
  match getPipe s p with
  | some pp =>
    if pp.closed || !pp.armed then (s, [.rv (-1)])
    else
      match r with
      | .error _ => let x := closePipe s p; (x.1, [.rv 0] ++ x.2)
      | .ok b =>
        let gm : GMsg := ⟨s.narrive, p, b⟩
        let s := { s with narrive := s.narrive + 1, arrived := s.arrived ++ [gm] }
        let x := tryput s gm
        (x.1, [.rv 0] ++ x.2 ++ [.parm p])
  | none => (s, [.rv (-1)])

def opRecv (s : State) (c : Option Nat) (a : Nat) (mode : Mode) : State × List Out :=
  if s.getq.any (·.aio == a) then (s, [.other "aio-busy"]) else
  match c with
  | some _ => (s, [.done a Err.eclosed none false])      -- raw sockets have no contexts
  | none => aioGet s a mode

def opSend (s : State) (c : Option Nat) (a : Nat) : State × List Out :=
  if s.getq.any (·.aio == a) then (s, [.other "aio-busy"]) else
  match c with
  | some _ => (s, [.done a Err.eclosed none true])
  | none => (s, [.done a Err.enotsup none true])          -- xsub0_sock_send

def opSetopt (s : State) (c : Option Nat) (name ty : String) (v : Int) : State × List Out :=
  if name == optRecvBuf && ty == "int" && c.isNone then
    if v < recvBufMin || v > recvBufMax then (s, [.rv Err.einval])
    else (resize s v.toNat, [.rv 0])
  else (s, [.other "unmodelled-option"])

def closeAll (s : State) : State × List Out :=
  -- nni_msgq_close: queued messages freed, every parked receive fails with NNG_ECLOSED
  let outs := s.getq.map fun pk => Out.done pk.aio Err.eclosed none false
  let s1 := { s with getq := [], q := [], dropped := s.dropped ++ s.q }
  let y := closePipes s1
  ({ y.1 with closed := true }, outs ++ y.2)

def stepOpen (s : State) (ev : Ev) : State × List Out :=
  match ev with
  | .openSock _ _ => (s, [.other "bad-op"])
  | .pipeAdd peer => opPipeAdd s peer
  | .pipeDrop p => opPipeDrop s p
  | .sendDone _ _ => (s, [.rv (-1)])
  | .recvDone p r => opRecvDone s p r
  | .send c a _ _ => opSend s c a
  | .recv c a mode => opRecv s c a mode
  | .cancel a => failAio s a Err.ecanceled
  | .abort a rv => failAio s a rv
  | .advance ms => expire { s with now := s.now + ms }
  | .ctxOpen _ => (s, [.rv Err.enotsup])
  | .ctxClose _ => (s, [.rv (-1)])
  | .setopt c name ty v => opSetopt s c name ty v
  | .getopt c name ty =>
    if name == optRecvBuf && ty == "int" && c.isNone then (s, [.rv2 0 s.cap])
    else (s, [.other "unmodelled-option"])
  | .poll => (s, [.poll (some (readable s)) none])
  | .sub c _ => (s, [.rv (if c.isNone then Err.enotsup else Err.eclosed)])
  | .unsub c _ => (s, [.rv (if c.isNone then Err.enotsup else Err.eclosed)])
  | .close => closeAll s

def step (s : State) (ev : Ev) : State × List Out :=
  if !s.opened then
    match ev with
    | .openSock _ _ =>
      -- nni_sock_create: nni_msgq_init(&s->s_urq, 1) — a new, empty queue (and an empty history)
      ({ s with opened := true, cap := Nng.Generated.c05SockRecvqInit, q := [], getq := [],
                arrived := [], got := [], dropped := [] }, [.rv 0])
    | .advance ms => ({ s with now := s.now + ms }, [])
    | _ => (s, [.other "nosock"])
  else if s.closed then
    match ev with
    | .advance ms => ({ s with now := s.now + ms }, [])
    | _ => (s, [.other "nosock"])
  else stepOpen s ev

def run (s : State) : List Ev → State × List (List Out)
  | [] => (s, [])
  | e :: es =>
    let (s', o) := step s e
    let (s'', os) := run s' es
    (s'', o :: os)

end Nng.Xsub
