/-
  Model of the HTTP CLIENT transaction as the C code implements it (src/supplemental/http/http_client.c
  nni_http_transact_conn / http_txn_cb): write the request (HTTP_SENDING), read the response head (HTTP_RECVING), then
  — not for HEAD — a chunked body when Transfer-Encoding contains "chunked" (case-sensitive strstr), else a body of
  Content-Length bytes when that header is a non-zero decimal number with nothing behind it, else no body at all
  (HTTP_RECVING_CHUNKS / HTTP_RECVING_BODY), and the mapping of read errors to the result of the user's aio.
  Built on Model/HttpConn.lean (response head) and Model/HttpChunk.lean (chunk decoder).  ENOMEM is not modelled.
  Core Lean only.
-/
import NngModel.Model.HttpServer
import NngModel.Model.HttpChunk
namespace Nng.HttpCli
open Nng Nng.HttpConn

def sChunked : Bytes := HttpSrv.asc "chunked"

/-- nni_http_get_header on a client connection: first response header with that name -/
def resHeader (m : Msg) (name : Bytes) : Option Bytes := (m.resHdrs.find? fun h => ieq name h.name).map (·.value)

/-- what http_txn_cb does after the head (state HTTP_RECVING) -/
inductive After where
  | chunked          -- nni_http_read_chunks
  | none             -- the transaction is complete, no body is read
  | body (n : Nat)   -- nni_http_read_full of n bytes
deriving Repr, DecidableEq

def afterHead (m : Msg) : After :=
  let head := m.meth == HttpSrv.sHEAD
  if !head && (match resHeader m HttpSrv.sTransferEncoding with
               | some v => HttpSrv.strContains v sChunked
               | none => false) then .chunked
  else if head then .none
  else
    match resHeader m sContentLength with
    | none => .none
    | some v =>
      let r := HttpSrv.strtoull v
      if r.1 == 0 || !r.2.isEmpty then .none else .body r.1

/-- result of a transaction over the response bytes received so far -/
inductive Outcome where
  | waiting
  | error (rv : Nat)                           -- the user's aio fails with rv; the connection is closed
  | ok (m : Msg) (body : Bytes) (used : Nat)   -- success: the message state (status, headers), the body, the bytes consumed
deriving Repr, DecidableEq

/-- the request as nni_http_write_req puts it on the wire -/
def request (m : Msg) (body : Bytes) : Bytes := emitReq m ++ body

/-- application side of a transaction: nni_http_conn_reset (unless the application KEEPS the request it built:
    `keep`), method, uri, body (copy_body sets Content-Length; without a new body the old one, if kept, stays) -/
def prepare (keep : Bool) (m : Msg) (meth uri body : Bytes) : Msg :=
  let m1 := setUri (setMethod (if keep then m else connReset m) meth) uri
  if body.isEmpty then m1
  else { m1 with reqHdrs := setStatic m1.reqHdrs 3 sContentLength ((decimal body.length).take (clenSize - 1)) }

/-- the request body attached to the connection after `prepare` -/
def prepareBody (keep : Bool) (old body : Bytes) : Bytes := if body.isEmpty then (if keep then old else []) else body

/-- the request as it reaches the stream (http_prepare) -/
def requestOut (strict : Bool) (m : Msg) (body : Bytes) : Bytes := HttpSrv.prepared strict false (emitReq m) ++ body

/-- `true`: nni_http_transact_conn calls nni_http_res_reset before it sends the request (extracted) -/
def cliResets : Bool := Generated.httpCliResetsResponse

/-- outcome of nni_http_read_res over the bytes available -/
inductive ResHead where
  | more
  | done (m : Msg) (n : Nat)
  | fail (rv : Nat)
deriving DecidableEq

/-- the connection's message state when the response is read: nni_http_res_reset, status 0 -/
def resReset (m : Msg) : Msg := { m with resHdrs := [], parsedRes := false, code := 0, rsn := none }

/-- reading a response head from the stream `s` (all of it available) -/
def readResHead (m0 : Msg) (s : Bytes) : ResHead :=
  let r := runRead false { m := m0 } [s]
  if r.rv = rvAgain then .more
  else if r.rv = rvOk then .done r.c.m (r.c.taken - r.c.pend.length)
  else .fail r.rv

/-- the state the response is read into: with the reset, or (`rs = false`) only nni_http_set_status(conn, 0, NULL) -/
def resResetAs (rs : Bool) (m : Msg) : Msg := if rs then resReset m else { m with code := 0, rsn := none }

/-- http_txn_cb from HTTP_RECVING on, with `rd` reading the head; `rs`: the response object was reset before -/
def transactAs (rs : Bool) (rd : Msg → Bytes → ResHead) (m : Msg) (s : Bytes) : Outcome :=
  match rd (resResetAs rs m) s with
  | .more => .waiting
  | .fail rv => .error rv
  | .done m1 n =>
    let rest := s.drop n
    match afterHead m1 with
    | .none => .ok m1 [] n
    | .body k => if rest.length < k then .waiting else .ok m1 (rest.take k) (n + k)
    | .chunked =>
      let p := Chunk.parse { maxsz := 0 } rest
      if p.2.2 = Chunk.rvAgain then .waiting
      else if p.2.2 = Chunk.rvOk then .ok m1 (Chunk.body p.1) (n + p.2.1)
      else .error p.2.2

/-- the code as it is meant (and as the theorems speak of it): with the reset -/
def transactWith (rd : Msg → Bytes → ResHead) (m : Msg) (s : Bytes) : Outcome := transactAs true rd m s

/-- nni_http_transact_conn after the request was written: `m` = the connection's message state, `s` = the response
    bytes available -/
def transact (m : Msg) (s : Bytes) : Outcome := transactWith readResHead m s

end Nng.HttpCli
