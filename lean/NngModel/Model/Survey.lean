/-
  Executable model of src/sp/protocol/survey0/survey.c (cooked SURVEYOR) as seen through
  the socket core: one step per harness event; inside a step the sub-actions follow the
  C callbacks (each runs under the protocol mutex `sock->mtx`) in their order.

  The survey deadline is not a timer: `surv0_ctx_send` stores `ctx->expire = now +
  survey_time`, `surv0_ctx_recv` refuses with NNG_ESTATE once `now >= expire` and clamps
  the expiry of a parked receive to `expire` (nni_aio_set_expire); the aio expiry thread
  then cancels it with NNG_ETIMEDOUT when `expire < now`, and `surv0_ctx_cancel` (any
  cancellation of a parked receive) also removes the survey id.

  Survey ids come from nni_id_alloc on a randomised map (range survIdMin..survIdMax): the
  random start is canonicalised to `survIdMin` (vlib/props/c07.py renames the ids of the
  implementation accordingly); the rest of nni_id_alloc (increment with wrap, skip ids
  in use) is mirrored.  Contexts are keyed `none` (the socket's own context) or `some c`.
-/
import NngModel.Proto.Base
import NngModel.Generated.Base
import NngModel.Generated.C07
namespace Nng.Survey
open Nng Nng.Proto

/-- a response as stored by the protocol: header = the 4 id bytes, body = the rest -/
structure GMsg where
  gid : Nat            -- ghost: arrival number
  pipe : Nat           -- ghost: pipe it arrived on
  id : Nat             -- the survey id it carries
  m : WMsg
deriving Repr, DecidableEq, Inhabited

structure Parked where
  aio : Nat
  deadline : Int       -- absolute expiry of the aio (virtual ms)
deriving Repr, DecidableEq, Inhabited

structure Ctx where
  key : Option Nat
  surveyId : Nat := 0          -- 0 = no survey registered
  recvQ : List GMsg := []      -- recv_lmq
  recvCap : Nat := 0
  rq : List Parked := []       -- recv_queue: parked receive aios
  surveyTime : Int := 0
  expire : Int := 0
  -- ghost
  lastId : Nat := 0            -- id of the most recent survey of this context (kept after the id is unregistered)
  nsurveys : Nat := 0
deriving Repr, DecidableEq, Inhabited

structure Pipe where
  id : Nat
  closed : Bool := false
  busy : Bool := false
  armed : Bool := false
  sendQ : List WMsg := []
deriving Repr, DecidableEq, Inhabited

/-- ghost record of one message handed to the application -/
structure Delivery where
  ctx : Option Nat
  aio : Nat
  msgId : Nat          -- id carried by the delivered message
  curId : Nat          -- the context's registered survey id at that moment
  now : Nat
  expire : Int         -- the context's survey deadline at that moment
  direct : Bool        -- true: taken from the queue by the receive call; false: handed to a parked receive
deriving Repr, DecidableEq, Inhabited

structure State where
  opened : Bool := false
  closed : Bool := false
  ctxs : List Ctx := []          -- open contexts; the socket context (key none) is always first
  pipes : List Pipe := []
  dynVal : Nat := 0              -- id_dyn_val of the surveys map (0 = not yet chosen)
  ttl : Int := 8
  now : Nat := 0
  readable : Bool := false
  writable : Bool := false
  narrive : Nat := 0
  -- ghost history
  delivered : List Delivery := []
  issued : List Nat := []        -- every survey id ever allocated, in order
deriving Repr, Inhabited

def peerResp : Nat := Nng.Generated.survProtoPeer
def idMin : Nat := Nng.Generated.survIdMin
def idMax : Nat := Nng.Generated.survIdMax
def sendBuf : Nat := Nng.Generated.survSendBufInit
def maxCtx : Nat := 8            -- harness limit (NCTX)

def getCtx (s : State) (k : Option Nat) : Option Ctx := s.ctxs.find? (·.key == k)
def setCtx (s : State) (c : Ctx) : State :=
  { s with ctxs := s.ctxs.map fun q => if q.key == c.key then c else q }
def getPipe (s : State) (p : Nat) : Option Pipe := s.pipes.find? (·.id == p)
def setPipe (s : State) (pp : Pipe) : State :=
  { s with pipes := s.pipes.map fun q => if q.id == pp.id then pp else q }

/-- nni_id_get(&sock->surveys, id): registered ids are the non-zero `surveyId`s -/
def lookup (s : State) (id : Nat) : Option Ctx :=
  s.ctxs.find? fun c => c.surveyId != 0 && c.surveyId == id

/-! ### survey ids (nni_id_alloc) -/

def idInUse (s : State) (id : Nat) : Bool := s.ctxs.any fun c => c.surveyId != 0 && c.surveyId == id

def idNext (v : Nat) : Nat := if v + 1 > idMax then idMin else v + 1

/-- the `for (;;)` of nni_id_alloc; the fuel (live ids + 1) is never exhausted, `none`
    stands for the "table full" NNG_ENOMEM exit -/
def idScan (s : State) : Nat → Nat → Option (Nat × Nat)
  | 0, _ => none
  | f + 1, v => if idInUse s v then idScan s f (idNext v) else some (v, idNext v)

def idAlloc (s : State) : Option (Nat × Nat) :=
  let start := if s.dynVal == 0 then idMin else s.dynVal
  idScan s (s.ctxs.length + 1) start

/-! ### surv0_ctx_abort -/

def abortCtx (c : Ctx) (err : Nat) : Ctx × List Out :=
  ({ c with rq := [], recvQ := [], surveyId := 0 }, c.rq.map fun pk => Out.done pk.aio err none false)

/-- the pollable is touched only by the socket's own context -/
def clearReadableIf (s : State) (k : Option Nat) : State :=
  if k == none then { s with readable := false } else s

/-! ### surv0_ctx_send -/

def sendToPipe (m : WMsg) (pp : Pipe) : Pipe × List Out :=
  if pp.closed then (pp, [])
  else if !pp.busy then ({ pp with busy := true }, [Out.psend pp.id m])
  else if pp.sendQ.length < sendBuf then ({ pp with sendQ := pp.sendQ ++ [m] }, [])
  else (pp, [])

def ctxSend (s : State) (c : Ctx) (a : Nat) (m : WMsg) : State × List Out :=
  let (c1, o1) := abortCtx c Err.ecanceled
  let s := clearReadableIf (setCtx s c1) c.key
  match idAlloc s with
  | none => (s, o1 ++ [Out.done a Err.enomem none true])
  | some (id, dv) =>
    let wm : WMsg := ⟨beEncode 4 id, m.body⟩
    let c2 : Ctx := { c1 with surveyId := id, lastId := id, nsurveys := c1.nsurveys + 1,
                              expire := (s.now : Int) + c1.surveyTime }
    let o2 := s.pipes.flatMap fun pp => (sendToPipe wm pp).2
    let s := { s with dynVal := dv, issued := s.issued ++ [id],
                      pipes := s.pipes.map fun pp => (sendToPipe wm pp).1 }
    (setCtx s c2, o1 ++ o2 ++ [Out.done a 0 none false])

/-! ### surv0_ctx_recv -/

/-- the aio timeout as the core hands it to the protocol: NNG_DURATION_ZERO for a
    non-blocking call, NNG_DURATION_INFINITE for `inf` and for `def` (the socket's
    receive timeout is left at its default) -/
def timeoutOf : Mode → Int
  | .nb => 0
  | .inf => -1
  | .dflt => -1
  | .ms n => n

/-- result of a receive that cannot be served at once on a zero timeout: the public
    non-blocking call turns NNG_ETIMEDOUT into NNG_EAGAIN -/
def zeroRv : Mode → Nat
  | .nb => Err.eagain
  | _ => Err.etimedout

def clampBelow : Int := Nng.Generated.survRecvClampBelow

def ctxRecv (s : State) (c : Ctx) (a : Nat) (mode : Mode) : State × List Out :=
  if c.surveyId == 0 || (s.now : Int) ≥ c.expire then (s, [Out.done a Err.estate none false])
  else
    let t := timeoutOf mode
    let useExpire := t < clampBelow || (s.now : Int) + t > c.expire
    match c.recvQ with
    | [] =>
      -- nni_aio_start: an aio without explicit expiry and a zero timeout fails at once
      if !useExpire && t == 0 then (s, [Out.done a (zeroRv mode) none false])
      else
        let d : Int := if useExpire then c.expire else (s.now : Int) + t
        (setCtx s { c with rq := c.rq ++ [⟨a, d⟩] }, [])
    | gm :: rest =>
      let s := setCtx s { c with recvQ := rest }
      let s := if rest.isEmpty then clearReadableIf s c.key else s
      let s := { s with delivered := s.delivered ++ [⟨c.key, a, gm.id, c.surveyId, s.now, c.expire, true⟩] }
      (s, [Out.done a 0 (some gm.m) false])

/-! ### surv0_ctx_cancel (cancel, abort, aio expiry) -/

def cancelIn (c : Ctx) (a : Nat) (rv : Nat) : Ctx × List Out :=
  if c.rq.any (·.aio == a) then
    ({ c with rq := c.rq.filter (·.aio != a), surveyId := 0 }, [Out.done a rv none false])
  else (c, [])

def cancelAio (s : State) (a : Nat) (rv : Nat) : State × List Out :=
  match s.ctxs.find? (fun c => c.rq.any (·.aio == a)) with
  | some c => let (c', o) := cancelIn c a rv; (setCtx s c', o)
  | none => (s, [])

/-- the aio expiry thread: every parked receive whose expiry is behind `now` is cancelled
    with NNG_ETIMEDOUT through surv0_ctx_cancel (which also unregisters the survey) -/
def expireCtx (now : Nat) (c : Ctx) : Ctx × List Out :=
  let due := c.rq.filter fun pk => pk.deadline < (now : Int)
  if due.isEmpty then (c, [])
  else ({ c with rq := c.rq.filter (fun pk => !(pk.deadline < (now : Int))), surveyId := 0 },
        due.map fun pk => Out.done pk.aio Err.etimedout none false)

def expire (s : State) : State × List Out :=
  ({ s with ctxs := s.ctxs.map fun c => (expireCtx s.now c).1 },
   s.ctxs.flatMap fun c => (expireCtx s.now c).2)

/-! ### pipes -/

/-- surv0_pipe_close (+ the transport side): queued surveys are flushed, the one in
    flight is released by the send callback's error branch -/
def closePipe (s : State) (p : Nat) : State × List Out :=
  match getPipe s p with
  | none => (s, [])
  | some pp =>
    if pp.closed then (s, [])
    else (setPipe s { pp with closed := true, busy := false, armed := false, sendQ := [] }, [Out.pclosed p])

/-- surv0_pipe_recv_cb on a successfully received message -/
def pipeRecv (s : State) (p : Nat) (b : Bytes) : State × List Out :=
  if b.length < 4 then
    let (s, o) := closePipe s p
    (s, [Out.rv 0] ++ o)
  else
    let id := beDecode (b.take 4)
    let gm : GMsg := ⟨s.narrive, p, id, ⟨b.take 4, b.drop 4⟩⟩
    let s := { s with narrive := s.narrive + 1 }
    match lookup s id with
    | none => (s, [Out.rv 0, Out.parm p])
    | some c =>
      if c.recvQ.length ≥ c.recvCap then (s, [Out.rv 0, Out.parm p])
      else
        match c.rq with
        | pk :: rest =>
          let s := setCtx s { c with rq := rest }
          let s := { s with delivered := s.delivered ++ [⟨c.key, pk.aio, id, c.surveyId, s.now, c.expire, false⟩] }
          (s, [Out.rv 0, Out.done pk.aio 0 (some gm.m) false, Out.parm p])
        | [] =>
          let s := setCtx s { c with recvQ := c.recvQ ++ [gm] }
          let s := if c.key == none then { s with readable := true } else s
          (s, [Out.rv 0, Out.parm p])

def aioBusy (s : State) (a : Nat) : Bool := s.ctxs.any fun c => c.rq.any (·.aio == a)

def closeAll (s : State) : State × List Out :=
  let outs1 := s.ctxs.flatMap fun c => (abortCtx c Err.eclosed).2
  let s := { s with ctxs := s.ctxs.map fun c => (abortCtx c Err.eclosed).1, readable := false }
  let (s, outs2) := s.pipes.foldl (fun (acc : State × List Out) pp =>
    let (s', o) := closePipe acc.1 pp.id
    (s', acc.2 ++ o)) (s, [])
  ({ s with closed := true }, outs1 ++ outs2)

def surveyTimeOpt : String := "surveyor:survey-time"

def step (s : State) (ev : Ev) : State × List Out :=
  if !s.opened then
    match ev with
    | .openSock _ _ =>
      ({ s with opened := true, writable := true,
                ctxs := [{ key := none, recvCap := Nng.Generated.survRecvBufInit, surveyTime := Nng.Generated.survTimeInit }] }, [.rv 0])
    | .advance ms => ({ s with now := s.now + ms }, [])
    | _ => (s, [.other "nosock"])
  else if s.closed then
    match ev with
    | .advance ms => ({ s with now := s.now + ms }, [])
    | _ => (s, [.other "nosock"])
  else
  match ev with
  | .openSock _ _ => (s, [.other "bad-op"])
  | .pipeAdd peer =>
    let id := s.pipes.length
    if peer != peerResp then
      ({ s with pipes := s.pipes ++ [{ id := id, closed := true }] }, [.pipe id, .pclosed id])
    else
      ({ s with pipes := s.pipes ++ [{ id := id, armed := true }] }, [.pipe id, .parm id])
  | .pipeDrop p =>
    match getPipe s p with
    | some pp =>
      if pp.closed then (s, [.rv (-1)])
      else let (s, o) := closePipe s p; (s, [.rv 0] ++ o)
    | none => (s, [.rv (-1)])
  | .sendDone p rv =>
    match getPipe s p with
    | some pp =>
      if pp.closed || !pp.busy then (s, [.rv (-1)])
      else if rv != 0 then
        let (s, o) := closePipe s p
        (s, [.rv 0] ++ o)
      else
        match pp.sendQ with
        | m :: rest => (setPipe s { pp with sendQ := rest }, [.rv 0, .psend p m])
        | [] => (setPipe s { pp with busy := false }, [.rv 0])
    | none => (s, [.rv (-1)])
  | .recvDone p r =>
    match getPipe s p with
    | some pp =>
      if pp.closed || !pp.armed then (s, [.rv (-1)])
      else
        match r with
        | .error _ => let (s, o) := closePipe s p; (s, [.rv 0] ++ o)
        | .ok b => pipeRecv s p b
    | none => (s, [.rv (-1)])
  | .send k a m _ =>
    if aioBusy s a then (s, [.other "aio-busy"]) else
    match getCtx s k with
    | none => (s, [.done a Err.eclosed none true])
    | some c => ctxSend s c a m
  | .recv k a mode =>
    if aioBusy s a then (s, [.other "aio-busy"]) else
    match getCtx s k with
    | none => (s, [.done a Err.eclosed none false])
    | some c => ctxRecv s c a mode
  | .cancel a => cancelAio s a Err.ecanceled
  | .abort a rv => cancelAio s a rv
  | .advance ms => expire { s with now := s.now + ms }
  | .ctxOpen k =>
    if k ≥ maxCtx then (s, [.other "bad-op"])
    else if (getCtx s (some k)).isSome then (s, [.other "ctx-in-use"])
    else
      match getCtx s none with
      | some c0 =>
        ({ s with ctxs := s.ctxs ++ [{ key := some k, recvCap := c0.recvCap, surveyTime := c0.surveyTime }] }, [.rv 0])
      | none => (s, [.other "model-invariant-broken"])
  | .ctxClose k =>
    match getCtx s (some k) with
    | none => (s, [.rv (-1)])
    | some c =>
      let (_, o) := abortCtx c Err.eclosed
      ({ s with ctxs := s.ctxs.filter (·.key != some k) }, [.rv 0] ++ o)
  | .setopt k name ty v =>
    if name == surveyTimeOpt && ty == "ms" then
      match getCtx s k with
      | none => (s, [.rv Err.eclosed])
      | some c =>
        if v < -(Nng.Generated.msOptMinNeg : Int) then (s, [.rv Err.einval])
        else (setCtx s { c with surveyTime := v }, [.rv 0])
    else if name == "ttl-max" && ty == "int" && k == none then
      if v < 1 || v > Nng.Generated.maxMaxTtl then (s, [.rv Err.einval])
      else ({ s with ttl := v }, [.rv 0])
    else (s, [.other "unmodelled-option"])
  | .getopt k name ty =>
    if name == surveyTimeOpt && ty == "ms" then
      match getCtx s k with
      | none => (s, [.rv2 Err.eclosed 0])
      | some c => (s, [.rv2 0 c.surveyTime])
    else if name == "ttl-max" && ty == "int" && k == none then (s, [.rv2 0 s.ttl])
    else (s, [.other "unmodelled-option"])
  | .poll => (s, [.poll (some s.readable) (some s.writable)])
  | .sub _ _ => (s, [.other "bad-op"])
  | .unsub _ _ => (s, [.other "bad-op"])
  | .close => closeAll s

def run (s : State) : List Ev → State × List (List Out)
  | [] => (s, [])
  | e :: es =>
    let (s', o) := step s e
    let (s'', os) := run s' es
    (s'', o :: os)

end Nng.Survey
