import NngModel.Generated.Base
/-
  Model of the scan of nni_aio_expire_loop (src/core/aio.c): one wake-up of an expire thread walks the
  whole expire list, moves up to NNI_EXPIRE_BATCH entries that are due (a_expire < now, or everything
  when the queue is being stopped) to the `expires` array, and computes eq_next as the minimum a_expire
  of every entry it leaves on the list — including entries that ARE due but did not fit the batch, which
  is what makes the thread come round again at once instead of going to sleep.

      q->eq_next = NNI_TIME_NEVER; exp_idx = 0;
      while (aio != NULL) {
          if ((q->eq_stop || aio->a_expire < now) && (exp_idx < NNI_EXPIRE_BATCH)) {
              expires[exp_idx++] = aio;  ...remove from the list...; continue;
          }
          if (aio->a_expire < q->eq_next) q->eq_next = aio->a_expire;
          aio = next;
      }

  and the test at the top of the loop:  if (now < next && !(q->eq_stop && aio != NULL)) sleep until next.
-/
namespace Nng.ExpireQ

/-- an entry of the expire list: an aio (identified by a number) and its a_expire -/
structure Ent where
  id : Nat
  expire : Nat
deriving DecidableEq, Repr

/-- NNI_TIME_NEVER = (nni_time) -1 -/
def never : Nat := 2 ^ 64 - 1

/-- the entry is taken by this pass if it is due and the batch still has room -/
def due (stop : Bool) (now : Nat) (e : Ent) : Bool := stop || decide (e.expire < now)

structure Pass where
  taken : List Ent      -- expires[0 .. exp_idx), in list order
  kept : List Ent       -- what stays on eq_list, in list order
  next : Nat            -- eq_next after the pass
deriving Repr

/-- the while loop; `k` = exp_idx so far, `next` = eq_next so far -/
def scan (batch : Nat) (stop : Bool) (now : Nat) : List Ent → Nat → Nat → Pass
  | [], _, next => { taken := [], kept := [], next := next }
  | e :: rest, k, next =>
    if due stop now e && decide (k < batch) then
      let p := scan batch stop now rest (k + 1) next
      { p with taken := e :: p.taken }
    else
      let p := scan batch stop now rest k (if e.expire < next then e.expire else next)
      { p with kept := e :: p.kept }

/-- one wake-up with the extracted batch size -/
def pass (stop : Bool) (now : Nat) (l : List Ent) : Pass := scan Generated.expireBatch stop now l 0 never

/-- the test at the top of the loop: does the thread go (back) to sleep? -/
def sleeps (stop : Bool) (now next : Nat) (l : List Ent) : Bool := decide (now < next) && !(stop && !l.isEmpty)

/-- repeated wake-ups at times that never go backwards, as long as the thread does not sleep; `fuel`
    bounds the recursion (the theorems show `l.length + 1` is always enough).  Returns the batches. -/
def drain (batch : Nat) (stop : Bool) (now : Nat) : Nat → List Ent → List (List Ent) × List Ent × Nat
  | 0, l => ([], l, never)
  | fuel + 1, l =>
    let p := scan batch stop now l 0 never
    if p.taken.isEmpty then ([], p.kept, p.next)
    else
      let (bs, r, n) := drain batch stop now fuel p.kept
      (p.taken :: bs, r, n)

end Nng.ExpireQ
