/-
  In-place model of nni_url_parse_inline_inner (src/core/url.c) after the scheme lookup: the
  URL tail "://..." sits in one buffer (`u_static`, 128 bytes, or a heap copy of strlen+1 bytes)
  and the parser shuffles it there — `memmove` of the host over the "://", NUL bytes written over
  '@', ':', ']', '?', '#', the three canonicaliser passes with their `src`/`dst` indices, the
  `dst--` scan of the dot-segment pass.  Every read and write is recorded: `Mem.safe` turns false
  on the first access outside the buffer, and also when a loop runs out of fuel (fuel = buffer
  size + 1; the theorems show it never runs out).

  `Model/Url.lean` is the functional model of the same code; `parse` here returns the same
  `R` (the driver component `url-model` compares the two on every case).  Core Lean only.
-/
import NngModel.Model.Url
import NngModel.Generated.C19
namespace Nng.UrlBuf
open Nng Nng.Url

structure Mem where
  /-- the whole allocation (an `Array` so that the compiled driver reads and writes in O(1)) -/
  buf : Array UInt8
  safe : Bool
deriving DecidableEq, Repr

/-- value at index `i` (0 outside; an outside access is flagged by `chk`) -/
def Mem.rd (m : Mem) (i : Nat) : UInt8 := m.buf.getD i 0
/-- record a read at index `i` -/
def Mem.chk (m : Mem) (i : Nat) : Mem := { m with safe := m.safe && decide (i < m.buf.size) }
/-- write at index `i` -/
def Mem.wr (m : Mem) (i : Nat) (v : UInt8) : Mem :=
  { buf := m.buf.setIfInBounds i v, safe := m.safe && decide (i < m.buf.size) }
/-- a loop ran out of fuel -/
def Mem.stuck (m : Mem) : Mem := { m with safe := false }

/-- `while (*p != 0 && !stop(*p)) p++;` — the shape of strlen, strchr and of the parser's
    own scanning loops.  Returns the index where it stopped. -/
def scan (stop : UInt8 → Bool) : Nat → Mem → Nat → Mem × Nat
  | 0, m, p => (m.stuck, p)
  | fuel + 1, m, p =>
    if (m.chk p).rd p = 0 || stop ((m.chk p).rd p) then (m.chk p, p)
    else scan stop fuel (m.chk p) (p + 1)

/-- the C string at index `p`, read up to its terminator -/
def cstr : Nat → Mem → Nat → Mem × Bytes
  | 0, m, _ => (m.stuck, [])
  | fuel + 1, m, p =>
    if (m.chk p).rd p = 0 then (m.chk p, [])
    else ((cstr fuel (m.chk p) (p + 1)).1, (m.chk p).rd p :: (cstr fuel (m.chk p) (p + 1)).2)

/-- `memmove(dst, src, n)` with dst < src: ascending byte copy -/
def copyDown : Nat → Mem → (dst src : Nat) → Mem
  | 0, m, _, _ => m
  | n + 1, m, dst, src => copyDown n ((m.chk src).wr dst ((m.chk src).rd src)) (dst + 1) (src + 1)

/-- `for (i = 0; host[i]; i++) host[i] = tolower(host[i]);` -/
def lowerLoop : Nat → Mem → Nat → Mem
  | 0, m, _ => m.stuck
  | fuel + 1, m, p =>
    if (m.chk p).rd p = 0 then m.chk p
    else lowerLoop fuel ((m.chk p).wr p (toLower ((m.chk p).rd p))) (p + 1)

/-! ### nni_url_canonify_uri, in place (`src`, `dst` are absolute indices, `o` = start of `out`) -/

/-- first pass; `none` = NNG_EINVAL -/
def canon1 : Nat → Mem → (src dst : Nat) → Mem × Bool
  | 0, m, _, _ => (m.stuck, false)
  | fuel + 1, m, src, dst =>
    let m := m.chk src
    let c := m.rd src
    if c = 0 then (m.wr dst 0, true)
    else if c = PCT then
      let m := m.chk (src + 1)
      if !isXDigit (m.rd (src + 1)) then (m, false)
      else
        let m := m.chk (src + 2)
        if !isXDigit (m.rd (src + 2)) then (m, false)
        else
          let v := Url.hexVal (m.rd (src + 1)) * 16 + Url.hexVal (m.rd (src + 2))
          if isSafe v then canon1 fuel (m.wr dst v) (src + 3) (dst + 1)
          else
            let m := m.wr dst PCT
            let m := (m.chk (src + 1)).wr (dst + 1) (toUpper ((m.chk (src + 1)).rd (src + 1)))
            let m := (m.chk (src + 2)).wr (dst + 2) (toUpper ((m.chk (src + 2)).rd (src + 2)))
            canon1 fuel m (src + 3) (dst + 3)
    else canon1 fuel (m.wr dst c) (src + 1) (dst + 1)

/-- second pass; the inner `while (out[src] == '/') src++` is a `scan` -/
def canon2 : Nat → Mem → (skip : Bool) → (src dst : Nat) → Mem
  | 0, m, _, _, _ => m.stuck
  | fuel + 1, m, skip, src, dst =>
    let m := m.chk src
    let c := m.rd src
    if c = 0 then m.wr dst 0
    else if c = SLASH && !skip then
      let r := scan (fun x => x ≠ SLASH) (fuel + 1) (m.wr dst SLASH) src
      canon2 fuel r.1 skip r.2 (dst + 1)
    else canon2 fuel (m.wr dst c) (skip || c = QM || c = HASH) (src + 1) (dst + 1)

def segEndByte (c : UInt8) : Bool := c = 0 || c = HASH || c = QM || c = SLASH

/-- `strncmp(out + src, "/..", 3) == 0 && (out[src+3] == 0 || '#' || '?' || '/')` -/
def dotDotAt (m : Mem) (src : Nat) : Mem × Bool :=
  if (m.chk src).rd src ≠ SLASH then (m.chk src, false)
  else
    let m := (m.chk src).chk (src + 1)
    if m.rd (src + 1) ≠ DOT then (m, false)
    else
      let m := m.chk (src + 2)
      if m.rd (src + 2) ≠ DOT then (m, false)
      else ((m.chk (src + 3)), segEndByte ((m.chk (src + 3)).rd (src + 3)))

/-- `strncmp(out + src, "/.", 2) == 0 && (out[src+2] == 0 || '#' || '?' || '/')` -/
def dotAt (m : Mem) (src : Nat) : Mem × Bool :=
  if (m.chk src).rd src ≠ SLASH then (m.chk src, false)
  else
    let m := (m.chk src).chk (src + 1)
    if m.rd (src + 1) ≠ DOT then (m, false)
    else ((m.chk (src + 2)), segEndByte ((m.chk (src + 2)).rd (src + 2)))

/-- `do { dst--; } while (dst && out[dst] != '/');` (`dst` relative to `o`) -/
def popLoop : Nat → Mem → (o dst : Nat) → Mem × Nat
  | 0, m, _, dst => (m.stuck, dst)
  | fuel + 1, m, o, dst =>
    if dst - 1 ≤ o then (m, dst - 1)                               -- `dst &&` fails: no read
    else if (m.chk (dst - 1)).rd (dst - 1) ≠ SLASH then popLoop fuel (m.chk (dst - 1)) o (dst - 1)
    else (m.chk (dst - 1), dst - 1)

/-- third pass -/
def canon3 : Nat → Mem → (o : Nat) → (skip : Bool) → (src dst : Nat) → Mem
  | 0, m, _, _, _, _ => m.stuck
  | fuel + 1, m, o, skip, src, dst =>
    let m := m.chk src
    let c := m.rd src
    if c = 0 then m.wr dst 0
    else if c = SLASH && !skip then
      let dd := dotDotAt m src
      if dd.2 then
        if dst > o then
          let r := popLoop (dst + 1) dd.1 o dst
          canon3 fuel r.1 o skip (src + 3) r.2
        else canon3 fuel dd.1 o skip (src + 3) dst
      else
        let d := dotAt dd.1 src
        if d.2 then canon3 fuel d.1 o skip (src + 2) dst
        else canon3 fuel (d.1.wr dst SLASH) o skip (src + 1) (dst + 1)
    else canon3 fuel (m.wr dst c) o (skip || c = QM || c = HASH) (src + 1) (dst + 1)

/-- nni_url_canonify_uri(out = buf + o); the UTF-8 validator only reads the string up to its
    terminator (it returns at the first byte that is not a continuation byte) -/
def canonifyAt (fuel : Nat) (m : Mem) (o : Nat) : Mem × Bool :=
  let r1 := canon1 fuel m o o
  if !r1.2 then (r1.1, false)
  else
    let m2 := canon2 fuel r1.1 false o o
    let m3 := canon3 fuel m2 o false o o
    let s := cstr fuel m3 o
    (s.1, utf8Validate s.2)

/-! ### the parser stages -/

/-- host scan, `*p = 0; memmove(buffer, s, strlen(s) + 1); *p = c;` — returns the path index -/
def stageHost (fuel : Nat) (m : Mem) : Mem × Nat :=
  let r := scan isAuthEnd fuel m 3
  let p := r.2
  let c := r.1.rd p
  let m := r.1.wr p 0
  let e := scan (fun _ => false) fuel m 3              -- strlen(s)
  let m := copyDown (e.2 - 3 + 1) e.1 0 3
  (m.wr p c, p)

/-- the '@' split and the lower-casing.  Result: (userinfo index, hostname index); `none` = EINVAL -/
def stageUser (fuel : Nat) (m : Mem) : Mem × Option (Option Nat × Nat) :=
  let a := scan (fun x => x = AT) fuel m 0             -- strchr(hostname, '@')
  if a.1.rd a.2 = AT then
    let m := a.1.wr a.2 0
    let b := scan (fun x => x = AT) fuel m (a.2 + 1)
    if b.1.rd b.2 = AT then (b.1, none)
    else (lowerLoop fuel b.1 (a.2 + 1), some (some 0, a.2 + 1))
  else (lowerLoop fuel a.1 0, some (none, 0))

/-- query / fragment split at path index `p`.  Result: (query index, fragment index) -/
def stageQF (fuel : Nat) (m : Mem) (p : Nat) : Mem × Option Nat × Option Nat :=
  let r := scan isPathEnd fuel m p
  let q := r.2
  if r.1.rd q = QM then
    let m := r.1.wr q 0
    let f := scan (fun x => x = HASH) fuel m (q + 1)
    if f.1.rd f.2 = HASH then (f.1.wr f.2 0, some (q + 1), some (f.2 + 1))
    else (f.1, some (q + 1), none)
  else if r.1.rd q = HASH then (r.1.wr q 0, none, some (q + 1))
  else (r.1, none, none)

/-- "[...]" / name and the ':' of the port.  Result: (hostname index, port text index);
    outer `none` = EINVAL -/
def stageHostPort (fuel : Nat) (m : Mem) (host : Nat) : Mem × Option (Nat × Option Nat) :=
  let m := m.chk host
  if m.rd host = LBR then
    let b := scan (fun x => x = RBR || x = LBR) fuel m (host + 1)
    if b.1.rd b.2 ≠ RBR then (b.1, none)                 -- '\0' or '[' before ']'
    else
      let m := (b.1.wr b.2 0).chk (b.2 + 1)
      let c := m.rd (b.2 + 1)
      if c ≠ COLON && c ≠ 0 then (m, none)
      else if c = COLON then (m.wr (b.2 + 1) 0, some (host + 1, some (b.2 + 2)))
      else (m, some (host + 1, none))
  else
    let b := scan (fun x => x = COLON) fuel m host
    if b.1.rd b.2 = COLON then (b.1.wr b.2 0, some (host, some (b.2 + 1)))
    else (b.1, some (host, none))

structure R where
  rv : Nat
  url : Option Url
  mem : Mem
deriving DecidableEq, Repr

def optStr (fuel : Nat) (m : Mem) : Option Nat → Mem × Option Bytes
  | none => (m, none)
  | some i => ((cstr fuel m i).1, some (cstr fuel m i).2)

/-- `if (c == ':') { if (*p == '\0') ...; if (!isalnum(*p)) ...; nni_get_port_by_name(p, ..) }
    else nni_url_default_port(scheme)`; strtol / getservbyname read the string at `p` -/
def portOf (fuel : Nat) (scheme : Bytes) (m : Mem) : Option Nat → Mem × Option Nat
  | some pi =>
    if (cstr fuel m pi).2.isEmpty then ((cstr fuel m pi).1, none)
    else ((cstr fuel m pi).1, parsePort (cstr fuel m pi).2)
  | none => (m, some (defaultPort scheme))

/-- host length check, port, and the fields as the caller reads them -/
def finish (fuel : Nat) (scheme : Bytes) (bufsz : Nat) (m : Mem) (ui : Option Nat) (p : Nat)
    (q f : Option Nat) (hostI : Nat) (portI : Option Nat) : R :=
  let name := cstr fuel m hostI                          -- strlen(u_hostname)
  if name.2.length ≥ Generated.urlHostMax then ⟨Err.einval, none, name.1⟩
  else
    let pr := portOf fuel scheme name.1 portI
    match pr.2 with
    | none => ⟨Err.einval, none, pr.1⟩
    | some port =>
      let uiS := optStr fuel pr.1 ui
      let pathS := cstr fuel uiS.1 p
      let qS := optStr fuel pathS.1 q
      let fS := optStr fuel qS.1 f
      ⟨0, some ⟨scheme, uiS.2, some name.2, port, pathS.2, qS.2, fS.2, bufsz⟩, fS.1⟩

/-- query/fragment split, then the host/port split -/
def afterCanon (fuel : Nat) (scheme : Bytes) (bufsz : Nat) (m : Mem) (ui : Option Nat) (host p : Nat) : R :=
  let qf := stageQF fuel m p
  let hp := stageHostPort fuel qf.1 host
  match hp.2 with
  | none => ⟨Err.einval, none, hp.1⟩
  | some (hostI, portI) => finish fuel scheme bufsz hp.1 ui p qf.2.1 qf.2.2 hostI portI

/-- canonicaliser on the path, then the rest -/
def afterUser (fuel : Nat) (scheme : Bytes) (bufsz : Nat) (m : Mem) (ui : Option Nat) (host p : Nat) : R :=
  let c := canonifyAt fuel m p
  if !c.2 then ⟨Err.einval, none, c.1⟩
  else afterCanon fuel scheme bufsz c.1 ui host p

/-- everything after the special-scheme return, on the buffer -/
def parseAuthorityF (fuel : Nat) (scheme : Bytes) (bufsz : Nat) (m : Mem) : R :=
  let h := stageHost fuel m
  let u := stageUser fuel h.1
  match u.2 with
  | none => ⟨Err.einval, none, u.1⟩
  | some (ui, host) => afterUser fuel scheme bufsz u.1 ui host h.2

/-- loop fuel: one more than the buffer size -/
def parseAuthority (scheme : Bytes) (bufsz : Nat) (m : Mem) : R :=
  parseAuthorityF (m.buf.size + 1) scheme bufsz m

/-- nng_url_parse once the tail has been copied into the buffer `m` -/
def parseMem (raw : Bytes) (m : Mem) : R :=
  let len := schemeLen raw
  let s := raw.drop len
  if !strncmpEq s sep 3 then ⟨Err.einval, none, m⟩
  else
    match lookupScheme raw len with
    | none => ⟨Err.enotsup, none, m⟩
    | some scheme =>
      let bufsz := if s.length ≥ Generated.urlInlineSize then s.length + 1 else 0
      if specialSchemes.contains scheme then
        ⟨0, some ⟨scheme, none, none, 0, (cstr (m.buf.size + 1) m 3).2, none, none, bufsz⟩,
          (cstr (m.buf.size + 1) m 3).1⟩
      else parseAuthority scheme bufsz m

/-- nng_url_parse with the buffer: `pad` is whatever follows the copied string in the
    allocation (nothing for the exact-size heap copy, the rest of `u_static` otherwise) -/
def parseWith (raw pad : Bytes) : R :=
  parseMem raw ⟨(raw.drop (schemeLen raw) ++ 0 :: pad).toArray, true⟩

/-- the allocation nng_url_parse makes for `raw`: exact heap copy or the inline buffer -/
def padFor (raw : Bytes) : Bytes :=
  let s := raw.drop (schemeLen raw)
  if s.length ≥ Generated.urlInlineSize then [] else List.replicate (Generated.urlInlineSize - s.length - 1) 0xAA

def parse (raw : Bytes) : R := parseWith raw (padFor raw)

end Nng.UrlBuf
