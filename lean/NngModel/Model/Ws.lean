/-
  Model of the WebSocket frame layer of src/supplemental/websocket/websocket.c, function by
  function: ws_apply_mask (stride structure), ws_mask_frame, ws_msg_init_control,
  ws_frame_prep_tx + the resubmission loop of ws_write_cb (fragmentation), and the receiver
  ws_read_cb / ws_read_frame_cb / ws_read_finish_{msg,str} / ws_close / ws_send_close /
  ws_send_control / ws_start_read.

  The receiver is driven by "exactly n more bytes" requests (nni_http_read_full); the byte
  transport under it is modelled by `rxByte`, which accumulates bytes until the outstanding
  request is satisfied and then runs one `readCb` (= one ws_read_cb invocation).

  Discipline assumed for the user side (and imposed by harness/u_ws.c): one receive is always
  posted while the connection is not closed (ws_close aborts it, it is not re-posted), the
  stream-mode receive buffer is larger than any frame, `ws->ready` is set.
  Core Lean only.
-/
import NngModel.Base.Bytes
import NngModel.Generated.C16
namespace Nng.Ws

structure Cfg where
  server : Bool
  isstream : Bool := false
  recvText : Bool := false
  sendText : Bool := false
  maxframe : Nat := 0
  recvmax : Nat := 0
  fragsize : Nat := 0
  /-- allocations larger than this fail (environment; harness installs the same limit) -/
  allocLimit : Nat := 2 ^ 40
  deriving Repr

def sizeMax : Nat := 2 ^ 64

/-! ### ws_apply_mask -/

/-- bytewise reference: byte i is xored with key[(off+i) mod 4] -/
def maskFrom (key : Bytes) : Nat → Bytes → Bytes
  | _, [] => []
  | off, b :: bs => (b ^^^ key.getD (off % 4) 0) :: maskFrom key (off + 1) bs

def applyMaskBytewise (key buf : Bytes) : Bytes := maskFrom key 0 buf

/-- the 4/8/16-byte mask word: the key repeated (mask32, mask64 = mask32<<32|mask32, mask128 = 4 lanes) -/
def repKey (key : Bytes) : Nat → Bytes
  | 0 => []
  | n + 1 => key ++ repKey key n

def xorWord (key : Bytes) (w : Nat) (blk : Bytes) : Bytes :=
  List.zipWith (· ^^^ ·) blk (repKey key (w / 4))

/-- `while (len >= w) { word ^= maskW; buf += w; len -= w; }` : returns (processed, rest) -/
def stride (key : Bytes) (w : Nat) : Nat → Bytes → Bytes × Bytes
  | 0, buf => ([], buf)
  | fuel + 1, buf =>
    if buf.length ≥ w ∧ w > 0 then
      let r := stride key w fuel (buf.drop w)
      (xorWord key w (buf.take w) ++ r.1, r.2)
    else ([], buf)

/-- `for (i = 0; i < len; i++) buf[i] ^= mask[i];` -/
def maskTail (key : Bytes) : Nat → Bytes → Bytes
  | _, [] => []
  | i, b :: bs => (b ^^^ key.getD i 0) :: maskTail key (i + 1) bs

/-- ws_apply_mask on x86-64/aarch64: 16-byte SIMD stride, 8-byte stride, 4-byte stride, tail -/
def applyMask (key buf : Bytes) : Bytes :=
  let a := stride key 16 buf.length buf
  let b := stride key 8 a.2.length a.2
  let c := stride key 4 b.2.length b.2
  a.1 ++ (b.1 ++ (c.1 ++ maskTail key 0 c.2))

/-! ### frame construction -/

def opCont : Nat := 0
def opText : Nat := 1
def opBinary : Nat := 2
def opClose : Nat := 8
def opPing : Nat := 9
def opPong : Nat := 10

/-- length byte and extended length as ws_frame_prep_tx writes them -/
def lenBytes (len : Nat) : Bytes :=
  if len < 126 then [UInt8.ofNat (len % 128)]
  else if len < 65536 then UInt8.ofNat 126 :: beEncode 2 (len % 65536)
  else UInt8.ofNat 127 :: beEncode 8 len

/-- head[0] = op (| 0x80 if final), for op < 128 -/
def head0 (op : Nat) (final : Bool) : UInt8 := UInt8.ofNat (op % 128 + (if final then 128 else 0))

/-- header of an unmasked frame -/
def header (op : Nat) (final : Bool) (len : Nat) : Bytes := head0 op final :: lenBytes len

/-- ws_mask_frame: key appended to the header, mask bit set in head[1], payload masked -/
def setMaskBit : Bytes → Bytes
  | b0 :: b1 :: rest => b0 :: UInt8.ofNat (b1.toNat % 128 + 128) :: rest
  | h => h

/-- the bytes put on the wire for one frame (header iov followed by payload iov) -/
def encode (server : Bool) (key : Bytes) (op : Nat) (final : Bool) (payload : Bytes) : Bytes :=
  if server then header op final payload.length ++ payload
  else setMaskBit (header op final payload.length) ++ (key ++ applyMask key payload)

/-- stand-in for nni_random (harness/u_ws.c installs the same LCG); NNI_PUT32 gives the key -/
def nextRand (r : Nat) : Nat := (r * 1664525 + 1013904223) % 2 ^ 32
def keyOf (r : Nat) : Bytes := beEncode 4 r

/-- ws_msg_init_control: `none` = NNG_EINVAL; head[0] = op|0x80, head[1] = len&0x7f -/
def encodeControl (server : Bool) (rng : Nat) (op : Nat) (payload : Bytes) : Option (Bytes × Nat) :=
  if payload.length > 125 then none
  else if server then some (encode true [] op true payload, rng)
  else some (encode false (keyOf (nextRand rng)) op true payload, nextRand rng)

/-! ### sending a message: ws_str_send, ws_frame_prep_tx, ws_write_cb resubmission -/

structure TxRes where
  frames : List Bytes
  count : Nat      -- nni_aio_count at completion
  rng : Nat

def sendLoop (cfg : Cfg) : Nat → Nat → Nat → Bytes → TxRes
  | 0, count, rng, _ => { frames := [], count := count, rng := rng }
  | fuel + 1, count, rng, rest =>
    let clip := decide (rest.length > cfg.fragsize) && decide (cfg.fragsize > 0)
    let len := if clip then cfg.fragsize else rest.length
    let final := if clip then cfg.isstream else true
    let op := if count = 0 then (if cfg.sendText then opText else opBinary) else opCont
    let rng' := if cfg.server then rng else nextRand rng
    let fr := encode cfg.server (keyOf rng') op final (rest.take len)
    if final then { frames := [fr], count := count + len, rng := rng' }
    else
      let r := sendLoop cfg fuel (count + len) rng' (rest.drop len)
      { r with frames := fr :: r.frames }

/-- data = header ++ body of the nng_msg (message mode) or the iov contents (stream mode) -/
def sendMsg (cfg : Cfg) (rng : Nat) (data : Bytes) : TxRes := sendLoop cfg (data.length + 1) 0 rng data

/-- cutting a byte string into frames of at most `fs` bytes (0 = no limit), as the sender does -/
def fragmentAux (fs : Nat) : Nat → Bytes → List Bytes
  | 0, _ => []
  | fuel + 1, rest =>
    if rest.length > fs ∧ fs > 0 then rest.take fs :: fragmentAux fs fuel (rest.drop fs) else [rest]

def fragment (fs : Nat) (data : Bytes) : List Bytes := fragmentAux fs (data.length + 1) data

/-! ### receiver -/

structure RxFrame where
  b0 : UInt8 := 0
  b1 : UInt8 := 0
  ext : Bytes := []      -- head[2 .. hlen)
  hlen : Nat := 2
  len : Nat := 0
  op : Nat := 0
  final : Bool := false
  masked : Bool := false
  mask : Bytes := []
  deriving Repr

inductive Phase where
  | head                  -- reading the first two bytes
  | ext (f : RxFrame)     -- reading the rest of the header
  | data (f : RxFrame)    -- reading the payload
  | idle                  -- no read outstanding (closed, or error)
  deriving Repr

inductive Ev where
  | msg (b : Bytes)       -- message completed to the receiver (message mode)
  | data (b : Bytes)      -- bytes completed to the receiver (stream mode)
  | tx (b : Bytes)        -- frame written
  | err (rv : Nat)        -- pending receive failed with this nng error
  deriving Repr

structure St where
  phase : Phase := .head
  want : Nat := 2
  got : Nat := 0
  accR : Bytes := []       -- bytes of the outstanding read so far, newest first
  inmsg : Bool := false
  rxq : List Bytes := []   -- payloads of the queued data frames
  closed : Bool := false
  peerClosed : Bool := false
  rng : Nat := 0
  deriving Repr

def closeErr : Nat := 7 -- NNG_ECLOSED

/-- ws_close: abort the pending receive; if not yet closed, ws_send_close(code) -/
def wsClose (cfg : Cfg) (s : St) (code : Nat) : St × List Ev :=
  if s.closed then (s, [])
  else
    match encodeControl cfg.server s.rng opClose (beEncode 2 code) with
    | some (fr, rng') => ({ s with closed := true, rng := rng' }, [.tx fr, .err closeErr])
    | none => ({ s with closed := true }, [.err closeErr])

/-- error return paths of ws_read_cb / ws_read_frame_cb: ws_close(code); rxframe stays set,
    so ws_start_read does nothing and no read is outstanding any more -/
def fail (cfg : Cfg) (s : St) (code : Nat) : St × List Ev :=
  let r := wsClose cfg s code
  ({ r.1 with phase := .idle, want := 0, got := 0, accR := [] }, r.2)

/-- ws_send_control -/
def sendControl (cfg : Cfg) (s : St) (op : Nat) (payload : Bytes) : St × List Ev :=
  if s.closed then (s, [])
  else
    match encodeControl cfg.server s.rng op payload with
    | some (fr, rng') => ({ s with rng := rng' }, [.tx fr])
    | none => (s, [])

/-- ws_read_finish_msg (the waiter exists iff the connection is not closed) -/
def readFinishMsg (s : St) : St × List Ev :=
  if s.inmsg || s.rxq.isEmpty || s.closed then (s, [])
  else ({ s with rxq := [] }, [.msg s.rxq.flatten])

/-- ws_read_finish_str with one waiter whose buffer is larger than the queued data -/
def readFinishStr (s : St) : St × List Ev :=
  if s.closed then (s, [])
  else
    match s.rxq.dropWhile (·.isEmpty) with
    | [] => ({ s with rxq := [] }, [])
    | q => ({ s with rxq := [] }, [.data q.flatten])

def readFinish (cfg : Cfg) (s : St) : St × List Ev :=
  if cfg.isstream then readFinishStr s else readFinishMsg s

/-- ws_start_read after a frame was consumed (rxframe = NULL) -/
def startRead (s : St) : St :=
  if s.closed then { s with phase := .idle, want := 0, got := 0, accR := [] }
  else { s with phase := .head, want := 2, got := 0, accR := [] }

def finishAndRestart (cfg : Cfg) (s : St) (evs : List Ev) : St × List Ev :=
  let r := readFinish cfg s
  (startRead r.1, evs ++ r.2)

/-- the WS_TEXT (after its check) / WS_BINARY case -/
def dataFrame (cfg : Cfg) (s : St) (f : RxFrame) (payload : Bytes) : St × List Ev :=
  if s.inmsg then fail cfg s 1002
  else finishAndRestart cfg { s with inmsg := !f.final, rxq := s.rxq ++ [payload] } []

/-- ws_read_frame_cb followed by ws_start_read -/
def frameCb (cfg : Cfg) (s : St) (f : RxFrame) (payload : Bytes) : St × List Ev :=
  if f.op = 0 then
    if !s.inmsg then fail cfg s 1002
    else finishAndRestart cfg { s with inmsg := if f.final then false else s.inmsg, rxq := s.rxq ++ [payload] } []
  else if f.op = 1 then
    if !cfg.recvText then fail cfg s 1003 else dataFrame cfg s f payload
  else if f.op = 2 then dataFrame cfg s f payload
  else if f.op = 9 then
    if f.len > 125 then fail cfg s 1002
    else
      let r := sendControl cfg s opPong payload
      finishAndRestart cfg r.1 r.2
  else if f.op = 10 then
    if f.len > 125 then fail cfg s 1002 else finishAndRestart cfg s []
  else if f.op = 8 then
    -- peer_closed = true; reply with a close if we have not sent one; no further read
    fail cfg { s with peerClosed := true } 1000
  else fail cfg s 1002

/-- "At this point, we have a complete frame": ws_unmask_frame, ws_read_frame_cb, ws_start_read -/
def complete (cfg : Cfg) (s : St) (f : RxFrame) (payload : Bytes) : St × List Ev :=
  frameCb cfg s f (if f.masked then applyMask f.mask payload else payload)

/-- sum of the queued frame lengths added to this frame's length, in size_t arithmetic -/
def totlen (s : St) (len : Nat) : Nat := (len + (s.rxq.map List.length).sum) % sizeMax

/-- the payload length announced by a complete header (NNI_GET64 / NNI_GET16 / the 7-bit field) -/
def hdrLen (f0 : RxFrame) : Nat :=
  if f0.b1.toNat % 128 = 127 then beDecode (f0.ext.take 8)
  else if f0.b1.toNat % 128 = 126 then beDecode (f0.ext.take 2) else f0.b1.toNat % 128

/-- header accepted: "If we expected data, then ask for it", else the frame is complete -/
def acceptHdr (cfg : Cfg) (s : St) (f0 : RxFrame) : St × List Ev :=
  let f := { f0 with len := hdrLen f0, mask := if f0.masked then (f0.ext.drop (f0.hlen - 6)).take 4 else [] }
  if hdrLen f0 ≠ 0 then
    if hdrLen f0 ≥ 126 ∧ hdrLen f0 > cfg.allocLimit then fail cfg s 1011
    else ({ s with phase := .data f, want := hdrLen f0, got := 0, accR := [] }, [])
  else complete cfg s f []

/-- the `frame->buf == NULL` block of ws_read_cb: header complete, decide what to read next -/
def checks (cfg : Cfg) (s : St) (f0 : RxFrame) : St × List Ev :=
  if f0.b1.toNat % 128 = 127 ∧ hdrLen f0 < 65536 then fail cfg s 1002
  else if f0.b1.toNat % 128 = 126 ∧ hdrLen f0 < 126 then fail cfg s 1002
  else if hdrLen f0 > cfg.maxframe ∧ cfg.maxframe > 0 then fail cfg s 1009
  else if cfg.isstream = false ∧ cfg.recvmax > 0 ∧ (Generated.wsRecvmaxSkipsControl = false ∨ f0.op / 8 % 2 = 0) ∧
      totlen s (hdrLen f0) > cfg.recvmax then fail cfg s 1009
  else if f0.masked = true ∧ cfg.server = false then fail cfg s 1002
  else if f0.masked = false ∧ cfg.server = true then fail cfg s 1002
  else acceptHdr cfg s f0

/-- `frame->hlen == 0` block of ws_read_cb: the first two bytes arrived -/
def headCb (cfg : Cfg) (s : St) (b0 b1 : UInt8) : St × List Ev :=
  let masked := decide (b1.toNat ≥ 128)
  let l7 := b1.toNat % 128
  let hlen := 2 + (if masked then 4 else 0) + (if l7 = 127 then 8 else if l7 = 126 then 2 else 0)
  let f : RxFrame := { b0 := b0, b1 := b1, hlen := hlen, op := b0.toNat % 128, final := decide (b0.toNat ≥ 128), masked := masked }
  if hlen ≠ 2 then ({ s with phase := .ext f, want := hlen - 2, got := 0, accR := [] }, [])
  else checks cfg s f

/-- while ws_read_cb runs no read is outstanding -/
def idleOf (s : St) : St := { s with phase := .idle, want := 0, got := 0, accR := [] }

/-- one ws_read_cb invocation: the outstanding read completed with exactly `bytes` -/
def readCb (cfg : Cfg) (s : St) (bytes : Bytes) : St × List Ev :=
  match s.phase with
  | .head => headCb cfg (idleOf s) (bytes.getD 0 0) (bytes.getD 1 0)
  | .ext f => checks cfg (idleOf s) { f with ext := bytes }
  | .data f => complete cfg (idleOf s) f bytes
  | .idle => (idleOf s, [])

/-- the transport under the frame layer: accumulate until the outstanding request is satisfied -/
def rxByte (cfg : Cfg) (s : St) (b : UInt8) : St × List Ev :=
  if s.want = 0 then (s, [])
  else if s.got + 1 < s.want then ({ s with got := s.got + 1, accR := b :: s.accR }, [])
  else readCb cfg s (b :: s.accR).reverse

/-- feed a block of received bytes (any cut of the stream) -/
def rx (cfg : Cfg) : St → Bytes → St × List Ev
  | s, [] => (s, [])
  | s, b :: bs =>
    let r1 := rxByte cfg s b
    let r2 := rx cfg r1.1 bs
    (r2.1, r1.2 ++ r2.2)

/-- tail-recursive form used by the compiled driver (equal to `rx`, see Proofs/Ws.lean) -/
def rxFold (cfg : Cfg) (s : St) (bs : Bytes) : St × List Ev :=
  bs.foldl (fun acc b => let r := rxByte cfg acc.1 b; (r.1, acc.2 ++ r.2)) (s, [])

/-- user close: ws_close_error(ws, WS_CLOSE_NORMAL_CLOSE); the outstanding read stays -/
def userClose (cfg : Cfg) (s : St) : St × List Ev := wsClose cfg s 1000

end Nng.Ws
