/-
  Model of the aio completion lists of src/core/aio.c (nni_aio_completions_add / _run): protocols collect the aios
  they are going to complete while holding their lock and complete them after dropping it.  The list is threaded
  through the aio's REAP NODE (a_reap_node.rn_next), which the callback of a completed aio may reuse at once
  (nng_aio_reap on its own aio, or freeing it): so `run` must have taken the link out of the node before it
  calls the callback.

      add:  aio->a_reap_node.rn_next = *clp; ... *clp = aio;             (prepends: LIFO)
      run:  cl = *clp; *clp = NULL;
            while ((aio = cl) != NULL) { cl = aio->rn_next; aio->rn_next = NULL; finish_sync(aio, ...); }
-/
namespace Nng.Completions

/-- rn_next of every aio (aios are numbers) -/
abbrev Mem := Nat → Option Nat

def add (m : Mem) (head : Option Nat) (a : Nat) : Mem × Option Nat :=
  (fun x => if x = a then head else m x, some a)

def addAll (l : List Nat) : Mem × Option Nat :=
  l.foldl (fun st a => add st.1 st.2 a) (fun _ => none, none)

/-- nni_aio_completions_run; `cb a m` is whatever the callback of aio `a` does to the reap nodes; returns the aios whose
    callbacks ran, in order.  `fuel` bounds the walk (the list is finite: fuel = number of adds suffices). -/
def run (cb : Nat → Mem → Mem) : Nat → Mem → Option Nat → List Nat
  | 0, _, _ => []
  | _ + 1, _, none => []
  | f + 1, m, some a =>
    let nxt := m a
    let m1 : Mem := fun x => if x = a then none else m x
    a :: run cb f (cb a m1) nxt

/-- the seeded variant: the link is read (and cleared) AFTER the callback ran -/
def runLate (cb : Nat → Mem → Mem) : Nat → Mem → Option Nat → List Nat
  | 0, _, _ => []
  | _ + 1, _, none => []
  | f + 1, m, some a =>
    let m2 := cb a m
    let nxt := m2 a
    a :: runLate cb f (fun x => if x = a then none else m2 x) nxt

/-- a callback touches only the reap node of its own aio -/
def OwnNodeOnly (cb : Nat → Mem → Mem) : Prop := ∀ a m x, x ≠ a → cb a m x = m x

end Nng.Completions
