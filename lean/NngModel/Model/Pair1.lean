/-
  Executable model of src/sp/protocol/pair1/pair.c (cooked and raw; polyamorous mode lives
  in pair1_poly.c and is outside the statement).  The machine is the one of
  Model/Pair0.lean; this file supplies what pair1 adds: the 32-bit hop-count header.

    * pair1_sock_send, raw:    header length ≠ 4 or value ≥ 0xff ⇒ NNG_EPROTO, message left
                               with the caller;
                      cooked:  any header is replaced by the hop count 0;
    * pair1_pipe_send:         hop count + 1 (32-bit wrap) just before the transport;
    * pair1_pipe_recv_cb:      body shorter than 4 bytes or header word > 0xff ⇒ close the
                               pipe; header word > ttl ⇒ drop, post the next receive;
                               otherwise move the 4 bytes into the header and deliver.
-/
import NngModel.Model.Pair0
import NngModel.Generated.C08
namespace Nng.Pair1
open Nng Nng.Proto Nng.Pair0

def rxHopLimit : Nat := Nng.Generated.pair1RxHopLimit
def txHopLimit : Nat := Nng.Generated.pair1TxHopLimit

inductive HopVerdict
  | close                  -- malformed: disconnect the sender, deliver nothing
  | drop                   -- too many hops: discard, stay connected
  | deliver (hdr : Nat)    -- deliver with this hop count in the header
deriving Repr, DecidableEq, Inhabited

/-- the receive decision as a function of (transport body length, first 32-bit word, ttl);
    the word is only read when `len ≥ 4` (C short-circuit `||`), and `(int) hdr > ttl` is
    evaluated only for `hdr ≤ 0xff`, where the cast is the identity -/
def hopDecision (len : Nat) (hdr : Nat) (ttl : Nat) : HopVerdict :=
  if len < 4 || hdr > rxHopLimit then .close
  else if hdr > ttl then .drop
  else .deliver hdr

def rxDecide (ttl : Nat) (b : Bytes) : RxDecision :=
  match hopDecision b.length (beDecode (b.take 4)) ttl with
  | .close => .close
  | .drop => .drop
  | .deliver h => .deliver ⟨beEncode 4 h, b.drop 4⟩

/-- raw-mode header check of pair1_sock_send -/
def rawHeaderOk (hdr : Bytes) : Bool := hdr.length == 4 && beDecode hdr < txHopLimit

def txPrep (raw : Bool) (m : WMsg) : Except Nat WMsg :=
  if raw then
    if rawHeaderOk m.hdr then .ok m else .error Err.eproto
  else .ok ⟨beEncode 4 0, m.body⟩

/-- nni_msg_header_poke_u32(m, nni_msg_header_peek_u32(m) + 1) -/
def txWire (m : WMsg) : WMsg :=
  ⟨beEncode 4 ((beDecode (m.hdr.take 4) + 1) % 2 ^ 32) ++ m.hdr.drop 4, m.body⟩

def variant : Variant where
  peer := Nng.Generated.pair1Peer
  sendBufMax := Nng.Generated.pair1SendBufMax
  recvBufMax := Nng.Generated.pair1RecvBufMax
  sendBufInit := Nng.Generated.pair1SendBufInit
  recvBufInit := Nng.Generated.pair1RecvBufInit
  hasTtl := true
  ttlInit := Nng.Generated.pair1TtlInit
  ttlMin := Nng.Generated.pair1TtlMin
  ttlMax := Nng.Generated.pair1TtlMax
  txPrep := txPrep
  txWire := txWire
  rxDecide := rxDecide

def step1 : State → Ev → State × List Out := step variant

def showVerdict : HopVerdict → String
  | .close => "close"
  | .drop => "drop"
  | .deliver h => s!"deliver {h}"

end Nng.Pair1
