/-
  C11 (extension C11T) — the listening SP/UDP endpoint for ALL interleavings.

  `Model/HostileNet.lean` (`udpStep`) describes the endpoint in *settled* states only: every pipe has
  exactly one receive posted, the reaper has finished every close.  This file is the transport by itself
  (src/sp/transport/udp/udp.c), with the layers above it (protocol, socket, reaper, timer) as events:

    * `dgram d`   udp_rx_cb for a datagram of that address (udp_recv_data / _creq / _cack / _disc)
    * `recv`      udp_pipe_recv: the protocol posts a receive on the pipe of that address
    * `close`     udp_pipe_close: the reaper runs the transport close (after anybody's nni_pipe_close)
    * `timeout`   udp_timer_cb found the pipe of that address expired (now > p->expire, pipe owned by the socket)

  per pipe: p->peer, p->closed, p->rx_mq (oldest first; nni_lmq is a bounded FIFO: Props/C18 L2), the number of
  receives in p->rx_aios.  Shared by all addresses, and modelled as such: ep->peer_count against ep->max_peers,
  the transmit ring ep->tx_ring (count against size), the statistics counters (as per-step increments).
  Not modelled: time (the timer is an event), allocation failure (NNG_ENOMEM paths), the dialer side, pipes still
  waiting for an accept (udp_ep_match), ep->closed.

  `armedStep` puts the socket of `udpStep` on top (one receive posted per pipe, protocol callback, pipe_start
  verdict, reaper at once); Proofs/HostileNetQ.lean proves that it IS `udpStep`, the model the REAL executor
  is compared with on every run.

  Second part: the peer table as the code has it — an id map probed from nng_sockaddr_hash(address) without
  tombstones (udp_find_pipe / udp_add_pipe / udp_remove_pipe).

  Core Lean only.
-/
import NngModel.Model.HostileNet
import NngModel.Generated.C11T
namespace Nng.Hostile
open Nng

def discInactive : Nat := Generated.c11bUdpDisc.getD 5 6

/-- what the datagram path reads from a started udp_ep -/
structure QCfg where
  rcvmax : Nat                                          -- ep->rcvmax (= p->rcvmax of every pipe)
  copymax : Nat := Generated.c11UdpCopyMax              -- ep->copymax
  maxPeers : Nat := Generated.c11bUdpMaxPeers           -- ep->max_peers
  qcap : Nat := Generated.c11bUdpRxQueueLen             -- capacity of p->rx_mq
  txSize : Nat := Generated.c11tUdpTxQueueLen           -- ep->tx_ring.size
deriving Repr, DecidableEq

/-- a udp_pipe the endpoint finds under the sender's address -/
structure QPipe where
  peer : Nat                       -- p->peer
  closed : Bool := false           -- p->closed
  rxq : List Bytes := []           -- p->rx_mq, oldest first
  aios : Nat := 0                  -- length of p->rx_aios
deriving Repr, DecidableEq

inductive QEv where
  | dgram (d : Bytes)
  | recv
  | close
  | timeout
deriving Repr, DecidableEq

/-- statistics counters of the endpoint (nni_stat_inc by one) -/
inductive QStat where
  | rcvNomatch | rcvToobig | rcvCopy | rcvNocopy | rcvNobuf | peerReject | peerInactive
deriving Repr, DecidableEq

structure QOut where
  act : UdpAct := .ignore          -- udp_rx_cb's decision (datagram events)
  replies : List URep := []        -- udp_queue_tx calls, addressed to the event's address, in order
  handed : List Bytes := []        -- receives completed with a message, in order
  failed : Nat := 0                -- receives completed with NNG_ECLOSED
  pclose : Bool := false           -- the transport called nni_pipe_close (the reaper's `close` follows)
  added : Bool := false            -- a new pipe exists (handed to the accept machinery)
  removed : Bool := false          -- the address was forgotten (udp_remove_pipe)
  stats : List QStat := []
deriving Repr, DecidableEq

/-- udp_send_disc(ep, p, reason) after what `o` already says -/
def qSendDisc (p : QPipe) (reason : Nat) (o : QOut) : QPipe × QOut :=
  if p.closed then (p, o)
  else ({ p with closed := true, aios := 0 },
        { o with replies := o.replies ++ [.disc reason], failed := o.failed + p.aios, pclose := true })

/-- udp_recv_data once the pipe is found and the length rule passed; `pl` is the declared prefix.
    (Nothing looks at p->closed: a closed, not yet forgotten pipe still queues.) -/
def qRecvData (c : QCfg) (p : QPipe) (pl : Bytes) : QPipe × QOut :=
  let fullq : Bool := decide (p.rxq.length ≥ c.qcap)                       -- nni_lmq_full
  let q1 := if fullq then p.rxq.drop 1 else p.rxq                         -- drop the OLDEST
  let q2 := q1 ++ [pl]                                                    -- nni_lmq_put
  let k := min p.aios q2.length                                           -- while (aio && !empty) hand over
  ({ p with rxq := q2.drop k, aios := p.aios - k },
   { act := .data pl, handed := q2.take k,
     stats := (if fullq then [QStat.rcvNobuf] else []) ++ [if pl.length ≤ c.copymax then QStat.rcvCopy else QStat.rcvNocopy] })

/-- udp_recv_creq, known sender (a refresh; nothing looks at p->closed: a closed pipe is answered too) -/
def qCreqKnown (x : QPipe) (act : UdpAct) (t rf : Nat) : Option QPipe × QOut :=
  if x.peer ≠ t then let r := qSendDisc x discType { act := act }; (some r.1, r.2)
  else if rf = 0 then let r := qSendDisc x discNego { act := act }; (some r.1, r.2)
  else (some x, { act := act, replies := [.cack] })

/-- udp_recv_creq, new sender; `limit`: max_peers != 0 && peer_count >= max_peers -/
def qCreqNew (limit : Bool) (act : UdpAct) (t rf : Nat) : Option QPipe × QOut :=
  if limit then (none, { act := act, replies := [.disc discNobuf], stats := [.peerReject] })
  else if rf = 0 then (none, { act := act, replies := [.disc discNego] })
  else (some { peer := t }, { act := act, replies := [.cack], added := true })

/-- udp_recv_cack -/
def qCackKnown (x : QPipe) (act : UdpAct) (t rf : Nat) : Option QPipe × QOut :=
  if x.closed then (some x, { act := act })
  else if x.peer ≠ t then let r := qSendDisc x discType { act := act }; (some r.1, r.2)
  else if rf = 0 then let r := qSendDisc x discNego { act := act }; (some r.1, r.2)
  else (some x, { act := act })

/-- the dispatch of udp_rx_cb on its decision `act` for a sender whose pipe is `p` -/
def qOnAct (c : QCfg) (limit : Bool) (act : UdpAct) (p : Option QPipe) : Option QPipe × QOut :=
  match act, p with
  | .noMatch, _ => (p, { act := act, stats := [.rcvNomatch] })
  | .data pl, some x => let r := qRecvData c x pl; (some r.1, r.2)
  | .discMsgsize, some x => let r := qSendDisc x discMsgsize { act := act, stats := [.rcvToobig] }; (some r.1, r.2)
  | .creq t _ rf, some x => qCreqKnown x act t rf
  | .creq t _ rf, none => qCreqNew limit act t rf
  | .cack t _ rf, some x => qCackKnown x act t rf
  | .disc _, some x => (some { x with closed := true, aios := 0 }, { act := act, failed := x.aios, pclose := true })
  | .discProto, _ => (p, { act := act, replies := [.disc discProto] })
  | _, _ => (p, { act := act })

/-- udp_rx_cb for a datagram whose sender's pipe is `p` -/
def qDgram (c : QCfg) (limit : Bool) (p : Option QPipe) (d : Bytes) : Option QPipe × QOut :=
  qOnAct c limit (udpRxCb d p.isSome c.rcvmax) p

/-- udp_pipe_recv (a receive on a pipe the endpoint has forgotten finds p->closed set) -/
def qRecv (p : Option QPipe) : Option QPipe × QOut :=
  match p with
  | none => (none, { failed := 1 })
  | some x =>
    if x.closed then (some x, { failed := 1 })
    else if x.aios = 0 ∧ x.rxq ≠ [] then (some { x with rxq := x.rxq.drop 1 }, { handed := x.rxq.take 1 })
    else (some { x with aios := x.aios + 1 }, {})

/-- udp_pipe_close: udp_remove_pipe, udp_send_disc(DISC_CLOSED), fail the receives; the queue dies with the pipe -/
def qClose (p : Option QPipe) : Option QPipe × QOut :=
  match p with
  | none => (none, {})
  | some x => (none, { removed := true, replies := if x.closed then [] else [.disc discClosed], failed := x.aios })

/-- udp_timer_cb, expired pipe -/
def qTimeout (p : Option QPipe) : Option QPipe × QOut :=
  match p with
  | none => (none, {})
  | some x => let r := qSendDisc x discInactive { stats := [.peerInactive] }; (some r.1, r.2)

/-- one event at ONE address: the only thing it sees of the rest of the endpoint is `limit` -/
def p1Step (c : QCfg) (limit : Bool) (p : Option QPipe) : QEv → Option QPipe × QOut
  | .dgram d => qDgram c limit p d
  | .recv => qRecv p
  | .close => qClose p
  | .timeout => qTimeout p

/-! ### the endpoint: pipes by address -/

def qLookup (l : List (Nat × QPipe)) (src : Nat) : Option QPipe := (l.find? (·.1 == src)).map (·.2)

/-- replace the first entry of the address, else append -/
def qPut : List (Nat × QPipe) → Nat → QPipe → List (Nat × QPipe)
  | [], s, x => [(s, x)]
  | e :: l, s, x => if e.1 == s then (s, x) :: l else e :: qPut l s x

def qSet (l : List (Nat × QPipe)) (src : Nat) : Option QPipe → List (Nat × QPipe)
  | none => l.filter (·.1 != src)
  | some x => qPut l src x

structure QEp where
  cfg : QCfg
  others : Nat := 0                        -- pipes of addresses outside the table below (they count in peer_count)
  pipes : List (Nat × QPipe) := []
deriving Repr, DecidableEq

def QEp.peerCount (ep : QEp) : Nat := ep.others + ep.pipes.length

/-- (ep->max_peers != 0) && (ep->peer_count >= ep->max_peers) -/
def QEp.limit (ep : QEp) : Bool := decide (ep.cfg.maxPeers ≠ 0 ∧ ep.peerCount ≥ ep.cfg.maxPeers)

def qStep (ep : QEp) (src : Nat) (e : QEv) : QEp × QOut :=
  let r := p1Step ep.cfg ep.limit (qLookup ep.pipes src) e
  ({ ep with pipes := qSet ep.pipes src r.1 }, r.2)

/-- events (address, event) in the order the endpoint's mutex serialises them -/
def qRun : QEp → List (Nat × QEv) → List (Nat × QOut)
  | _, [] => []
  | ep, (src, e) :: rest => (src, (qStep ep src e).2) :: qRun (qStep ep src e).1 rest

def qFinal : QEp → List (Nat × QEv) → QEp
  | ep, [] => ep
  | ep, (src, e) :: rest => qFinal (qStep ep src e).1 rest

/-! ### the shared transmit ring (udp_queue_tx / udp_finish_tx) -/

/-- udp_queue_tx for the replies of one event: a full ring drops the datagram (st_snd_nobuf).
    Result: ring count, every reply with "was queued". -/
def txQueue (size : Nat) : Nat → List URep → Nat × List (URep × Bool)
  | tx, [] => (tx, [])
  | tx, r :: rs =>
    if tx = size then let x := txQueue size tx rs; (x.1, (r, false) :: x.2)
    else let x := txQueue size (tx + 1) rs; (x.1, (r, true) :: x.2)

inductive TEv where
  | ev (src : Nat) (e : QEv)
  | txDone                                -- udp_tx_cb: the datagram at the ring's tail has left
deriving Repr, DecidableEq

structure TEp where
  ep : QEp
  tx : Nat := 0                           -- ep->tx_ring.count
deriving Repr, DecidableEq

structure TOut where
  src : Nat
  out : QOut
  sent : List (URep × Bool)               -- the replies with their fate
deriving Repr, DecidableEq

def tStep (t : TEp) : TEv → TEp × Option TOut
  | .txDone => ({ t with tx := t.tx - 1 }, none)
  | .ev src e =>
    let r := qStep t.ep src e
    let q := txQueue t.ep.cfg.txSize t.tx r.2.replies
    ({ ep := r.1, tx := q.1 }, some { src := src, out := r.2, sent := q.2 })

def tRun : TEp → List TEv → List TOut
  | _, [] => []
  | t, e :: rest =>
    match (tStep t e).2 with
    | some o => o :: tRun (tStep t e).1 rest
    | none => tRun (tStep t e).1 rest

def tFinal : TEp → List TEv → TEp
  | t, [] => t
  | t, e :: rest => tFinal (tStep t e).1 rest

/-! ### the socket of `udpStep` on top: settled states -/

/-- every pipe open, its queue empty, one receive posted -/
def QPipe.settled (p : QPipe) : Bool := !p.closed && p.rxq.isEmpty && p.aios == 1

/-- the endpoint as `udpStep` sees it -/
def QEp.abs (ep : QEp) : UEp :=
  { rcvmax := ep.cfg.rcvmax, maxPeers := ep.cfg.maxPeers, others := ep.others,
    assocs := ep.pipes.map fun e => (e.1, (⟨e.2.peer⟩ : UAssoc)) }

/-- creq->us_type of a CREQ decision -/
def creqType : UdpAct → Nat
  | .creq t _ _ => t
  | _ => 0

/-- one datagram, then what the layers above do before the next datagram is looked at:
    a new pipe meets the socket's pipe_start (refused ⇒ closed and reaped, else the protocol posts its receive);
    a pipe the transport closed is reaped; a message handed over runs the protocol's callback
    (closePipe ⇒ closed and reaped, else the receive is posted again). -/
def armedStep (pc : PCfg) (ep : QEp) (src : Nat) (d : Bytes) : QEp × UOut :=
  let r1 := qStep ep src (.dgram d)
  let o := r1.2
  if o.added then
    if pipeStart pc.proto (creqType o.act) (uBusy pc ep.abs) ≠ 0 then
      let r2 := qStep r1.1 src .close
      (r2.1, { act := o.act, replies := o.replies ++ r2.2.replies, reaps := 1 })
    else
      let r2 := qStep r1.1 src .recv
      (r2.1, { act := o.act, replies := o.replies, adds := 1 })
  else if o.pclose then
    let r2 := qStep r1.1 src .close
    (r2.1, { act := o.act, replies := o.replies ++ r2.2.replies, reaps := 1 })
  else
    match o.handed with
    | [m] =>
      match protoRecv pc 0 none m with
      | .deliver h b => ((qStep r1.1 src .recv).1, { act := o.act, replies := o.replies, tmsg := some m, deliver := some (h, b) })
      | .closePipe =>
        let r2 := qStep r1.1 src .close
        (r2.1, { act := o.act, replies := o.replies ++ r2.2.replies, reaps := 1, tmsg := some m })
      | _ => ((qStep r1.1 src .recv).1, { act := o.act, replies := o.replies, tmsg := some m })
    | _ => (r1.1, { act := o.act, replies := o.replies })

/-! ### the peer table as the code has it -/

/-- the id map ep->pipes: key ↦ address of the pipe stored there.  Keys are unique (nni_id_set on a free key only). -/
abbrev PTab := List (Nat × Nat)          -- (key, address)

def ptGet (t : PTab) (key : Nat) : Option Nat := (t.find? (·.1 == key)).map (·.2)

/-- id++ with the wrap of the code (64-bit keys, 0 skipped) -/
def ptNext (id : Nat) : Nat := if (id + 1) % 2 ^ 64 = 0 then 1 else (id + 1) % 2 ^ 64

/-- udp_find_pipe: the key under which `addr` is found (for (;;) bounded by the size of the map) -/
def ptFind (t : PTab) (addr : Nat) : Nat → Nat → Option Nat
  | 0, _ => none
  | fuel + 1, id =>
    match ptGet t id with
    | none => none
    | some a => if a = addr then some id else ptFind t addr fuel (ptNext id)

/-- udp_add_pipe: the first free key from the hash -/
def ptFree (t : PTab) : Nat → Nat → Nat
  | 0, id => id
  | fuel + 1, id => if (ptGet t id).isSome then ptFree t fuel (ptNext id) else id

def ptAdd (hash : Nat → Nat) (t : PTab) (addr : Nat) : PTab :=
  t ++ [(ptFree t (t.length + 1) (hash addr), addr)]

/-- udp_close_gap's inner loop: from the pipe's hash to the first free key, or to the key it sits at -/
def ptWant (t : PTab) (key : Nat) : Nat → Nat → Nat
  | 0, want => want
  | fuel + 1, want => if want ≠ key ∧ (ptGet t want).isSome then ptWant t key fuel (ptNext want) else want

/-- udp_close_gap: the rest of the run behind a freed key: every pipe moves to the first free key of its own probe sequence -/
def ptCloseGap (hash : Nat → Nat) : PTab → Nat → Nat → PTab
  | t, 0, _ => t
  | t, fuel + 1, key =>
    let k := ptNext key
    match ptGet t k with
    | none => t
    | some a =>
      let want := ptWant t k (t.length + 1) (hash a)
      if want ≠ k then ptCloseGap hash (t.filter (·.1 != k) ++ [(want, a)]) fuel k
      else ptCloseGap hash t fuel k

/-- udp_remove_pipe of the pipe stored under `key` (p->key): remove that key, close the gap -/
def ptRemoveKey (hash : Nat → Nat) (t : PTab) (key : Nat) : PTab :=
  ptCloseGap hash (t.filter (·.1 != key)) (t.length + 1) key

/-- udp_remove_pipe as it was in the pinned tree (before fix C11T-udp-peer-table-gap): probe from the hash until an empty key
    or the pipe; nothing behind it moves -/
def ptRemoveOld (t : PTab) (key0 : Nat) : Nat → Nat → PTab
  | 0, _ => t
  | fuel + 1, id =>
    match ptGet t id with
    | none => t
    | some _ => if id = key0 then t.filter (·.1 != id) else ptRemoveOld t key0 fuel (ptNext id)

/-- the table of a listener driven by "a pipe for `a` is created" / "the pipe stored for `a` is closed and reaped" -/
inductive PEv where
  | add (a : Nat)                          -- udp_recv_creq, new sender (udp_find_pipe returned NULL)
  | del (a : Nat)                          -- udp_pipe_close of the pipe with peer_addr a
deriving Repr, DecidableEq

/-- `old`: the removal of the pinned tree -/
def ptStep (hash : Nat → Nat) (old : Bool) (t : PTab) : PEv → PTab
  | .add a => if (ptFind t a (t.length + 1) (hash a)).isSome then t else ptAdd hash t a
  | .del a =>
    -- the pipe object of `a`: wherever it is stored (the reaper holds the pointer, it does not search by address)
    match t.find? (·.2 == a) with
    | none => t
    | some e => if old then ptRemoveOld t e.1 (t.length + 1) (hash a) else ptRemoveKey hash t e.1

def ptRun (hash : Nat → Nat) (old : Bool) : PTab → List PEv → PTab
  | t, [] => t
  | t, e :: rest => ptRun hash old (ptStep hash old t e) rest

/-- who has a pipe -/
def ptMembers (t : PTab) : List Nat := t.map (·.2)

/-- does udp_find_pipe find the pipe of `a`? -/
def ptFinds (hash : Nat → Nat) (t : PTab) (a : Nat) : Bool := (ptFind t a (t.length + 1) (hash a)).isSome

end Nng.Hostile
