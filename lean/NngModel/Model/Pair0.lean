/-
  Executable model of src/sp/protocol/pair0/pair.c (cooked and raw: same code) as seen
  through the socket core: one step per harness event; inside a step the order of
  sub-actions follows the C callbacks (each runs under the protocol mutex `s->mtx`).

  pair1/pair.c is the same machine plus a hop-count header; everything that differs is
  collected in a `Variant` (peer protocol number, option ranges, what `sock_send` does to
  the header before taking the lock, what `pipe_send` does to it, and the receive
  decision taken in `pipe_recv_cb` before taking the lock).  `Nng.Pair0.variant` is the
  PAIRv0 instance (no header processing); Model/Pair1.lean defines the PAIRv1 instance.
  Both instances are tied to their own C file by the correspondence check.

  `wmq` / `rmq` (nni_lmq) are modelled by their abstract bounded FIFOs (C18 proves the
  ring refines it); `nni_lmq_put` is modelled with its failure branch because two call
  sites ignore its result (the theorems show that branch is unreachable).
  Messages carry a ghost id which never reaches the outputs.

  The model mirrors the tree WITH the C08 fixes:
    * pair*_pipe_stop clears `writable` only when the send buffer is full
      (fix pair-stop-writable), and
    * the send / receive completion of a pipe that is no longer the attached one does
      not touch the socket state (fix pair-stale-pipe-cb) — unreachable at the
      granularity of harness events, where every callback runs before the next event.
-/
import NngModel.Proto.Base
import NngModel.Generated.C08
namespace Nng.Pair0
open Nng Nng.Proto

structure GMsg where
  gid : Nat
  m : WMsg
deriving Repr, DecidableEq, Inhabited

structure PSend where
  aio : Nat
  msg : GMsg
  deadline : Option Nat
deriving Repr, DecidableEq, Inhabited

structure PRecv where
  aio : Nat
  deadline : Option Nat
deriving Repr, DecidableEq, Inhabited

structure Pipe where
  id : Nat
  closed : Bool := false
  busy : Option GMsg := none      -- message handed to the transport (aio_send in flight)
  armed : Bool := false           -- aio_recv posted on the transport
deriving Repr, DecidableEq, Inhabited

/-- outcome of the unlocked first half of pair*_pipe_recv_cb -/
inductive RxDecision
  | close                 -- malformed: free the message, nni_pipe_close
  | drop                  -- too many hops: free the message, post the next receive
  | deliver (m : WMsg)    -- hand up (header, body)
deriving Repr, DecidableEq, Inhabited

structure Variant where
  peer : Nat
  sendBufMax : Nat
  recvBufMax : Nat
  sendBufInit : Nat
  recvBufInit : Nat
  hasTtl : Bool
  ttlInit : Nat
  ttlMin : Nat
  ttlMax : Nat
  /-- pair*_sock_send before the lock: refuse with an error or (re)write the header -/
  txPrep : Bool → WMsg → Except Nat WMsg
  /-- pair*_pipe_send: header as put on the wire -/
  txWire : WMsg → WMsg
  /-- pair*_pipe_recv_cb before the lock -/
  rxDecide : Nat → Bytes → RxDecision

structure State where
  opened : Bool := false
  closed : Bool := false
  raw : Bool := false
  cur : Option Nat := none        -- s->p
  wmqCap : Nat := 0
  wmq : List GMsg := []
  waq : List PSend := []
  rmqCap : Nat := 0
  rmq : List GMsg := []
  raq : List PRecv := []
  rdReady : Bool := false
  held : Option GMsg := none      -- message kept in s->p->aio_recv while `rd_ready`
  wrReady : Bool := false
  readable : Bool := false
  writable : Bool := false
  ttl : Nat := 0
  pipes : List Pipe := []
  now : Nat := 0
  nsend : Nat := 0                -- ghost: number of send operations so far
  narrive : Nat := 0              -- ghost: number of accepted arrivals so far
  -- ghost history, send direction
  accepted : List GMsg := []      -- sends completed with 0, in completion order
  wire : List (Nat × GMsg) := []  -- (pipe, msg as on the wire) handed to the transport, in order
  txDropped : List GMsg := []     -- discarded whole by a send-buffer shrink or at close
  returned : List GMsg := []      -- given back to the caller with a failed send
  lostOnPipe : List GMsg := []    -- in flight on a pipe whose send failed / that closed
  -- ghost history, receive direction
  arrived : List GMsg := []       -- well-formed arrivals within the hop limit, in order
  delivered : List GMsg := []     -- handed to the application, in order
  rxDropped : List GMsg := []     -- discarded by a receive-buffer shrink, at close, or held by a pipe that closed
  hopDropped : Nat := 0           -- arrivals discarded for exceeding the hop limit
  malformed : Nat := 0            -- arrivals that closed their pipe
  putFailed : List GMsg := []     -- lost because an unchecked nni_lmq_put failed (proved empty)
deriving Repr, Inhabited

def wmqFull (s : State) : Bool := s.wmq.length ≥ s.wmqCap
def rmqFull (s : State) : Bool := s.rmq.length ≥ s.rmqCap

def getPipe (s : State) (p : Nat) : Option Pipe := s.pipes.find? (·.id == p)

def modPipe (s : State) (p : Nat) (f : Pipe → Pipe) : State :=
  { s with pipes := s.pipes.map fun q => if q.id == p then f q else q }

/-- pair*_pipe_send: hand `gm` to the transport on pipe `p`; `wr_ready = false` -/
def pipeSend (V : Variant) (s : State) (p : Nat) (gm : GMsg) : State × List Out :=
  let wm : GMsg := ⟨gm.gid, V.txWire gm.m⟩
  let s := modPipe s p fun pp => { pp with busy := some wm }
  ({ s with wire := s.wire ++ [(p, wm)], wrReady := false }, [Out.psend p wm.m])

/-- nni_lmq_put(&s->wmq, m) with its result ignored -/
def wmqPutUnchecked (s : State) (gm : GMsg) : State :=
  { s with wmq := if s.wmq.length < s.wmqCap then s.wmq ++ [gm] else s.wmq,
           putFailed := if s.wmq.length < s.wmqCap then s.putFailed else s.putFailed ++ [gm] }

/-- nni_lmq_put(&s->rmq, m) with its result ignored -/
def rmqPutUnchecked (s : State) (gm : GMsg) : State :=
  { s with rmq := if s.rmq.length < s.rmqCap then s.rmq ++ [gm] else s.rmq,
           putFailed := if s.rmq.length < s.rmqCap then s.putFailed else s.putFailed ++ [gm] }

/-- the two send branches of pair*_send_sched -/
def sendSchedBody (V : Variant) (s : State) (p : Nat) : State × List Out :=
  match s.wmq with
  | m :: rest =>
    -- prefer the buffered message; refill the buffer from the first waiting sender
    let (s, o) := pipeSend V { s with wmq := rest } p m
    match s.waq with
    | a :: arest =>
      let s := wmqPutUnchecked { s with waq := arest } a.msg
      ({ s with accepted := s.accepted ++ [a.msg] }, o ++ [Out.done a.aio 0 none false])
    | [] => (s, o)
  | [] =>
    match s.waq with
    | a :: arest =>
      let (s, o) := pipeSend V { s with waq := arest, accepted := s.accepted ++ [a.msg] } p a.msg
      (s, o ++ [Out.done a.aio 0 none false])
    | [] => (s, [])

/-- pair*_send_sched, called for pipe `p` (from pipe_start and from the send callback) -/
def sendSched (V : Variant) (s : State) (p : Nat) : State × List Out :=
  if s.cur != some p then (s, [])       -- no pipe / a pipe that is not the attached one
  else
    let (s, o) := sendSchedBody V { s with wrReady := true } p
    -- if ((!nni_lmq_full(&s->wmq)) || s->wr_ready) nni_pollable_raise(&s->writable)
    ({ s with writable := s.writable || (!wmqFull s || s.wrReady) }, o)

/-- pair*_pipe_stop (under the lock) -/
def pipeStop (s : State) (p : Nat) : State :=
  if s.cur != some p then s
  else
    { s with cur := none,
             -- if (s->rd_ready) { nni_msg_free(nni_aio_get_msg(&p->aio_recv)); s->rd_ready = false; }
             rdReady := false,
             held := if s.rdReady then none else s.held,
             rxDropped := if s.rdReady then s.rxDropped ++ s.held.toList else s.rxDropped,
             -- if (s->wr_ready) { s->wr_ready = false; if (nni_lmq_full(&s->wmq)) clear(writable); }
             wrReady := false,
             writable := if s.wrReady && wmqFull s then false else s.writable,
             -- if (nni_lmq_empty(&s->rmq)) clear(readable)
             readable := if s.rmq.isEmpty then false else s.readable }

/-- nni_pipe_close as seen by this protocol: pair*_pipe_close + transport close fail the
    two pipe aios (their callbacks free the in-flight message / do nothing), then the
    reaper runs pair*_pipe_stop. -/
def closePipe (s : State) (p : Nat) : State × List Out :=
  match getPipe s p with
  | none => (s, [])
  | some pp =>
    if pp.closed then (s, [])
    else
      let s := modPipe s p fun q => { q with closed := true, busy := none, armed := false }
      let s := { s with lostOnPipe := s.lostOnPipe ++ pp.busy.toList }
      (pipeStop s p, [Out.pclosed p])

def deadlineOf (now : Nat) : Mode → Option Nat
  | .ms n => some (now + n)
  | _ => none

/-- pair*_cancel: complete the parked aio `a` with error `rv` (cancel / abort / timeout) -/
def failParked (s : State) (a : Nat) (rv : Nat) : State × List Out :=
  match s.waq.find? (·.aio == a) with
  | some pk =>
    ({ s with waq := s.waq.filter (·.aio != a), returned := s.returned ++ [pk.msg] },
      [Out.done a rv none true])
  | none =>
    if s.raq.any (·.aio == a) then
      ({ s with raq := s.raq.filter (·.aio != a) }, [Out.done a rv none false])
    else (s, [])

def dueAios (s : State) : List Nat :=
  (s.waq.filter fun pk => match pk.deadline with | some d => d < s.now | none => false).map (·.aio) ++
  (s.raq.filter fun pk => match pk.deadline with | some d => d < s.now | none => false).map (·.aio)

def failMany (s : State) (as : List Nat) (rv : Nat) : State × List Out :=
  as.foldl (fun (acc : State × List Out) a =>
    let (s', o) := failParked acc.1 a rv
    (s', acc.2 ++ o)) (s, [])

def expire (s : State) : State × List Out := failMany s (dueAios s) Err.etimedout

/-- locked half of pair*_pipe_recv_cb for a message `gm` accepted from pipe `p` -/
def recvCbLocked (s : State) (p : Nat) (gm : GMsg) : State × List Out :=
  if s.cur != some p then
    -- completion of a pipe that is no longer attached: the message is discarded
    ({ s with rxDropped := s.rxDropped ++ [gm] }, [])
  else
  match s.raq with
  | a :: rest =>
    let s := modPipe { s with raq := rest, delivered := s.delivered ++ [gm] } p fun pp => { pp with armed := true }
    (s, [Out.parm p, Out.done a.aio 0 (some gm.m) false])
  | [] =>
    if !rmqFull s then
      let s := modPipe { s with rmq := s.rmq ++ [gm] } p fun pp => { pp with armed := true }
      ({ s with readable := true }, [Out.parm p])
    else
      ({ s with rdReady := true, held := some gm, readable := true }, [])

/-- pair*_pipe_recv_cb with a successful transport receive of `b` -/
def recvCb (V : Variant) (s : State) (p : Nat) (b : Bytes) : State × List Out :=
  match V.rxDecide s.ttl b with
  | .close =>
    let (s, o) := closePipe { s with malformed := s.malformed + 1 } p
    (s, o)
  | .drop =>
    (modPipe { s with hopDropped := s.hopDropped + 1 } p fun pp => { pp with armed := true }, [Out.parm p])
  | .deliver m =>
    let gm : GMsg := ⟨s.narrive, m⟩
    recvCbLocked { s with narrive := s.narrive + 1, arrived := s.arrived ++ [gm] } p gm

/-- park or refuse a send that cannot proceed (nni_aio_start with the aio's timeout) -/
def parkSend (s : State) (a : Nat) (gm : GMsg) (mode : Mode) : State × List Out :=
  match mode with
  | .nb => ({ s with returned := s.returned ++ [gm] }, [Out.done a Err.eagain none true])
  | .ms 0 => ({ s with returned := s.returned ++ [gm] }, [Out.done a Err.etimedout none true])
  | _ => ({ s with waq := s.waq ++ [⟨a, gm, deadlineOf s.now mode⟩] }, [])

/-- locked half of pair*_sock_send -/
def sockSendLocked (V : Variant) (s : State) (a : Nat) (gm : GMsg) (mode : Mode) : State × List Out :=
  if s.wrReady then
    match s.cur with
    | some p =>
      let s := { s with writable := s.writable && !wmqFull s }
      let (s, o) := pipeSend V { s with accepted := s.accepted ++ [gm] } p gm
      (s, [Out.done a 0 none false] ++ o)
    | none => ({ s with returned := s.returned ++ [gm] }, [Out.other "model-invariant-broken"])
  else if s.wmq.length < s.wmqCap then
    let s := { s with wmq := s.wmq ++ [gm], accepted := s.accepted ++ [gm] }
    ({ s with writable := s.writable && !wmqFull s }, [Out.done a 0 none false])
  else parkSend s a gm mode

/-- pair*_sock_send -/
def sockSend (V : Variant) (s : State) (a : Nat) (m : WMsg) (mode : Mode) : State × List Out :=
  match V.txPrep s.raw m with
  | .error e => ({ s with nsend := s.nsend + 1, returned := s.returned ++ [⟨s.nsend, m⟩] }, [Out.done a e none true])
  | .ok m' => sockSendLocked V { s with nsend := s.nsend + 1 } a ⟨s.nsend, m'⟩ mode

/-- take the message held in the attached pipe's aio_recv and post the next receive -/
def takeHeld (s : State) : Option (Nat × GMsg) :=
  match s.cur, s.held with
  | some p, some gm => some (p, gm)
  | _, _ => none

/-- pair*_sock_recv -/
def sockRecv (s : State) (a : Nat) (mode : Mode) : State × List Out :=
  match s.rmq with
  | m :: rest =>
    let s := { s with rmq := rest, delivered := s.delivered ++ [m] }
    let (s, o) :=
      if s.rdReady then
        match takeHeld s with
        | some (p, gm) =>
          let s := rmqPutUnchecked { s with rdReady := false, held := none } gm
          (modPipe s p fun pp => { pp with armed := true }, [Out.parm p])
        | none => (s, [Out.other "model-invariant-broken"])
      else (s, [])
    ({ s with readable := s.readable && !s.rmq.isEmpty }, [Out.done a 0 (some m.m) false] ++ o)
  | [] =>
    if s.rdReady then
      match takeHeld s with
      | some (p, gm) =>
        let s := modPipe { s with rdReady := false, held := none, delivered := s.delivered ++ [gm] } p
          fun pp => { pp with armed := true }
        ({ s with readable := false }, [Out.done a 0 (some gm.m) false, Out.parm p])
      | none => (s, [Out.other "model-invariant-broken"])
    else
      match mode with
      | .nb => (s, [Out.done a Err.eagain none false])
      | .ms 0 => (s, [Out.done a Err.etimedout none false])
      | _ => ({ s with raq := s.raq ++ [⟨a, deadlineOf s.now mode⟩] }, [])

/-- pair*_set_send_buf_len after the range check -/
def setSendBuf (s : State) (cap : Nat) : State :=
  let s := { s with wmqCap := cap, txDropped := s.txDropped ++ s.wmq.drop cap, wmq := s.wmq.take cap }
  { s with writable := if !wmqFull s then true else if !s.wrReady then false else s.writable }

/-- pair*_set_recv_buf_len after the range check -/
def setRecvBuf (s : State) (cap : Nat) : State :=
  let s := { s with rmqCap := cap, rxDropped := s.rxDropped ++ s.rmq.drop cap, rmq := s.rmq.take cap }
  { s with readable := if !s.rmq.isEmpty then true else if !s.rdReady then false else s.readable }

def closeAllPipes (s : State) : State × List Out :=
  s.pipes.foldl (fun (acc : State × List Out) (pp : Pipe) =>
    let (s', o) := closePipe acc.1 pp.id
    (s', acc.2 ++ o)) (s, [])

/-- pair*_sock_close: fail the parked aios, drain both buffers -/
def sockClose (s : State) : State × List Out :=
  let outs := (s.raq.map fun pk => Out.done pk.aio Err.eclosed none false) ++
              (s.waq.map fun pk => Out.done pk.aio Err.eclosed none true)
  ({ s with returned := s.returned ++ s.waq.map PSend.msg, waq := [], raq := [],
            rxDropped := s.rxDropped ++ s.rmq, rmq := [],
            txDropped := s.txDropped ++ s.wmq, wmq := [] }, outs)

/-- pair*_pipe_start for a new pipe `id` with peer protocol `peer` -/
def pipeStart (V : Variant) (s : State) (id : Nat) (peer : Nat) : State × List Out :=
  if peer != V.peer then
    -- NNG_EPROTO: the core closes the pipe before it is ever used
    (modPipe s id fun pp => { pp with closed := true }, [Out.pclosed id])
  else if s.cur.isSome then
    -- NNG_EBUSY: already paired
    (modPipe s id fun pp => { pp with closed := true }, [Out.pclosed id])
  else
    let s := { s with cur := some id, rdReady := false }
    let (s, o) := sendSched V s id
    (modPipe s id fun pp => { pp with armed := true }, o ++ [Out.parm id])

def aioBusy (s : State) (a : Nat) : Bool := s.waq.any (·.aio == a) || s.raq.any (·.aio == a)

def step (V : Variant) (s : State) (ev : Ev) : State × List Out :=
  if !s.opened then
    match ev with
    | .openSock _ raw =>
      -- pair*_sock_init: empty buffers of the initial depth, nothing attached, flags down
      ({ opened := true, raw := raw, wmqCap := V.sendBufInit, rmqCap := V.recvBufInit, ttl := V.ttlInit, now := s.now }, [.rv 0])
    | .advance ms => ({ s with now := s.now + ms }, [])
    | _ => (s, [.other "nosock"])
  else if s.closed then
    match ev with
    | .advance ms => ({ s with now := s.now + ms }, [])
    | _ => (s, [.other "nosock"])
  else
  match ev with
  | .openSock _ _ => (s, [.other "bad-op"])
  | .pipeAdd peer =>
    let id := s.pipes.length
    let s := { s with pipes := s.pipes ++ [{ id := id }] }
    let (s, o) := pipeStart V s id peer
    (s, [.pipe id] ++ o)
  | .pipeDrop p =>
    match getPipe s p with
    | some pp =>
      if pp.closed then (s, [.rv (-1)])
      else let (s, o) := closePipe s p; (s, [.rv 0] ++ o)
    | none => (s, [.rv (-1)])
  | .sendDone p rv =>
    match getPipe s p with
    | some pp =>
      if pp.closed || pp.busy.isNone then (s, [.rv (-1)])
      else if rv != 0 then
        -- pair*_pipe_send_cb: free the message, close the pipe
        let (s, o) := closePipe s p
        (s, [.rv 0] ++ o)
      else
        let s := modPipe s p fun q => { q with busy := none }
        let (s, o) := sendSched V s p
        (s, [.rv 0] ++ o)
    | none => (s, [.rv (-1)])
  | .recvDone p r =>
    match getPipe s p with
    | some pp =>
      if pp.closed || !pp.armed then (s, [.rv (-1)])
      else
        let s := modPipe s p fun q => { q with armed := false }
        match r with
        | .error _ => let (s, o) := closePipe s p; (s, [.rv 0] ++ o)
        | .ok b => let (s, o) := recvCb V s p b; (s, [.rv 0] ++ o)
    | none => (s, [.rv (-1)])
  | .send _ a m mode =>
    if aioBusy s a then (s, [.other "aio-busy"]) else sockSend V s a m mode
  | .recv _ a mode =>
    if aioBusy s a then (s, [.other "aio-busy"]) else sockRecv s a mode
  | .cancel a => failParked s a Err.ecanceled
  | .abort a rv => failParked s a rv
  | .advance ms => expire { s with now := s.now + ms }
  | .ctxOpen _ => (s, [.rv Err.enotsup])
  | .ctxClose _ => (s, [.rv (-1)])
  | .setopt none "send-buffer" "int" v =>
    if v < 0 || v > V.sendBufMax then (s, [.rv Err.einval]) else (setSendBuf s v.toNat, [.rv 0])
  | .setopt none "recv-buffer" "int" v =>
    if v < 0 || v > V.recvBufMax then (s, [.rv Err.einval]) else (setRecvBuf s v.toNat, [.rv 0])
  | .setopt none "ttl-max" "int" v =>
    if !V.hasTtl then (s, [.other "unmodelled-option"])
    else if v < V.ttlMin || v > V.ttlMax then (s, [.rv Err.einval])
    else ({ s with ttl := v.toNat }, [.rv 0])
  | .setopt _ _ _ _ => (s, [.other "unmodelled-option"])
  | .getopt none "send-buffer" "int" => (s, [.rv2 0 s.wmqCap])
  | .getopt none "recv-buffer" "int" => (s, [.rv2 0 s.rmqCap])
  | .getopt none "ttl-max" "int" =>
    if V.hasTtl then (s, [.rv2 0 s.ttl]) else (s, [.other "unmodelled-option"])
  | .getopt _ _ _ => (s, [.other "unmodelled-option"])
  | .poll => (s, [.poll (some s.readable) (some s.writable)])
  | .sub _ _ => (s, [.other "bad-op"])
  | .unsub _ _ => (s, [.other "bad-op"])
  | .close =>
    -- the core closes every pipe and waits for them, then calls pair*_sock_close
    let (s, o1) := closeAllPipes s
    let (s, o2) := sockClose s
    ({ s with closed := true }, o1 ++ o2)

def run (V : Variant) (s : State) : List Ev → State × List (List Out)
  | [] => (s, [])
  | e :: es =>
    let (s', o) := step V s e
    let (s'', os) := run V s' es
    (s'', o :: os)

/-- PAIRv0: no header processing at all; the whole transport message is the body -/
def variant : Variant where
  peer := Nng.Generated.pair0Proto
  sendBufMax := Nng.Generated.pair0SendBufMax
  recvBufMax := Nng.Generated.pair0RecvBufMax
  sendBufInit := Nng.Generated.pair0SendBufInit
  recvBufInit := Nng.Generated.pair0RecvBufInit
  hasTtl := false
  ttlInit := 0
  ttlMin := 0
  ttlMax := 0
  txPrep := fun _ m => .ok m
  txWire := fun m => m
  rxDecide := fun _ b => .deliver ⟨[], b⟩

def step0 : State → Ev → State × List Out := step variant

end Nng.Pair0
