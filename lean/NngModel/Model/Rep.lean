/-
  Executable model of src/sp/protocol/reqrep0/rep.c (cooked REP) as seen through the
  socket core: one step per harness event; inside a step the order of sub-actions follows
  the C callbacks (each runs under the protocol mutex `s->lk`).

  Contexts are numbered by a unique id (`uid`): 0 is the socket's own context `s->ctx`,
  `nng_ctx_open` allocates the next number; the harness' slot table maps slot -> uid.
  Pipes are numbered by the harness' pipe index (the model never sees `nni_pipe_id`; REP
  keeps the pipe id to itself, so no output depends on its value).

  `recvpipes` is the C list of pipes holding a parsed request in `aio_recv`; the model
  stores the held request with the list entry.  A pipe's `sendq` is the C list of contexts
  waiting for the pipe; the entry carries the context's `saio` and its message.

  Ghost fields (never printed): request arrival numbers `gid`, `Ctx.greq` (the request
  most recently delivered to the context), the logs `delivered`, `wire`, `discarded`.

  The model mirrors the code WITH the three fixes delivered with this check
  (integration/fixes/rep-*.patch); the places are marked FIX.
-/
import NngModel.Proto.Base
import NngModel.Generated.Base
import NngModel.Generated.C04REP
namespace Nng.Rep
open Nng Nng.Proto

/-! ### backtrace parsing (shared with XREP; reused by the device property C13) -/

inductive BtResult
  | ok (hdr body : Bytes)   -- header words moved out of the body, rest of the body
  | drop                    -- more hops than the TTL allows: discard, keep the pipe
  | malformed               -- fewer than 4 bytes left before a terminator: close the pipe
deriving Repr, DecidableEq, Inhabited

/-- `end = ((body[0] & 0x80u) != 0)` -/
def isEnd (w : Bytes) : Bool :=
  match w with
  | b :: _ => b &&& 0x80 != 0
  | [] => false

/-- the hop loop of rep0_pipe_recv_cb / xrep0_pipe_recv_cb.  `n` = iterations still
    allowed (`hops` runs from 1, the loop leaves through `drop` when `hops > ttl`). -/
def parseBt : Nat → Bytes → Bytes → BtResult
  | 0, _, _ => .drop
  | n + 1, hdr, body =>
    if body.length < 4 then .malformed
    else if isEnd (body.take 4) then .ok (hdr ++ body.take 4) (body.drop 4)
    else parseBt n (hdr ++ body.take 4) (body.drop 4)

def parseBacktrace (ttl : Nat) (bytes : Bytes) : BtResult := parseBt ttl [] bytes

/-! ### state -/

structure Req where
  gid : Nat            -- ghost: arrival number
  pipe : Nat
  bt : Bytes           -- the parsed backtrace (message header)
  body : Bytes
deriving Repr, DecidableEq, Inhabited

structure Parked where   -- ctx->raio
  aio : Nat
  deadline : Option Nat
deriving Repr, DecidableEq, Inhabited

structure PSend where    -- a context on a pipe's sendq: ctx->saio and the message on it
  ctx : Nat
  aio : Nat
  hdr : Bytes
  body : Bytes
  deadline : Option Nat
  req : Option Req       -- ghost: the request this reply answers
  ndeliv : Nat           -- ghost: number of deliveries so far when the send was submitted
deriving Repr, DecidableEq, Inhabited

structure Ctx where
  isOpen : Bool := false
  btrace : Bytes := []            -- btrace[0 .. btrace_len)
  pipeId : Option Nat := none     -- pipe_id (0 in C = none)
  raio : Option Parked := none
  saio : Option Nat := none
  spipe : Option Nat := none
  greq : Option Req := none       -- ghost
deriving Repr, DecidableEq, Inhabited

structure Pipe where
  closed : Bool := false
  armed : Bool := false           -- receive posted on the transport
  busy : Bool := false            -- p->busy: a send is with the transport
  sendq : List PSend := []
deriving Repr, DecidableEq, Inhabited

structure WireRec where
  pipe : Nat
  hdr : Bytes
  body : Bytes
  ctx : Nat
  req : Option Req
  ndeliv : Nat
deriving Repr, DecidableEq, Inhabited

structure State where
  opened : Bool := false
  closed : Bool := false
  ttl : Nat := Nng.Generated.repDefaultTtl
  ctx : Nat → Ctx := fun _ => {}
  nctx : Nat := 1
  slot : Nat → Option Nat := fun _ => none
  recvpipes : List Req := []
  recvq : List Nat := []
  pipe : Nat → Pipe := fun _ => {}
  npipes : Nat := 0
  now : Nat := 0
  readable : Bool := false
  writable : Bool := false
  narrive : Nat := 0
  -- ghost history
  delivered : List (Nat × Req) := []     -- (context, request) in delivery order
  wire : List WireRec := []              -- messages handed to the transport
  discarded : List WireRec := []         -- replies accepted and thrown away (pipe gone)
  unrouted : List Req := []              -- requests dropped with their pipe / at close
deriving Inhabited

def upd {β : Type} (f : Nat → β) (k : Nat) (v : β) : Nat → β := fun x => if x = k then v else f x

def peerReq : Nat := Nng.Generated.protoReq
def ttlMax : Nat := Nng.Generated.maxMaxTtl
def nslots : Nat := 8     -- harness NCTX

def setCtx (s : State) (k : Nat) (c : Ctx) : State := { s with ctx := upd s.ctx k c }
def setPipe (s : State) (p : Nat) (pp : Pipe) : State := { s with pipe := upd s.pipe p pp }
/-- nni_pollable_raise / nni_pollable_clear on `s->writable`, `s->readable` -/
def setW (s : State) (b : Bool) : State := { s with writable := b }
def setR (s : State) (b : Bool) : State := { s with readable := b }

/-- `nni_id_get(&s->pipes, id) != NULL` -/
def livePipe (s : State) (p : Nat) : Bool := decide (p < s.npipes) && !(s.pipe p).closed

def deadlineOf (now : Nat) : Mode → Option Nat
  | .ms n => some (now + n)
  | _ => none

/-- the harness refuses to reuse an aio that is still parked somewhere -/
def aioBusy (s : State) (a : Nat) : Bool :=
  (List.range s.nctx).any (fun k => match (s.ctx k).raio with | some pk => pk.aio == a | none => false) ||
  (List.range s.npipes).any (fun p => (s.pipe p).sendq.any (·.aio == a))

/-- clear `ctx->saio` of every context of a closing pipe's sendq -/
def clearSaio (s : State) (es : List PSend) : State :=
  es.foldl (fun s e => setCtx s e.ctx { s.ctx e.ctx with saio := none }) s

def wireOf (p : Nat) (e : PSend) : WireRec := ⟨p, e.hdr, e.body, e.ctx, e.req, e.ndeliv⟩

/-- rep0_pipe_close, first part: the pipe is no longer "receivable" -/
def dropHeld (s : State) (p : Nat) : State :=
  if s.recvpipes.any (·.pipe == p) then
    let rp := s.recvpipes.filter (·.pipe != p)
    let s := { s with unrouted := s.unrouted ++ s.recvpipes.filter (·.pipe == p), recvpipes := rp }
    if rp.isEmpty then setR s false else s      -- FIX rep-readable-after-pipe-close
  else s

def addDiscarded (s : State) (ws : List WireRec) : State := { s with discarded := s.discarded ++ ws }

/-- `if (p->id == s->ctx.pipe_id) nni_pollable_raise(&s->writable)` -/
def raiseIfSock (s : State) (p : Nat) : State :=
  if (s.ctx 0).pipeId == some p then setW s true else s

/-- nni_pipe_close as seen by this protocol: rep0_pipe_close, then the transport close
    (fails the transport aios; rep0_pipe_send_cb's error branch frees the message in flight) -/
def closePipe (s : State) (p : Nat) : State × List Out :=
  if !livePipe s p then (s, []) else
  let q := (s.pipe p).sendq
  -- contexts waiting for the pipe: pretend the send completed
  let outs := q.map fun e => Out.done e.aio 0 none false
  let s := raiseIfSock (addDiscarded (clearSaio (dropHeld s p) q) (q.map (wireOf p))) p
  (setPipe s p { s.pipe p with closed := true, armed := false, sendq := [] }, outs ++ [Out.pclosed p])

/-- "a non-blocking send on the socket would be accepted": s->ctx has a request to answer and
    its pipe is gone or idle (what the writable pollable is meant to say; see Proofs/RepFlags) -/
def sockCanSend (s : State) : Bool :=
  !(s.ctx 0).btrace.isEmpty &&
    (match (s.ctx 0).pipeId with
     | none => true
     | some p => !livePipe s p || !(s.pipe p).busy)

/-- writability update after the socket's own context received a request from pipe `p`
    (FIX rep-writable: the C code only raised) -/
def recvWritable (s : State) (k : Nat) (p : Nat) : State :=
  if k == 0 then setW s (!(s.pipe p).busy) else s

/-- hand request `r` to context `k` (tail of rep0_ctx_recv / rep0_pipe_recv_cb) -/
def deliver (s : State) (k : Nat) (r : Req) : State :=
  let s := recvWritable s k r.pipe
  let s := setPipe s r.pipe { s.pipe r.pipe with armed := true }        -- nni_pipe_recv
  let s := setCtx s k { s.ctx k with btrace := r.bt, pipeId := some r.pipe, greq := some r }
  { s with delivered := s.delivered ++ [(k, r)] }

/-- rep0_pipe_recv_cb with a message -/
def pipeRecv (s : State) (p : Nat) (bytes : Bytes) : State × List Out :=
  let s := setPipe s p { s.pipe p with armed := false }
  match parseBacktrace s.ttl bytes with
  | .drop => (setPipe s p { s.pipe p with armed := true }, [.parm p])
  | .malformed => closePipe s p
  | .ok hdr body =>
    let r : Req := ⟨s.narrive, p, hdr, body⟩
    let s := { s with narrive := s.narrive + 1 }
    match s.recvq with
    | [] =>
      -- no one waiting to receive yet, holding pattern
      (setR { s with recvpipes := s.recvpipes ++ [r] } true, [])
    | k :: rest =>
      match (s.ctx k).raio with
      | none => (s, [.other "model-invariant-broken"])
      | some pk =>
        let s := { s with recvq := rest }
        let s := setCtx s k { s.ctx k with raio := none }
        let s := deliver s k r
        (s, [.parm p, .done pk.aio 0 (some ⟨[], body⟩) false])

/-- rep0_ctx_recv -/
def ctxRecv (s : State) (k : Nat) (a : Nat) (mode : Mode) : State × List Out :=
  match s.recvpipes with
  | [] =>
    match mode with
    | .nb => (s, [.done a Err.eagain none false])             -- nni_aio_start with a zero timeout
    | .ms 0 => (s, [.done a Err.etimedout none false])
    | _ =>
      if (s.ctx k).raio.isSome then (s, [.done a Err.estate none false])
      else
        let s := setCtx s k { s.ctx k with raio := some ⟨a, deadlineOf s.now mode⟩ }
        ({ s with recvq := s.recvq ++ [k] }, [])
  | r :: rest =>
    let s := { s with recvpipes := rest }
    let s := if rest.isEmpty then setR s false else s
    let s := deliver s k r
    (s, [.parm r.pipe, .done a 0 (some ⟨[], r.body⟩) false])

/-- rep0_ctx_send -/
def ctxSend (s : State) (k : Nat) (a : Nat) (m : WMsg) (mode : Mode) : State × List Out :=
  let c := s.ctx k
  if c.saio.isSome then (s, [.done a Err.estate none true]) else     -- FIX rep-send-while-send-queued
  let hdr := c.btrace
  let pid := c.pipeId
  let s := setCtx s k { c with btrace := [], pipeId := none }
  let s := if k == 0 then setW s false else s
  if hdr.length == 0 then (s, [.done a Err.estate none true]) else
  let rec_ (p : Nat) : WireRec := ⟨p, hdr, m.body, k, c.greq, s.delivered.length⟩
  match pid with
  | none => (s, [.done a 0 none false])      -- (pipe id 0: not reachable, see Proofs)
  | some p =>
    if !livePipe s p then
      -- pipe is gone: make this look like a good send
      ({ s with discarded := s.discarded ++ [rec_ p] }, [.done a 0 none false])
    else if !(s.pipe p).busy then
      let s := setPipe s p { s.pipe p with busy := true }
      let s := if (s.ctx 0).pipeId == some p then setW s false else s   -- FIX rep-writable
      ({ s with wire := s.wire ++ [rec_ p] }, [.psend p ⟨hdr, m.body⟩, .done a 0 none false])
    else
      match mode with
      | .nb => (s, [.done a Err.eagain none true])
      | .ms 0 => (s, [.done a Err.etimedout none true])
      | _ =>
        let e : PSend := ⟨k, a, hdr, m.body, deadlineOf s.now mode, c.greq, s.delivered.length⟩
        let s := setCtx s k { s.ctx k with saio := some a, spipe := some p }
        (setPipe s p { s.pipe p with sendq := (s.pipe p).sendq ++ [e] }, [])

/-- rep0_pipe_send_cb after a successful transport send -/
def pipeSent (s : State) (p : Nat) : State × List Out :=
  let pp := s.pipe p
  match pp.sendq with
  | [] =>
    let s := setPipe s p { pp with busy := false }
    (if (s.ctx 0).pipeId == some p then setW s true else s, [])
  | e :: rest =>
    let s := setPipe s p { pp with busy := true, sendq := rest }
    let s := setCtx s e.ctx { s.ctx e.ctx with saio := none, spipe := none }
    ({ s with wire := s.wire ++ [wireOf p e] }, [.psend p ⟨e.hdr, e.body⟩, .done e.aio 0 none false])

/-- the cancel functions (rep0_cancel_recv, rep0_ctx_cancel_send): cancel / abort / timeout -/
def failAio (s : State) (a : Nat) (rv : Nat) : State × List Out :=
  match (List.range s.nctx).find? (fun k => match (s.ctx k).raio with | some pk => pk.aio == a | none => false) with
  | some k =>
    let s := setCtx s k { s.ctx k with raio := none }
    ({ s with recvq := s.recvq.filter (· != k) }, [.done a rv none false])
  | none =>
    match (List.range s.nctx).find? (fun k => (s.ctx k).saio == some a) with
    | some k =>
      let s := match (s.ctx k).spipe with
        | some p => setPipe s p { s.pipe p with sendq := (s.pipe p).sendq.filter (·.ctx != k) }
        | none => s
      (setCtx s k { s.ctx k with saio := none }, [.done a rv none true])
    | none => (s, [])

def dueAios (s : State) : List Nat :=
  let due (d : Option Nat) : Bool := match d with | some d => d < s.now | none => false
  ((List.range s.nctx).filterMap fun k => match (s.ctx k).raio with
      | some pk => if due pk.deadline then some pk.aio else none
      | none => none) ++
  ((List.range s.npipes).flatMap fun p => ((s.pipe p).sendq.filter (fun e => due e.deadline)).map (·.aio))

def failAll (s : State) (as : List Nat) (rv : Nat) : State × List Out :=
  as.foldl (fun (acc : State × List Out) a =>
    let (s', o) := failAio acc.1 a rv
    (s', acc.2 ++ o)) (s, [])

def expire (s : State) : State × List Out := failAll s (dueAios s) Err.etimedout

/-- rep0_ctx_close, first half: the queued reply -/
def ctxCloseSend (s : State) (k : Nat) : State × List Out :=
  match (s.ctx k).saio with
  | some a =>
    let s := match (s.ctx k).spipe with
      | some p => setPipe s p { s.pipe p with sendq := (s.pipe p).sendq.filter (·.ctx != k) }
      | none => s
    (setCtx s k { s.ctx k with saio := none, spipe := none }, [.done a Err.eclosed none true])
  | none => (s, [])

/-- rep0_ctx_close, second half: the pending receive -/
def ctxCloseRecv (s : State) (k : Nat) : State × List Out :=
  match (s.ctx k).raio with
  | some pk =>
    let s := setCtx s k { s.ctx k with raio := none }
    ({ s with recvq := s.recvq.filter (· != k) }, [.done pk.aio Err.eclosed none false])
  | none => (s, [])

/-- rep0_ctx_close: fail what the context has parked with NNG_ECLOSED -/
def ctxCloseParked (s : State) (k : Nat) : State × List Out :=
  let r1 := ctxCloseSend s k
  let r2 := ctxCloseRecv r1.1 k
  (setCtx r2.1 k { r2.1.ctx k with isOpen := false }, r1.2 ++ r2.2)

def closeAll (s : State) (ks : List Nat) (f : State → Nat → State × List Out) : State × List Out :=
  ks.foldl (fun (acc : State × List Out) k =>
    let (s', o) := f acc.1 k
    (s', acc.2 ++ o)) (s, [])

def addPipeSlot (s : State) : State := { s with npipes := s.npipes + 1 }

/-- nng_ctx_open: the next uid goes to harness slot `c` -/
def allocCtx (s : State) (c : Nat) : State := { s with nctx := s.nctx + 1, slot := upd s.slot c (some s.nctx) }

def clearSlot (s : State) (c : Nat) : State := { s with slot := upd s.slot c none }

def finishClose (s : State) : State :=
  { s with closed := true, unrouted := s.unrouted ++ s.recvpipes, recvpipes := [], slot := fun _ => none }

/-- which context an operation addresses: `-` is the socket's own -/
def resolve (s : State) : Option Nat → Option Nat
  | none => some 0
  | some c => s.slot c

def step (s : State) (ev : Ev) : State × List Out :=
  if !s.opened then
    match ev with
    | .openSock _ _ => (setCtx (setW { s with opened := true } false) 0 { isOpen := true }, [.rv 0])
    | .advance ms => ({ s with now := s.now + ms }, [])
    | _ => (s, [.other "nosock"])
  else if s.closed then
    match ev with
    | .advance ms => ({ s with now := s.now + ms }, [])
    | _ => (s, [.other "nosock"])
  else
  match ev with
  | .openSock _ _ => (s, [.other "bad-op"])
  | .pipeAdd peer =>
    let id := s.npipes
    let s := addPipeSlot s
    if peer != peerReq then
      -- rep0_pipe_start rejects the peer: the pipe is closed before it is ever used
      (setPipe s id { closed := true }, [.pipe id, .pclosed id])
    else
      (setPipe s id { armed := true }, [.pipe id, .parm id])
  | .pipeDrop p =>
    if livePipe s p then let (s, o) := closePipe s p; (s, [.rv 0] ++ o) else (s, [.rv (-1)])
  | .sendDone p rv =>
    if !livePipe s p || !(s.pipe p).busy then (s, [.rv (-1)])
    else if rv != 0 then
      let (s, o) := closePipe s p
      (s, [.rv 0] ++ o)
    else
      let (s, o) := pipeSent s p
      (s, [.rv 0] ++ o)
  | .recvDone p r =>
    if !livePipe s p || !(s.pipe p).armed then (s, [.rv (-1)])
    else
      match r with
      | .error _ => let (s, o) := closePipe s p; (s, [.rv 0] ++ o)
      | .ok b => let (s, o) := pipeRecv s p b; (s, [.rv 0] ++ o)
  | .send c a m mode =>
    if aioBusy s a then (s, [.other "aio-busy"]) else
    match resolve s c with
    | none => (s, [.done a Err.eclosed none true])
    | some k => ctxSend s k a m mode
  | .recv c a mode =>
    if aioBusy s a then (s, [.other "aio-busy"]) else
    match resolve s c with
    | none => (s, [.done a Err.eclosed none false])
    | some k => ctxRecv s k a mode
  | .cancel a => failAio s a Err.ecanceled
  | .abort a rv => failAio s a rv
  | .advance ms => expire { s with now := s.now + ms }
  | .ctxOpen c =>
    if c ≥ nslots then (s, [.other "bad-slot"])
    else
      (setCtx (allocCtx s c) s.nctx { isOpen := true }, [.rv 0])
  | .ctxClose c =>
    if c ≥ nslots then (s, [.other "bad-slot"]) else
    match s.slot c with
    | none => (s, [.rv (-1)])
    | some k =>
      (clearSlot (ctxCloseParked s k).1 c, [.rv 0] ++ (ctxCloseParked s k).2)
  | .setopt none "ttl-max" "int" v =>
    if v < (Nng.Generated.repTtlMin : Int) || v > (ttlMax : Int) then (s, [.rv Err.einval])
    else ({ s with ttl := v.toNat }, [.rv 0])
  | .setopt _ _ _ _ => (s, [.other "unmodelled-option"])
  | .getopt none "ttl-max" "int" => (s, [.rv2 0 s.ttl])
  | .getopt _ _ _ => (s, [.other "unmodelled-option"])
  | .poll => (s, [.poll (some s.readable) (some s.writable)])
  | .sub _ _ => (s, [.other "bad-op"])
  | .unsub _ _ => (s, [.other "bad-op"])
  | .close =>
    -- the harness closes its contexts, then the socket: all pipes close (contexts waiting
    -- for a pipe complete with 0), then rep0_sock_close fails what s->ctx has parked
    let r1 := closeAll s ((List.range nslots).filterMap s.slot) ctxCloseParked
    let r2 := closeAll r1.1 (List.range r1.1.npipes) closePipe
    let r3 := closeAll r2.1 (List.range r2.1.nctx) ctxCloseParked
    (finishClose r3.1, r1.2 ++ r2.2 ++ r3.2)

def run (s : State) : List Ev → State × List (List Out)
  | [] => (s, [])
  | e :: es =>
    let (s', o) := step s e
    let (s'', os) := run s' es
    (s'', o :: os)

end Nng.Rep
