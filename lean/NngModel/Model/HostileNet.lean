/-
  C11 (extension C11B) — hostile peers over SP/UDP and ws://.

  SP/UDP (src/sp/transport/udp/udp.c): the per-sender association state of a listening endpoint and
  what one received datagram does to it — udp_rx_cb → udp_recv_data / udp_recv_creq / udp_recv_cack /
  udp_recv_disc, the socket's verdict on a new pipe (protocol pipe_start: peer protocol, PAIR busy) and
  the protocol's receive callback (`protoRecv`, shared with the stream transports).  The model describes
  the states in which nng's reaper has finished every close it was asked for (the REAL executor waits
  for the REM_POST event of every pipe the model says is closed, pipe_reap: transport close — which
  forgets the sender — comes before that event); the transient "closed but not yet forgotten" pipe is
  therefore not a state of the model.

  ws:// (supplemental/http/http_server.c http_sconn_rxdone / http_sconn_txdone,
  supplemental/websocket/websocket.c ws_handler, sp/transport/ws/websocket.c): a server connection of
  the listening ws transport: request heads through C16H's connection model (`HttpConn`), the server's
  decisions in the C order, the upgrade handler's header tests in the C order, then C16's frame receiver
  (`Ws.rxFold`) and the protocol's receive callback.

  Core Lean only (imported by the driver).
-/
import NngModel.Model.Hostile
import NngModel.Model.HttpConn
import NngModel.Model.Ws
import NngModel.Generated.C11B
namespace Nng.Hostile
open Nng

/-! ## SP over UDP: associations -/

def discClosed : Nat := Generated.c11bUdpDisc.getD 0 0
def discType : Nat := Generated.c11bUdpDisc.getD 1 1
def discMsgsize : Nat := Generated.c11bUdpDisc.getD 3 4
def discNego : Nat := Generated.c11bUdpDisc.getD 4 5
def discProto : Nat := Generated.c11bUdpDisc.getD 6 7
def discNobuf : Nat := Generated.c11bUdpDisc.getD 7 8

/-- a udp_pipe the endpoint knows under the sender's address -/
structure UAssoc where
  peer : Nat                       -- p->peer: the SP protocol the sender's CREQ announced
deriving Repr, DecidableEq

/-- a listening udp_ep (after bind) -/
structure UEp where
  rcvmax : Nat                     -- ep->rcvmax (udpSetRecvMax of the option)
  maxPeers : Nat := Generated.c11bUdpMaxPeers
  others : Nat := 1                -- pipes of senders outside the session (the control peer)
  assocs : List (Nat × UAssoc) := []   -- session senders (by source number) with a pipe
deriving Repr

/-- a datagram nng sends back to the sender -/
inductive URep where
  | cack
  | disc (reason : Nat)
deriving Repr, DecidableEq

structure UOut where
  act : UdpAct
  replies : List URep := []        -- in the order they are queued for transmission
  adds : Nat := 0                  -- pipes the socket admits (ADD_POST)
  reaps : Nat := 0                 -- pipes closed by this datagram (each gets its REM_POST)
  tmsg : Option Bytes := none      -- what the transport hands to the protocol
  deliver : Option (Bytes × Bytes) := none   -- what the application receives (header, body)
deriving Repr

def uLookup (l : List (Nat × UAssoc)) (src : Nat) : Option UAssoc := (l.find? (·.1 == src)).map (·.2)
def uErase (l : List (Nat × UAssoc)) (src : Nat) : List (Nat × UAssoc) := l.filter (·.1 != src)

/-- PAIR: the socket's pipe is taken (by the control peer, `pc.busy`, or by a session sender) -/
def uBusy (pc : PCfg) (ep : UEp) : Bool := pc.busy || (pc.proto.isPair && !ep.assocs.isEmpty)

/-- one datagram `d` from session sender `src` -/
def udpStep (pc : PCfg) (ep : UEp) (src : Nat) (d : Bytes) : UEp × UOut :=
  let a := uLookup ep.assocs src
  let act := udpRxCb d a.isSome ep.rcvmax
  let gone : UEp := { ep with assocs := uErase ep.assocs src }
  match act, a with
  | .data p, some _ =>
    -- udp_recv_data queues it for the pipe; the protocol's receive callback decides
    match protoRecv pc 0 none p with
    | .deliver h b => (ep, { act := act, tmsg := some p, deliver := some (h, b) })
    | .closePipe => (gone, { act := act, tmsg := some p, replies := [.disc discClosed], reaps := 1 })
    | _ => (ep, { act := act, tmsg := some p })
  | .discMsgsize, some _ => (gone, { act := act, replies := [.disc discMsgsize], reaps := 1 })
  | .creq t _ rf, some x =>
    -- udp_recv_creq, known sender: a refresh
    if x.peer ≠ t then (gone, { act := act, replies := [.disc discType], reaps := 1 })
    else if rf = 0 then (gone, { act := act, replies := [.disc discNego], reaps := 1 })
    else (ep, { act := act, replies := [.cack] })
  | .creq t _ rf, none =>
    if ep.maxPeers ≠ 0 ∧ ep.others + ep.assocs.length ≥ ep.maxPeers then (ep, { act := act, replies := [.disc discNobuf] })
    else if rf = 0 then (ep, { act := act, replies := [.disc discNego] })
    else if pipeStart pc.proto t (uBusy pc ep) ≠ 0 then
      -- the pipe exists (CACK) until the socket refuses it: pipe closed, DISC(CLOSED) from udp_pipe_close
      (ep, { act := act, replies := [.cack, .disc discClosed], reaps := 1 })
    else ({ ep with assocs := ep.assocs ++ [(src, ⟨t⟩)] }, { act := act, replies := [.cack], adds := 1 })
  | .cack t _ rf, some x =>
    if x.peer ≠ t then (gone, { act := act, replies := [.disc discType], reaps := 1 })
    else if rf = 0 then (gone, { act := act, replies := [.disc discNego], reaps := 1 })
    else (ep, { act := act })
  | .disc _, some _ => (gone, { act := act, reaps := 1 })      -- udp_recv_disc: closed, no answer
  | .discProto, _ => (ep, { act := act, replies := [.disc discProto] })
  | _, _ => (ep, { act := act })

/-- a session: datagrams (sender, bytes) in arrival order -/
def udpRun (pc : PCfg) : UEp → List (Nat × Bytes) → List UOut
  | _, [] => []
  | ep, (src, d) :: rest =>
    let r := udpStep pc ep src d
    r.2 :: udpRun pc r.1 rest

/-! ## ws:// -/

open HttpConn in
/-- http_get_header: first header whose name matches, case-insensitively -/
def hdrGet (m : HttpConn.Msg) (name : Bytes) : Option Bytes :=
  (m.reqHdrs.find? fun h => ieq h.name name).map (·.value)

def asc (s : String) : Bytes := s.toList.map fun c => UInt8.ofNat c.toNat

def stSwitching : Nat := Generated.c11bHttpStatus.getD 0 101
def stBadRequest : Nat := Generated.c11bHttpStatus.getD 1 400
def stNotFound : Nat := Generated.c11bHttpStatus.getD 2 404
def stMethodNotAllowed : Nat := Generated.c11bHttpStatus.getD 3 405
def stContentTooLarge : Nat := Generated.c11bHttpStatus.getD 4 413
def stNotImplemented : Nat := Generated.c11bHttpStatus.getD 5 501
def stVersionNotSupp : Nat := Generated.c11bHttpStatus.getD 6 505

/-- nni_strcasestr(hay, needle) != NULL -/
def caseContains (hay needle : Bytes) : Bool :=
  let h := hay.map HttpConn.lower
  let n := needle.map HttpConn.lower
  (List.range (h.length + 1)).any fun i => (h.drop i).take n.length == n

/-- strstr(hay, needle) != NULL -/
def strContains (hay needle : Bytes) : Bool :=
  (List.range (hay.length + 1)).any fun i => (hay.drop i).take needle.length == needle

/-- the skip of ws_contains_word: to the next ' ' (none: the phrase is exhausted), then over ' ' and ',' -/
def wordSkip : Bytes → Option Bytes
  | [] => none
  | c :: r => if c == 0x20 then some ((c :: r).dropWhile fun x => x == 0x20 || x == 0x2C) else wordSkip r

theorem wordSkip_shorter (p q : Bytes) (h : wordSkip p = some q) : q.length < p.length := by
  induction p with
  | nil => simp [wordSkip] at h
  | cons c r ih =>
    unfold wordSkip at h
    by_cases hc : (c == 0x20) = true
    · rw [if_pos hc] at h
      cases h
      have h1 : List.dropWhile (fun x => x == 0x20 || x == 0x2C) (c :: r) =
          List.dropWhile (fun x => x == 0x20 || x == 0x2C) r := by
        rw [List.dropWhile_cons]; simp [hc]
      rw [h1]
      have := (List.dropWhile_sublist (fun x => x == 0x20 || x == 0x2C) (l := r)).length_le
      simp; omega
    · rw [if_neg hc] at h
      have := ih h
      simp; omega

/-- ws_contains_word(phrase, word) -/
def containsWord (phrase word : Bytes) : Bool :=
  if phrase.isEmpty then false
  else
    let hit := (phrase.take word.length).map HttpConn.lower == word.map HttpConn.lower &&
      (phrase.take word.length).length == word.length &&
      (match phrase[word.length]? with
       | none => true
       | some c => c == 0x20 || c == 0x2C)
    if hit then true
    else
      match h : wordSkip phrase with
      | none => false
      | some q => containsWord q word
termination_by phrase.length
decreasing_by exact wordSkip_shorter _ _ h

/-- strtoull(s, &end, 10) for what the sessions send: optional blanks, then decimal digits (saturating) -/
def strtoull (s : Bytes) : Nat :=
  let t := s.dropWhile fun c => c == 0x20 || c == 0x09
  min (HttpConn.digitsVal 0 (t.takeWhile HttpConn.isDigit)) (2 ^ 64 - 1)

/-- configuration of the listening ws transport -/
structure WsL where
  proto : Bytes                    -- l->proto: "<protocol name>.sp.nanomsg.org"
  host : Bytes                     -- the handler's host (an IPv4 literal)
  recvmax : Nat                    -- NNG_OPT_RECVMAXSZ
deriving Repr

/-- http_handler_host_match for an IPv4-literal handler host, on the Host values the sessions use:
    the literal itself, optionally followed by ':' and a decimal port -/
def hostMatch (l : WsL) (host : Option Bytes) : Bool :=
  match host with
  | none => false
  | some v =>
    v == l.host ||
      (v.take (l.host.length + 1) == l.host ++ [0x3A] &&
        (let p := v.drop (l.host.length + 1)
         !p.isEmpty && p.length ≤ 5 && p.all HttpConn.isDigit && HttpConn.digitsVal 0 p < 65536))

inductive Srv where
  | error (status : Nat)           -- http_sconn_error(status): an error page is written
  | body (n : Nat)                 -- the handler matched and wants the body: n bytes are read first
  | handler                        -- the handler runs now
deriving Repr, DecidableEq

/-- http_sconn_rxdone for a completed request read (result NNG_OK), server with the one websocket
    handler at "/" (method GET, collects the body, maxbody default).  Returns the decision, the new
    sc->close and sc->unconsumed_body. -/
def sconnRx (l : WsL) (m : HttpConn.Msg) (close : Bool) : Srv × Bool × Nat :=
  -- a request the parser rejected: the end of the request is unknown, the connection is closed after the answer
  if HttpConn.getStatus m ≥ stBadRequest then (.error (HttpConn.getStatus m), true, 0)
  else if m.vers.take 7 ≠ asc "HTTP/1." then (.error stVersionNotSupp, true, 0)
  else
    let v11 := m.vers == asc "HTTP/1.1"
    let close1 := close || !v11
    let uri := HttpConn.getUri m
    if uri.head? ≠ some 0x2F then (.error stBadRequest, true, 0)
    else
      let close2 := close1 || (match hdrGet m (asc "Connection") with
                               | some v => caseContains v (asc "close")
                               | none => false)
      if (hdrGet m (asc "Transfer-Encoding")).isSome then (.error stNotImplemented, true, 0)
      else
        let clen := hdrGet m (asc "Content-Length")
        let unconsumed := match clen with
                          | some v => strtoull v
                          | none => 0
        let host := hdrGet m (asc "Host")
        -- Content-Length must be a plain decimal number (first byte a digit, nothing after the digits): else 400 and close
        if (match clen with
            | some v => !(match v.head? with | some c => decide (0x30 ≤ c ∧ c ≤ 0x39) | none => false) ||
                        !(v.all fun c => decide (0x30 ≤ c ∧ c ≤ 0x39))
            | none => false) then (.error stBadRequest, true, 0)
        else if host.isNone && v11 then (.error stBadRequest, close2, unconsumed)
        else if !hostMatch l host then (.error stNotFound, close2, unconsumed)
        else if uri ≠ [0x2F] then (.error stNotFound, close2, unconsumed)     -- handler uri "" and not a tree
        else if m.meth ≠ asc "GET" ∧ m.meth ≠ asc "HEAD" then (.error stMethodNotAllowed, close2, unconsumed)
        else if unconsumed > 0 then
          if unconsumed > Generated.c11bHttpMaxBody then (.error stContentTooLarge, close2, unconsumed)
          else (.body unconsumed, close2, 0)
        else (.handler, close2, 0)

/-- atoi(ptr) > 0 -/
def atoiPositive (v : Bytes) : Bool := HttpConn.atoi v > 0

/-- ws_handler: the status it answers with (101 = upgrade).  (Reached through http_sconn_rxdone the version
    test never fails: `finish:` has just set the connection's version to HTTP/1.1 for the response, and the
    connection has one version field — an HTTP/1.0 upgrade request is accepted; see `wsServe`.) -/
def wsHandler (l : WsL) (m : HttpConn.Msg) : Nat :=
  if m.vers ≠ asc "HTTP/1.1" then stVersionNotSupp
  else if m.meth ≠ asc "GET" then stBadRequest
  else if (match hdrGet m (asc "Content-Length") with | some v => atoiPositive v | none => false) then stContentTooLarge
  else if (match hdrGet m (asc "Transfer-Encoding") with | some v => caseContains v (asc "chunked") | none => false) then
    stContentTooLarge
  else if !(match hdrGet m (asc "Upgrade") with | some v => containsWord v (asc "websocket") | none => false) then stBadRequest
  else if !(match hdrGet m (asc "Connection") with | some v => containsWord v (asc "upgrade") | none => false) then stBadRequest
  else if hdrGet m (asc "Sec-WebSocket-Version") ≠ some (asc "13") then stBadRequest
  else if !(match hdrGet m (asc "Sec-WebSocket-Key") with | some v => v.length == Generated.c11bWsKeyLen | none => false) then
    stBadRequest
  else
    match hdrGet m (asc "Sec-WebSocket-Protocol") with
    | none => stBadRequest                                     -- l->proto is set
    | some p =>
      -- an empty offer or a list of offers (a ' ' or ',' in the value) is refused: the value is echoed in the
      -- response, where it has to be a single token
      if p.isEmpty || p.any (fun c => c = 32 || c = 44) then stBadRequest
      else if containsWord l.proto p then stSwitching else stBadRequest

/-- what a server connection did with a byte stream -/
structure WsConnOut where
  statuses : List Nat := []        -- status of every response written, in order (101 last if upgraded)
  upgraded : Bool := false
  closedByServer : Bool := false   -- the server closed (read error, or close after a response)
  frames : Bytes := []             -- upgraded: the bytes after the request head
deriving Repr

def wsFrameCfg (l : WsL) : Ws.Cfg :=
  { server := true, isstream := false, recvText := false, sendText := false, maxframe := Generated.c11bWsDefMaxRxFrame,
    recvmax := l.recvmax, fragsize := Generated.c11bWsDefMaxTxFrame }

/-- the server connection loop over the whole stream `s` (the bytes the peer ever sends):
    nni_http_read_req → http_sconn_rxdone → (body) → handler → response → http_sconn_txdone → … -/
def wsServe (l : WsL) : Nat → HttpConn.Conn → Bool → Bytes → WsConnOut → WsConnOut
  | 0, _, _, _, o => o
  | fuel + 1, c, close, s, o =>
    let (r, rest) := HttpConn.feed true (s.length + 1) (HttpConn.readReq c) s
    if r.rv = HttpConn.rvAgain then o                                      -- still waiting for the head
    else if r.rv ≠ HttpConn.rvOk then { o with closedByServer := true }    -- http_sconn_close, no response
    else
      let m := r.c.m
      let (d, close1, unconsumed) := sconnRx l m close
      -- after a response: close, or discard the body and read the next request
      let next (status : Nat) (close2 : Bool) (c2 : HttpConn.Conn) (rest2 : Bytes) (disc : Nat) : WsConnOut :=
        let o2 := { o with statuses := o.statuses ++ [status] }
        if close2 then { o2 with closedByServer := true }
        else
          let all := c2.pend ++ rest2
          if disc > all.length then o2                                      -- waits for the rest of the body
          else wsServe l fuel { c2 with get := 0, pend := [] } close2 (all.drop disc) o2
      match d with
      | .error st => next st close1 r.c rest unconsumed
      | .body n =>
        let all := r.c.pend ++ rest
        if n > all.length then o                                            -- waits for the body
        else
          let st := wsHandler l { m with vers := asc "HTTP/1.1" }       -- finish: nni_http_set_version(conn, 1.1)
          -- cbdone: `Connection: close` in the request (case-sensitive substring) closes after the response
          let close2 := close1 || (match hdrGet m (asc "Connection") with | some v => strContains v (asc "close") | none => false)
          if st = stSwitching then { o with statuses := o.statuses ++ [st], upgraded := true, frames := all.drop n }
          else next st close2 { r.c with get := 0, pend := [] } (all.drop n) 0
      | .handler =>
        let st := wsHandler l { m with vers := asc "HTTP/1.1" }
        let close2 := close1 || (match hdrGet m (asc "Connection") with | some v => strContains v (asc "close") | none => false)
        if st = stSwitching then { o with statuses := o.statuses ++ [st], upgraded := true, frames := r.c.pend ++ rest }
        else next st close2 r.c rest 0

structure WsSessOut where
  conn : WsConnOut
  wsClosed : Bool := false         -- the frame receiver closed the connection (rule violation or CLOSE)
  closeTx : List Bytes := []       -- frames the receiver wrote (CLOSE with its code, PONG)
  tp : List Bytes := []            -- messages handed to the protocol
  deliver : List (Bytes × Bytes) := []
  pclose : Bool := false           -- the protocol closed the pipe (malformed header)
deriving Repr

/-- a whole hostile ws:// session -/
def wsSess (l : WsL) (pc : PCfg) (stream : Bytes) : WsSessOut :=
  let co := wsServe l (stream.length + 2) {} false stream {}
  if !co.upgraded then { conn := co }
  else if pipeStart pc.proto pc.proto.peer pc.busy ≠ 0 then { conn := co, pclose := true }   -- PAIR busy: the pipe is refused
  else
    let r := Ws.rxFold (wsFrameCfg l) {} co.frames
    let msgs := r.2.filterMap fun e => match e with | .msg b => some b | _ => none
    let tx := r.2.filterMap fun e => match e with | .tx b => some b | _ => none
    let (ds, pclose) := appOut pc 0 none msgs
    { conn := co, wsClosed := r.1.closed, closeTx := tx, tp := msgs, deliver := ds, pclose := pclose }

end Nng.Hostile
