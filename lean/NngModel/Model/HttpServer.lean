/-
  Model of the HTTP SERVER layer as the C code implements it (src/supplemental/http/http_server.c, on top of the
  connection layer modelled in Model/HttpConn.lean):
    nni_http_handler_init / set_method / set_host / set_tree / collect_body, nni_http_server_add_handler (conflict rule,
    sorted insertion), http_handler_host_match, the handler loop and the checks of http_sconn_rxdone in the order of
    the source, http_sconn_error + nni_http_server_error + http_conn_set_error (the error page), the built-in static
    and redirect handlers, http_sconn_cbdone (Connection: close, HEAD pruning, the `iserr` error page), http_sconn_txdone
    (close, discard the unread body, next request) and the connection loop `serve` over the received byte stream.

  The parsed request is `HttpConn.Msg` (not re-modelled); heads are read with `HttpConn.runRead`.
  Five repairs are followed by FLAGS extracted from the source (`Flags`); `fixed` is the repaired code.
  Not modelled: IP-literal handler hosts (`host_ip`), file/directory handlers, hijacking, handlers that write the
  response themselves, allocation failure (500), TLS.
  Core Lean only.
-/
import NngModel.Model.HttpConn
import NngModel.Generated.C16S
namespace Nng.HttpSrv
open Nng Nng.HttpConn

def asc (s : String) : Bytes := s.toList.map fun c => UInt8.ofNat c.toNat

/-! ### extracted constants -/
def stOK : Nat := Generated.httpSrvStatus.getD 0 0
def stMoved : Nat := Generated.httpSrvStatus.getD 1 0
def stBadRequest : Nat := Generated.httpSrvStatus.getD 2 0
def stNotFound : Nat := Generated.httpSrvStatus.getD 3 0
def stMethodNotAllowed : Nat := Generated.httpSrvStatus.getD 4 0
def stContentTooLarge : Nat := Generated.httpSrvStatus.getD 5 0
def stInternal : Nat := Generated.httpSrvStatus.getD 6 0
def stNotImplemented : Nat := Generated.httpSrvStatus.getD 7 0
def stVersionNotSupp : Nat := Generated.httpSrvStatus.getD 8 0
def uriSize : Nat := Generated.httpSrvUriSize
def methodSize : Nat := Generated.httpSrvMethodSize
def hostSize : Nat := Generated.httpSrvHostSize
def defMaxBody : Nat := Generated.httpSrvDefMaxBody
def defMethod : Bytes := ofNats Generated.httpSrvDefMethod
def staticCtype : Bytes := ofNats Generated.httpSrvStaticCtype
def reasons : List (Nat × Bytes) := Generated.httpSrvReasons.map fun p => (p.1, ofNats p.2)
def unknownReason : Bytes := ofNats Generated.httpSrvUnknownReason
def pageBuf : Nat := Generated.httpSrvPageBuf
def pageSeg (i : Nat) : Bytes := ofNats (Generated.httpSrvPagePrefix.getD i [])
def pageSuffix : Bytes := ofNats Generated.httpSrvPageSuffix
def pageCtype : Bytes := ofNats Generated.httpSrvPageCtype
def redirUrlMax : Nat := Generated.httpSrvRedirLimits.getD 0 0
def redirReasonMax : Nat := Generated.httpSrvRedirLimits.getD 1 0
def redirLong : Bytes := ofNats Generated.httpSrvRedirLong
def redirSeg (i : Nat) : Bytes := ofNats (Generated.httpSrvRedirText.getD i [])

/-- the repairs the source may or may not contain -/
structure Flags where
  clenValidated : Bool      -- http_sconn_rxdone: Content-Length must be a plain decimal number (else 400 + close)
  parseErrorCloses : Bool   -- http_sconn_rxdone: status ≥ 400 from the parser closes the connection
  errorPrunesHead : Bool    -- http_sconn_error: no body in an error answer to HEAD
  cbdonePrunesHead : Bool   -- http_sconn_cbdone: no body in any answer to HEAD
  iserrReset : Bool         -- nni_http_conn_reset clears conn->iserr
  wrStrict : Bool := true   -- http_prepare formats into the connection buffer only when len < bufsz
deriving Repr, DecidableEq

def flags : Flags :=
  { clenValidated := Generated.httpSrvClenValidated, parseErrorCloses := Generated.httpSrvParseErrorCloses,
    errorPrunesHead := Generated.httpSrvErrorPrunesHead, cbdonePrunesHead := Generated.httpSrvCbdonePrunesHead,
    iserrReset := Generated.httpSrvIserrReset, wrStrict := Generated.httpWrFixedIfLess }

/-- the repaired code -/
def fixed : Flags :=
  { clenValidated := true, parseErrorCloses := true, errorPrunesHead := true, cbdonePrunesHead := true, iserrReset := true,
    wrStrict := true }

def sHEAD : Bytes := asc "HEAD"
def sConnection : Bytes := asc "Connection"
def sClose : Bytes := asc "close"
def sTransferEncoding : Bytes := asc "Transfer-Encoding"
def sLocation : Bytes := asc "Location"
def sHttp1x : Bytes := asc "HTTP/1."
def sHttp11 : Bytes := asc "HTTP/1.1"
def sTextPlain : Bytes := asc "text/plain"
def SLASH : UInt8 := 0x2F

/-! ### handlers and the handler table -/

inductive Kind where
  | echo                                              -- a generic handler: 200, text/plain, "h<id>\n"
  | err (status : Nat)                                -- a generic handler answering nni_http_set_error(status)
  | static (data ctype : Bytes)                       -- http_handle_static
  | redirect (code : Nat) (loc base : Bytes)          -- http_handle_redirect (hr->where, hr->from)
deriving Repr, DecidableEq

structure Handler where
  id : Nat
  uri : Bytes                -- h->uri ("" for "/")
  method : Bytes := defMethod -- "" = every method
  host : Bytes := []         -- "" = every host
  tree : Bool := false
  getbody : Bool := true
  maxbody : Nat := defMaxBody
  kind : Kind := .echo
deriving Repr, DecidableEq

/-- nni_http_handler_init: NULL, "" and "/" become ""; snprintf into uri[] truncates -/
def initUri (uri : Option Bytes) : Bytes :=
  match uri with
  | none => []
  | some u => if u.isEmpty || u == sSlash then [] else u.take (uriSize - 1)

/-- nni_http_handler_set_method -/
def setMethodOf (m : Option Bytes) : Bytes := (m.getD []).take (methodSize - 1)

/-- nni_http_handler_set_host for a host that is not an IP literal: NULL, "*" and "" mean every host -/
def setHostOf (h : Option Bytes) : Bytes :=
  match h with
  | none => []
  | some v => if v == asc "*" || v.isEmpty then [] else v.take (hostSize - 1)

/-- `strcmp(a, b) > 0` (unsigned bytes; no NUL inside) -/
def strGt : Bytes → Bytes → Bool
  | [], _ => false
  | _ :: _, [] => true
  | a :: as, b :: bs => if a = b then strGt as bs else a > b

/-- the second loop of nni_http_server_add_handler: before the first handler with a smaller uri, else at the end -/
def insertSorted (h : Handler) : List Handler → List Handler
  | [] => [h]
  | h2 :: r => if strGt h.uri h2.uri then h :: h2 :: r else h2 :: insertSorted h r

/-- the first loop: same host (without regard to case), same method, same uri -/
def conflicts (t : List Handler) (h : Handler) : Bool :=
  t.any fun h2 => ieq h2.host h.host && h2.method == h.method && h.uri == h2.uri

/-- nni_http_server_add_handler: the new table, or the error number -/
def addHandler (t : List Handler) (h : Handler) : Except Nat (List Handler) :=
  if !h.uri.isEmpty && h.uri.head? != some SLASH then .error Err.einval
  else if conflicts t h then .error Err.eaddrinuse
  else .ok (insertSorted h t)

/-- http_handler_host_match (handler host not an IP literal); `host` = the request's Host header -/
def hostMatch (hh : Bytes) (host : Option Bytes) : Bool :=
  if hh.isEmpty then true
  else
    match host with
    | none => false
    | some v =>
      let len := hh.length
      if (v.take len).map lower != hh.map lower then false      -- nni_strncasecmp(host, h->host, len) != 0
      else
        match v[len]? with
        | none => true                                          -- host[len] == '\0'
        | some c =>
          if c == COLON then true
          else if c == 0x2E then v[len + 1]? == none            -- a lone trailing "."
          else false

/-- the uri test of the handler loop: `strncmp(uri, h->uri, len)`, then `switch (uri[len])` -/
def pathMatch (h : Handler) (uri : Bytes) : Bool :=
  let len := h.uri.length
  if uri.take len != h.uri then false
  else
    match uri[len]? with
    | none => true
    | some c => if c == SLASH then (uri[len + 1]? == none || h.tree) else false

/-- the NNI_LIST_FOREACH loop of http_sconn_rxdone: (h after the loop, head, badmeth) -/
def findGo (meth : Bytes) (host : Option Bytes) (uri : Bytes) :
    List Handler → Option Handler → Bool → Option Handler × Option Handler × Bool
  | [], head, bad => (none, head, bad)
  | h :: r, head, bad =>
    if !hostMatch h.host host then findGo meth host uri r head bad
    else if !pathMatch h uri then findGo meth host uri r head bad
    else if h.method.isEmpty then (some h, head, bad)
    else if meth == h.method then (some h, head, bad)
    else if meth == sHEAD && h.method == sGET then findGo meth host uri r (some h) bad
    else findGo meth host uri r head true

/-- the loop and the code after it: the handler, or 405 / 404 -/
def findHandler (t : List Handler) (meth : Bytes) (host : Option Bytes) (uri : Bytes) : Except Nat Handler :=
  match findGo meth host uri t none false with
  | (some h, _, _) => .ok h
  | (none, some h, _) => .ok h
  | (none, none, bad) => .error (if bad then stMethodNotAllowed else stNotFound)

/-! ### http_sconn_rxdone -/

/-- nni_http_get_header on a server connection: first request header with that name -/
def reqHeader (m : Msg) (name : Bytes) : Option Bytes := (m.reqHdrs.find? fun h => ieq name h.name).map (·.value)

/-- nni_strcasestr(hay, needle) != NULL -/
def caseContains (hay needle : Bytes) : Bool :=
  let h := hay.map lower
  let n := needle.map lower
  (List.range (h.length + 1)).any fun i => (h.drop i).take n.length == n

/-- strstr(hay, needle) != NULL -/
def strContains (hay needle : Bytes) : Bool :=
  (List.range (hay.length + 1)).any fun i => (hay.drop i).take needle.length == needle

def isSpaceC (c : UInt8) : Bool := c == 0x20 || (0x09 ≤ c && c ≤ 0x0D)

/-- strtoull(s, &end, 10): the value and the text at `end` (no digits: 0 and the whole string) -/
def strtoull (s : Bytes) : Nat × Bytes :=
  let t := s.dropWhile isSpaceC
  let (neg, d) := match t with
    | c :: r => if c == 0x2D then (true, r) else if c == 0x2B then (false, r) else (false, t)
    | [] => (false, [])
  let ds := d.takeWhile isDigit
  if ds.isEmpty then (0, s)
  else
    let v := digitsVal 0 ds
    let r := if v ≥ 2 ^ 64 then 2 ^ 64 - 1 else if neg then (2 ^ 64 - v) % 2 ^ 64 else v
    (r, d.dropWhile isDigit)

inductive Decision where
  | error (status : Nat)           -- http_sconn_error(status)
  | body (h : Handler) (n : Nat)   -- the handler wants the body: n bytes are read first, then it runs
  | run (h : Handler)              -- the handler runs now
deriving Repr, DecidableEq

/-- decision, sc->close and sc->unconsumed_body after http_sconn_rxdone -/
structure Rx where
  d : Decision
  close : Bool
  unconsumed : Nat
deriving Repr, DecidableEq

/-- the Content-Length step: `none` = 400 (repaired code only) -/
def clenStep (f : Flags) (m : Msg) : Option Nat :=
  match reqHeader m sContentLength with
  | none => some 0
  | some cls =>
    let r := strtoull cls
    if f.clenValidated then
      (match cls with
       | c :: _ => if isDigit c && r.2.isEmpty then some r.1 else none
       | [] => none)
    else some r.1            -- `(end == NULL) && …` is never true

/-- the part of http_sconn_rxdone after the handler was found -/
def bodyStep (h : Handler) (close : Bool) (unconsumed : Nat) : Rx :=
  if h.getbody && unconsumed > 0 then
    if unconsumed > h.maxbody then ⟨.error stContentTooLarge, close, unconsumed⟩
    else ⟨.body h unconsumed, close, 0⟩
  else ⟨.run h, close, unconsumed⟩

/-- http_sconn_rxdone for a completed request read (sc->unconsumed_body = 0, sc->handler = NULL) -/
def rxDecide (f : Flags) (t : List Handler) (m : Msg) (close : Bool) : Rx :=
  if getStatus m ≥ stBadRequest then ⟨.error (getStatus m), close || f.parseErrorCloses, 0⟩
  else if m.vers.take 7 ≠ sHttp1x then ⟨.error stVersionNotSupp, true, 0⟩
  else
    let v11 := m.vers == sHttp11
    let close1 := close || !v11
    let uri := getUri m
    if uri.head? ≠ some SLASH then ⟨.error stBadRequest, true, 0⟩
    else
      let close2 := close1 || (match reqHeader m sConnection with
                               | some v => caseContains v sClose
                               | none => false)
      if (reqHeader m sTransferEncoding).isSome then ⟨.error stNotImplemented, true, 0⟩
      else
        match clenStep f m with
        | none => ⟨.error stBadRequest, true, 0⟩
        | some unconsumed =>
          let host := reqHeader m sHost
          if host.isNone && v11 then ⟨.error stBadRequest, close2, unconsumed⟩
          else
            match findHandler t m.meth host uri with
            | .error st => ⟨.error st, close2, unconsumed⟩
            | .ok h => bodyStep h close2 unconsumed

/-! ### responses -/

/-- nni_http_reason -/
def reasonOf (code : Nat) : Bytes :=
  match reasons.find? fun p => p.1 == code with
  | some p => p.2
  | none => unknownReason

/-- nni_http_get_reason: `conn->rsn ? conn->rsn : nni_http_reason(conn->code)` (the code as stored: 0 is not 200) -/
def getReason (m : Msg) : Bytes := m.rsn.getD (reasonOf m.code)

/-- the default error page of http_conn_set_error (snprintf into content[], three steps) -/
def page (status : Nat) (reason : Bytes) (redirect : Option Bytes) : Bytes :=
  let c0 := (pageSeg 0 ++ decimal status ++ pageSeg 1 ++ reason ++ pageSeg 2 ++ decimal status ++ pageSeg 3 ++ reason ++
              pageSeg 4).take (pageBuf - 1)
  let extra := match redirect with
    | some r =>
      if r.length > redirUrlMax && reason.length < redirReasonMax then redirLong
      else redirSeg 0 ++ r ++ redirSeg 1 ++ r ++ redirSeg 2
    | none => []
  let c1 := c0 ++ extra.take (pageBuf - c0.length - 1)
  c1 ++ pageSuffix.take (pageBuf - c1.length - 1)

/-- a response being built: the connection's message state and the response body -/
structure Res where
  m : Msg
  body : Bytes := []
  iserr : Bool := false
deriving Repr, DecidableEq

/-- nni_http_set_content_type on a server connection -/
def setCtype (m : Msg) (v : Bytes) : Msg := { m with resHdrs := setStatic m.resHdrs 2 sContentType (v.take (ctypeSize - 1)) }
/-- nni_http_set_content_length on a server connection -/
def setClen (m : Msg) (n : Nat) : Msg :=
  { m with resHdrs := setStatic m.resHdrs 3 sContentLength ((decimal n).take (clenSize - 1)) }

/-- http_conn_set_error(conn, status, NULL, body, redirect) -/
def setError (r : Res) (status : Nat) (body : Option Bytes) (redirect : Option Bytes) : Res :=
  let m1 := setStatus r.m status
  let b := body.getD (page status (getReason m1) redirect)
  if b.length > 0 then { m := setClen (setCtype m1 pageCtype) b.length, body := b, iserr := true }
  else { r with m := m1, iserr := true }

/-- nni_http_server_error: the custom page for the current status, if one was set -/
def serverError (pages : List (Nat × Bytes)) (r : Res) : Res :=
  let code := getStatus r.m
  setError r code ((pages.find? fun p => p.1 == code).map (·.2)) none

/-- nni_http_write_res: the bytes put on the wire -/
def wire (r : Res) : Bytes := emitRes r.m (getReason r.m) ++ r.body

/-! ### http_prepare: where the head is formatted -/

/-- `true`: http_prepare uses the connection buffer only when `len < bufsz` (extracted) -/
def wrStrict : Bool := Generated.httpWrFixedIfLess

/-- http_snprintf into a buffer of `cap` bytes: the text cut to cap-1 bytes, then NUL (the pieces are written with the
    remaining size each, nothing once the size is used up) -/
def snprintfBuf (cap : Nat) (text : Bytes) : Bytes := if cap = 0 then [] else text.take (cap - 1) ++ [0]

/-- http_prepare and the first iov of nni_http_write_req / nni_http_write_res: the `len` bytes handed to the stream for
    the head `head` (`len` = its rendered length).  `strict`: the fixed buffer is chosen by `len < bufsz` (else by
    `len <= bufsz`); `unread`: the buffer holds received bytes not yet consumed (rd_get ≠ rd_put), which forces the
    heap copy of len+1 bytes -/
def prepared (strict unread : Bool) (head : Bytes) : Bytes :=
  let len := head.length
  if (if strict then decide (len < bufsz) else decide (len ≤ bufsz)) && !unread then (snprintfBuf bufsz head).take len
  else (snprintfBuf (len + 1) head).take len

/-- the bytes of a response as they reach the stream -/
def wireOut (strict : Bool) (r : Res) : Bytes := prepared strict false (emitRes r.m (getReason r.m)) ++ r.body

/-- http_sconn_error: the response bytes and the new `iserr` -/
def sconnError (f : Flags) (pages : List (Nat × Bytes)) (m : Msg) (iserr : Bool) (status : Nat) (close : Bool) : Res :=
  let r1 := serverError pages { m := setStatus m status, body := [], iserr := iserr }
  let r2 := if f.errorPrunesHead && m.meth == sHEAD then { r1 with body := [] } else r1
  if close then { r2 with m := { r2.m with resHdrs := setStatic r2.m.resHdrs 5 sConnection sClose } } else r2

/-- `finish:` in http_sconn_rxdone: the response is reset, version 1.1, status 0 -/
def finishReset (m : Msg) : Msg := setStatus { m with resHdrs := [], vers := defaultVersion } 0

/-- what the handler callback does to the response -/
def runKind (k : Kind) (id : Nat) (r : Res) : Res :=
  match k with
  | .echo =>
    let b := asc "h" ++ decimal id ++ [LF]
    { r with m := setStatus (setClen (setCtype r.m sTextPlain) b.length) stOK, body := b }
  | .err st => setError r st none none
  | .static data ctype =>
    { r with m := setStatus (setClen (setCtype r.m ctype) data.length) stOK, body := data }
  | .redirect code loc base =>
    let uri := getUri r.m
    let l := if uri.take base.length == base then loc ++ uri.drop base.length else loc
    -- nni_http_set_redirect: Location first, then the error page naming the target
    let m1 := { r.m with resHdrs := { name := sLocation, value := l, tag := 4 } ::
                  ((delHeader r.m.resHdrs sLocation).filter fun h => h.tag != 4) }
    let r1 := setError { r with m := m1 } code none (some l)
    { r1 with m := setStatus (setHeader r1.m false sConnection sClose) code }

/-- http_sconn_cbdone, first part: `Connection: close` in the request (a case-SENSITIVE substring test here) sets
    sc->close; with sc->close set the response says `Connection: close` -/
def cbClose (r : Res) (close : Bool) : Res × Bool :=
  let close1 := close || (match reqHeader r.m sConnection with
                          | some v => strContains v sClose
                          | none => false)
  (if close1 then { r with m := setHeader r.m false sConnection sClose } else r, close1)

/-- http_sconn_cbdone, second part: HEAD pruning and the error page -/
def cbBody (f : Flags) (pages : List (Nat × Bytes)) (r1 : Res) : Res :=
  let status := getStatus r1.m
  let head2xx := r1.m.meth == sHEAD && 200 ≤ status && status ≤ 299
  if f.cbdonePrunesHead then
    let r2 := if !head2xx && r1.iserr then serverError pages r1 else r1
    if r2.m.meth == sHEAD then { r2 with body := [] } else r2
  else if head2xx then { r1 with body := [] }
  else if r1.iserr then serverError pages r1
  else r1

/-- http_sconn_cbdone for a handler that finished without error and did not send the response itself:
    the response to write and sc->close -/
def cbDone (f : Flags) (pages : List (Nat × Bytes)) (r : Res) (close : Bool) : Res × Bool :=
  ((cbBody f pages (cbClose r close).1), (cbClose r close).2)

/-! ### the connection -/

structure Server where
  handlers : List Handler := []
  pages : List (Nat × Bytes) := []
deriving Repr

/-- http_server_set_err: replace the page for that code, or append -/
def setPage (pages : List (Nat × Bytes)) (code : Nat) (html : Bytes) : List (Nat × Bytes) :=
  if pages.any (fun p => p.1 == code) then pages.map fun p => if p.1 == code then (code, html) else p
  else pages ++ [(code, html)]

inductive Ev where
  | handler (id : Nat) (meth uri vers body : Bytes)
  | write (b : Bytes)
  | close
deriving Repr, DecidableEq

/-- outcome of nni_http_read_req over the bytes available -/
inductive Head where
  | more                         -- still waiting for the end of the head
  | done (m : Msg) (n : Nat)     -- the request, and the length of its head
  | fail (rv : Nat)              -- the read failed: the connection is closed without an answer
deriving DecidableEq

/-- reading a head from the stream `s` (all of it available) on a connection whose message state is `m0` -/
def readHead (m0 : Msg) (s : Bytes) : Head :=
  let r := runRead true { m := m0 } [s]
  if r.rv = rvAgain then .more
  else if r.rv = rvOk then .done r.c.m (r.c.taken - r.c.pend.length)
  else .fail r.rv

/-- state of a server connection between requests -/
structure SConn where
  m : Msg := {}            -- the connection's message state (conn->host survives nni_http_conn_reset)
  close : Bool := false    -- sc->close
  iserr : Bool := false    -- conn->iserr
deriving Repr, DecidableEq

/-- what the generic handler reports -/
def handlerEv (h : Handler) (m : Msg) (body : Bytes) : List Ev :=
  match h.kind with
  | .echo | .err _ => [.handler h.id m.meth (getUri m) m.vers body]
  | _ => []

/-- one request: `rd` reads the head.  Returns the events and, if the connection goes on, its state and the
    rest of the stream. -/
def serveOne (f : Flags) (srv : Server) (rd : Msg → Bytes → Head) (sc : SConn) (s : Bytes) :
    List Ev × Option (SConn × Bytes) :=
  match rd sc.m s with
  | .more => ([], none)
  | .fail _ => ([.close], none)
  | .done m n =>
    let rest := s.drop n
    let iserr := if f.iserrReset then false else sc.iserr
    let rx := rxDecide f srv.handlers m sc.close
    -- http_sconn_txdone
    let after (evs : List Ev) (m' : Msg) (iserr' close : Bool) (rest' : Bytes) (disc : Nat) : List Ev × Option (SConn × Bytes) :=
      if close then (evs ++ [.close], none)
      else if disc > rest'.length then (evs, none)
      else (evs, some ({ m := m', close := close, iserr := iserr' }, rest'.drop disc))
    let handle (h : Handler) (body : Bytes) (rest' : Bytes) : List Ev × Option (SConn × Bytes) :=
      let m1 := finishReset m
      let r := runKind h.kind h.id { m := m1, body := [], iserr := iserr }
      let (r2, close2) := cbDone f srv.pages r rx.close
      after (handlerEv h m1 body ++ [.write (wireOut f.wrStrict r2)]) r2.m r2.iserr close2 rest' rx.unconsumed
    match rx.d with
    | .error st =>
      let r := sconnError f srv.pages m iserr st rx.close
      after [.write (wireOut f.wrStrict r)] r.m r.iserr rx.close rest rx.unconsumed
    | .body h k => if k > rest.length then ([], none) else handle h (rest.take k) (rest.drop k)
    | .run h => handle h [] rest

/-- the connection loop -/
def serveWith (f : Flags) (srv : Server) (rd : Msg → Bytes → Head) : Nat → SConn → Bytes → List Ev
  | 0, _, _ => []
  | fuel + 1, sc, s =>
    match serveOne f srv rd sc s with
    | (evs, none) => evs
    | (evs, some (sc', s')) => evs ++ serveWith f srv rd fuel sc' s'

/-- everything a fresh server connection does with the byte stream `s` -/
def serve (f : Flags) (srv : Server) (s : Bytes) : List Ev := serveWith f srv readHead (s.length + 1) {} s

end Nng.HttpSrv
