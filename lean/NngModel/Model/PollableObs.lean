/- what an outside observer (Spec/Pollable.lean `Obs`) sees of a model state -/
import NngModel.Model.Pollable
import NngModel.Spec.Pollable
namespace Nng.Pollable
open Nng.PollSpec

def resOf : GPc → Res
  | .done (some p) => .ok p
  | .done none => .err
  | _ => .pending

def obsOf (s : State) : Obs :=
  { raised := s.sh.raised, inst := s.sh.fds, readable := decide (0 < s.sh.instBytes),
    bytes := s.sh.instBytes, nopen := s.sh.nOpen, quiet := s.quiescent,
    res := s.gs.map resOf, bad := s.sh.bad }

/-- the platform/atomic call a thread performs next (the harness observes at which interposed call
    each thread is parked) -/
def Mut.next (m : Mut) : String :=
  match m.pc with
  | .idle => if m.prog.isEmpty then "end" else "swap"
  | .raiseLoad => "get64"
  | .raiseWrite _ => "raise"
  | .clearLoad => "get64"
  | .clearDrain _ => "clear"

def GPc.next : GPc → String
  | .idle => "get64"
  | .top => "get64"
  | .open_ => "open"
  | .cas _ => "cas"
  | .ld _ => "getb"
  | .act _ true => "raise"
  | .act _ false => "clear"
  | .chk _ _ => "getb"
  | .close _ => "close"
  | .done _ => "end"

end Nng.Pollable
