/-
  Executable model of src/core/url.c (C19), function by function, over NUL-free byte
  lists (a C string is the list of its bytes before the terminator; reading at the end of a
  list yields the terminator 0).  The model mirrors the *fixed* code (F2: validator accumulates
  before advancing; F3: scheme comparison is exact; F4: clone sizes the copy from the source;
  F15: a port string must start with a letter or digit, so strtol's white space / sign are
  unreachable).  Tables and sizes come from Generated/Consts.lean.  Core Lean only.

  Loop encodings (all structural, so the kernel can run them):
    * `while (out[src] == '/') src++`   → flag `prev` ("previous byte emitted was this run's '/'")
    * `src += 3` / `src += 2`           → counter `n` of bytes still to skip
    * in-place `dst--` scan             → `popSeg` on the reversed output prefix
-/
import NngModel.Base.Bytes
import NngModel.Generated.C19
namespace Nng.Url
open Nng

abbrev COLON : UInt8 := 0x3A
abbrev SLASH : UInt8 := 0x2F
abbrev QM : UInt8 := 0x3F
abbrev HASH : UInt8 := 0x23
abbrev AT : UInt8 := 0x40
abbrev PCT : UInt8 := 0x25
abbrev DOT : UInt8 := 0x2E
abbrev LBR : UInt8 := 0x5B
abbrev RBR : UInt8 := 0x5D

def ofNats (l : List Nat) : Bytes := l.map UInt8.ofNat

/-- nni_schemes[] -/
def schemes : List Bytes := Generated.urlSchemes.map ofNats
/-- nni_url_default_ports[] -/
def defaultPorts : List (Bytes × Nat) := Generated.urlDefaultPorts.map fun p => (ofNats p.1, p.2)
/-- the schemes of the strcmp chain (ipc, unix, abstract, inproc, socket) -/
def specialSchemes : List Bytes := Generated.urlSpecialSchemes.map ofNats

/-! ### ctype.h in the C locale, url_hex_val -/
def isDigit (c : UInt8) : Bool := 0x30 ≤ c && c ≤ 0x39
def isUpper (c : UInt8) : Bool := 0x41 ≤ c && c ≤ 0x5A
def isLower (c : UInt8) : Bool := 0x61 ≤ c && c ≤ 0x7A
def isAlnum (c : UInt8) : Bool := isDigit c || isUpper c || isLower c
def isXDigit (c : UInt8) : Bool :=
  isDigit c || (0x41 ≤ c && c ≤ 0x46) || (0x61 ≤ c && c ≤ 0x66)
/-- isspace: space, \t \n \v \f \r -/
def isSpace (c : UInt8) : Bool := c == 0x20 || (0x09 ≤ c && c ≤ 0x0D)
def toUpper (c : UInt8) : UInt8 := if isLower c then c - 0x20 else c
def toLower (c : UInt8) : UInt8 := if isUpper c then c + 0x20 else c

/-- url_hex_val -/
def hexVal (c : UInt8) : UInt8 :=
  if 0x30 ≤ c && c ≤ 0x39 then c - 0x30
  else if 0x41 ≤ c && c ≤ 0x46 then c - 0x41 + 10
  else if 0x61 ≤ c && c ≤ 0x66 then c - 0x61 + 10
  else 0

/-! ### url_utf8_validate (fixed: accumulate, then advance) -/

/-- the `for (i = 0; i < nb; i++)` loop; `v` is a uint32_t. `none` = "not continuation"
    (the terminator is not a continuation byte either). -/
def utf8Cont : Nat → Nat → Bytes → Option (Nat × Bytes)
  | 0, v, s => some (v, s)
  | _ + 1, _, [] => none
  | nb + 1, v, b :: s =>
    if b &&& 0xc0 ≠ 0x80 then none
    else utf8Cont nb ((v * 64 % 4294967296 + (b &&& 0x3f).toNat) % 4294967296) s

/-- classification of the lead byte: (v, minv, nb) -/
def utf8Lead (b : UInt8) : Option (Nat × Nat × Nat) :=
  if b &&& 0xe0 = 0xc0 then some ((b &&& 0x1f).toNat, 0x80, 1)
  else if b &&& 0xf0 = 0xe0 then some ((b &&& 0x0f).toNat, 0x800, 2)
  else if b &&& 0xf8 = 0xf0 then some ((b &&& 0x07).toNat, 0x10000, 3)
  else none

/-- the three range tests after the loop -/
def utf8ValueOk (v minv : Nat) : Bool :=
  !(v < minv) && !(0xd800 ≤ v && v ≤ 0xdfff) && !(v > 0x10ffff)

/-- one iteration of `while (*s)` for a non-empty rest: `none` = NNG_EINVAL, else the rest -/
def utf8Step (b : UInt8) (s : Bytes) : Option Bytes :=
  if b &&& 0x80 = 0 then some s
  else
    match utf8Lead b with
    | none => none
    | some (v, minv, nb) =>
      match utf8Cont nb v s with
      | none => none
      | some (v', s') => if utf8ValueOk v' minv then some s' else none

/-- fuel = number of bytes left (every iteration consumes at least one) -/
def utf8Loop : Nat → Bytes → Bool
  | _, [] => true
  | 0, _ :: _ => false
  | fuel + 1, b :: s =>
    match utf8Step b s with
    | none => false
    | some s' => utf8Loop fuel s'

def utf8Validate (s : Bytes) : Bool := utf8Loop s.length s

/-! ### nni_url_canonify_uri -/

def isSafe (c : UInt8) : Bool :=
  isUpper c || isLower c || isDigit c || c == DOT || c == 0x7E || c == 0x5F || c == 0x2D || c ≥ 0x80

/-- first pass: `%xx` of safe characters (and of bytes ≥ 0x80) decoded, other escapes get
    upper-case hex digits; `none` = NNG_EINVAL (bad escape) -/
def pass1 : Bytes → Option Bytes
  | [] => some []
  | c :: rest =>
    if c = PCT then
      match rest with
      | h1 :: h2 :: rest' =>
        if isXDigit h1 && isXDigit h2 then
          let v := hexVal h1 * 16 + hexVal h2
          match pass1 rest' with
          | none => none
          | some r => some ((if isSafe v then [v] else [PCT, toUpper h1, toUpper h2]) ++ r)
        else none
      | _ => none
    else
      match pass1 rest with
      | none => none
      | some r => some (c :: r)

/-- second pass: runs of '/' collapse, until the first '?' or '#' -/
def pass2 : (skip prev : Bool) → Bytes → Bytes
  | _, _, [] => []
  | skip, prev, c :: rest =>
    if c = SLASH && !skip then
      if prev then pass2 skip true rest else SLASH :: pass2 skip true rest
    else c :: pass2 (skip || c = QM || c = HASH) false rest

/-- `out[k] == 0 || '#' || '?' || '/'` -/
def isSegEnd : Bytes → Bool
  | [] => true
  | c :: _ => c = HASH || c = QM || c = SLASH

/-- `strncmp(out + src, "/..", 3) == 0 && segment ends`, seen from after the '/' -/
def isDotDot : Bytes → Bool
  | a :: b :: r => a = DOT && b = DOT && isSegEnd r
  | _ => false

def isDot : Bytes → Bool
  | a :: r => a = DOT && isSegEnd r
  | _ => false

/-- `do { dst--; } while (dst && out[dst] != '/')` on the reversed output prefix -/
def popSeg : Bytes → Bytes
  | [] => []
  | c :: rest => if rest.isEmpty || c = SLASH then rest else popSeg rest

/-- third pass: "/." and "/.." segments; `acc` = out[0..dst) reversed, `n` = bytes to skip -/
def pass3 : (skip : Bool) → (acc : Bytes) → (n : Nat) → Bytes → Bytes
  | _, acc, _, [] => acc.reverse
  | skip, acc, n + 1, _ :: rest => pass3 skip acc n rest
  | skip, acc, 0, c :: rest =>
    if c = SLASH && !skip then
      if isDotDot rest then pass3 skip (popSeg acc) 2 rest      -- popSeg [] = [] is `if (dst > 0)`
      else if isDot rest then pass3 skip acc 1 rest
      else pass3 skip (SLASH :: acc) 0 rest
    else pass3 (skip || c = QM || c = HASH) (c :: acc) 0 rest

/-- the three passes without the final validation -/
def canonPasses (s : Bytes) : Option Bytes :=
  match pass1 s with
  | none => none
  | some a => some (pass3 false [] 0 (pass2 false false a))

/-- nni_url_canonify_uri: `none` = NNG_EINVAL -/
def canonify (s : Bytes) : Option Bytes :=
  match canonPasses s with
  | none => none
  | some r => if utf8Validate r then some r else none

/-! ### C string helpers -/

/-- `strncmp(a, b, n) == 0` -/
def strncmpEq : Bytes → Bytes → Nat → Bool
  | _, _, 0 => true
  | a, b, n + 1 =>
    if a.headD 0 != b.headD 0 then false
    else if a.headD 0 == 0 then true
    else strncmpEq a.tail b.tail n

/-- `strchr(s, c) != NULL` -/
def hasChr (s : Bytes) (c : UInt8) : Bool := s.contains c
def upTo (c : UInt8) (s : Bytes) : Bytes := s.takeWhile (· ≠ c)
/-- what follows the first `c` (only used when it is there) -/
def after (c : UInt8) (s : Bytes) : Bytes := (s.dropWhile (· ≠ c)).tail

/-! ### nni_url_default_port -/
def defaultPortIn : List (Bytes × Nat) → Bytes → Nat
  | [], _ => 0
  | (s, port) :: tbl, scheme =>
    if !strncmpEq s scheme s.length then defaultPortIn tbl scheme
    else
      let c := (scheme.drop s.length).headD 0
      if c = 0 then port
      else if (c = 0x34 || c = 0x36) && (scheme.drop (s.length + 1)).headD 0 = 0 then port
      else defaultPortIn tbl scheme

def defaultPort (scheme : Bytes) : Nat := defaultPortIn defaultPorts scheme

/-! ### port: nni_get_port_by_name (numeric branch; the service database is empty) -/

/-- `c - '0'`.  Irreducible only so that the elaborator does not try to evaluate the
    subtraction symbolically (the kernel and the compiled driver are not affected). -/
@[irreducible] def digitOf (c : UInt8) : Nat := c.toNat - 0x30

def digitsVal : Nat → Bytes → Nat
  | acc, [] => acc
  | acc, c :: r => digitsVal (acc * 10 + digitOf c) r

/-- strtol(name, &end, 10) with `*end == '\0'`: white space, optional sign, digits, nothing else.
    Result: (negative, magnitude).  `none`: not wholly a number. -/
def strtolFull (s : Bytes) : Option (Bool × Nat) :=
  let s1 := s.dropWhile isSpace
  let neg := s1.headD 0 = 0x2D
  let s2 := if s1.headD 0 = 0x2D || s1.headD 0 = 0x2B then s1.tail else s1
  if s2.isEmpty || !s2.all isDigit then none else some (neg, digitsVal 0 s2)

/-- `none` = NNG_EINVAL.  LONG_MAX clamping is irrelevant: any clamped value is > 0xffff. -/
def parsePort (p : Bytes) : Option Nat :=
  if !isAlnum (p.headD 0) then none                 -- F15 fix: no sign / white space
  else
    match strtolFull p with
    | some (neg, v) =>
      if (!neg || v = 0) && v ≤ 0xffff then some v else none   -- getservbyname: unknown
    | none => none                                             -- getservbyname: unknown

/-! ### nng_url, nni_url_parse_inline_inner -/

structure Url where
  scheme : Bytes
  userinfo : Option Bytes
  hostname : Option Bytes
  port : Nat
  path : Bytes
  query : Option Bytes
  fragment : Option Bytes
  /-- u_bufsz: 0 = components live in u_static -/
  bufsz : Nat
deriving DecidableEq, Repr

/-- `for (len = 0; (c = s[len]) != ':'; len++) if (c == 0) break;` -/
def schemeLen : Bytes → Nat
  | [] => 0
  | c :: rest => if c = COLON then 0 else schemeLen rest + 1

/-- fixed comparison: `strncmp(s, e, len) == 0 && e[len] == '\0'` -/
def schemeMatches (raw : Bytes) (len : Nat) (e : Bytes) : Bool :=
  strncmpEq raw e len && (e.drop len).headD 0 = 0

def lookupScheme (raw : Bytes) (len : Nat) : Option Bytes :=
  schemes.find? (schemeMatches raw len)

def isAuthEnd (c : UInt8) : Bool := c = SLASH || c = HASH || c = QM
def isPathEnd (c : UInt8) : Bool := c = QM || c = HASH

/-- "[...]" / name, then optional ":port".  `none` = NNG_EINVAL.  Result: (hostname, port text) -/
def splitHostPort (h : Bytes) : Option (Bytes × Option Bytes) :=
  if h.headD 0 = LBR then
    let h' := h.tail
    if !hasChr h' RBR then none
    else if hasChr (upTo RBR h') LBR then none        -- F17 fix: no '[' inside the literal
    else
      match after RBR h' with
      | [] => some (upTo RBR h', none)
      | c :: p => if c = COLON then some (upTo RBR h', some p) else none
  else
    match h.dropWhile (· ≠ COLON) with
    | [] => some (upTo COLON h, none)
    | _ :: p => some (upTo COLON h, some p)

/-- query / fragment split of the canonified "path?query#fragment" -/
def splitPQF (s : Bytes) : Bytes × Option Bytes × Option Bytes :=
  let path := s.takeWhile (fun c => !isPathEnd c)
  match s.dropWhile (fun c => !isPathEnd c) with
  | [] => (path, none, none)
  | c :: r =>
    if c = QM then
      if hasChr r HASH then (path, some (upTo HASH r), some (after HASH r))
      else (path, some r, none)
    else (path, none, some r)

structure R where
  rv : Nat
  url : Option Url
deriving DecidableEq, Repr

def fail (rv : Nat) : R := ⟨rv, none⟩

/-- host/port part of the parse (after canonify and the query/fragment split) -/
def finishParse (scheme : Bytes) (bufsz : Nat) (ui : Option Bytes) (host c : Bytes) : R :=
  match splitHostPort host with
  | none => fail Err.einval
  | some (name, portText) =>
    if name.length ≥ Generated.urlHostMax then fail Err.einval
    else
      match portText with
      | some pt =>
        if pt.isEmpty then fail Err.einval
        else
          match parsePort pt with
          | none => fail Err.einval
          | some port =>
            ⟨0, some ⟨scheme, ui, some name, port, (splitPQF c).1, (splitPQF c).2.1, (splitPQF c).2.2, bufsz⟩⟩
      | none =>
        ⟨0, some ⟨scheme, ui, some name, defaultPort scheme, (splitPQF c).1, (splitPQF c).2.1,
          (splitPQF c).2.2, bufsz⟩⟩

/-- everything after the special-scheme return -/
def parseAuthority (scheme : Bytes) (bufsz : Nat) (p : Bytes) : R :=
  let auth := p.takeWhile (fun c => !isAuthEnd c)
  let pqf := p.dropWhile (fun c => !isAuthEnd c)
  if hasChr auth AT && hasChr (after AT auth) AT then fail Err.einval
  else
    match canonify pqf with
    | none => fail Err.einval
    | some c =>
      finishParse scheme bufsz (if hasChr auth AT then some (upTo AT auth) else none)
        ((if hasChr auth AT then after AT auth else auth).map toLower) c

def sep : Bytes := [COLON, SLASH, SLASH]

/-- nng_url_parse (allocation of the struct and of the heap copy succeed) -/
def parse (raw : Bytes) : R :=
  let len := schemeLen raw
  let s := raw.drop len
  if !strncmpEq s sep 3 then fail Err.einval
  else
    match lookupScheme raw len with
    | none => fail Err.enotsup
    | some scheme =>
      let bufsz := if s.length ≥ Generated.urlInlineSize then s.length + 1 else 0
      let p := s.drop 3
      if specialSchemes.contains scheme then
        ⟨0, some ⟨scheme, none, none, 0, p, none, none, bufsz⟩⟩
      else parseAuthority scheme bufsz p

/-! ### nng_url_sprintf -/

def decimal (n : Nat) : Bytes := (Nat.toDigits 10 n).map fun c => UInt8.ofNat c.toNat

def optPart (c : UInt8) : Option Bytes → Bytes
  | none => []
  | some s => c :: s

def sprintf (u : Url) : Bytes :=
  if specialSchemes.contains u.scheme then u.scheme ++ sep ++ u.path
  else
    let host := u.hostname.getD []
    let doPort := !(u.port ≠ 0 && u.port = defaultPort u.scheme)
    let br := hasChr host COLON
    u.scheme ++ sep ++ (if br then [LBR] else []) ++ host ++ (if br then [RBR] else []) ++
      (if doPort then COLON :: decimal u.port else []) ++ u.path ++ optPart QM u.query ++ optPart HASH u.fragment

/-! ### nni_url_clone_inline / nng_url_clone (fixed) -/

/-- `allocOk`: the answer of nni_alloc(src->u_bufsz) when a heap copy is needed -/
def clone (u : Url) (allocOk : Bool) : R :=
  if u.bufsz ≠ 0 then
    if allocOk then ⟨0, some { u with bufsz := u.bufsz }⟩ else fail Err.enomem
  else ⟨0, some u⟩

end Nng.Url
