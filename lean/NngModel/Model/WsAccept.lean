/-
  Model of websocket.c ws_make_accept (key ++ GUID → SHA-1 → base64 into the caller's buffer) and of
  the key generation in ws_conn_cb (16 random bytes → base64 into keybuf).
  Both callers of nni_base64_encode pass an output length that is exactly the length of the encoding
  (28 for 20 bytes, 24 for 16 bytes), so the encoder's last test `if (io >= out_len) return (-1)`
  fires: it returns (size_t)-1 after having stored every character, does NOT store the NUL, and the
  callers ignore the return value and store the NUL themselves.  `encodeS` therefore reports what
  nni_base64_encode leaves in the buffer together with its return value (the main loop and the
  accumulator are `Base64.encLoop` of Model/Base64.lean; the tail is repeated here keeping the stores).
  Lengths, the GUID and the buffer sizes are the extracted ones (`Generated/C16U.lean`).  Core Lean only.
-/
import NngModel.Model.Base64
import NngModel.Model.Sha1
namespace Nng.WsAccept
open Nng.Base64 (Acc encLoop encTab)

/-- `while (io & 3) { if (io >= out_len) return -1; out[io++] = '='; }` keeping the stores; `true` = returned -1 -/
def encPadS (outLen : Nat) : Nat → Acc → Acc × Bool
  | 0, a => (a, false)
  | fuel + 1, a =>
    if a.io % 4 ≠ 0 then
      if a.io ≥ outLen then (a, true) else encPadS outLen fuel { a with out := 61 :: a.out, io := a.io + 1 }
    else (a, false)

/-- the part of nni_base64_encode after the main loop: (characters in out[0..io), return value; none = (size_t)-1;
    with `some io` the NUL was stored at out[io]) -/
def encTailS (outLen : Nat) (a : Acc) : Bytes × Option Nat :=
  let r1 : Acc × Bool :=
    if a.rem ≠ 0 then
      if a.io ≥ outLen then (a, true)
      else ({ a with v := (a.v * 2 ^ (6 - a.rem)) % 2 ^ 32,
                     out := encTab ((a.v * 2 ^ (6 - a.rem)) % 2 ^ 32 % 64) :: a.out, io := a.io + 1 }, false)
    else (a, false)
  if r1.2 then (r1.1.out.reverse, none)
  else
    let r2 := encPadS outLen 3 r1.1
    if r2.2 then (r2.1.out.reverse, none)
    else if r2.1.io ≥ outLen then (r2.1.out.reverse, none)
    else (r2.1.out.reverse, some r2.1.io)

/-- nni_base64_encode as its caller's buffer sees it; `none`: the main loop itself ran out of room (not modelled further) -/
def encodeS (inp : Bytes) (outLen : Nat) : Option (Bytes × Option Nat) :=
  match encLoop outLen inp {} with
  | none => none
  | some a => some (encTailS outLen a)

def str (s : String) : Bytes := s.toList.map fun c => UInt8.ofNat c.toNat

/-- WS_KEY_GUID (a string literal: 36 characters and the NUL) -/
def guid : Bytes := str Generated.wsKeyGuid

structure Result where
  rv : Nat                  -- 0 or NNG_EINVAL
  accept : Bytes := []      -- the C string left in accept[]
  stored : Nat := 0         -- number of bytes of accept[] written (characters and NUL)
  encRv : Option Nat := none  -- what nni_base64_encode returned (ignored by the code)
  safe : Bool := true       -- every read and store was inside its object
  deriving DecidableEq, Repr

/-- ws_make_accept(key, accept) where `accept` has room for `bufSize` bytes -/
def makeAccept (key : Bytes) (bufSize : Nat) : Result :=
  if key.length ≠ Generated.wsMkKeyLen then { rv := Generated.wsErrEinval }
  else
    let c := Sha1.init (Sha1.raw [])
    let c := Sha1.update c (key.take Generated.wsMkKeyFeed)
    let c := Sha1.update c (guid.take Generated.wsKeyGuidLen)
    let (c, digest) := Sha1.final c
    let readsOk := decide (Generated.wsMkKeyFeed ≤ key.length) && decide (Generated.wsKeyGuidLen ≤ guid.length + 1) &&
      decide (digest.length ≤ Generated.wsMkDigestBuf) && decide (Generated.wsMkEncIn ≤ Generated.wsMkDigestBuf)
    match encodeS (digest.take Generated.wsMkEncIn) Generated.wsMkEncOut with
    | none => { rv := 0, safe := false }
    | some (chars, erv) =>
      -- the encoder stores only below out_len (and the NUL at io < out_len); then `accept[28] = '\0'`
      let storesOk := decide (Generated.wsMkEncOut ≤ bufSize) && decide (Generated.wsMkNulAt < bufSize)
      { rv := 0,
        accept := chars.take Generated.wsMkNulAt,
        stored := Generated.wsMkNulAt + 1,
        encRv := erv,
        safe := c.safe && readsOk && storesOk && decide (Generated.wsMkNulAt ≤ chars.length) }

/-- ws_conn_cb: `raw[i] = (uint8_t) nni_random()` 16 times, `nni_base64_encode(raw, 16, keybuf, 24); keybuf[24] = 0` -/
def genKey (raw : Bytes) : Result :=
  match encodeS (raw.take Generated.wsNonceLen) Generated.wsKeyEncOut with
  | none => { rv := 0, safe := false }
  | some (chars, erv) =>
    { rv := 0, accept := chars.take Generated.wsKeyNulAt, stored := Generated.wsKeyNulAt + 1, encRv := erv,
      safe := decide (Generated.wsKeyEncOut ≤ Generated.wsKeybufSize) && decide (Generated.wsKeyNulAt < Generated.wsKeybufSize) &&
              decide (Generated.wsKeyNulAt ≤ chars.length) }

end Nng.WsAccept
