/-
  Model of the WebSocket opening handshake checks of websocket.c, branch by branch and in source order:
    ws_contains_word (the strncasecmp / strchr(' ') / skip " ," loop, with its laxness),
    ws_handler        (server: closed, version, method, body announcement, Upgrade / Connection /
                       Sec-WebSocket-Version, Sec-WebSocket-Key through ws_make_accept, Sec-WebSocket-Protocol;
                       the status answered by each rejecting branch; the headers of the 101 response),
    ws_http_cb_dialer (client: the status switch, Sec-WebSocket-Accept against ws_make_accept(keybuf) with strcmp,
                       Connection through ws_contains_word, Upgrade with strcmp, Sec-WebSocket-Protocol),
    ws_conn_cb        (client: the headers of the upgrade request).
  C library pieces as they behave on the platform (C locale): nni_strcasecmp / nni_strncasecmp = strcasecmp /
  strncasecmp (ASCII A-Z folded), nni_strcasestr = strcasestr, atoi = (int) strtol (saturating long, truncated).
  Headers are the list kept by the HTTP layer (http_conn.c: one node per name; nng_http_get_header returns the first
  node whose name matches with nni_strcasecmp); `store` reproduces how http_parse_header / nni_http_add_header build
  that list from header lines (trim, "old, new" for a repeated name, Content-Length replaced).  Strings are C
  strings: no NUL inside.  Not modelled: user headers of the listener/dialer, the listener hook, ENOMEM.
  Literals (header values, statuses, result codes) are the extracted ones.  Core Lean only.
-/
import NngModel.Model.WsAccept
namespace Nng.WsUp
open Nng.WsAccept (str makeAccept)

abbrev Hdrs := List (Bytes × Bytes)

/-- tolower in the C locale -/
def lower (c : UInt8) : UInt8 := if 65 ≤ c.toNat ∧ c.toNat ≤ 90 then c + 32 else c

/-- strcasecmp(a, b) == 0 -/
def caseEq : Bytes → Bytes → Bool
  | [], [] => true
  | x :: a, y :: b => lower x == lower y && caseEq a b
  | _, _ => false

/-- strncasecmp(p, w, strlen(w)) == 0: the first strlen(w) bytes of p exist and match -/
def prefixCaseEq : Bytes → Bytes → Bool
  | _, [] => true
  | [], _ :: _ => false
  | x :: p, y :: w => lower x == lower y && prefixCaseEq p w

/-- strcasestr(s, t) != NULL -/
def caseFind : Bytes → Bytes → Bool
  | [], t => t.isEmpty
  | x :: s, t => prefixCaseEq (x :: s) t || caseFind s t

/-- strchr(p, ' '): the suffix starting at the first space -/
def toSpace : Bytes → Option Bytes
  | [] => none
  | x :: p => if x = 32 then some (x :: p) else toSpace p

/-- `while ((*phrase == ' ') || (*phrase == ',')) phrase++;` -/
def skipSep : Bytes → Bytes
  | [] => []
  | x :: p => if x = 32 ∨ x = 44 then skipSep p else x :: p

/-- the test inside the loop: strncasecmp(phrase, word, len) == 0 && phrase[len] ∈ {0, ' ', ','} -/
def wordHere (phrase word : Bytes) : Bool :=
  prefixCaseEq phrase word &&
    (match phrase.drop word.length with
     | [] => true
     | c :: _ => c = 32 || c = 44)

/-- the `while ((phrase != NULL) && (*phrase != '\0'))` loop of ws_contains_word; fuel ≥ number of iterations -/
def containsGo (word : Bytes) : Nat → Bytes → Bool
  | 0, _ => false
  | fuel + 1, phrase =>
    if phrase.isEmpty then false
    else if wordHere phrase word then true
    else match toSpace phrase with
      | none => false
      | some q => containsGo word fuel (skipSep q)

/-- ws_contains_word(phrase, word) -/
def containsWord (phrase word : Bytes) : Bool := containsGo word (phrase.length + 1) phrase

/-- nng_http_get_header: the value of the first node whose name matches -/
def getHeader : Hdrs → Bytes → Option Bytes
  | [], _ => none
  | (n, v) :: r, name => if caseEq n name then some v else getHeader r name

def isSpace (c : UInt8) : Bool := c.toNat = 32 || (9 ≤ c.toNat && c.toNat ≤ 13)

def skipSpace : Bytes → Bytes
  | [] => []
  | x :: p => if isSpace x then skipSpace p else x :: p

/-- strtol's digit loop with saturation at `lim` -/
def digits (lim : Nat) : Bytes → Nat → Nat
  | [], acc => acc
  | x :: p, acc => if 48 ≤ x.toNat ∧ x.toNat ≤ 57 then digits lim p (min lim (acc * 10 + (x.toNat - 48))) else acc

/-- atoi(s) = (int) strtol(s, NULL, 10) on LP64: long saturates, the conversion to int keeps the low 32 bits -/
def atoi (s : Bytes) : Int :=
  let s := skipSpace s
  let (neg, s) := match s with
    | 45 :: r => (true, r)
    | 43 :: r => (false, r)
    | _ => (false, s)
  let l : Int := if neg then - Int.ofNat (digits (2 ^ 63) s 0) else Int.ofNat (digits (2 ^ 63 - 1) s 0)
  (l + 2 ^ 31) % 2 ^ 32 - 2 ^ 31

/-! ### how the HTTP layer builds the header list from header lines -/

def trimLead : Bytes → Bytes
  | [] => []
  | x :: p => if x = 32 ∨ x = 9 then trimLead p else x :: p

/-- `end = val + strlen(val) - 1; while (end > val && (*end == ' ' || *end == '\t')) *end-- = 0;` (the first byte stays) -/
def trimTrail (v : Bytes) : Bytes :=
  match v with
  | [] => []
  | x :: p => x :: (p.reverse.dropWhile (fun c => c = 32 || c = 9)).reverse

def addHeader (hs : Hdrs) (n v : Bytes) : Hdrs :=
  if caseEq n (str "Content-Length") then
    hs.filter (fun h => !caseEq h.1 (str "Content-Length")) ++ [(str "Content-Length", v)]
  else
    match hs with
    | [] => [(n, v)]
    | (n', v') :: r => if caseEq n n' then (n', v' ++ [44, 32] ++ v) :: r else (n', v') :: addHeader r n v

/-- the list after parsing the header lines `name: value` in order -/
def store (lines : Hdrs) : Hdrs :=
  lines.foldl (fun hs l => addHeader hs l.1 (trimTrail (trimLead l.2))) []

/-! ### server: ws_handler -/

structure SrvCfg where
  closed : Bool := false
  proto : Option Bytes := none     -- l->proto
  deriving Repr

structure Request where
  method : Bytes
  version : Bytes
  headers : Hdrs
  deriving Repr

structure Response where
  status : Nat
  headers : Hdrs
  deriving DecidableEq, Repr

inductive SrvDecision where
  | error (status : Nat)                              -- nni_http_set_error(conn, status, …)
  | upgrade (accept : Bytes) (proto : Option Bytes)   -- 101 with Sec-WebSocket-Accept and the echoed protocol
  deriving DecidableEq, Repr

def srvStatus (i : Nat) : Nat := Generated.wsSrvStatuses.getD i 0

/-- the `(Content-Length && atoi > 0) || (Transfer-Encoding && strcasestr chunked)` test -/
def announcesBody (h : Hdrs) : Bool :=
  (match getHeader h (str "Content-Length") with | some v => decide (atoi v > 0) | none => false) ||
  (match getHeader h (str "Transfer-Encoding") with | some v => caseFind v (str "chunked") | none => false)

/-- the "These headers have to be present" test -/
def upgradeHeadersOk (h : Hdrs) : Bool :=
  (match getHeader h (str "Upgrade") with | some v => containsWord v (str Generated.wsSrvUpgradeWord) | none => false) &&
  (match getHeader h (str "Connection") with | some v => containsWord v (str Generated.wsSrvConnWord) | none => false) &&
  (match getHeader h (str "Sec-WebSocket-Version") with | some v => v == str Generated.wsSrvWsVersion | none => false)

def serverDecide (cfg : SrvCfg) (req : Request) : SrvDecision :=
  if cfg.closed then .error (srvStatus 0)
  else if req.version ≠ str Generated.wsSrvVersion then .error (srvStatus 1)
  else if req.method ≠ str Generated.wsSrvMethod then .error (srvStatus 2)
  else if announcesBody req.headers then .error (srvStatus 3)
  else if !upgradeHeadersOk req.headers then .error (srvStatus 4)
  else
    match getHeader req.headers (str "Sec-WebSocket-Key") with
    | none => .error (srvStatus 5)
    | some k =>
      let a := makeAccept k Generated.wsHandlerKeyBuf
      if a.rv ≠ 0 then .error (srvStatus 5)
      else
        match getHeader req.headers (str "Sec-WebSocket-Protocol"), cfg.proto with
        | none, some _ => .error (srvStatus 6)
        | none, none => .upgrade a.accept none
        | some _, none => .error (srvStatus 7)
        | some p, some lp =>
          -- only with the single-offer fix: `(proto[0] == '\0') || (strpbrk(proto, " ,") != NULL) ||`
          if Generated.wsSrvSingleOffer && (p.isEmpty || p.any (fun c => c = 32 || c = 44)) then .error (srvStatus 7)
          else if containsWord lp p then .upgrade a.accept (some p) else .error (srvStatus 7)

def subst (accept : Bytes) (v : String) : Bytes := if v = "$keybuf" then accept else str v

/-- the response head ws_handler leaves for the HTTP layer to write -/
def serverResponse : SrvDecision → Response
  | .error s => { status := s, headers := [] }
  | .upgrade accept proto =>
    { status := Generated.wsStatusSwitching,
      headers := Generated.wsSrvEmits.filterMap fun (n, v) =>
        if v = "$proto" then proto.map (fun p => (str n, p)) else some (str n, subst accept v) }

/-! ### client: ws_conn_cb (request) and ws_http_cb_dialer (validation) -/

structure CliCfg where
  proto : Option Bytes := none     -- d->proto
  deriving Repr

/-- the upgrade request: GET, HTTP/1.1 (the connection's defaults), Host from the HTTP client, then the static headers -/
def clientRequest (cfg : CliCfg) (host key : Bytes) : Request :=
  { method := str "GET", version := str "HTTP/1.1",
    headers := (str "Host", host) :: Generated.wsCliEmits.filterMap fun (n, v) =>
      if v = "$proto" then cfg.proto.map (fun p => (str n, p)) else some (str n, subst key v) }

def statusRv (status : Nat) : Nat :=
  match Generated.wsCliStatusMap.find? (fun e => e.1 = status) with
  | some e => e.2
  | none => match Generated.wsCliStatusMap.find? (fun e => e.1 = 0) with
    | some e => e.2
    | none => 0

/-- ws_http_cb_dialer once the response head has been read: the result handed to the user's dial (0 = connected) -/
def clientDecide (cfg : CliCfg) (key : Bytes) (res : Response) : Nat :=
  if statusRv res.status ≠ 0 then statusRv res.status
  else
    let a := makeAccept key Generated.wsDialerKeyBuf
    if a.rv ≠ 0 then a.rv
    else if !((match getHeader res.headers (str "Sec-WebSocket-Accept") with | some v => v == a.accept | none => false) &&
              (match getHeader res.headers (str "Connection") with | some v => containsWord v (str Generated.wsCliConnWord) | none => false) &&
              (match getHeader res.headers (str "Upgrade") with
               | some v => if Generated.wsCliUpgradeCaseSensitive then v == str Generated.wsCliUpgradeValue
                           else caseEq v (str Generated.wsCliUpgradeValue)
               | none => false))
    then Generated.wsCliHeaderErr
    else
      match cfg.proto with
      | none => 0
      | some dp =>
        match getHeader res.headers (str "Sec-WebSocket-Protocol") with
        | none => Generated.wsCliProtoErr
        | some v => if containsWord dp v then 0 else Generated.wsCliProtoErr

end Nng.WsUp
