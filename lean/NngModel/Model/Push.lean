/-
  Executable model of src/sp/protocol/pipeline0/push.c (cooked and raw: same code) as
  seen through the socket core: one step per harness event; inside a step the order of
  sub-actions follows the C callbacks (each runs under the protocol mutex `s->m`).

  The send queue `wq` (an nni_lmq) is modelled by its abstract bounded FIFO
  (C18 proves the ring refines it).  Messages carry a ghost id (`gid`, the number of
  the send operation that offered it) which never reaches the outputs; the theorems
  use it to state conservation without assuming distinct payloads.

  Layout: one function per event (`evSend`, `evPipeAdd`, ...), each a single record
  update per C branch, so that the proofs (Proofs/Push.lean) can treat them one by one.
-/
import NngModel.Proto.Base
import NngModel.Generated.C06
namespace Nng.Push
open Nng Nng.Proto

structure GMsg where
  gid : Nat
  m : WMsg
deriving Repr, DecidableEq, Inhabited

structure Parked where
  aio : Nat
  msg : GMsg
  deadline : Option Nat
deriving Repr, DecidableEq, Inhabited

structure Pipe where
  id : Nat
  closed : Bool := false
  busy : Option GMsg := none      -- message handed to the transport, send not yet completed
  armed : Bool := false           -- receive posted on the transport
deriving Repr, DecidableEq, Inhabited

structure State where
  opened : Bool := false
  closed : Bool := false
  wqCap : Nat := 0
  wq : List GMsg := []
  aq : List Parked := []
  pl : List Nat := []             -- pipes ready to send
  pipes : List Pipe := []
  now : Nat := 0
  writable : Bool := false
  nsend : Nat := 0                -- ghost: number of send operations so far
  -- ghost history
  offered : List GMsg := []       -- every message a send operation offered, in order (gid = index)
  accepted : List GMsg := []      -- sends completed with 0, in completion order
  wire : List (Nat × GMsg) := []  -- (pipe, msg) handed to the transport, in order
  dropped : List GMsg := []       -- discarded whole by a send-buffer shrink or at close
  returned : List GMsg := []      -- given back to the caller with a failed send
  lostOnPipe : List GMsg := []    -- in flight on a pipe whose send failed / that closed
  slack : Bool := false           -- a send-buffer resize left room while senders were parked
deriving Repr, Inhabited

def peerPull : Nat := Nng.Generated.protoPull

/-- nni_lmq_full -/
def full (wq : List GMsg) (cap : Nat) : Bool := wq.length ≥ cap

def wqFull (s : State) : Bool := full s.wq s.wqCap

def getP (ps : List Pipe) (p : Nat) : Option Pipe := ps.find? (·.id == p)

def setP (ps : List Pipe) (pp : Pipe) : List Pipe :=
  ps.map fun q => if q.id == pp.id then pp else q

def getPipe (s : State) (p : Nat) : Option Pipe := getP s.pipes p

/-- nni_pipe_send on pipe `p`: remember the message in flight -/
def setBusy (ps : List Pipe) (p : Nat) (m : GMsg) : List Pipe :=
  match getP ps p with
  | some pp => setP ps { pp with busy := some m }
  | none => ps

/-- push0_pipe_ready without the pollable update -/
def pipeReadyCore (s : State) (p : Nat) : State × List Out :=
  match s.wq with
  | m :: rest =>
    -- prefer the buffered message; refill the buffer from the first waiting sender
    match s.aq with
    | a :: arest =>
      ({ s with wq := rest ++ [a.msg], wire := s.wire ++ [(p, m)], pipes := setBusy s.pipes p m,
                aq := arest, accepted := s.accepted ++ [a.msg] },
        [Out.psend p m.m, Out.done a.aio 0 none false])
    | [] =>
      ({ s with wq := rest, wire := s.wire ++ [(p, m)], pipes := setBusy s.pipes p m },
        [Out.psend p m.m])
  | [] =>
    match s.aq with
    | a :: arest =>
      ({ s with aq := arest, wire := s.wire ++ [(p, a.msg)], accepted := s.accepted ++ [a.msg],
                pipes := setBusy s.pipes p a.msg },
        [Out.psend p a.msg.m, Out.done a.aio 0 none false])
    | [] => ({ s with pl := s.pl ++ [p] }, [])

/-- push0_pipe_ready -/
def pipeReady (s : State) (p : Nat) : State × List Out :=
  let blocked := wqFull s && s.pl.isEmpty
  let r := pipeReadyCore s p
  (if blocked && (!wqFull r.1 || !r.1.pl.isEmpty) then { r.1 with writable := true } else r.1, r.2)

/-- nni_pipe_close as seen by this protocol: transport close (fails the parked
    transport aios), push0_pipe_close.  The in-flight message, if any, is released by
    push0_send_cb's error branch. -/
def closePipe (s : State) (p : Nat) : State × List Out :=
  match getPipe s p with
  | none => (s, [])
  | some pp =>
    if pp.closed then (s, [])
    else
      let pl := s.pl.filter (· != p)
      ({ s with pipes := setP s.pipes { pp with closed := true, busy := none, armed := false },
                lostOnPipe := s.lostOnPipe ++ pp.busy.toList,
                pl := pl,
                writable := if s.pl.contains p && pl.isEmpty && wqFull s then false else s.writable },
        [Out.pclosed p])

def closeAll (s : State) : List Nat → State × List Out
  | [] => (s, [])
  | p :: ps =>
    let r := closePipe s p
    let r2 := closeAll r.1 ps
    (r2.1, r.2 ++ r2.2)

def deadlineOf (now : Nat) : Mode → Option Nat
  | .ms n => some (now + n)
  | _ => none

/-- complete the parked sender `a` with error `rv` (cancel / abort / timeout) -/
def failParked (s : State) (a : Nat) (rv : Nat) : State × List Out :=
  match s.aq.find? (·.aio == a) with
  | some pk =>
    ({ s with aq := s.aq.filter (·.aio != a), returned := s.returned ++ [pk.msg] },
      [Out.done a rv none true])
  | none => (s, [])

def failEach (s : State) (rv : Nat) : List Nat → State × List Out
  | [] => (s, [])
  | a :: as =>
    let r := failParked s a rv
    let r2 := failEach r.1 rv as
    (r2.1, r.2 ++ r2.2)

def isDue (now : Nat) (pk : Parked) : Bool :=
  match pk.deadline with | some d => d < now | none => false

def expire (s : State) : State × List Out :=
  failEach s Err.etimedout ((s.aq.filter (isDue s.now)).map (·.aio))

def sendBufMax : Nat := Nng.Generated.pushSendBufMax

/-- a send that can neither be handed to a pipe nor buffered fails at once in these modes -/
def failNow : Mode → Option Nat
  | .nb => some Err.eagain
  | .ms 0 => some Err.etimedout
  | _ => none

def evPipeAdd (s : State) (peer : Nat) : State × List Out :=
  let id := s.pipes.length
  if peer != peerPull then
    -- push0_pipe_start rejects the peer: the pipe is closed before it is ever used
    ({ s with pipes := s.pipes ++ [{ id := id, closed := true }] }, [.pipe id, .pclosed id])
  else
    let r := pipeReady { s with pipes := s.pipes ++ [{ id := id, armed := true }] } id
    (r.1, [.pipe id, .parm id] ++ r.2)

def evPipeDrop (s : State) (p : Nat) : State × List Out :=
  match getPipe s p with
  | some pp =>
    if pp.closed then (s, [.rv (-1)])
    else let r := closePipe s p; (r.1, [.rv 0] ++ r.2)
  | none => (s, [.rv (-1)])

def evSendDone (s : State) (p : Nat) (rv : Nat) : State × List Out :=
  match getPipe s p with
  | some pp =>
    match pp.busy with
    | some _ =>
      if pp.closed then (s, [.rv (-1)])
      else if rv != 0 then
        -- push0_send_cb: free the message, close the pipe
        let r := closePipe s p
        (r.1, [.rv 0] ++ r.2)
      else
        let r := pipeReady { s with pipes := setP s.pipes { pp with busy := none } } p
        (r.1, [.rv 0] ++ r.2)
    | none => (s, [.rv (-1)])
  | none => (s, [.rv (-1)])

def evRecvDone (s : State) (p : Nat) (r : Except Nat Bytes) : State × List Out :=
  match getPipe s p with
  | some pp =>
    if pp.closed || !pp.armed then (s, [.rv (-1)])
    else
      match r with
      | .ok _ => (s, [.rv 0, .parm p])          -- push0_recv_cb: discard and re-arm
      | .error _ => let r := closePipe s p; (r.1, [.rv 0] ++ r.2)
  | none => (s, [.rv (-1)])

/-- push0_sock_send -/
def evSend (s : State) (a : Nat) (m : WMsg) (mode : Mode) : State × List Out :=
  if s.aq.any (·.aio == a) then (s, [.other "aio-busy"]) else   -- harness refuses to reuse a pending aio
  let gm : GMsg := ⟨s.nsend, m⟩
  match s.pl with
  | p :: rest =>
    ({ s with nsend := s.nsend + 1, offered := s.offered ++ [gm], pl := rest,
              writable := if rest.isEmpty && wqFull s then false else s.writable,
              accepted := s.accepted ++ [gm], wire := s.wire ++ [(p, gm)],
              pipes := setBusy s.pipes p gm },
      [.done a 0 none false, .psend p m])
  | [] =>
    if s.wq.length < s.wqCap then
      ({ s with nsend := s.nsend + 1, offered := s.offered ++ [gm],
                wq := s.wq ++ [gm], accepted := s.accepted ++ [gm],
                writable := if full (s.wq ++ [gm]) s.wqCap then false else s.writable },
        [.done a 0 none false])
    else
      match failNow mode with
      | some rv =>
        ({ s with nsend := s.nsend + 1, offered := s.offered ++ [gm], returned := s.returned ++ [gm] },
          [.done a rv none true])
      | none =>
        ({ s with nsend := s.nsend + 1, offered := s.offered ++ [gm],
                  aq := s.aq ++ [⟨a, gm, deadlineOf s.now mode⟩] }, [])

def evRecv (s : State) (a : Nat) : State × List Out :=
  if s.aq.any (·.aio == a) then (s, [.other "aio-busy"]) else (s, [.done a Err.enotsup none false])

/-- push0_set_send_buf_len -/
def evSetBuf (s : State) (v : Int) : State × List Out :=
  if v < 0 || v > sendBufMax then (s, [.rv Err.einval])
  else
    let cap := v.toNat
    let keep := s.wq.take cap
    ({ s with wqCap := cap, dropped := s.dropped ++ s.wq.drop cap, wq := keep,
              writable := if !full keep cap then true else if s.pl.isEmpty then false else s.writable,
              slack := s.slack || (!s.aq.isEmpty && !full keep cap) },
      [.rv 0])

/-- push0_sock_close fails the parked senders; the core closes every pipe -/
def evClose (s : State) : State × List Out :=
  let outs1 := s.aq.map fun pk => Out.done pk.aio Err.eclosed none true
  let r := closeAll { s with returned := s.returned ++ s.aq.map Parked.msg, aq := [] } (s.pipes.map (·.id))
  ({ r.1 with closed := true, dropped := r.1.dropped ++ r.1.wq, wq := [] }, outs1 ++ r.2)

def isSendBuf (c : Option Nat) (name ty : String) : Bool :=
  c.isNone && name == "send-buffer" && ty == "int"

def stepLive (s : State) : Ev → State × List Out
  | .openSock _ _ => (s, [.other "bad-op"])
  | .pipeAdd peer => evPipeAdd s peer
  | .pipeDrop p => evPipeDrop s p
  | .sendDone p rv => evSendDone s p rv
  | .recvDone p r => evRecvDone s p r
  | .send _ a m mode => evSend s a m mode
  | .recv _ a _ => evRecv s a
  | .cancel a => failParked s a Err.ecanceled
  | .abort a rv => failParked s a rv
  | .advance ms => expire { s with now := s.now + ms }
  | .ctxOpen _ => (s, [.rv Err.enotsup])
  | .ctxClose _ => (s, [.rv (-1)])
  | .setopt c name ty v =>
    if isSendBuf c name ty then evSetBuf s v else (s, [.other "unmodelled-option"])
  | .getopt c name ty =>
    if isSendBuf c name ty then (s, [.rv2 0 s.wqCap]) else (s, [.other "unmodelled-option"])
  | .poll => (s, [.poll none (some s.writable)])
  | .sub _ _ => (s, [.other "bad-op"])
  | .unsub _ _ => (s, [.other "bad-op"])
  | .close => evClose s

/-- before `open` and after `close` only the clock moves -/
def stepIdle (s : State) : Ev → State × List Out
  | .advance ms => ({ s with now := s.now + ms }, [])
  | _ => (s, [.other "nosock"])

def step (s : State) (ev : Ev) : State × List Out :=
  if !s.opened then
    match ev with
    | .openSock _ _ => ({ s with opened := true, wqCap := Nng.Generated.pushSendBufInit }, [.rv 0])
    | ev => stepIdle s ev
  else if s.closed then stepIdle s ev
  else stepLive s ev

def run (s : State) : List Ev → State × List (List Out)
  | [] => (s, [])
  | e :: es =>
    let (s', o) := step s e
    let (s'', os) := run s' es
    (s'', o :: os)

end Nng.Push
