/-
  Executable model of src/sp/protocol/pipeline0/push.c (cooked and raw: same code) as
  seen through the socket core: one step per harness event; inside a step the order of
  sub-actions follows the C callbacks (each runs under the protocol mutex `s->m`).

  The send queue `wq` (an nni_lmq) is modelled by its abstract bounded FIFO
  (C18 proves the ring refines it).  Messages carry a ghost id (`gid`, the number of
  the send operation that offered it) which never reaches the outputs; the theorems
  use it to state conservation without assuming distinct payloads.
-/
import NngModel.Proto.Base
import NngModel.Generated.Consts
namespace Nng.Push
open Nng Nng.Proto

structure GMsg where
  gid : Nat
  m : WMsg
deriving Repr, DecidableEq, Inhabited

structure Parked where
  aio : Nat
  msg : GMsg
  deadline : Option Nat
deriving Repr, DecidableEq, Inhabited

structure Pipe where
  id : Nat
  closed : Bool := false
  busy : Option GMsg := none      -- message handed to the transport, send not yet completed
  armed : Bool := false           -- receive posted on the transport
deriving Repr, DecidableEq, Inhabited

structure State where
  opened : Bool := false
  closed : Bool := false
  wqCap : Nat := 0
  wq : List GMsg := []
  aq : List Parked := []
  pl : List Nat := []             -- pipes ready to send
  pipes : List Pipe := []
  now : Nat := 0
  writable : Bool := false
  nsend : Nat := 0                -- ghost: number of send operations so far
  -- ghost history
  accepted : List GMsg := []      -- sends completed with 0, in completion order
  wire : List (Nat × GMsg) := []  -- (pipe, msg) handed to the transport, in order
  dropped : List GMsg := []       -- discarded whole by a send-buffer shrink or at close
  returned : List GMsg := []      -- given back to the caller with a failed send
  lostOnPipe : List GMsg := []    -- in flight on a pipe whose send failed / that closed
deriving Repr, Inhabited

def peerPull : Nat := Nng.Generated.protoPull

def wqFull (s : State) : Bool := s.wq.length ≥ s.wqCap

def getPipe (s : State) (p : Nat) : Option Pipe := s.pipes.find? (·.id == p)

def setPipe (s : State) (pp : Pipe) : State :=
  { s with pipes := s.pipes.map fun q => if q.id == pp.id then pp else q }

/-- push0_pipe_ready -/
def pipeReady (s : State) (p : Nat) : State × List Out :=
  let blocked := wqFull s && s.pl.isEmpty
  let (s, outs) :=
    match s.wq with
    | m :: rest =>
      -- prefer the buffered message; refill the buffer from the first waiting sender
      let s := { s with wq := rest, wire := s.wire ++ [(p, m)] }
      let s := match getPipe s p with
        | some pp => setPipe s { pp with busy := some m }
        | none => s
      match s.aq with
      | a :: arest =>
        ({ s with aq := arest, wq := s.wq ++ [a.msg], accepted := s.accepted ++ [a.msg] },
          [Out.psend p m.m, Out.done a.aio 0 none false])
      | [] => (s, [Out.psend p m.m])
    | [] =>
      match s.aq with
      | a :: arest =>
        let s := { s with aq := arest, wire := s.wire ++ [(p, a.msg)], accepted := s.accepted ++ [a.msg] }
        let s := match getPipe s p with
          | some pp => setPipe s { pp with busy := some a.msg }
          | none => s
        (s, [Out.psend p a.msg.m, Out.done a.aio 0 none false])
      | [] => ({ s with pl := s.pl ++ [p] }, [])
  let s := if blocked && (!wqFull s || !s.pl.isEmpty) then { s with writable := true } else s
  (s, outs)

/-- nni_pipe_close as seen by this protocol: transport close (fails the parked
    transport aios), push0_pipe_close.  The in-flight message, if any, is released by
    push0_send_cb's error branch. -/
def closePipe (s : State) (p : Nat) : State × List Out :=
  match getPipe s p with
  | none => (s, [])
  | some pp =>
    if pp.closed then (s, [])
    else
      let s := setPipe s { pp with closed := true, busy := none, armed := false }
      let s := match pp.busy with
        | some m => { s with lostOnPipe := s.lostOnPipe ++ [m] }
        | none => s
      let s :=
        if s.pl.contains p then
          let pl := s.pl.filter (· != p)
          let s := { s with pl := pl }
          if pl.isEmpty && wqFull s then { s with writable := false } else s
        else s
      (s, [Out.pclosed p])

def deadlineOf (now : Nat) : Mode → Option Nat
  | .ms n => some (now + n)
  | _ => none

/-- complete the parked sender `a` with error `rv` (cancel / abort / timeout) -/
def failParked (s : State) (a : Nat) (rv : Nat) : State × List Out :=
  match s.aq.find? (·.aio == a) with
  | some pk =>
    ({ s with aq := s.aq.filter (·.aio != a), returned := s.returned ++ [pk.msg] },
      [Out.done a rv none true])
  | none => (s, [])

def expire (s : State) : State × List Out :=
  let due := s.aq.filter fun pk => match pk.deadline with | some d => d < s.now | none => false
  due.foldl (fun (acc : State × List Out) pk =>
    let (s', o) := failParked acc.1 pk.aio Err.etimedout
    (s', acc.2 ++ o)) (s, [])

def sendBufMax : Nat := Nng.Generated.pushSendBufMax

def step (s : State) (ev : Ev) : State × List Out :=
  if !s.opened then
    match ev with
    | .openSock _ _ => ({ s with opened := true, wqCap := Nng.Generated.pushSendBufInit }, [.rv 0])
    | .advance ms => ({ s with now := s.now + ms }, [])
    | _ => (s, [.other "nosock"])
  else if s.closed then
    match ev with
    | .advance ms => ({ s with now := s.now + ms }, [])
    | _ => (s, [.other "nosock"])
  else
  match ev with
  | .openSock _ _ => (s, [.other "bad-op"])
  | .pipeAdd peer =>
    let id := s.pipes.length
    let s := { s with pipes := s.pipes ++ [{ id := id }] }
    if peer != peerPull then
      -- push0_pipe_start rejects the peer: the pipe is closed before it is ever used
      let s := setPipe s { id := id, closed := true }
      (s, [.pipe id, .pclosed id])
    else
      let s := setPipe s { id := id, armed := true }
      let (s, o) := pipeReady s id
      (s, [.pipe id, .parm id] ++ o)
  | .pipeDrop p =>
    match getPipe s p with
    | some pp =>
      if pp.closed then (s, [.rv (-1)])
      else let (s, o) := closePipe s p; (s, [.rv 0] ++ o)
    | none => (s, [.rv (-1)])
  | .sendDone p rv =>
    match getPipe s p with
    | some pp =>
      match pp.busy with
      | some m =>
        if pp.closed then (s, [.rv (-1)])
        else if rv != 0 then
          -- push0_send_cb: free the message, close the pipe
          let (s, o) := closePipe s p
          (s, [.rv 0] ++ o)
        else
          let s := setPipe s { pp with busy := none }
          let _ := m
          let (s, o) := pipeReady s p
          (s, [.rv 0] ++ o)
      | none => (s, [.rv (-1)])
    | none => (s, [.rv (-1)])
  | .recvDone p r =>
    match getPipe s p with
    | some pp =>
      if pp.closed || !pp.armed then (s, [.rv (-1)])
      else
        match r with
        | .ok _ => (s, [.rv 0, .parm p])          -- push0_recv_cb: discard and re-arm
        | .error _ => let (s, o) := closePipe s p; (s, [.rv 0] ++ o)
    | none => (s, [.rv (-1)])
  | .send _ a m mode =>
    if s.aq.any (·.aio == a) then (s, [.other "aio-busy"]) else   -- harness refuses to reuse a pending aio
    let gm : GMsg := ⟨s.nsend, m⟩
    let s := { s with nsend := s.nsend + 1 }
    match s.pl with
    | p :: rest =>
      let s := { s with pl := rest }
      let s := if rest.isEmpty && wqFull s then { s with writable := false } else s
      let s := { s with accepted := s.accepted ++ [gm], wire := s.wire ++ [(p, gm)] }
      let s := match getPipe s p with
        | some pp => setPipe s { pp with busy := some gm }
        | none => s
      (s, [.done a 0 none false, .psend p m])
    | [] =>
      if s.wq.length < s.wqCap then
        let s := { s with wq := s.wq ++ [gm], accepted := s.accepted ++ [gm] }
        let s := if wqFull s then { s with writable := false } else s
        (s, [.done a 0 none false])
      else
        match mode with
        | .nb => ({ s with returned := s.returned ++ [gm] }, [.done a Err.eagain none true])
        | .ms 0 => ({ s with returned := s.returned ++ [gm] }, [.done a Err.etimedout none true])
        | _ => ({ s with aq := s.aq ++ [⟨a, gm, deadlineOf s.now mode⟩] }, [])
  | .recv _ a _ =>
    if s.aq.any (·.aio == a) then (s, [.other "aio-busy"]) else (s, [.done a Err.enotsup none false])
  | .cancel a => failParked s a Err.ecanceled
  | .abort a rv => failParked s a rv
  | .advance ms => expire { s with now := s.now + ms }
  | .ctxOpen _ => (s, [.rv Err.enotsup])
  | .ctxClose _ => (s, [.rv (-1)])
  | .setopt none "send-buffer" "int" v =>
    if v < 0 || v > sendBufMax then (s, [.rv Err.einval])
    else
      let cap := v.toNat
      let keep := s.wq.take cap
      let s := { s with wqCap := cap, dropped := s.dropped ++ s.wq.drop cap, wq := keep }
      let s := if !wqFull s then { s with writable := true }
               else if s.pl.isEmpty then { s with writable := false } else s
      (s, [.rv 0])
  | .setopt _ _ _ _ => (s, [.other "unmodelled-option"])
  | .getopt none "send-buffer" "int" => (s, [.rv2 0 s.wqCap])
  | .getopt _ _ _ => (s, [.other "unmodelled-option"])
  | .poll => (s, [.poll none (some s.writable)])
  | .sub _ _ => (s, [.other "bad-op"])
  | .unsub _ _ => (s, [.other "bad-op"])
  | .close =>
    -- push0_sock_close fails the parked senders; the core closes every pipe
    let outs1 := s.aq.map fun pk => Out.done pk.aio Err.eclosed none true
    let s := { s with returned := s.returned ++ s.aq.map Parked.msg, aq := [] }
    let (s, outs2) := s.pipes.foldl (fun (acc : State × List Out) (pp : Pipe) =>
      let (s', o) := closePipe acc.1 pp.id
      (s', acc.2 ++ o)) (s, [])
    let s := { s with closed := true, dropped := s.dropped ++ s.wq, wq := [] }
    (s, outs1 ++ outs2)

def run (s : State) : List Ev → State × List (List Out)
  | [] => (s, [])
  | e :: es =>
    let (s', o) := step s e
    let (s'', os) := run s' es
    (s'', o :: os)

end Nng.Push
