/-
  Model of the HTTP request/response read path as the C code implements it
  (src/supplemental/http/http_conn.c: the fixed-size receive buffer, `http_buf_pull_up`, `http_rd_buf`
  for HTTP_RD_REQ / HTTP_RD_RES / HTTP_RD_FULL / HTTP_RD_RAW / HTTP_RD_DISCARD, header list operations,
  `http_snprintf`; src/supplemental/http/http_msg.c: `http_scan_line`, `http_req_parse_line`,
  `http_res_parse_line`, `http_parse_header`, `nni_http_req_parse`, `nni_http_res_parse`).

  The buffer is represented by `get` (= rd_get) and `pend` (= the bytes buf[rd_get .. rd_put)), so
  rd_put = get + pend.length; bytes below rd_get are dead.  Lines are C strings inside the buffer: the
  scanner rejects every byte below 0x20 except CR, and CR only directly before LF, so an accepted line
  contains no NUL and list functions are exact for strchr/strlen/strcmp.
  Allocation failure (NNG_ENOMEM from strdup/asprintf) is not modelled here (C20 enumerates it).
  Core Lean only.
-/
import NngModel.Base.Bytes
import NngModel.Generated.C16H
import NngModel.Model.Url
namespace Nng.HttpConn
open Nng

def ofNats (l : List Nat) : Bytes := l.map UInt8.ofNat

def LF : UInt8 := 0x0A
def CR : UInt8 := 0x0D
def SP : UInt8 := 0x20
def HT : UInt8 := 0x09
def COLON : UInt8 := 0x3A

/-! ### extracted constants -/
def bufsz : Nat := Generated.httpBufSize
def marker : Bytes := ofNats Generated.httpDiscardMarker
def versions : List Bytes := Generated.httpVersions.map ofNats
def defaultVersion : Bytes := ofNats Generated.httpDefaultVersion
def methSize : Nat := Generated.httpMethSize
def hostSize : Nat := Generated.httpHostSize
def clenSize : Nat := Generated.httpClenSize
def ctypeSize : Nat := Generated.httpCtypeSize
def stOk : Nat := Generated.httpStatusCodes.getD 0 0
def stBadRequest : Nat := Generated.httpStatusCodes.getD 1 0
def stUriTooLong : Nat := Generated.httpStatusCodes.getD 2 0
def stHeadersTooLarge : Nat := Generated.httpStatusCodes.getD 3 0
def stVersionNotSupp : Nat := Generated.httpStatusCodes.getD 4 0
def statusMin : Nat := Generated.httpStatusRange.getD 0 0
def statusMax : Nat := Generated.httpStatusRange.getD 1 0
/-- `true`: `http_buf_pull_up` is called before the `rd_put == bufsz` test (HTTP_RD_REQ) -/
def pullUpFirst : Bool := Generated.httpReqPullUpBeforeFullTest
/-- `true`: nni_http_req_parse ignores the result of http_parse_header -/
def reqIgnoresHeaderError : Bool := Generated.httpReqIgnoresHeaderError
/-- `true`: nni_http_res_parse fails with NNG_EPROTO when the first line is empty -/
def resRejectsEmptyHead : Bool := Generated.httpResRejectsEmptyHead

def rvOk : Nat := Err.ok
def rvAgain : Nat := Err.eagain
def rvProto : Nat := Err.eproto
def rvMsgSize : Nat := Err.emsgsize
def rvNotSup : Nat := Err.enotsup
def rvClosed : Nat := Err.eclosed

def sGET : Bytes := ofNats [71, 69, 84]
def sHost : Bytes := ofNats [72, 111, 115, 116]
def sContentType : Bytes := ofNats [67, 111, 110, 116, 101, 110, 116, 45, 84, 121, 112, 101]
def sContentLength : Bytes := ofNats [67, 111, 110, 116, 101, 110, 116, 45, 76, 101, 110, 103, 116, 104]
def sCommaSp : Bytes := ofNats [44, 32]
def sColonSp : Bytes := ofNats [58, 32]
def sSlash : Bytes := ofNats [47]
def sCRLF : Bytes := [CR, LF]

/-! ### http_scan_line -/

/-- result of http_scan_line over the bytes given: a line whose LF sits at index `len` (`cr`: the byte
    before it is CR and is cut off as well), a protocol error, or "no complete line yet" -/
inductive Scan where
  | line (len : Nat) (cr : Bool)
  | proto
  | again
deriving Repr, DecidableEq

/-- the `for (len = 0; len < n; len++)` loop; `lc` is the previous character -/
def scanGo (lc : UInt8) : Bytes → Scan
  | [] => .again
  | c :: rest =>
    if c = LF then .line 0 (lc == CR)
    else if (c < 0x20 && c != CR) || lc == CR then .proto
    else
      match scanGo c rest with
      | .line n cr => .line (n + 1) cr
      | .proto => .proto
      | .again => .again

def scanLine (b : Bytes) : Scan := scanGo 0 b

/-- the C string the line pointer designates after the terminator(s) were overwritten with NUL -/
def lineOf (b : Bytes) (len : Nat) (cr : Bool) : Bytes := b.take (if cr then len - 1 else len)

/-! ### strings -/

/-- `strchr(s, ch)`: the part before the first `ch` and the part after it -/
def strchr (ch : UInt8) : Bytes → Option (Bytes × Bytes)
  | [] => none
  | c :: r =>
    if c = ch then some ([], r)
    else match strchr ch r with
      | some (a, b) => some (c :: a, b)
      | none => none

def lower (c : UInt8) : UInt8 := if 0x41 ≤ c && c ≤ 0x5A then c + 0x20 else c
/-- nni_strcasecmp(a, b) == 0 -/
def ieq (a b : Bytes) : Bool := a.map lower == b.map lower

def isWs (c : UInt8) : Bool := c == SP || c == HT
/-- `while (*val == ' ' || *val == '\t') val++` -/
def trimLead : Bytes → Bytes
  | [] => []
  | c :: r => if isWs c then trimLead r else c :: r
/-- `end = val + strlen(val) - 1; while (end > val && isws(*end)) *end-- = 0`: never removes val[0] -/
def trimTrail : Bytes → Bytes
  | [] => []
  | c :: r => c :: (r.reverse.dropWhile isWs).reverse

/-! ### message state (nng_http_conn fields the parsers write) -/

/-- tag: 0 = heap header, 1 = conn->host_header, 2 = entity content_type, 3 = entity content_length -/
structure Hdr where
  name : Bytes
  value : Bytes
  tag : Nat := 0
deriving Repr, DecidableEq

structure Msg where
  parsedReq : Bool := false
  parsedRes : Bool := false
  code : Nat := 0
  rsn : Option Bytes := none
  meth : Bytes := sGET
  host : Bytes := []
  uri : Option Bytes := none
  vers : Bytes := defaultVersion
  reqHdrs : List Hdr := []
  resHdrs : List Hdr := []
deriving Repr, DecidableEq

/-- nni_http_get_status -/
def getStatus (m : Msg) : Nat := if m.code ≠ 0 then m.code else stOk
/-- nni_http_set_status(conn, code, NULL) -/
def setStatus (m : Msg) (code : Nat) : Msg := { m with code := code, rsn := none }
/-- nni_http_set_status(conn, code, reason): the reason is kept (a copy, or the identical built-in text) -/
def setStatusReason (m : Msg) (code : Nat) (reason : Bytes) : Msg := { m with code := code, rsn := some reason }
/-- nni_http_set_version: exact match against the table, else NNG_ENOTSUP (`none`) -/
def setVersion (m : Msg) (v : Bytes) : Option Msg := if versions.contains v then some { m with vers := v } else none
/-- nni_http_set_method: snprintf into meth[] truncates -/
def setMethod (m : Msg) (meth : Bytes) : Msg := { m with meth := meth.take (methSize - 1) }
/-- nni_http_set_uri(conn, uri, NULL) -/
def setUri (m : Msg) (u : Bytes) : Msg := { m with uri := some u }
/-- nni_http_get_uri -/
def getUri (m : Msg) : Bytes :=
  match m.uri with
  | some u => if u.isEmpty then sSlash else u
  | none => sSlash

/-! ### header lists -/

/-- nni_http_del_header on one list -/
def delHeader (hs : List Hdr) (key : Bytes) : List Hdr := hs.filter fun h => !ieq key h.name
/-- nni_http_set_static_header: delete by name, unlink the node, append -/
def setStatic (hs : List Hdr) (tag : Nat) (key val : Bytes) : List Hdr :=
  ((delHeader hs key).filter fun h => h.tag != tag) ++ [{ name := key, value := val, tag := tag }]
/-- nni_http_set_host on the request list: unlink the node, prepend -/
def setHostHdr (hs : List Hdr) (host : Bytes) : List Hdr :=
  { name := sHost, value := host, tag := 1 } :: hs.filter fun h => h.tag != 1
/-- http_add_header: first header with that name gets ", value" appended, else a new one at the end -/
def addPlain : List Hdr → Bytes → Bytes → List Hdr
  | [], k, v => [{ name := k, value := v, tag := 0 }]
  | h :: r, k, v => if ieq k h.name then { h with value := h.value ++ sCommaSp ++ v } :: r else h :: addPlain r k v
/-- http_set_header: first header with that name gets the value, else a new one at the end -/
def setPlain : List Hdr → Bytes → Bytes → List Hdr
  | [], k, v => [{ name := k, value := v, tag := 0 }]
  | h :: r, k, v => if ieq k h.name then { h with value := v } :: r else h :: setPlain r k v

def hdrsOf (m : Msg) (client : Bool) : List Hdr := if client then m.reqHdrs else m.resHdrs
def withHdrs (m : Msg) (client : Bool) (hs : List Hdr) : Msg :=
  if client then { m with reqHdrs := hs } else { m with resHdrs := hs }

/-- http_set_known_header: `some` = handled.  `client` is conn->client at the time of the call -/
def setKnown (m : Msg) (client : Bool) (key val : Bytes) : Option Msg :=
  if ieq key sContentType then
    some (withHdrs m client (setStatic (hdrsOf m client) 2 sContentType (val.take (ctypeSize - 1))))
  else if ieq key sContentLength then
    some (withHdrs m client (setStatic (hdrsOf m client) 3 sContentLength (val.take (clenSize - 1))))
  else if client && ieq key sHost then
    let h := val.take (hostSize - 1)
    some { m with host := h, reqHdrs := setHostHdr m.reqHdrs h }
  else none

/-- nni_http_add_header -/
def addHeader (m : Msg) (client : Bool) (key val : Bytes) : Msg :=
  match setKnown m client key val with
  | some m' => m'
  | none => withHdrs m client (addPlain (hdrsOf m client) key val)

/-- nni_http_set_header -/
def setHeader (m : Msg) (client : Bool) (key val : Bytes) : Msg :=
  match setKnown m client key val with
  | some m' => m'
  | none => withHdrs m client (setPlain (hdrsOf m client) key val)

/-! ### line parsers (http_msg.c) -/

/-- http_parse_header: (state, rv) -/
def parseHeader (m : Msg) (client : Bool) (line : Bytes) : Msg × Nat :=
  match strchr COLON line with
  | none => (m, rvProto)
  | some (key, v) => (addHeader m client key (trimTrail (trimLead v)), rvOk)

/-- http_req_parse_line (always returns NNG_OK when no allocation fails) -/
def reqParseLine (m : Msg) (line : Bytes) : Msg :=
  if getStatus m ≥ stBadRequest then m
  else
    match strchr SP line with
    | none => setStatus m stBadRequest
    | some (method, r1) =>
      match strchr SP r1 with
      | none => setStatus m stBadRequest
      | some (uri, version) =>
        match Url.canonify uri with
        | none => setStatus m stBadRequest
        | some u =>
          match setVersion m version with
          | none => setStatus m stVersionNotSupp
          | some m1 => setUri (setMethod m1 method) u

def isDigit (c : UInt8) : Bool := 0x30 ≤ c && c ≤ 0x39
def digitsVal : Nat → Bytes → Nat
  | acc, [] => acc
  | acc, c :: r => if isDigit c then digitsVal (acc * 10 + (c.toNat - 48)) r else acc

/-- `atoi` as glibc computes it for a string without leading white space: optional sign, decimal digits,
    `strtol` saturation at LONG_MAX / LONG_MIN, then the conversion to `int`; result as an integer -/
def atoi (s : Bytes) : Int :=
  let (neg, d) := match s with
    | c :: r => if c = 0x2D then (true, r) else if c = 0x2B then (false, r) else (false, s)
    | [] => (false, [])
  let v := digitsVal 0 d
  let l : Int := if neg then (if v > 2 ^ 63 then -(2 ^ 63 : Int) else -(v : Int)) else (if v > 2 ^ 63 - 1 then (2 ^ 63 - 1 : Int) else (v : Int))
  let w := l.emod (2 ^ 32)
  if w ≥ 2 ^ 31 then w - 2 ^ 32 else w

/-- http_res_parse_line: (state, rv) -/
def resParseLine (m : Msg) (line : Bytes) : Msg × Nat :=
  match strchr SP line with
  | none => (m, rvProto)
  | some (version, r1) =>
    match strchr SP r1 with
    | none => (m, rvProto)
    | some (codestr, reason) =>
      let status := atoi codestr
      if status < (statusMin : Int) || status > (statusMax : Int) then (m, rvProto)
      else
        let m1 := setStatusReason m status.toNat reason
        match setVersion m1 version with
        | none => (m1, rvNotSup)
        | some m2 => (m2, rvOk)

/-! ### nni_http_req_parse / nni_http_res_parse -/

structure PR where
  m : Msg
  n : Nat      -- *lenp
  rv : Nat
deriving Repr, DecidableEq

/-- the code after the loop: the `parsed` flag is cleared unless more data is needed -/
def parseEnd (isReq : Bool) (m : Msg) (n rv : Nat) : PR :=
  if isReq then ⟨if rv ≠ rvAgain then { m with parsedReq := false } else m, n, rv⟩
  else ⟨if rv = rvOk then { m with parsedRes := false } else m, n, rv⟩

/-- one line of the request loop -/
def reqLineStep (m : Msg) (line : Bytes) : Msg × Nat :=
  if m.parsedReq then
    let r := parseHeader m true line
    if reqIgnoresHeaderError then (r.1, rvOk) else r
  else (reqParseLine { m with parsedReq := true } line, rvOk)

/-- one line of the response loop -/
def resLineStep (m : Msg) (line : Bytes) : Msg × Nat :=
  if m.parsedRes then parseHeader m false line
  else
    let r := resParseLine m line
    if r.2 = rvOk then ({ r.1 with parsedRes := true }, rvOk) else r

def lineStep (isReq : Bool) (m : Msg) (line : Bytes) : Msg × Nat :=
  if isReq then reqLineStep m line else resLineStep m line

theorem scanGo_line_lt (lc : UInt8) (b : Bytes) (l : Nat) (cr : Bool) (h : scanGo lc b = .line l cr) : l < b.length := by
  induction b generalizing lc l cr with
  | nil => simp [scanGo] at h
  | cons c rest ih =>
    unfold scanGo at h
    by_cases h1 : c = LF
    · rw [if_pos h1] at h
      cases h
      simp
    · rw [if_neg h1] at h
      by_cases h2 : ((c < 0x20 && c != CR) || lc == CR) = true
      · rw [if_pos h2] at h; cases h
      · rw [if_neg h2] at h
        cases hs : scanGo c rest with
        | line n cr' =>
          rw [hs] at h
          have := ih c n cr' hs
          cases h
          simp; omega
        | proto => rw [hs] at h; cases h
        | again => rw [hs] at h; cases h

/-- `*lenp` of a loop that consumed `k` bytes before the rest of the loop consumed `r.n` -/
def PR.shift (k : Nat) (r : PR) : PR := { r with n := k + r.n }

/-- the `for (;;)` loop of nni_http_req_parse (`isReq`) / nni_http_res_parse over the bytes `b`
    (`n == 0`: the scan loop does not execute, NNG_EAGAIN); the running `len += cnt` of the C code is the
    sum built by `PR.shift` -/
def parseGo (isReq : Bool) (m : Msg) (b : Bytes) : PR :=
  if hb : b = [] then parseEnd isReq m 0 rvAgain
  else
    match scanLine b with
    | .again => parseEnd isReq m 0 rvAgain
    | .proto => parseEnd isReq m 0 rvProto
    | .line l _cr =>
      let line := lineOf b l _cr
      if line.isEmpty then
        parseEnd isReq m (l + 1) (if !isReq && !m.parsedRes && resRejectsEmptyHead then rvProto else rvOk)
      else
        let r := lineStep isReq m line
        if r.2 ≠ rvOk then parseEnd isReq r.1 (l + 1) r.2
        else (parseGo isReq r.1 (b.drop (l + 1))).shift (l + 1)
termination_by b.length
decreasing_by
  have : 0 < b.length := List.length_pos_iff.mpr hb
  simp [List.length_drop]; omega

/-! ### the connection: receive buffer and http_rd_buf -/

structure Conn where
  m : Msg := {}
  get : Nat := 0            -- rd_get
  pend : Bytes := []        -- buf[rd_get .. rd_put)
  closed : Bool := false
  taken : Nat := 0          -- ghost: stream bytes the current read operation has put into the buffer so far
deriving Repr, DecidableEq

def Conn.put (c : Conn) : Nat := c.get + c.pend.length

/-- http_buf_pull_up -/
def pullUp (c : Conn) : Conn := if c.get ≠ 0 then { c with get := 0 } else c

/-- the `rd_put == bufsz` block of HTTP_RD_REQ: status 431/414, the buffer content is replaced by the marker -/
def fullTest (c : Conn) : Conn :=
  if c.put = bufsz then
    { c with m := setStatus c.m (if c.m.parsedReq then stHeadersTooLarge else stUriTooLong), get := 0, pend := marker }
  else c

/-- result of one http_rd_buf call: the connection, the return value, and the length of the buffer read it
    submitted (`want`, 0 = none) -/
structure Rd where
  c : Conn
  rv : Nat
  want : Nat
deriving Repr, DecidableEq

/-- `conn->rd_get += n; if (conn->rd_get == conn->rd_put) conn->rd_get = conn->rd_put = 0;` -/
def advance (c : Conn) (m : Msg) (n : Nat) : Conn :=
  let p := c.pend.drop n
  { c with m := m, get := if p.isEmpty then 0 else c.get + n, pend := p }

/-- http_rd_buf, case HTTP_RD_REQ -/
def rdBufReq (c : Conn) : Rd :=
  let r := parseGo true c.m c.pend
  let c2 := advance c r.m r.n
  if r.rv = rvAgain then
    let c3 := if pullUpFirst then fullTest (pullUp c2) else pullUp (fullTest c2)
    ⟨c3, rvAgain, bufsz - c3.put⟩
  else ⟨c2, r.rv, 0⟩

/-- http_rd_buf, case HTTP_RD_RES -/
def rdBufRes (c : Conn) : Rd :=
  let r := parseGo false c.m c.pend
  let c2 := advance c r.m r.n
  if r.rv = rvAgain then
    let c3 := pullUp c2
    if bufsz - c3.put = 0 then ⟨c3, rvMsgSize, 0⟩ else ⟨c3, rvAgain, bufsz - c3.put⟩
  else ⟨c2, r.rv, 0⟩

def rdBuf (isReq : Bool) (c : Conn) : Rd := if isReq then rdBufReq c else rdBufRes c

/-- http_rd_start's handling of a final result: an error other than EAGAIN closes the connection -/
def settle (r : Rd) : Rd :=
  if r.rv ≠ rvAgain && r.rv ≠ rvOk then { r with c := { r.c with closed := true } } else r

/-- http_rd_cb for a buffered read of `chunk` (1 ≤ chunk.length ≤ want): `rd_put += cnt`, then http_rd_start -/
def rdCb (isReq : Bool) (c : Conn) (chunk : Bytes) : Rd :=
  settle (rdBuf isReq { c with pend := c.pend ++ chunk, taken := c.taken + chunk.length })

/-- the transport delivers the available bytes `inq` to the outstanding buffered read, as many as fit each
    time, until the operation completes or the bytes run out.  Returns the state and the bytes not taken. -/
def feed (isReq : Bool) : Nat → Rd → Bytes → Rd × Bytes
  | 0, r, inq => (r, inq)
  | fuel + 1, r, inq =>
    if r.rv ≠ rvAgain || r.want = 0 || inq.isEmpty then (r, inq)
    else
      let k := min r.want inq.length
      feed isReq fuel (rdCb isReq r.c (inq.take k)) (inq.drop k)

/-- nni_http_conn_reset -/
def connReset (m : Msg) : Msg :=
  let m1 : Msg := { m with parsedReq := false, parsedRes := false, reqHdrs := [], resHdrs := [], meth := sGET }
  let m2 : Msg := if m1.host.isEmpty then m1 else { m1 with reqHdrs := setHostHdr m1.reqHdrs m1.host }
  setStatus { m2 with uri := none, vers := defaultVersion } 0

/-- nni_http_read_req: reset, then the first http_rd_buf over whatever the buffer still holds -/
def readReq (c : Conn) : Rd :=
  if c.closed then ⟨c, rvClosed, 0⟩ else settle (rdBufReq { c with m := connReset c.m, taken := c.pend.length })

/-- nni_http_read_res -/
def readRes (c : Conn) : Rd :=
  if c.closed then ⟨c, rvClosed, 0⟩ else settle (rdBufRes { c with taken := c.pend.length })

/-- a whole request read: submit, then the chunks as they become available (bytes of a chunk that were not
    taken because the operation completed are left to later operations) -/
def runRead (isReq : Bool) (c : Conn) (chunks : List Bytes) : Rd :=
  chunks.foldl (fun r ch => (feed isReq (ch.length + 1) r ch).1) (if isReq then readReq c else readRes c)

/-! ### HTTP_RD_FULL / HTTP_RD_RAW / HTTP_RD_DISCARD -/

/-- user read of `need` more bytes: `got` collects what was copied out.  Returns (conn, got, need, done,
    direct) where `direct` says the next physical read goes straight into the user buffer (`buffered = false`) -/
structure URd where
  c : Conn
  got : Bytes
  need : Nat
  fin : Bool
  direct : Bool
deriving Repr, DecidableEq

/-- http_rd_buf, cases HTTP_RD_RAW / HTTP_RD_FULL with a single user iov -/
def rdBufFull (raw : Bool) (c : Conn) (got : Bytes) (need : Nat) : URd :=
  let n := min need c.pend.length
  let c1 := { c with get := c.get + n, pend := c.pend.drop n }
  let got1 := got ++ c.pend.take n
  let need1 := need - n
  if need1 = 0 || (raw && !got1.isEmpty) then ⟨c1, got1, need1, true, false⟩
  else ⟨c1, got1, need1, false, true⟩

/-- http_rd_buf, case HTTP_RD_DISCARD: (conn, remaining, want) -/
def rdBufDiscard (c : Conn) (disc : Nat) : Conn × Nat × Nat :=
  let n := min disc c.pend.length
  let c1 := pullUp { c with get := c.get + n, pend := c.pend.drop n }
  let d := disc - n
  if d > 0 then (c1, d, bufsz - c1.put) else (c1, 0, 0)

/-! ### http_snprintf (writer side) -/

def decimal (n : Nat) : Bytes := (Nat.toDigits 10 n).map fun c => UInt8.ofNat c.toNat

def emitHeaders : List Hdr → Bytes
  | [] => []
  | h :: r => h.name ++ sColonSp ++ h.value ++ sCRLF ++ emitHeaders r

/-- request head as written by nni_http_write_req (conn->client) -/
def emitReq (m : Msg) : Bytes :=
  m.meth ++ [SP] ++ getUri m ++ [SP] ++ m.vers ++ sCRLF ++ emitHeaders m.reqHdrs ++ sCRLF

/-- response head as written by nni_http_write_res; `reason` = nni_http_get_reason -/
def emitRes (m : Msg) (reason : Bytes) : Bytes :=
  m.vers ++ [SP] ++ decimal (getStatus m) ++ [SP] ++ reason ++ sCRLF ++ emitHeaders m.resHdrs ++ sCRLF

end Nng.HttpConn
