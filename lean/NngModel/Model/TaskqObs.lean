/- what an outside observer (Spec/Taskq.lean `Obs`) sees of a model state, and the interposed call
   each thread is parked at (compared line-exact with harness/u_taskq.c) -/
import NngModel.Model.Taskq
namespace Nng.Taskq
open Nng.TaskqSpec

def obsOf (s : State) : Obs :=
  { busy := s.busy, sd := s.sd, sx := s.sx, pr := s.pr, bw := s.bw, bx := s.bx, ce := s.ce, dn := s.dn,
    panic := s.panic, live := s.live, fin := s.cs.all Client.finished, res := s.cs.map (·.res) }

def WPc.next : WPc → String
  | .ready => "lock:tq"
  | .sleep => "wait:sched"
  | .popped => "cb"
  | .inCb => "cbret"
  | .after => "lock:task"

def Client.next (c : Client) : String :=
  match c.pc with
  | .idle => if c.prog.isEmpty then "end" else "lock:task"
  | .dispEnq => "lock:tq"
  | .execPop => "cb"
  | .execCb => "cbret"
  | .execAfter => "lock:task"
  | .waitSleep => "wait:task"
  | .waitChk => "lock:task"

end Nng.Taskq
