/-
  Executable model of src/core/device.c (nng_device / nng_device_aio), branch by branch.

    deviceInit    device_init      the decisions, in the order of the C text
    nniDevice     nni_device       init, nni_aio_start, nni_sock_device_hold, device_start
    deviceCb      device_cb        the forwarder callback of one path (runs under device_mtx,
                                   so callbacks are atomic with respect to each other)
    deviceCancel  device_cancel    cancellation of the user aio
    deviceClose   device_close
    step          one completion delivered to a path's aio by a socket (the provider's effect on
                  the aio — result and message slot — followed by device_cb), or a cancel

  Sockets are ABSTRACT: `deviceInit` sees of a socket only what device_init reads
  (nni_sock_proto_id, nni_sock_peer_id, nni_sock_flags; nni_sock_raw = flags & RAW) and its
  identity (a number; pointer equality = equality of numbers).  The forwarder machine sees a
  socket as something that completes a posted receive with a message or an error and a posted
  send with success (the message is consumed: the socket clears the aio's message slot, as every
  protocol's send path and msgqueue.c do) or an error (the message stays in the aio).

  Every call the C code makes to the outside (nni_sock_recv / nni_sock_send / nni_msg_free /
  nni_aio_abort / nni_sock_close_device / nni_aio_finish_error(user) / nni_reap /
  nni_sock_device_hold) is an `Act` in the output of a step, in the order of the C text: this is
  what harness/u_device.c prints for the real device.c.  Ghost fields (never influence a step)
  record, per path, the messages obtained, submitted, acknowledged and freed.

  `System` (second half) closes the machine with FIFO sockets: a socket hands arriving messages
  to posted receives in order; a completed receive waits until its callback is run.  Its events are
  the schedules of the real thing: arrivals, callbacks of completed operations in any order.

  Core Lean only.
-/
import NngModel.Base.Bytes
import NngModel.Generated.C13DEV
namespace Nng.Device
open Nng

/-- a message as the device sees it: it never looks inside -/
structure Msg where
  hdr : Bytes
  body : Bytes
deriving Repr, DecidableEq, Inhabited

/-! ### device_init -/

/-- what device_init reads of a socket -/
structure SockInfo where
  proto : Nat      -- nni_sock_proto_id
  peer : Nat       -- nni_sock_peer_id
  flags : Nat      -- nni_sock_flags
deriving Repr, DecidableEq, Inhabited

def flagRcv : Nat := Nng.Generated.devFlagRcv
def flagSnd : Nat := Nng.Generated.devFlagSnd
def flagRaw : Nat := Nng.Generated.devFlagRaw
def eInval : Nat := Nng.Generated.devErrInval
def eNomem : Nat := Nng.Generated.devErrNomem

/-- `(nni_sock_flags(s) & FLAG) != 0` -/
def SockInfo.has (i : SockInfo) (flag : Nat) : Bool := (i.flags &&& flag) != 0
/-- nni_sock_raw -/
def SockInfo.raw (i : SockInfo) : Bool := i.has flagRaw
def SockInfo.canRecv (i : SockInfo) : Bool := i.has flagRcv

/-- a forwarder direction: receive from `src`, send to `dst` -/
structure Dir where
  src : Nat
  dst : Nat
deriving Repr, DecidableEq, Inhabited

/-- `if (s1 == NULL) s1 = s2;  if (s2 == NULL) s2 = s1;` -/
def normalise (s1 s2 : Option Nat) : Option Nat × Option Nat :=
  let s1' := match s1 with | none => s2 | some a => some a
  let s2' := match s2 with | none => s1' | some b => some b
  (s1', s2')

/-- the swap: `if ((nni_sock_flags(s1) & NNI_PROTO_FLAG_RCV) == 0) { temp = s1; s1 = s2; s2 = temp; }` -/
def swapRecv (info : Nat → SockInfo) (a b : Nat) : Nat × Nat :=
  if (info a).canRecv then (a, b) else (b, a)

/-- `num_paths = 2; if (((flags(s2) & RCV) == 0) || (s1 == s2)) num_paths = 1;` on the swapped sockets -/
def numPaths (info : Nat → SockInfo) (a b : Nat) : Nat :=
  if !(info b).canRecv || a == b then 1 else Nng.Generated.devInitPaths

/-- the path loop: `p->src = i == 0 ? s1 : s2;  p->dst = i == 0 ? s2 : s1;` -/
def mkDirs (a b : Nat) (n : Nat) : List Dir :=
  (List.range n).map fun i => if i == 0 then ⟨a, b⟩ else ⟨b, a⟩

/-- device_init.  `info` = what the getters answer for a socket, `s1 s2` = the two arguments
    (`none` = NULL), `allocOk` = NNI_ALLOC_STRUCT succeeds.  Result: error code, or the directions
    of `d->paths[0 .. num_paths-1]`. -/
def deviceInit (info : Nat → SockInfo) (s1 s2 : Option Nat) (allocOk : Bool) : Except Nat (List Dir) :=
  match normalise s1 s2 with
  | (some a, some b) =>
    if (info a).peer != (info b).proto || (info b).peer != (info a).proto then .error eInval
    else if !(info a).raw then .error eInval
    else if !(info b).raw then .error eInval
    else
      let ab := swapRecv info a b
      let n := numPaths info ab.1 ab.2
      if !allocOk then .error eNomem
      else .ok (mkDirs ab.1 ab.2 n)
  | _ => .error eInval

/-! ### the forwarder -/

/-- NNI_DEVICE_STATE_* -/
inductive PState | init | recv | send | fini
deriving Repr, DecidableEq, Inhabited

def PState.code : PState → Nat
  | .init => Nng.Generated.devStateInit | .recv => Nng.Generated.devStateRecv
  | .send => Nng.Generated.devStateSend | .fini => Nng.Generated.devStateFini

structure Path where
  state : PState := .init
  src : Nat
  dst : Nat
  ares : Nat := 0                 -- nni_aio_result(&p->aio)
  amsg : Option Msg := none       -- nni_aio_get_msg(&p->aio)
  -- ghost
  aborted : Bool := false         -- nni_aio_abort was called on the aio since it was last (re)armed
  rcvd : List Msg := []           -- messages the source socket put into the aio
  subm : List Msg := []           -- messages passed to nni_sock_send(dst)
  acked : List Msg := []          -- messages the destination socket consumed
  freed : List Msg := []          -- messages the device released with nni_msg_free
deriving Repr, DecidableEq, Inhabited

structure Dev where
  paths : List Path := []
  user : Bool := false            -- d->user != NULL
  running : Nat := 0
  rv : Nat := 0
  owned : Bool := false
  -- ghost
  userDone : List Nat := []       -- results the user aio was completed with
  closed : List Nat := []         -- sockets given to nni_sock_close_device, in order
  reaps : Nat := 0                -- nni_reap(&device_reap, d)
deriving Repr, DecidableEq, Inhabited

/-- calls leaving device.c -/
inductive Act
  | sockRecv (s path : Nat)
  | sockSend (s path : Nat) (m : Option Msg)
  | msgFree (path : Nat) (m : Option Msg)   -- nni_msg_free(nni_aio_get_msg(&p->aio)) (NULL = no-op); `path` is a ghost annotation
  | abort (path rv : Nat)
  | hold (a b : Nat)
  | sockClose (s : Nat)
  | userFinish (rv : Nat)
  | reap
deriving Repr, DecidableEq, Inhabited

/-- `nni_msg_free(nni_aio_get_msg(&p->aio)); nni_aio_set_msg(&p->aio, NULL);` -/
def freeMsg (i : Nat) (p : Path) : Path × List Act :=
  ({ p with amsg := none, freed := p.freed ++ p.amsg.toList }, [.msgFree i p.amsg])

/-- first half of device_cb, as far as the path itself is concerned.  `drv` = `d->rv` on entry.
    Returns the path, the effective `rv` and the frees.
    ```
    rv = nni_aio_result(&p->aio);
    if (rv == 0) { rv = d->rv; if ((rv != 0) && (p->state == RECV)) { free; set_msg(NULL); } }
    if (rv != 0) { if (p->state == SEND) { free; set_msg(NULL); } p->state = FINI; ...
    ``` -/
def cbPath (drv : Nat) (i : Nat) (p : Path) : Path × Nat × List Act :=
  let rv := if p.ares == 0 then drv else p.ares
  let pa := if p.ares == 0 && drv != 0 && p.state == .recv then freeMsg i p else (p, [])
  if rv != 0 then
    let pb := if pa.1.state == .send then freeMsg i pa.1 else (pa.1, [])
    ({ pb.1 with state := .fini }, rv, pa.2 ++ pb.2)
  else (pa.1, 0, pa.2)

/-- second half of device_cb (`rv == 0`): the state switch, nni_aio_reset, and the next
    operation on the same aio. -/
def advance (i : Nat) (p : Path) : Path × List Act :=
  match p.state with
  | .init => ({ p with ares := 0, aborted := false }, [])
  | .send => ({ p with state := .recv, ares := 0, aborted := false }, [.sockRecv p.src i])
  | .recv => ({ p with state := .send, ares := 0, aborted := false, subm := p.subm ++ p.amsg.toList },
              [.sockSend p.dst i p.amsg])
  | .fini => ({ p with ares := 0, aborted := false }, [])

/-- the abort loop of device_cb (`skip = some i`) and device_cancel (`skip = none`):
    every path that is not the current one and not FINI gets `nni_aio_abort(.., rv)` -/
def abortPaths (skip : Option Nat) (rv : Nat) (ps : List Path) : List Path × List Act :=
  (ps.mapIdx fun j p => if some j != skip && p.state != .fini then { p with aborted := true } else p,
   (ps.mapIdx fun j p => if some j != skip && p.state != .fini then [Act.abort j rv] else []).flatten)

/-- the sockets device_close closes: `d->paths[0].src`, then `d->paths[0].dst` if it is another socket -/
def closeList : List Path → List Nat
  | [] => []
  | p0 :: _ => if p0.dst != p0.src then [p0.src, p0.dst] else [p0.src]

/-- device_close -/
def deviceClose (d : Dev) : Dev × List Act :=
  if !d.owned then (d, [])
  else ({ d with owned := false, closed := d.closed ++ closeList d.paths }, (closeList d.paths).map .sockClose)

/-- the tail of device_cb's error branch once `d->running == 0`:
    `user = d->user; err = d->rv; d->user = NULL; unlock; device_close(d);
     if (user != NULL) nni_aio_finish_error(user, err); nni_reap(&device_reap, d);` -/
def cbFinish (d1 : Dev) : Dev × List Act :=
  let c := deviceClose { d1 with user := false }
  let fin := if d1.user then [Act.userFinish d1.rv] else []
  ({ c.1 with userDone := c.1.userDone ++ (if d1.user then [d1.rv] else []), reaps := c.1.reaps + 1 },
   c.2 ++ fin ++ [.reap])

/-- device_cb's error branch (`rv != 0`) after the path itself was dealt with (`p1`, state FINI):
    `d->running--; if (d->rv == 0) d->rv = rv;` abort the others; finish when nobody is left -/
def cbFail (d : Dev) (i : Nat) (p1 : Path) (rv : Nat) : Dev × List Act :=
  let ab := abortPaths (some i) rv (d.paths.set i p1)
  let d1 := { d with paths := ab.1, running := d.running - 1, rv := if d.rv == 0 then rv else d.rv }
  if d1.running == 0 then
    let f := cbFinish d1
    (f.1, ab.2 ++ f.2)
  else (d1, ab.2)

/-- device_cb's normal branch -/
def cbCont (d : Dev) (i : Nat) (p1 : Path) : Dev × List Act :=
  let a := advance i p1
  ({ d with paths := d.paths.set i a.1 }, a.2)

/-- device_cb for path `i` (the aio's result and message slot already hold what the provider
    completed it with). -/
def deviceCb (d : Dev) (i : Nat) : Dev × List Act :=
  match d.paths[i]? with
  | none => (d, [])
  | some p =>
    let r := cbPath d.rv i p
    if r.2.1 != 0 then
      let f := cbFail d i r.1 r.2.1
      (f.1, r.2.2 ++ f.2)
    else
      let c := cbCont d i r.1
      (c.1, r.2.2 ++ c.2)

/-- device_cancel(aio, d, rv) — `aio` is the user aio; `d->user == aio` fails exactly when the
    device already detached it. -/
def deviceCancel (d : Dev) (rv : Nat) : Dev × List Act :=
  if d.user then
    let ab := abortPaths none rv d.paths
    ({ d with rv := if d.rv == 0 then rv else d.rv, paths := ab.1 }, ab.2)
  else (d, [])

/-- device_start -/
def deviceStart (d : Dev) : Dev × List Act :=
  ({ d with user := true, running := d.running + d.paths.length,
            paths := d.paths.map fun p => { p with state := .recv } },
   (d.paths.mapIdx fun i p => Act.sockRecv p.src i))

/-- nni_device.  `startOk` = nni_aio_start(aio, device_cancel, d) returns true (false: the user
    aio was stopped or aborted before; the aio framework completes it itself); `holdRv` = result of
    nni_sock_device_hold (NNG_ECLOSED, NNG_EBUSY or 0). -/
def nniDevice (info : Nat → SockInfo) (s1 s2 : Option Nat) (allocOk startOk : Bool) (holdRv : Nat) : Dev × List Act :=
  match deviceInit info s1 s2 allocOk with
  | .error e => ({ userDone := [e] }, [.userFinish e])
  | .ok dirs =>
    let d : Dev := { paths := dirs.map fun x => { src := x.src, dst := x.dst } }
    if !startOk then ({ d with reaps := 1 }, [.reap])
    else
      match dirs with
      | [] => (d, [])
      | x :: _ =>
        if holdRv != 0 then ({ d with userDone := [holdRv], reaps := 1 }, [.hold x.src x.dst, .userFinish holdRv, .reap])
        else
          let s := deviceStart { d with owned := true }
          (s.1, Act.hold x.src x.dst :: s.2)

/-- what can happen to a running device -/
inductive DEv
  | recvDone (i : Nat) (r : Except Nat Msg)   -- the source socket completes path i's receive
  | sendDone (i : Nat) (rv : Nat)             -- the destination socket completes path i's send
  | cancel (rv : Nat)                         -- nni_aio_abort(user, rv) / nni_aio_stop(user)
deriving Repr, Inhabited

/-- the provider's effect on the aio of a path -/
def completeRecv (p : Path) : Except Nat Msg → Path
  | .ok m => { p with ares := 0, amsg := some m, rcvd := p.rcvd ++ [m] }
  | .error e => { p with ares := e }

def completeSend (p : Path) (rv : Nat) : Path :=
  if rv == 0 then { p with ares := 0, amsg := none, acked := p.acked ++ p.amsg.toList }
  else { p with ares := rv }

/-- an error completion carries a non-zero code -/
def okRes : Except Nat Msg → Bool
  | .error e => e != 0
  | .ok _ => true

/-- one event.  A completion is possible only for the operation that is outstanding: a receive
    while the path is in RECV, a send while it is in SEND; an error completion carries a
    non-zero code.  Anything else cannot happen (the state is returned unchanged). -/
def step (d : Dev) : DEv → Dev × List Act
  | .recvDone i r =>
    match d.paths[i]? with
    | some p =>
      if p.state == .recv && okRes r then
        deviceCb { d with paths := d.paths.set i (completeRecv p r) } i
      else (d, [])
    | none => (d, [])
  | .sendDone i rv =>
    match d.paths[i]? with
    | some p =>
      if p.state == .send then deviceCb { d with paths := d.paths.set i (completeSend p rv) } i
      else (d, [])
    | none => (d, [])
  | .cancel rv => if rv == 0 then (d, []) else deviceCancel d rv

def run (d : Dev) : List DEv → Dev × List Act
  | [] => (d, [])
  | e :: es =>
    let r := step d e
    let r' := run r.1 es
    (r'.1, r.2 ++ r'.2)

/-- a freshly started device over the given directions (what `nniDevice` builds when nothing fails) -/
def started (dirs : List Dir) : Dev :=
  { paths := dirs.map fun x => { state := .recv, src := x.src, dst := x.dst },
    user := true, running := dirs.length, owned := true }

/-! ### closing the machine with FIFO sockets -/

structure Sock where
  rxq : List Msg := []        -- arrived, not yet handed to a receive
  rwait : List Nat := []      -- paths whose posted receive is waiting, oldest first
  arrived : List Msg := []    -- ghost: everything that ever arrived
deriving Repr, DecidableEq, Inhabited

structure System where
  dev : Dev
  socks : List Sock                     -- indexed by socket number
  ready : List (Option Msg) := []       -- per path: its receive completed with this message, the callback has not run yet
  trace : List Act := []
deriving Repr, DecidableEq, Inhabited

inductive SEv
  | arrive (s : Nat) (m : Msg)     -- a peer's message reaches socket s's receive side
  | run (i : Nat)                  -- the callback of path i's completed receive runs
  | recvFail (i : Nat) (e : Nat)   -- socket fails path i's waiting receive
  | sendDone (i : Nat) (rv : Nat)
  | cancel (rv : Nat)
deriving Repr, Inhabited

def modSock (ss : List Sock) (s : Nat) (f : Sock → Sock) : List Sock :=
  match ss[s]? with
  | some k => ss.set s (f k)
  | none => ss

/-- a posted receive: served at once from the queue, else it waits -/
def postRecv (sy : System) (s i : Nat) : System :=
  match sy.socks[s]? with
  | some k =>
    match k.rxq with
    | m :: rest => { sy with socks := sy.socks.set s { k with rxq := rest }, ready := sy.ready.set i (some m) }
    | [] => { sy with socks := sy.socks.set s { k with rwait := k.rwait ++ [i] } }
  | none => sy

/-- the sockets' reaction to the device's calls -/
def absorb (sy : System) : List Act → System
  | [] => sy
  | .sockRecv s i :: as => absorb (postRecv { sy with trace := sy.trace ++ [.sockRecv s i] } s i) as
  | a :: as => absorb { sy with trace := sy.trace ++ [a] } as

def devStep (sy : System) (e : DEv) : System :=
  let r := step sy.dev e
  absorb { sy with dev := r.1 } r.2

def sstep (sy : System) : SEv → System
  | .arrive s m =>
    match sy.socks[s]? with
    | some k =>
      match k.rwait with
      | i :: rest => { sy with socks := sy.socks.set s { k with rwait := rest, arrived := k.arrived ++ [m] },
                               ready := sy.ready.set i (some m) }
      | [] => { sy with socks := sy.socks.set s { k with rxq := k.rxq ++ [m], arrived := k.arrived ++ [m] } }
    | none => sy
  | .run i =>
    match sy.ready[i]? with
    | some (some m) => devStep { sy with ready := sy.ready.set i none } (.recvDone i (.ok m))
    | _ => sy
  | .recvFail i e =>
    match sy.dev.paths[i]? with
    | some p =>
      match sy.socks[p.src]? with
      | some k =>
        if k.rwait.contains i && e != 0 then
          devStep { sy with socks := sy.socks.set p.src { k with rwait := k.rwait.erase i } } (.recvDone i (.error e))
        else sy
      | none => sy
    | none => sy
  | .sendDone i rv => devStep sy (.sendDone i rv)
  | .cancel rv => devStep sy (.cancel rv)

def srun (sy : System) : List SEv → System
  | [] => sy
  | e :: es => srun (sstep sy e) es

/-- a started device whose first receives are posted on `n` empty sockets -/
def sysStart (dirs : List Dir) (n : Nat) : System :=
  absorb { dev := started dirs, socks := List.replicate n {}, ready := List.replicate dirs.length none }
    ((started dirs).paths.mapIdx fun i p => Act.sockRecv p.src i)

/-- messages submitted to socket `s`, in order -/
def sentTo (s : Nat) : List Act → List Msg
  | [] => []
  | .sockSend s' _ (some m) :: as => if s' == s then m :: sentTo s as else sentTo s as
  | _ :: as => sentTo s as

end Nng.Device
