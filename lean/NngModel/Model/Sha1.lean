/-
  Model of src/supplemental/websocket/sha1.c, function by function:
    nni_sha1_init, nni_sha1_update (byte loop: store into blk[idx++], len += 8 on the uint64_t bit
    counter, process at idx == 64), nni_sha1_process (big-endian load of W[0..15], schedule
    W[16..79], the four 20-round loops with K[0..3], the `& 0xFFFFFFFF` masks and the circular
    shift macro as written), nni_sha1_pad (one- or two-block padding decided by `idx > 55`, the
    zero-fill loops, the eight length stores), nni_sha1_final, nni_sha1.
  `unsigned` is 32 bits (BitVec 32; the masks of the source are kept, they are no-ops there);
  `ctx->len` is uint64_t: a Nat reduced mod 2^64 at every `+= 8`.
  Every store into / load from `blk` through the run-time index `idx` clears `safe` when the index is
  outside blk[0..63].  The constants (initial digest, K, block size, thresholds, rotation amounts) are
  the ones extracted from the source (`Generated/C16U.lean`).  Core Lean only.
-/
import NngModel.Base.Bytes
import NngModel.Generated.C16U
namespace Nng.Sha1

abbrev Word := BitVec 32

/-- five 32-bit words: `ctx->digest[0..4]`, and the working variables A..E of nni_sha1_process -/
structure Regs where
  a : Word
  b : Word
  c : Word
  d : Word
  e : Word
  deriving DecidableEq, Repr

/-- nni_sha1_ctx -/
structure Ctx where
  dig : Regs          -- uint32_t digest[5]
  len : Nat           -- uint64_t len (bits)
  blk : Bytes         -- uint8_t blk[64]
  idx : Nat           -- int idx
  safe : Bool := true -- no access outside blk so far
  deriving DecidableEq, Repr

def blkSize : Nat := Generated.sha1BlkSize
def mask32 : Word := 0xFFFFFFFF#32

def initWord (i : Nat) : Word := BitVec.ofNat 32 (Generated.sha1Init.getD i 0)
def kWord (i : Nat) : Word := BitVec.ofNat 32 (Generated.sha1K.getD i 0)

/-- `#define nni_sha1_circular_shift(bits, word) ((((word) << (bits)) & 0xFFFFFFFF) | ((word) >> (32 - (bits))))` -/
def circ (bits : Nat) (w : Word) : Word := ((w <<< bits) &&& mask32) ||| (w >>> (32 - bits))

/-- nni_sha1_init: len, idx and the digest are set; blk keeps whatever it held -/
def init (c : Ctx) : Ctx :=
  { c with len := 0, idx := 0,
           dig := { a := initWord 0, b := initWord 1, c := initWord 2, d := initWord 3, e := initWord 4 } }

/-- a context as it sits on the caller's stack before nni_sha1_init: blk has 64 bytes of anything -/
def raw (garbage : Bytes) : Ctx :=
  { dig := ⟨0, 0, 0, 0, 0⟩, len := 0, blk := (garbage ++ List.replicate blkSize 0).take blkSize, idx := 0 }

def byteW (b : UInt8) : Word := BitVec.ofNat 32 b.toNat

/-- `W[t] = blk[t*4] << 24; W[t] |= blk[t*4+1] << 16; W[t] |= blk[t*4+2] << 8; W[t] |= blk[t*4+3];` -/
def loadWord (blk : Bytes) (t : Nat) : Word :=
  (((byteW (blk.getD (t * 4) 0) <<< 24) ||| (byteW (blk.getD (t * 4 + 1) 0) <<< 16)) |||
    (byteW (blk.getD (t * 4 + 2) 0) <<< 8)) ||| byteW (blk.getD (t * 4 + 3) 0)

/-- `for (t = 0; t < 16; t++)` -/
def w16 (blk : Bytes) : List Word := (List.range 16).map (loadWord blk)

/-- `W[t] = circular_shift(1, W[t-3] ^ W[t-8] ^ W[t-14] ^ W[t-16])` -/
def wNext (w : List Word) (t : Nat) : Word :=
  circ Generated.sha1RotW (((w.getD (t - 3) 0 ^^^ w.getD (t - 8) 0) ^^^ w.getD (t - 14) 0) ^^^ w.getD (t - 16) 0)

/-- `for (t = 16; t < 80; t++)`: W[t] is stored right after W[t-1] (the list has exactly t entries) -/
def wAll (blk : Bytes) : List Word :=
  (List.range' 16 64).foldl (fun w t => w ++ [wNext w t]) (w16 blk)

def f0 (b c d : Word) : Word := (b &&& c) ||| ((~~~b) &&& d)
def f1 (b c d : Word) : Word := (b ^^^ c) ^^^ d
def f2 (b c d : Word) : Word := ((b &&& c) ||| (b &&& d)) ||| (c &&& d)

/-- the body shared by the four round loops -/
def round (f : Word → Word → Word → Word) (k : Word) (w : List Word) (r : Regs) (t : Nat) : Regs :=
  let temp := ((((circ Generated.sha1RotA r.a + f r.b r.c r.d) + r.e) + w.getD t 0) + k) &&& mask32
  { e := r.d, d := r.c, c := circ Generated.sha1RotB r.b, b := r.a, a := temp }

def rounds (w : List Word) (r : Regs) : Regs :=
  let r := (List.range' 0 20).foldl (round f0 (kWord 0) w) r
  let r := (List.range' 20 20).foldl (round f1 (kWord 1) w) r
  let r := (List.range' 40 20).foldl (round f2 (kWord 2) w) r
  (List.range' 60 20).foldl (round f1 (kWord 3) w) r

/-- nni_sha1_process -/
def process (c : Ctx) : Ctx :=
  let r := rounds (wAll c.blk) c.dig
  { c with dig := { a := (c.dig.a + r.a) &&& mask32, b := (c.dig.b + r.b) &&& mask32, c := (c.dig.c + r.c) &&& mask32,
                    d := (c.dig.d + r.d) &&& mask32, e := (c.dig.e + r.e) &&& mask32 },
           idx := 0 }

/-- `ctx->blk[ctx->idx++] = v` -/
def put (c : Ctx) (v : UInt8) : Ctx :=
  { c with blk := c.blk.set c.idx v, idx := c.idx + 1, safe := c.safe && decide (c.idx < blkSize) }

/-- the body of the `while (length--)` loop of nni_sha1_update -/
def updateByte (c : Ctx) (b : UInt8) : Ctx :=
  let c := put c b
  let c := { c with len := (c.len + 8) % 2 ^ 64 }
  if c.idx = Generated.sha1FullIdx then process c else c

/-- nni_sha1_update (`if (!length) return;` first) -/
def update (c : Ctx) (data : Bytes) : Ctx :=
  if data.length = 0 then c else data.foldl updateByte c

/-- `while (ctx->idx < lim) ctx->blk[ctx->idx++] = 0;` -/
def zeroFill (lim : Nat) : Nat → Ctx → Ctx
  | 0, c => c
  | fuel + 1, c => if c.idx < lim then zeroFill lim fuel (put c 0) else c

/-- `ctx->blk[i] = v` with a literal index -/
def store (c : Ctx) (i : Nat) (v : Nat) : Ctx :=
  { c with blk := c.blk.set i (UInt8.ofNat v), safe := c.safe && decide (i < blkSize) }

/-- nni_sha1_pad -/
def pad (c : Ctx) : Ctx :=
  let c :=
    if c.idx > Generated.sha1PadThreshold then
      let c := put c (UInt8.ofNat Generated.sha1PadMark)
      let c := zeroFill Generated.sha1PadFillFull blkSize c
      let c := process c
      zeroFill Generated.sha1PadFillLen blkSize c
    else
      let c := put c (UInt8.ofNat Generated.sha1PadMark)
      zeroFill Generated.sha1PadFillLen blkSize c
  let at_ := Generated.sha1LenFieldAt
  let c := store c at_ ((c.len >>> 56) &&& 0xff)
  let c := store c (at_ + 1) ((c.len >>> 48) &&& 0xff)
  let c := store c (at_ + 2) ((c.len >>> 40) &&& 0xff)
  let c := store c (at_ + 3) ((c.len >>> 32) &&& 0xff)
  let c := store c (at_ + 4) ((c.len >>> 24) &&& 0xff)
  let c := store c (at_ + 5) ((c.len >>> 16) &&& 0xff)
  let c := store c (at_ + 6) ((c.len >>> 8) &&& 0xff)
  let c := store c (at_ + 7) (c.len &&& 0xff)
  process c

/-- `digest[i*4] = (w >> 24) & 0xff; … digest[i*4+3] = (w >> 0) & 0xff;` -/
def wordBytes (w : Word) : Bytes :=
  [UInt8.ofNat ((w >>> 24) &&& 0xff#32).toNat, UInt8.ofNat ((w >>> 16) &&& 0xff#32).toNat,
   UInt8.ofNat ((w >>> 8) &&& 0xff#32).toNat, UInt8.ofNat ((w >>> 0) &&& 0xff#32).toNat]

/-- nni_sha1_final: the context after padding and the 20 bytes stored into `digest` -/
def final (c : Ctx) : Ctx × Bytes :=
  let c := pad c
  (c, wordBytes c.dig.a ++ wordBytes c.dig.b ++ wordBytes c.dig.c ++ wordBytes c.dig.d ++ wordBytes c.dig.e)

/-- nni_sha1: init, update, final on a fresh stack context -/
def hash (msg : Bytes) : Bytes := (final (update (init (raw [])) msg)).2

/-- the calling sequences the API allows on one context -/
inductive Op where
  | init
  | update (data : Bytes)
  | final
  deriving Repr

def apply (c : Ctx) : Op → Ctx
  | .init => init c
  | .update d => update c d
  | .final => (final c).1

end Nng.Sha1
