/-
  Executable model of src/sp/protocol/pubsub0/sub.c (cooked SUB socket with contexts) as
  seen through the socket core: one step per harness event; inside a step the order of
  sub-actions follows the C callbacks (each runs under the protocol mutex `sock->lk`).

  * every context (the socket-level "master" context and the ones opened by the
    application) has its own topic list, receive queue (an nni_lmq, modelled by its
    abstract bounded FIFO: list + cap; C18 proves the ring refines it), list of waiting
    receive aios and `prefer_new` flag;
  * `sub0_recv_cb` walks `sock->contexts` (master first, then in creation order);
  * messages carry a ghost id (`gid`, the arrival number) which never reaches the
    outputs; the theorems use it to state order / no-duplication without assuming
    distinct payloads.  The message copy made when more than one context exists
    (`nni_msg_dup`) is not observable (same bytes) and is not modelled; its failure
    (out of memory) neither.
  * the model mirrors the FIXED code (integration/fixes/sub-unsubscribe-clears-readable.patch):
    `sub0_ctx_unsubscribe` clears the socket's pollable when the purge empties the
    socket-level queue.
-/
import NngModel.Proto.Base
import NngModel.Generated.C05
namespace Nng.Sub
open Nng Nng.Proto

/-! ### topic matching (sub0_matches) -/

/-- `memcmp(a, b, n) == 0`; running off either buffer is reported as a mismatch (the C
    callers guard every call with a length test, so this branch is never taken) -/
def memcmpEq : Nat → Bytes → Bytes → Bool
  | 0, _, _ => true
  | n + 1, a :: as, b :: bs => a == b && memcmpEq n as bs
  | _ + 1, _, _ => false

/-- one iteration of the loop in sub0_matches -/
def topicMatches (t body : Bytes) : Bool :=
  if body.length < t.length then false
  else if t.length == 0 then true
  else memcmpEq t.length t body

/-- sub0_matches -/
def subMatches (topics : List Bytes) (body : Bytes) : Bool :=
  topics.any (fun t => topicMatches t body)

/-- the comparison used by subscribe / unsubscribe: equal length, then memcmp -/
def topicEq (t u : Bytes) : Bool :=
  if t.length != u.length then false else memcmpEq u.length t u

/-! ### state -/

structure GMsg where
  gid : Nat          -- ghost: arrival number
  pipe : Nat
  body : Bytes
deriving Repr, DecidableEq, Inhabited

structure Parked where
  aio : Nat
  deadline : Option Nat
deriving Repr, DecidableEq, Inhabited

structure Ctx where
  cid : Nat := 0                  -- ghost: creation number (0 = the socket's own context)
  handle : Option Nat := none     -- harness slot that refers to it (none: master, or orphaned by a re-open of the slot)
  topics : List Bytes := []
  cap : Nat := 0
  q : List GMsg := []
  rq : List Parked := []
  preferNew : Bool := true
  -- ghost history
  got : List GMsg := []           -- handed to the application through this context, in order
  dropped : List GMsg := []       -- removed from the queue without being delivered
deriving Repr, Inhabited

structure Pipe where
  id : Nat
  closed : Bool := false
  armed : Bool := false
deriving Repr, DecidableEq, Inhabited

structure State where
  opened : Bool := false
  closed : Bool := false
  master : Ctx := {}
  ctxs : List Ctx := []           -- sock->contexts without the master, in list order
  dead : List Ctx := []           -- ghost: contexts that were closed
  nctx : Nat := 0                 -- ghost: contexts created so far
  recvBufLen : Nat := 0           -- sock->recv_buf_len (for new contexts)
  preferNew : Bool := true        -- sock->prefer_new (for new contexts)
  pipes : List Pipe := []
  now : Nat := 0
  readable : Bool := false
  narrive : Nat := 0
  arrived : List GMsg := []       -- ghost: everything the transport delivered on an open pipe
deriving Repr, Inhabited

def peerPub : Nat := Nng.Generated.c05ProtoPub
def recvBufMin : Nat := Nng.Generated.c05SubRecvBufMin
def recvBufMax : Nat := Nng.Generated.c05SubRecvBufMax
def optRecvBuf : String := Nng.Generated.c05OptRecvBuf
def optPrefNew : String := Nng.Generated.c05OptPrefNew

/-! ### the lmq as a bounded FIFO -/

def lmqFull (c : Ctx) : Bool := c.q.length ≥ c.cap

/-- nni_lmq_put (the callers ignore its result: a put on a full queue loses the message) -/
def lmqPut (c : Ctx) (m : GMsg) : Ctx :=
  if c.q.length ≥ c.cap then c else { c with q := c.q ++ [m] }

/-! ### per-context actions -/

/-- body of the loop in sub0_recv_cb for one context; the flag is `queued` -/
def arriveCtx (gm : GMsg) (c : Ctx) : Ctx × List Out × Bool :=
  if lmqFull c && !c.preferNew then (c, [], false)
  else if !subMatches c.topics gm.body then (c, [], false)
  else
    match c.rq with
    | a :: rest =>
      ({ c with rq := rest, got := c.got ++ [gm] }, [Out.done a.aio 0 (some ⟨[], gm.body⟩) false], false)
    | [] =>
      if lmqFull c then
        -- make space: nni_lmq_get + free (with an empty queue the C would free garbage; cap ≥ 1 excludes it)
        let c := match c.q with
          | old :: t => { c with q := t, dropped := c.dropped ++ [old] }
          | [] => c
        (lmqPut c gm, [], true)
      else (lmqPut c gm, [], true)

def arriveList (gm : GMsg) : List Ctx → List Ctx × List Out
  | [] => ([], [])
  | c :: cs =>
    let r := arriveCtx gm c
    let rs := arriveList gm cs
    (r.1 :: rs.1, r.2.1 ++ rs.2)

/-- sub0_ctx_recv -/
def recvCtx (c : Ctx) (a : Nat) (mode : Mode) (now : Nat) : Ctx × List Out :=
  match c.q with
  | [] =>
    match mode with
    | .nb => (c, [Out.done a Err.eagain none false])
    | .ms 0 => (c, [Out.done a Err.etimedout none false])
    | .ms n => ({ c with rq := c.rq ++ [⟨a, some (now + n)⟩] }, [])
    | _ => ({ c with rq := c.rq ++ [⟨a, none⟩] }, [])
  | m :: rest =>
    ({ c with q := rest, got := c.got ++ [m] }, [Out.done a 0 (some ⟨[], m.body⟩) false])

/-- sub0_ctx_cancel (also reached by abort and by the expiry of the aio) -/
def failCtx (a : Nat) (rv : Nat) (c : Ctx) : Ctx × List Out :=
  if c.rq.any (·.aio == a) then
    ({ c with rq := c.rq.filter (·.aio != a) }, [Out.done a rv none false])
  else (c, [])

def isDue (now : Nat) (pk : Parked) : Bool :=
  match pk.deadline with | some d => d < now | none => false

def expireCtx (now : Nat) (c : Ctx) : Ctx × List Out :=
  ({ c with rq := c.rq.filter (fun pk => !isDue now pk) },
   (c.rq.filter (isDue now)).map fun pk => Out.done pk.aio Err.etimedout none false)

/-- sub0_ctx_close: every waiting receive fails with NNG_ECLOSED -/
def closeCtx (c : Ctx) : Ctx × List Out :=
  ({ c with rq := [] }, c.rq.map fun pk => Out.done pk.aio Err.eclosed none false)

/-- sub0_ctx_subscribe -/
def subscribeCtx (c : Ctx) (t : Bytes) : Ctx :=
  if c.topics.any (fun u => topicEq u t) then c else { c with topics := c.topics ++ [t] }

/-- index of the first topic equal to `t` (the search loop of sub0_ctx_unsubscribe) -/
def findTopic (t : Bytes) : List Bytes → Option Nat
  | [] => none
  | u :: us => if topicEq u t then some 0 else (findTopic t us).map (· + 1)

/-- the requeue loop of sub0_ctx_unsubscribe: `k` iterations of get / match / put-or-free -/
def purgeLoop (topics : List Bytes) : Nat → Ctx → Ctx
  | 0, c => c
  | k + 1, c =>
    match c.q with
    | [] => purgeLoop topics k c      -- nni_lmq_get fails (not reached: k ≤ length)
    | m :: rest =>
      let c := { c with q := rest }
      if subMatches topics m.body then purgeLoop topics k (lmqPut c m)
      else purgeLoop topics k { c with dropped := c.dropped ++ [m] }

/-- sub0_ctx_unsubscribe; `none` = NNG_ENOENT -/
def unsubscribeCtx (c : Ctx) (t : Bytes) : Option Ctx :=
  match findTopic t c.topics with
  | none => none
  | some i =>
    let c := { c with topics := c.topics.eraseIdx i }
    some (purgeLoop c.topics c.q.length c)

/-- nni_lmq_resize: the oldest `cap` messages survive -/
def resizeCtx (c : Ctx) (cap : Nat) : Ctx :=
  { c with cap := cap, q := c.q.take cap, dropped := c.dropped ++ c.q.drop cap }

/-- sub0_ctx_set_prefer_new -/
def prefCtx (c : Ctx) (b : Bool) : Ctx := { c with preferNew := b }

/-! ### socket-level plumbing -/

def getPipe (s : State) (p : Nat) : Option Pipe := s.pipes.find? (·.id == p)
def setPipe (s : State) (pp : Pipe) : State :=
  { s with pipes := s.pipes.map fun q => if q.id == pp.id then pp else q }

def closePipe (s : State) (p : Nat) : State × List Out :=
  match getPipe s p with
  | none => (s, [])
  | some pp =>
    if pp.closed then (s, [])
    else (setPipe s { pp with closed := true, armed := false }, [Out.pclosed p])

/-- the context an operation addresses: the socket itself or harness slot `h` -/
def getCtx (s : State) : Option Nat → Option Ctx
  | none => some s.master
  | some h => s.ctxs.find? (·.handle == some h)

/-- replace the context with the same creation number -/
def setCtx (s : State) (c : Ctx) : State :=
  if c.cid == 0 then { s with master := c }
  else { s with ctxs := s.ctxs.map fun x => if x.cid == c.cid then c else x }

/-- apply a per-context action to every context (master first), collecting outputs -/
def mapList (f : Ctx → Ctx × List Out) : List Ctx → List Ctx × List Out
  | [] => ([], [])
  | c :: cs =>
    let r := f c
    let rs := mapList f cs
    (r.1 :: rs.1, r.2 ++ rs.2)

def mapAll (s : State) (f : Ctx → Ctx × List Out) : State × List Out :=
  let m := f s.master
  let r := mapList f s.ctxs
  ({ s with master := m.1, ctxs := r.1 }, m.2 ++ r.2)

def anyParked (s : State) (a : Nat) : Bool :=
  s.master.rq.any (·.aio == a) || s.ctxs.any (fun c => c.rq.any (·.aio == a))

/-- sub0_recv_cb with a message -/
def arrive (s : State) (p : Nat) (b : Bytes) : State × List Out :=
  let gm : GMsg := ⟨s.narrive, p, b⟩
  let m := arriveCtx gm s.master
  let r := arriveList gm s.ctxs
  -- the pollable is raised when the socket's own context queued the message
  ({ s with narrive := s.narrive + 1, arrived := s.arrived ++ [gm], master := m.1, ctxs := r.1,
            readable := m.2.2 || s.readable }, m.2.1 ++ r.2)

def closePipes (s : State) : State × List Out :=
  s.pipes.foldl (fun (acc : State × List Out) pp =>
      let x := closePipe acc.1 pp.id
      (x.1, acc.2 ++ x.2)) (s, [])

def closeAll (s : State) : State × List Out :=
  let x := mapAll s closeCtx
  let y := closePipes x.1
  ({ y.1 with closed := true }, x.2 ++ y.2)

def boolOfInt (v : Int) : Bool := v != 0

/-- sub0_sock_recv / sub0_ctx_recv through the core -/
def opRecv (s : State) (c : Option Nat) (a : Nat) (mode : Mode) : State × List Out :=
  if anyParked s a then (s, [.other "aio-busy"]) else
  match getCtx s c with
  | none => (s, [.done a Err.eclosed none false])
  | some cx =>
    let r := recvCtx cx a mode s.now
    let s' := setCtx s r.1
    -- the pollable is cleared when the socket's own queue runs empty
    let s' := if cx.cid == 0 && !cx.q.isEmpty && r.1.q.isEmpty then { s' with readable := false } else s'
    (s', r.2)

def opSub (s : State) (c : Option Nat) (t : Bytes) : State × List Out :=
  match getCtx s c with
  | none => (s, [.rv Err.eclosed])
  | some cx => (setCtx s (subscribeCtx cx t), [.rv 0])

def opUnsub (s : State) (c : Option Nat) (t : Bytes) : State × List Out :=
  match getCtx s c with
  | none => (s, [.rv Err.eclosed])
  | some cx =>
    match unsubscribeCtx cx t with
    | none => (s, [.rv Err.enoent])
    | some cx' =>
      let s' := setCtx s cx'
      -- fix: the purge may have emptied the socket's own queue
      let s' := if cx.cid == 0 && cx'.q.isEmpty then { s' with readable := false } else s'
      (s', [.rv 0])

def opSetopt (s : State) (c : Option Nat) (name ty : String) (v : Int) : State × List Out :=
  if name == optRecvBuf && ty == "int" then
    match getCtx s c with
    | none => (s, [.rv Err.eclosed])
    | some cx =>
      if v < recvBufMin || v > recvBufMax then (s, [.rv Err.einval])
      else
        let s' := setCtx s (resizeCtx cx v.toNat)
        let s' := if cx.cid == 0 then { s' with recvBufLen := v.toNat } else s'
        (s', [.rv 0])
  else if name == optPrefNew && ty == "bool" then
    match getCtx s c with
    | none => (s, [.rv Err.eclosed])
    | some cx =>
      let s' := setCtx s (prefCtx cx (boolOfInt v))
      let s' := if cx.cid == 0 then { s' with preferNew := boolOfInt v } else s'
      (s', [.rv 0])
  else (s, [.other "unmodelled-option"])

def opGetopt (s : State) (c : Option Nat) (name ty : String) : State × List Out :=
  if name == optRecvBuf && ty == "int" then
    match getCtx s c with
    | none => (s, [.rv2 Err.eclosed 0])
    | some cx => (s, [.rv2 0 cx.cap])
  else if name == optPrefNew && ty == "bool" then
    match getCtx s c with
    | none => (s, [.rv2 Err.eclosed 0])
    | some cx => (s, [.rv2 0 (if cx.preferNew then 1 else 0)])
  else (s, [.other "unmodelled-option"])

/-- nng_ctx_open → sub0_ctx_init: the new context inherits the socket's current buffer
    depth and prefer_new; a harness slot that is re-used orphans its previous context -/
def opCtxOpen (s : State) (h : Nat) : State × List Out :=
  let c : Ctx := { cid := s.nctx + 1, handle := some h, cap := s.recvBufLen, preferNew := s.preferNew }
  let old := s.ctxs.map fun x => if x.handle == some h then { x with handle := none } else x
  ({ s with nctx := s.nctx + 1, ctxs := old ++ [c] }, [.rv 0])

/-- nng_ctx_close → sub0_ctx_close + sub0_ctx_fini -/
def opCtxClose (s : State) (h : Nat) : State × List Out :=
  match getCtx s (some h) with
  | none => (s, [.rv (-1)])
  | some cx =>
    let r := closeCtx cx
    let cx' := { r.1 with dropped := r.1.dropped ++ r.1.q, q := [] }
    ({ s with ctxs := s.ctxs.filter (·.cid != cx.cid), dead := s.dead ++ [cx'] }, r.2 ++ [.rv 0])

def opRecvDone (s : State) (p : Nat) (r : Except Nat Bytes) : State × List Out :=
  match getPipe s p with
  | some pp =>
    if pp.closed || !pp.armed then (s, [.rv (-1)])
    else
      match r with
      | .error _ => let x := closePipe s p; (x.1, [.rv 0] ++ x.2)
      | .ok b => let x := arrive s p b; (x.1, [.rv 0] ++ x.2 ++ [.parm p])
  | none => (s, [.rv (-1)])

def opPipeAdd (s : State) (peer : Nat) : State × List Out :=
  let id := s.pipes.length
  if peer != peerPub then
    ({ s with pipes := s.pipes ++ [{ id := id, closed := true }] }, [.pipe id, .pclosed id])
  else
    ({ s with pipes := s.pipes ++ [{ id := id, armed := true }] }, [.pipe id, .parm id])

def opPipeDrop (s : State) (p : Nat) : State × List Out :=
  match getPipe s p with
  | some pp =>
    if pp.closed then (s, [.rv (-1)])
    else let x := closePipe s p; (x.1, [.rv 0] ++ x.2)
  | none => (s, [.rv (-1)])

def opSend (s : State) (c : Option Nat) (a : Nat) : State × List Out :=
  if anyParked s a then (s, [.other "aio-busy"]) else
  match getCtx s c with
  | some _ => (s, [.done a Err.enotsup none true])
  | none => (s, [.done a Err.eclosed none true])

/-- one event on an open socket -/
def stepOpen (s : State) (ev : Ev) : State × List Out :=
  match ev with
  | .openSock _ _ => (s, [.other "bad-op"])
  | .pipeAdd peer => opPipeAdd s peer
  | .pipeDrop p => opPipeDrop s p
  | .sendDone _ _ => (s, [.rv (-1)])
  | .recvDone p r => opRecvDone s p r
  | .send c a _ _ => opSend s c a
  | .recv c a mode => opRecv s c a mode
  | .cancel a => mapAll s (failCtx a Err.ecanceled)
  | .abort a rv => mapAll s (failCtx a rv)
  | .advance ms => mapAll { s with now := s.now + ms } (expireCtx (s.now + ms))
  | .ctxOpen h => opCtxOpen s h
  | .ctxClose h => opCtxClose s h
  | .setopt c name ty v => opSetopt s c name ty v
  | .getopt c name ty => opGetopt s c name ty
  | .poll => (s, [.poll (some s.readable) none])
  | .sub c t => opSub s c t
  | .unsub c t => opUnsub s c t
  | .close => closeAll s

/-- nng_sub0_open: the socket-level context is created with the defaults -/
def openState (s : State) : State :=
  { s with opened := true, recvBufLen := Nng.Generated.c05SubRecvBufDefault,
           preferNew := Nng.Generated.c05SubPreferNewDefault,
           master := { cap := Nng.Generated.c05SubRecvBufDefault, preferNew := Nng.Generated.c05SubPreferNewDefault } }

def step (s : State) (ev : Ev) : State × List Out :=
  if !s.opened then
    match ev with
    | .openSock _ _ => (openState s, [.rv 0])
    | .advance ms => ({ s with now := s.now + ms }, [])
    | _ => (s, [.other "nosock"])
  else if s.closed then
    match ev with
    | .advance ms => ({ s with now := s.now + ms }, [])
    | _ => (s, [.other "nosock"])
  else stepOpen s ev

def run (s : State) : List Ev → State × List (List Out)
  | [] => (s, [])
  | e :: es =>
    let (s', o) := step s e
    let (s'', os) := run s' es
    (s'', o :: os)

end Nng.Sub
