/-
  Executable model of src/sp/protocol/pubsub0/pub.c (cooked and raw: same code) as seen
  through the socket core.  Every pipe has its own send queue (nni_lmq, modelled as a
  bounded FIFO) sized from `sock->sendbuf` when the pipe is created and resized, for all
  started pipes, by NNG_OPT_SENDBUF.  A send walks the pipe list: an idle pipe gets the
  message at once, a busy one queues it, dropping its OLDEST queued message when the
  queue is full.  The send aio always completes with 0 in the same step.

  The model mirrors the FIXED code (integration/fixes/pub-send-clears-aio-msg.patch):
  pub0_sock_send detaches the message from the aio before completing it.
-/
import NngModel.Proto.Base
import NngModel.Generated.C05
namespace Nng.Pub
open Nng Nng.Proto

structure GMsg where
  gid : Nat          -- ghost: number of the send operation
  m : WMsg
deriving Repr, DecidableEq, Inhabited

structure Pipe where
  id : Nat
  closed : Bool := false
  listed : Bool := false          -- on sock->pipes (pub0_pipe_start succeeded, not yet closed)
  armed : Bool := false           -- receive posted on the transport
  busy : Option GMsg := none      -- message handed to the transport, send not yet completed
  cap : Nat := 0
  q : List GMsg := []
  -- ghost history
  wire : List GMsg := []          -- handed to the transport on this pipe, in order
  offered : List GMsg := []       -- published while the pipe was on the list
  dropped : List GMsg := []       -- discarded from the queue (full, shrink, pipe close)
deriving Repr, DecidableEq, Inhabited

structure State where
  opened : Bool := false
  closed : Bool := false
  sendbuf : Nat := 0
  pipes : List Pipe := []         -- all pipes ever created, by id; sock->pipes = the `listed` ones, same order
  now : Nat := 0
  nsend : Nat := 0
  published : List GMsg := []     -- ghost: sends completed with 0
deriving Repr, Inhabited

def peerSub : Nat := Nng.Generated.c05ProtoSub
def sendBufMin : Nat := Nng.Generated.c05PubSendBufMin
def sendBufMax : Nat := Nng.Generated.c05PubSendBufMax
def optSendBuf : String := Nng.Generated.c05OptSendBuf

def lmqFull (p : Pipe) : Bool := p.q.length ≥ p.cap

/-- nni_lmq_put (result ignored by the caller) -/
def lmqPut (p : Pipe) (m : GMsg) : Pipe :=
  if p.q.length ≥ p.cap then p else { p with q := p.q ++ [m] }

/-- body of the loop in pub0_sock_send for one pipe -/
def sendPipe (gm : GMsg) (p : Pipe) : Pipe × List Out :=
  if !p.listed then (p, [])
  else
    let p := { p with offered := p.offered ++ [gm] }
    match p.busy with
    | some _ =>
      let p := if lmqFull p then
          match p.q with
          | old :: t => { p with q := t, dropped := p.dropped ++ [old] }
          | [] => p
        else p
      (lmqPut p gm, [])
    | none =>
      ({ p with busy := some gm, wire := p.wire ++ [gm] }, [Out.psend p.id gm.m])

def sendList (gm : GMsg) : List Pipe → List Pipe × List Out
  | [] => ([], [])
  | p :: ps =>
    let r := sendPipe gm p
    let rs := sendList gm ps
    (r.1 :: rs.1, r.2 ++ rs.2)

def getPipe (s : State) (p : Nat) : Option Pipe := s.pipes.find? (·.id == p)
def setPipe (s : State) (pp : Pipe) : State :=
  { s with pipes := s.pipes.map fun q => if q.id == pp.id then pp else q }

/-- pub0_pipe_close: flush the queue, leave the list; the message in flight is freed by
    pub0_pipe_send_cb's error branch -/
def closePipeP (p : Pipe) : Pipe × List Out :=
  if p.closed then (p, [])
  else
    ({ p with closed := true, listed := false, armed := false, busy := none, q := [],
              dropped := p.dropped ++ p.q }, [Out.pclosed p.id])

def closePipe (s : State) (p : Nat) : State × List Out :=
  match getPipe s p with
  | none => (s, [])
  | some pp => let r := closePipeP pp; (setPipe s r.1, r.2)

/-- pub0_pipe_send_cb, success branch -/
def sendDonePipe (p : Pipe) : Pipe × List Out :=
  match p.q with
  | m :: rest => ({ p with q := rest, busy := some m, wire := p.wire ++ [m] }, [Out.psend p.id m.m])
  | [] => ({ p with busy := none }, [])

/-- nni_lmq_resize on a listed pipe: the oldest `cap` messages survive -/
def resizePipe (cap : Nat) (p : Pipe) : Pipe :=
  if p.listed then { p with cap := cap, q := p.q.take cap, dropped := p.dropped ++ p.q.drop cap } else p

def closeList : List Pipe → List Pipe × List Out
  | [] => ([], [])
  | p :: ps =>
    let r := closePipeP p
    let rs := closeList ps
    (r.1 :: rs.1, r.2 ++ rs.2)

def opPipeAdd (s : State) (peer : Nat) : State × List Out :=
  let id := s.pipes.length
  if peer != peerSub then
    -- pub0_pipe_start rejects the peer before the pipe joins the list
    ({ s with pipes := s.pipes ++ [{ id := id, closed := true, cap := s.sendbuf }] }, [.pipe id, .pclosed id])
  else
    ({ s with pipes := s.pipes ++ [{ id := id, listed := true, armed := true, cap := s.sendbuf }] }, [.pipe id, .parm id])

def opPipeDrop (s : State) (p : Nat) : State × List Out :=
  match getPipe s p with
  | some pp =>
    if pp.closed then (s, [.rv (-1)])
    else let x := closePipe s p; (x.1, [.rv 0] ++ x.2)
  | none => (s, [.rv (-1)])

/-- pub0_pipe_send_cb -/
def opSendDone (s : State) (p : Nat) (rv : Nat) : State × List Out :=
  match getPipe s p with
  | some pp =>
    match pp.busy with
    | some _ =>
      if pp.closed then (s, [.rv (-1)])
      else if rv != 0 then
        let x := closePipe s p
        (x.1, [.rv 0] ++ x.2)
      else
        let r := sendDonePipe pp
        (setPipe s r.1, [.rv 0] ++ r.2)
    | none => (s, [.rv (-1)])
  | none => (s, [.rv (-1)])

/-- pub0_pipe_recv_cb: whatever arrives, the pipe is closed -/
def opRecvDone (s : State) (p : Nat) : State × List Out :=
  match getPipe s p with
  | some pp =>
    if pp.closed || !pp.armed then (s, [.rv (-1)])
    else let x := closePipe s p; (x.1, [.rv 0] ++ x.2)
  | none => (s, [.rv (-1)])

/-- pub0_sock_send: walk the pipe list, then complete the aio with 0 — no branch parks it -/
def opSend (s : State) (c : Option Nat) (a : Nat) (m : WMsg) : State × List Out :=
  match c with
  | some _ => (s, [.done a Err.eclosed none true])     -- PUB has no contexts: the handle is never valid
  | none =>
    let gm : GMsg := ⟨s.nsend, m⟩
    let r := sendList gm s.pipes
    ({ s with nsend := s.nsend + 1, pipes := r.1, published := s.published ++ [gm] },
     r.2 ++ [.done a 0 none false])

def opSetopt (s : State) (c : Option Nat) (name ty : String) (v : Int) : State × List Out :=
  if name == optSendBuf && ty == "int" && c.isNone then
    if v < sendBufMin || v > sendBufMax then (s, [.rv Err.einval])
    else ({ s with sendbuf := v.toNat, pipes := s.pipes.map (resizePipe v.toNat) }, [.rv 0])
  else (s, [.other "unmodelled-option"])

def stepOpen (s : State) (ev : Ev) : State × List Out :=
  match ev with
  | .openSock _ _ => (s, [.other "bad-op"])
  | .pipeAdd peer => opPipeAdd s peer
  | .pipeDrop p => opPipeDrop s p
  | .sendDone p rv => opSendDone s p rv
  | .recvDone p _ => opRecvDone s p
  | .send c a m _ => opSend s c a m
  | .recv c a _ =>
    match c with
    | some _ => (s, [.done a Err.eclosed none false])
    | none => (s, [.done a Err.enotsup none false])
  | .cancel _ => (s, [])
  | .abort _ _ => (s, [])
  | .advance ms => ({ s with now := s.now + ms }, [])
  | .ctxOpen _ => (s, [.rv Err.enotsup])
  | .ctxClose _ => (s, [.rv (-1)])
  | .setopt c name ty v => opSetopt s c name ty v
  | .getopt c name ty =>
    if name == optSendBuf && ty == "int" && c.isNone then (s, [.rv2 0 s.sendbuf])
    else (s, [.other "unmodelled-option"])
  | .poll => (s, [.poll none (some true)])      -- pub0_sock_get_sendfd raises the pollable on every query
  | .sub c _ => (s, [.rv (if c.isNone then Err.enotsup else Err.eclosed)])
  | .unsub c _ => (s, [.rv (if c.isNone then Err.enotsup else Err.eclosed)])
  | .close =>
    let r := closeList s.pipes
    ({ s with closed := true, pipes := r.1 }, r.2)

def step (s : State) (ev : Ev) : State × List Out :=
  if !s.opened then
    match ev with
    | .openSock _ _ => ({ s with opened := true, sendbuf := Nng.Generated.c05PubSendBufDefault }, [.rv 0])
    | .advance ms => ({ s with now := s.now + ms }, [])
    | _ => (s, [.other "nosock"])
  else if s.closed then
    match ev with
    | .advance ms => ({ s with now := s.now + ms }, [])
    | _ => (s, [.other "nosock"])
  else stepOpen s ev

def run (s : State) : List Ev → State × List (List Out)
  | [] => (s, [])
  | e :: es =>
    let (s', o) := step s e
    let (s'', os) := run s' es
    (s'', o :: os)

end Nng.Pub
