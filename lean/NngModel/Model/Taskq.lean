/- Model of src/core/taskq.c: ONE nni_task on a task queue with W worker threads
   (nni_taskq_thread) and any number of client threads, as a small-step interleaving semantics.

   One step = one mutex-protected critical section of taskq.c, exactly as the code delimits them
   (task_mtx sections and tq_mtx sections are different steps), or the begin / the end of the
   task callback, which runs OUTSIDE every lock.  Condition variables are explicit: a thread that
   calls nni_cv_wait is parked (`sleep` / `waitSleep`) until a nni_cv_wake / nni_cv_wake1 on
   that condition variable moves it on; it then re-acquires the mutex and re-evaluates its loop
   condition, which is a step of its own.  A schedule is a list of thread choices; choosing a
   parked or finished thread is a stutter step.

   shared state of the C code                         here
   task->task_busy (unsigned)                         busy   (ghost `under`: a decrement found 0)
   task->task_prep                                    prep
   task on tq->tq_tasks                               onq    (nni_list_append of a node that is
                                                             already linked calls nni_panic: `panic`)
   task->task_cb == NULL                              parameter `hasCb = false`
   tq->tq_run                                         constant true (nni_taskq_fini while tasks are
                                                             in use is "undefined" by taskq.h)
   waiters of tq_sched_cv                             workers with pc `sleep`
   waiters of task_cv                                 clients with pc `waitSleep`
   (nobody waits on tq_wait_cv here: nni_taskq_drain is not modelled; the worker's wake of it is a no-op)

   There is no nni_task_abort / nni_task_cancel in this tree: a dispatched task cannot be
   withdrawn, so "aborted before it started" does not exist at this layer.

   Ghost counters (what an outside observer can count): `sd`/`sx` dispatch / exec calls that have
   executed their first critical section, `pr` prep calls, `bw`/`bx` callbacks begun on a worker /
   inside nni_task_exec, `ce` callbacks returned, `dn` completions accounted (the decrement after
   the callback), `owed` preps not yet consumed by a dispatch/exec. -/
import NngModel.Spec.Taskq
namespace Nng.Taskq
open Nng.TaskqSpec

inductive Op
  | prep | dispatch | exec | wait | busy
  deriving DecidableEq, Repr, Inhabited

/-- program counter of a client thread -/
inductive CPc
  | idle        -- between two calls: next = the first nni_mtx_lock(&task->task_mtx) of the head op
  | dispEnq     -- nni_task_dispatch: task_mtx section done; next: the tq_mtx section (append, wake1)
  | execPop     -- nni_task_exec: first section done, mutex released; next: task_cb(task_arg) begins
  | execCb      -- inside the callback; next: it returns
  | execAfter   -- callback returned; next: lock, task_busy--, wake if 0, unlock
  | waitSleep   -- nni_task_wait: inside nni_cv_wait(&task->task_cv)
  | waitChk     -- nni_task_wait: woken; next: re-acquire task_mtx and re-test `while (task->task_busy)`
  deriving DecidableEq, Repr, Inhabited

structure Client where
  pc : CPc
  prog : List Op
  res : List Res
  deriving DecidableEq, Repr, Inhabited

/-- program counter of a worker thread (nni_taskq_thread) -/
inductive WPc
  | ready    -- wants tq_mtx (first entry, after finishing a task, or woken from tq_sched_cv)
  | sleep    -- inside nni_cv_wait(&tq->tq_sched_cv)
  | popped   -- removed the task from tq_tasks, released tq_mtx; next: task_cb(task_arg) begins
  | inCb     -- inside the callback; next: it returns
  | after    -- callback returned; next: lock task_mtx, task_busy--, wake if 0, unlock
  deriving DecidableEq, Repr, Inhabited

structure State where
  busy : Nat
  prep : Bool
  onq : Bool
  panic : Bool
  ws : List WPc
  cs : List Client
  -- ghost
  under : Bool
  owed : Nat
  sd : Nat
  sx : Nat
  pr : Nat
  bw : Nat
  bx : Nat
  ce : Nat
  dn : Nat
  deriving DecidableEq, Repr

/-- first critical section of nni_task_dispatch and of nni_task_exec:
      if (task->task_prep) { task->task_prep = false; } else { task->task_busy++; } -/
def take (s : State) : State :=
  if s.prep then { s with prep := false, owed := s.owed - 1 } else { s with busy := s.busy + 1 }

/-- nni_cv_wake(&task->task_cv) -/
def wakeAll (cs : List Client) : List Client :=
  cs.map fun c => if c.pc = .waitSleep then { c with pc := .waitChk } else c

/-- task->task_busy--; if (task->task_busy == 0) { nni_cv_wake(&task->task_cv); }
    (the counter is unsigned: after the decrement it is 0 exactly if it was 1) -/
def decBusy (s : State) : State :=
  { s with busy := s.busy - 1, under := s.under || s.busy == 0, dn := s.dn + 1,
           cs := if s.busy == 1 then wakeAll s.cs else s.cs }

def wakeFirst : List WPc → List WPc
  | [] => []
  | .sleep :: r => .ready :: r
  | w :: r => w :: wakeFirst r

/-- nni_cv_wake1(&tq->tq_sched_cv): one waiter, if there is any; which one is the scheduler's
    choice (`pick`, falling back to the first) -/
def wakeOne (ws : List WPc) (pick : Nat) : List WPc :=
  if ws[pick]? = some .sleep then ws.set pick .ready else wakeFirst ws

/-- one step of client `i` (whose record is `c`) -/
def cstep (hasCb : Bool) (s : State) (i : Nat) (c : Client) (pick : Nat) : State :=
  match c.pc with
  | .idle =>
    match c.prog with
    | [] => s
    | .prep :: r =>
      -- nni_task_prep: task_busy++; task_prep = true;
      { s with busy := s.busy + 1, prep := true, owed := s.owed + 1, pr := s.pr + 1,
               cs := s.cs.set i { c with prog := r } }
    | .dispatch :: r =>
      if hasCb then
        { take s with sd := s.sd + 1, cs := s.cs.set i { c with pc := .dispEnq, prog := r } }
      else
        -- if (task->task_cb == NULL) { nni_task_exec(task); return; }  -- one task_mtx section
        decBusy { take s with sd := s.sd + 1, bw := s.bw + 1, ce := s.ce + 1,
                              cs := s.cs.set i { c with prog := r } }
    | .exec :: r =>
      if hasCb then
        { take s with sx := s.sx + 1, cs := s.cs.set i { c with pc := .execPop, prog := r } }
      else
        decBusy { take s with sx := s.sx + 1, bx := s.bx + 1, ce := s.ce + 1,
                              cs := s.cs.set i { c with prog := r } }
    | .wait :: r =>
      -- nni_mtx_lock; while (task->task_busy) { nni_cv_wait(&task->task_cv); } nni_mtx_unlock
      if s.busy = 0 then { s with cs := s.cs.set i { c with prog := r, res := c.res ++ [.waited] } }
      else { s with cs := s.cs.set i { c with pc := .waitSleep, prog := r } }
    | .busy :: r =>
      { s with cs := s.cs.set i { c with prog := r, res := c.res ++ [.busy (s.busy != 0)] } }
  | .dispEnq =>
    -- nni_mtx_lock(&tq->tq_mtx); nni_list_append(&tq->tq_tasks, task); nni_cv_wake1(&tq->tq_sched_cv); unlock
    if s.onq then { s with panic := true }
    else { s with onq := true, ws := wakeOne s.ws pick, cs := s.cs.set i { c with pc := .idle } }
  | .execPop => { s with bx := s.bx + 1, cs := s.cs.set i { c with pc := .execCb } }
  | .execCb => { s with ce := s.ce + 1, cs := s.cs.set i { c with pc := .execAfter } }
  | .execAfter => decBusy { s with cs := s.cs.set i { c with pc := .idle } }
  | .waitSleep => s
  | .waitChk =>
    if s.busy = 0 then { s with cs := s.cs.set i { c with pc := .idle, res := c.res ++ [.waited] } }
    else { s with cs := s.cs.set i { c with pc := .waitSleep } }

/-- one step of worker `j` (whose pc is `w`) -/
def wstep (s : State) (j : Nat) (w : WPc) : State :=
  match w with
  | .ready =>
    -- (holding tq_mtx) if ((task = nni_list_first(&tq->tq_tasks)) != NULL) { remove; unlock; ...
    if s.onq then { s with onq := false, ws := s.ws.set j .popped }
    -- ... } nni_cv_wake(&tq->tq_wait_cv); if (!tq->tq_run) break; nni_cv_wait(&tq->tq_sched_cv);
    else { s with ws := s.ws.set j .sleep }
  | .sleep => s
  | .popped => { s with bw := s.bw + 1, ws := s.ws.set j .inCb }
  | .inCb => { s with ce := s.ce + 1, ws := s.ws.set j .after }
  | .after => decBusy { s with ws := s.ws.set j .ready }

inductive Tid
  | w (j : Nat)
  | c (i : Nat)
  deriving DecidableEq, Repr, Inhabited

/-- a scheduling decision: which thread performs its next step; `pick` is consulted only if that
    step is the nni_cv_wake1 of nni_task_dispatch -/
structure Choice where
  tid : Tid
  pick : Nat := 0
  deriving DecidableEq, Repr, Inhabited

/-- total: after nni_panic nothing moves; a parked, finished or non-existent thread stutters -/
def step (hasCb : Bool) (s : State) (ch : Choice) : State :=
  if s.panic then s else
  match ch.tid with
  | .w j => match s.ws[j]? with
    | none => s
    | some w => wstep s j w
  | .c i => match s.cs[i]? with
    | none => s
    | some c => cstep hasCb s i c ch.pick

def run (hasCb : Bool) (s : State) (sched : List Choice) : State :=
  sched.foldl (step hasCb) s

/-- nni_taskq_init with `nw` threads (all at the head of their loop), nni_task_init, one client
    thread per program -/
def init (nw : Nat) (progs : List (List Op)) : State :=
  { busy := 0, prep := false, onq := false, panic := false,
    ws := List.replicate nw .ready, cs := progs.map fun p => ⟨.idle, p, []⟩,
    under := false, owed := 0, sd := 0, sx := 0, pr := 0, bw := 0, bx := 0, ce := 0, dn := 0 }

def Client.enabled (c : Client) : Bool :=
  match c.pc with
  | .idle => !c.prog.isEmpty
  | .waitSleep => false
  | _ => true

def WPc.enabled : WPc → Bool
  | .sleep => false
  | _ => true

/-- the chosen thread exists and can move -/
def enabled (s : State) (ch : Choice) : Bool :=
  !s.panic &&
  match ch.tid with
  | .w j => match s.ws[j]? with
    | some w => w.enabled
    | none => false
  | .c i => match s.cs[i]? with
    | some c => c.enabled
    | none => false

def Client.finished (c : Client) : Bool := c.pc == .idle && c.prog.isEmpty

/-- some thread can move -/
def State.live (s : State) : Bool :=
  !s.panic && (s.ws.any WPc.enabled || s.cs.any Client.enabled)

/-- the trace of states visited (after each step) -/
def trace (hasCb : Bool) (s : State) : List Choice → List State
  | [] => []
  | c :: cs => step hasCb s c :: trace hasCb (step hasCb s c) cs

/-! ### the contract of the task layer (what its one user, aio.c, and that layer's users observe) -/

/-- may client choice `ch` be made in `s`?  Only the FIRST step of a call is constrained:
    K1 nni_task_dispatch is called only when every earlier dispatch's callback has begun
       (`sd = bw`; until then the task may still be on the run list, and appending it again panics);
    K2 nni_task_prep is called only when no earlier prep is still unconsumed (`owed = 0`;
       task_prep is ONE bit: a second prep is counted in task_busy but never given back). -/
def allowed (s : State) (ch : Choice) : Bool :=
  match ch.tid with
  | .w _ => true
  | .c i => match s.cs[i]? with
    | none => true
    | some c =>
      match c.pc, c.prog with
      | .idle, .dispatch :: _ => s.sd == s.bw
      | .idle, .prep :: _ => s.owed == 0
      | _, _ => true

def respects (hasCb : Bool) (s : State) : List Choice → Bool
  | [] => true
  | ch :: rest => allowed s ch && respects hasCb (step hasCb s ch) rest

/-- the stronger discipline under which callbacks do not overlap: a dispatch/exec is issued only
    when every earlier one's callback has returned -/
def allowedSerial (s : State) (ch : Choice) : Bool :=
  allowed s ch &&
  match ch.tid with
  | .w _ => true
  | .c i => match s.cs[i]? with
    | none => true
    | some c =>
      match c.pc, c.prog with
      | .idle, .dispatch :: _ => s.sd + s.sx == s.ce
      | .idle, .exec :: _ => s.sd + s.sx == s.ce
      | _, _ => true

def respectsSerial (hasCb : Bool) (s : State) : List Choice → Bool
  | [] => true
  | ch :: rest => allowedSerial s ch && respectsSerial hasCb (step hasCb s ch) rest

end Nng.Taskq
