/-
  Executable model of src/sp/protocol/survey0/respond.c (cooked RESPONDENT) as seen
  through the socket core.  One step per harness event, sub-actions in the order of the C
  callbacks (each under `s->mtx`).

  A pipe whose survey nobody is waiting for keeps it (`held`, the message stays in the
  pipe's receive aio) and is not re-armed; `recvpipes` lists such pipes.  A context saves
  the backtrace and pipe of the survey it received (`btrace`, `pipeId`), a send consumes
  them.  The send path mirrors the code as it is: nni_aio_start comes first, so a zero-timeout
  send fails at once whatever the state (F8, an open finding of C15); it refuses a second send while the
  context's previous response is still parked (R1), clears the receive pollable when the
  last receivable pipe is lost (R2) and keeps the send pollable equal to "the pipe of the
  socket's pending survey is idle" when a survey is taken and when a response goes out (R3).
-/
import NngModel.Proto.Base
import NngModel.Generated.Base
import NngModel.Generated.C07
namespace Nng.Respond
open Nng Nng.Proto

structure PSend where
  aio : Nat
  m : WMsg               -- header = backtrace already prepended
  deadline : Option Nat
  pipe : Nat
  exp : Option (Nat × Bytes)   -- ghost: the context's `last` when the send was submitted
deriving Repr, DecidableEq, Inhabited

structure PRecv where
  aio : Nat
  deadline : Option Nat
deriving Repr, DecidableEq, Inhabited

structure Ctx where
  key : Option Nat
  btrace : Bytes := []            -- btrace_len = btrace.length; [] = no survey pending
  pipeId : Option Nat := none
  saio : Option PSend := none
  raio : Option PRecv := none
  -- ghost: pipe and backtrace of the most recent survey handed to this context
  last : Option (Nat × Bytes) := none
deriving Repr, DecidableEq, Inhabited

structure Pipe where
  id : Nat
  closed : Bool := false
  busy : Bool := false
  armed : Bool := false
  held : Option WMsg := none      -- parsed survey (header = backtrace) waiting in aio_recv
  sendq : List (Option Nat) := [] -- contexts waiting to send on this pipe
deriving Repr, DecidableEq, Inhabited

/-- ghost record of one response handed to the transport -/
structure Wire where
  pipe : Nat
  m : WMsg
  ctx : Option Nat
  expected : Option (Nat × Bytes)   -- the context's `last` when the send was submitted
  direct : Bool                     -- handed over by the send call itself (not after waiting for the pipe)
deriving Repr, DecidableEq, Inhabited

structure State where
  opened : Bool := false
  closed : Bool := false
  ctxs : List Ctx := []
  pipes : List Pipe := []
  recvpipes : List Nat := []
  recvq : List (Option Nat) := []
  ttl : Nat := 0
  now : Nat := 0
  readable : Bool := false
  writable : Bool := false
  -- ghost
  wire : List Wire := []
deriving Repr, Inhabited

def peerSurv : Nat := Nng.Generated.respProtoPeer
def maxCtx : Nat := 8

def getCtx (s : State) (k : Option Nat) : Option Ctx := s.ctxs.find? (·.key == k)
def setCtx (s : State) (c : Ctx) : State :=
  { s with ctxs := s.ctxs.map fun q => if q.key == c.key then c else q }
def getPipe (s : State) (p : Nat) : Option Pipe := s.pipes.find? (·.id == p)
def setPipe (s : State) (pp : Pipe) : State :=
  { s with pipes := s.pipes.map fun q => if q.id == pp.id then pp else q }

/-- nni_id_get(&s->pipes, pid): pipes are registered from pipe_start to pipe_close -/
def livePipe (s : State) (pid : Option Nat) : Option Pipe :=
  match pid with
  | none => none
  | some p => match getPipe s p with
    | some pp => if pp.closed then none else some pp
    | none => none

inductive Bt | drop | garbage | ok (hdr body : Bytes)
deriving Repr, DecidableEq

/-- the backtrace loop of resp0_pipe_recv_cb: `fuel` = hops still allowed (ttl) -/
def splitBt : Nat → Bytes → Bytes → Bt
  | 0, _, _ => .drop
  | n + 1, hdr, body =>
    if body.length < 4 then .garbage
    else
      let w := body.take 4
      let hdr' := hdr ++ w
      if (w.headD 0).toNat ≥ 128 then .ok hdr' (body.drop 4)
      else splitBt n hdr' (body.drop 4)

def sockPipeId (s : State) : Option Nat := (getCtx s none).bind (·.pipeId)

def raiseWritableIf (s : State) (b : Bool) : State := if b then { s with writable := true } else s

/-- the socket context took a survey from a pipe: sendable iff that pipe is idle -/
def setWritableFor (s : State) (k : Option Nat) (busy : Bool) : State :=
  if k == none then { s with writable := !busy } else s

/-- the pipe is no longer receivable; the receive pollable follows the list -/
def dropRecvPipe (s : State) (p : Nat) : State :=
  if s.recvpipes.contains p then
    { s with recvpipes := s.recvpipes.filter (· != p),
             readable := if (s.recvpipes.filter (· != p)).isEmpty then false else s.readable }
  else s

/-- resp0_pipe_close -/
def closePipe (s : State) (p : Nat) : State × List Out :=
  match getPipe s p with
  | none => (s, [])
  | some pp =>
    if pp.closed then (s, [])
    else
      let s := dropRecvPipe s p
      -- responses waiting for this pipe are discarded, their sends succeed
      let outs := pp.sendq.filterMap fun k =>
        match getCtx s k with
        | some c => c.saio.map fun ps => Out.done ps.aio 0 none false
        | none => none
      let s := { s with ctxs := s.ctxs.map fun c => if pp.sendq.contains c.key then { c with saio := none } else c }
      let s := raiseWritableIf s (sockPipeId s == some p)
      let s := setPipe s { pp with closed := true, busy := false, armed := false, held := none, sendq := [] }
      (s, outs ++ [Out.pclosed p])

def deadlineOf (now : Nat) : Mode → Option Nat
  | .ms n => some (now + n)
  | _ => none

def zeroRv : Mode → Option Nat
  | .nb => some Err.eagain
  | .ms 0 => some Err.etimedout
  | _ => none

/-- give the survey `wm` (header = backtrace) from pipe `p` to context `c` -/
def takeSurvey (c : Ctx) (p : Nat) (wm : WMsg) : Ctx :=
  { c with btrace := wm.hdr, pipeId := some p, last := some (p, wm.hdr) }

/-- resp0_pipe_recv_cb after the backtrace was split off -/
def pipeRecv (s : State) (pp : Pipe) (wm : WMsg) : State × List Out :=
  match s.recvq with
  | [] =>
    let s := setPipe s { pp with armed := false, held := some wm }
    ({ s with recvpipes := s.recvpipes ++ [pp.id], readable := true }, [Out.rv 0])
  | k :: rest =>
    match getCtx s k with
    | none => (s, [Out.other "model-invariant-broken"])
    | some c =>
      match c.raio with
      | none => (s, [Out.other "model-invariant-broken"])
      | some pr =>
        let s := { s with recvq := rest }
        let s := setCtx s (takeSurvey { c with raio := none } pp.id wm)
        let s := setWritableFor s k pp.busy
        (s, [Out.rv 0, Out.parm pp.id, Out.done pr.aio 0 (some ⟨[], wm.body⟩) false])

/-- resp0_ctx_recv -/
def ctxRecv (s : State) (c : Ctx) (a : Nat) (mode : Mode) : State × List Out :=
  match s.recvpipes with
  | [] =>
    match zeroRv mode with
    | some rv => (s, [Out.done a rv none false])       -- nni_aio_start fails first
    | none =>
      if c.raio.isSome then (s, [Out.done a Err.estate none false])
      else
        let s := setCtx s { c with raio := some ⟨a, deadlineOf s.now mode⟩ }
        ({ s with recvq := s.recvq ++ [c.key] }, [])
  | p :: rest =>
    match getPipe s p with
    | none => (s, [Out.other "model-invariant-broken"])
    | some pp =>
      match pp.held with
      | none => (s, [Out.other "model-invariant-broken"])
      | some wm =>
        let s := { s with recvpipes := rest }
        let s := if rest.isEmpty then { s with readable := false } else s
        let s := setPipe s { pp with held := none, armed := true }
        let s := setCtx s (takeSurvey c p wm)
        let s := setWritableFor s c.key pp.busy
        (s, [Out.parm p, Out.done a 0 (some ⟨[], wm.body⟩) false])

/-- the idle pipe `pp` takes a response: it becomes busy, and if the socket's own pending
    survey came from the same pipe the socket is not sendable until the pipe is idle again -/
def handOver (s : State) (pp : Pipe) (w : Wire) : State :=
  let s := setPipe s { pp with busy := true }
  let s := if sockPipeId s == some pp.id then { s with writable := false } else s
  { s with wire := s.wire ++ [w] }

/-- resp0_ctx_send, in the order of the code as it is (F8 open): the socket context's send
    pollable is cleared first, then nni_aio_start runs — with a zero timeout it fails there and
    then (NNG_ETIMEDOUT, which the non-blocking call reports as NNG_EAGAIN), before any look at
    the protocol state — then the "previous response still parked" test (R1), the "no pending
    survey" test, and the hand-over -/
def ctxSend (s : State) (c : Ctx) (a : Nat) (m : WMsg) (mode : Mode) : State × List Out :=
  let s := if c.key == none then { s with writable := false } else s
  match zeroRv mode with
  | some rv => (s, [Out.done a rv none true])
  | none =>
  if c.saio.isSome then (s, [Out.done a Err.estate none true])
  else if c.btrace.isEmpty then (s, [Out.done a Err.estate none true])
  else
    let wm : WMsg := ⟨c.btrace, m.body⟩
    let c1 : Ctx := { c with btrace := [], pipeId := none }
    let s := setCtx s c1
    match livePipe s c.pipeId with
    | none => (s, [Out.done a 0 none false])          -- surveyor has left: discard
    | some pp =>
      if !pp.busy then
        (handOver s pp ⟨pp.id, wm, c.key, c.last, true⟩, [Out.psend pp.id wm, Out.done a 0 none false])
      else
        let s := setCtx s { c1 with saio := some ⟨a, wm, deadlineOf s.now mode, pp.id, c.last⟩ }
        (setPipe s { pp with sendq := pp.sendq ++ [c.key] }, [])

/-- resp0_pipe_send_cb with a successful result -/
def pipeSent (s : State) (pp : Pipe) : State × List Out :=
  match pp.sendq with
  | [] =>
    let s := setPipe s { pp with busy := false }
    (raiseWritableIf s (sockPipeId s == some pp.id), [Out.rv 0])
  | k :: rest =>
    match getCtx s k with
    | none => (s, [Out.other "model-invariant-broken"])
    | some c =>
      match c.saio with
      | none => (s, [Out.other "model-invariant-broken"])
      | some ps =>
        let s := setPipe s { pp with sendq := rest, busy := true }
        let s := setCtx s { c with saio := none }
        let s := { s with wire := s.wire ++ [⟨pp.id, ps.m, k, ps.exp, false⟩] }
        (s, [Out.rv 0, Out.psend pp.id ps.m, Out.done ps.aio 0 none false])

/-- resp0_ctx_cancel_send / resp0_cancel_recv (cancel, abort, aio expiry) -/
def cancelAio (s : State) (a : Nat) (rv : Nat) : State × List Out :=
  match s.ctxs.find? (fun c => match c.saio with | some ps => ps.aio == a | none => false) with
  | some c =>
    let s := { s with pipes := s.pipes.map fun (pp : Pipe) => { pp with sendq := pp.sendq.filter (· != c.key) } }
    (setCtx s { c with saio := none }, [Out.done a rv none true])
  | none =>
    match s.ctxs.find? (fun c => match c.raio with | some pr => pr.aio == a | none => false) with
    | some c =>
      let s := { s with recvq := s.recvq.filter (· != c.key) }
      (setCtx s { c with raio := none }, [Out.done a rv none false])
    | none => (s, [])

def isDue (now : Nat) : Option Nat → Bool
  | some d => d < now
  | none => false

def dueAios (s : State) : List Nat :=
  s.ctxs.flatMap fun c =>
    (match c.saio with | some ps => if isDue s.now ps.deadline then [ps.aio] else [] | none => []) ++
    (match c.raio with | some pr => if isDue s.now pr.deadline then [pr.aio] else [] | none => [])

def expire (s : State) : State × List Out :=
  (dueAios s).foldl (fun (acc : State × List Out) a =>
    ((cancelAio acc.1 a Err.etimedout).1, acc.2 ++ (cancelAio acc.1 a Err.etimedout).2)) (s, [])

/-- resp0_ctx_close -/
def closeCtx (s : State) (c : Ctx) : State × List Out :=
  let (s, o1) : State × List Out := match c.saio with
    | some ps =>
      ({ s with pipes := s.pipes.map fun (pp : Pipe) => { pp with sendq := pp.sendq.filter (· != c.key) } },
        [Out.done ps.aio Err.eclosed none true])
    | none => (s, [])
  let (s, o2) : State × List Out := match c.raio with
    | some pr => ({ s with recvq := s.recvq.filter (· != c.key) }, [Out.done pr.aio Err.eclosed none false])
    | none => (s, [])
  (setCtx s { c with saio := none, raio := none }, o1 ++ o2)

def aioBusy (s : State) (a : Nat) : Bool :=
  s.ctxs.any fun c =>
    (match c.saio with | some ps => ps.aio == a | none => false) ||
    (match c.raio with | some pr => pr.aio == a | none => false)

/-- the harness closes the open contexts, then the socket: nni_sock_shutdown closes every
    pipe (responses parked on them are discarded: their sends succeed) and only then calls
    resp0_sock_close for the socket's own context -/
def closeCtxs (s : State) (sel : Ctx → Bool) : State × List Out :=
  s.ctxs.foldl (fun (acc : State × List Out) c =>
    if sel c then
      match getCtx acc.1 c.key with
      | some c' => ((closeCtx acc.1 c').1, acc.2 ++ (closeCtx acc.1 c').2)
      | none => acc
    else acc) (s, [])

def closePipes (s : State) : State × List Out :=
  s.pipes.foldl (fun (acc : State × List Out) pp =>
    ((closePipe acc.1 pp.id).1, acc.2 ++ (closePipe acc.1 pp.id).2)) (s, [])

def closeAll (s : State) : State × List Out :=
  let r1 := closeCtxs s (fun c => c.key != none)
  let r2 := closePipes r1.1
  let r3 := closeCtxs r2.1 (fun c => c.key == none)
  ({ r3.1 with closed := true }, r1.2 ++ r2.2 ++ r3.2)

def step (s : State) (ev : Ev) : State × List Out :=
  if !s.opened then
    match ev with
    | .openSock _ _ =>
      ({ s with opened := true, ttl := Nng.Generated.respTtlInit, ctxs := [{ key := none }] }, [.rv 0])
    | .advance ms => ({ s with now := s.now + ms }, [])
    | _ => (s, [.other "nosock"])
  else if s.closed then
    match ev with
    | .advance ms => ({ s with now := s.now + ms }, [])
    | _ => (s, [.other "nosock"])
  else
  match ev with
  | .openSock _ _ => (s, [.other "bad-op"])
  | .pipeAdd peer =>
    let id := s.pipes.length
    if peer != peerSurv then
      ({ s with pipes := s.pipes ++ [{ id := id, closed := true }] }, [.pipe id, .pclosed id])
    else
      ({ s with pipes := s.pipes ++ [{ id := id, armed := true }] }, [.pipe id, .parm id])
  | .pipeDrop p =>
    match getPipe s p with
    | some pp =>
      if pp.closed then (s, [.rv (-1)])
      else let (s, o) := closePipe s p; (s, [.rv 0] ++ o)
    | none => (s, [.rv (-1)])
  | .sendDone p rv =>
    match getPipe s p with
    | some pp =>
      if pp.closed || !pp.busy then (s, [.rv (-1)])
      else if rv != 0 then
        let (s, o) := closePipe s p
        (s, [.rv 0] ++ o)
      else pipeSent s pp
    | none => (s, [.rv (-1)])
  | .recvDone p r =>
    match getPipe s p with
    | some pp =>
      if pp.closed || !pp.armed then (s, [.rv (-1)])
      else
        match r with
        | .error _ => let (s, o) := closePipe s p; (s, [.rv 0] ++ o)
        | .ok b =>
          match splitBt s.ttl [] b with
          | .drop => (s, [.rv 0, .parm p])
          | .garbage => let (s, o) := closePipe s p; (s, [.rv 0] ++ o)
          | .ok hdr body => pipeRecv s pp ⟨hdr, body⟩
    | none => (s, [.rv (-1)])
  | .send k a m mode =>
    if aioBusy s a then (s, [.other "aio-busy"]) else
    match getCtx s k with
    | none => (s, [.done a Err.eclosed none true])
    | some c => ctxSend s c a m mode
  | .recv k a mode =>
    if aioBusy s a then (s, [.other "aio-busy"]) else
    match getCtx s k with
    | none => (s, [.done a Err.eclosed none false])
    | some c => ctxRecv s c a mode
  | .cancel a => cancelAio s a Err.ecanceled
  | .abort a rv => cancelAio s a rv
  | .advance ms => expire { s with now := s.now + ms }
  | .ctxOpen k =>
    if k ≥ maxCtx then (s, [.other "bad-op"])
    else if (getCtx s (some k)).isSome then (s, [.other "ctx-in-use"])
    else ({ s with ctxs := s.ctxs ++ [{ key := some k }] }, [.rv 0])
  | .ctxClose k =>
    match getCtx s (some k) with
    | none => (s, [.rv (-1)])
    | some c =>
      let (s, o) := closeCtx s c
      ({ s with ctxs := s.ctxs.filter (·.key != some k) }, [.rv 0] ++ o)
  | .setopt k name ty v =>
    if name == "ttl-max" && ty == "int" && k == none then
      if v < Nng.Generated.respTtlMin || v > Nng.Generated.maxMaxTtl then (s, [.rv Err.einval])
      else ({ s with ttl := v.toNat }, [.rv 0])
    else (s, [.other "unmodelled-option"])
  | .getopt k name ty =>
    if name == "ttl-max" && ty == "int" && k == none then (s, [.rv2 0 s.ttl])
    else (s, [.other "unmodelled-option"])
  | .poll => (s, [.poll (some s.readable) (some s.writable)])
  | .sub _ _ => (s, [.other "bad-op"])
  | .unsub _ _ => (s, [.other "bad-op"])
  | .close => closeAll s

def run (s : State) : List Ev → State × List (List Out)
  | [] => (s, [])
  | e :: es =>
    let (s', o) := step s e
    let (s'', os) := run s' es
    (s'', o :: os)

end Nng.Respond
