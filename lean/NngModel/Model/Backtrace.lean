/-
  Model of the routing-header ("backtrace") processing of the REQ/REP and
  SURVEYOR/RESPONDENT protocol families and of nng_device, as PURE functions.

  Receive side:  (ttl, arrival pipe id, wire bytes)  →  deliver (hdr, body) | drop | closePipe
  Send side:     (hdr, body)                         →  destination pipe id, wire bytes

  A transport hands the protocol ALL received bytes in the message body with an empty
  header (inproc: nni_msg_pull_up); on send a transport emits header then body
  (`wire`).  Every function mirrors one C function, loop by loop:

    xrepRecv      reqrep0/xrep.c     xrep0_pipe_recv_cb
    xrepSend      reqrep0/xrep.c     xrep0_sock_getq_cb  (+ xrep0_pipe_getq_cb → nni_pipe_send)
    xreqRecv      reqrep0/xreq.c     xreq0_recv_cb
    xreqSend      reqrep0/xreq.c     xreq0_sock_send / xreq0_getq_cb
    repRecv       reqrep0/rep.c      rep0_pipe_recv_cb (+ the btrace save in rep0_pipe_recv_cb / rep0_ctx_recv)
    repSend       reqrep0/rep.c      rep0_ctx_send
    reqSend/Recv  reqrep0/req.c      req0_ctx_send (header = request id) / req0_recv_cb
    xrespondRecv  survey0/xrespond.c xresp0_recv_cb
    xrespondSend  survey0/xrespond.c xresp0_sock_getq_cb
    xsurveyRecv   survey0/xsurvey.c  xsurv0_recv_cb
    xsurveySend   survey0/xsurvey.c  xsurv0_sock_getq_cb (broadcast, header untouched)
    respondRecv   survey0/respond.c  resp0_pipe_recv_cb
    respondSend   survey0/respond.c  resp0_ctx_send
    device        core/device.c      device_cb (the nni_msg stays in the aio, untouched)

  Core Lean only.
-/
import NngModel.Base.Bytes
import NngModel.Generated.Base
import NngModel.Spec.Backtrace
namespace Nng.Bt
open Nng
open Nng.BtSpec (Stage Fate)

/-- result of a protocol receive callback for one incoming message.
    `dropEinval` and `panic` are GHOST outcomes: the C code reaches them when
    `nni_msg_header_append` returns NNG_EINVAL in the TTL loops (handled there by
    `goto drop`) resp. when `nni_msg_header_append_u32` calls nni_panic; C13.D1 shows
    they are unreachable.  They print as `drop` / `panic`. -/
inductive Outcome where
  | deliver (hdr body : Bytes)
  | drop
  | closePipe
  | dropEinval
  | panic
deriving Repr, DecidableEq, Inhabited

/-- `(body[0] & 0x80u) != 0` -/
def isEnd (b : UInt8) : Bool := (b &&& 0x80) != 0

/-- `sizeof(m->m_header_buf)` (message.c) -/
def hcap : Nat := Nng.Generated.headerCap

/-- NNI_PUT32 -/
def w32 (v : Nat) : Bytes := beEncode 4 v

/-- the TTL loop shared (textually identical) by xrep0_pipe_recv_cb, rep0_pipe_recv_cb,
    xresp0_recv_cb and resp0_pipe_recv_cb:
    ```
    for (;;) {
        if (hops > ttl) goto drop;
        hops++;
        if (nni_msg_len(msg) < 4) { free; nni_pipe_close; return; }
        body = nni_msg_body(msg);
        end  = ((body[0] & 0x80u) != 0);
        if (nni_msg_header_append(msg, body, 4) != 0) goto drop;   // (len + hlen) > sizeof(buf)
        nni_msg_trim(msg, 4);
        if (end) break;
    }
    ```
    The `match` on four leading bytes is the `nni_msg_len(msg) < 4` test. -/
def ttlLoop (ttl : Nat) (hops : Nat) (hdr : Bytes) : Bytes → Outcome
  | b0 :: b1 :: b2 :: b3 :: rest =>
    if hops > ttl then .drop
    else if 4 + hdr.length > hcap then .dropEinval
    else if isEnd b0 then .deliver (hdr ++ [b0, b1, b2, b3]) rest
    else ttlLoop ttl (hops + 1) (hdr ++ [b0, b1, b2, b3]) rest
  | _ => if hops > ttl then .drop else .closePipe

/-- `nni_msg_header_append_u32(msg, id)` on a header of length `hlen`:
    panics iff `hlen + 4 >= sizeof(m_header_buf)` (note: `>=`). -/
def appendU32Panics (hlen : Nat) : Bool := decide (hlen + 4 ≥ hcap)

/-- xrep0_pipe_recv_cb: store the pipe id in the (empty) header first, then run the TTL
    loop with `hops = 1`. -/
def xrepRecv (ttl pipe : Nat) (wire : Bytes) : Outcome :=
  if appendU32Panics 0 then .panic else ttlLoop ttl 1 (w32 pipe) wire

/-- xresp0_recv_cb: same text as xrep0_pipe_recv_cb. -/
def xrespondRecv (ttl pipe : Nat) (wire : Bytes) : Outcome :=
  if appendU32Panics 0 then .panic else ttlLoop ttl 1 (w32 pipe) wire

/-- rep0_pipe_recv_cb: no pipe id is stored; the header after the loop is saved as the
    context's backtrace (`ctx->btrace`, `btrace_len`) and cleared from the message the
    application sees.  `deliver bt body`: `bt` is the SAVED backtrace. -/
def repRecv (ttl : Nat) (wire : Bytes) : Outcome := ttlLoop ttl 1 [] wire

/-- resp0_pipe_recv_cb: same text as rep0_pipe_recv_cb. -/
def respondRecv (ttl : Nat) (wire : Bytes) : Outcome := ttlLoop ttl 1 [] wire

/-- the loop of xreq0_recv_cb / xsurv0_recv_cb (no TTL):
    ```
    while (!end) {
        if (nni_msg_len(msg) < 4) { free; nni_pipe_close; return; }
        end = ((body[0] & 0x80u) != 0);
        if (nng_msg_header_append(msg, body, 4) != 0) { free; nni_pipe_close; return; }
        nni_msg_trim(msg, 4);
    }
    ``` -/
def endLoop (hdr : Bytes) : Bytes → Outcome
  | b0 :: b1 :: b2 :: b3 :: rest =>
    if 4 + hdr.length > hcap then .closePipe
    else if isEnd b0 then .deliver (hdr ++ [b0, b1, b2, b3]) rest
    else endLoop (hdr ++ [b0, b1, b2, b3]) rest
  | _ => .closePipe

/-- xreq0_recv_cb -/
def xreqRecv (wire : Bytes) : Outcome := endLoop [] wire
/-- xsurv0_recv_cb -/
def xsurveyRecv (wire : Bytes) : Outcome := endLoop [] wire

/-- req0_recv_cb / surv0_pipe_recv_cb: `nni_msg_len < 4` ⇒ close the pipe, else the
    first four bytes are the id (matching it to a context is C04/C07's business). -/
def reqRecv (wire : Bytes) : Outcome :=
  if wire.length < 4 then .closePipe else .deliver (wire.take 4) (wire.drop 4)

/-- what the transport puts on the wire for a message: header, then body -/
def wire (hdr body : Bytes) : Bytes := hdr ++ body

/-- xrep0_sock_getq_cb: header shorter than 4 ⇒ message freed; else
    `id = nni_msg_header_trim_u32(msg)` names the destination pipe and the rest is sent. -/
def xrepSend (hdr body : Bytes) : Option (Nat × Bytes) :=
  if hdr.length < 4 then none else some (beDecode (hdr.take 4), wire (hdr.drop 4) body)

/-- xresp0_sock_getq_cb: same text. -/
def xrespondSend (hdr body : Bytes) : Option (Nat × Bytes) :=
  if hdr.length < 4 then none else some (beDecode (hdr.take 4), wire (hdr.drop 4) body)

/-- xreq0_sock_send → uwq → xreq0_getq_cb → nni_pipe_send: the message is sent as is
    (to whichever pipe takes it from the queue). -/
def xreqSend (hdr body : Bytes) : Bytes := wire hdr body

/-- xsurv0_sock_getq_cb: a clone of the message, untouched, to every pipe. -/
def xsurveySend (hdr body : Bytes) : Bytes := wire hdr body

/-- req0_ctx_send: `nni_msg_header_clear; nni_msg_header_append_u32(msg, ctx->request_id)`;
    the id comes from the map `[0x80000000, 0xffffffff]`. -/
def reqSend (id : Nat) (body : Bytes) : Bytes := wire (w32 id) body

/-- rep0_ctx_send: the user's header is cleared; no saved backtrace ⇒ NNG_ESTATE (`none`);
    else header := saved backtrace (`nni_msg_header_append`, fails iff it exceeds the
    header buffer: ghost `none` as well, shown unreachable) and the message goes to
    `ctx->pipe_id`. -/
def repSend (saved : Bytes) (_userHdr body : Bytes) : Option Bytes :=
  if saved.length = 0 then none
  else if saved.length > hcap then none
  else some (wire saved body)

/-- resp0_ctx_send: same text. -/
def respondSend (saved : Bytes) (_userHdr body : Bytes) : Option Bytes :=
  if saved.length = 0 then none
  else if saved.length > hcap then none
  else some (wire saved body)

/-- nng_device between two raw sockets: device_cb moves the `nni_msg` received from one
    socket to `nni_sock_send` of the other without touching header or body. -/
def device (m : Bytes × Bytes) : Bytes × Bytes := m

/-! ### chains of devices (REQ → [XREP ⟷ XREQ]ᵏ → REP) -/

/-- a request's wire bytes pass the devices in order: XREP receive, device, XREQ send.
    `none`: discarded (dropped, or the sender's pipe closed) at some stage. -/
def forward : List Stage → Bytes → Option Bytes
  | [], w => some w
  | s :: rest, w =>
    match xrepRecv s.ttl s.pipe w with
    | .deliver h b => forward rest (xreqSend (device (h, b)).1 (device (h, b)).2)
    | _ => none

/-- index of the stage that discards the message (for reporting) -/
def forwardStop : List Stage → Bytes → Option Nat
  | [], _ => none
  | s :: rest, w =>
    match xrepRecv s.ttl s.pipe w with
    | .deliver h b => (forwardStop rest (xreqSend (device (h, b)).1 (device (h, b)).2)).map (· + 1)
    | _ => some 0

/-- a reply's wire bytes pass `k` devices backwards: XREQ receive, device, XREP send.
    Result: the pipe ids chosen by the XREP sockets, in travel order, and the final wire
    bytes.  Nothing but the message itself determines the route. -/
def backward : Nat → Bytes → Option (List Nat × Bytes)
  | 0, w => some ([], w)
  | k + 1, w =>
    match xreqRecv w with
    | .deliver h b =>
      match xrepSend (device (h, b)).1 (device (h, b)).2 with
      | some (d, w') => (backward k w').map fun r => (d :: r.1, r.2)
      | none => none
    | _ => none

/-- REQ (id) → k devices → REP with TTL `ttlR` which answers `reply` → back. -/
def roundTrip (stages : List Stage) (ttlR : Nat) (id : Nat) (body reply : Bytes) : Fate :=
  match forward stages (reqSend id body) with
  | none => .discardedAt ((forwardStop stages (reqSend id body)).getD 0)
  | some w =>
    match repRecv ttlR w with
    | .deliver saved b =>
      match repSend saved [] reply with
      | none => .replyLost
      | some w' =>
        match backward stages.length w' with
        | none => .replyLost
        | some (route, w'') =>
          match reqRecv w'' with
          | .deliver i r => .answered b route i r
          | _ => .replyLost
    | _ => .discardedAt stages.length

/-! ### PAIR1: a hop COUNT instead of a backtrace (pair1/pair.c) -/

/-- pair1_pipe_recv_cb: shorter than 4 bytes, or a first word above 0xff ⇒ malformed, the
    pipe is closed; `(int) hdr > ttl` ⇒ dropped (the receive is re-armed); otherwise the
    hop word is moved to the header (raw and cooked alike). -/
def pair1Recv (ttl : Nat) (wire : Bytes) : Outcome :=
  if wire.length < 4 then .closePipe
  else if beDecode (wire.take 4) > 0xff then .closePipe
  else if beDecode (wire.take 4) > ttl then .drop
  else if appendU32Panics 0 then .panic
  else .deliver (w32 (beDecode (wire.take 4))) (wire.drop 4)

/-- pair1_sock_send (raw) + pair1_pipe_send: the header must be exactly one word below
    0xff, else NNG_EPROTO (`none`); the word goes out incremented by one. -/
def pair1RawSend (hdr body : Bytes) : Option Bytes :=
  if hdr.length ≠ 4 then none
  else if beDecode hdr ≥ 0xff then none
  else some (wire (w32 (beDecode hdr + 1)) body)

/-- pair1_sock_send (cooked): header cleared, hop count 0, incremented on the way out -/
def pair1CookedSend (body : Bytes) : Bytes := wire (w32 (0 + 1)) body

/-- a message passes PAIR1 devices (raw receive with TTL, device, raw send) -/
def forwardP : List Stage → Bytes → Option Bytes
  | [], w => some w
  | s :: rest, w =>
    match pair1Recv s.ttl w with
    | .deliver h b =>
      match pair1RawSend (device (h, b)).1 (device (h, b)).2 with
      | some w' => forwardP rest w'
      | none => none
    | _ => none

/-! ### the same for SURVEYOR → [XRESPONDENT ⟷ XSURVEYOR]ᵏ → RESPONDENT
    (one path of the survey's fan-out; the surveyor end stamps / strips the survey id
    exactly like REQ: surv0_ctx_send / surv0_pipe_recv_cb) -/

def forwardS : List Stage → Bytes → Option Bytes
  | [], w => some w
  | s :: rest, w =>
    match xrespondRecv s.ttl s.pipe w with
    | .deliver h b => forwardS rest (xsurveySend (device (h, b)).1 (device (h, b)).2)
    | _ => none

def forwardStopS : List Stage → Bytes → Option Nat
  | [], _ => none
  | s :: rest, w =>
    match xrespondRecv s.ttl s.pipe w with
    | .deliver h b => (forwardStopS rest (xsurveySend (device (h, b)).1 (device (h, b)).2)).map (· + 1)
    | _ => some 0

def backwardS : Nat → Bytes → Option (List Nat × Bytes)
  | 0, w => some ([], w)
  | k + 1, w =>
    match xsurveyRecv w with
    | .deliver h b =>
      match xrespondSend (device (h, b)).1 (device (h, b)).2 with
      | some (d, w') => (backwardS k w').map fun r => (d :: r.1, r.2)
      | none => none
    | _ => none

def surveyRoundTrip (stages : List Stage) (ttlR : Nat) (id : Nat) (body reply : Bytes) : Fate :=
  match forwardS stages (reqSend id body) with
  | none => .discardedAt ((forwardStopS stages (reqSend id body)).getD 0)
  | some w =>
    match respondRecv ttlR w with
    | .deliver saved b =>
      match respondSend saved [] reply with
      | none => .replyLost
      | some w' =>
        match backwardS stages.length w' with
        | none => .replyLost
        | some (route, w'') =>
          match reqRecv w'' with
          | .deliver i r => .answered b route i r
          | _ => .replyLost
    | _ => .discardedAt stages.length

end Nng.Bt
