/- Model of src/platform/posix/posix_pollq_epoll.c: ONE nni_posix_pfd on ONE poller (nni_posix_pollq:
   the thread nni_epoll_thr, its mutex / condition variable / reap list / wake eventfd, the epoll
   set), K client threads and the pfd callback, as a small-step interleaving semantics.

   One step = what one thread does from one interposable point to the next: every atomic access to a
   pfd field (nni_atomic_or / nni_atomic_and on pfd->events, test-and-set of pfd->closing / pfd->stopped),
   every system call (epoll_ctl, epoll_wait, read / write of the eventfd, shutdown, close) and every
   acquisition of pq->mtx is the START of a step; the plain (unsynchronised) accesses that follow it
   in program order (the read of pfd->added in nni_posix_pfd_arm, the write pfd->added = true,
   pfd->fd = -1) belong to that step.  The callback runs with no lock held; its begin and its return
   are steps of their own and the calls it makes (arm / close, as tcp_cb / ipc_cb / udp_cb do) are
   stepped like those of a client.  A schedule is a list of choices: the thread to move, and - for
   the poller's epoll_wait - the oracle: which conditions the descriptor is ready for, and whether
   the wake event precedes the descriptor's event in the returned array.

   C state                                   here
   pfd->events (atomic int)                  g.events          pfd->added            g.added
   pfd->closing / pfd->stopped (flags)       g.closing / g.stopped
   pfd->node on pq->reapq                    g.onReap          (reapq holds this pfd or nothing)
   pfd->fd / the descriptor                  g.fdOpen          (fini: close(fd); pfd->fd = -1)
   pq->mtx                                   g.mtx = its owner, held ACROSS steps only between the
                                             append to reapq and the cv_wait in nni_posix_pfd_stop
   pq->cv waiters                            threads with frame `stopSleep`
   pq->evfd counter                          g.evfd            (level-triggered, registered without ONESHOT)
   epoll set entry of fd                     g.reg / g.mask / g.en (EPOLLONESHOT: disabled when reported)
   pq->close                                 constant false (set only by nni_posix_pollq_sysfini at library
                                             teardown, after every pfd is gone); the EBADF exit of the
                                             thread and EINTR returns of epoll_wait (n < 0: a stutter) likewise
   memory of the structure embedding the pfd g.freed           (op `free` = the owner's NNI_FREE_STRUCT)

   The kernel rules used (the same rules are implemented by the scripted epoll of harness/u_pfd.c):
   epoll_wait reports every registered, enabled entry whose readiness meets mask ∪ {ERR,HUP} and disables
   it (ONESHOT); the eventfd is reported whenever its counter is positive; epoll_ctl ADD fails with EEXIST
   on a registered fd, MOD / DEL with ENOENT on an unregistered one, all with EBADF on a closed fd;
   close(fd) removes the fd from the epoll set (no duplicate descriptors; fd-number reuse is out of scope:
   any system call on, and any callback for, the closed fd is flagged in `badfd` instead).

   Ghost fields record what an outside observer can see: calls begun / returned, callbacks begun /
   returned, and the flags `late` (callback active after a synchronising stop or fini returned),
   `uaf` (pfd memory touched after free), `badfd`, `regAtClose` (close(fd) while still in the epoll set). -/
import NngModel.Spec.Pfd
namespace Nng.Pfd
open Nng.PfdSpec

/-- what epoll reports for an entry with mask `mask` when the descriptor is ready for `ready`:
    EPOLLERR and EPOLLHUP are always reported -/
def deliver (ready mask : Evs) : Evs := ready.inter (mask.union Evs.errhup)

/-- result of nni_posix_pfd_arm (= nni_plat_errno of the errno of epoll_ctl) -/
inductive Rv
  | ok | eexist | enoent | ebadf
  deriving DecidableEq, Repr, Inhabited

inductive Op
  | arm (m : Evs)   -- nni_posix_pfd_arm(pfd, m)
  | close           -- nni_posix_pfd_close
  | stop            -- nni_posix_pfd_stop
  | fini            -- nni_posix_pfd_fini
  | free            -- the owner releases the structure that embeds the pfd
  | kick            -- environment: the nni_posix_pfd_stop of ANOTHER pfd on this poller writes the eventfd
  deriving DecidableEq, Repr, Inhabited

inductive Tid
  | p               -- the poller thread (also: the callback, which runs on it)
  | c (i : Nat)
  deriving DecidableEq, Repr, Inhabited

/-- where a thread is inside a call; `idle` = between calls (next: the first interposed point of the
    head operation of its program).  The head operation stays at the head until the call returns. -/
inductive Frame
  | idle
  | armCtl (e : Evs) (req : Evs) (wasAdded : Bool)
                -- arm: atomic_or done (e = new value of pfd->events), pfd->added read; next: epoll_ctl ADD / MOD
  | closeShut   -- close: won pfd->closing; next: shutdown(fd, SHUT_RDWR)
  | closeDel    -- close: next: epoll_ctl(EPOLL_CTL_DEL)
  | stopClose   -- stop: won pfd->stopped; next: the test-and-set of pfd->closing in the embedded nni_posix_pfd_close
  | stopLock    -- stop: next: nni_mtx_lock(&pq->mtx); if (!pq->close) nni_list_append(&pq->reapq, pfd)
  | stopWrite   -- stop: holds pq->mtx; next: write(pq->evfd); while (node active) nni_cv_wait  (releases the mutex)
  | stopSleep   -- stop: inside nni_cv_wait(&pq->cv)
  | stopChk     -- stop: woken; next: re-acquire pq->mtx, re-test nni_list_node_active(&pfd->node)
  deriving DecidableEq, Repr, Inhabited

/-- one entry of the array filled by epoll_wait -/
inductive BEv
  | wake            -- data.ptr == NULL, POLLIN: the eventfd
  | pfd (m : Evs)   -- data.ptr == pfd, events = m
  deriving DecidableEq, Repr, Inhabited

def BEv.isPfd : BEv → Bool
  | .pfd _ => true
  | .wake => false

/-- ghost call counters (all threads, the callback included; `kick` is not a call of the pfd API) -/
structure Cnt where
  nb : Nat := 0          -- calls begun
  nr : Nat := 0          -- calls returned
  ab : Nat := 0          -- arm calls begun
  kb : Nat := 0          -- close calls begun
  sb : Nat := 0          -- stop calls begun
  sr : Nat := 0          -- stop calls returned
  fb : Nat := 0          -- fini calls begun
  fr : Nat := 0          -- fini calls returned
  xr : Nat := 0          -- free executed
  pb : Nat := 0          -- stop / fini / free begun on the poller thread (from the callback)
  deriving DecidableEq, Repr

structure G where
  -- struct nni_posix_pfd
  events : Evs
  added : Bool
  closing : Bool
  stopped : Bool
  onReap : Bool
  -- nni_posix_pollq
  mtx : Option Tid
  evfd : Nat
  -- kernel
  reg : Bool
  mask : Evs
  en : Bool
  fdOpen : Bool
  shut : Bool
  freed : Bool
  -- ghost: protocol phases
  sect : Option Tid      -- the thread inside an arm call or inside the close part of close / stop (what the owner's mutex serialises)
  closeStarted : Bool    -- a close / stop call has executed its first step
  closeDone : Bool       -- the epoll_ctl DEL of nni_posix_pfd_close has been executed
  synced : Bool          -- the stop call that won pfd->stopped has returned
  finiDone : Bool
  inCb : Bool            -- the callback has begun and not returned
  -- ghost: counters
  harvested : Nat        -- events of this pfd returned by epoll_wait
  cbBegun : Nat
  cbEnded : Nat
  cbAfterClose : Nat     -- callbacks begun after the DEL
  lastArm : Evs          -- request of the last successful arm since the last harvest / DEL
  hm : Evs               -- mask of the last harvested event of this pfd
  cm : Evs               -- mask handed to the last callback invocation
  n : Cnt                -- ghost: calls begun / returned
  -- ghost: flags
  late : Bool
  uaf : Bool
  badfd : Bool
  regAtClose : Bool
  deriving DecidableEq, Repr

/-- an access to the memory of the pfd -/
def touch (g : G) : G := { g with uaf := g.uaf || g.freed }

def ctlAddRv (g : G) : Rv :=
  if !g.fdOpen then .ebadf else if g.reg then .eexist else .ok

def ctlAdd (g : G) (e : Evs) : G :=
  if !g.fdOpen then { g with badfd := true }
  else if g.reg then g
  else { g with reg := true, mask := e, en := true }

def ctlModRv (g : G) : Rv :=
  if !g.fdOpen then .ebadf else if !g.reg then .enoent else .ok

def ctlMod (g : G) (e : Evs) : G :=
  if !g.fdOpen then { g with badfd := true }
  else if !g.reg then g
  else { g with mask := e, en := true }

def ctlDel (g : G) : G :=
  if !g.fdOpen then { g with badfd := true }
  else { g with reg := false }

structure CallRes where
  g : G
  frame : Frame
  fin : Bool := false          -- the call returned
  rv : Option Rv := none       -- what nni_posix_pfd_arm returned
  deriving DecidableEq, Repr

def Frame.inSection : Frame → Bool
  | .armCtl _ _ _ => true
  | .closeShut => true
  | .closeDel => true
  | .stopClose => true
  | _ => false

/-- cannot proceed now: waits for pq->mtx or sleeps on pq->cv -/
def Frame.blocked (g : G) : Frame → Bool
  | .stopLock => g.mtx.isSome
  | .stopChk => g.mtx.isSome
  | .stopSleep => true
  | _ => false

/-- the last step of the stop call that won pfd->stopped: it returns -/
def syncRet (g : G) : G := { g with synced := true, late := g.late || g.inCb }

/-- one step of thread `t`, which is at `f` inside (or about to begin) the call `op`.  Mirrors
    nni_posix_pfd_arm / _close / _stop / _fini statement by statement. -/
def callStep (g : G) (t : Tid) (f : Frame) (op : Op) : CallRes :=
  match f with
  | .idle =>
    match op with
    | .arm m =>
      -- events |= nni_atomic_or(&pfd->events, (int) events); ... if (!pfd->added)
      let g := touch g
      let e := g.events.union m
      { g := { g with events := e, sect := some t }, frame := .armCtl e m g.added }
    | .close =>
      -- if (nni_atomic_flag_test_and_set(&pfd->closing)) return;
      let g := touch g
      if g.closing then { g := { g with closeStarted := true }, frame := .idle, fin := true }
      else { g := { g with closing := true, closeStarted := true, sect := some t }, frame := .closeShut }
    | .stop =>
      -- if (nni_atomic_flag_test_and_set(&pfd->stopped)) return;
      let g := touch g
      if g.stopped then { g := { g with closeStarted := true }, frame := .idle, fin := true }
      else { g := { g with stopped := true, closeStarted := true, sect := some t }, frame := .stopClose }
    | .fini =>
      -- (void) close(pfd->fd); pfd->fd = -1;
      let g := touch g
      { g := { g with badfd := g.badfd || !g.fdOpen, regAtClose := g.regAtClose || g.reg, fdOpen := false, reg := false,
                      finiDone := true, late := g.late || g.inCb, lastArm := Evs.none },
        frame := .idle, fin := true }
    | .free =>
      { g := { g with freed := true, uaf := g.uaf || g.inCb }, frame := .idle, fin := true }
    | .kick =>
      { g := { g with evfd := g.evfd + 1 }, frame := .idle, fin := true }
  | .armCtl e req wasAdded =>
    let g := touch g
    if !wasAdded then
      -- rv = epoll_ctl(pq->epfd, EPOLL_CTL_ADD, pfd->fd, &ev); if (rv == 0) pfd->added = true;
      let rv := ctlAddRv g
      { g := { ctlAdd g e with added := g.added || rv == .ok, sect := none, lastArm := if rv == .ok then req else g.lastArm },
        frame := .idle, fin := true, rv := some rv }
    else
      -- rv = epoll_ctl(pq->epfd, EPOLL_CTL_MOD, pfd->fd, &ev);
      let rv := ctlModRv g
      { g := { ctlMod g e with sect := none, lastArm := if rv == .ok then req else g.lastArm },
        frame := .idle, fin := true, rv := some rv }
  | .closeShut =>
    -- (void) shutdown(pfd->fd, SHUT_RDWR);
    let g := touch g
    { g := { g with shut := true, badfd := g.badfd || !g.fdOpen }, frame := .closeDel }
  | .closeDel =>
    -- (void) epoll_ctl(pq->epfd, EPOLL_CTL_DEL, pfd->fd, &ev);
    let g := ctlDel (touch g)
    let g := { g with closeDone := true, sect := none, lastArm := Evs.none }
    if op = .stop then { g := g, frame := .stopLock } else { g := g, frame := .idle, fin := true }
  | .stopClose =>
    -- nni_posix_pfd_close(pfd) inside stop: its test-and-set of pfd->closing
    let g := touch g
    if g.closing then { g := { g with sect := none }, frame := .stopLock }
    else { g := { g with closing := true }, frame := .closeShut }
  | .stopLock =>
    -- nni_mtx_lock(&pq->mtx); if (!pq->close) { nni_list_append(&pq->reapq, pfd);
    if g.mtx.isSome then { g := g, frame := f }
    else { g := { touch g with onReap := true, mtx := some t }, frame := .stopWrite }
  | .stopWrite =>
    -- write(pq->evfd, &one, sizeof(one)); while (nni_list_node_active(&pfd->node)) nni_cv_wait(&pq->cv);
    let g := touch g
    if g.onReap then { g := { g with evfd := g.evfd + 1, mtx := none }, frame := .stopSleep }
    else { g := syncRet { g with evfd := g.evfd + 1, mtx := none }, frame := .idle, fin := true }
  | .stopSleep => { g := g, frame := f }
  | .stopChk =>
    -- (woken) re-acquire pq->mtx; while (nni_list_node_active(&pfd->node)) nni_cv_wait; nni_mtx_unlock
    if g.mtx.isSome then { g := g, frame := f }
    else
      let g := touch g
      if g.onReap then { g := g, frame := .stopSleep }
      else { g := syncRet g, frame := .idle, fin := true }

def Op.isArm : Op → Bool
  | .arm _ => true
  | _ => false

/-- the ghost call counters: `f` is the frame before the step (idle: the call begins), `fin`: it returned -/
def acct (g : G) (t : Tid) (f : Frame) (op : Op) (fin : Bool) : G :=
  if op = .kick then g else
  let n := g.n
  let n := if f = .idle then
      { n with nb := n.nb + 1, ab := n.ab + (if op.isArm then 1 else 0), kb := n.kb + (if op = .close then 1 else 0),
               sb := n.sb + (if op = .stop then 1 else 0), fb := n.fb + (if op = .fini then 1 else 0),
               pb := n.pb + (if t = .p && (op = .stop || op = .fini || op = .free) then 1 else 0) }
    else n
  let n := if fin then
      { n with nr := n.nr + 1, sr := n.sr + (if op = .stop then 1 else 0), fr := n.fr + (if op = .fini then 1 else 0),
               xr := n.xr + (if op = .free then 1 else 0) }
    else n
  { g with n := n }

structure Client where
  frame : Frame
  prog : List Op
  res : List Rv
  deriving DecidableEq, Repr, Inhabited

inductive PPc
  | wait       -- next: epoll_wait
  | disp       -- in the dispatch loop, an entry is left; next: read(evfd) for the wake entry, nni_atomic_and for a pfd entry
  | cbBegin    -- pfd->events cleared of the mask; next: pfd->cb(pfd->arg, mask) is entered
  | inCb       -- inside the callback
  | reapLock   -- dispatch loop done, reap = true; next: nni_mtx_lock(&pq->mtx); reap; wake; unlock
  deriving DecidableEq, Repr, Inhabited

structure Poller where
  pc : PPc
  batch : List BEv         -- entries of events[] not yet dispatched
  reap : Bool
  cur : Evs                -- the mask handed to the callback
  rem : List Op            -- calls the running callback will still make
  frame : Frame            -- where the callback is inside its current call
  scripts : List (List Op) -- what the future invocations of the callback will do, one program per invocation
  deriving DecidableEq, Repr, Inhabited

structure State where
  g : G
  cs : List Client
  p : Poller
  deriving DecidableEq, Repr

structure Choice where
  tid : Tid
  ready : Evs := Evs.none
  wakeFirst : Bool := true
  deriving DecidableEq, Repr, Inhabited

/-- what epoll_wait returns now, given the readiness of the descriptor -/
def harvest (g : G) (ready : Evs) (wakeFirst : Bool) : List BEv :=
  let pe := if g.reg && g.en then deliver ready g.mask else Evs.none
  let w := if g.evfd > 0 then [BEv.wake] else []
  let f := if pe.isEmpty then [] else [BEv.pfd pe]
  if wakeFirst then w ++ f else f ++ w

/-- after an entry has been dispatched -/
def afterEntry (p : Poller) : PPc :=
  if !p.batch.isEmpty then .disp else if p.reap then .reapLock else .wait

def wakeClient (c : Client) : Client :=
  if c.frame = .stopSleep then { c with frame := .stopChk } else c

/-- one step of the poller thread: nni_epoll_thr -/
def pstep (s : State) (ready : Evs) (wakeFirst : Bool) : State :=
  let g := s.g
  let p := s.p
  match p.pc with
  | .wait =>
    -- bool reap = false; n = epoll_wait(pq->epfd, events, NNI_MAX_EPOLL_EVENTS, -1);
    let b := harvest g ready wakeFirst
    if b.isEmpty then s
    else
      let got := b.any BEv.isPfd
      { s with g := { g with en := g.en && !got, harvested := g.harvested + (if got then 1 else 0),
                             lastArm := if got then Evs.none else g.lastArm,
                             hm := if got then deliver ready g.mask else g.hm },
               p := { p with pc := .disp, batch := b, reap := false } }
  | .disp =>
    match p.batch with
    | [] => { s with p := { p with pc := afterEntry p } }
    | .wake :: rest =>
      -- (void) read(pq->evfd, &clear, sizeof(clear)); reap = true;
      let p := { p with batch := rest, reap := true }
      { s with g := { g with evfd := 0 }, p := { p with pc := afterEntry p } }
    | .pfd m :: rest =>
      -- nni_atomic_and(&pfd->events, (int) ~mask);
      let g := touch g
      { s with g := { g with events := g.events.diff m }, p := { p with batch := rest, cur := m, pc := .cbBegin } }
  | .cbBegin =>
    -- pfd->cb(pfd->arg, mask): the callback is entered (no lock held)
    let g := touch g
    { s with g := { g with inCb := true, cm := p.cur, cbBegun := g.cbBegun + 1, late := g.late || g.synced || g.finiDone,
                           badfd := g.badfd || !g.fdOpen,
                           cbAfterClose := g.cbAfterClose + (if g.closeDone then 1 else 0) },
             p := { p with pc := .inCb, rem := p.scripts.headD [], scripts := p.scripts.tail, frame := .idle } }
  | .inCb =>
    match p.rem with
    | [] =>
      -- the callback returns
      { s with g := { g with inCb := false, cbEnded := g.cbEnded + 1 }, p := { p with pc := afterEntry p, frame := .idle } }
    | op :: rest =>
      let r := callStep g .p p.frame op
      { s with g := acct r.g .p p.frame op r.fin, p := { p with frame := r.frame, rem := if r.fin then rest else p.rem } }
  | .reapLock =>
    -- nni_mtx_lock(&pq->mtx); while ((pfd = nni_list_first(&pq->reapq)) != NULL) nni_list_remove(..); nni_cv_wake(&pq->cv);
    -- if (pq->close) ...; nni_mtx_unlock(&pq->mtx);
    if g.mtx.isSome then s
    else
      { s with g := { g with onReap := false, uaf := g.uaf || (g.onReap && g.freed) },
               cs := s.cs.map wakeClient,
               p := { p with pc := .wait, reap := false } }

/-- one step of client `i` (whose record is `c`) -/
def cstep (s : State) (i : Nat) (c : Client) : State :=
  match c.prog with
  | [] => s
  | op :: rest =>
    let r := callStep s.g (.c i) c.frame op
    { s with g := acct r.g (.c i) c.frame op r.fin,
             cs := s.cs.set i { frame := r.frame, prog := if r.fin then rest else c.prog,
                                res := match r.rv with | some v => c.res ++ [v] | none => c.res } }

/-- total: a blocked, finished or non-existent thread stutters -/
def step (s : State) (ch : Choice) : State :=
  match ch.tid with
  | .p => pstep s ch.ready ch.wakeFirst
  | .c i => match s.cs[i]? with
    | none => s
    | some c => cstep s i c

def run (s : State) (sched : List Choice) : State := sched.foldl step s

def G.init : G :=
  { events := Evs.none, added := false, closing := false, stopped := false, onReap := false,
    mtx := none, evfd := 0, reg := false, mask := Evs.none, en := false, fdOpen := true, shut := false, freed := false,
    sect := none, closeStarted := false, closeDone := false, synced := false, finiDone := false, inCb := false,
    harvested := 0, cbBegun := 0, cbEnded := 0, cbAfterClose := 0, lastArm := Evs.none, hm := Evs.none, cm := Evs.none,
    n := {},
    late := false, uaf := false, badfd := false, regAtClose := false }

/-- nni_posix_pollq_sysinit (one poller, parked at its first epoll_wait), nni_posix_pfd_init, one
    client thread per program, one callback program per invocation -/
def init (progs : List (List Op)) (scripts : List (List Op)) : State :=
  { g := G.init, cs := progs.map fun p => ⟨.idle, p, []⟩,
    p := { pc := .wait, batch := [], reap := false, cur := Evs.none, rem := [], frame := .idle, scripts := scripts } }

def reach (progs scripts : List (List Op)) (sched : List Choice) : State := run (init progs scripts) sched

def Client.enabled (g : G) (c : Client) : Bool := !c.prog.isEmpty && !c.frame.blocked g

def Client.finished (c : Client) : Bool := c.prog.isEmpty

/-- can the poller move, the descriptor being ready for `ready`? -/
def Poller.enabled (g : G) (p : Poller) (ready : Evs) : Bool :=
  match p.pc with
  | .wait => !(harvest g ready true).isEmpty
  | .disp => true
  | .cbBegin => true
  | .inCb => p.rem.isEmpty || !p.frame.blocked g
  | .reapLock => g.mtx.isNone

def enabled (s : State) (ch : Choice) : Bool :=
  match ch.tid with
  | .p => s.p.enabled s.g ch.ready
  | .c i => match s.cs[i]? with
    | some c => c.enabled s.g
    | none => false

/-- some thread can move without any help from the descriptor (the worst case for liveness) -/
def State.live (s : State) : Bool := s.p.enabled s.g Evs.none || s.cs.any (Client.enabled s.g)

def trace (s : State) : List Choice → List State
  | [] => []
  | c :: cs => step s c :: trace (step s c) cs

/-! ### the contract: what posix_pollq.h leaves to the callers, and what every caller in
    src/platform/posix does (audit in integration/PFD.md).  Only the FIRST step of a call is constrained. -/

def State.quiet (s : State) : Bool := s.cs.all (fun c => c.frame == .idle) && s.p.frame == .idle

/-- may a call of `op` begin in `s` on thread `t`?
    K1 (owner's mutex) arm calls and the close part of close / stop are mutually exclusive: `sect = none`;
    K2 no arm once a close / stop has begun, none after fini;
    K3 stop, fini and free are never called from the callback (the poller thread);
    K4 fini only after the stop that won has returned, once, and while no other call is in progress;
    K5 free only after fini, while no call is in progress; nothing after free. -/
def opAllowed (s : State) (t : Tid) (op : Op) : Bool :=
  op == .kick || !s.g.freed &&
  match op with
  | .arm _ => s.g.sect.isNone && !s.g.closeStarted
  | .close => s.g.sect.isNone
  | .stop => s.g.sect.isNone && t != .p
  | .fini => t != .p && s.g.synced && !s.g.finiDone && s.quiet
  | .free => t != .p && s.g.finiDone && s.quiet
  | .kick => true

def allowed (s : State) (ch : Choice) : Bool :=
  match ch.tid with
  | .p =>
    match s.p.pc, s.p.frame, s.p.rem with
    | .inCb, .idle, op :: _ => opAllowed s .p op
    | _, _, _ => true
  | .c i => match s.cs[i]? with
    | none => true
    | some c =>
      match c.frame, c.prog with
      | .idle, op :: _ => opAllowed s (.c i) op
      | _, _ => true

def respects (s : State) : List Choice → Bool
  | [] => true
  | ch :: rest => allowed s ch && respects (step s ch) rest

end Nng.Pfd
