/- src/core/refcnt.c: nni_refcnt_init / nni_refcnt_hold (atomic inc) / nni_refcnt_rele (atomic dec_nv, the finaliser
   runs in the thread whose decrement reached zero).  Each call is one atomic step, so a run of any number of threads is a
   sequence of calls; the thread is ghost (who owns how many references). -/
namespace Nng.Refcnt

inductive Op where
  | hold (t : Nat)
  | rele (t : Nat)
  deriving Repr, DecidableEq, Inhabited

structure State where
  cnt : Int               -- rc_cnt (nni_atomic_int)
  finis : Nat := 0        -- calls of rc_fini
  uaf : Bool := false     -- ghost: a call touched the counter after rc_fini had run (the object is gone by then)
  own : List Nat          -- ghost: references owned by each thread
  deriving Repr, DecidableEq, Inhabited

def init (own : List Nat) : State := { cnt := (own.sum : Int), own := own }

def step (s : State) : Op → State
  | .hold t =>
    { s with cnt := s.cnt + 1, uaf := s.uaf || decide (0 < s.finis), own := s.own.modify t (· + 1) }
  | .rele t =>
    let c := s.cnt - 1
    { s with cnt := c, finis := if c = 0 then s.finis + 1 else s.finis, uaf := s.uaf || decide (0 < s.finis),
             own := s.own.modify t (· - 1) }

def run (s : State) (ops : List Op) : State := ops.foldl step s

/-- the caller contract: a thread calls hold or rele only on a reference it owns -/
def allowed (s : State) : Op → Bool
  | .hold t => decide (0 < s.own[t]?.getD 0)
  | .rele t => decide (0 < s.own[t]?.getD 0)

def respects : State → List Op → Bool
  | _, [] => true
  | s, o :: r => allowed s o && respects (step s o) r

/-- what the harness sees, and the property on it -/
def judge (cnt : Int) (finis : Nat) : Bool := decide (finis ≤ 1) && (decide (finis = 1) == decide (cnt = 0))

end Nng.Refcnt
