/-
  Executable model of src/sp/protocol/reqrep0/xreq.c (raw REQ) as seen through the socket
  core.  Sends go through the upper write queue `s_uwq` to whichever pipe asked for a message
  first (each idle pipe keeps a get posted); replies have their header words (up to the word
  with the high bit) moved from the body to the header and go through `s_urq`.

  Non-blocking operations mirror the CURRENT code (finding F13, property C15).
-/
import NngModel.Model.RawMq
import NngModel.Generated.Base
import NngModel.Generated.C04REP
namespace Nng.Xreq
open Nng Nng.Proto Nng.RawMq

inductive HdrResult
  | ok (hdr body : Bytes)
  | close                      -- fewer than 4 bytes left, or the header buffer is full
deriving Repr, DecidableEq, Inhabited

def isEnd (w : Bytes) : Bool :=
  match w with
  | b :: _ => b &&& 0x80 != 0
  | [] => false

/-- the `while (!end)` loop of xreq0_recv_cb: no hop limit; nng_msg_header_append fails
    when the header buffer (NNI_MAX_HEADER_SIZE) is full, which closes the pipe.
    `n` = words the header can still take. -/
def parseLoop : Nat → Bytes → Bytes → HdrResult
  | 0, _, body => if body.length < 4 then .close else .close
  | n + 1, hdr, body =>
    if body.length < 4 then .close
    else if isEnd (body.take 4) then .ok (hdr ++ body.take 4) (body.drop 4)
    else parseLoop n (hdr ++ body.take 4) (body.drop 4)

def recvHeader (bytes : Bytes) : HdrResult := parseLoop (Nng.Generated.headerCap / 4) [] bytes

structure Pipe where
  closed : Bool := false
  armed : Bool := false
  busy : Bool := false
deriving Repr, DecidableEq, Inhabited

structure State where
  opened : Bool := false
  closed : Bool := false
  ttl : Nat := Nng.Generated.xreqDefaultTtl
  uwq : Mq := { cap := Nng.Generated.sockSendqInit }
  urq : Mq := { cap := Nng.Generated.sockRecvqInit }
  pipes : List Pipe := []
  now : Nat := 0
  -- ghost
  accepted : List WMsg := []
  wire : List (Nat × WMsg) := []
  delivered : List (Nat × WMsg) := []
deriving Repr, Inhabited

def peerRep : Nat := Nng.Generated.xreqPeer
def getPipe (s : State) (p : Nat) : Option Pipe := s.pipes[p]?
def setPipe (s : State) (p : Nat) (pp : Pipe) : State := { s with pipes := s.pipes.set p pp }
def livePipe (s : State) (p : Nat) : Bool := match getPipe s p with | some pp => !pp.closed | none => false

def deadlineOf (now : Nat) : Mode → Option Nat
  | .ms n => some (now + n)
  | _ => none

def aioBusy (s : State) (a : Nat) : Bool := s.urq.getq.any (·.tag == a) || s.uwq.putq.any (·.tag == a)

/-- completion of an upper-write-queue transfer: user aios are the writers, pipes the readers -/
def uwqEvent (s : State) (e : MqEv) : State × List Out :=
  match e with
  | .handed w g =>
    -- xreq0_getq_cb on pipe g.tag
    let s := match getPipe s g.tag with
      | some pp => setPipe s g.tag { pp with busy := true }
      | none => s
    ({ s with accepted := s.accepted ++ [w.msg], wire := s.wire ++ [(g.tag, w.msg)] },
      [.done w.tag 0 none false, .psend g.tag w.msg])
  | .queued w => ({ s with accepted := s.accepted ++ [w.msg] }, [.done w.tag 0 none false])
  | .got g m =>
    let s := match getPipe s g.tag with
      | some pp => setPipe s g.tag { pp with busy := true }
      | none => s
    ({ s with wire := s.wire ++ [(g.tag, m)] }, [.psend g.tag m])

/-- completion of an upper-read-queue transfer: pipes are the writers, user aios the readers -/
def urqEvent (s : State) (e : MqEv) : State × List Out :=
  match e with
  | .handed w g =>
    let s := match getPipe s w.tag with
      | some pp => setPipe s w.tag { pp with armed := true }
      | none => s
    ({ s with delivered := s.delivered ++ [(w.tag, w.msg)] }, [.done g.tag 0 (some w.msg) false, .parm w.tag])
  | .queued w =>
    let s := match getPipe s w.tag with
      | some pp => setPipe s w.tag { pp with armed := true }
      | none => s
    (s, [.parm w.tag])
  | .got g m => ({ s with delivered := s.delivered ++ [(0, m)] }, [.done g.tag 0 (some m) false])

def applyEvents (s : State) (es : List MqEv) (f : State → MqEv → State × List Out) : State × List Out :=
  es.foldl (fun (acc : State × List Out) e =>
    let (s', o) := f acc.1 e
    (s', acc.2 ++ o)) (s, [])

/-- nni_pipe_close: xreq0_pipe_close closes the four aios (the get on the upper write queue and the
    put on the upper read queue are cancelled) -/
def closePipe (s : State) (p : Nat) : State × List Out :=
  match getPipe s p with
  | none => (s, [])
  | some pp =>
    if pp.closed then (s, []) else
    let s := setPipe s p { pp with closed := true, armed := false }
    ({ s with uwq := (cancelGet s.uwq p).1, urq := (cancelPut s.urq p).1 }, [.pclosed p])

def failAio (s : State) (a : Nat) (rv : Nat) : State × List Out :=
  match (cancelGet s.urq a).2 with
  | some _ => ({ s with urq := (cancelGet s.urq a).1 }, [.done a rv none false])
  | none =>
    match (cancelPut s.uwq a).2 with
    | some _ => ({ s with uwq := (cancelPut s.uwq a).1 }, [.done a rv none true])
    | none => (s, [])

def expire (s : State) : State × List Out :=
  let due (d : Option Nat) : Bool := match d with | some d => d < s.now | none => false
  let as := (s.urq.getq.filter (fun g => due g.deadline)).map (·.tag) ++ (s.uwq.putq.filter (fun w => due w.deadline)).map (·.tag)
  as.foldl (fun (acc : State × List Out) a =>
    let (s', o) := failAio acc.1 a Err.etimedout
    (s', acc.2 ++ o)) (s, [])

def step (s : State) (ev : Ev) : State × List Out :=
  if !s.opened then
    match ev with
    | .openSock _ _ => ({ s with opened := true }, [.rv 0])
    | .advance ms => ({ s with now := s.now + ms }, [])
    | _ => (s, [.other "nosock"])
  else if s.closed then
    match ev with
    | .advance ms => ({ s with now := s.now + ms }, [])
    | _ => (s, [.other "nosock"])
  else
  match ev with
  | .openSock _ _ => (s, [.other "bad-op"])
  | .pipeAdd peer =>
    let id := s.pipes.length
    if peer != peerRep then
      ({ s with pipes := s.pipes ++ [{ closed := true }] }, [.pipe id, .pclosed id])
    else
      -- xreq0_pipe_start: ask the upper write queue for a message, post a receive
      let s := { s with pipes := s.pipes ++ [({ armed := true } : Pipe)] }
      let (q, es) := aioGet s.uwq ⟨id, none⟩
      let (s, o) := applyEvents { s with uwq := q } es uwqEvent
      (s, [.pipe id, .parm id] ++ o)
  | .pipeDrop p =>
    if livePipe s p then let (s, o) := closePipe s p; (s, [.rv 0] ++ o) else (s, [.rv (-1)])
  | .sendDone p rv =>
    match getPipe s p with
    | none => (s, [.rv (-1)])
    | some pp =>
      if pp.closed || !pp.busy then (s, [.rv (-1)])
      else if rv != 0 then
        let (s, o) := closePipe s p
        (s, [.rv 0] ++ o)
      else
        let s := setPipe s p { pp with busy := false }
        let (q, es) := aioGet s.uwq ⟨p, none⟩
        let (s, o) := applyEvents { s with uwq := q } es uwqEvent
        (s, [.rv 0] ++ o)
  | .recvDone p r =>
    match getPipe s p with
    | none => (s, [.rv (-1)])
    | some pp =>
      if pp.closed || !pp.armed then (s, [.rv (-1)])
      else
        match r with
        | .error _ => let (s, o) := closePipe s p; (s, [.rv 0] ++ o)
        | .ok b =>
          let s := setPipe s p { pp with armed := false }
          match recvHeader b with
          | .close => let (s, o) := closePipe s p; (s, [.rv 0] ++ o)
          | .ok hdr body =>
            let (q, es) := aioPut s.urq ⟨p, ⟨hdr, body⟩, none⟩
            let (s, o) := applyEvents { s with urq := q } es urqEvent
            (s, [.rv 0] ++ o)
  | .send c a m mode =>
    if aioBusy s a then (s, [.other "aio-busy"]) else
    match c with
    | some _ => (s, [.done a Err.eclosed none true])
    | none =>
      let (q0, _) := aioPut s.uwq ⟨a, m, deadlineOf s.now mode⟩
      if (mode == .nb || mode == .ms 0) && q0.putq.any (·.tag == a) then
        (s, [.done a (if mode == .nb then Err.eagain else Err.etimedout) none true])
      else
        let (q, es) := aioPut s.uwq ⟨a, m, deadlineOf s.now mode⟩
        applyEvents { s with uwq := q } es uwqEvent
  | .recv c a mode =>
    if aioBusy s a then (s, [.other "aio-busy"]) else
    match c with
    | some _ => (s, [.done a Err.eclosed none false])
    | none =>
      let (q0, _) := aioGet s.urq ⟨a, deadlineOf s.now mode⟩
      if (mode == .nb || mode == .ms 0) && q0.getq.any (·.tag == a) then
        (s, [.done a (if mode == .nb then Err.eagain else Err.etimedout) none false])
      else
        let (q, es) := aioGet s.urq ⟨a, deadlineOf s.now mode⟩
        applyEvents { s with urq := q } es urqEvent
  | .cancel a => failAio s a Err.ecanceled
  | .abort a rv => failAio s a rv
  | .advance ms => expire { s with now := s.now + ms }
  | .ctxOpen _ => (s, [.rv Err.enotsup])
  | .ctxClose _ => (s, [.rv (-1)])
  | .setopt none "ttl-max" "int" v =>
    if v < (Nng.Generated.repTtlMin : Int) || v > (Nng.Generated.maxMaxTtl : Int) then (s, [.rv Err.einval])
    else ({ s with ttl := v.toNat }, [.rv 0])
  | .setopt _ _ _ _ => (s, [.other "unmodelled-option"])
  | .getopt none "ttl-max" "int" => (s, [.rv2 0 s.ttl])
  | .getopt _ _ _ => (s, [.other "unmodelled-option"])
  | .poll => (s, [.poll (some (recvable s.urq)) (some (sendable s.uwq))])
  | .sub _ _ => (s, [.other "bad-op"])
  | .unsub _ _ => (s, [.other "bad-op"])
  | .close =>
    let o1 := s.urq.getq.map fun g => Out.done g.tag Err.eclosed none false
    let o2 := s.uwq.putq.map fun w => Out.done w.tag Err.eclosed none true
    let s := { s with urq := RawMq.close s.urq, uwq := RawMq.close s.uwq }
    let (s, o3) := (List.range s.pipes.length).foldl (fun (acc : State × List Out) p =>
      let (s', o) := closePipe acc.1 p
      (s', acc.2 ++ o)) (s, [])
    ({ s with closed := true }, o1 ++ o2 ++ o3)

end Nng.Xreq
