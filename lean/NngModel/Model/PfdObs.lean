/- what an outside observer (Spec/Pfd.lean `Obs`) sees of a model state, and the interposed call
   each thread is parked at (compared line-exact with harness/u_pfd.c) -/
import NngModel.Model.Pfd
namespace Nng.Pfd
open Nng.PfdSpec

def Rv.toR : Rv → R
  | .ok => .k
  | .eexist => .x
  | .enoent => .n
  | .ebadf => .b

def obsOf (s : State) : Obs :=
  let g := s.g
  { reg := g.reg, en := g.en, mask := g.mask, fd := g.fdOpen,
    nb := g.n.nb, nr := g.n.nr, ab := g.n.ab, kb := g.n.kb, sb := g.n.sb, sr := g.n.sr, fb := g.n.fb, fr := g.n.fr, xr := g.n.xr, pb := g.n.pb,
    sec := g.sect.isSome, cd := g.closeDone,
    hv := g.harvested, cbB := g.cbBegun, cbE := g.cbEnded, hm := g.hm, cm := g.cm, la := g.lastArm,
    uaf := g.uaf, badfd := g.badfd, regc := g.regAtClose,
    live := s.live, fin := s.cs.all Client.finished, res := s.cs.map fun c => c.res.map Rv.toR }

/-- the interposed point a thread at frame `f` of call `op` is parked at -/
def Frame.next (f : Frame) (op : Op) : String :=
  match f with
  | .idle =>
    match op with
    | .arm _ => "or"
    | .close => "tas:closing"
    | .stop => "tas:stopped"
    | .fini => "close"
    | .free => "free"
    | .kick => "write"
  | .armCtl _ _ _ => "ctl"
  | .closeShut => "shutdown"
  | .closeDel => "ctl"
  | .stopClose => "tas:closing"
  | .stopLock => "lock"
  | .stopWrite => "write"
  | .stopSleep => "wait"
  | .stopChk => "lock"

def Client.next (c : Client) : String :=
  match c.prog with
  | [] => "end"
  | op :: _ => c.frame.next op

def Poller.next (p : Poller) : String :=
  match p.pc with
  | .wait => "epoll_wait"
  | .disp =>
    match p.batch with
    | .pfd _ :: _ => "and"
    | _ => "read"
  | .cbBegin => "cb"
  | .inCb =>
    match p.rem with
    | [] => "cbret"
    | op :: _ => p.frame.next op
  | .reapLock => "lock"

end Nng.Pfd
