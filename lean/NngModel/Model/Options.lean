/-
  Executable model of the option plumbing: src/core/options.c (nni_copyin_*, nni_copyout_*,
  nni_getopt, nni_setopt), the string check of the websocket options (ws_check_string), nni_strlcpy
  as used by nng_pipe_get_strcpy, the by-name layering of nni_sock_*opt / nni_ctx_*opt /
  nni_dialer_*opt / nni_listener_*opt, and the typed public wrappers of src/nng.c.

  Representation.  The caller's buffer is a byte list; its length IS the size the caller really owns
  (what malloc was asked for / sizeof of the variable whose address is passed).  Every load from it
  and every store to it goes through `load` / `store`, which also say whether the access stayed inside;
  each function returns the conjunction as `safe`.  "No out-of-bounds access" is the theorem
  `safe = true`.  Integers are little-endian two's complement of the extracted sizes
  (Generated.c03oTypeSizes: the platform the checks build for).

  What the code does and does not do (mirrored here, not tidied):
   * the `sz` argument of nni_copyin_bool/int/size/ms and the `szp` argument of every nni_copyout_* are
     NNI_ARG_UNUSED: no function of options.c checks a size.  The type tag is the only guard, it is tested
     before the first access, and the loads/stores have the size of the C type the tag stands for.
   * nni_copyout_str stores the POINTER it was given (no copy, nothing to truncate); copies with a size
     are made by nng_pipe_get_strcpy through nni_strlcpy.
   * nni_copyin_ms rejects values below -1 (NNG_DURATION_DEFAULT = -2 is NNG_EINVAL).
-/
import NngModel.Base.Bytes
import NngModel.Generated.C03O
import NngModel.Spec.Options

namespace Nng.Opt
open Nng

/-! ### little-endian two's complement -/

def leEncode : (n : Nat) → (v : Nat) → Bytes
  | 0, _ => []
  | n + 1, v => UInt8.ofNat (v % 256) :: leEncode n (v / 256)

def leDecode : Bytes → Nat
  | [] => 0
  | b :: bs => b.toNat + 256 * leDecode bs

/-- `int` / `nng_duration` (int32_t) value of a 32-bit pattern -/
def toI32 (n : Nat) : Int := if n < 2147483648 then (n : Int) else (n : Int) - 4294967296

/-- 32-bit pattern of an integer (conversion to `int` of the C abstract machine) -/
def ofI32 (i : Int) : Nat := (i % 4294967296).toNat

/-! ### the caller's buffer -/

/-- a load of `n` bytes from the start of buffer `b`: what it sees (zeros beyond the end) and whether it stayed inside -/
def load (b : Bytes) (n : Nat) : Bytes × Bool :=
  (b.take n ++ List.replicate (n - b.length) 0, decide (n ≤ b.length))

/-- a store of `d` at the start of buffer `b`: the buffer afterwards (same size) and whether the store stayed inside -/
def store (b : Bytes) (d : Bytes) : Bytes × Bool :=
  (d.take b.length ++ b.drop d.length, decide (d.length ≤ b.length))

/-- result of a copy function: return code, the destination afterwards, all accesses inside -/
structure R (α : Type) where
  rv : Nat
  val : α
  safe : Bool
deriving Repr

/-! ### nni_copyin_* : caller's buffer → typed destination.
    `dst` is the destination's previous content; an error leaves it there. -/

/-- nni_copyin_ms -/
def copyinMs (dst : Int) (v : Bytes) (_sz : Nat) (t : Tag) : R Int :=
  if t ≠ Tag.ms then ⟨Err.ebadtype, dst, true⟩
  else
    let l := load v (csize .ms)
    let dur := toI32 (leDecode l.1)
    if dur < -1 then ⟨Err.einval, dst, l.2⟩
    else ⟨0, dur, l.2⟩

/-- nni_copyin_bool -/
def copyinBool (dst : Bool) (v : Bytes) (_sz : Nat) (t : Tag) : R Bool :=
  if t ≠ Tag.bool then ⟨Err.ebadtype, dst, true⟩
  else
    let l := load v (csize .bool)
    ⟨0, leDecode l.1 != 0, l.2⟩

/-- nni_copyin_int: the upper bound is tested first, then the lower one -/
def copyinInt (dst : Int) (v : Bytes) (_sz : Nat) (minv maxv : Int) (t : Tag) : R Int :=
  if t ≠ Tag.int then ⟨Err.ebadtype, dst, true⟩
  else
    let l := load v (csize .int)
    let i := toI32 (leDecode l.1)
    if i > maxv then ⟨Err.einval, dst, l.2⟩
    else if i < minv then ⟨Err.einval, dst, l.2⟩
    else ⟨0, i, l.2⟩

/-- nni_copyin_size -/
def copyinSize (dst : Nat) (v : Bytes) (_sz : Nat) (minv maxv : Nat) (t : Tag) : R Nat :=
  if t ≠ Tag.size then ⟨Err.ebadtype, dst, true⟩
  else
    let l := load v (csize .size)
    let val := leDecode l.1
    if val > maxv ∨ val < minv then ⟨Err.einval, dst, l.2⟩
    else ⟨0, val, l.2⟩

/-- nni_copyin_sockaddr (structure assignment: sizeof(nng_sockaddr) bytes) -/
def copyinSockaddr (dst : Bytes) (v : Bytes) (t : Tag) : R Bytes :=
  if t ≠ Tag.addr then ⟨Err.ebadtype, dst, true⟩
  else
    let l := load v (csize .addr)
    ⟨0, l.1, l.2⟩

/-- nni_strnlen(s, len): scans until a NUL or `len` bytes; unsafe iff it runs off the buffer first -/
def strnlen : Bytes → Nat → Nat × Bool
  | _, 0 => (0, true)
  | [], _ + 1 => (0, false)
  | b :: bs, n + 1 => if b = 0 then (0, true) else ((strnlen bs n).1 + 1, (strnlen bs n).2)

/-- nni_copyin_str(s, v, maxsz, t).  `dst` is the destination array `s` (its length = its real size).
    `guarded = true` is the repaired too-long test `z == maxsz`; `guarded = false` is the pinned test
    `z == maxsz && ((char *) v)[maxsz - 1] != 0`, whose second operand reads v[-1] when maxsz = 0 (and is
    always true otherwise).  Generated.c03oCopyinStrGuarded says which one the tree has. -/
def copyinStr (guarded : Bool) (dst : Bytes) (v : Bytes) (maxsz : Nat) (t : Tag) : R Bytes :=
  if t ≠ Tag.str then ⟨Err.ebadtype, dst, true⟩
  else
    let z := strnlen v maxsz
    if z.1 = maxsz then
      if guarded then ⟨Err.einval, dst, z.2⟩
      else
        -- the pinned test also loads v[maxsz - 1]: index -1 for maxsz = 0
        let inside := decide (1 ≤ maxsz ∧ maxsz ≤ v.length)
        if maxsz = 0 ∨ (v.getD (maxsz - 1) 0) ≠ 0 then ⟨Err.einval, dst, z.2 && inside⟩
        else
          -- (unreachable for maxsz > 0: byte maxsz-1 was just seen non-zero by nni_strnlen)
          let s := store dst (v.take z.1 ++ [0])
          ⟨0, s.1, z.2 && inside && s.2⟩
    else
      -- memcpy(s, v, z); s[z] = 0;
      let s := store dst (v.take z.1 ++ [0])
      ⟨0, s.1, z.2 && s.2⟩

/-- ws_check_string (supplemental/websocket/websocket.c): the copy-in test of every string option.
    `null` = the caller passed the NULL pointer (nng_dialer_set_string(d, n, NULL) passes NULL with size 0).
    `g = true` is the repaired test `v == NULL || nni_strnlen(v, sz) >= sz`; `g = false` the pinned one, which hands
    NULL to strnlen (declared nonnull: undefined behaviour, a UBSan report).  Generated.c03oCheckStringNullGuard. -/
def checkString (g : Bool) (null : Bool) (v : Bytes) (sz : Nat) (t : Tag) : Nat × Bool :=
  if t ≠ Tag.str then (Err.ebadtype, true)
  else if null then (Err.einval, g)
  else
    let z := strnlen v sz
    if z.1 ≥ sz then (Err.einval, z.2) else (0, z.2)

/-- the C string at the start of a buffer (what nni_strdup copies): bytes before the first NUL -/
def cstr : Bytes → Bytes
  | [] => []
  | b :: bs => if b = 0 then [] else b :: cstr bs

/-! ### nni_copyout_* : typed value → caller's buffer `dst` (szp is unused by all of them) -/

def copyoutBool (b : Bool) (dst : Bytes) (t : Tag) : R Bytes :=
  if t ≠ Tag.bool then ⟨Err.ebadtype, dst, true⟩
  else let s := store dst (leEncode (csize .bool) (if b then 1 else 0)); ⟨0, s.1, s.2⟩

def copyoutInt (i : Int) (dst : Bytes) (t : Tag) : R Bytes :=
  if t ≠ Tag.int then ⟨Err.ebadtype, dst, true⟩
  else let s := store dst (leEncode (csize .int) (ofI32 i)); ⟨0, s.1, s.2⟩

def copyoutMs (d : Int) (dst : Bytes) (t : Tag) : R Bytes :=
  if t ≠ Tag.ms then ⟨Err.ebadtype, dst, true⟩
  else let s := store dst (leEncode (csize .ms) (ofI32 d)); ⟨0, s.1, s.2⟩

def copyoutSize (n : Nat) (dst : Bytes) (t : Tag) : R Bytes :=
  if t ≠ Tag.size then ⟨Err.ebadtype, dst, true⟩
  else let s := store dst (leEncode (csize .size) n); ⟨0, s.1, s.2⟩

def copyoutSockaddr (a : Bytes) (dst : Bytes) (t : Tag) : R Bytes :=
  if t ≠ Tag.addr then ⟨Err.ebadtype, dst, true⟩
  else let s := store dst (a.take (csize .addr) ++ List.replicate (csize .addr - a.length) 0); ⟨0, s.1, s.2⟩

/-- nni_copyout_str: stores the pointer `ptr` (an address, 8 bytes), not the characters -/
def copyoutStr (ptr : Nat) (dst : Bytes) (t : Tag) : R Bytes :=
  if t ≠ Tag.str then ⟨Err.ebadtype, dst, true⟩
  else let s := store dst (leEncode (csize .str) ptr); ⟨0, s.1, s.2⟩

/-! ### nni_strlcpy (the fallback loop the build uses) and nng_pipe_get_strcpy -/

def poke (b : Bytes) (i : Nat) (c : UInt8) : Bytes := if i < b.length then b.set i c else b

/-- the do-while loop over the source characters including the terminator; `n` is the C `n` before `n++` -/
def strlcpyGo (len : Nat) : Bytes → Nat → Bytes → Bool → Bytes × Bool
  | [], _, dst, safe => (dst, safe)
  | c :: cs, n, dst, safe =>
    if n + 1 < len then strlcpyGo len cs (n + 1) (poke dst n c) (safe && decide (n < dst.length))
    else if n + 1 = len then strlcpyGo len cs (n + 1) (poke dst n 0) (safe && decide (n < dst.length))
    else strlcpyGo len cs (n + 1) dst safe

/-- nni_strlcpy(dst, src, len) for the C string `s` (no NUL inside): returns strlen(src) -/
def strlcpy (dst : Bytes) (s : Bytes) (len : Nat) : R Bytes :=
  let g := strlcpyGo len (s ++ [0]) 0 dst true
  ⟨s.length, g.1, g.2⟩

/-- nng_pipe_get_strcpy after nni_pipe_getopt returned `rv` and the string `s` (none = NULL) -/
def pipeGetStrcpy (rv : Nat) (s : Option Bytes) (buf : Bytes) (len : Nat) : R Bytes :=
  if rv ≠ 0 then ⟨rv, buf, true⟩
  else
    let c := strlcpy buf (s.getD []) len
    if c.rv ≥ len then ⟨Err.enospc, c.val, c.safe⟩ else ⟨0, c.val, c.safe⟩

/-! ### option handlers and tables (types `Tag`, `Val`, `Row`, `Store` are in Spec/Options.lean) -/

/-- the o_set handler of a row: copy in with the row's type and range, then store -/
def rowSet (g : Bool) (r : Row) (st : Store) (null : Bool) (buf : Bytes) (sz : Nat) (t : Tag) : R Store :=
  match r.tag with
  | .int =>
    let c := copyinInt 0 buf sz r.lo r.hi t
    if c.rv ≠ 0 then ⟨c.rv, st, c.safe⟩ else ⟨0, st.put r.name (.int c.val), c.safe⟩
  | .size =>
    let c := copyinSize 0 buf sz r.lo.toNat r.hi.toNat t
    if c.rv ≠ 0 then ⟨c.rv, st, c.safe⟩ else ⟨0, st.put r.name (.size c.val), c.safe⟩
  | .ms =>
    let c := copyinMs 0 buf sz t
    if c.rv ≠ 0 then ⟨c.rv, st, c.safe⟩ else ⟨0, st.put r.name (.ms c.val), c.safe⟩
  | .bool =>
    let c := copyinBool false buf sz t
    if c.rv ≠ 0 then ⟨c.rv, st, c.safe⟩ else ⟨0, st.put r.name (.bool c.val), c.safe⟩
  | .addr =>
    let c := copyinSockaddr [] buf t
    if c.rv ≠ 0 then ⟨c.rv, st, c.safe⟩ else ⟨0, st.put r.name (.addr c.val), c.safe⟩
  | .str =>
    let c := checkString g null buf sz t
    if c.1 ≠ 0 then ⟨c.1, st, c.2⟩ else ⟨0, st.put r.name (.str (cstr buf)), c.2⟩
  | .none => ⟨rvUnmodelled, st, true⟩

/-- address the model hands out for a string value (nni_copyout_str passes a pointer through) -/
def strPtr : Nat := 0x5555aaaa5555aaaa

/-- the object's field behind an option (0 / false / empty when no value was recorded for it) -/
def storedInt (st : Store) (nm : String) : Int := match st.get nm with | some (.int i) => i | _ => 0
def storedMs (st : Store) (nm : String) : Int := match st.get nm with | some (.ms i) => i | _ => 0
def storedSize (st : Store) (nm : String) : Nat := match st.get nm with | some (.size n) => n | _ => 0
def storedBool (st : Store) (nm : String) : Bool := match st.get nm with | some (.bool b) => b | _ => false
def storedAddr (st : Store) (nm : String) : Bytes := match st.get nm with | some (.addr a) => a | _ => []

/-- the o_get handler of a row: copy the object's field out with the row's type -/
def rowGet (r : Row) (st : Store) (dst : Bytes) (t : Tag) : R Bytes :=
  match r.tag with
  | .int => copyoutInt (storedInt st r.name) dst t
  | .size => copyoutSize (storedSize st r.name) dst t
  | .ms => copyoutMs (storedMs st r.name) dst t
  | .bool => copyoutBool (storedBool st r.name) dst t
  | .addr => copyoutSockaddr (storedAddr st r.name) dst t
  | .str => copyoutStr strPtr dst t
  | .none => ⟨rvUnmodelled, dst, true⟩

/-- nni_setopt: first entry with the name decides -/
def setopt (g : Bool) : Table → String → Store → Bool → Bytes → Nat → Tag → R Store
  | [], _, st, _, _, _, _ => ⟨Err.enotsup, st, true⟩
  | r :: rest, nm, st, null, buf, sz, t =>
    if r.name == nm then
      if !r.hasSet then ⟨Err.ereadonly, st, true⟩ else rowSet g r st null buf sz t
    else setopt g rest nm st null buf sz t

/-- nni_getopt -/
def getopt : Table → String → Store → Bytes → Tag → R Bytes
  | [], _, _, dst, _ => ⟨Err.enotsup, dst, true⟩
  | r :: rest, nm, st, dst, t =>
    if r.name == nm then
      if !r.hasGet then ⟨Err.ewriteonly, dst, true⟩ else rowGet r st dst t
    else getopt rest nm st dst t

/-! ### layering: `rv = first(...); if (rv != NNG_ENOTSUP) return rv; rv = next(...)` -/

/-- nni_sock_setopt / nni_ctx_setopt / nni_dialer_setopt / nni_listener_setopt: the tables in search order -/
def setLayers (g : Bool) : List Table → String → Store → Bool → Bytes → Nat → Tag → R Store
  | [], _, st, _, _, _, _ => ⟨Err.enotsup, st, true⟩
  | tb :: rest, nm, st, null, buf, sz, t =>
    let r := setopt g tb nm st null buf sz t
    if r.rv ≠ Err.enotsup then r else
      let r2 := setLayers g rest nm st null buf sz t
      ⟨r2.rv, r2.val, r.safe && r2.safe⟩


def getLayers : List GLayer → String → Store → Store → Bytes → Tag → R Bytes
  | [], _, _, _, dst, _ => ⟨Err.enotsup, dst, true⟩
  | (par, tb) :: rest, nm, own, parent, dst, t =>
    let r := getopt tb nm (if par then parent else own) dst t
    if r.rv ≠ Err.enotsup then r else
      let r2 := getLayers rest nm own parent dst t
      ⟨r2.rv, r2.val, r.safe && r2.safe⟩

/-! ### the typed public wrappers (nng_socket_set_int, nng_ctx_get_ms, nng_dialer_set_string, ...) -/

/-- the object representation of a value as the wrapper passes it: `&v` of the parameter (sizeof(v) bytes),
    `v` itself for nng_sockaddr * (sizeof(*v)) and for strings (strlen(v)+1 bytes incl. the NUL) -/
def encodeVal : Val → Bytes
  | .bool b => leEncode (csize .bool) (if b then 1 else 0)
  | .int i => leEncode (csize .int) (ofI32 i)
  | .size n => leEncode (csize .size) n
  | .ms d => leEncode (csize .ms) (ofI32 d)
  | .str s => s ++ [0]
  | .addr a => a.take (csize .addr) ++ List.replicate (csize .addr - a.length) 0

/-- nng_<obj>_set_<type>(id, name, v): buffer, size and tag exactly as the wrapper computes them -/
def wrapSet (g : Bool) (layers : List Table) (st : Store) (nm : String) (v : Val) : R Store :=
  let buf := encodeVal v
  setLayers g layers nm st false buf buf.length v.tag

/-- nng_dialer_set_string(id, name, NULL): the NULL pointer, size 0, NNI_TYPE_STRING -/
def wrapSetNull (g : Bool) (layers : List Table) (st : Store) (nm : String) : R Store :=
  setLayers g layers nm st true [] 0 Tag.str

/-- the caller's variable before a typed get: sizeof(T) bytes of 0xAA -/
def canary (t : Tag) : Bytes := List.replicate (csize t) 0xAA

/-- what the caller reads back from its variable after a successful get of tag `t` -/
def decodeVal (t : Tag) (b : Bytes) (strs : Store) (nm : String) : Option Val :=
  match t with
  | .bool => some (.bool (leDecode (b.take (csize .bool)) != 0))
  | .int => some (.int (toI32 (leDecode (b.take (csize .int)))))
  | .size => some (.size (leDecode (b.take (csize .size))))
  | .ms => some (.ms (toI32 (leDecode (b.take (csize .ms)))))
  | .addr => some (.addr (b.take (csize .addr)))
  | .str =>
    -- dereferencing the pointer handed out: the string the object holds under that name
    match strs.get nm with
    | some (.str s) => some (.str s)
    | _ => none
  | .none => none

/-- nng_<obj>_get_<type>(id, name, &var): passes `&var` (sizeof(T) bytes), NULL for szp, and T's tag -/
def wrapGet (layers : List GLayer) (own parent : Store) (nm : String) (t : Tag) : R Bytes :=
  getLayers layers nm own parent (canary t) t

/-- which store a get of `nm` reads (the first layer that has the name) -/
def whichStore : List GLayer → String → Store → Store → Store
  | [], _, own, _ => own
  | (par, tb) :: rest, nm, own, parent =>
    match tb.find? (fun r => r.name == nm) with
    | some _ => if par then parent else own
    | none => whichStore rest nm own parent

/-! ### the extracted tables as model inputs -/

def mkRow (x : String × String × String × Nat × Nat × Nat × Nat) : String × Row :=
  (x.1, { name := x.2.1, tag := (Tag.ofName x.2.2.1).getD .none,
          lo := (x.2.2.2.2.1 : Int) - (x.2.2.2.1 : Int), hi := (x.2.2.2.2.2.1 : Int), flags := x.2.2.2.2.2.2 })

/-- the entries of the table called `tid`, in source order -/
def tableOf (tid : String) : Table :=
  (Nng.Generated.c03oRows.filter (fun x => x.1 == tid)).map (fun x => (mkRow x).2)

structure ObjKind where
  kind : String
  arg : String
  setL : List Table
  getL : List GLayer
deriving Repr

def objKinds : List ObjKind :=
  Nng.Generated.c03oObjects.map (fun x =>
    { kind := x.1, arg := x.2.1, setL := x.2.2.1.map tableOf,
      getL := x.2.2.2.map (fun (l : Nat × String) => (l.1 != 0, tableOf l.2)) })

def objKind (k : String) : Option ObjKind := objKinds.find? (fun o => o.kind == k)

end Nng.Opt
