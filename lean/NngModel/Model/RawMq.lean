/-
  Abstract model of src/core/msgqueue.c as the raw sockets use it (socket-level upper
  queues `s_uwq` / `s_urq`, XREP's per-pipe send queue): a bounded FIFO plus the two lists
  of parked aios, with the occupancy rules of nni_msgq_run_putq / run_getq / tryput /
  run_notify.  The ring indices are abstracted (C18 covers the ring).
-/
import NngModel.Proto.Base
namespace Nng.RawMq
open Nng Nng.Proto

structure Put where        -- an aio on mq_aio_putq with its message
  tag : Nat
  msg : WMsg
  deadline : Option Nat
deriving Repr, DecidableEq, Inhabited

structure Get where        -- an aio on mq_aio_getq
  tag : Nat
  deadline : Option Nat
deriving Repr, DecidableEq, Inhabited

structure Mq where
  cap : Nat := 0
  items : List WMsg := []
  putq : List Put := []
  getq : List Get := []
  closed : Bool := false
deriving Repr, DecidableEq, Inhabited

/-- what a run of the queue did -/
inductive MqEv
  | handed (p : Put) (g : Get)     -- message passed from a waiting writer to a waiting reader
  | queued (p : Put)               -- writer's message stored, writer completed
  | got (g : Get) (m : WMsg)       -- reader took a stored message
deriving Repr, DecidableEq, Inhabited

/-- nni_msgq_run_putq (fuel = number of waiting writers) -/
def runPutq : Nat → Mq → Mq × List MqEv
  | 0, q => (q, [])
  | n + 1, q =>
    match q.putq with
    | [] => (q, [])
    | w :: ws =>
      match q.getq with
      | r :: rs =>
        let (q', evs) := runPutq n { q with putq := ws, getq := rs }
        (q', .handed w r :: evs)
      | [] =>
        if q.items.length < q.cap then
          let (q', evs) := runPutq n { q with putq := ws, items := q.items ++ [w.msg] }
          (q', .queued w :: evs)
        else (q, [])

/-- nni_msgq_run_getq (fuel = number of waiting readers) -/
def runGetq : Nat → Mq → Mq × List MqEv
  | 0, q => (q, [])
  | n + 1, q =>
    match q.getq with
    | [] => (q, [])
    | r :: rs =>
      match q.items with
      | m :: ms =>
        let (q', evs) := runGetq n { q with getq := rs, items := ms }
        (q', .got r m :: evs)
      | [] =>
        match q.putq with
        | w :: ws =>
          let (q', evs) := runGetq n { q with getq := rs, putq := ws }
          (q', .handed w r :: evs)
        | [] => (q, [])

/-- nni_msgq_aio_put after a successful nni_aio_start -/
def aioPut (q : Mq) (w : Put) : Mq × List MqEv :=
  let q := { q with putq := q.putq ++ [w] }
  runPutq q.putq.length q

/-- nni_msgq_aio_get after a successful nni_aio_start -/
def aioGet (q : Mq) (r : Get) : Mq × List MqEv :=
  let q := { q with getq := q.getq ++ [r] }
  runGetq q.getq.length q

/-- nni_msgq_tryput: `none` = refused (closed or full) -/
def tryput (q : Mq) (m : WMsg) : Option (Mq × Option Get) :=
  if q.closed then none
  else
    match q.getq with
    | r :: rs => some ({ q with getq := rs }, some r)
    | [] => if q.items.length < q.cap then some ({ q with items := q.items ++ [m] }, none) else none

/-- mq_sendable / mq_recvable as nni_msgq_run_notify leaves them -/
def sendable (q : Mq) : Bool := q.putq.isEmpty && (decide (q.items.length < q.cap) || !q.getq.isEmpty)
def recvable (q : Mq) : Bool := q.items.length != 0 || !q.putq.isEmpty

def cancelPut (q : Mq) (tag : Nat) : Mq × Option Put :=
  ({ q with putq := q.putq.filter (·.tag != tag) }, q.putq.find? (·.tag == tag))
def cancelGet (q : Mq) (tag : Nat) : Mq × Option Get :=
  ({ q with getq := q.getq.filter (·.tag != tag) }, q.getq.find? (·.tag == tag))

/-- nni_msgq_close: stored messages are freed, parked aios fail with NNG_ECLOSED -/
def close (q : Mq) : Mq := { q with closed := true, items := [], putq := [], getq := [] }

end Nng.RawMq
