/- Model of src/core/pollable.c (the lock-free object under every poll descriptor) together with the
   pipe variant of src/platform/posix/posix_pipe.c, as a small-step interleaving semantics.

   Shared memory: `p_raised` (atomic bool), `p_fds` (atomic u64, -1 = no pipe yet; here `Option` of a
   pipe id), and the kernel pipes (byte count + open/closed).  All atomics in posix_atomic.c are
   sequentially consistent, so one atomic access = one step.

   Threads:
   * two "mutator" threads `m1`, `m2`, each executing a program of `nni_pollable_raise` /
     `nni_pollable_clear` calls, split into the atomic steps of the C code
     (swap; load p_fds; write / drain).  Protocols call raise/clear under their socket mutex, i.e.
     ONE mutator (`m2` has the empty program in every theorem; it exists to exhibit what happens
     when that discipline is broken, as in survey0/respond.c resp0_ctx_send).
   * N threads each executing one `nni_pollable_getfd` call (load p_fds; nni_plat_pipe_open - may
     fail, decided by the schedule; CAS; load p_raised; write; or close own pipe and retry).

   `fixed = false` is pollable.c as it is in the pinned tree; `fixed = true` is the repaired
   getfd (integration/fixes/POLLB-pollable-getfd-race.patch): after a successful CAS
       for (;;) { bool r = get(p_raised); if (r) pipe_raise(wfd); else pipe_clear(rfd);
                  if (get(p_raised) == r) break; }

   Platform calls are atomic steps: `nni_plat_pipe_raise` is one write(2) of one byte;
   `nni_plat_pipe_clear` is a read loop that ends with the first read returning <= 0 - it is
   linearised at that last read (the pipe is empty at that instant, everything written before it
   has been consumed, everything written after it stays). -/
namespace Nng.Pollable

inductive Op
  | raise
  | clear
  deriving DecidableEq, Repr, Inhabited

structure Pipe where
  bytes : Nat
  isOpen : Bool
  deriving DecidableEq, Repr, Inhabited

/-- shared memory (plus the ghost flag `bad`: some write/drain/close hit a closed or unknown pipe) -/
structure Shared where
  raised : Bool
  fds : Option Nat
  pipes : List Pipe
  bad : Bool
  deriving DecidableEq, Repr

def openAt (ps : List Pipe) (p : Nat) : Bool :=
  match ps[p]? with
  | some q => q.isOpen
  | none => false

def bytesAt (ps : List Pipe) (p : Nat) : Nat :=
  match ps[p]? with
  | some q => q.bytes
  | none => 0

/-- nni_plat_pipe_raise(wfd of pipe p): write one byte (non-blocking) -/
def Shared.write (sh : Shared) (p : Nat) : Shared :=
  if openAt sh.pipes p then
    { sh with pipes := sh.pipes.set p ⟨bytesAt sh.pipes p + 1, true⟩ }
  else { sh with bad := true }

/-- nni_plat_pipe_clear(rfd of pipe p): drain completely -/
def Shared.drain (sh : Shared) (p : Nat) : Shared :=
  if openAt sh.pipes p then
    { sh with pipes := sh.pipes.set p ⟨0, true⟩ }
  else { sh with bad := true }

/-- nni_plat_pipe_close(wfd, rfd) of pipe p -/
def Shared.closeP (sh : Shared) (p : Nat) : Shared :=
  if openAt sh.pipes p then
    { sh with pipes := sh.pipes.set p ⟨bytesAt sh.pipes p, false⟩ }
  else { sh with bad := true }

/-- program counter of a mutator thread -/
inductive MPc
  | idle                  -- between two calls
  | raiseLoad             -- raise: swap returned false; next: fds = get64(p_fds)
  | raiseWrite (p : Nat)  -- raise: fds != -1; next: nni_plat_pipe_raise(WFD(fds))
  | clearLoad             -- clear: swap returned true; next: fds = get64(p_fds)
  | clearDrain (p : Nat)  -- clear: fds != -1; next: nni_plat_pipe_clear(RFD(fds))
  deriving DecidableEq, Repr, Inhabited

structure Mut where
  pc : MPc
  prog : List Op
  deriving DecidableEq, Repr

/-- one atomic step of a mutator thread -/
def mstep (sh : Shared) (m : Mut) : Shared × Mut :=
  match m.pc with
  | .idle =>
    match m.prog with
    | [] => (sh, m)
    | .raise :: rest =>
      -- if (!nni_atomic_swap_bool(&p->p_raised, true)) {
      ({ sh with raised := true }, { pc := if sh.raised then .idle else .raiseLoad, prog := rest })
    | .clear :: rest =>
      -- if (nni_atomic_swap_bool(&p->p_raised, false)) {
      ({ sh with raised := false }, { pc := if sh.raised then .clearLoad else .idle, prog := rest })
  | .raiseLoad =>
    -- if ((fds = nni_atomic_get64(&p->p_fds)) != (uint64_t) -1) {
    (sh, { m with pc := match sh.fds with | none => .idle | some p => .raiseWrite p })
  | .raiseWrite p => (sh.write p, { m with pc := .idle })
  | .clearLoad =>
    (sh, { m with pc := match sh.fds with | none => .idle | some p => .clearDrain p })
  | .clearDrain p => (sh.drain p, { m with pc := .idle })

/-- program counter of a thread executing one nni_pollable_getfd call -/
inductive GPc
  | idle                      -- call not begun; first step = the load of p_fds
  | top                       -- inside the call, at the head of for (;;) after closing the own pipe
  | open_                     -- p_fds was -1; next: nni_plat_pipe_open
  | cas (p : Nat)             -- owns pipe p; next: nni_atomic_cas64(&p->p_fds, -1, FD_JOIN(..))
  | ld (p : Nat)              -- CAS won; next: r = nni_atomic_get_bool(&p->p_raised)
  | act (p : Nat) (r : Bool)  -- next: r ? nni_plat_pipe_raise(wfd) : nni_plat_pipe_clear(rfd)
  | chk (p : Nat) (r : Bool)  -- fixed code only; next: nni_atomic_get_bool(&p->p_raised) == r ?
  | close (p : Nat)           -- CAS lost; next: nni_plat_pipe_close(wfd, rfd) of the own pipe
  | done (res : Option Nat)   -- returned: `some p` = NNG_OK with *fdp = RFD of pipe p; `none` = error
  deriving DecidableEq, Repr, Inhabited

/-- one atomic step of a getfd thread; `openOk` is the oracle for nni_plat_pipe_open -/
def gstep (fixed : Bool) (sh : Shared) (g : GPc) (openOk : Bool) : Shared × GPc :=
  match g with
  | .idle | .top =>
    -- if ((fds = nni_atomic_get64(&p->p_fds)) != (uint64_t) -1) { *fdp = RFD(fds); return (NNG_OK); }
    (sh, match sh.fds with | some p => .done (some p) | none => .open_)
  | .open_ =>
    -- if ((rv = nni_plat_pipe_open(&wfd, &rfd)) != 0) { return (rv); }
    if openOk then ({ sh with pipes := sh.pipes ++ [⟨0, true⟩] }, .cas sh.pipes.length)
    else (sh, .done none)
  | .cas p =>
    match sh.fds with
    | none => ({ sh with fds := some p }, .ld p)
    | some _ => (sh, .close p)
  | .ld p =>
    if sh.raised then (sh, .act p true)
    else if fixed then (sh, .act p false)
    else (sh, .done (some p))      -- current code: if (raised) {...}; *fdp = rfd; return
  | .act p r =>
    (if r then sh.write p else sh.drain p, if fixed then .chk p r else .done (some p))
  | .chk p r => (sh, if sh.raised == r then .done (some p) else .ld p)
  | .close p => (sh.closeP p, .top)   -- "Someone beat us.  Close ours, and try again."
  | .done r => (sh, .done r)

structure State where
  sh : Shared
  m1 : Mut
  m2 : Mut
  gs : List GPc
  deriving DecidableEq, Repr

inductive Tid
  | m1
  | m2
  | g (i : Nat)
  deriving DecidableEq, Repr, Inhabited

/-- a scheduling decision: which thread performs its next atomic step; `openOk` is consulted only
    if that step is nni_plat_pipe_open -/
structure Choice where
  tid : Tid
  openOk : Bool := true
  deriving DecidableEq, Repr, Inhabited

/-- total: choosing a finished or non-existent thread leaves the state unchanged -/
def step (fixed : Bool) (s : State) (c : Choice) : State :=
  match c.tid with
  | .m1 => { s with sh := (mstep s.sh s.m1).1, m1 := (mstep s.sh s.m1).2 }
  | .m2 => { s with sh := (mstep s.sh s.m2).1, m2 := (mstep s.sh s.m2).2 }
  | .g i =>
    match s.gs[i]? with
    | none => s
    | some g => { s with sh := (gstep fixed s.sh g c.openOk).1,
                         gs := s.gs.set i (gstep fixed s.sh g c.openOk).2 }

def run (fixed : Bool) (s : State) (sched : List Choice) : State :=
  sched.foldl (step fixed) s

/-- nni_pollable_init, then (optionally) a raise before any descriptor exists; `n` getfd threads;
    `prog` for the one mutator (raise/clear calls made under the protocol lock) -/
def init (raised0 : Bool) (n : Nat) (prog : List Op) (prog2 : List Op := []) : State :=
  { sh := { raised := raised0, fds := none, pipes := [], bad := false },
    m1 := { pc := .idle, prog := prog }, m2 := { pc := .idle, prog := prog2 },
    gs := List.replicate n .idle }

def GPc.atRest : GPc → Bool
  | .idle => true
  | .done _ => true
  | _ => false

/-- no thread is in the middle of a call -/
def State.quiescent (s : State) : Bool :=
  s.m1.pc == .idle && s.m2.pc == .idle && s.gs.all GPc.atRest

/-- bytes in the installed pipe (what poll(2) on the returned descriptor looks at) -/
def Shared.instBytes (sh : Shared) : Nat :=
  match sh.fds with
  | some p => bytesAt sh.pipes p
  | none => 0

def Shared.nOpen (sh : Shared) : Nat := sh.pipes.countP (·.isOpen)

/-- the trace of states visited (after each step) -/
def trace (fixed : Bool) (s : State) : List Choice → List State
  | [] => []
  | c :: cs => step fixed s c :: trace fixed (step fixed s c) cs

end Nng.Pollable
