/-
  Executable model of the connection-level decisions nng takes on bytes from a remote
  peer (C11).  What mirrors what:

  * `negoCheck`   — the test at the end of tcptran_pipe_nego_cb / ipc_pipe_nego_cb /
                    sfd_tran_pipe_nego_cb on the 8 gathered bytes (six byte tests, then
                    NNI_GET16 of bytes 4,5 into p->peer).  The transport does NOT compare
                    the peer protocol number.
  * `pipeStart`   — the first statement of every protocol's pipe_start:
                    `nni_pipe_peer(p) != <PEER>` ⇒ NNG_EPROTO (the pipe is closed, the
                    listener is not involved); pair0/pair1: a second pipe ⇒ NNG_EBUSY.
  * `Conn`, `connFeed` — one accepted connection: gather the 8 negotiation bytes with a
                    single-entry iov (wantrxhead/gotrxhead), decide, then run C01's receive
                    machine `Sp.rxFeed` (Model/SpStream.lean: length header → ipc type byte →
                    nni_msg_size_valid → rcvmax rule → allocate → body → deliver → re-arm).
  * `protoRecv`   — what the protocol's pipe receive callback does with a transport message
                    (Model/Backtrace.lean for REP/REQ/SURVEYOR/RESPONDENT/PAIR1 cooked and raw;
                    PAIR0, PULL, BUS, SUB do not look at the bytes except SUB's prefix match).
  * `appOut`      — deliveries to the application: protocol outcomes of the transport
                    messages up to the first `closePipe` (the callback returns without
                    re-arming the pipe receive).
  * `Sock`, `sockFeed` — a listener with any number of connections (product state).
  * `udpRxCb`, `udpRecvData`, `udpSetRecvMax` — src/sp/transport/udp/udp.c header decisions.

  Core Lean only (imported by the driver).
-/
import NngModel.Model.SpStream
import NngModel.Model.Backtrace
import NngModel.Generated.C01
import NngModel.Generated.C11
namespace Nng.Hostile
open Nng Nng.Sp

/-! ### negotiation -/

/-- the byte tests of *_pipe_nego_cb in the C order; `some peer` = accepted -/
def negoCheck (rx : Bytes) : Option Nat :=
  if rx.getD 0 0 ≠ 0 ∨ rx.getD 1 0 ≠ 0x53 ∨ rx.getD 2 0 ≠ 0x50 ∨ rx.getD 3 0 ≠ 0 ∨
      rx.getD 6 0 ≠ 0 ∨ rx.getD 7 0 ≠ 0 then none
  else some ((rx.getD 4 0).toNat * 256 + (rx.getD 5 0).toNat)

/-- protocols of the sockets the REAL executor opens -/
inductive Proto where
  | pair0 | pair1 | rep | req | sub | pull | bus | surveyor | respondent
deriving Repr, DecidableEq, Inhabited

/-- the protocol number the peer must announce (XXX_PEER in the protocol source) -/
def Proto.peer : Proto → Nat
  | .pair0 => Generated.c11ProtoPair0
  | .pair1 => Generated.c11ProtoPair1
  | .rep => Generated.c11ProtoReq
  | .req => Generated.c11ProtoRep
  | .sub => Generated.c11ProtoPub
  | .pull => Generated.c11ProtoPush
  | .bus => Generated.c11ProtoBus
  | .surveyor => Generated.c11ProtoRespondent
  | .respondent => Generated.c11ProtoSurveyor

def Proto.isPair : Proto → Bool
  | .pair0 => true
  | .pair1 => true
  | _ => false

/-- <proto>_pipe_start: 0 = the pipe is added; `busy` = pair socket that already has its pipe -/
def pipeStart (p : Proto) (peer : Nat) (busy : Bool) : Nat :=
  if peer ≠ p.peer then Err.eproto
  else if p.isPair ∧ busy then Err.ebusy
  else 0

/-! ### one connection -/

structure PCfg where
  proto : Proto
  raw : Bool := false
  ttl : Nat := 8
  subPrefix : Bytes := []        -- SUB: the one subscribed topic
  busy : Bool := false           -- PAIR: another pipe is up
deriving Repr

inductive Phase where
  | nego          -- gathering the 8 negotiation bytes
  | up            -- negotiated and accepted by the protocol: the receive machine runs
  | dead          -- closed by this side
deriving Repr, DecidableEq, Inhabited

structure Conn where
  phase : Phase := .nego
  hs : Bytes := []               -- rxlen[0 .. gotrxhead)
  peer : Nat := 0
  rx : Rx                        -- C01 receive machine (meaningful in phase `up`)
  err : Nat := 0                 -- why the connection is dead
deriving Repr, DecidableEq, Inhabited

def connInit (k : Kind) : Conn := { rx := rxInit k }

/-- what the pending negotiation read asks for: wantrxhead - gotrxhead -/
def Conn.negoWant (s : Conn) : Nat := Generated.c01HandshakeLen - s.hs.length

/-- data arriving on one connection -/
def connFeed (c : Cfg) (pc : PCfg) (s : Conn) (d : Bytes) : Conn :=
  match s.phase with
  | .dead => s
  | .up =>
    let r := rxFeed c s.rx d
    if r.err ≠ 0 then { s with rx := r, phase := .dead, err := r.err } else { s with rx := r }
  | .nego =>
    let hs := s.hs ++ d.take s.negoWant
    if hs.length < Generated.c01HandshakeLen then { s with hs := hs }
    else
      match negoCheck hs with
      | none => { s with hs := hs, phase := .dead, err := Err.eproto }
      | some peer =>
        let rv := pipeStart pc.proto peer pc.busy
        if rv ≠ 0 then { s with hs := hs, peer := peer, phase := .dead, err := rv }
        else
          let r := rxFeed c s.rx (d.drop s.negoWant)
          if r.err ≠ 0 then { s with hs := hs, peer := peer, rx := r, phase := .dead, err := r.err }
          else { s with hs := hs, peer := peer, rx := r, phase := .up }

def connRun (c : Cfg) (pc : PCfg) (s : Conn) (chunks : List Bytes) : Conn :=
  chunks.foldl (connFeed c pc) s

/-! ### the protocol's receive callback -/

/-- sub0_recv_cb with one topic subscribed: a message is kept iff it starts with the topic -/
def subMatch (pre body : Bytes) : Bool := pre.length ≤ body.length && body.take pre.length == pre

/-- cooked REP / RESPONDENT: the backtrace is saved in the context, the application sees
    the body with an empty header -/
def cooked : Bt.Outcome → Bt.Outcome
  | .deliver _ b => .deliver [] b
  | o => o

/-- cooked REQ / SURVEYOR: a reply is kept only if its id is the outstanding one -/
def matchId (expectId : Option Bytes) : Bt.Outcome → Bt.Outcome
  | .deliver id b => if some id = expectId then .deliver [] b else .drop
  | o => o

/-- outcome of the protocol's pipe receive callback for one transport message arriving on
    pipe `pipe`.  Cooked REQ and SURVEYOR: a reply that passes the length test is matched
    against the outstanding request id (`expectId`; none: nothing outstanding ⇒ discarded). -/
def protoRecv (pc : PCfg) (pipe : Nat) (expectId : Option Bytes) (w : Bytes) : Bt.Outcome :=
  match pc.proto, pc.raw with
  | .pair0, _ => .deliver [] w
  | .pull, _ => .deliver [] w
  | .bus, false => .deliver [] w
  | .bus, true => .deliver (Bt.w32 pipe) w
  | .sub, _ => if subMatch pc.subPrefix w then .deliver [] w else .drop
  | .pair1, _ => Bt.pair1Recv pc.ttl w
  | .rep, true => Bt.xrepRecv pc.ttl pipe w
  | .rep, false => cooked (Bt.repRecv pc.ttl w)
  | .respondent, true => Bt.xrespondRecv pc.ttl pipe w
  | .respondent, false => cooked (Bt.respondRecv pc.ttl w)
  | .req, true => Bt.xreqRecv w
  | .surveyor, true => Bt.xsurveyRecv w
  | .req, false => matchId expectId (Bt.reqRecv w)
  | .surveyor, false => matchId expectId (Bt.reqRecv w)

/-- run the callback over the transport's deliveries; stop at the first `closePipe`
    (the callback closes the pipe and does not re-arm the receive).  Result: what the
    application gets (header, body) and whether the protocol closed the pipe. -/
def appOut (pc : PCfg) (pipe : Nat) (expectId : Option Bytes) : List Bytes → List (Bytes × Bytes) × Bool
  | [] => ([], false)
  | w :: ws =>
    match protoRecv pc pipe expectId w with
    | .deliver h b => let r := appOut pc pipe expectId ws; ((h, b) :: r.1, r.2)
    | .closePipe => ([], true)
    | _ => appOut pc pipe expectId ws

/-! ### a listening socket with many connections -/

structure Sock where
  accepting : Bool := true          -- the listener's accept is armed
  conns : List Conn := []
deriving Repr

/-- bytes arriving on connection `i` -/
def sockFeed (c : Cfg) (pc : PCfg) (s : Sock) (i : Nat) (d : Bytes) : Sock :=
  match s.conns[i]? with
  | none => s
  | some cn => { s with conns := s.conns.set i (connFeed c pc cn d) }

/-- a new connection is accepted -/
def sockAccept (c : Cfg) (s : Sock) : Sock :=
  if s.accepting then { s with conns := s.conns ++ [connInit c.kind] } else s

/-! ### SP over UDP (src/sp/transport/udp/udp.c) -/

def udpHdrLen : Nat := Generated.c11UdpHdrLen

/-- NNI_GET16LE at offset `o` -/
def le16 (d : Bytes) (o : Nat) : Nat := (d.getD o 0).toNat + 256 * (d.getD (o + 1) 0).toNat

/-- udp_ep_set_recvmaxsz: 0 and anything above 65000 become 65000 -/
def udpSetRecvMax (v : Nat) : Nat :=
  if v = 0 ∨ v > Generated.c11UdpRecvMax then Generated.c11UdpRecvMax else v

inductive UdpAct where
  | ignore                        -- shorter than the header or version ≠ 1: nothing happens
  | noMatch                       -- DATA from an unknown address: counted, nothing else
  | data (payload : Bytes)        -- queued for the pipe of that address
  | discMsgsize                   -- DATA whose declared length lies: DISC(MSGSIZE), that pipe closed
  | creq (type rcvmax refresh : Nat)
  | cack (type rcvmax refresh : Nat)
  | disc (reason : Nat)
  | discProto                     -- unknown opcode: DISC(PROTO) to the sender, no pipe touched
deriving Repr, DecidableEq, Inhabited

/-- udp_recv_data for a datagram whose payload (after the header) is `payload` -/
def udpRecvData (known : Bool) (rcvmax : Nat) (usLength : Nat) (payload : Bytes) : UdpAct :=
  if !known then .noMatch
  else if usLength > payload.length ∨ usLength > rcvmax then .discMsgsize
  else .data (payload.take usLength)

/-- udp_rx_cb for one received datagram `d`; `known`: an association exists for the sender -/
def udpRxCb (d : Bytes) (known : Bool) (rcvmax : Nat) : UdpAct :=
  if d.length ≥ udpHdrLen ∧ (d.getD 0 0).toNat = Generated.c11UdpVersion then
    let op := (d.getD 1 0).toNat
    if op = Generated.c11UdpOpcodes.getD 0 0 then udpRecvData known rcvmax (le16 d 4) (d.drop udpHdrLen)
    else if op = Generated.c11UdpOpcodes.getD 1 1 then .creq (le16 d 2) (le16 d 4) (le16 d 6)
    else if op = Generated.c11UdpOpcodes.getD 2 2 then .cack (le16 d 2) (le16 d 4) (le16 d 6)
    else if op = Generated.c11UdpOpcodes.getD 3 3 then .disc (le16 d 4)
    else .discProto
  else .ignore

end Nng.Hostile
