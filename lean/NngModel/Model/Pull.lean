/-
  Executable model of src/sp/protocol/pipeline0/pull.c as seen through the socket core.
  A pipe holds at most one received message (`held`); it re-arms its transport receive
  only when that message has been handed to a receiver (back-pressure to the pusher).

  Layout: one function per event, each a single record update per C branch
  (see Proofs/Pull.lean).
-/
import NngModel.Proto.Base
import NngModel.Generated.C06
namespace Nng.Pull
open Nng Nng.Proto

structure GMsg where
  gid : Nat          -- ghost: arrival number
  pipe : Nat
  m : WMsg
deriving Repr, DecidableEq, Inhabited

structure Parked where
  aio : Nat
  deadline : Option Nat
deriving Repr, DecidableEq, Inhabited

structure Pipe where
  id : Nat
  closed : Bool := false
  armed : Bool := false
  held : Option GMsg := none
deriving Repr, DecidableEq, Inhabited

structure State where
  opened : Bool := false
  closed : Bool := false
  rq : List Parked := []        -- receivers waiting
  pl : List Nat := []           -- pipes holding a message
  pipes : List Pipe := []
  now : Nat := 0
  readable : Bool := false
  narrive : Nat := 0
  -- ghost history
  arrived : List GMsg := []     -- messages the transport delivered on an open pipe
  delivered : List GMsg := []   -- handed to the application, in order
  discarded : List GMsg := []   -- held by a pipe when it closed (freed in pull0_pipe_fini)
deriving Repr, Inhabited

def peerPush : Nat := Nng.Generated.protoPush

def getP (ps : List Pipe) (p : Nat) : Option Pipe := ps.find? (·.id == p)

def setP (ps : List Pipe) (pp : Pipe) : List Pipe :=
  ps.map fun q => if q.id == pp.id then pp else q

def getPipe (s : State) (p : Nat) : Option Pipe := getP s.pipes p

/-- nni_pipe_close as seen by this protocol: pull0_pipe_close, later pull0_pipe_fini
    frees the message the pipe still holds -/
def closePipe (s : State) (p : Nat) : State × List Out :=
  match getPipe s p with
  | none => (s, [])
  | some pp =>
    if pp.closed then (s, [])
    else
      let pl := s.pl.filter (· != p)
      ({ s with pipes := setP s.pipes { pp with closed := true, armed := false, held := none },
                discarded := s.discarded ++ pp.held.toList,
                pl := pl,
                readable := if s.pl.contains p && pl.isEmpty then false else s.readable },
        [Out.pclosed p])

def closeAll (s : State) : List Nat → State × List Out
  | [] => (s, [])
  | p :: ps =>
    let r := closePipe s p
    let r2 := closeAll r.1 ps
    (r2.1, r.2 ++ r2.2)

def deadlineOf (now : Nat) : Mode → Option Nat
  | .ms n => some (now + n)
  | _ => none

def failParked (s : State) (a : Nat) (rv : Nat) : State × List Out :=
  if s.rq.any (·.aio == a) then
    ({ s with rq := s.rq.filter (·.aio != a) }, [Out.done a rv none false])
  else (s, [])

def failEach (s : State) (rv : Nat) : List Nat → State × List Out
  | [] => (s, [])
  | a :: as =>
    let r := failParked s a rv
    let r2 := failEach r.1 rv as
    (r2.1, r.2 ++ r2.2)

def isDue (now : Nat) (pk : Parked) : Bool :=
  match pk.deadline with | some d => d < now | none => false

def expire (s : State) : State × List Out :=
  failEach s Err.etimedout ((s.rq.filter (isDue s.now)).map (·.aio))

/-- a receive that finds no message fails at once in these modes -/
def failNow : Mode → Option Nat
  | .nb => some Err.eagain
  | .ms 0 => some Err.etimedout
  | _ => none

def evPipeAdd (s : State) (peer : Nat) : State × List Out :=
  let id := s.pipes.length
  if peer != peerPush then
    ({ s with pipes := s.pipes ++ [{ id := id, closed := true }] }, [.pipe id, .pclosed id])
  else
    ({ s with pipes := s.pipes ++ [{ id := id, armed := true }] }, [.pipe id, .parm id])

def evPipeDrop (s : State) (p : Nat) : State × List Out :=
  match getPipe s p with
  | some pp =>
    if pp.closed then (s, [.rv (-1)])
    else let r := closePipe s p; (r.1, [.rv 0] ++ r.2)
  | none => (s, [.rv (-1)])

/-- pull0_recv_cb -/
def evRecvDone (s : State) (p : Nat) (r : Except Nat Bytes) : State × List Out :=
  match getPipe s p with
  | some pp =>
    if pp.closed || !pp.armed then (s, [.rv (-1)])
    else
      match r with
      | .error _ => let r := closePipe s p; (r.1, [.rv 0] ++ r.2)
      | .ok b =>
        let gm : GMsg := ⟨s.narrive, p, ⟨[], b⟩⟩
        match s.rq with
        | [] =>
          -- nobody waiting: the pipe keeps the message and does not re-arm
          ({ s with narrive := s.narrive + 1, arrived := s.arrived ++ [gm],
                    pipes := setP s.pipes { pp with armed := false, held := some gm },
                    pl := s.pl ++ [p],
                    readable := if (s.pl ++ [p]).head? == some p then true else s.readable },
            [.rv 0])
        | a :: rest =>
          ({ s with narrive := s.narrive + 1, arrived := s.arrived ++ [gm],
                    rq := rest, delivered := s.delivered ++ [gm] },
            [.rv 0, .parm p, .done a.aio 0 (some gm.m) false])
  | none => (s, [.rv (-1)])

/-- pull0_sock_recv -/
def evRecv (s : State) (a : Nat) (mode : Mode) : State × List Out :=
  if s.rq.any (·.aio == a) then (s, [.other "aio-busy"]) else
  match s.pl with
  | [] =>
    match failNow mode with
    | some rv => (s, [.done a rv none false])
    | none => ({ s with rq := s.rq ++ [⟨a, deadlineOf s.now mode⟩] }, [])
  | p :: rest =>
    match getPipe s p with
    | some pp =>
      match pp.held with
      | some gm =>
        ({ s with pl := rest, delivered := s.delivered ++ [gm],
                  readable := if rest.isEmpty then false else s.readable,
                  pipes := setP s.pipes { pp with held := none, armed := true } },
          [.done a 0 (some gm.m) false, .parm p])
      | none => (s, [.other "model-invariant-broken"])
    | none => (s, [.other "model-invariant-broken"])

def evSend (s : State) (a : Nat) : State × List Out :=
  if s.rq.any (·.aio == a) then (s, [.other "aio-busy"]) else (s, [.done a Err.enotsup none true])

/-- pull0_sock_close fails the waiting receivers; the core closes every pipe -/
def evClose (s : State) : State × List Out :=
  let outs1 := s.rq.map fun pk => Out.done pk.aio Err.eclosed none false
  let r := closeAll { s with rq := [] } (s.pipes.map (·.id))
  ({ r.1 with closed := true }, outs1 ++ r.2)

def stepLive (s : State) : Ev → State × List Out
  | .openSock _ _ => (s, [.other "bad-op"])
  | .pipeAdd peer => evPipeAdd s peer
  | .pipeDrop p => evPipeDrop s p
  | .sendDone _ _ => (s, [.rv (-1)])
  | .recvDone p r => evRecvDone s p r
  | .send _ a _ _ => evSend s a
  | .recv _ a mode => evRecv s a mode
  | .cancel a => failParked s a Err.ecanceled
  | .abort a rv => failParked s a rv
  | .advance ms => expire { s with now := s.now + ms }
  | .ctxOpen _ => (s, [.rv Err.enotsup])
  | .ctxClose _ => (s, [.rv (-1)])
  | .setopt _ _ _ _ => (s, [.other "unmodelled-option"])
  | .getopt _ _ _ => (s, [.other "unmodelled-option"])
  | .poll => (s, [.poll (some s.readable) none])
  | .sub _ _ => (s, [.other "bad-op"])
  | .unsub _ _ => (s, [.other "bad-op"])
  | .close => evClose s

/-- before `open` and after `close` only the clock moves -/
def stepIdle (s : State) : Ev → State × List Out
  | .advance ms => ({ s with now := s.now + ms }, [])
  | _ => (s, [.other "nosock"])

def step (s : State) (ev : Ev) : State × List Out :=
  if !s.opened then
    match ev with
    | .openSock _ _ => ({ s with opened := true }, [.rv 0])
    | ev => stepIdle s ev
  else if s.closed then stepIdle s ev
  else stepLive s ev

end Nng.Pull
