/-
  Executable model of src/sp/protocol/pipeline0/pull.c as seen through the socket core.
  A pipe holds at most one received message (`held`); it re-arms its transport receive
  only when that message has been handed to a receiver (back-pressure to the pusher).
-/
import NngModel.Proto.Base
import NngModel.Generated.Consts
namespace Nng.Pull
open Nng Nng.Proto

structure GMsg where
  gid : Nat          -- ghost: arrival number
  pipe : Nat
  m : WMsg
deriving Repr, DecidableEq, Inhabited

structure Parked where
  aio : Nat
  deadline : Option Nat
deriving Repr, DecidableEq, Inhabited

structure Pipe where
  id : Nat
  closed : Bool := false
  armed : Bool := false
  held : Option GMsg := none
deriving Repr, DecidableEq, Inhabited

structure State where
  opened : Bool := false
  closed : Bool := false
  rq : List Parked := []        -- receivers waiting
  pl : List Nat := []           -- pipes holding a message
  pipes : List Pipe := []
  now : Nat := 0
  readable : Bool := false
  narrive : Nat := 0
  -- ghost history
  arrived : List GMsg := []     -- messages the transport delivered on an open pipe
  delivered : List GMsg := []   -- handed to the application, in order
  discarded : List GMsg := []   -- held by a pipe when it closed (freed in pull0_pipe_fini)
deriving Repr, Inhabited

def peerPush : Nat := Nng.Generated.protoPush

def getPipe (s : State) (p : Nat) : Option Pipe := s.pipes.find? (·.id == p)
def setPipe (s : State) (pp : Pipe) : State :=
  { s with pipes := s.pipes.map fun q => if q.id == pp.id then pp else q }

def closePipe (s : State) (p : Nat) : State × List Out :=
  match getPipe s p with
  | none => (s, [])
  | some pp =>
    if pp.closed then (s, [])
    else
      let s := setPipe s { pp with closed := true, armed := false, held := none }
      let s := match pp.held with
        | some m => { s with discarded := s.discarded ++ [m] }
        | none => s
      let s :=
        if s.pl.contains p then
          let pl := s.pl.filter (· != p)
          let s := { s with pl := pl }
          if pl.isEmpty then { s with readable := false } else s
        else s
      (s, [Out.pclosed p])

def deadlineOf (now : Nat) : Mode → Option Nat
  | .ms n => some (now + n)
  | _ => none

def failParked (s : State) (a : Nat) (rv : Nat) : State × List Out :=
  if s.rq.any (·.aio == a) then
    ({ s with rq := s.rq.filter (·.aio != a) }, [Out.done a rv none false])
  else (s, [])

def expire (s : State) : State × List Out :=
  let due := s.rq.filter fun pk => match pk.deadline with | some d => d < s.now | none => false
  due.foldl (fun (acc : State × List Out) pk =>
    let (s', o) := failParked acc.1 pk.aio Err.etimedout
    (s', acc.2 ++ o)) (s, [])

def step (s : State) (ev : Ev) : State × List Out :=
  if !s.opened then
    match ev with
    | .openSock _ _ => ({ s with opened := true }, [.rv 0])
    | .advance ms => ({ s with now := s.now + ms }, [])
    | _ => (s, [.other "nosock"])
  else if s.closed then
    match ev with
    | .advance ms => ({ s with now := s.now + ms }, [])
    | _ => (s, [.other "nosock"])
  else
  match ev with
  | .openSock _ _ => (s, [.other "bad-op"])
  | .pipeAdd peer =>
    let id := s.pipes.length
    if peer != peerPush then
      ({ s with pipes := s.pipes ++ [{ id := id, closed := true }] }, [.pipe id, .pclosed id])
    else
      ({ s with pipes := s.pipes ++ [{ id := id, armed := true }] }, [.pipe id, .parm id])
  | .pipeDrop p =>
    match getPipe s p with
    | some pp =>
      if pp.closed then (s, [.rv (-1)])
      else let (s, o) := closePipe s p; (s, [.rv 0] ++ o)
    | none => (s, [.rv (-1)])
  | .sendDone _ _ => (s, [.rv (-1)])
  | .recvDone p r =>
    match getPipe s p with
    | some pp =>
      if pp.closed || !pp.armed then (s, [.rv (-1)])
      else
        match r with
        | .error _ => let (s, o) := closePipe s p; (s, [.rv 0] ++ o)
        | .ok b =>
          let gm : GMsg := ⟨s.narrive, p, ⟨[], b⟩⟩
          let s := { s with narrive := s.narrive + 1, arrived := s.arrived ++ [gm] }
          match s.rq with
          | [] =>
            -- nobody waiting: the pipe keeps the message and does not re-arm
            let s := setPipe s { pp with armed := false, held := some gm }
            let s := { s with pl := s.pl ++ [p] }
            let s := if s.pl.head? == some p then { s with readable := true } else s
            (s, [.rv 0])
          | a :: rest =>
            let s := { s with rq := rest, delivered := s.delivered ++ [gm] }
            (s, [.rv 0, .parm p, .done a.aio 0 (some gm.m) false])
    | none => (s, [.rv (-1)])
  | .send _ a _ _ =>
    if s.rq.any (·.aio == a) then (s, [.other "aio-busy"]) else (s, [.done a Err.enotsup none true])
  | .recv _ a mode =>
    if s.rq.any (·.aio == a) then (s, [.other "aio-busy"]) else
    match s.pl with
    | [] =>
      match mode with
      | .nb => (s, [.done a Err.eagain none false])
      | .ms 0 => (s, [.done a Err.etimedout none false])
      | _ => ({ s with rq := s.rq ++ [⟨a, deadlineOf s.now mode⟩] }, [])
    | p :: rest =>
      match getPipe s p with
      | some pp =>
        match pp.held with
        | some gm =>
          let s := { s with pl := rest, delivered := s.delivered ++ [gm] }
          let s := if rest.isEmpty then { s with readable := false } else s
          let s := setPipe s { pp with held := none, armed := true }
          (s, [.done a 0 (some gm.m) false, .parm p])
        | none => (s, [.other "model-invariant-broken"])
      | none => (s, [.other "model-invariant-broken"])
  | .cancel a => failParked s a Err.ecanceled
  | .abort a rv => failParked s a rv
  | .advance ms => expire { s with now := s.now + ms }
  | .ctxOpen _ => (s, [.rv Err.enotsup])
  | .ctxClose _ => (s, [.rv (-1)])
  | .setopt _ _ _ _ => (s, [.other "unmodelled-option"])
  | .getopt _ _ _ => (s, [.other "unmodelled-option"])
  | .poll => (s, [.poll (some s.readable) none])
  | .sub _ _ => (s, [.other "bad-op"])
  | .unsub _ _ => (s, [.other "bad-op"])
  | .close =>
    let outs1 := s.rq.map fun pk => Out.done pk.aio Err.eclosed none false
    let s := { s with rq := [] }
    let (s, outs2) := s.pipes.foldl (fun (acc : State × List Out) pp =>
      let (s', o) := closePipe acc.1 pp.id
      (s', acc.2 ++ o)) (s, [])
    ({ s with closed := true }, outs1 ++ outs2)

end Nng.Pull
