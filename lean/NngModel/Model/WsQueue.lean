/-
  The receive-side queueing of src/supplemental/websocket/websocket.c, between the frame reader
  (Model/Ws.lean: header parsing, checks, unmasking — reused here unchanged in shape) and the
  application:

    ws->rxq      frames (payloads) received and not yet taken by a receive
    ws->recvq    receive aios waiting, FIFO
    ws->rxframe  the frame being read (non-NULL from ws_start_read until the frame is queued/freed;
                 it STAYS set on every error return, which is why no read is ever issued again)
    ws_start_read        when a frame read is issued — and when it is NOT (the pause rule)
    ws_read_finish_msg   message mode: ONE message is assembled from ALL frames of rxq for the first waiter
    ws_read_finish_str   stream mode: waiters are filled from the frames, frames may be partly consumed
    ws_str_recv          posting a receive (append, finish if first, fail if closed, start read)
    ws_read_cancel       cancelling a receive (remove + finish with the error; nothing else happens)
    ws_close / ws_fini   close: every waiter fails NNG_ECLOSED; fini: queued frames and rxframe are freed

  Model/Ws.lean fixed the discipline "one receive is always posted"; here receives are posted,
  cancelled and completed at arbitrary points relative to byte arrivals.  The byte transport below
  the frame layer is `pend`: bytes that arrived and that no read has consumed yet (http_conn.c's
  buffer / the socket buffer).  A read of `want` bytes completes as soon as `pend` holds that many.

  Assumptions (stated, also imposed by harness/u_ws.c): ws->ready; NNI_ALLOC_STRUCT(frame) and
  nni_msg_alloc succeed; a stream-mode receive has ONE iov of `cap` bytes.  `cap = 0`: the model
  completes the receive with 0 bytes, which is what the code does with
  integration/fixes/WSQ-ws-stream-recv-empty-iov-spin.patch; without it the inner loop of
  ws_read_finish_str never terminates on a zero-length iov (holding ws->mtx) - the generator never
  posts an empty buffer.
  Ghost fields (no counterpart in C): `used` (all bytes handed to ws_read_cb so far), `allocs`/`frees`
  (ws_frame structs allocated by ws_start_read / released by ws_frame_fini on the receive side).
  Core Lean only.
-/
import NngModel.Model.Ws
namespace Nng.WsQ
open Nng Nng.Ws

/-- a receive aio: harness id, and the iov size (only used in stream mode) -/
structure Rcv where
  id : Nat
  cap : Nat
  deriving Repr

inductive Out where
  | done (id : Nat) (rv : Nat) (data : Bytes)   -- receive `id` completed: rv = 0 with a message / stream bytes, else an error
  | tx (b : Bytes)                              -- frame written (PONG, CLOSE)
  deriving Repr

structure QSt where
  /-- phase/want (`.idle`/0 = no read outstanding), inmsg, rxq, closed, peerClosed, rng; got/accR stay 0/[] -/
  w : Ws.St := { phase := .idle, want := 0 }
  recvq : List Rcv := []
  rxframe : Bool := false
  pend : Bytes := []
  used : Bytes := []
  allocs : Nat := 0
  frees : Nat := 0
  deriving Repr

/-- ws_close: every waiting receive fails with NNG_ECLOSED; if not yet closed, ws_send_close(code) -/
def qClose (cfg : Cfg) (q : QSt) (code : Nat) : QSt × List Out :=
  let fails := q.recvq.map fun r => Out.done r.id closeErr []
  if q.w.closed then ({ q with recvq := [] }, fails)
  else
    match encodeControl cfg.server q.w.rng opClose (beEncode 2 code) with
    | some (fr, rng') => ({ q with recvq := [], w := { q.w with closed := true, rng := rng' } }, fails ++ [.tx fr])
    | none => ({ q with recvq := [], w := { q.w with closed := true } }, fails)

/-- the error returns of ws_read_cb / ws_read_frame_cb: ws_close(code); rxframe stays set, no read is outstanding -/
def qFail (cfg : Cfg) (q : QSt) (code : Nat) : QSt × List Out :=
  let r := qClose cfg q code
  ({ r.1 with w := { r.1.w with phase := .idle, want := 0, got := 0, accR := [] } }, r.2)

/-- ws_send_control -/
def qSendControl (cfg : Cfg) (q : QSt) (op : Nat) (payload : Bytes) : QSt × List Out :=
  if q.w.closed then (q, [])
  else
    match encodeControl cfg.server q.w.rng op payload with
    | some (fr, rng') => ({ q with w := { q.w with rng := rng' } }, [.tx fr])
    | none => (q, [])

/-- ws_start_read -/
def qStartRead (q : QSt) : QSt :=
  if q.rxframe || q.w.closed then q                       -- already reading or closed
  else if q.recvq.isEmpty && !q.w.rxq.isEmpty then q       -- nobody waits and a data frame is buffered: stop reading
  else { q with rxframe := true, allocs := q.allocs + 1,
                w := { q.w with phase := .head, want := 2, got := 0, accR := [] } }

/-- ws_read_finish_msg -/
def qReadFinishMsg (q : QSt) : QSt × List Out :=
  match q.recvq with
  | [] => (q, [])
  | r :: rest =>
    if q.w.inmsg || q.w.rxq.isEmpty then (q, [])
    else ({ q with recvq := rest, frees := q.frees + q.w.rxq.length, w := { q.w with rxq := [] } },
          [.done r.id 0 q.w.rxq.flatten])

/-- the inner `while ((frame != NULL) && (niov != 0))` of ws_read_finish_str for one iov with `cap` bytes left:
    (bytes copied, frames left, frames released) -/
def strCopy : Nat → List Bytes → Bytes × List Bytes × Nat
  | _, [] => ([], [], 0)
  | cap, f :: fs =>
    if cap = 0 then ([], f :: fs, 0)
    else if f.length ≤ cap then
      let r := strCopy (cap - f.length) fs
      (f ++ r.1, r.2.1, r.2.2 + 1)
    else (f.take cap, f.drop cap :: fs, 0)

/-- the `for (;;)` of ws_read_finish_str -/
def qReadFinishStrLoop : Nat → QSt → QSt × List Out
  | 0, q => (q, [])
  | fuel + 1, q =>
    match q.recvq with
    | [] => (q, [])
    | r :: rest =>
      match q.w.rxq with
      | [] => (q, [])
      | f :: fs =>
        if f.length = 0 then
          qReadFinishStrLoop fuel { q with frees := q.frees + 1, w := { q.w with rxq := fs } }
        else
          let c := strCopy r.cap (f :: fs)
          let rr := qReadFinishStrLoop fuel { q with recvq := rest, frees := q.frees + c.2.2, w := { q.w with rxq := c.2.1 } }
          (rr.1, .done r.id 0 c.1 :: rr.2)

def qReadFinishStr (q : QSt) : QSt × List Out :=
  qReadFinishStrLoop (q.recvq.length + q.w.rxq.length + 1) q

/-- ws_read_finish -/
def qReadFinish (cfg : Cfg) (q : QSt) : QSt × List Out :=
  if cfg.isstream then qReadFinishStr q else qReadFinishMsg q

/-- tail of ws_read_frame_cb (`ws_read_finish`) followed by ws_read_cb's `ws_start_read` -/
def qFinishAndRestart (cfg : Cfg) (q : QSt) (evs : List Out) : QSt × List Out :=
  let r := qReadFinish cfg q
  (qStartRead r.1, evs ++ r.2)

/-- `ws->rxframe = NULL; nni_list_append(&ws->rxq, frame)` -/
def qAppend (q : QSt) (inmsg : Bool) (payload : Bytes) : QSt :=
  { q with rxframe := false, w := { q.w with inmsg := inmsg, rxq := q.w.rxq ++ [payload] } }

/-- `ws->rxframe = NULL; ws_frame_fini(frame)` -/
def qDrop (q : QSt) : QSt := { q with rxframe := false, frees := q.frees + 1 }

/-- the WS_TEXT (after its test) / WS_BINARY case -/
def qDataFrame (cfg : Cfg) (q : QSt) (f : RxFrame) (payload : Bytes) : QSt × List Out :=
  if q.w.inmsg then qFail cfg q 1002
  else qFinishAndRestart cfg (qAppend q (!f.final) payload) []

/-- ws_read_frame_cb followed by ws_start_read -/
def qFrameCb (cfg : Cfg) (q : QSt) (f : RxFrame) (payload : Bytes) : QSt × List Out :=
  if f.op = 0 then
    if !q.w.inmsg then qFail cfg q 1002
    else qFinishAndRestart cfg (qAppend q (if f.final then false else q.w.inmsg) payload) []
  else if f.op = 1 then
    if !cfg.recvText then qFail cfg q 1003 else qDataFrame cfg q f payload
  else if f.op = 2 then qDataFrame cfg q f payload
  else if f.op = 9 then
    if f.len > 125 then qFail cfg q 1002
    else
      let r := qSendControl cfg q opPong payload
      qFinishAndRestart cfg (qDrop r.1) r.2
  else if f.op = 10 then
    if f.len > 125 then qFail cfg q 1002 else qFinishAndRestart cfg (qDrop q) []
  else if f.op = 8 then
    -- peer_closed = true; ws_close(NORMAL) only if we have not closed yet; return with rxframe still set
    if q.w.closed then ({ q with w := { q.w with peerClosed := true, phase := .idle, want := 0, got := 0, accR := [] } }, [])
    else qFail cfg { q with w := { q.w with peerClosed := true } } 1000
  else qFail cfg q 1002

def qComplete (cfg : Cfg) (q : QSt) (f : RxFrame) (payload : Bytes) : QSt × List Out :=
  qFrameCb cfg q f (if f.masked then applyMask f.mask payload else payload)

def qAcceptHdr (cfg : Cfg) (q : QSt) (f0 : RxFrame) : QSt × List Out :=
  let f := { f0 with len := hdrLen f0, mask := if f0.masked then (f0.ext.drop (f0.hlen - 6)).take 4 else [] }
  if hdrLen f0 ≠ 0 then
    if hdrLen f0 ≥ 126 ∧ hdrLen f0 > cfg.allocLimit then qFail cfg q 1011
    else ({ q with w := { q.w with phase := .data f, want := hdrLen f0, got := 0, accR := [] } }, [])
  else qComplete cfg q f []

/-- the `frame->buf == NULL` block of ws_read_cb (the recvmax sum runs over ALL of rxq) -/
def qChecks (cfg : Cfg) (q : QSt) (f0 : RxFrame) : QSt × List Out :=
  if f0.b1.toNat % 128 = 127 ∧ hdrLen f0 < 65536 then qFail cfg q 1002
  else if f0.b1.toNat % 128 = 126 ∧ hdrLen f0 < 126 then qFail cfg q 1002
  else if hdrLen f0 > cfg.maxframe ∧ cfg.maxframe > 0 then qFail cfg q 1009
  else if cfg.isstream = false ∧ cfg.recvmax > 0 ∧ (Generated.wsRecvmaxSkipsControl = false ∨ f0.op / 8 % 2 = 0) ∧
      totlen q.w (hdrLen f0) > cfg.recvmax then qFail cfg q 1009
  else if f0.masked = true ∧ cfg.server = false then qFail cfg q 1002
  else if f0.masked = false ∧ cfg.server = true then qFail cfg q 1002
  else qAcceptHdr cfg q f0

def qHeadCb (cfg : Cfg) (q : QSt) (b0 b1 : UInt8) : QSt × List Out :=
  let masked := decide (b1.toNat ≥ 128)
  let l7 := b1.toNat % 128
  let hlen := 2 + (if masked then 4 else 0) + (if l7 = 127 then 8 else if l7 = 126 then 2 else 0)
  let f : RxFrame := { b0 := b0, b1 := b1, hlen := hlen, op := b0.toNat % 128, final := decide (b0.toNat ≥ 128), masked := masked }
  if hlen ≠ 2 then ({ q with w := { q.w with phase := .ext f, want := hlen - 2, got := 0, accR := [] } }, [])
  else qChecks cfg q f

/-- while ws_read_cb runs no read is outstanding -/
def qIdle (q : QSt) : QSt := { q with w := idleOf q.w }

/-- one ws_read_cb invocation: the outstanding read completed with exactly `bytes` -/
def qReadCb (cfg : Cfg) (q : QSt) (bytes : Bytes) : QSt × List Out :=
  match q.w.phase with
  | .head => qHeadCb cfg (qIdle q) (bytes.getD 0 0) (bytes.getD 1 0)
  | .ext f => qChecks cfg (qIdle q) { f with ext := bytes }
  | .data f => qComplete cfg (qIdle q) f bytes
  | .idle => (qIdle q, [])

/-- the transport: as long as the outstanding read can be satisfied from `pend`, complete it -/
def pump (cfg : Cfg) : Nat → QSt → QSt × List Out
  | 0, q => (q, [])
  | fuel + 1, q =>
    if q.w.want = 0 ∨ q.pend.length < q.w.want then (q, [])
    else
      let bytes := q.pend.take q.w.want
      let r := qReadCb cfg { q with pend := q.pend.drop q.w.want, used := q.used ++ bytes } bytes
      let r2 := pump cfg fuel r.1
      (r2.1, r.2 ++ r2.2)

/-- ws_str_recv -/
def qRecv (cfg : Cfg) (q : QSt) (r : Rcv) : QSt × List Out :=
  let q1 := { q with recvq := q.recvq ++ [r] }
  -- `if (nni_list_first(&ws->recvq) == aio) ws_read_finish(ws)`
  let f := if q.recvq.isEmpty then qReadFinish cfg q1 else (q1, [])
  -- `if (ws->closed && nni_aio_list_active(aio))`: remove, NNG_ECLOSED, return
  if f.1.w.closed && f.1.recvq.any (·.id == r.id) then
    ({ f.1 with recvq := f.1.recvq.filter (·.id != r.id) }, f.2 ++ [.done r.id closeErr []])
  else (qStartRead f.1, f.2)

/-- ws_read_cancel: `if (nni_aio_list_active(aio)) { remove; finish_error(rv) }` -/
def qCancel (q : QSt) (id rv : Nat) : QSt × List Out :=
  if q.recvq.any (·.id == id) then ({ q with recvq := q.recvq.filter (·.id != id) }, [.done id rv []])
  else (q, [])

/-- ws_fini (after ws_stop's ws_close_error(NORMAL_CLOSE); nni_aio_stop(rxaio) cancels the outstanding read):
    every frame of rxq and the rxframe are released -/
def qFini (cfg : Cfg) (q : QSt) : QSt × List Out :=
  let r := qClose cfg q 1000
  ({ r.1 with rxframe := false, frees := r.1.frees + r.1.w.rxq.length + (if r.1.rxframe then 1 else 0),
              w := { r.1.w with rxq := [], phase := .idle, want := 0, got := 0, accR := [] } }, r.2)

inductive QEv where
  | bytes (bs : Bytes)          -- bytes arrive at the transport (any cut of the stream)
  | post (id cap : Nat)         -- the application posts a receive
  | cancel (id rv : Nat)        -- the application cancels it / it times out (rv = NNG_ECANCELED / NNG_ETIMEDOUT)
  | close                       -- ws_str_close
  deriving Repr

def step (cfg : Cfg) (q : QSt) : QEv → QSt × List Out
  | .bytes bs =>
    pump cfg (q.pend.length + bs.length + 1) { q with pend := q.pend ++ bs }
  | .post id cap =>
    let r := qRecv cfg q { id := id, cap := cap }
    let r2 := pump cfg (r.1.pend.length + 1) r.1
    (r2.1, r.2 ++ r2.2)
  | .cancel id rv => qCancel q id rv
  | .close => qClose cfg q 1000

def run (cfg : Cfg) : QSt → List QEv → QSt × List Out
  | q, [] => (q, [])
  | q, e :: es =>
    let r1 := step cfg q e
    let r2 := run cfg r1.1 es
    (r2.1, r1.2 ++ r2.2)

/-- the byte stream an event list carries -/
def streamOf : List QEv → Bytes
  | [] => []
  | .bytes bs :: es => bs ++ streamOf es
  | _ :: es => streamOf es

/-- what the receives completed successfully with, in completion order -/
def delivered : List Out → List Bytes
  | [] => []
  | .done _ 0 d :: os => d :: delivered os
  | _ :: os => delivered os

/-- the state of a fresh connection: nothing is read before the first receive is posted -/
def init : QSt := {}

end Nng.WsQ
