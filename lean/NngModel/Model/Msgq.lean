/-
  Executable model of src/core/msgqueue.c (nni_msgq_*), function by function.

  Representation: `mq_msgs` is the list of its `mq_alloc` slots (`some tag` = a message the
  queue owns; `none` = NULL from nni_zalloc, or ghost-cleared after the message was handed
  out).  The two aio lists are lists of aio ids (`putq` with the message each blocked writer
  holds).  Index wrap tests are the ones written in the C code, site by site
  (`== alloc` in run_putq/run_getq/tryput and the copy loop of resize, `>= alloc` in close/fini and
  in the drop loop of resize -- the latter is the *fixed* code, see finding F1: the pinned tree has
  `> alloc` there).
  Every slot access goes through `rd`/`wr` and feeds the `safe` flag.  nni_aio_start is assumed
  to succeed (aio not stopped, no zero timeout: see finding F13 for that path); callbacks run
  elsewhere, the model records the completions `(aio, result, message)` in call order.
-/
import NngModel.Base.Bytes
import NngModel.Spec.Queues
import NngModel.Generated.C18

namespace Nng.Msgq
open Nng.QSpec (Msg Ev)

/-- `alloc = cap + 2` (extracted) -/
def spare : Nat := Nng.Generated.c18MsgqSpare

structure Msgq where
  cap : Nat
  alloc : Nat
  len : Nat
  get : Nat
  put : Nat
  closed : Bool
  msgs : List (Option Msg)
  putq : List (Nat × Msg)
  getq : List Nat
deriving Repr, DecidableEq, Inhabited

structure Res where
  q : Msgq
  rv : Nat
  evs : List Ev := []
  freed : List Msg := []
  safe : Bool := true
deriving Repr, DecidableEq

def rd (a : List (Option Msg)) (i : Nat) : Msg × Bool :=
  match a[i]? with
  | some (some m) => (m, true)
  | _ => (0, false)

def wr (a : List (Option Msg)) (i : Nat) (m : Msg) : List (Option Msg) × Bool :=
  if i < a.length then (a.set i (some m), true) else (a, false)

/-- nni_msgq_init (allocation assumed to succeed) -/
def init (cap : Nat) : Msgq :=
  { cap := cap, alloc := cap + spare, len := 0, get := 0, put := 0, closed := false,
    msgs := List.replicate (cap + spare) none, putq := [], getq := [] }

/-- `mq_msgs[mq_put++] = msg; if (mq_put == mq_alloc) mq_put = 0; mq_len++;` -/
def enq (q : Msgq) (m : Msg) : Msgq × Bool :=
  let w := wr q.msgs q.put m
  ({ q with msgs := w.1, put := if q.put + 1 = q.alloc then 0 else q.put + 1, len := q.len + 1 }, w.2)

/-- `msg = mq_msgs[mq_get++]; if (mq_get == mq_alloc) mq_get = 0; mq_len--;` -/
def deqEq (q : Msgq) : Msgq × Msg × Bool :=
  let r := rd q.msgs q.get
  ({ q with msgs := q.msgs.set q.get none, get := if q.get + 1 = q.alloc then 0 else q.get + 1,
            len := q.len - 1 }, r.1, r.2)

/-- the same with the test `if (mq_get >= mq_alloc) mq_get = 0;` (close, fini, fixed resize) -/
def deqGe (q : Msgq) : Msgq × Msg × Bool :=
  let r := rd q.msgs q.get
  ({ q with msgs := q.msgs.set q.get none, get := if q.get + 1 ≥ q.alloc then 0 else q.get + 1,
            len := q.len - 1 }, r.1, r.2)

/-- nni_msgq_run_putq: recursion on the list of blocked writers (each turn removes its head
    or stops) -/
def runPutq : List (Nat × Msg) → Msgq → List Ev → Bool → Msgq × List Ev × Bool
  | [], q, evs, s => ({ q with putq := [] }, evs, s)
  | (w, m) :: ps, q, evs, s =>
    match q.getq with
    | r :: gs => runPutq ps { q with getq := gs } (evs ++ [(r, 0, some m), (w, 0, none)]) s
    | [] =>
      if q.len < q.cap then
        let e := enq q m
        runPutq ps e.1 (evs ++ [(w, 0, none)]) (s && e.2)
      else ({ q with putq := (w, m) :: ps }, evs, s)

/-- nni_msgq_run_getq: recursion on the list of blocked readers -/
def runGetq : List Nat → Msgq → List Ev → Bool → Msgq × List Ev × Bool
  | [], q, evs, s => ({ q with getq := [] }, evs, s)
  | r :: gs, q, evs, s =>
    if q.len ≠ 0 then
      let d := deqEq q
      runGetq gs d.1 (evs ++ [(r, 0, some d.2.1)]) (s && d.2.2)
    else
      match q.putq with
      | (w, m) :: ps => runGetq gs { q with putq := ps } (evs ++ [(w, 0, none), (r, 0, some m)]) s
      | [] => ({ q with getq := r :: gs }, evs, s)

/-- nni_msgq_run_notify: (sendable, recvable).  Sendable is the *fixed* formula (finding C18N-2:
    the pinned tree lacks the `nni_list_empty(&mq->mq_aio_putq) &&` conjunct, so the level stayed up
    while nni_msgq_aio_put makes a new writer wait behind a parked one). -/
def notify (q : Msgq) : Bool × Bool :=
  (q.putq.isEmpty && (decide (q.len < q.cap) || !q.getq.isEmpty), decide (q.len ≠ 0) || !q.putq.isEmpty)

/-- nni_msgq_aio_put -/
def aioPut (q : Msgq) (aio : Nat) (m : Msg) : Res :=
  let r := runPutq (q.putq ++ [(aio, m)]) q [] true
  { q := r.1, rv := 0, evs := r.2.1, safe := r.2.2 }

/-- nni_msgq_aio_get -/
def aioGet (q : Msgq) (aio : Nat) : Res :=
  let r := runGetq (q.getq ++ [aio]) q [] true
  { q := r.1, rv := 0, evs := r.2.1, safe := r.2.2 }

/-- nni_msgq_tryput -/
def tryput (q : Msgq) (m : Msg) : Res :=
  if q.closed then { q, rv := Err.eclosed }
  else match q.getq with
    | r :: gs => { q := { q with getq := gs }, rv := 0, evs := [(r, 0, some m)] }
    | [] =>
      if q.len < q.cap then
        let e := enq q m
        { q := e.1, rv := 0, safe := e.2 }
      else { q, rv := Err.eagain }

/-- nni_msgq_cancel (via nni_aio_abort) -/
def cancel (q : Msgq) (aio rv : Nat) : Res :=
  if q.getq.contains aio ∨ (q.putq.map (·.1)).contains aio then
    { q := { q with getq := q.getq.filter (· ≠ aio), putq := q.putq.filter (·.1 ≠ aio) },
      rv := 0, evs := [(aio, rv, none)] }
  else { q, rv := 0 }

/-- `while (mq_len > 0) { msg = mq_msgs[mq_get++]; if (mq_get >= mq_alloc) mq_get = 0; mq_len--; free }` -/
def drainLoop : Nat → Msgq → List Msg → Bool → Msgq × List Msg × Bool
  | 0, q, fr, s => (q, fr, s && decide (q.len = 0))
  | f + 1, q, fr, s =>
    if q.len > 0 then
      let d := deqGe q
      drainLoop f d.1 (fr ++ [d.2.1]) (s && d.2.2)
    else (q, fr, s)

/-- nni_msgq_close -/
def close (q : Msgq) : Res :=
  let d := drainLoop q.len { q with closed := true } [] true
  { q := { d.1 with getq := [], putq := [] }, rv := 0,
    evs := q.getq.map (fun r => (r, Err.eclosed, none)) ++ q.putq.map (fun p => (p.1, Err.eclosed, none)),
    freed := d.2.1, safe := d.2.2 }

/-- drop loop of nni_msgq_resize: `while (mq_len > cap + 1) { ...deqGe...; free }` -/
def dropLoop (cap : Nat) : Nat → Msgq → List Msg → Bool → Msgq × List Msg × Bool
  | 0, q, fr, s => (q, fr, s && decide (¬ q.len > cap + 1))
  | f + 1, q, fr, s =>
    if q.len > cap + 1 then
      let d := deqGe q
      dropLoop cap f d.1 (fr ++ [d.2.1]) (s && d.2.2)
    else (q, fr, s)

/-- copy loop of nni_msgq_resize: `while (oldlen) { new[put++] = old[oldget++]; wraps ...}`;
    state: (new array, put, len, oldget, oldlen) -/
def copyLoop (oldq : List (Option Msg)) (oldalloc alloc : Nat) :
    Nat → List (Option Msg) → Nat → Nat → Nat → Nat → Bool → List (Option Msg) × Nat × Nat × Bool
  | 0, nq, put, len, _, oldlen, s => (nq, put, len, s && decide (oldlen = 0))
  | f + 1, nq, put, len, oldget, oldlen, s =>
    if oldlen ≠ 0 then
      let r := rd oldq oldget
      let w := wr nq put r.1
      let oldget := if oldget + 1 = oldalloc then 0 else oldget + 1
      let put := if put + 1 = alloc then 0 else put + 1
      copyLoop oldq oldalloc alloc f w.1 put (len + 1) oldget (oldlen - 1) (s && r.2 && w.2)
    else (nq, put, len, s)

/-- nni_msgq_resize; `allocOk = false` is a failing nni_zalloc (only attempted when growing) -/
def resize (q : Msgq) (cap : Nat) (allocOk : Bool) : Res :=
  let alloc := cap + spare
  let grow := decide (alloc > q.alloc)
  if grow && !allocOk then { q, rv := Err.enomem }
  else
    let d := dropLoop cap q.len q [] true
    let q1 := d.1
    if !grow then { q := { q1 with cap := cap }, rv := 0, freed := d.2.1, safe := d.2.2 }
    else
      let c := copyLoop q1.msgs q1.alloc alloc q1.len (List.replicate alloc none) 0 0 q1.get q1.len true
      { q := { q1 with msgs := c.1, len := c.2.2.1, get := 0, put := c.2.1, cap := cap, alloc := alloc },
        rv := 0, freed := d.2.1, safe := d.2.2 && c.2.2.2 }

def step (q : Msgq) (op : Nng.QSpec.COp) (allocOk : Bool) : Res :=
  match op with
  | .tryput m => tryput q m
  | .aioPut a m => aioPut q a m
  | .aioGet a => aioGet q a
  | .cancel a rv => cancel q a rv
  | .close => close q
  | .resize n => resize q n allocOk

end Nng.Msgq
